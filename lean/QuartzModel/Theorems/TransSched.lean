import QuartzModel.Generated.TransSched
import QuartzModel.Proofs.TransSchedLemmas
import QuartzModel.Theorems.C03
import QuartzModel.Theorems.C04
import QuartzModel.Theorems.C09
/-!
# The hand-written scheduler model IS the translated scheduler code

`Generated.TransSched` is regenerated from `quartz/scheduler.go` + `quartz/trigger.go` by `harness/cmd/gotolean-sched` on
every run.  This file proves that the translated definitions compute what `Sched.Model` computes, for ALL inputs, when the
externals are instantiated with the default-queue model (`TransSched.modelQ`, built from `Queue.qpush` …) and with trigger
objects that behave as `Sched.Trig.fire` (`TransSched.modelT`); and it transfers C03 / C04 / C09 theorems to the
translated code.  A change of the Go code changes the generated definitions and one of these proofs stops checking.

int64: the translated code wraps every int64 `+`/`-` (`i64`); the model computes in `Int`.  The only hypothesis this costs
is `i64 (now - thr) = now - thr` for `validateJob` (no overflow in `now - OutdatedThreshold`; `now ≥ 0`, `0 ≤ thr` suffices)
and the hypotheses of `C04_addNanos_is_satAdd` for `addNanos`.
-/
set_option linter.unusedSimpArgs false

namespace TransSched
open Generated.TransSched Sched Queue

/-- nothing of the listed code is left untranslated and every idiom check passed -/
theorem trans_sched_nothing_missing : Generated.TransSched.missing = [] := by decide

/-! ## Stage 1: triggers -/

/-- translated `addNanos` (with int64 wrap-around) = the model's `satAdd`, under the hypotheses of `C04_addNanos_is_satAdd` -/
theorem trans_addNanos (t d : Int) (ht : -maxInt64 - 1 ≤ t ∧ t ≤ maxInt64) (hd : d ≤ maxInt64)
    (hlow : 0 < d ∨ -maxInt64 - 1 ≤ t + d) : addNanos t d = satAdd t d :=
  addNanos_eq_satAdd t d ht hd hlow

/-- … and = `goAddNanos`, the literal int64 reading used by C04 -/
theorem trans_addNanos_goAddNanos (t d : Int) (ht : -maxInt64 - 1 ≤ t ∧ t ≤ maxInt64) (hd : d ≤ maxInt64)
    (hlow : 0 < d ∨ -maxInt64 - 1 ≤ t + d) : addNanos t d = goAddNanos t d := by
  rw [C04_addNanos_is_satAdd t d ht hd hlow]; exact addNanos_eq_satAdd t d ht hd hlow

/-- `SimpleTrigger.NextFireTime` = `Trig.fire (.simple i)` -/
theorem trans_simpleTrigger_fire (i prev : Int) (hp : I64 prev) (hi : I64 i) (hlow : 0 < i ∨ -maxInt64 - 1 ≤ prev + i) :
    SimpleTrigger.NextFireTime { Interval := i } prev = (((Trig.simple i).fire prev).1.getD 0, none) ∧
    ((Trig.simple i).fire prev).2 = .simple i :=
  simple_fire i prev hp hi hlow

/-- `RunOnceTrigger.NextFireTime` = `Trig.fire (.runOnce d expired)`: same new state, same answer
(`ErrTriggerExpired` ↔ `none`) -/
theorem trans_runOnceTrigger_fire (d prev : Int) (ex : Bool) (hp : I64 prev) (hd : I64 d) (hlow : 0 < d ∨ -maxInt64 - 1 ≤ prev + d) :
    let r := RunOnceTrigger.NextFireTime { Delay := d, Expired := ex } prev
    let m := (Trig.runOnce d ex).fire prev
    Trig.runOnce r.1.Delay r.1.Expired = m.2 ∧
    (match m.1 with
     | some v => r.2 = (v, none)
     | none => r.2 = (0, some ErrTriggerExpired)) :=
  runOnce_fire d prev ex hp hd hlow

/-! ## Stage 2: validateJob = classify, fetchAndReschedule = step -/

/-- `validateJob` = `classify`, for any externals and any state: the Boolean is `cls == valid`, the returned closure is
the one of the class, the only effects are the two log lines / the misfire offer of the class. -/
theorem trans_validateJob {Q H M : Type} (JQ : JobQueueExt Q M) (TR : TriggerExt H) (σ : St Q H) (e : Entry) (now thr : Int)
    (started : Bool) (hnov : i64 (now - thr) = now - thr) :
    let r := validateJob JQ TR (envOf thr started now) σ (some (ofEntry e))
    fnClass r.2.2 = classify e now thr ∧ r.2.1 = (classify e now thr == .valid) ∧
    r.1.queue = σ.queue ∧ r.1.trigs = σ.trigs ∧
    r.1.out = σ.out ++ (match classify e now thr with
      | .outdated => [Event.log "Info" "Job is outdated", Event.misfireOffer (some (ofEntry e))]
      | .notDue => [Event.log "Debug" "Job is not due to run yet"]
      | _ => []) ∧
    r.2.2 = (match classify e now thr with
      | .suspended => .lit0
      | .outdated => .lit1 (some (ofEntry e)) now
      | .notDue => .lit2 (some (ofEntry e))
      | .valid => .lit3 (some (ofEntry e))) :=
  validateJob_spec JQ TR σ e now thr started hnov

/-- **`fetchAndReschedule` = `Sched.step`.**  Run on the default-queue model and `Trig.fire` trigger objects, the
translated dispatch step yields exactly the model's new state and the model's `StepOut` (read off the translated
run by `absStep`: returned job ↦ `popped`, `valid` ↦ `dispatched`, misfire offer ↦ `misfired`, trigger call log ↦
`calls`, queue push log ↦ `pushed`, class decoded from `valid` and the events). -/
theorem trans_fetchAndReschedule (s : SState) (now thr : Int) (started : Bool) (hnov : i64 (now - thr) = now - thr) :
    absStep (fetchAndReschedule modelQ modelT (envOf thr started now) (stOf s)) = Sched.step s now thr := by
  unfold Sched.step
  cases hq : qpop s.q with
  | error err =>
    cases err <;>
    simp [fetchAndReschedule, St.callQ, St.emit, modelQ, stOf, hq, qerr, absStep, ssOf, hasMisfire, isMisfire, newIllegalStateError, errorf2, errorsIs, ErrQueueEmpty, ErrIllegalState, ErrJobNotFound, ErrJobAlreadyExists, Err.is] <;>
    split <;> simp
  | ok r =>
    obtain ⟨q', e⟩ := r
    simp only [fetchAndReschedule, St.callQ, St.callT, St.emit, modelQ, modelT, stOf, hq, validateJob, validateJob.Fn.call, envOf,
      deref_some, scheduledJob.JobDetail, scheduledJob.NextRunTime, scheduledJob.Trigger, ofEntry, toEntry, hnov, classify, Option.isSome_none,
      Bool.false_eq_true, if_false, decide_eq_true_eq, SState.trig, SState.setTrig, maxInt64, List.nil_append]
    by_cases hs : e.suspended = true
    · simp only [if_pos hs]
      generalize hp : qpush q' { e with prio := 9223372036854775807 } = pr
      cases pr with
      | ok q'' =>
        simp [absStep, ssOf, hasMisfire, isMisfire, clsOf, toEntry]
      | error er =>
        simp [absStep, ssOf, hasMisfire, isMisfire, clsOf, toEntry, qerr_isSome]
    · simp only [if_neg hs]
      by_cases h1 : e.prio < now - thr
      · simp only [if_pos h1, deref_some]
        generalize hf : ((List.lookup e.tag s.trigs).getD (Trig.script [])).fire now = fr
        obtain ⟨ro, t'⟩ := fr
        cases ro with
        | none => simp [absStep, ssOf, hasMisfire, isMisfire, clsOf, toEntry]
        | some p =>
          simp only [Option.isSome_none, Bool.false_eq_true, if_false]
          generalize hp : qpush q' { e with prio := p } = pr
          cases pr with
          | ok q'' => simp [absStep, ssOf, hasMisfire, isMisfire, clsOf, toEntry]
          | error er => simp [absStep, ssOf, hasMisfire, isMisfire, clsOf, toEntry, qerr_isSome]
      · simp only [if_neg h1]
        by_cases h2 : e.prio > now
        · simp only [if_pos h2, deref_some]
          generalize hp : qpush q' { e with prio := e.prio } = pr
          cases pr with
          | ok q'' => simp [absStep, ssOf, hasMisfire, isMisfire, clsOf, toEntry]
          | error er => simp [absStep, ssOf, hasMisfire, isMisfire, clsOf, toEntry, qerr_isSome]
        · simp only [if_neg h2, deref_some]
          generalize hf : ((List.lookup e.tag s.trigs).getD (Trig.script [])).fire e.prio = fr
          obtain ⟨ro, t'⟩ := fr
          cases ro with
          | none => simp [absStep, ssOf, hasMisfire, isMisfire, clsOf, toEntry]
          | some p =>
            simp only [Option.isSome_none, Bool.false_eq_true, if_false]
            generalize hp : qpush q' { e with prio := p } = pr
            cases pr with
            | ok q'' => simp [absStep, ssOf, hasMisfire, isMisfire, clsOf, toEntry]
            | error er => simp [absStep, ssOf, hasMisfire, isMisfire, clsOf, toEntry, qerr_isSome]

/-! ## Transfer of C03 / C04 to the translated code -/

/-- `C03_never_early` for the translated `fetchAndReschedule` (default-queue model): a run that returns `valid = true`
with job `j` has `j.priority ≤ now`, `now - thr ≤ j.priority`, and `j` is not suspended. -/
theorem C03_never_early_trans (s : SState) (now thr : Int) (started : Bool) (hnov : i64 (now - thr) = now - thr)
    (j : scheduledJob)
    (hv : (fetchAndReschedule modelQ modelT (envOf thr started now) (stOf s)).2.2.1 = true)
    (hj : (fetchAndReschedule modelQ modelT (envOf thr started now) (stOf s)).2.1 = some j) :
    j.priority ≤ now ∧ now - thr ≤ j.priority ∧ (deref (deref j.job).opts).Suspended = false := by
  have heq := trans_fetchAndReschedule s now thr started hnov
  have h := C03_never_early s now thr (toEntry j)
    (by rw [← heq]; exact hv) (by rw [← heq]; simp only [absStep, hj, Option.map_some])
  exact ⟨h.1, h.2.1, h.2.2.1⟩

/-- **C03 for ANY queue and ANY trigger implementation** (no model instance involved): whenever the translated
`fetchAndReschedule` returns `valid = true`, the job it returns is the one the queue's `Pop` delivered (without error),
its fire time is not after the clock reading, not more than the threshold before it (in int64 arithmetic), and the job
is not suspended. -/
theorem C03_never_early_any_queue {Q H M : Type} (JQ : JobQueueExt Q M) (TR : TriggerExt H) (env : Env) (σ : St Q H)
    (hv : (fetchAndReschedule JQ TR env σ).2.2.1 = true) :
    (fetchAndReschedule JQ TR env σ).2.1 = (JQ.Pop σ.queue).2.1 ∧ (JQ.Pop σ.queue).2.2 = none ∧
    (deref (fetchAndReschedule JQ TR env σ).2.1).priority ≤ env.now ∧
    i64 (env.now - env.opts.OutdatedThreshold) ≤ (deref (fetchAndReschedule JQ TR env σ).2.1).priority ∧
    (deref (deref (deref (fetchAndReschedule JQ TR env σ).2.1).job).opts).Suspended = false := by
  by_cases c0 : (JQ.Pop σ.queue).2.2.isSome = true
  · exfalso
    simp [fetchAndReschedule, St.callQ, c0, apply_ite Prod.snd, apply_ite Prod.fst] at hv
  · have c0' : (JQ.Pop σ.queue).2.2 = none := by simpa using c0
    simp only [fetchAndReschedule, St.callQ, c0, if_false, Bool.false_eq_true, validateJob, scheduledJob.JobDetail, scheduledJob.NextRunTime] at hv ⊢
    by_cases c1 : (deref (deref (deref (JQ.Pop σ.queue).2.1).job).opts).Suspended = true
    · simp [c1, apply_ite Prod.snd, apply_ite Prod.fst] at hv
    · by_cases c2 : (deref (JQ.Pop σ.queue).2.1).priority < i64 (env.now - env.opts.OutdatedThreshold)
      · simp [c1, c2, apply_ite Prod.snd, apply_ite Prod.fst] at hv
      · by_cases c3 : (deref (JQ.Pop σ.queue).2.1).priority > env.now
        · simp [c1, c2, c3, apply_ite Prod.snd, apply_ite Prod.fst] at hv
        · simp [c1, c2, c3, c0', apply_ite Prod.snd, apply_ite Prod.fst]
          exact ⟨Int.not_lt.mp c3, Int.not_lt.mp c2⟩

/-- `C04_misfire_iff_late` for the translated code: the popped job is offered to the misfire channel exactly when it
is active and the loop is more than the threshold late for it. -/
theorem C04_misfire_iff_late_trans (s : SState) (now thr : Int) (started : Bool) (hnov : i64 (now - thr) = now - thr)
    (j : scheduledJob)
    (hj : (fetchAndReschedule modelQ modelT (envOf thr started now) (stOf s)).2.1 = some j) :
    hasMisfire (fetchAndReschedule modelQ modelT (envOf thr started now) (stOf s)).1.out = true ↔
      ((deref (deref j.job).opts).Suspended = false ∧ now - j.priority > thr) := by
  have heq := trans_fetchAndReschedule s now thr started hnov
  have h := C04_misfire_iff_late s now thr (toEntry j) (by rw [← heq]; simp only [absStep, hj, Option.map_some])
  rw [← heq] at h
  exact h

/-- `C04_accounted` for the translated code: the statement of `C04_accounted` with `step s now thr` replaced by what
`absStep` reads off the translated run. -/
theorem C04_accounted_trans (s : SState) (now thr : Int) (started : Bool) (hnov : i64 (now - thr) = now - thr)
    (h : Inv s.q) (e : Entry)
    (hp : (absStep (fetchAndReschedule modelQ modelT (envOf thr started now) (stOf s))).2.popped = some e)
    (hs : e.suspended = false) :
    let r := absStep (fetchAndReschedule modelQ modelT (envOf thr started now) (stOf s))
    (∃ rest : List Entry, s.q.toList.Perm (e :: rest) ∧ r.1.q.toList.Perm (r.2.pushed.toList ++ rest)) ∧
    ((r.2.cls = some .valid ∧ r.2.dispatched = true ∧ r.2.misfired = false ∧ now - thr ≤ e.prio ∧ e.prio ≤ now ∧
        ∃ a, a = ((s.trig e.tag).fire e.prio).1 ∧ r.2.calls = [⟨e.tag, e.prio, a⟩] ∧
          r.2.pushed = a.map (fun p => { e with prio := p }) ∧ r.1.trig e.tag = ((s.trig e.tag).fire e.prio).2) ∨
     (r.2.cls = some .outdated ∧ r.2.dispatched = false ∧ r.2.misfired = true ∧ now - e.prio > thr ∧
        ∃ a, a = ((s.trig e.tag).fire now).1 ∧ r.2.calls = [⟨e.tag, now, a⟩] ∧
          r.2.pushed = a.map (fun p => { e with prio := p }) ∧ r.1.trig e.tag = ((s.trig e.tag).fire now).2) ∨
     (r.2.cls = some .notDue ∧ r.2.dispatched = false ∧ r.2.misfired = false ∧ now < e.prio ∧
        r.2.calls = [] ∧ r.2.pushed = some e ∧ r.1.trigs = s.trigs)) := by
  intro r
  have heq : r = Sched.step s now thr := trans_fetchAndReschedule s now thr started hnov
  rw [heq]
  exact C04_accounted s now thr h e (by rw [← heq]; exact hp) hs

/-! ## Stage 3: the registry methods -/

/-- a `*JobKey` argument (`hasKey = false`: nil) -/
def keyOf (hasKey : Bool) (g n : String) : Option JobKey := if hasKey then some { name := n, group := g } else none

theorem absErr_some_ne_none (e : Err) : absErr (some e) ≠ none := by
  simp only [absErr]
  repeat' split
  all_goals simp

theorem absErr_eq_none {e : Option Err} : absErr e = none ↔ e = none := by
  cases e with
  | none => simp [absErr]
  | some x => simp [absErr_some_ne_none]

theorem qerr_ne_none (e : QErr) : (qerr e = none) = False := by cases e <;> simp [qerr, newIllegalStateError, errorf2]
theorem qerr_isNone (e : QErr) : (qerr e).isNone = false := by cases e <;> rfl

theorem absErr_illegal (msg : String) : absErr (newIllegalArgumentError msg) = some .illegalArgument := by
  simp [absErr, newIllegalArgumentError, errorf1, Err.is, ErrIllegalArgument]

theorem trans_DeleteJob (s : SState) (env : Env) (hk : Bool) (g n : String) :
    let r := DeleteJob modelQ modelT env (stOf s) (keyOf hk g n)
    ssOf r.1 = (delete s hk g n).1 ∧ absErr r.2 = (delete s hk g n).2 ∧ r.1.trigs.2 = [] := by
  cases hk with
  | false => simp [DeleteJob, keyOf, delete, absErr_illegal, stOf, ssOf]
  | true =>
    simp only [DeleteJob, keyOf, delete, if_true, Option.isNone_some, Bool.false_eq_true, if_false, St.callQ, modelQ, stOf,
      deref_some, Bool.not_true]
    generalize hr : qremove s.q g n = rr
    cases rr with
    | ok v => obtain ⟨q', e⟩ := v; cases env.started <;> simp [St.emit, ssOf, absErr]
    | error er => simp [qerr_isNone, ssOf, absErr_qerr]

theorem trans_Clear (s : SState) (env : Env) :
    let r := Clear modelQ modelT env (stOf s)
    ssOf r.1 = clear s ∧ r.2 = none ∧ r.1.trigs.2 = [] := by
  cases h : env.started <;> simp [Clear, St.callQ, modelQ, stOf, St.emit, ssOf, clear, h]

theorem trans_GetScheduledJob (s : SState) (env : Env) (hk : Bool) (g n : String) :
    let r := GetScheduledJob modelQ modelT env (stOf s) (keyOf hk g n)
    ssOf r.1 = s ∧
    (match getJob s hk g n with
     | .ok e => r.2 = (some (ofEntry e), none)
     | .error x => r.2.1 = none ∧ absErr r.2.2 = some x) := by
  cases hk with
  | false => simp [GetScheduledJob, keyOf, getJob, absErr_illegal, stOf, ssOf]
  | true =>
    simp only [GetScheduledJob, keyOf, getJob, if_true, Option.isNone_some, Bool.false_eq_true, if_false, St.callQ, modelQ, stOf,
      deref_some, Bool.not_true]
    generalize hr : qget s.q g n = rr
    cases rr with
    | ok e => simp [ssOf]
    | error er => simp [ssOf, absErr_qerr]

theorem foldl_append_singleton {α β : Type} (f : α → β) (l : List α) (init : List β) :
    l.foldl (fun acc x => acc ++ [f x]) init = init ++ l.map f := by
  induction l generalizing init with
  | nil => simp
  | cons a l ih => simp [ih]

theorem trans_GetJobKeys (s : SState) (env : Env) (ms : List Matcher) :
    let r := GetJobKeys modelQ modelT env (stOf s) ms
    ssOf r.1 = s ∧ r.2 = ((jobKeys s ms).map (fun p => some { name := p.2, group := p.1 }), none) := by
  simp only [GetJobKeys, St.callQ, modelQ, stOf, Option.isSome_none, Bool.false_eq_true, if_false, jobKeys]
  rw [foldl_append_singleton (fun scheduled => (deref (scheduledJob.JobDetail (deref scheduled))).jobKey)]
  simp [ssOf, scheduledJob.JobDetail, ofEntry, Function.comp_def]

theorem absErr_suspended : absErr (newIllegalStateError (some ErrJobIsSuspended)) = some .jobIsSuspended := by decide
theorem absErr_active : absErr (newIllegalStateError (some ErrJobIsActive)) = some .jobIsActive := by decide
theorem absErr_expired : absErr (some ErrTriggerExpired) = some .triggerError := by decide

theorem trans_PauseJob (s : SState) (env : Env) (hk : Bool) (g n : String) :
    let r := PauseJob modelQ modelT env (stOf s) (keyOf hk g n)
    ssOf r.1 = (pause s hk g n).1 ∧ absErr r.2 = (pause s hk g n).2 ∧ r.1.trigs.2 = [] := by
  cases hk with
  | false => simp [PauseJob, keyOf, pause, absErr_illegal, stOf, ssOf]
  | true =>
    simp only [PauseJob, keyOf, pause, if_true, Option.isNone_some, Bool.false_eq_true, if_false, St.callQ, modelQ, stOf,
      deref_some, Bool.not_true]
    generalize hr : qget s.q g n = rr
    cases rr with
    | error er => simp [qerr_isSome, ssOf, absErr_qerr]
    | ok e =>
      simp only [Option.isSome_none, Bool.false_eq_true, if_false, deref_some, scheduledJob.JobDetail, ofEntry]
      try simp only [Option.isSome_none, Bool.false_eq_true, if_false, deref_some, scheduledJob.JobDetail, ofEntry]
      by_cases hs : e.suspended = true
      · simp [ssOf, absErr_suspended, hs]
      · have hs' : e.suspended = false := by simpa using hs
        simp only [hs', Bool.false_eq_true, if_false]
        cases hrm : qremove s.q g n with
        | error er => simp [hrm, qerr_isNone, ssOf, absErr_qerr]
        | ok v =>
          obtain ⟨q', j⟩ := v
          cases hp : qpush q' { j with prio := 9223372036854775807, suspended := true } with
          | ok q'' => cases hst : env.started <;> simp [hrm, hp, hst, St.emit, ssOf, absErr, toEntry, scheduledJob.JobDetail, scheduledJob.Trigger, maxInt64]
          | error er => simp [hrm, hp, qerr_isNone, ssOf, absErr_qerr, toEntry, scheduledJob.JobDetail, scheduledJob.Trigger, maxInt64]

theorem trans_ResumeJob (s : SState) (env : Env) (hk : Bool) (g n : String) :
    let r := ResumeJob modelQ modelT env (stOf s) (keyOf hk g n)
    let m := resume s env.now hk g n
    ssOf r.1 = m.1 ∧ absErr r.2 = m.2.1 ∧ r.1.trigs.2 = m.2.2 := by
  cases hk with
  | false => simp [ResumeJob, keyOf, resume, absErr_illegal, stOf, ssOf]
  | true =>
    simp only [ResumeJob, keyOf, resume, if_true, Option.isNone_some, Bool.false_eq_true, if_false, St.callQ, St.callT, modelQ, modelT, stOf,
      deref_some, Bool.not_true, SState.trig, SState.setTrig]
    cases hr : qget s.q g n with
    | error er => simp [qerr_isSome, ssOf, absErr_qerr]
    | ok e =>
      cases hs : e.suspended with
      | false => simp [ssOf, absErr_active, hs, scheduledJob.JobDetail, ofEntry]
      | true =>
        cases hf : ((List.lookup e.tag s.trigs).getD (Trig.script [])).fire env.now with
        | mk ro t' =>
          cases ro with
          | none => simp [hs, hf, scheduledJob.JobDetail, scheduledJob.Trigger, ofEntry, ssOf, absErr_expired]
          | some p =>
            cases hrm : qremove s.q g n with
            | error er => simp [hs, hf, hrm, scheduledJob.JobDetail, scheduledJob.Trigger, ofEntry, ssOf, qerr_isNone, absErr_qerr]
            | ok v =>
              obtain ⟨q', j⟩ := v
              cases hp : qpush q' { j with prio := p, suspended := false } with
              | ok q'' =>
                cases hst : env.started <;>
                simp [hs, hf, hrm, hp, hst, St.emit, scheduledJob.JobDetail, scheduledJob.Trigger, ofEntry, toEntry, ssOf, absErr]
              | error er =>
                simp [hs, hf, hrm, hp, scheduledJob.JobDetail, scheduledJob.Trigger, ofEntry, toEntry, ssOf, qerr_isNone, absErr_qerr]

/-- the `*JobDetail` argument of `ScheduleJob` described by the model's `SchedArgs` -/
def detailOf (a : SchedArgs) : Option JobDetail :=
  if a.hasDetail then
    some { job := none, jobKey := if a.hasKey then some { name := a.name, group := a.group } else none,
           opts := some { Suspended := a.suspended, Replace := a.replace } }
  else none

/-- the `Trigger` argument: the identity `a.tag` of the trigger object (nil if there is none) -/
def trigRefOf (a : SchedArgs) : Option TRef := a.trig.map (fun _ => a.tag)

/-- the trigger object handed to `ScheduleJob` exists, under its identity `a.tag`, before the call -/
def withTrig (s : SState) (a : SchedArgs) : SState :=
  match a.trig with
  | some t => s.setTrig a.tag t
  | none => s

theorem filter_setTrig (l : List (Nat × Trig)) (tag : Nat) (t : Trig) :
    List.filter (fun p => p.1 != tag) ((tag, t) :: List.filter (fun p => p.1 != tag) l) = List.filter (fun p => p.1 != tag) l := by
  simp [List.filter_cons, List.filter_filter]

theorem trans_ScheduleJob (s : SState) (env : Env) (a : SchedArgs) :
    let r := ScheduleJob modelQ modelT env (stOf (withTrig s a)) (detailOf a) (trigRefOf a)
    let m := schedule s env.now a
    r.1.queue.1 = m.1.q ∧ absErr r.2 = m.2.1 ∧ r.1.trigs.2 = m.2.2 ∧ (m.2.1 = none → ssOf r.1 = m.1) := by
  obtain ⟨hd, hkey, grp, nm, susp, repl, tag, trig⟩ := a
  cases hd with
  | false => cases trig <;> simp [ScheduleJob, detailOf, schedule, absErr_illegal, stOf, withTrig, SState.setTrig]
  | true =>
    cases hkey with
    | false => cases trig <;> simp [ScheduleJob, detailOf, schedule, absErr_illegal, stOf, withTrig, SState.setTrig]
    | true =>
      by_cases hn : nm = ""
      · cases trig <;> simp [ScheduleJob, detailOf, schedule, absErr_illegal, stOf, withTrig, hn, SState.setTrig]
      · cases trig with
        | none => simp [ScheduleJob, detailOf, trigRefOf, schedule, absErr_illegal, stOf, withTrig, hn]
        | some t =>
          cases susp with
          | true =>
            cases hp : qpush s.q { group := grp, name := nm, prio := maxInt64, suspended := true, replace := repl, tag := tag } with
            | ok q' =>
              cases hst : env.started <;>
              simp [ScheduleJob, detailOf, trigRefOf, schedule, stOf, withTrig, hn, St.callQ, St.emit, modelQ, toEntry, hp, hst, ssOf, absErr, SState.setTrig, maxInt64] <;>
              simp [maxInt64] at hp <;> simp [hp, ssOf, absErr]
            | error er =>
              simp [ScheduleJob, detailOf, trigRefOf, schedule, stOf, withTrig, hn, St.callQ, St.emit, modelQ, toEntry, hp, ssOf, absErr_qerr, qerr_isNone, qerr_ne_none, SState.setTrig, maxInt64] <;>
              simp [maxInt64] at hp <;> simp [hp, ssOf, absErr_qerr, qerr_isNone, qerr_ne_none]
          | false =>
            cases hf : t.fire env.now with
            | mk ro t' =>
              cases ro with
              | none =>
                simp [ScheduleJob, detailOf, trigRefOf, schedule, stOf, withTrig, hn, St.callQ, St.callT, St.emit, modelQ, modelT, toEntry, hf, ssOf, absErr_expired, SState.setTrig]
              | some p =>
                cases hp : qpush s.q { group := grp, name := nm, prio := p, suspended := false, replace := repl, tag := tag } with
                | ok q' =>
                  cases hst : env.started <;>
                  simp [ScheduleJob, detailOf, trigRefOf, schedule, stOf, withTrig, hn, St.callQ, St.callT, St.emit, modelQ, modelT, toEntry, hf, hp, hst, ssOf, absErr, SState.setTrig, List.filter_filter]
                | error er =>
                  simp [ScheduleJob, detailOf, trigRefOf, schedule, stOf, withTrig, hn, St.callQ, St.callT, St.emit, modelQ, modelT, toEntry, hf, hp, ssOf, absErr_qerr, qerr_isNone, qerr_ne_none, SState.setTrig]

/-! ## Transfer of C09 (a call that returns an error leaves the registry unchanged) to the translated code -/

theorem C09_delete_error_unchanged_trans (s : SState) (env : Env) (hk : Bool) (g n : String)
    (herr : (DeleteJob modelQ modelT env (stOf s) (keyOf hk g n)).2 ≠ none) :
    (DeleteJob modelQ modelT env (stOf s) (keyOf hk g n)).1.queue.1 = s.q := by
  obtain ⟨h1, h2, _⟩ := trans_DeleteJob s env hk g n
  have hm : (delete s hk g n).2 ≠ none := by rw [← h2]; exact fun h => herr (absErr_eq_none.mp h)
  have := C09_delete_error_unchanged s hk g n hm
  rw [← h1] at this; exact this

theorem C09_pause_error_unchanged_trans (s : SState) (env : Env) (hk : Bool) (g n : String) (h : Inv s.q)
    (herr : (PauseJob modelQ modelT env (stOf s) (keyOf hk g n)).2 ≠ none) :
    (PauseJob modelQ modelT env (stOf s) (keyOf hk g n)).1.queue.1 = s.q := by
  obtain ⟨h1, h2, _⟩ := trans_PauseJob s env hk g n
  have hm : (pause s hk g n).2 ≠ none := by rw [← h2]; exact fun h => herr (absErr_eq_none.mp h)
  have := C09_pause_error_unchanged s hk g n h hm
  rw [← h1] at this; exact this

theorem C09_resume_error_unchanged_trans (s : SState) (env : Env) (hk : Bool) (g n : String) (h : Inv s.q)
    (herr : (ResumeJob modelQ modelT env (stOf s) (keyOf hk g n)).2 ≠ none) :
    (ResumeJob modelQ modelT env (stOf s) (keyOf hk g n)).1.queue.1 = s.q := by
  obtain ⟨h1, h2, _⟩ := trans_ResumeJob s env hk g n
  have hm : (resume s env.now hk g n).2.1 ≠ none := by rw [← h2]; exact fun h => herr (absErr_eq_none.mp h)
  have := C09_resume_error_unchanged s env.now hk g n h hm
  rw [← h1] at this; exact this

theorem C09_schedule_error_unchanged_trans (s : SState) (env : Env) (a : SchedArgs)
    (herr : (ScheduleJob modelQ modelT env (stOf (withTrig s a)) (detailOf a) (trigRefOf a)).2 ≠ none) :
    (ScheduleJob modelQ modelT env (stOf (withTrig s a)) (detailOf a) (trigRefOf a)).1.queue.1 = s.q := by
  obtain ⟨h1, h2, _, _⟩ := trans_ScheduleJob s env a
  have hm : (schedule s env.now a).2.1 ≠ none := by rw [← h2]; exact fun h => herr (absErr_eq_none.mp h)
  rw [h1]; exact C09_schedule_error_unchanged s env.now a hm

/-- each sentinel: the translated call fails with an error that `errors.Is` the documented sentinel exactly when the
model reports that error (read through `absErr`); e.g. for `DeleteJob` -/
theorem C09_delete_error_iff_trans (s : SState) (env : Env) (hk : Bool) (g n : String) (h : Inv s.q) :
    (absErr (DeleteJob modelQ modelT env (stOf s) (keyOf hk g n)).2 = some .illegalArgument ↔ hk = false) ∧
    (absErr (DeleteJob modelQ modelT env (stOf s) (keyOf hk g n)).2 = some .jobNotFound ↔ hk = true ∧ ¬ hasKey s.q g n) ∧
    (absErr (DeleteJob modelQ modelT env (stOf s) (keyOf hk g n)).2 = none ↔ hk = true ∧ hasKey s.q g n) := by
  rw [(trans_DeleteJob s env hk g n).2.1]
  exact C09_delete_error_iff s hk g n h

/-! ## Non-vacuity -/

def exA : SchedArgs := { group := "g", name := "a", tag := 1, trig := some (.simple 10) }
def exB : SchedArgs := { group := "g", name := "b", tag := 2, trig := some (.runOnce 5 false) }
/-- "a" fires at 10, "b" at 6 -/
def exS : SState := (schedule (schedule {} 0 exA).1 1 exB).1

example : i64 (6 - 3) = 6 - 3 ∧ i64 (100 - 3) = 100 - 3 := by decide
-- on time (now = 6): "b" is returned for execution; its run-once trigger (already asked once by ScheduleJob) is asked with
-- the scheduled time, reports that it has expired, and the job leaves the queue
example : (fetchAndReschedule modelQ modelT (envOf 3 true 6) (stOf exS)).2.2.1 = true ∧
    ((fetchAndReschedule modelQ modelT (envOf 3 true 6) (stOf exS)).2.1.map toEntry).map (·.name) = some "b" ∧
    (fetchAndReschedule modelQ modelT (envOf 3 true 6) (stOf exS)).1.trigs.2 = [⟨2, 6, none⟩] ∧
    (fetchAndReschedule modelQ modelT (envOf 3 true 6) (stOf exS)).1.queue.1.size = 1 := by decide +kernel
-- on time for "a" alone (now = 10): valid, the interval trigger is asked with the scheduled time, "a" goes back with 20
example : (fetchAndReschedule modelQ modelT (envOf 3 true 10) (stOf (schedule {} 0 exA).1)).2.2.1 = true ∧
    (fetchAndReschedule modelQ modelT (envOf 3 true 10) (stOf (schedule {} 0 exA).1)).1.trigs.2 = [⟨1, 10, some 20⟩] ∧
    (fetchAndReschedule modelQ modelT (envOf 3 true 10) (stOf (schedule {} 0 exA).1)).1.queue.2.map (·.prio) = [20] ∧
    (fetchAndReschedule modelQ modelT (envOf 3 true 10) (stOf (schedule {} 0 exA).1)).1.out =
      [.log "Trace" "Successfully rescheduled job", .reset] := by decide +kernel
-- late (now = 10 > 6 + 3): misfire offer, not valid, trigger asked with the clock
example : (fetchAndReschedule modelQ modelT (envOf 3 true 10) (stOf exS)).2.2.1 = false ∧
    hasMisfire (fetchAndReschedule modelQ modelT (envOf 3 true 10) (stOf exS)).1.out = true ∧
    (fetchAndReschedule modelQ modelT (envOf 3 true 10) (stOf exS)).1.trigs.2 = [⟨2, 10, none⟩] := by decide +kernel
-- early (now = 5): not due, pushed back unchanged, no trigger call
example : (absStep (fetchAndReschedule modelQ modelT (envOf 3 true 5) (stOf exS))).2.cls = some .notDue ∧
    (absStep (fetchAndReschedule modelQ modelT (envOf 3 true 5) (stOf exS))).2.calls = [] := by decide +kernel
example : Inv exS.q := schedule_inv _ _ _ (schedule_inv _ _ _ inv_empty)
example : addNanos 100 maxInt64 = maxInt64 ∧ addNanos 5 10 = 15 ∧ addNanos (maxInt64 - 3) 4 = maxInt64 := by decide
example : I64 100 ∧ I64 maxInt64 ∧ (0 < maxInt64 ∨ -maxInt64 - 1 ≤ 100 + maxInt64) := by unfold I64; decide
example : RunOnceTrigger.NextFireTime { Delay := 5, Expired := true } 7 = ({ Delay := 5, Expired := true }, (0, some ErrTriggerExpired)) := by decide

-- registry: a failing and a succeeding call of each kind
example : absErr (DeleteJob modelQ modelT (envOf 3 true 5) (stOf exS) (keyOf true "g" "zz")).2 = some .jobNotFound ∧
    (DeleteJob modelQ modelT (envOf 3 true 5) (stOf exS) (keyOf true "g" "a")).2 = none ∧
    (DeleteJob modelQ modelT (envOf 3 true 5) (stOf exS) (keyOf true "g" "a")).1.out =
      [.log "Debug" "Successfully deleted job", .reset] := by decide +kernel
example : (PauseJob modelQ modelT (envOf 3 false 5) (stOf exS) (keyOf true "g" "a")).2 = none ∧
    absErr (PauseJob modelQ modelT (envOf 3 false 5)
      (PauseJob modelQ modelT (envOf 3 false 5) (stOf exS) (keyOf true "g" "a")).1 (keyOf true "g" "a")).2 = some .jobIsSuspended := by
  decide +kernel
example : absErr (ResumeJob modelQ modelT (envOf 3 false 5) (stOf exS) (keyOf true "g" "a")).2 = some .jobIsActive := by decide +kernel
example : absErr (ScheduleJob modelQ modelT (envOf 3 false 5) (stOf (withTrig exS exA)) (detailOf exA) (trigRefOf exA)).2 =
    some .jobAlreadyExists := by decide +kernel
example : (GetJobKeys modelQ modelT (envOf 3 false 5) (stOf exS) []).2.1.length = 2 := by decide +kernel

end TransSched
