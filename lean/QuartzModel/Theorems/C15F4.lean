import QuartzModel.Theorems.C15
/-!
# C15, known finding F4 (`size-head-retried-per-interrupt`): the full-strength rate clause is FALSE for the loop's read-only calls

"The execution loop retries a failing queue no faster than once per RetryInterval." For `Pop()` / `Push()` failures this holds whatever
interrupts arrive (`C15_backoff`, second clause; `C15_deadline_not_postponed`). For a failing `Size()` (and likewise `Head()`) the source
only arms the timer with RetryInterval (`case err != nil: timer.Reset(RetryInterval)`) and sets no deadline, so an interrupt — every
successful mutating API call sends one — ends the wait and the next iteration asks the failing queue again at once. `C15_backoff`'s
first clause therefore carries the hypothesis `interrupted = false`. Here the clause WITHOUT that hypothesis is stated and refuted for the
shape regenerated from the current source, with a two-iteration witness that `qh faults` replays on the real code on every run
(plans "every loop-side size / head call fails … while an unrelated job is scheduled every 10 ms").
-/
namespace Faults

/-- the clause at full strength for `Size()`: after an iteration whose `Size()` failed, the next iteration (which begins with the
next `Size()` call) does not start before RetryInterval has passed, whatever ended the wait -/
def SizeRetryKept (S : Shape) (c : Cfg) (trig : Trig) : Prop :=
  ∀ (st0 : BState) (prev : Int) (ins : List In), WellTimed S c trig st0 prev ins →
    ∀ (k : Nat) (ik ij : In), ins[k]? = some ik → ins[k + 1]? = some ij → ik.size = none →
      ik.now1 + c.R ≤ ij.now1

/-- the environment of the witness: `Size()` fails; 1 ms after the timer was armed an interrupt arrives (some API call
succeeded); the next iteration starts at 2 ms and asks `Size()` again, RetryInterval being 50 ms -/
def f4Iter (t : Int) : In :=
  { size := none, now1 := t, head := .empty, now2 := t, tArm := t, interrupted := true, tickAt := t + 1,
    pop := .empty, size2 := none, nowVal := t + 1, pushOk := true, nowErr := t + 1 }

def f4Cfg : Cfg := { R := 50, M := 1000000, thr := 100 }

theorem C15_size_retry_full_fails :
    ¬ SizeRetryKept Generated.Faults.shape f4Cfg (fun _ _ => none) := by
  intro h
  have hw : WellTimed Generated.Faults.shape f4Cfg (fun _ _ => none) {} 0 [f4Iter 0, f4Iter 2] := by decide
  have := h {} 0 [f4Iter 0, f4Iter 2] hw 0 (f4Iter 0) (f4Iter 2) rfl rfl rfl
  revert this
  decide

/-- the same run seen through `C15_backoff`: both iterations report the `Size()` error (`armErr`), each armed RetryInterval, and
the second one started 2 ms after the first — the interrupt made the difference -/
example :
    let r := (runLoop Generated.Faults.shape f4Cfg (fun _ _ => none) {} [f4Iter 0, f4Iter 2]).1
    r.map (fun o => (o.armErr, o.armed)) = [(true, 50), (true, 50)] := by decide

end Faults
