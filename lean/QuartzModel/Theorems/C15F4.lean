import QuartzModel.Theorems.C15
/-!
# C15, finding F4 (`size-head-retried-per-interrupt`, repaired): the full-strength rate clause for the loop's read-only calls

"The execution loop retries a failing queue no faster than once per RetryInterval." For `Pop()` / `Push()` failures this held whatever
interrupts arrive (`C15_backoff`, second clause; `C15_deadline_not_postponed`). For a failing `Size()` (and likewise `Head()`) the source
used to only arm the timer with RetryInterval (`case err != nil: timer.Reset(RetryInterval)`) and set no deadline, so an interrupt — every
successful mutating API call sends one — ended the wait and the next iteration asked the failing queue again at once. The repair tests
the back-off deadline BEFORE asking `Size()` and sets it on `Size()` / `Head()` failures too.

Here the clause is stated at full strength (`SizeRetryKept`: no hypothesis on what ended the wait, any later iteration, not only the next)
and
* PROVED for every well-formed shape (`C15_size_retry_kept_wf`) and so for the shape regenerated from the current source
  (`C15_size_retry_kept`);
* REFUTED for the shape before the repair (`askFirst`: `Size()` asked at the top of every iteration, no deadline set by its failure) with the
  two-iteration witness that `qh faults` replays on the real code on every run (plans "every loop-side size / head call fails … while
  an unrelated job is scheduled every 10 ms"): `C15_size_retry_full_fails`, a negative control like `C15_backoff_fails_without_flag`.
-/
namespace Faults

/-- the clause at full strength for `Size()`: after an iteration that asked `Size()` and got an error, no later iteration asks
`Size()` (the call an iteration begins with, unless it is backing off) before RetryInterval has passed, whatever ended the waits in
between -/
def SizeRetryKept (S : Shape) (c : Cfg) (trig : Trig) : Prop :=
  ∀ (st0 : BState) (prev : Int) (ins : List In), WellTimed S c trig st0 prev ins →
    ∀ (k j : Nat) (ik ij : In) (ok oj : Out) (o : Outcome), k < j → ins[k]? = some ik → ins[j]? = some ij →
      (runLoop S c trig st0 ins).1[k]? = some ok → (runLoop S c trig st0 ins).1[j]? = some oj →
      ok.calls.head? = some (.size, .err) → oj.calls.head? = some (.size, o) →
      ik.now1 + c.R ≤ ij.now1

/-- an iteration whose first call is a failed `Size()` reports it as `armErr` (any shape) -/
theorem armErr_of_size_err (S : Shape) (c : Cfg) (trig : Trig) (st : BState) (i : In)
    (h : (iter S c trig st i).calls.head? = some (.size, .err)) : (iter S c trig st i).armErr = true := by
  rw [iter_calls_eq] at h
  rw [iter_armErr_eq]
  cases hsk : skipsSize S st i.now1
  · cases hs : i.size with
    | none => simp
    | some n => simp [hsk, hs] at h
  · simp only [hsk, Bool.not_true, Bool.false_eq_true, ↓reduceIte, List.nil_append] at h
    by_cases hn : chooseArm S st i.size i.now1 = .nextTick
    · simp [hn] at h
    · cases hint : i.interrupted
      · obtain ⟨o', ho'⟩ := fetch_calls_head S c trig i
        simp [hn, hint, ho'] at h
      · simp [hn, hint] at h

/-- every well-formed shape keeps the clause -/
theorem C15_size_retry_kept_wf (S : Shape) (hS : WF S) (c : Cfg) (trig : Trig) : SizeRetryKept S c trig := by
  intro st0 prev ins hwt k j ik ij ok oj o hkj hik hij hok hoj hk hj
  have harm : ok.armErr = true := by
    clear hwt hij hoj hj hkj
    induction ins generalizing st0 k with
    | nil => simp at hik
    | cons i is ih =>
      cases k with
      | zero =>
        have hok' : iter S c trig st0 i = ok := by simpa [runLoop] using hok
        subst hok'
        exact armErr_of_size_err S c trig st0 i hk
      | succ k =>
        simp only [List.getElem?_cons_succ] at hik
        simp only [runLoop, List.getElem?_cons_succ] at hok
        exact ih _ k hik hok
  have h := ((C15_backoff S hS c trig st0 prev ins hwt k ik ok hik hok).1 harm).2 j ij oj hkj hij hoj
  have hw := wellTimed_at S c trig st0 prev ins hwt k ik ok hik hok
  have := h.2 o hj
  omega

/-- **the repaired source keeps the clause** -/
theorem C15_size_retry_kept (c : Cfg) (trig : Trig) : SizeRetryKept Generated.Faults.shape c trig :=
  C15_size_retry_kept_wf _ C15_facts_wf c trig

/-- the environment of the witness: `Size()` fails; 1 ms after the timer was armed an interrupt arrives (some API call
succeeded); the next iteration starts at 2 ms and asks `Size()` again, RetryInterval being 50 ms -/
def f4Iter (t : Int) : In :=
  { size := none, now1 := t, head := .empty, now2 := t, tArm := t, interrupted := true, tickAt := t + 1,
    pop := .empty, size2 := none, nowVal := t + 1, pushOk := true, nowErr := t + 1 }

def f4Cfg : Cfg := { R := 50, M := 1000000, thr := 100 }

/-- Negative control: the loop as it was before the repair of F4 (`askFirst`) does NOT keep the clause -/
theorem C15_size_retry_full_fails :
    ¬ SizeRetryKept (askFirst Generated.Faults.shape) f4Cfg (fun _ _ => none) := by
  intro h
  have hw : WellTimed (askFirst Generated.Faults.shape) f4Cfg (fun _ _ => none) {} 0 [f4Iter 0, f4Iter 2] := by decide
  have := h {} 0 [f4Iter 0, f4Iter 2] hw 0 1 (f4Iter 0) (f4Iter 2) _ _ .err (by decide) rfl rfl rfl rfl (by decide) (by decide)
  revert this
  decide

/-- the same run seen through `C15_backoff`: before the repair both iterations report the `Size()` error (`armErr`), each armed
RetryInterval, and the second one started 2 ms after the first — the interrupt made the difference; … -/
example :
    let r := (runLoop (askFirst Generated.Faults.shape) f4Cfg (fun _ _ => none) {} [f4Iter 0, f4Iter 2]).1
    r.map (fun o => (o.armErr, o.armed, o.calls)) = [(true, 50, [(.size, .err)]), (true, 50, [(.size, .err)])] := by decide

/-- … the repaired loop, on the same inputs, is backing off in the second iteration: it asks the queue nothing and arms the timer
for what is left of the RetryInterval (deadline 50, now 2) -/
example :
    let r := (runLoop Generated.Faults.shape f4Cfg (fun _ _ => none) {} [f4Iter 0, f4Iter 2])
    r.1.map (fun o => (o.armErr, o.armed, o.calls)) = [(true, 50, [(.size, .err)]), (false, 48, [])] ∧
    r.2 = { retryAt := some 50 } ∧
    WellTimed Generated.Faults.shape f4Cfg (fun _ _ => none) {} 0 [f4Iter 0, f4Iter 2] := by decide

/-- non-vacuity of `SizeRetryKept` for the repaired shape: a well-timed run in which `Size()` fails at 0, two interrupts arrive (at 1
and 11), the timer fires at the deadline 50 (an empty `Pop()` on a queue that also fails `Size()` under the lock: a new deadline, 101),
and the next `Size()` is asked at 101 — 101 ms after the failed one -/
example :
    let ins : List In := [f4Iter 0, f4Iter 10,
      { f4Iter 20 with interrupted := false, tickAt := 50, nowVal := 50, nowErr := 51 }, f4Iter 101]
    WellTimed Generated.Faults.shape f4Cfg (fun _ _ => none) {} 0 ins ∧
    (runLoop Generated.Faults.shape f4Cfg (fun _ _ => none) {} ins).1.map (fun o => o.calls.head?) =
      [some (.size, .err), none, some (.pop, .empty), some (.size, .err)] := by decide

end Faults
