import QuartzModel.Sched.Retry
import QuartzModel.Proofs.RetryLemmas
import QuartzModel.Generated.Facts
/-!
# C13 — failed jobs are retried exactly as configured; panics are contained

Model: `QuartzModel/Sched/Retry.lean` (`executeWithRetries` of quartz/scheduler.go as a total function of
`MaxRetries`, the outcomes of the successive `Execute` calls and the retry wait during which the
scheduler's context ends). Every theorem quantifies over EVERY `maxRetries : Int` (negative included),
every script and every cancel point. What is not in the model: real time (a completed wait is the event
`Event.wait`; that it lasts at least `RetryInterval` is `time.NewTimer`'s contract and is observed by the
harness), and the scheduler around the function (observed by the harness: siblings keep running, the
next fire time stays queued, `Wait` returns).
-/
namespace Sched.Retry

/-! ## the source has the shape the model transcribes -/

/-- the shape read from /repo's current source by `harness/cmd/extract/x_retry.go` -/
def generatedShape : SourceShape :=
  { recoverDeferredFirst := Generated.Retry.recoverDeferredFirst
    prologue := Generated.Retry.prologue
    loopInit := Generated.Retry.loopInit
    loopCond := Generated.Retry.loopCond
    loopPost := Generated.Retry.loopPost
    loopBody := Generated.Retry.loopBody
    selectCases := Generated.Retry.selectCases
    loopLabelled := Generated.Retry.loopLabelled
    epilogue := Generated.Retry.epilogue
    callSites := Generated.Retry.callSites
    directExecuteElsewhere := Generated.Retry.directExecuteElsewhere }

/-- `defer … recover()` first; `err := Execute; if err == nil return`; `retryLoop: for i := 1;
i <= MaxRetries; i++ { timer; select { <-timer.C | <-ctx.Done(): break retryLoop }; err = Execute;
if err == nil break }`; all three dispatch modes go through this function. -/
theorem C13_facts : generatedShape = ({} : SourceShape) := by decide

/-! ## C13_attempts -/

/-- Without a panic and without cancellation the number of attempts is
`1 + min (max 0 MaxRetries) (failures before the first success)` (a negative `MaxRetries` behaves like
0); the attempts are exactly that prefix of the script (extended by the success that follows an exhausted
script), one completed wait separates consecutive attempts, and the sequence ends `succeeded` iff the
success came within the budget, else `gaveUp`. -/
theorem C13_attempts (maxRetries : Int) (script : List Outcome) (hp : Outcome.panic ∉ script) :
    let r := executeWithRetries maxRetries script none
    (r.attempts.length : Int) = 1 + min (max 0 maxRetries) (failuresBefore script) ∧
    r.attempts = (script ++ [Outcome.ok]).take r.attempts.length ∧
    r.waits + 1 = r.attempts.length ∧
    r.ending = (if (failuresBefore script : Int) ≤ max 0 maxRetries then End.succeeded else End.gaveUp) := by
  intro r
  refine ⟨?_, List.prefix_iff_eq_take.mp (exec_prefix maxRetries script none),
    exec_waits maxRetries script none, ?_⟩
  · rcases script_cases script with h | ⟨t, h⟩ | ⟨t, h⟩ | ⟨t, h⟩ <;> subst h
    · simp [r, exec_nil, Result.attempts, failuresBefore]; omega
    · simp [r, exec_ok, Result.attempts, failuresBefore]; omega
    · simp at hp
    · simp only [r, exec_err, Result.attempts, attemptsOf_attempt, List.length_cons, loop_count,
        failuresBefore_err]
      omega
  · rcases script_cases script with h | ⟨t, h⟩ | ⟨t, h⟩ | ⟨t, h⟩ <;> subst h
    · have hf : failuresBefore ([] : List Outcome) = 0 := rfl
      show End.succeeded = _
      rw [if_pos (by have := hf; omega)]
    · have hf : failuresBefore (Outcome.ok :: t) = 0 := rfl
      show End.succeeded = _
      rw [if_pos (by have := hf; omega)]
    · simp at hp
    · have hf : failuresBefore (Outcome.err :: t) = failuresBefore t + 1 := rfl
      show recoverDeferred (retryLoop maxRetries none 1 t).2 = _
      rw [loop_exit_count maxRetries t 1 (fun hm => hp (List.mem_cons_of_mem _ hm))]
      by_cases hh : failuresBefore t + 1 ≤ (maxRetries + 1 - ((1 : Nat) : Int)).toNat
      · rw [if_pos hh, if_pos (by have := hf; omega)]; rfl
      · rw [if_neg hh, if_neg (by have := hf; omega)]; rfl

/-- the count alone, also when the script contains panics: a panic ends the sequence like a success does -/
theorem C13_attempts_general (maxRetries : Int) (script : List Outcome) :
    ((executeWithRetries maxRetries script none).attempts.length : Int) =
      1 + min (max 0 maxRetries) (failuresBefore script) := by
  rcases script_cases script with h | ⟨t, h⟩ | ⟨t, h⟩ | ⟨t, h⟩ <;> subst h
  · simp [exec_nil, Result.attempts, failuresBefore]; omega
  · simp [exec_ok, Result.attempts, failuresBefore]; omega
  · simp [exec_panic, Result.attempts, failuresBefore]; omega
  · simp only [exec_err, Result.attempts, attemptsOf_attempt, List.length_cons, loop_count,
      failuresBefore_err]
    omega

example : (executeWithRetries 3 [.err, .err, .ok, .err] none).attempts = [.err, .err, .ok] := by decide
example : (executeWithRetries 1 [.err, .err, .ok] none) =
    ⟨[.attempt .err, .wait, .attempt .err], .gaveUp⟩ := by decide
example : (executeWithRetries (-7) [.err, .err, .ok] none) = ⟨[.attempt .err], .gaveUp⟩ := by decide
example : (executeWithRetries 4 [.err] none).attempts = [.err, .ok] := by decide

/-! ## C13_stops_on_success -/

/-- Whatever the parameters: at least one attempt is made, the attempts follow the script, and every
attempt except the last one failed — so a success (or a panic) is always the last attempt. -/
theorem C13_attempts_structure (maxRetries : Int) (script : List Outcome) (cancelAt : Option Nat) :
    let r := executeWithRetries maxRetries script cancelAt
    r.attempts ≠ [] ∧ r.attempts <+: script ++ [Outcome.ok] ∧
      ∀ j, j + 1 < r.attempts.length → r.attempts[j]? = some Outcome.err := by
  intro r
  refine ⟨?_, exec_prefix maxRetries script cancelAt, fun j => exec_init_err maxRetries script cancelAt j⟩
  obtain ⟨o, os, ha, _⟩ := exec_shape maxRetries script cancelAt
  simp [r, ha]

/-- The sequence stops at the first success: if the `j`-th attempt (0-based) succeeded it is the last
one and the function ends `succeeded`; conversely `succeeded` means the last attempt returned nil. -/
theorem C13_stops_on_success (maxRetries : Int) (script : List Outcome) (cancelAt : Option Nat) :
    let r := executeWithRetries maxRetries script cancelAt
    (∀ j, r.attempts[j]? = some Outcome.ok → r.attempts.length = j + 1 ∧ r.ending = End.succeeded) ∧
    (r.ending = End.succeeded ↔ r.attempts.getLast? = some Outcome.ok) := by
  intro r
  refine ⟨fun j hj => ?_, (exec_ending maxRetries script cancelAt).2⟩
  have hlt : j < r.attempts.length := by
    rcases Nat.lt_or_ge j r.attempts.length with h | h
    · exact h
    · rw [List.getElem?_eq_none h] at hj; cases hj
  have hlast : r.attempts.length = j + 1 := by
    rcases Nat.lt_or_ge (j + 1) r.attempts.length with h | h
    · have := exec_init_err maxRetries script cancelAt j h
      rw [this] at hj; cases hj
    · omega
  refine ⟨hlast, (exec_ending maxRetries script cancelAt).2.mpr ?_⟩
  rw [List.getLast?_eq_getElem?]
  have : r.attempts.length - 1 = j := by omega
  rw [this]; exact hj

example : (executeWithRetries 5 [.err, .ok, .err, .err] none).attempts[1]? = some .ok := by decide

/-! ## C13_cancel_stops -/

/-- The context ends during the `k`-th retry wait (i.e. after `k` failed attempts, `k ≤ MaxRetries`):
exactly those `k` attempts are made, the last event is the cancelled wait — no attempt after it — and
`k - 1` full waits were taken. -/
theorem C13_cancel_stops (maxRetries : Int) (script : List Outcome) (k : Nat) (hk1 : 1 ≤ k)
    (hkm : (k : Int) ≤ maxRetries) (hfail : ∀ j, j < k → script[j]? = some Outcome.err) :
    let r := executeWithRetries maxRetries script (some k)
    r.attempts = List.replicate k Outcome.err ∧ r.ending = End.cancelled ∧
      r.trace.getLast? = some Event.waitCancelled ∧ r.waits = k - 1 := by
  intro r
  have h0 := hfail 0 (by omega)
  cases script with
  | nil => simp at h0
  | cons o t =>
    simp only [List.getElem?_cons_zero, Option.some.injEq] at h0
    subst h0
    have hloop := loop_cancel_exact maxRetries k hkm (k - 1) 1 t (by omega)
      (fun j hj => by simpa using hfail (j + 1) (by omega))
    have hr : r = ⟨Event.attempt .err :: (pairs (List.replicate (k - 1) .err) ++ [.waitCancelled]),
        .cancelled⟩ := by
      show executeWithRetries maxRetries (.err :: t) (some k) = _
      rw [exec_err, hloop]; rfl
    have hk : k = (k - 1) + 1 := by omega
    refine ⟨?_, by rw [hr], ?_, ?_⟩
    · rw [hr, Result.attempts]
      simp only [attemptsOf_attempt, attemptsOf_append, attemptsOf_pairs]
      conv => rhs; rw [hk, List.replicate_succ]
      simp
    · rw [hr]; simp only; rw [← List.cons_append, List.getLast?_concat]
    · rw [hr, Result.waits]; simp [List.count_append]

/-- Once the context has ended no further attempt is made: with the context ending before the `k`-th
wait completes there are never more than `max k 1` attempts (the first attempt is unconditional). -/
theorem C13_cancel_bound (maxRetries : Int) (script : List Outcome) (k : Nat) :
    (executeWithRetries maxRetries script (some k)).attempts.length ≤ max k 1 := by
  rcases script_cases script with h | ⟨t, h⟩ | ⟨t, h⟩ | ⟨t, h⟩ <;> subst h
  · simp [exec_nil, Result.attempts]; omega
  · simp [exec_ok, Result.attempts]; omega
  · simp [exec_panic, Result.attempts]; omega
  · have := loop_cancel_bound maxRetries k t 1
    simp only [exec_err, Result.attempts, attemptsOf_attempt, List.length_cons]
    omega

/-- `cancelled` is only reported when the context did end, and then the cancelled wait is the last
event of the trace -/
theorem C13_cancelled_last (maxRetries : Int) (script : List Outcome) (cancelAt : Option Nat)
    (h : (executeWithRetries maxRetries script cancelAt).ending = End.cancelled) :
    cancelAt ≠ none ∧
      (executeWithRetries maxRetries script cancelAt).trace.getLast? = some Event.waitCancelled := by
  constructor
  · rintro rfl
    rcases script_cases script with hs | ⟨t, hs⟩ | ⟨t, hs⟩ | ⟨t, hs⟩ <;> subst hs
    · simp [exec_nil] at h
    · simp [exec_ok] at h
    · simp [exec_panic] at h
    · rw [exec_err] at h
      exact loop_not_cancelled maxRetries t 1 ((recoverDeferred_cancelled _).mp h)
  · obtain ⟨o, os, _, ht⟩ := exec_shape maxRetries script cancelAt
    rw [ht, if_pos h, List.getLast?_concat]

example : executeWithRetries 4 [.err, .err, .err, .ok] (some 2) =
    ⟨[.attempt .err, .wait, .attempt .err, .waitCancelled], .cancelled⟩ := by decide

/-! ## C13_interval -/

/-- attempts separated by exactly one completed `RetryInterval` wait -/
def spaced : List Outcome → List Event
  | [] => []
  | [o] => [.attempt o]
  | o :: os => .attempt o :: .wait :: spaced os

theorem spaced_cons (o : Outcome) (os : List Outcome) : spaced (o :: os) = .attempt o :: pairs os := by
  induction os generalizing o with
  | nil => rfl
  | cons o2 os ih =>
    show Event.attempt o :: Event.wait :: spaced (o2 :: os) = _
    rw [ih o2]; rfl

/-- The trace is exactly `attempt, wait, attempt, …, wait, attempt` (followed by the cancelled wait if
the context ended): every attempt after the first is immediately preceded by one completed
`RetryInterval` wait, which is immediately preceded by the previous attempt. -/
theorem C13_interval (maxRetries : Int) (script : List Outcome) (cancelAt : Option Nat) :
    let r := executeWithRetries maxRetries script cancelAt
    r.trace = spaced r.attempts ++ (if r.ending = End.cancelled then [Event.waitCancelled] else []) ∧
    ∀ p a, r.trace[p]? = some (Event.attempt a) →
      p = 0 ∨ (2 ≤ p ∧ r.trace[p - 1]? = some Event.wait ∧ ∃ a', r.trace[p - 2]? = some (Event.attempt a')) := by
  intro r
  obtain ⟨o, os, ha, ht⟩ := exec_shape maxRetries script cancelAt
  refine ⟨by rw [ha, spaced_cons]; exact ht, ?_⟩
  intro p a hp
  have ht' : r.trace = Event.attempt o :: pairs os ++
      (if r.ending = End.cancelled then [Event.waitCancelled] else []) := ht
  rw [ht'] at hp ⊢
  refine spaced_pointwise _ ?_ os o p a hp
  intro q x
  split
  · cases q <;> simp
  · simp

example : (executeWithRetries 2 [.err, .err, .err] none).trace =
    [.attempt .err, .wait, .attempt .err, .wait, .attempt .err] := by decide

/-! ### reading the trace against a clock -/

/-- The time spans `(start, end)` of the attempts when the trace is played against a clock: the `a`-th
attempt lasts `dur a`, the `w`-th completed wait lasts `interval + slack w` (a timer set to
`RetryInterval` never fires early — that is the only assumption about time), a cancelled wait takes no
modelled time. -/
def spans (interval : Nat) (dur slack : Nat → Nat) : Nat → Nat → Nat → List Event → List (Nat × Nat)
  | _, _, _, [] => []
  | now, a, w, .attempt _ :: t => (now, now + dur a) :: spans interval dur slack (now + dur a) (a + 1) w t
  | now, a, w, .wait :: t => spans interval dur slack (now + interval + slack w) a (w + 1) t
  | now, a, w, .waitCancelled :: t => spans interval dur slack now a w t

/-- every span starts at least `interval` after the previous one ended -/
def Spaced (interval : Nat) : Nat → List (Nat × Nat) → Prop
  | _, [] => True
  | prevEnd, (s, e) :: t => prevEnd + interval ≤ s ∧ Spaced interval e t

theorem spaced_pairs (interval : Nat) (dur slack : Nat → Nat) (tl : List Event)
    (htl : tl = [] ∨ tl = [Event.waitCancelled]) :
    ∀ (os : List Outcome) (now a w : Nat),
      Spaced interval now (spans interval dur slack now a w (pairs os ++ tl)) := by
  intro os
  induction os with
  | nil =>
    intro now a w
    rcases htl with h | h <;> subst h <;> simp [pairs, spans, Spaced]
  | cons o os ih =>
    intro now a w
    simp only [pairs, List.cons_append, spans, Spaced]
    exact ⟨by omega, ih _ _ _⟩

theorem spaced_pointwise_time (interval : Nat) : ∀ (rest : List (Nat × Nat)) (s0 e0 : Nat),
    Spaced interval e0 rest → ∀ j s1 e1 s2 e2, ((s0, e0) :: rest)[j]? = some (s1, e1) →
      ((s0, e0) :: rest)[j + 1]? = some (s2, e2) → e1 + interval ≤ s2 := by
  intro rest
  induction rest with
  | nil => intro s0 e0 _ j s1 e1 s2 e2 _ h2; simp at h2
  | cons y t ih =>
    intro s0 e0 hsp j s1 e1 s2 e2 h1 h2
    obtain ⟨ys, ye⟩ := y
    cases j with
    | zero =>
      simp only [List.getElem?_cons_zero, Option.some.injEq, Prod.mk.injEq] at h1
      simp only [Nat.zero_add, List.getElem?_cons_succ, List.getElem?_cons_zero, Option.some.injEq,
        Prod.mk.injEq] at h2
      obtain ⟨rfl, rfl⟩ := h1
      obtain ⟨rfl, rfl⟩ := h2
      exact hsp.1
    | succ j =>
      simp only [List.getElem?_cons_succ] at h1 h2
      exact ih ys ye hsp.2 j s1 e1 s2 e2 h1 h2

/-- At least `RetryInterval` between attempts: whatever the attempts' durations and however late the
timers fire, each attempt starts at least `interval` after the previous attempt returned; and there is
one span per attempt. -/
theorem C13_interval_time (maxRetries : Int) (script : List Outcome) (cancelAt : Option Nat)
    (interval : Nat) (dur slack : Nat → Nat) :
    let r := executeWithRetries maxRetries script cancelAt
    let sp := spans interval dur slack 0 0 0 r.trace
    (∃ rest, sp = (0, 0 + dur 0) :: rest ∧ Spaced interval (0 + dur 0) rest) ∧
    ∀ j s1 e1 s2 e2, sp[j]? = some (s1, e1) → sp[j + 1]? = some (s2, e2) → e1 + interval ≤ s2 := by
  intro r sp
  obtain ⟨o, os, _, ht⟩ := exec_shape maxRetries script cancelAt
  have hsp : sp = (0, 0 + dur 0) :: spans interval dur slack (0 + dur 0) 1 0
      (pairs os ++ (if r.ending = End.cancelled then [Event.waitCancelled] else [])) := by
    show spans interval dur slack 0 0 0 (executeWithRetries maxRetries script cancelAt).trace = _
    rw [ht]; rfl
  have htl : (if r.ending = End.cancelled then [Event.waitCancelled] else []) = [] ∨
      (if r.ending = End.cancelled then [Event.waitCancelled] else []) = [Event.waitCancelled] := by
    split <;> simp
  have hrest := spaced_pairs interval dur slack _ htl os (0 + dur 0) 1 0
  refine ⟨⟨_, hsp, hrest⟩, ?_⟩
  rw [hsp]
  exact spaced_pointwise_time interval _ 0 (0 + dur 0) hrest

example : spans 10 (fun _ => 3) (fun _ => 1) 0 0 0 (executeWithRetries 2 [.err, .err, .ok] none).trace =
    [(0, 3), (14, 17), (28, 31)] := by decide

/-! ## C13_panic_ends_sequence -/

/-- A panic on attempt `j` (0-based) ends the sequence: exactly `j + 1` attempts were made and the
function ends `recovered` — it returns normally (`End` has no constructor for a propagated panic, and
the only consumer of `Exit.panicking` is the deferred `recoverDeferred`). -/
theorem C13_panic_ends_sequence (maxRetries : Int) (script : List Outcome) (cancelAt : Option Nat)
    (j : Nat) (hj : (executeWithRetries maxRetries script cancelAt).attempts[j]? = some Outcome.panic) :
    (executeWithRetries maxRetries script cancelAt).attempts.length = j + 1 ∧
      (executeWithRetries maxRetries script cancelAt).ending = End.recovered := by
  have hlt : j < (executeWithRetries maxRetries script cancelAt).attempts.length := by
    rcases Nat.lt_or_ge j (executeWithRetries maxRetries script cancelAt).attempts.length with h | h
    · exact h
    · rw [List.getElem?_eq_none h] at hj; cases hj
  have hlast : (executeWithRetries maxRetries script cancelAt).attempts.length = j + 1 := by
    rcases Nat.lt_or_ge (j + 1) (executeWithRetries maxRetries script cancelAt).attempts.length with h | h
    · have := exec_init_err maxRetries script cancelAt j h
      rw [this] at hj; cases hj
    · omega
  refine ⟨hlast, (exec_ending maxRetries script cancelAt).1.mpr ?_⟩
  rw [List.getLast?_eq_getElem?]
  have : (executeWithRetries maxRetries script cancelAt).attempts.length - 1 = j := by omega
  rw [this]; exact hj

/-- `recovered` arises iff some attempt that was actually made panicked -/
theorem C13_recovered_iff (maxRetries : Int) (script : List Outcome) (cancelAt : Option Nat) :
    (executeWithRetries maxRetries script cancelAt).ending = End.recovered ↔
      Outcome.panic ∈ (executeWithRetries maxRetries script cancelAt).attempts := by
  constructor
  · intro h
    exact List.mem_of_getLast? ((exec_ending maxRetries script cancelAt).1.mp h)
  · intro h
    obtain ⟨j, hj⟩ := List.getElem?_of_mem h
    exact (C13_panic_ends_sequence maxRetries script cancelAt j hj).2

/-- every run of the function ends in one of the four normal ways (totality of the model; the Lean
function is total, so there is no run without an `ending`) -/
theorem C13_returns (maxRetries : Int) (script : List Outcome) (cancelAt : Option Nat) :
    ∃ t e, executeWithRetries maxRetries script cancelAt = ⟨t, e⟩ ∧
      (e = .succeeded ∨ e = .gaveUp ∨ e = .cancelled ∨ e = .recovered) := by
  refine ⟨_, (executeWithRetries maxRetries script cancelAt).ending, rfl, ?_⟩
  cases (executeWithRetries maxRetries script cancelAt).ending <;> simp

example : executeWithRetries 3 [.err, .panic, .ok] none =
    ⟨[.attempt .err, .wait, .attempt .panic], .recovered⟩ := by decide
example : (executeWithRetries 0 [.panic] (some 1)).ending = .recovered := by decide

/-! ## the hypotheses of the theorems are satisfiable (non-vacuity) -/

example := C13_attempts 3 [.err, .err, .ok, .err] (by decide)
example := C13_attempts (-2) [.err, .err] (by decide)
example := C13_cancel_stops 4 [.err, .err, .err, .ok] 2 (by decide) (by decide)
  (fun j hj => match j, hj with | 0, _ => rfl | 1, _ => rfl)
example := C13_panic_ends_sequence 3 [.err, .panic, .ok] none 1 (by decide)
example := (C13_stops_on_success 5 [.err, .ok, .err] none).1 1 (by decide)
example := (C13_recovered_iff 3 [.err, .panic] (some 7)).mpr (by decide)

end Sched.Retry
