import QuartzModel.Concurrency.LockOrder

/-! C10 (locks): the lock discipline of `StdScheduler` is deadlock-free for any number of threads,
and the two classic violations (re-entrant `RLock`, lock-order inversion) are deadlock-prone.

Discipline (`Bl`): a thread's program is a sequence of blocks, each block either
* `acqA ; (acqB m ; relB m)* ; relA`   -- take `queueLocker`, inside it take/release `mtx` any number of times
* `acqB m ; relB m`                      -- take/release `mtx` alone
so: never `A` inside `B`, never `B` inside `B`, never `A` inside `A`.

Main results:
* `good_step`                      preservation of the per-thread invariant `Good`
* `C10_lock_order_no_deadlock`     progress: a state of `Good` threads is never deadlocked
* `C10_lock_order_reachable`       every state reachable from programs in `Bl` is not deadlocked
* `C10_recursive_rlock_deadlocks`  `RLock; RLock; ...` beside `Lock; Unlock` reaches a deadlock
* `C10_reverse_order_deadlocks`    `A; B` beside `B; A` reaches a deadlock
* `progOf_good`, `Bl_append`, `blCheck_sound`  the real method shapes are in `Bl`; `Bl` is closed under `++`;
                                   executable checker for regenerated programs
* `C10_lock_order_methods`         the above put together for threads that call sequences of real methods
* `C10_mutual_exclusion`           sanity of the lock semantics: the model's locks do exclude (any programs) -/
namespace LockOrder

/-! ## the discipline as a grammar -/

/-- B-blocks: `(acqB m ; relB m)*` -/
inductive BB : List Op → Prop
  | nil : BB []
  | cons (m : Mode) {p : List Op} : BB p → BB (.acqB m :: .relB m :: p)

/-- blocks: `(acqA ; BB ; relA  |  acqB m ; relB m)*` -/
inductive Bl : List Op → Prop
  | nil : Bl []
  | a {bb bl : List Op} : BB bb → Bl bl → Bl (.acqA :: (bb ++ .relA :: bl))
  | b (m : Mode) {bl : List Op} : Bl bl → Bl (.acqB m :: .relB m :: bl)

def isAcq : Op → Bool
  | .acqA => true
  | .acqB _ => true
  | .relA => false
  | .relB _ => false

def headAcq : List Op → Bool
  | op :: _ => isAcq op
  | [] => false

/-- a thread that has announced an acquisition is standing in front of one -/
def PendOk (t : Thread) : Prop := t.pend = true → headAcq t.todo = true

/-- the per-thread invariant: the thread is at one of the four kinds of positions of a `Bl` program -/
def Good (t : Thread) : Prop :=
  PendOk t ∧
  ( -- outside every lock
    (t.heldA = false ∧ t.heldB = [] ∧ Bl t.todo)
    -- inside A, not holding B
  ∨ (t.heldA = true ∧ t.heldB = [] ∧ ∃ bb bl, BB bb ∧ Bl bl ∧ t.todo = bb ++ .relA :: bl)
    -- holding B outside A
  ∨ (t.heldA = false ∧ ∃ m bl, t.heldB = [m] ∧ Bl bl ∧ t.todo = .relB m :: bl)
    -- holding B inside A
  ∨ (t.heldA = true ∧ ∃ m bb bl, t.heldB = [m] ∧ BB bb ∧ Bl bl ∧ t.todo = .relB m :: (bb ++ .relA :: bl)) )

/-! ## the same thing as an executable checker -/

/-- `wf a h p`: `p` is a legal remaining program for a thread that holds `A` iff `a` and holds `B` in
    mode `m` iff `h = some m` -/
def wf : Bool → Option Mode → List Op → Bool
  | a, none, [] => !a
  | _, some _, [] => false
  | a, none, .acqA :: p => !a && wf true none p
  | a, none, .relA :: p => a && wf false none p
  | a, none, .acqB m :: p => wf a (some m) p
  | _, none, .relB _ :: _ => false
  | a, some m, .relB m' :: p => m == m' && wf a none p
  | _, some _, .acqA :: _ => false
  | _, some _, .relA :: _ => false
  | _, some _, .acqB _ :: _ => false

/-- executable membership test for `Bl` (for regenerated method programs: `by decide`) -/
def blCheck (p : List Op) : Bool := wf false none p

def goodB (t : Thread) : Bool :=
  (!t.pend || headAcq t.todo) &&
  match t.heldB with
  | [] => wf t.heldA none t.todo
  | [m] => wf t.heldA (some m) t.todo
  | _ :: _ :: _ => false

theorem wf_BB_append {bb : List Op} (h : BB bb) (rest : List Op) :
    wf true none (bb ++ rest) = wf true none rest := by
  induction h with
  | nil => rfl
  | cons m _ ih => simp [wf, ih]

theorem wf_of_Bl {p : List Op} (h : Bl p) : wf false none p = true := by
  induction h with
  | nil => rfl
  | a hbb _ ih => simp [wf, wf_BB_append hbb, ih]
  | b m _ ih => simp [wf, ih]

theorem wf_of_inA {bb bl : List Op} (hbb : BB bb) (hbl : Bl bl) :
    wf true none (bb ++ .relA :: bl) = true := by
  simp [wf_BB_append hbb, wf, wf_of_Bl hbl]

/-- the checker is complete and sound, for both the "outside" and the "inside A" positions -/
theorem Bl_of_wf_aux (n : Nat) : ∀ p : List Op, p.length ≤ n →
    (wf false none p = true → Bl p) ∧
    (wf true none p = true → ∃ bb bl, BB bb ∧ Bl bl ∧ p = bb ++ .relA :: bl) := by
  induction n with
  | zero =>
    intro p hp
    have : p = [] := List.eq_nil_of_length_eq_zero (by omega)
    subst this
    exact ⟨fun _ => Bl.nil, fun h => by simp [wf] at h⟩
  | succ n ih =>
    intro p hp
    cases p with
    | nil => exact ⟨fun _ => Bl.nil, fun h => by simp [wf] at h⟩
    | cons op p =>
      have hp' : p.length ≤ n := by simpa using hp
      cases op with
      | acqA =>
        refine ⟨fun h => ?_, fun h => by simp [wf] at h⟩
        have h' : wf true none p = true := by simpa [wf] using h
        obtain ⟨bb, bl, hbb, hbl, rfl⟩ := (ih p hp').2 h'
        exact Bl.a hbb hbl
      | relA =>
        refine ⟨fun h => by simp [wf] at h, fun h => ?_⟩
        have h' : wf false none p = true := by simpa [wf] using h
        exact ⟨[], p, BB.nil, (ih p hp').1 h', rfl⟩
      | relB m => exact ⟨fun h => by simp [wf] at h, fun h => by simp [wf] at h⟩
      | acqB m =>
        cases p with
        | nil => exact ⟨fun h => by simp [wf] at h, fun h => by simp [wf] at h⟩
        | cons op' q =>
          have hq : q.length ≤ n := by simp at hp'; omega
          cases op' with
          | acqA => exact ⟨fun h => by simp [wf] at h, fun h => by simp [wf] at h⟩
          | relA => exact ⟨fun h => by simp [wf] at h, fun h => by simp [wf] at h⟩
          | acqB _ => exact ⟨fun h => by simp [wf] at h, fun h => by simp [wf] at h⟩
          | relB m' =>
            refine ⟨fun h => ?_, fun h => ?_⟩
            · have h' : m = m' ∧ wf false none q = true := by simpa [wf] using h
              obtain ⟨rfl, h2⟩ := h'
              exact Bl.b m ((ih q hq).1 h2)
            · have h' : m = m' ∧ wf true none q = true := by simpa [wf] using h
              obtain ⟨rfl, h2⟩ := h'
              obtain ⟨bb, bl, hbb, hbl, rfl⟩ := (ih q hq).2 h2
              exact ⟨_, bl, BB.cons m hbb, hbl, rfl⟩

theorem Bl_iff_wf (p : List Op) : Bl p ↔ wf false none p = true :=
  ⟨wf_of_Bl, (Bl_of_wf_aux p.length p (Nat.le_refl _)).1⟩

theorem inA_iff_wf (p : List Op) :
    (∃ bb bl, BB bb ∧ Bl bl ∧ p = bb ++ .relA :: bl) ↔ wf true none p = true :=
  ⟨fun ⟨_, _, hbb, hbl, e⟩ => e ▸ wf_of_inA hbb hbl, (Bl_of_wf_aux p.length p (Nat.le_refl _)).2⟩

/-- item 8: regenerated programs are discharged by `decide` on `blCheck` -/
theorem blCheck_sound {p : List Op} (h : blCheck p = true) : Bl p := (Bl_iff_wf p).2 h

theorem blCheck_complete {p : List Op} (h : Bl p) : blCheck p = true := (Bl_iff_wf p).1 h

theorem blCheck_all_sound {ps : List (List Op)} (h : ps.all blCheck = true) : ∀ p ∈ ps, Bl p := by
  intro p hp
  exact blCheck_sound (List.all_eq_true.1 h p hp)

/-- `Good` is exactly the executable `goodB` -/
theorem good_iff (t : Thread) : Good t ↔ goodB t = true := by
  rcases t with ⟨todo, pend, heldA, heldB⟩
  constructor
  · rintro ⟨hp, h⟩
    have hp' : (!pend || headAcq todo) = true := by
      cases pend
      · rfl
      · simpa using hp rfl
    rcases h with ⟨ha, hb, h⟩ | ⟨ha, hb, bb, bl, hbb, hbl, e⟩ | ⟨ha, m, bl, hb, hbl, e⟩ |
        ⟨ha, m, bb, bl, hb, hbb, hbl, e⟩
    · simp only at ha hb h
      subst ha hb
      simp [goodB, hp', wf_of_Bl h]
    · simp only at ha hb e
      subst ha hb e
      simp [goodB, hp', wf_of_inA hbb hbl]
    · simp only at ha hb e
      subst ha hb e
      simp [goodB, hp', wf, wf_of_Bl hbl]
    · simp only at ha hb e
      subst ha hb e
      simp [goodB, hp', wf, wf_of_inA hbb hbl]
  · intro h
    have hp : (!pend || headAcq todo) = true := by
      simp only [goodB, Bool.and_eq_true] at h
      exact h.1
    refine ⟨fun hpe => ?_, ?_⟩
    · simp only at hpe
      subst hpe
      simpa using hp
    · rcases heldB with _ | ⟨m, _ | ⟨m', l⟩⟩
      · have hw : wf heldA none todo = true := by
          simp only [goodB, Bool.and_eq_true] at h
          exact h.2
        cases heldA
        · exact Or.inl ⟨rfl, rfl, (Bl_iff_wf todo).2 hw⟩
        · exact Or.inr (Or.inl ⟨rfl, rfl, (inA_iff_wf todo).2 hw⟩)
      · have hw : wf heldA (some m) todo = true := by
          simp only [goodB, Bool.and_eq_true] at h
          exact h.2
        cases todo with
        | nil => simp [wf] at hw
        | cons op p =>
          cases op with
          | acqA => simp [wf] at hw
          | relA => simp [wf] at hw
          | acqB _ => simp [wf] at hw
          | relB m'' =>
            have h' : m = m'' ∧ wf heldA none p = true := by simpa [wf] using hw
            obtain ⟨rfl, h2⟩ := h'
            cases heldA
            · exact Or.inr (Or.inr (Or.inl ⟨rfl, m, p, rfl, (Bl_iff_wf p).2 h2, rfl⟩))
            · obtain ⟨bb, bl, hbb, hbl, e⟩ := (inA_iff_wf p).2 h2
              exact Or.inr (Or.inr (Or.inr ⟨rfl, m, bb, bl, rfl, hbb, hbl, by simp [e]⟩))
      · simp [goodB] at h

/-! ## preservation -/

/-- a step of a thread keeps it on its `Bl` track (whether or not the step was enabled) -/
theorem goodB_stepT (t : Thread) (h : goodB t = true) : goodB (stepT t) = true := by
  rcases t with ⟨todo, pend, heldA, heldB⟩
  cases todo with
  | nil => simpa [stepT] using h
  | cons op p =>
    rcases heldB with _ | ⟨m, _ | ⟨m', l⟩⟩
    · cases op <;> cases pend <;> cases heldA <;>
        simp_all [goodB, stepT, wf, headAcq, isAcq]
      all_goals (rename_i m; cases m <;> simp_all)
    · cases op <;> cases pend <;> cases heldA <;>
        simp_all [goodB, stepT, wf, headAcq, isAcq]
    · simp [goodB] at h

theorem good_stepT (t : Thread) (h : Good t) : Good (stepT t) :=
  (good_iff _).2 (goodB_stepT t ((good_iff t).1 h))

/-- item 2: preservation -/
theorem good_step {s : State} {i : Nat} (hg : ∀ t ∈ s, Good t) (_he : enabled s i = true) :
    ∀ t ∈ stepAt s i, Good t := by
  intro t ht
  unfold stepAt at ht
  split at ht
  · rename_i u hu
    rcases List.mem_or_eq_of_mem_set ht with h | rfl
    · exact hg t h
    · exact good_stepT u (hg u (List.mem_of_getElem? hu))
  · exact hg t ht

/-! ## progress -/

theorem enabled_of_mem {s : State} {t : Thread} (ht : t ∈ s) (he : enabledT s t = true) :
    ∃ i, i < s.length ∧ enabled s i = true := by
  obtain ⟨i, hi, rfl⟩ := List.getElem_of_mem ht
  exact ⟨i, hi, by unfold enabled; rw [List.getElem?_eq_getElem hi]; exact he⟩

theorem deadlocked_eq_false_of_enabled {s : State} {i : Nat} (hi : i < s.length)
    (he : enabled s i = true) : deadlocked s = false := by
  unfold deadlocked
  have : (List.range s.length).all (fun i => !enabled s i) = false := by
    apply Bool.eq_false_iff.2
    intro h
    have := List.all_eq_true.1 h i (List.mem_range.2 hi)
    simp [he] at this
  simp [this]

theorem deadlocked_eq_false_of_finished {s : State} (h : finished s = true) : deadlocked s = false := by
  simp [deadlocked, h]

/-- a `Good` thread that holds `B` can release it -/
theorem heldB_nil_of_stuck {s : State} {t : Thread} (hg : goodB t = true)
    (hd : enabledT s t = false) : t.heldB = [] := by
  rcases t with ⟨todo, pend, heldA, heldB⟩
  rcases heldB with _ | ⟨m, _ | ⟨m', l⟩⟩
  · rfl
  · cases todo with
    | nil => simp [goodB, wf] at hg
    | cons op p => cases op <;> simp_all [goodB, wf, enabledT]
  · simp [goodB] at hg

/-- when nobody holds `B`, an announced writer is granted -/
theorem pendW_false_of_stuck {s : State} {t : Thread}
    (hB : s.all (fun u => u.heldB.isEmpty) = true) (hd : enabledT s t = false) : pendW t = false := by
  rcases t with ⟨todo, pend, heldA, heldB⟩
  cases todo with
  | nil => rfl
  | cons op p =>
    cases op with
    | acqB m =>
      cases m
      · rfl
      · simp [enabledT, hB] at hd
    | _ => rfl

/-- when nobody holds `B` and no writer waits, a stuck `Good` thread is finished or waits for a held `A`,
    and does not hold `A` itself -/
theorem stuck_shape {s : State} {t : Thread} (hg : goodB t = true) (hd : enabledT s t = false)
    (hb : t.heldB = [])
    (hB : s.all (fun u => u.heldB.isEmpty) = true) (hW : s.any holdsW = false)
    (hP : s.any pendW = false) :
    t.heldA = false ∧ (t.todo = [] ∨ s.any (·.heldA) = true) := by
  rcases t with ⟨todo, pend, heldA, heldB⟩
  simp only at hb
  subst hb
  cases todo with
  | nil => simp_all [goodB, wf]
  | cons op p =>
    cases op with
    | acqA => simp_all [goodB, wf, enabledT]
    | relA => simp [enabledT] at hd
    | relB m => simp [enabledT] at hd
    | acqB m => cases m <;> simp [enabledT, hB, hW, hP] at hd

theorem holdsW_false_of_nil {t : Thread} (h : t.heldB = []) : holdsW t = false := by
  simp [holdsW, h]

/-- item 3: progress. A state all of whose threads follow the discipline is never deadlocked:
    unless every thread is finished, some thread can take a step. -/
theorem C10_lock_order_no_deadlock {s : State} (hg : ∀ t ∈ s, Good t) : deadlocked s = false := by
  by_cases hstuck : ∃ t ∈ s, enabledT s t = true
  · obtain ⟨t, ht, he⟩ := hstuck
    obtain ⟨i, hi, hen⟩ := enabled_of_mem ht he
    exact deadlocked_eq_false_of_enabled hi hen
  · have hd : ∀ t ∈ s, enabledT s t = false := by
      intro t ht
      cases h : enabledT s t
      · rfl
      · exact absurd ⟨t, ht, h⟩ hstuck
    have hgB : ∀ t ∈ s, goodB t = true := fun t ht => (good_iff t).1 (hg t ht)
    -- nobody holds B
    have h1 : ∀ t ∈ s, t.heldB = [] := fun t ht => heldB_nil_of_stuck (hgB t ht) (hd t ht)
    have hB : s.all (fun u => u.heldB.isEmpty) = true :=
      List.all_eq_true.2 (fun t ht => by simp [h1 t ht])
    have hW : s.any holdsW = false :=
      List.any_eq_false.2 (fun t ht => by simp [holdsW_false_of_nil (h1 t ht)])
    -- no writer waits
    have hP : s.any pendW = false :=
      List.any_eq_false.2 (fun t ht => by simp [pendW_false_of_stuck hB (hd t ht)])
    -- nobody holds A
    have h2 : ∀ t ∈ s, t.heldA = false ∧ (t.todo = [] ∨ s.any (·.heldA) = true) :=
      fun t ht => stuck_shape (hgB t ht) (hd t ht) (h1 t ht) hB hW hP
    have hA : s.any (·.heldA) = false :=
      List.any_eq_false.2 (fun t ht => by simp [(h2 t ht).1])
    -- so everybody is finished
    apply deadlocked_eq_false_of_finished
    apply List.all_eq_true.2
    intro t ht
    rcases (h2 t ht).2 with h | h
    · simp [h]
    · rw [hA] at h
      cases h

/-! ## reachable states -/

theorem good_init {ps : List (List Op)} (hps : ∀ p ∈ ps, Bl p) : ∀ t ∈ initState ps, Good t := by
  intro t ht
  obtain ⟨p, hp, rfl⟩ := List.mem_map.1 ht
  exact ⟨(fun h => by simp at h), Or.inl ⟨rfl, rfl, hps p hp⟩⟩

theorem good_reach {s0 s : State} (h0 : ∀ t ∈ s0, Good t) (hr : Reach s0 s) : ∀ t ∈ s, Good t := by
  induction hr with
  | init => exact h0
  | step _ he ih => exact good_step ih he

/-- item 4: any number of threads, each running a program of the discipline, any interleaving:
    no reachable state is deadlocked. (`Reach` = inductive closure of enabled steps.) -/
theorem C10_lock_order_reachable (ps : List (List Op)) (hps : ∀ p ∈ ps, Bl p)
    {s : State} (hr : Reach (initState ps) s) : deadlocked s = false :=
  C10_lock_order_no_deadlock (good_reach (good_init hps) hr)

theorem reach_trans_step {s0 s : State} (hr : Reach s0 s) (i : Nat) :
    Reach s0 (if enabled s i then stepAt s i else s) := by
  split
  · exact Reach.step hr ‹_›
  · exact hr

theorem reach_run (s0 : State) (sched : List Nat) : Reach s0 (run s0 sched) := by
  suffices h : ∀ s, Reach s0 s → Reach s0 (run s sched) from h s0 Reach.init
  induction sched with
  | nil => intro s hr; exact hr
  | cons i rest ih =>
    intro s hr
    exact ih _ (reach_trans_step hr i)

theorem reach_of_runStrict {s0 s : State} {sched : List Nat} (h : runStrict s0 sched = some s) :
    Reach s0 s := by
  suffices hh : ∀ s1, Reach s0 s1 → runStrict s1 sched = some s → Reach s0 s from hh s0 Reach.init h
  clear h
  induction sched with
  | nil =>
    intro s1 hr h1
    simp only [runStrict, Option.some.injEq] at h1
    exact h1 ▸ hr
  | cons i rest ih =>
    intro s1 hr h1
    simp only [runStrict] at h1
    split at h1
    · exact ih _ (Reach.step hr ‹_›) h1
    · cases h1

/-- the same as a statement about schedules (lists of thread indices, disabled choices skipped) -/
theorem C10_lock_order_run (ps : List (List Op)) (hps : ∀ p ∈ ps, Bl p) (sched : List Nat) :
    deadlocked (run (initState ps) sched) = false :=
  C10_lock_order_reachable ps hps (reach_run _ sched)

/-! ## negative controls -/

/-- the seeded ScheduleJob (`mtx.RLock()` held across the call of `IsStarted()`, which does `mtx.RLock()`
    again) beside `Stop()` (`mtx.Lock()`) -/
def seededPrograms : List (List Op) :=
  [[.acqB .r, .acqB .r, .relB .r, .relB .r], [.acqB .w, .relB .w]]

/-- announce r, acquire r, (Stop) announce w, announce r: both threads wait for each other -/
def seededSchedule : List Nat := [0, 0, 1, 0]

/-- item 5a: every step of the schedule is enabled and the state it leads to is deadlocked -/
theorem C10_recursive_rlock_deadlocks :
    (runStrict (initState seededPrograms) seededSchedule).map deadlocked = some true := by decide

theorem C10_recursive_rlock_deadlocks_reach :
    ∃ s, Reach (initState seededPrograms) s ∧ deadlocked s = true := by
  have h : ∃ s, runStrict (initState seededPrograms) seededSchedule = some s ∧ deadlocked s = true := by
    decide
  obtain ⟨s, hs, hd⟩ := h
  exact ⟨s, reach_of_runStrict hs, hd⟩

/-- the first program is not in the discipline (so the theorem above does not contradict progress) -/
example : ¬ Bl [.acqB .r, .acqB .r, .relB .r, .relB .r] := by
  rw [Bl_iff_wf]; decide

/-- without the writer the re-entrant read lock goes unnoticed: this is why the defect needs a concurrent
    `Stop()` to show -/
example : ∀ sched ∈ [[0, 0, 0, 0, 0, 0], [0, 0, 0, 0], [0]],
    deadlocked (run (initState [[.acqB .r, .acqB .r, .relB .r, .relB .r]]) sched) = false := by decide

/-- lock-order inversion: `A; B` beside `B; A` -/
def reversePrograms : List (List Op) :=
  [[.acqA, .acqB .w, .relB .w, .relA], [.acqB .w, .acqA, .relA, .relB .w]]

def reverseSchedule : List Nat := [0, 0, 1, 1, 0, 1]

/-- item 5b -/
theorem C10_reverse_order_deadlocks :
    (runStrict (initState reversePrograms) reverseSchedule).map deadlocked = some true := by decide

theorem C10_reverse_order_deadlocks_reach :
    ∃ s, Reach (initState reversePrograms) s ∧ deadlocked s = true := by
  have h : ∃ s, runStrict (initState reversePrograms) reverseSchedule = some s ∧ deadlocked s = true := by
    decide
  obtain ⟨s, hs, hd⟩ := h
  exact ⟨s, reach_of_runStrict hs, hd⟩

example : ¬ Bl [.acqB .w, .acqA, .relA, .relB .w] := by
  rw [Bl_iff_wf]; decide

/-! ## the real methods -/

/-- lock shapes of the methods of `StdScheduler`:
    "A"    queueLocker only (GetJobKeys, GetScheduledJob, DeleteJob, PauseJob, Clear, ...)
    "A>Br" queueLocker, and inside it IsStarted() (ScheduleJob, ResumeJob, ...)
    "Br"   IsStarted()
    "Bw"   Start, Stop, Wait
    ""     takes no lock -/
def progOf : String → List Op
  | "A" => [.acqA, .relA]
  | "A>Br" => [.acqA, .acqB .r, .relB .r, .relA]
  | "Br" => [.acqB .r, .relB .r]
  | "Bw" => [.acqB .w, .relB .w]
  | _ => []

def shapes : List String := ["A", "A>Br", "Br", "Bw", ""]

theorem progOf_A : progOf "A" = [.acqA, .relA] := by decide
theorem progOf_ABr : progOf "A>Br" = [.acqA, .acqB .r, .relB .r, .relA] := by decide
theorem progOf_Br : progOf "Br" = [.acqB .r, .relB .r] := by decide
theorem progOf_Bw : progOf "Bw" = [.acqB .w, .relB .w] := by decide
theorem progOf_none : progOf "" = [] := by decide

/-- item 6 -/
theorem progOf_good : ∀ sh ∈ ["A", "A>Br", "Br", "Bw", ""], Bl (progOf sh) := by
  intro sh h
  simp only [List.mem_cons, List.not_mem_nil, or_false] at h
  rcases h with rfl | rfl | rfl | rfl | rfl
  · rw [progOf_A]; exact blCheck_sound (by decide)
  · rw [progOf_ABr]; exact blCheck_sound (by decide)
  · rw [progOf_Br]; exact blCheck_sound (by decide)
  · rw [progOf_Bw]; exact blCheck_sound (by decide)
  · rw [progOf_none]; exact Bl.nil

/-- a thread that calls several methods one after the other -/
theorem Bl_append {p q : List Op} (hp : Bl p) (hq : Bl q) : Bl (p ++ q) := by
  induction hp with
  | nil => exact hq
  | a hbb _ ih =>
    have := Bl.a hbb ih
    simpa [List.append_assoc] using this
  | b m _ ih => exact Bl.b m ih

/-- any sequence of calls of the real methods is a program of the discipline -/
theorem Bl_calls (calls : List String) (h : ∀ sh ∈ calls, sh ∈ shapes) :
    Bl (calls.flatMap progOf) := by
  induction calls with
  | nil => exact Bl.nil
  | cons c rest ih =>
    rw [List.flatMap_cons]
    exact Bl_append (progOf_good c (h c List.mem_cons_self))
      (ih (fun sh hsh => h sh (List.mem_cons_of_mem _ hsh)))

/-- the property for the real scheduler: any number of goroutines, each calling any sequence of
    scheduler methods, any interleaving: never deadlocked on the scheduler's own locks -/
theorem C10_lock_order_methods (threads : List (List String))
    (h : ∀ calls ∈ threads, ∀ sh ∈ calls, sh ∈ shapes)
    {s : State} (hr : Reach (initState (threads.map (·.flatMap progOf))) s) : deadlocked s = false := by
  refine C10_lock_order_reachable _ ?_ hr
  intro p hp
  obtain ⟨calls, hc, rfl⟩ := List.mem_map.1 hp
  exact Bl_calls calls (h calls hc)

/-! ## non-vacuity -/

/-- mid-way: thread 0 is inside `A` holding `B.r` (ScheduleJob inside IsStarted), thread 1 has announced
    `B.Lock()` (Stop), thread 2 waits for `A` (another ScheduleJob) -/
def midState : State :=
  [ { todo := [.relB .r, .relA], heldA := true, heldB := [.r] },
    { todo := [.acqB .w, .relB .w], pend := true },
    { todo := [.acqA, .acqB .r, .relB .r, .relA], pend := true } ]

example : ∀ t ∈ midState, Good t := by
  intro t ht
  rw [good_iff]
  revert t
  decide

example : deadlocked midState = false := by decide
example : deadlocked midState = false := C10_lock_order_no_deadlock (by
  intro t ht; rw [good_iff]; revert t; decide)

/-- only thread 0 can move there (the other two wait), and after it has released both locks they can -/
example : (List.range 3).map (enabled midState) = [true, false, false] := by decide
example : (List.range 3).map (enabled (run midState [0, 0])) = [false, true, true] := by decide

/-- `midState` is reachable from three real method calls: ScheduleJob, Stop, ScheduleJob -/
example : runStrict (initState [progOf "A>Br", progOf "Bw", progOf "A>Br"]) [0, 0, 0, 0, 1, 2] =
    some midState := by decide

/-- `good_step` on a concrete instance -/
example : ∀ t ∈ stepAt midState 0, Good t :=
  good_step (by intro t ht; rw [good_iff]; revert t; decide) (by decide)

/-- `C10_lock_order_reachable` / `C10_lock_order_methods` on a concrete instance: the programs run to the end -/
example : finished (run (initState [progOf "A>Br", progOf "Bw", progOf "A>Br"])
    [0, 0, 0, 0, 1, 2, 0, 0, 1, 1, 2, 2, 2, 2, 2, 2]) = true := by decide

example : ∀ p ∈ [progOf "A>Br", progOf "Bw", progOf "A>Br" ++ progOf "A"], Bl p := by
  intro p hp
  simp only [List.mem_cons, List.not_mem_nil, or_false] at hp
  rcases hp with rfl | rfl | rfl
  · exact progOf_good _ (by simp)
  · exact progOf_good _ (by simp)
  · exact Bl_append (progOf_good _ (by simp)) (progOf_good _ (by simp))

/-- `blCheck` on data shaped like the regenerated facts -/
example : ∀ p ∈ [[Op.acqA, Op.acqB .r, Op.relB .r, Op.relA], [Op.acqB .w, Op.relB .w], []], Bl p :=
  blCheck_all_sound (by decide)


/-! ## mutual exclusion: sanity of the lock semantics (holds for ARBITRARY programs) -/

/-- the thread holds `B` in some mode -/
def holdsB (t : Thread) : Bool := !t.heldB.isEmpty

/-- at most one thread holds `A`; while a writer holds `B`, it is the only holder of `B` -/
def Consistent (s : State) : Prop :=
  s.countP (·.heldA) ≤ 1 ∧ (s.any holdsW = true → s.countP holdsB ≤ 1)

instance (s : State) : Decidable (Consistent s) := by unfold Consistent; infer_instance

theorem countP_set_mono {p : Thread → Bool} {s : State} {i : Nat} {t t' : Thread}
    (hi : s[i]? = some t) (h : p t' = true → p t = true) :
    (s.set i t').countP p ≤ s.countP p := by
  obtain ⟨hlt, rfl⟩ := List.getElem?_eq_some_iff.1 hi
  rw [List.countP_set hlt]
  cases hp : p t'
  · simp
  · have h1 : p s[i] = true := h hp
    have h2 : 0 < s.countP p := List.countP_pos_iff.2 ⟨_, List.getElem_mem hlt, h1⟩
    simp [h1]
    omega

theorem countP_set_le_succ {p : Thread → Bool} {s : State} {i : Nat} {t' : Thread} :
    (s.set i t').countP p ≤ s.countP p + 1 := by
  by_cases hlt : i < s.length
  · rw [List.countP_set hlt]
    split <;> split <;> omega
  · rw [List.set_eq_of_length_le (by omega)]
    omega

theorem any_set {q : Thread → Bool} {s : State} {i : Nat} {t' : Thread}
    (h : (s.set i t').any q = true) : s.any q = true ∨ q t' = true := by
  obtain ⟨u, hu, hq⟩ := List.any_eq_true.1 h
  rcases List.mem_or_eq_of_mem_set hu with h1 | rfl
  · exact Or.inl (List.any_eq_true.2 ⟨u, h1, hq⟩)
  · exact Or.inr hq

theorem stepT_heldA (s : State) (t : Thread) (he : enabledT s t = true)
    (h : (stepT t).heldA = true) : t.heldA = true ∨ s.any (·.heldA) = false := by
  rcases t with ⟨todo, pend, heldA, heldB⟩
  cases todo with
  | nil => exact Or.inl h
  | cons op p =>
    cases op with
    | acqA =>
      cases pend
      · exact Or.inl h
      · right; simpa [enabledT] using he
    | relA => simp [stepT] at h
    | acqB m => cases pend <;> exact Or.inl h
    | relB m => exact Or.inl h

theorem holdsW_erase {l : List Mode} {m : Mode} {t : Thread}
    (h : holdsW { t with heldB := l.erase m } = true) : holdsW { t with heldB := l } = true := by
  simp only [holdsW, List.any_eq_true] at h ⊢
  obtain ⟨x, hx, hw⟩ := h
  exact ⟨x, List.mem_of_mem_erase hx, hw⟩

theorem stepT_heldB (s : State) (t : Thread) (ht : t ∈ s) (he : enabledT s t = true) :
    ((holdsW (stepT t) = true → holdsW t = true) ∧ (holdsB (stepT t) = true → holdsB t = true))
    ∨ s.all (fun u => u.heldB.isEmpty) = true
    ∨ (s.any holdsW = false ∧ holdsW (stepT t) = false) := by
  rcases t with ⟨todo, pend, heldA, heldB⟩
  cases todo with
  | nil => exact Or.inl ⟨id, id⟩
  | cons op p =>
    cases op with
    | acqA => cases pend <;> exact Or.inl ⟨id, id⟩
    | relA => exact Or.inl ⟨id, id⟩
    | acqB m =>
      cases pend
      · exact Or.inl ⟨id, id⟩
      · cases m
        · right; right
          have h1 : s.any holdsW = false := by
            simp only [enabledT, Bool.not_true, Bool.false_or, Bool.and_eq_true,
              Bool.not_eq_true'] at he
            exact he.1
          have h2 := List.any_eq_false.1 h1 _ ht
          refine ⟨h1, ?_⟩
          simpa [holdsW, stepT] using h2
        · right; left
          simpa [enabledT] using he
    | relB m =>
      left
      refine ⟨fun h => holdsW_erase (t := ⟨p, pend, heldA, heldB⟩) h, fun h => ?_⟩
      cases heldB with
      | nil => simp [holdsB, stepT] at h
      | cons _ _ => simp [holdsB]

theorem consistent_step {s : State} {i : Nat} (hc : Consistent s) (he : enabled s i = true) :
    Consistent (stepAt s i) := by
  unfold stepAt
  unfold enabled at he
  cases hsi : s[i]? with
  | none => exact hc
  | some t =>
    rw [hsi] at he
    have ht : t ∈ s := List.mem_of_getElem? hsi
    show Consistent (s.set i (stepT t))
    refine ⟨?_, fun hw => ?_⟩
    · by_cases h : (stepT t).heldA = true
      · rcases stepT_heldA s t he h with h1 | h1
        · exact Nat.le_trans (countP_set_mono (p := (·.heldA)) hsi (fun _ => h1)) hc.1
        · have h0 : s.countP (·.heldA) = 0 :=
            List.countP_eq_zero.2 (List.any_eq_false.1 h1)
          have := countP_set_le_succ (p := (·.heldA)) (s := s) (i := i) (t' := stepT t)
          omega
      · exact Nat.le_trans (countP_set_mono (p := (·.heldA)) hsi (fun h' => absurd h' h)) hc.1
    · rcases stepT_heldB s t ht he with ⟨h1, h2⟩ | h1 | ⟨h1, h2⟩
      · have hw' : s.any holdsW = true := by
          rcases any_set hw with h | h
          · exact h
          · exact List.any_eq_true.2 ⟨t, ht, h1 h⟩
        exact Nat.le_trans (countP_set_mono hsi h2) (hc.2 hw')
      · have h0 : s.countP holdsB = 0 := by
          apply List.countP_eq_zero.2
          intro u hu
          have := List.all_eq_true.1 h1 u hu
          simp [holdsB, this]
        have := countP_set_le_succ (p := holdsB) (s := s) (i := i) (t' := stepT t)
        omega
      · rcases any_set hw with h | h
        · rw [h1] at h; cases h
        · rw [h2] at h; cases h

theorem consistent_init (ps : List (List Op)) : Consistent (initState ps) := by
  have hA : (initState ps).countP (·.heldA) = 0 := by
    apply List.countP_eq_zero.2
    intro t ht
    obtain ⟨p, _, rfl⟩ := List.mem_map.1 ht
    simp
  have hW : (initState ps).any holdsW = false := by
    apply List.any_eq_false.2
    intro t ht
    obtain ⟨p, _, rfl⟩ := List.mem_map.1 ht
    simp [holdsW]
  exact ⟨by omega, fun h => by rw [hW] at h; cases h⟩

/-- the locks of the model exclude: in every reachable state of ANY programs (in the discipline or not)
    at most one thread holds `A`, and a thread that holds `B` in write mode is the only holder of `B`.
    (So deadlock freedom is not obtained by granting locks too generously.) -/
theorem C10_mutual_exclusion (ps : List (List Op)) {s : State} (hr : Reach (initState ps) s) :
    Consistent s := by
  induction hr with
  | init => exact consistent_init ps
  | step _ he ih => exact consistent_step ih he

/-- non-vacuity: the mid-way state is consistent, two holders of `A` are not, a reader beside a writer is not -/
example : Consistent midState := by decide
example : ¬ Consistent [{ todo := [.relA], heldA := true }, { todo := [.relA], heldA := true }] := by decide
example : ¬ Consistent [{ todo := [.relB .w], heldB := [.w] }, { todo := [.relB .r], heldB := [.r] }] := by
  decide

end LockOrder
