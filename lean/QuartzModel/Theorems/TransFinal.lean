import QuartzModel.Theorems.TransCsm
import QuartzModel.Theorems.TransMachine
import QuartzModel.Proofs.TransDayLemmas
import QuartzModel.Proofs.TransTransfer
/-!
# The hand-written cron model IS the translated Go code — final assembly

Stage A (`Theorems/TransCsm.lean`, common nodes), Stage B (`Proofs/TransDayLemmas.lean`, day node with
`T := goTime`) and Stage C (`Theorems/TransMachine.lean`, state machine) composed:

* `trans_dayEquiv`          — Stage B provides the abstract day-node equivalence Stage C is stated over;
* `trans_nextTriggerTime`   — `newCSMFromFields(wall, fields).NextTriggerTime(time.UTC)` of the TRANSLATED code
                              equals the model's `Cron.csmNext {} f wall`, for every well-formed expression, every valid
                              wall clock and every fuel `> csmFuel`;
* `C01_sound_trans`, `C02_minimal_trans`, `C06_total_trans` — the property theorems, restated for
  `nextFireT goTime` (= `NextFireTime` with the translated state machine inside).

Trusted in the translation (modelled, not translated): package `time` on UTC midnights (`Cron.goTime`, from the
calendar model that `cmd/cal` validates against Go day by day), the retry loop of `quartz/cron.go: NextFireTime`
(hand-written `zoneLoop`), and the translator itself (`harness/cmd/gotolean`, checked idioms 1–5).
-/
namespace TransCsm
open Generated.Trans Cron Cal Odo TransRepr TransA TransC

/-- every listed function of `internal/csm` and `quartz/csm.go` was translated and all five idioms were found in the
source (a failed idiom check is an entry of `missing`) -/
theorem trans_nothing_missing : Generated.Trans.missing = [] := by decide

/-- Stage B ⇒ the hypothesis of Stage C -/
theorem trans_dayEquiv (f : Fields) (hwf : WellFormed f = true) (fuel : Nat) (hfuel : 32 ≤ fuel) :
    DayEquiv goTime f fuel :=
  { findForward := fun y m v h1 h2 _ h4 => TransDay.trans_dayFindForward f hwf y m v fuel h1 h2 h4 hfuel
    next := fun y m v h1 h2 _ h4 => TransDay.trans_dayNext f hwf y m v fuel h1 h2 h4 hfuel
    reset := fun y m v h1 h2 _ h4 => TransDay.trans_dayReset f hwf y m v fuel h1 h2 h4 hfuel }

/-- **`newCSMFromFields(wall, fields).NextTriggerTime` of the translated Go code is the model's `csmNext`.** -/
theorem trans_nextTriggerTime (f : Fields) (hwf : WellFormed f = true) (fuel : Nat) (hfuel : csmFuel + 1 ≤ fuel)
    (wall : Civil) (hv : wall.Valid) (hy : wall.year ≤ 3940) :
    transCsmNext goTime f wall fuel = csmNext {} f wall :=
  trans_nextTriggerTime_of goTime f hwf fuel
    (trans_dayEquiv f hwf fuel (by have := csmFuel_eq; omega)) hfuel wall hv hy

/-- the same, spelled out on the generated functions: the six node values and `exhausted` -/
theorem trans_nextTriggerTime_values (f : Fields) (hwf : WellFormed f = true) (fuel : Nat) (hfuel : csmFuel + 1 ≤ fuel)
    (wall : Civil) (hv : wall.Valid) (hy : wall.year ≤ 3940) :
    (CronStateMachine.NextTriggerTime goTime
        (newCSMFromFields wall.year wall.month wall.day wall.hour wall.minute wall.second (mkFields f)) fuel).map
      (fun r => if r.2.2 then some (civilOfWall r.2.1) else none) =
    (match Odo.findForward (levels {} f) (levelsDec {} f) 6 csmFuel (cfgOfCivil wall) with
     | none => none
     | some (_, true) => some none
     | some (c, false) => some (some (civilOfCfg c))) :=
  trans_nextTriggerTime f hwf fuel hfuel wall hv hy

theorem trans_agree (f : Fields) (hwf : WellFormed f = true) (fuel : Nat) (hfuel : csmFuel + 1 ≤ fuel) :
    Agree goTime fuel f :=
  fun wall hv hy => trans_nextTriggerTime f hwf fuel hfuel wall hv hy

/-! ## C01 / C02 / C06 for the translated state machine

`prev ≤ 9223372036854775807`: `prev` is an int64 count of nanoseconds in Go (every `time.Time.UnixNano()`). -/

section transfer
variable (f : Fields) (hwf : WellFormed f = true) (fuel : Nat) (hfuel : csmFuel + 1 ≤ fuel) (c prev : Int)
  (hc : -100000 ≤ c ∧ c ≤ 100000) (hp : -9223372036854775808 ≤ prev) (hmax : prev ≤ 9223372036854775807)
include hwf hfuel hc hp hmax

theorem nextFireT_eq_nextFire : nextFireT goTime fuel f (fixedZone c) prev = nextFire {} f (fixedZone c) prev :=
  nextFireT_eq goTime fuel f hwf (trans_agree f hwf fuel hfuel) c prev hc hp hmax

/-- C01 (soundness) with the translated state machine inside `NextFireTime` -/
theorem C01_sound_trans (r : Int) (h : nextFireT goTime fuel f (fixedZone c) prev = .ok r) :
    r % 1000000000 = 0 ∧ prev < r ∧ Matches f (Civil.ofSeconds (r / 1000000000 + c)) := by
  rw [nextFireT_eq_nextFire f hwf fuel hfuel c prev hc hp hmax] at h
  exact C01_sound f hwf c prev hc hp r h

/-- C02 (minimality) with the translated state machine inside `NextFireTime` -/
theorem C02_minimal_trans (r : Int) (h : nextFireT goTime fuel f (fixedZone c) prev = .ok r) :
    ∀ u : Int, prev < u → u < r → u % 1000000000 = 0 →
      ¬ Matches f (Civil.ofSeconds (u / 1000000000 + c)) := by
  rw [nextFireT_eq_nextFire f hwf fuel hfuel c prev hc hp hmax] at h
  exact C02_minimal f hwf c prev hc hp r h

/-- C06 (totality) with the translated state machine inside `NextFireTime` -/
theorem C06_total_trans :
    (∃ r, nextFireT goTime fuel f (fixedZone c) prev = .ok r ∧ prev < r) ∨
      nextFireT goTime fuel f (fixedZone c) prev = .expired := by
  rw [nextFireT_eq_nextFire f hwf fuel hfuel c prev hc hp hmax]
  exact C06_total f hwf c prev hc hp

end transfer

/-! ## non-vacuity -/

/-- the hypotheses are satisfiable: a well-formed expression (Mon, Wed, Fri at noon), a valid wall clock -/
example : WellFormed exWeekdays = true ∧ leapEve.Valid ∧ leapEve.year ≤ 3940 ∧ Box (cfgOfCivil leapEve) :=
  ⟨by decide, leapEve_valid, by decide, box_cfgOfCivil leapEve leapEve_valid (by decide)⟩

example : DayEquiv goTime exWeekdays (csmFuel + 1) :=
  trans_dayEquiv exWeekdays (by decide) _ (by have := csmFuel_eq; omega)

example : transCsmNext goTime exWeekdays leapEve (csmFuel + 1) = csmNext {} exWeekdays leapEve :=
  trans_nextTriggerTime exWeekdays (by decide) _ (Nat.le_refl _) leapEve leapEve_valid (by decide)

/-- C01 / C02 / C06 of the translated state machine at a `prev` before 1970 (one day and 1 ns before the epoch) -/
theorem exNoon_neg_trans :
    nextFireT goTime (csmFuel + 1) exNoon (fixedZone 0) (-86400000000001) = .ok (-43200000000000) := by
  rw [nextFireT_eq_nextFire exNoon exNoon_wf (csmFuel + 1) (Nat.le_refl _) 0 _ (by omega) (by omega) (by omega)]
  exact exNoon_neg

example : (-43200000000000 : Int) % 1000000000 = 0 ∧ (-86400000000001 : Int) < -43200000000000 ∧
    Matches exNoon (Civil.ofSeconds (-43200000000000 / 1000000000 + 0)) :=
  C01_sound_trans exNoon exNoon_wf (csmFuel + 1) (Nat.le_refl _) 0 (-86400000000001) (by omega) (by omega)
    (by omega) _ exNoon_neg_trans

example : ∀ u : Int, -86400000000001 < u → u < -43200000000000 → u % 1000000000 = 0 →
    ¬ Matches exNoon (Civil.ofSeconds (u / 1000000000 + 0)) :=
  C02_minimal_trans exNoon exNoon_wf (csmFuel + 1) (Nat.le_refl _) 0 (-86400000000001) (by omega) (by omega)
    (by omega) _ exNoon_neg_trans

example : (∃ r, nextFireT goTime (csmFuel + 1) exNoon (fixedZone 0) (-9223372036854775808) = .ok r ∧
      -9223372036854775808 < r) ∨
    nextFireT goTime (csmFuel + 1) exNoon (fixedZone 0) (-9223372036854775808) = .expired :=
  C06_total_trans exNoon exNoon_wf (csmFuel + 1) (Nat.le_refl _) 0 (-9223372036854775808) (by omega) (by omega)
    (by omega)

end TransCsm

#print axioms TransCsm.trans_dayEquiv
#print axioms TransCsm.trans_nextTriggerTime
#print axioms TransCsm.C01_sound_trans
#print axioms TransCsm.C02_minimal_trans
#print axioms TransCsm.C06_total_trans
