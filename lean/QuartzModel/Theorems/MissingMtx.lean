import QuartzModel.Generated.Facts
/-! No source shape of the `mtx` fact group (lock operations per method of StdScheduler) is missing. -/
namespace Facts
theorem missing_none_mtx : (Generated.missing.filter (fun s => "mtx.".toList.isPrefixOf s.toList)) = [] := by decide
end Facts
