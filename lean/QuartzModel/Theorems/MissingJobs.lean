import QuartzModel.Generated.Facts
/-! No source shape of the `jobs` fact group(s) is missing (a separate module per group, so that a reshaped function of one area
cannot break the proof obligations of properties that do not depend on it). -/
namespace Facts
theorem missing_none_jobs : (Generated.missing.filter (fun s => "jobs.".toList.isPrefixOf s.toList)) = [] := by decide
end Facts
