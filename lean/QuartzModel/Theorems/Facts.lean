import QuartzModel.Generated.Facts
/-!
# The regenerated facts are the constants the model and its theorems use

`Generated/Facts.lean` is rewritten from /repo's current source on every run. The general theorems are
stated for the default `Cron.Limits` / `Cron.Bounds` and the glossaries in `Cron/Parse.lean`; these
equalities are what makes them theorems about the code as it is now. A changed bound, name table,
macro or `#` range in the Go source breaks one of these `decide`s.
-/
namespace Facts

theorem missing_none : Generated.missing = [] := by decide
theorem limits_eq : Generated.limits = ({} : Cron.Limits) := by decide
theorem limitsAux_eq : Generated.limitsAux = [0, 0, 0, 1, 31] := by decide
theorem bounds_eq : Generated.bounds = ({} : Cron.Bounds) := by decide
theorem hashRange_eq : Generated.hashRange = (1, 5) := by decide
theorem dowShift_eq : Generated.dowShift = -1 := by decide
theorem months_eq : Generated.months.map String.toList = Cron.monthNames := by decide
theorem days_eq : Generated.days.map String.toList = Cron.dayNames := by decide

/-- the macro table, as a finite map (the extractor sorts by key; Go's map has no order) -/
theorem special_eq :
    (Generated.special.map (fun p => (p.1.toList, p.2.toList))).Perm Cron.specialTable := by
  decide

end Facts
