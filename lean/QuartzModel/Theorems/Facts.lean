import QuartzModel.Generated.Facts
/-!
# The regenerated facts are the constants the model and its theorems use

`Generated/Facts.lean` is rewritten from /repo's current source on every run. The general theorems are
stated for the default `Cron.Limits` / `Cron.Bounds` and the glossaries in `Cron/Parse.lean`; these
equalities are what makes them theorems about the code as it is now. A changed bound, name table,
macro or `#` range in the Go source breaks one of these `decide`s.
-/
namespace Facts

/-- no shape of the CRON fact groups is missing. (`Generated.missing` lists, with a group prefix, every source shape an extractor
could not find; each property looks only at the groups it depends on, so that a reshaped scheduler function cannot break the
tie of the cron properties and vice versa.) -/
theorem missing_none :
    Generated.missing.filter (fun s => "nodeLimits".toList.isPrefixOf s.toList || "parseBounds".toList.isPrefixOf s.toList) = [] := by decide

theorem limits_eq : Generated.limits = ({} : Cron.Limits) := by decide
theorem limitsAux_eq : Generated.limitsAux = [0, 0, 0, 1, 31] := by decide
theorem bounds_eq : Generated.bounds = ({} : Cron.Bounds) := by decide
theorem hashRange_eq : Generated.hashRange = (1, 5) := by decide
theorem dowShift_eq : Generated.dowShift = -1 := by decide
theorem months_eq : Generated.months.map String.toList = Cron.monthNames := by decide
theorem days_eq : Generated.days.map String.toList = Cron.dayNames := by decide

/-- the macro table, as a finite map (the extractor sorts by key; Go's map has no order) -/
theorem special_eq :
    (Generated.special.map (fun p => (p.1.toList, p.2.toList))).Perm Cron.specialTable := by
  decide

end Facts
