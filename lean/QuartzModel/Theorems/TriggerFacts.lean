import QuartzModel.Generated.Facts
import QuartzModel.Sched.Model
/-!
# The interval triggers of the model are the interval triggers of the source (C04)

`Trig.fire` for `.simple` / `.runOnce` transcribes `SimpleTrigger.NextFireTime` / `RunOnceTrigger.NextFireTime`
(`quartz/trigger.go`), and `satAdd` transcribes the addition they share, `addNanos`: `prev + interval`, answered as
`math.MaxInt64` when the interval is positive and the int64 sum came out smaller than `prev` (it wrapped around).
The equalities pin the transcription to the source text read on this run.  (A module of its own: a reshaped
`trigger.go` breaks these obligations only.)  That the literal int64 reading of the three statements of `addNanos`
is `satAdd` is `Sched.C04_addNanos_is_satAdd`.
-/
namespace Sched

theorem trigger_interval_add :
    Generated.Trigger.simpleNext = ["return addNanos(prev, st.Interval), nil"] ∧
    Generated.Trigger.runOnceNext =
      ["if !ot.Expired { ot.Expired = true return addNanos(prev, ot.Delay), nil }", "return 0, ErrTriggerExpired"] ∧
    Generated.Trigger.addNanos =
      ["next := t + d.Nanoseconds()", "if d > 0 && next < t { return math.MaxInt64 }", "return next"] := by decide

/-- the model's interval triggers, spelled out against the same statements -/
theorem trigger_fire_spec (I prev : Int) :
    Trig.fire (.simple I) prev = (some (satAdd prev I), .simple I) ∧
    Trig.fire (.runOnce I false) prev = (some (satAdd prev I), .runOnce I true) ∧
    Trig.fire (.runOnce I true) prev = (none, .runOnce I true) ∧
    satAdd prev I = if I > 0 ∧ prev + I > maxInt64 then maxInt64 else prev + I := ⟨rfl, rfl, rfl, rfl⟩

end Sched
