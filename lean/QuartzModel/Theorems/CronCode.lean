import QuartzModel.Theorems.Facts
import QuartzModel.Theorems.C01
import QuartzModel.Theorems.C02
import QuartzModel.Theorems.C06
import QuartzModel.Theorems.C07
/-!
# C01 / C02 / C06 for the model instantiated with the facts regenerated from /repo

These are the statements the correspondence check transfers to the code: the driver runs exactly
`newTrigger Generated.bounds` and `nextFire Generated.limits`. `WellFormed` is not assumed: it is what
the parser model is proved to establish.
-/
namespace Cron
open Cal

theorem C01_sound_code (s : Str) (f : Fields) (h : newTrigger Generated.bounds s = some f) (c prev : Int)
    (hc : -100000 ≤ c ∧ c ≤ 100000) (hp : -9223372036854775808 ≤ prev) (r : Int)
    (hr : nextFire Generated.limits f (fixedZone c) prev = .ok r) :
    r % 1000000000 = 0 ∧ prev < r ∧ Matches f (Civil.ofSeconds (r / 1000000000 + c)) := by
  rw [Facts.bounds_eq] at h; rw [Facts.limits_eq] at hr
  exact C01_sound f (newTrigger_wellFormed s f h) c prev hc hp r hr

theorem C02_minimal_code (s : Str) (f : Fields) (h : newTrigger Generated.bounds s = some f) (c prev : Int)
    (hc : -100000 ≤ c ∧ c ≤ 100000) (hp : -9223372036854775808 ≤ prev) (r : Int)
    (hr : nextFire Generated.limits f (fixedZone c) prev = .ok r) :
    ∀ u : Int, prev < u → u < r → u % 1000000000 = 0 → ¬ Matches f (Civil.ofSeconds (u / 1000000000 + c)) := by
  rw [Facts.bounds_eq] at h; rw [Facts.limits_eq] at hr
  exact C02_minimal f (newTrigger_wellFormed s f h) c prev hc hp r hr

theorem C02_expired_iff_code (s : Str) (f : Fields) (h : newTrigger Generated.bounds s = some f) (c prev : Int)
    (hc : -100000 ≤ c ∧ c ≤ 100000) (hp : -9223372036854775808 ≤ prev) :
    nextFire Generated.limits f (fixedZone c) prev = .expired ↔
      ¬ ∃ u : Int, prev < u ∧ u % 1000000000 = 0 ∧ Matches f (Civil.ofSeconds (u / 1000000000 + c)) := by
  rw [Facts.bounds_eq] at h; rw [Facts.limits_eq]
  exact C02_expired_iff f (newTrigger_wellFormed s f h) c prev hc hp

theorem C06_total_code (s : Str) (f : Fields) (h : newTrigger Generated.bounds s = some f) (c prev : Int)
    (hc : -100000 ≤ c ∧ c ≤ 100000) (hp : -9223372036854775808 ≤ prev) :
    (∃ r, nextFire Generated.limits f (fixedZone c) prev = .ok r ∧ prev < r) ∨
      nextFire Generated.limits f (fixedZone c) prev = .expired := by
  rw [Facts.bounds_eq] at h; rw [Facts.limits_eq]
  exact C06_total f (newTrigger_wellFormed s f h) c prev hc hp

/-- every accepted string yields well-formed fields, for the bounds read from the source -/
theorem C07_wellFormed_code (s : Str) (f : Fields) (h : newTrigger Generated.bounds s = some f) :
    WellFormed f = true := by
  rw [Facts.bounds_eq] at h; exact newTrigger_wellFormed s f h

/-! ## non-vacuity at a `prev` before 1970 (negative) -/

theorem exNoon_parsed_code : newTrigger Generated.bounds "0 0 12 * * ?".toList = some exNoon := by
  rw [Facts.bounds_eq]; decide

/-- one day and 1 ns before the epoch → 1969-12-31T12:00:00Z -/
theorem exNoon_neg_code :
    nextFire Generated.limits exNoon (fixedZone 0) (-86400000000001) = .ok (-43200000000000) := by
  rw [Facts.limits_eq]; exact exNoon_neg

example : (-43200000000000 : Int) % 1000000000 = 0 ∧ (-86400000000001 : Int) < -43200000000000 ∧
    Matches exNoon (Civil.ofSeconds (-43200000000000 / 1000000000 + 0)) :=
  C01_sound_code _ exNoon exNoon_parsed_code 0 (-86400000000001) (by omega) (by omega) _ exNoon_neg_code

example : ∀ u : Int, -86400000000001 < u → u < -43200000000000 → u % 1000000000 = 0 →
    ¬ Matches exNoon (Civil.ofSeconds (u / 1000000000 + 0)) :=
  C02_minimal_code _ exNoon exNoon_parsed_code 0 (-86400000000001) (by omega) (by omega) _ exNoon_neg_code

example : ¬ (nextFire Generated.limits exNoon (fixedZone 0) (-86400000000001) = .expired) := by
  rw [C02_expired_iff_code _ exNoon exNoon_parsed_code 0 (-86400000000001) (by omega) (by omega)]
  exact fun h => h ⟨-43200000000000, by omega, by omega,
    (C01_sound_code _ exNoon exNoon_parsed_code 0 (-86400000000001) (by omega) (by omega) _
      exNoon_neg_code).2.2⟩

example : (∃ r, nextFire Generated.limits exNoon (fixedZone 0) (-9223372036854775808) = .ok r ∧
      -9223372036854775808 < r) ∨
    nextFire Generated.limits exNoon (fixedZone 0) (-9223372036854775808) = .expired :=
  C06_total_code _ exNoon exNoon_parsed_code 0 (-9223372036854775808) (by omega) (by omega)

end Cron
