import QuartzModel.Theorems.C01
/-!
# C02 — `NextFireTime` returns the *earliest* matching instant, and "expired" exactly when none is left

For a well-formed expression and a fixed-offset location: no whole second strictly between `prev`
and the returned value matches the expression; the trigger reports expiry iff no matching instant
after `prev` exists (`Matches` includes `year ≤ lastYear`, i.e. inside the representable range);
iterating therefore enumerates the matching instants in strictly increasing order with none skipped.
-/
namespace Cron
open Cal Odo

theorem C02_minimal (f : Fields) (hwf : WellFormed f = true) (c prev : Int)
    (hc : -100000 ≤ c ∧ c ≤ 100000) (hp : -9223372036854775808 ≤ prev)
    (r : Int) (h : nextFire {} f (fixedZone c) prev = .ok r) :
    ∀ u : Int, prev < u → u < r → u % 1000000000 = 0 →
      ¬ Matches f (Civil.ofSeconds (u / 1000000000 + c)) := by
  intro u hpu hur hu hmu
  obtain ⟨t, ht, rfl⟩ := nextFire_ok f hwf c prev hc hp r h
  obtain ⟨hm, _, hleast⟩ := csmNext_spec_some f hwf _ t ht
  obtain ⟨hwv, hws⟩ := wall0_valid c prev hc hp
  obtain ⟨huv, hus⟩ := wall0_valid c u hc (by omega)
  have hv := matches_valid f t hm
  have h1 : Civil.lexLt (Civil.ofSeconds (prev / 1000000000 + c)) (Civil.ofSeconds (u / 1000000000 + c)) :=
    (Civil.toSeconds_lt_iff _ _ hwv huv).mp (by omega)
  have h2 : Civil.lexLt (Civil.ofSeconds (u / 1000000000 + c)) t :=
    (Civil.toSeconds_lt_iff _ _ huv hv).mp (by omega)
  exact hleast _ hmu h1 h2

theorem C02_expired_iff (f : Fields) (hwf : WellFormed f = true) (c prev : Int)
    (hc : -100000 ≤ c ∧ c ≤ 100000) (hp : -9223372036854775808 ≤ prev) :
    nextFire {} f (fixedZone c) prev = .expired ↔
      ¬ ∃ u : Int, prev < u ∧ u % 1000000000 = 0 ∧
        Matches f (Civil.ofSeconds (u / 1000000000 + c)) := by
  constructor
  · intro h
    have hnone := csmNext_spec_none f hwf _ (nextFire_expired f hwf c prev hc hp h)
    rintro ⟨u, hpu, hu, hmu⟩
    obtain ⟨hwv, hws⟩ := wall0_valid c prev hc hp
    obtain ⟨huv, hus⟩ := wall0_valid c u hc (by omega)
    exact hnone ⟨_, hmu, (Civil.toSeconds_lt_iff _ _ hwv huv).mp (by omega)⟩
  · intro hno
    obtain ⟨nw, _, hnf⟩ := nextFire_fixed f hwf c prev hc hp
    cases nw with
    | none => exact hnf
    | some t =>
      exfalso
      obtain ⟨h1, h2, h3⟩ := C01_sound f hwf c prev hc hp _ hnf
      exact hno ⟨_, h2, h1, h3⟩

/-- iterating enumerates the matching instants in strictly increasing order, none skipped -/
theorem C02_chain (f : Fields) (hwf : WellFormed f = true) (c prev : Int)
    (hc : -100000 ≤ c ∧ c ≤ 100000) (hp : -9223372036854775808 ≤ prev)
    (r r' : Int) (h : nextFire {} f (fixedZone c) prev = .ok r)
    (h' : nextFire {} f (fixedZone c) r = .ok r') :
    r < r' ∧ ∀ u : Int, r < u → u < r' → u % 1000000000 = 0 →
      ¬ Matches f (Civil.ofSeconds (u / 1000000000 + c)) := by
  have hpr := (C01_sound f hwf c prev hc hp r h).2.1
  have hr0 : -9223372036854775808 ≤ r := by omega
  exact ⟨(C01_sound f hwf c r hc hr0 r' h').2.1, C02_minimal f hwf c r hc hr0 r' h'⟩

/-! ## Non-vacuity -/

/-- `C02_minimal` / `C02_chain` on `0 0 12 * * ?`: noon on day 1, then noon on day 2 -/
theorem exNoon_second :
    nextFire {} exNoon (fixedZone 0) 43200000000000 = .ok 129600000000000 := by decide +kernel

example : ∀ u : Int, 0 < u → u < 43200000000000 → u % 1000000000 = 0 →
    ¬ Matches exNoon (Civil.ofSeconds (u / 1000000000 + 0)) :=
  C02_minimal exNoon exNoon_wf 0 0 (by omega) (by omega) _ exNoon_first

example : (43200000000000 : Int) < 129600000000000 ∧
    ∀ u : Int, 43200000000000 < u → u < 129600000000000 → u % 1000000000 = 0 →
      ¬ Matches exNoon (Civil.ofSeconds (u / 1000000000 + 0)) :=
  C02_chain exNoon exNoon_wf 0 0 (by omega) (by omega) _ _ exNoon_first exNoon_second

/-- `0 0 12 * * ? 1970` — only in 1970 -/
def exNoon1970 : Fields := { exNoon with year := ⟨[1970], 0⟩ }

theorem exNoon1970_wf : WellFormed exNoon1970 = true := by decide

/-- both sides of `C02_expired_iff` hold on an instance: after 2001-09-09T01:46:40Z nothing in 1970 is
    left (the right-hand side is proved directly, then the theorem yields expiry) -/
example : nextFire {} exNoon1970 (fixedZone 0) 1000000000000000000 = .expired := by
  rw [C02_expired_iff exNoon1970 exNoon1970_wf 0 _ (by omega) (by omega)]
  rintro ⟨u, hpu, _, hm⟩
  have hy : memOrAny [1970] (Civil.ofSeconds (u / 1000000000 + 0)).year := hm.2.2.2.2.2.2.2.2.2.1
  have hmono := Civil.ofSeconds_year_mono 1000000000 (u / 1000000000 + 0)
    (by show -((719529 : Nat) : Int) * 86400 + 86400 ≤ _; omega) (by omega)
  have e : (Civil.ofSeconds 1000000000).year = 2001 := by decide +kernel
  rw [e] at hmono
  rcases hy with hy | hy
  · cases hy
  · simp only [List.mem_singleton] at hy
    omega

/-- and both sides fail on an instance: a result exists, so the trigger is not expired -/
example : ¬ (nextFire {} exNoon (fixedZone 0) 0 = .expired) ∧
    ∃ u : Int, 0 < u ∧ u % 1000000000 = 0 ∧ Matches exNoon (Civil.ofSeconds (u / 1000000000 + 0)) := by
  constructor
  · rw [exNoon_first]; exact fun h => by cases h
  · exact ⟨43200000000000, by omega, by omega,
      (C01_sound exNoon exNoon_wf 0 0 (by omega) (by omega) _ exNoon_first).2.2⟩

/-! ### a `prev` before 1970 (negative) -/

theorem exEvery_zero : nextFire {} exEvery (fixedZone 0) 0 = .ok 1000000000 := by decide +kernel

/-- `C02_minimal` at a negative `prev`: nothing matching strictly between −0.5 s and the epoch -/
example : ∀ u : Int, -500000000 < u → u < 0 → u % 1000000000 = 0 →
    ¬ Matches exEvery (Civil.ofSeconds (u / 1000000000 + 0)) :=
  C02_minimal exEvery exEvery_wf 0 (-500000000) (by omega) (by omega) _ exEvery_neg

/-- `C02_minimal` with both ends before 1970 -/
example : ∀ u : Int, -86400000000001 < u → u < -43200000000000 → u % 1000000000 = 0 →
    ¬ Matches exNoon (Civil.ofSeconds (u / 1000000000 + 0)) :=
  C02_minimal exNoon exNoon_wf 0 (-86400000000001) (by omega) (by omega) _ exNoon_neg

/-- `C02_chain` from a negative `prev`: the epoch, then 1 s -/
example : (0 : Int) < 1000000000 ∧ ∀ u : Int, 0 < u → u < 1000000000 → u % 1000000000 = 0 →
    ¬ Matches exEvery (Civil.ofSeconds (u / 1000000000 + 0)) :=
  C02_chain exEvery exEvery_wf 0 (-500000000) (by omega) (by omega) _ _ exEvery_neg exEvery_zero

/-- `C02_expired_iff` at a negative `prev`: a match is left, so the trigger is not expired -/
example : ¬ (nextFire {} exEvery (fixedZone 0) (-500000000) = .expired) := by
  rw [C02_expired_iff exEvery exEvery_wf 0 (-500000000) (by omega) (by omega)]
  exact fun h => h ⟨0, by omega, by omega,
    (C01_sound exEvery exEvery_wf 0 (-500000000) (by omega) (by omega) _ exEvery_neg).2.2⟩

end Cron
