import QuartzModel.Generated.Facts
import QuartzModel.Sched.Model
/-!
# The dispatch step of the model is the dispatch step of the source (C03, C04, C08)

`Sched.classify` / `Sched.step` transcribe `validateJob` / `fetchAndReschedule`. These equalities pin
the transcription to the source text read on this run: the four classification conditions with their
comparison operators and operands, the validity each branch returns, which argument each branch hands
to the trigger (`now` when outdated, the scheduled fire time when valid, none otherwise), the
non-blocking misfire offer, and the order lock → pop → classify → next → push → reset.
-/
namespace Sched

/-- `classify`: suspended ▸ `prio < now - threshold` ▸ `prio > now` ▸ valid; extractor per branch as in `step` -/
theorem validate_branches :
    Generated.Validate.branches =
      [("job.JobDetail().opts.Suspended", "false", "math.MaxInt64, nil"),
       ("let", "-", "now := NowNano()"),
       ("job.NextRunTime() < now-sched.opts.OutdatedThreshold.Nanoseconds()", "false", "job.Trigger().NextFireTime(now)"),
       ("job.NextRunTime() > now", "false", "job.NextRunTime(), nil"),
       ("otherwise", "true", "job.Trigger().NextFireTime(job.NextRunTime())")] := by decide

theorem misfire_offer_nonblocking :
    Generated.Validate.misfireOffer = "select { case sched.opts.MisfiredChan <- job: default: }" := by decide

theorem step_order :
    Generated.Validate.stepOrder =
      ["sched.queueLocker.Lock", "sched.queueLocker.Unlock", "sched.queue.Pop", "sched.validateJob",
       "nextRunTimeExtractor", "sched.queue.Push", "sched.Reset"] := by decide

/-- the model's classification, spelled out against the same conditions -/
theorem classify_spec (e : Queue.Entry) (now thr : Int) :
    classify e now thr =
      if e.suspended then .suspended
      else if e.prio < now - thr then .outdated
      else if e.prio > now then .notDue
      else .valid := rfl

end Sched
