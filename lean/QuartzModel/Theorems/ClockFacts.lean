import QuartzModel.Generated.Facts
/-!
# The clock a fire time is computed from is read inside the critical section (C08, C09)

C08: "ResumeJob re-activates it with a fire time computed from the moment of resumption"; C09: the registry calls are atomic.
The sequential model (`Sched.resume s now …`, `Sched.schedule s now …`) takes the clock reading as a parameter; what ties that
parameter to "the moment the call takes effect" is WHERE the real code reads the clock: after `queueLocker.Lock()`.
With the read before the lock the value can be arbitrarily older than the critical section in which the call takes effect, in
particular older than a `PauseJob` that was serialised before it (`stale_read_precedes_pause`).

The general statements are about an arbitrary placement of the read; only `clock_facts` (by `decide`) depends on the regenerated
table `Generated.ClockOrder`.
-/
namespace Sched.Clock

/-- program points of one call on a monotone clock: entered, lock granted, lock released -/
structure Timeline where
  entry : Int
  granted : Int
  released : Int
  h_entry : entry ≤ granted
  h_held : granted ≤ released

/-- where a clock reading `t` can lie, given the placement of the read relative to `Lock()`: program order on a monotone clock -/
def ReadAt (afterLock : Bool) (c : Timeline) (t : Int) : Prop :=
  if afterLock then c.granted ≤ t ∧ t ≤ c.released else c.entry ≤ t ∧ t ≤ c.granted

/-- a regenerated row: (method, Lock();defer Unlock() top level, #clock reads, all after Lock, #NextFireTime calls, all after Lock,
every NextFireTime argument is a clock read made after the Lock) -/
abbrev Row := String × Bool × Nat × Bool × Nat × Bool × Bool

/-- the row says: the (only) time handed to the trigger is read under the lock -/
def Row.readUnderLock (r : Row) : Bool :=
  r.2.1 && decide (0 < r.2.2.1) && r.2.2.2.1 && decide (0 < r.2.2.2.2.1) && r.2.2.2.2.2.1 && r.2.2.2.2.2.2

def placement (table : List Row) (method : String) : Bool :=
  table.any (fun r => r.1 == method && r.readUnderLock)

/-- **read under the lock**: the time is a moment of the critical section itself; every critical section of the same mutex that
was serialised before this one (e.g. the PauseJob that paused the job ResumeJob finds paused) had been left by then -/
theorem read_in_critical_section (p r : Timeline) (t : Int) (hmutex : p.released ≤ r.granted) (h : ReadAt true r t) :
    p.granted ≤ t ∧ p.released ≤ t ∧ r.granted ≤ t ∧ t ≤ r.released := by
  have hp := p.h_held
  simp only [ReadAt, if_true] at h
  omega

/-- **read before the lock**: nothing bounds the time from below except the entry of the call — there are serialised executions in
which it precedes the whole critical section of the earlier call by any amount `d` (the fire time is computed from a moment at
which the job had not even been paused) -/
theorem stale_read_precedes_pause (d : Int) (hd : 0 ≤ d) :
    ∃ (p r : Timeline) (t : Int), p.released ≤ r.granted ∧ ReadAt false r t ∧ t + d < p.granted := by
  refine ⟨⟨1 + d, 1 + d, 2 + d, by omega, by omega⟩, ⟨0, 3 + d, 4 + d, by omega, by omega⟩, 0, ?_, ?_, ?_⟩
  · show (2 : Int) + d ≤ 3 + d; omega
  · simp only [ReadAt, Bool.false_eq_true, if_false]; omega
  · show (0 : Int) + d < 1 + d; omega

/-- regenerated from quartz/scheduler.go: in ResumeJob and in ScheduleJob there is one clock read and one trigger call, both after
`queueLocker.Lock(); defer queueLocker.Unlock()`, and the trigger's argument is that clock read; the loop's classification clock
(`validateJob`) is read under the lock of `fetchAndReschedule` -/
theorem clock_facts :
    placement Generated.ClockOrder.table "ResumeJob" = true ∧ placement Generated.ClockOrder.table "ScheduleJob" = true ∧
    Generated.ClockOrder.validateReadsUnderLock = true := by decide

/-- C08 for the code as it is: the time ResumeJob hands to the trigger lies inside ResumeJob's own critical section, hence not
before the end of the critical section of any call serialised before it -/
theorem C08_resume_moment (p r : Timeline) (t : Int) (hmutex : p.released ≤ r.granted)
    (h : ReadAt (placement Generated.ClockOrder.table "ResumeJob") r t) : p.released ≤ t ∧ r.granted ≤ t ∧ t ≤ r.released := by
  rw [clock_facts.1] at h
  have := read_in_critical_section p r t hmutex h
  omega

/-- the same for ScheduleJob (first fire time of a new or replacing job) -/
theorem C09_schedule_moment (p r : Timeline) (t : Int) (hmutex : p.released ≤ r.granted)
    (h : ReadAt (placement Generated.ClockOrder.table "ScheduleJob") r t) : p.released ≤ t ∧ r.granted ≤ t ∧ t ≤ r.released := by
  rw [clock_facts.2.1] at h
  have := read_in_critical_section p r t hmutex h
  omega

/-- non-vacuity: a pause [10, 12] serialised before a resume that entered at 5, got the lock at 300 and read 301 -/
example : ∃ (p r : Timeline) (t : Int), p.released ≤ r.granted ∧ ReadAt true r t ∧ p.released ≤ t :=
  ⟨⟨10, 10, 12, by omega, by omega⟩, ⟨5, 300, 305, by omega, by omega⟩, 301, by show (12 : Int) ≤ 300; omega,
    by simp only [ReadAt, if_true]; omega, by show (12 : Int) ≤ 301; omega⟩

end Sched.Clock

namespace Facts
/-- no source shape of the `clockorder` fact group is missing -/
theorem missing_none_clockorder : (Generated.missing.filter (fun s => "clockorder.".toList.isPrefixOf s.toList)) = [] := by decide
end Facts
