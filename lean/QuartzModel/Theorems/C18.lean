import QuartzModel.Logger.Simple
import QuartzModel.Proofs.LoggerLemmas
import QuartzModel.Generated.Facts
/-!
# C18 — loggers filter by level and label every record with its own level

Model: `QuartzModel/Logger/Simple.lean` (`logger/simple_logger.go`, `slog_logger.go`, `logger.go`).

PROVED (about the model): the filter (`C18_filter`, `C18_off_silences_all`), the line format
(`C18_format`), that in every interleaving of any number of goroutines sharing one `SimpleLogger` every
written line carries the label of the level it was logged at (`C18_label`, inductive invariant over the
explicit mutex), that WITHOUT the mutex a mislabelled line can be written (`C18_label_race`, the repaired
race), `NoOpLogger` (`C18_noop`) and the level handed to slog (`C18_slog_level_map`).

Tie to the code: `C18_facts` (regenerated from the source) and the harness `qh logger` (exact line
comparison with this model, and the property-level judgment on 16 × 5000 concurrent lines).
NOT proved, only observed: `log.Logger.Output` reads the prefix and writes prefix+message as ONE line
(its own mutex), `fmt`'s `%s`/`%v` rendering of non-string arguments, `slog.Record.Add`, slog handlers.
-/
namespace Logger

/-! ## the facts read from the current source -/

def levelConst : Lvl → String
  | .trace => "LevelTrace" | .debug => "LevelDebug" | .info => "LevelInfo" | .warn => "LevelWarn" | .error => "LevelError"

def prefixConst : Lvl → String
  | .trace => "tracePrefix" | .debug => "debugPrefix" | .info => "infoPrefix" | .warn => "warnPrefix" | .error => "errorPrefix"

def methodName : Lvl → String
  | .trace => "Trace" | .debug => "Debug" | .info => "Info" | .warn => "Warn" | .error => "Error"

/-- constants, the operator of `enabled`, and which constant / prefix each method uses -/
theorem C18_facts :
    Generated.Logger.levels = Lvl.all.map (fun l => (levelConst l, l.value)) ++ [("LevelOff", levelOff)] ∧
    Generated.Logger.prefixes = Lvl.all.map (fun l => (prefixConst l, l.label)) ∧
    Generated.Logger.enabledOp = ">=" ∧ Generated.Logger.enabledShape = "level >= l.level" ∧
    Generated.Logger.simpleMethods = Lvl.all.map (fun l => (methodName l, levelConst l, prefixConst l)) := by
  decide

/-- `output` takes the mutex, defers the unlock, then SetPrefix and Output; `formatMessage`'s verbs and loop -/
theorem C18_facts_output :
    Generated.Logger.outputShape =
      ["l.mtx.Lock()", "defer l.mtx.Unlock()", "l.logger.SetPrefix(prefix)", "_ = l.logger.Output(3, message)"] ∧
    Generated.Logger.formatStrings = ["msg=%s", ", %s=%v", ", %v"] ∧
    Generated.Logger.formatArgs = ["msg", "args[i],args[i+1]", "args[i]"] ∧
    Generated.Logger.formatLoop = ["n := len(args)", "i := 0", "i < n", "i += 2", "i+1 < n"] ∧
    Generated.Logger.formatReturn = "return b.String()" := by decide

/-- NoOpLogger's five bodies are empty; SlogLogger hands these levels to `log`, which asks the handler first -/
theorem C18_facts_slog :
    Generated.Logger.noopMethods = Lvl.all.map methodName ∧ Generated.Logger.noopEmpty = true ∧
    Generated.Logger.slogLevels = Lvl.all.map (fun l => (methodName l, slogLevel l)) ∧
    Generated.Logger.slogLog =
      ["if !l.logger.Enabled(l.ctx, level)", "{ return }", "r := slog.NewRecord(time.Now(), level, msg, pc)",
       "r.Add(args...)", "_ = l.logger.Handler().Handle(l.ctx, r)"] := by decide

/-! ## filter -/

theorem enabled_iff (threshold level : Int) : enabled threshold level = true ↔ threshold ≤ level := by
  simp [enabled]

/-- a record is written iff its level is at or above the threshold — every `Int` threshold, every level -/
theorem C18_filter (threshold : Int) (l : Lvl) (msg : String) (args : List String) :
    (∃ line, simpleLog threshold l msg args = some line) ↔ threshold ≤ l.value := by
  unfold simpleLog
  rw [← enabled_iff]
  cases enabled threshold l.value <;> simp

/-- what is written when something is written: the level's own prefix and the formatted message -/
theorem C18_filter_line (threshold : Int) (l : Lvl) (msg : String) (args : List String) (line : String)
    (h : simpleLog threshold l msg args = some line) :
    line = outputLine l.label (formatMessage msg args) ∧ threshold ≤ l.value := by
  have hx := (C18_filter threshold l msg args).mp ⟨line, h⟩
  unfold simpleLog at h
  rw [(enabled_iff _ _).mpr hx] at h
  simp at h
  exact ⟨h.symm, hx⟩

theorem Lvl.value_le_error (l : Lvl) : l.value ≤ levelError := by cases l <;> decide

theorem Lvl.trace_le_value (l : Lvl) : levelTrace ≤ l.value := by cases l <;> decide

/-- `LevelOff` (and anything above `LevelError`) silences everything -/
theorem C18_off_silences_all (threshold : Int) (h : levelOff ≤ threshold) (l : Lvl) (msg : String) (args : List String) :
    simpleLog threshold l msg args = none := by
  cases hs : simpleLog threshold l msg args with
  | none => rfl
  | some line =>
    have := (C18_filter threshold l msg args).mp ⟨line, hs⟩
    have h2 := Lvl.value_le_error l
    unfold levelOff at h; unfold levelError at h2
    omega

/-- a threshold at or below `LevelTrace` lets everything through -/
theorem C18_trace_emits_all (threshold : Int) (h : threshold ≤ levelTrace) (l : Lvl) (msg : String) (args : List String) :
    ∃ line, simpleLog threshold l msg args = some line :=
  (C18_filter threshold l msg args).mpr (Int.le_trans h (Lvl.trace_le_value l))

/-- the levels are strictly ordered Trace < Debug < Info < Warn < Error < Off -/
theorem C18_level_order :
    levelTrace < levelDebug ∧ levelDebug < levelInfo ∧ levelInfo < levelWarn ∧ levelWarn < levelError ∧
    levelError < levelOff := by decide

/-! ## format -/

/-- the rendering stated independently of `formatMessage`: `msg=<msg>`, then for each key/value pair
`, <key>=<value>`, then `, <arg>` for an odd last argument -/
def expectedMessage (msg : String) (args : List String) : String :=
  "msg=" ++ msg ++ concat ((structured args).items.map (", " ++ ·))

/-- The line is `msg=<msg>` followed by the arguments in order; the structured form it renders contains
every argument exactly once and in order (`flat` gives the argument list back): nothing is dropped or
reordered; there are `n / 2` pairs and a lone item iff `n` is odd. -/
theorem C18_format (msg : String) (args : List String) :
    formatMessage msg args = expectedMessage msg args ∧ (structured args).flat = args ∧
    (structured args).pairs.length = args.length / 2 ∧ ((structured args).tail.isSome ↔ args.length % 2 = 1) := by
  refine ⟨?_, structured_flat args, structured_counts args⟩
  unfold formatMessage expectedMessage
  rw [formatArgs_items]

/-- the same by POSITION, as the Go loop does it (`i = 2j`): item `j` is `, args[2j]=args[2j+1]` when both exist,
`, args[2j]` for the odd last one; there are `⌈n/2⌉` items -/
theorem C18_format_indexed (msg : String) (args : List String) :
    formatMessage msg args = "msg=" ++ msg ++ concat ((List.range ((args.length + 1) / 2)).map (itemAt args)) := by
  unfold formatMessage
  rw [formatArgs_indexed]

/-- concrete shapes, as in the Go doc: none, one, two, three arguments -/
theorem C18_format_shapes (m a b c : String) :
    formatMessage m [] = "msg=" ++ m ∧ formatMessage m [a] = "msg=" ++ m ++ ", " ++ a ∧
    formatMessage m [a, b] = "msg=" ++ m ++ ", " ++ a ++ "=" ++ b ∧
    formatMessage m [a, b, c] = "msg=" ++ m ++ ", " ++ a ++ "=" ++ b ++ ", " ++ c := by
  simp [formatMessage, formatArgs, String.append_assoc]

/-- the written bytes: prefix, message, exactly one line end -/
theorem C18_output_line (pfx message : String) :
    outputLine pfx message = pfx ++ message ∨ outputLine pfx message = pfx ++ message ++ "\n" := by
  unfold outputLine
  simp only
  split
  · exact Or.inl rfl
  · exact Or.inr rfl

/-! ## label under concurrency -/

/-- In EVERY interleaving (`sched`) of any number of goroutines (`work i` = the records goroutine `i` logs),
with the mutex, every written line carries the prefix of the level it was logged at, and was enabled. -/
theorem C18_label (threshold : Int) (work : Nat → List Rec) (sched : List Nat) :
    ∀ e ∈ (lrun true threshold (linit work) sched).out, e.label = e.lvl.label ∧ threshold ≤ e.lvl.value := by
  intro e he
  have h := (linv_reachable threshold work sched).out e he
  exact ⟨h.1, (enabled_iff _ _).mp h.2⟩

/-- Nothing is lost, duplicated or reordered: at every reachable state, what goroutine `i` has written so far,
followed by what it still has to write, is exactly the enabled part of its work, in order. Once it is
finished its lines are exactly its enabled records. -/
theorem C18_complete (threshold : Int) (work : Nat → List Rec) (sched : List Nat) (i : Nat) :
    let s := lrun true threshold (linit work) sched
    writtenBy s i ++ pending threshold (s.th i) = (work i).filter (fun r => enabled threshold r.lvl.value) ∧
    ((s.th i).todo = [] → writtenBy s i = (work i).filter (fun r => enabled threshold r.lvl.value)) := by
  have h := complete_reachable threshold work sched i
  refine ⟨h, ?_⟩
  intro hd
  rw [← h]
  unfold pending
  rw [hd]
  cases (lrun true threshold (linit work) sched |>.th i).pc <;> simp

/-- mutual exclusion, the reason behind `C18_label`: two goroutines are never both inside `output` -/
theorem C18_mutex (threshold : Int) (work : Nat → List Rec) (sched : List Nat) (i j : Nat) :
    let s := lrun true threshold (linit work) sched
    (s.th i).pc ≠ .start → (s.th j).pc ≠ .start → i = j := by
  intro s hi hj
  have h := linv_reachable threshold work sched
  have h1 := h.excl i hi
  have h2 := h.excl j hj
  rw [h1] at h2
  cases h2; rfl

/-- the work of the negative control: goroutine 0 logs one WARN record, goroutine 1 one ERROR record -/
def raceWork : Nat → List Rec := fun i =>
  if i = 0 then [⟨.warn, "w"⟩] else if i = 1 then [⟨.error, "e"⟩] else []

/-- NEGATIVE CONTROL (the repaired race): without the mutex there is a two-goroutine interleaving that writes
the WARN record with the prefix `ERROR ` -/
theorem C18_label_race :
    ∃ sched, ∃ e ∈ (lrun false 0 (linit raceWork) sched).out, e.label ≠ e.lvl.label :=
  ⟨[0, 1, 0, 1, 0], ⟨0, "ERROR ", .warn, "w"⟩, by decide, by decide⟩

/-- … and the very same schedule is harmless with the mutex (goroutine 1 waits) -/
theorem C18_label_race_locked :
    (lrun true 0 (linit raceWork) [0, 1, 0, 1, 0]).out = [⟨0, "WARN ", .warn, "w"⟩] := by decide

/-! ## NoOpLogger, SlogLogger -/

theorem C18_noop (l : Lvl) (msg : String) (args : List String) : noopLog l msg args = none := rfl

/-- the slog level of each method is the numeric value of the corresponding `logger.Level`; a record is handed
to the handler iff the handler is enabled for that level, and it carries that level, the message and all
arguments in order -/
theorem C18_slog_level_map :
    slogLevel .trace = -8 ∧ slogLevel .debug = -4 ∧ slogLevel .info = 0 ∧ slogLevel .warn = 4 ∧ slogLevel .error = 8 ∧
    (∀ l, slogLevel l = l.value) ∧
    (∀ (en : Int → Bool) (l : Lvl) (msg : String) (args : List String),
      ((∃ r, slogLog en l msg args = some r) ↔ en (slogLevel l) = true) ∧
      (∀ r, slogLog en l msg args = some r → r.level = slogLevel l ∧ r.msg = msg ∧ r.attrs = slogAttrs args)) := by
  refine ⟨rfl, rfl, rfl, rfl, rfl, ?_, ?_⟩
  · intro l; cases l <;> rfl
  · intro en l msg args
    unfold slogLog
    cases en (slogLevel l) <;> simp

/-- slog attributes keep every argument in order as well -/
theorem C18_slog_attrs : ∀ args : List String,
    (slogAttrs args).map (·.2) = ((structured args).pairs.map (·.2)) ++ (structured args).tail.toList ∧
    (slogAttrs args).length = (args.length + 1) / 2
  | [] => by simp [slogAttrs, structured]
  | [a] => by simp [slogAttrs, structured]
  | k :: v :: rest => by
    have ih := C18_slog_attrs rest
    refine ⟨?_, ?_⟩
    · simp only [slogAttrs, structured, List.map_cons, List.cons_append, ih.1]
    · simp only [slogAttrs, List.length_cons, ih.2]; omega

/-! ## non-vacuity -/

example : simpleLog levelInfo .warn "job done" ["key", "a/b", "took"] = some "WARN msg=job done, key=a/b, took\n" := by
  decide

example : simpleLog levelWarn .info "x" [] = none ∧ simpleLog levelOff .error "x" [] = none ∧
    (∃ line, simpleLog levelTrace .trace "x" [] = some line) := ⟨by decide, by decide, ⟨_, rfl⟩⟩

/-- three goroutines, two records each, an interleaving that exercises blocking on the mutex:
all enabled records come out with their own label -/
example :
    let work : Nat → List Rec := fun i =>
      if i = 0 then [⟨.warn, "a"⟩, ⟨.debug, "b"⟩] else if i = 1 then [⟨.error, "c"⟩, ⟨.info, "d"⟩] else []
    (lrun true 0 (linit work) [0, 1, 0, 1, 0, 0, 1, 1, 1, 1, 0, 1, 1, 1, 1]).out.map (fun e => (e.label, e.msg)) =
      [("INFO ", "d"), ("ERROR ", "c"), ("WARN ", "a")] := by
  decide

/-- … and goroutine 1 (finished) wrote exactly its two enabled records, in order -/
example :
    let work : Nat → List Rec := fun i =>
      if i = 0 then [⟨.warn, "a"⟩, ⟨.debug, "b"⟩] else if i = 1 then [⟨.error, "c"⟩, ⟨.info, "d"⟩] else []
    writtenBy (lrun true 0 (linit work) [0, 1, 0, 1, 0, 0, 1, 1, 1, 1, 0, 1, 1, 1, 1]) 1 = [⟨.error, "c"⟩, ⟨.info, "d"⟩] := by
  decide

example : slogLog (fun l => decide (l ≥ 0)) .trace "m" ["k", "v"] = none ∧
    slogLog (fun l => decide (l ≥ -8)) .trace "m" ["k", "v", "z"] = some ⟨-8, "m", [("k", "v"), ("!BADKEY", "z")]⟩ := by
  decide

end Logger
