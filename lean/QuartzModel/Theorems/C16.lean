import QuartzModel.Jobs.Status
import QuartzModel.Proofs.JobsLemmas
import QuartzModel.Generated.Facts
/-!
# C16 — built-in jobs report each execution faithfully and do not leak resources

Model: `QuartzModel/Jobs/Status.lean` (`job/function_job.go`, `shell_job.go`, `curl_job.go`, `job_status.go`).

What is PROVED here (about the model):
* the three status decisions, for all inputs (`C16_*_status_iff`);
* for every sequence of executions and every interleaving of their steps, the accessors show exactly the
  fields of the execution whose critical section ran last — never a mixture (`C16_last_execution*`);
* a callback runs exactly once per completed execution (`C16_callback_once`);
* a `CurlJob` holds at most one open response body at every reachable state (`C16_open_bodies_le_one*`),
  and without the `Body.Close()` before `Do` the open bodies grow with every request that got a body
  (`C16_leak_without_close`, negative control documenting the repaired defect).

What ties the model to the code: `C16_facts` (regenerated from the source on every run) and the
differential / observational harness `qh jobs`.  NOT proved, only observed by the harness: the contracts
of `os/exec` (`ExecContract`: `Run` fails iff exit code ≠ 0; a killed or unstartable command) and of
`net/http` (a closed body releases its connection; goroutines inside the transport), context
cancellation, and the absence of goroutine/process leaks.
-/
namespace Jobs

/-! ## the facts read from the current source are the parameters of the model -/

def statusOfAssign : String → Option Status
  | "f.jobStatus=StatusOK" | "sh.jobStatus=StatusOK" | "cu.jobStatus=StatusOK" => some .ok
  | "f.jobStatus=StatusFailure" | "sh.jobStatus=StatusFailure" | "cu.jobStatus=StatusFailure" => some .failure
  | _ => none

/-- the one `jobStatus` assignment of a branch -/
def branchStatus (l : List String) : Option Status :=
  match l.filterMap statusOfAssign with
  | [s] => some s
  | _ => none

def generatedFunctionTest : Option ErrTest := do
  let op ← Cmp.ofString Generated.Jobs.functionErrOp
  let t ← branchStatus Generated.Jobs.functionThen
  let e ← branchStatus Generated.Jobs.functionElse
  pure { op := op, thenStatus := t, elseStatus := e }

def generatedShellTest : Option ErrTest := do
  let op ← Cmp.ofString Generated.Jobs.shellErrOp
  let t ← branchStatus Generated.Jobs.shellThen
  let e ← branchStatus Generated.Jobs.shellElse
  pure { op := op, thenStatus := t, elseStatus := e }

def generatedCurlTest : Option CurlTest := do
  let n ← Cmp.ofString Generated.Jobs.curlNilOp
  let lo ← Cmp.ofString Generated.Jobs.curlLoOp
  let hi ← Cmp.ofString Generated.Jobs.curlHiOp
  let t ← branchStatus Generated.Jobs.curlThen
  let e ← branchStatus Generated.Jobs.curlElse
  pure { nilOp := n, loOp := lo, lo := Generated.Jobs.curlLo, hiOp := hi, hi := Generated.Jobs.curlHi,
         thenStatus := t, elseStatus := e }

/-- the status tests of the three `Execute` methods are the ones of the model -/
theorem C16_facts_tests :
    generatedFunctionTest = some {} ∧ generatedShellTest = some {} ∧ generatedCurlTest = some {} ∧
    Generated.Jobs.statusConsts = ["StatusNA=0", "StatusOK=1", "StatusFailure=2"] := by decide

/-- `FunctionJob.Execute`: result/err/status of ONE call of the function, written under one lock, `return err` -/
theorem C16_facts_function :
    Generated.Jobs.functionCall = "result, err := f.function(ctx)" ∧
    Generated.Jobs.functionThen = ["var zero R", "f.jobStatus=StatusFailure", "f.result=zero", "f.err=err"] ∧
    Generated.Jobs.functionElse = ["f.jobStatus=StatusOK", "f.result=result", "f.err=nil"] ∧
    Generated.Jobs.functionStoreInLock = true ∧
    Generated.Jobs.functionReturn = "return err" := by decide

/-- `ShellJob.Execute`: buffers, exit code and status of ONE `cmd.Run()`, written under one lock, one callback call -/
theorem C16_facts_shell :
    Generated.Jobs.shellCommand = "cmd := exec.CommandContext(ctx, shell, \"-c\", sh.cmd)" ∧
    Generated.Jobs.shellCapture = ["cmd.Stdout=io.Writer(&stdout)", "cmd.Stderr=io.Writer(&stderr)"] ∧
    Generated.Jobs.shellRun = "err := cmd.Run()" ∧
    Generated.Jobs.shellStore =
      ["sh.stdout=stdout.String()", "sh.stderr=stderr.String()", "sh.exitCode=cmd.ProcessState.ExitCode()"] ∧
    Generated.Jobs.shellStoreInLock = true ∧
    Generated.Jobs.shellReturn = "return err" ∧
    Generated.Jobs.shellCallbackSites = 1 ∧ Generated.Jobs.shellCallbackInLoop = false ∧
    Generated.Jobs.shellCallbackAfterUnlock = true ∧ Generated.Jobs.shellCallbackGuard = "sh.callback != nil" := by
  decide

/-- `CurlJob.Execute`: previous body closed before `Do`, response and status written under the same lock,
request bound to the execution context, one callback call.  The critical section is the helper `do`, run by the one statement
`err := cu.do(ctx)` of `Execute`; it starts with `cu.mtx.Lock(); defer cu.mtx.Unlock()` (so that a panicking `HTTPHandler` or
`Body.Close()` cannot leave the job's mutex locked); `Execute` returns `do`'s error after the callback. -/
theorem C16_facts_curl :
    Generated.Jobs.curlHelperCall = "err := cu.do(ctx)" ∧ Generated.Jobs.curlUnlockDeferred = true ∧
    Generated.Jobs.curlExecuteReturn = "return err" ∧
    Generated.Jobs.curlLoName = "http.StatusOK" ∧ Generated.Jobs.curlHiName = "http.StatusBadRequest" ∧
    Generated.Jobs.curlWithContext = "cu.request = cu.request.WithContext(ctx)" ∧
    Generated.Jobs.curlCloseGuard = ["cu.response != nil", "cu.response.Body != nil"] ∧
    Generated.Jobs.curlCloseInLoop = false ∧ Generated.Jobs.curlCloseBeforeDo = true ∧
    Generated.Jobs.curlDo = "cu.response, err = cu.httpClient.Do(cu.request)" ∧
    Generated.Jobs.curlStoreInLock = true ∧ Generated.Jobs.curlReturn = "return err" ∧
    Generated.Jobs.curlCallbackSites = 1 ∧ Generated.Jobs.curlCallbackInLoop = false ∧
    Generated.Jobs.curlCallbackAfterUnlock = true ∧ Generated.Jobs.curlCallbackGuard = "cu.callback != nil" := by
  decide

/-- every accessor reads under the job's mutex -/
theorem C16_facts_accessors :
    Generated.Jobs.accessorsUnderLock =
      ["FunctionJob.Result", "FunctionJob.Error", "FunctionJob.JobStatus", "ShellJob.ExitCode", "ShellJob.Stdout",
       "ShellJob.Stderr", "ShellJob.JobStatus", "CurlJob.JobStatus", "CurlJob.DumpResponse"] ∧
    Generated.Jobs.accessorsWithoutLock = [] := by decide

/-! ## decision tables -/

/-- general form over an arbitrary test record -/
theorem errTest_decide_iff (t : ErrTest) (hop : t.op = .ne) (ht : t.thenStatus = .failure) (he : t.elseStatus = .ok)
    (err : Bool) : t.decide err = .ok ↔ err = false := by
  unfold ErrTest.decide
  rw [hop, ht, he]
  cases err <;> simp

theorem C16_function_status_iff (err : Bool) : functionStatus err = .ok ↔ err = false :=
  errTest_decide_iff {} rfl rfl rfl err

theorem C16_shell_status_iff (runErr : Bool) : shellStatus runErr = .ok ↔ runErr = false :=
  errTest_decide_iff {} rfl rfl rfl runErr

/-- the status is never left at `StatusNA` by an execution, and it is a two-valued decision -/
theorem C16_status_total (b : Bool) (r : Option Nat) :
    (functionStatus b = .ok ∨ functionStatus b = .failure) ∧ (shellStatus b = .ok ∨ shellStatus b = .failure) ∧
    (curlStatus r = .ok ∨ curlStatus r = .failure) := by
  refine ⟨?_, ?_, ?_⟩
  · cases b <;> decide
  · cases b <;> decide
  · unfold curlStatus CurlTest.decide; split <;> simp

/-- under the contract of `os/exec`, the stored status is OK exactly when the stored exit code is 0 -/
theorem C16_shell_status_exit (o : ShOut) (h : o.ExecContract) : (shStore o).status = .ok ↔ (shStore o).exitCode = 0 := by
  unfold ShOut.ExecContract at h
  simp only [shStore, C16_shell_status_iff]
  constructor
  · intro hr
    apply Classical.byContradiction
    intro hne
    rw [h.mpr hne] at hr
    cases hr
  · intro he
    cases hr : o.runErr with
    | false => rfl
    | true => exact absurd he (h.mp hr)

/-- general form over an arbitrary test record -/
theorem curlTest_decide_iff (t : CurlTest) (hn : t.nilOp = .ne) (ht : t.thenStatus = .ok) (he : t.elseStatus = .failure)
    (resp : Option Nat) :
    t.decide resp = .ok ↔ ∃ c : Nat, resp = some c ∧ t.loOp.eval c t.lo = true ∧ t.hiOp.eval c t.hi = true := by
  unfold CurlTest.decide CurlTest.cond
  rw [hn, ht, he]
  cases resp with
  | none => simp
  | some c => simp

/-- ALL status codes: OK ↔ a response exists and 200 ≤ code < 400 -/
theorem C16_curl_status_iff (resp : Option Nat) :
    curlStatus resp = .ok ↔ ∃ c : Nat, resp = some c ∧ 200 ≤ c ∧ c < 400 := by
  unfold curlStatus
  rw [curlTest_decide_iff {} rfl rfl rfl]
  constructor
  · rintro ⟨c, h1, h2, h3⟩
    refine ⟨c, h1, ?_, ?_⟩
    · simp [Cmp.eval] at h2; omega
    · simp [Cmp.eval] at h3; omega
  · rintro ⟨c, h1, h2, h3⟩
    refine ⟨c, h1, ?_, ?_⟩
    · simp [Cmp.eval]; omega
    · simp [Cmp.eval]; omega

theorem C16_curl_status_failure_iff (resp : Option Nat) :
    curlStatus resp = .failure ↔ resp = none ∨ ∃ c : Nat, resp = some c ∧ (c < 200 ∨ 400 ≤ c) := by
  have h := C16_curl_status_iff resp
  have ht := (C16_status_total true resp).2.2
  constructor
  · intro hf
    cases resp with
    | none => exact Or.inl rfl
    | some c =>
      refine Or.inr ⟨c, rfl, ?_⟩
      apply Classical.byContradiction
      intro hn
      have : curlStatus (some c) = .ok := h.mpr ⟨c, rfl, by omega, by omega⟩
      rw [this] at hf; cases hf
  · intro hc
    rcases ht with hok | hfail
    · obtain ⟨c, h1, h2, h3⟩ := h.mp hok
      rcases hc with hnone | ⟨c', h1', h4⟩
      · rw [hnone] at h1; cases h1
      · rw [h1] at h1'; cases h1'; omega
    · exact hfail

/-- the same three tables for the tests as read from the source (the statements transferred to the code) -/
theorem C16_status_iff_code (ft st : ErrTest) (ct : CurlTest) (hf : generatedFunctionTest = some ft)
    (hs : generatedShellTest = some st) (hc : generatedCurlTest = some ct) :
    (∀ err, ft.decide err = .ok ↔ err = false) ∧ (∀ runErr, st.decide runErr = .ok ↔ runErr = false) ∧
    (∀ resp, ct.decide resp = .ok ↔ ∃ c : Nat, resp = some c ∧ 200 ≤ c ∧ c < 400) := by
  obtain ⟨h1, h2, h3, _⟩ := C16_facts_tests
  rw [h1] at hf; rw [h2] at hs; rw [h3] at hc
  cases hf; cases hs; cases hc
  exact ⟨C16_function_status_iff, C16_shell_status_iff, C16_curl_status_iff⟩

/-! ## one execution: what the critical section stores and what `Execute` returns -/

theorem C16_function_fields {R : Type} [Inhabited R] (o : FnOut R) :
    fnReturn o = o.err ∧ (fnStore o).err = o.err ∧
    ((fnStore o).status = .ok ↔ o.err = none) ∧
    (o.err = none → (fnStore o).result = o.result) ∧
    (o.err ≠ none → (fnStore o).result = default ∧ (fnStore o).status = .failure) := by
  unfold fnStore fnReturn
  cases h : o.err <;> simp [functionStatus, ErrTest.decide]

theorem C16_shell_fields (o : ShOut) :
    shReturn o = o.runErr ∧ (shStore o).exitCode = o.exitCode ∧ (shStore o).stdout = o.stdout ∧
    (shStore o).stderr = o.stderr ∧ ((shStore o).status = .ok ↔ o.runErr = false) :=
  ⟨rfl, rfl, rfl, rfl, C16_shell_status_iff o.runErr⟩

theorem C16_curl_fields (b : Bool) (s : CuState) (o : CuOut) :
    cuReturn o = o.err ∧ (cuStore b s o).response = o.resp ∧
    ((cuStore b s o).status = .ok ↔ ∃ r, o.resp = some r ∧ 200 ≤ r.code ∧ r.code < 400) := by
  refine ⟨rfl, rfl, ?_⟩
  show curlStatus (o.resp.map (·.code)) = .ok ↔ _
  rw [C16_curl_status_iff]
  cases o.resp with
  | none => simp
  | some r => simp

/-! ## the last completed execution wins, in every interleaving -/

/-- Generic form. `st` is the critical section of `Execute`, `outs i` what execution `i` produced, `obs` the
accessors. Hypothesis `hst` says that the critical section writes every observed field from the one outcome
(true for the three jobs by `rfl`: the fields are assigned between one `Lock` and `Unlock`).
Then after ANY schedule the accessors show the outcome of the execution that stored last (`order.head?`),
that execution has indeed passed its store step, and nothing is observed before the first store. -/
theorem C16_last_execution {S O F : Type} (st : S → O → S) (obs : S → F) (fieldsOf : O → F)
    (hst : ∀ s o, obs (st s o) = fieldsOf o) (outs : Nat → O) (s0 : S) (cbk : Bool) (sched : List Nat) :
    let s := Sys.run (fun x i => st x (outs i)) cbk (Sys.init s0) sched
    (s.order = [] ∧ s.shared = s0 ∧ ∀ i, s.pc i = .idle ∨ s.pc i = .ran) ∨
    (∃ j rest, s.order = j :: rest ∧ obs s.shared = fieldsOf (outs j) ∧ (s.pc j = .stored ∨ s.pc j = .done)) :=
  last_of_inv st obs fieldsOf hst outs s0 cbk _ (inv_reachable (fun x i => st x (outs i)) cbk s0 sched)

/-- the store order lists every execution that has stored exactly once, so "the last one" is well defined -/
theorem C16_store_order {S : Type} (store : S → Nat → S) (s0 : S) (cbk : Bool) (sched : List Nat) :
    let s := Sys.run store cbk (Sys.init s0) sched
    s.order.Nodup ∧ ∀ i, i ∈ s.order ↔ (s.pc i = .stored ∨ s.pc i = .done) :=
  ⟨(inv_reachable store cbk s0 sched).nodup, (inv_reachable store cbk s0 sched).mem⟩

/-- the stored state is the sequential composition of the critical sections in store order: concurrent
executions behave like SOME sequence of executions (the one given by the order of their store steps) -/
theorem C16_serialised {S O : Type} (st : S → O → S) (outs : Nat → O) (s0 : S) (cbk : Bool) (sched : List Nat) :
    let s := Sys.run (fun x i => st x (outs i)) cbk (Sys.init s0) sched
    s.shared = (s.order.reverse.map outs).foldl st s0 := by
  intro s
  rw [← replay_eq_foldl]
  exact (inv_reachable (fun x i => st x (outs i)) cbk s0 sched).shared

/-- FunctionJob: `JobStatus()`, `Result()`, `Error()` are those of one and the same execution, the last to store -/
theorem C16_last_execution_function {R : Type} [Inhabited R] (outs : Nat → FnOut R) (sched : List Nat) :
    let s := Sys.run (fun _ i => fnStore (outs i)) false (Sys.init FnFields.init) sched
    (s.order = [] ∧ s.shared.status = .na) ∨
    (∃ j rest, s.order = j :: rest ∧ s.shared.err = (outs j).err ∧
      (s.shared.status = .ok ↔ (outs j).err = none) ∧
      ((outs j).err = none → s.shared.result = (outs j).result) ∧
      ((outs j).err ≠ none → s.shared.result = default)) := by
  intro s
  rcases C16_last_execution (fun (_ : FnFields R) o => fnStore o) (fun x => (x.status, x.result, x.err))
      (fun o => ((fnStore o).status, (fnStore o).result, (fnStore o).err)) (fun _ _ => rfl) outs FnFields.init false sched with
    ⟨h1, h2, _⟩ | ⟨j, rest, h1, h2, _⟩
  · exact Or.inl ⟨h1, by show s.shared.status = _; rw [show s.shared = _ from h2]; rfl⟩
  · refine Or.inr ⟨j, rest, h1, ?_⟩
    have hs : s.shared.status = (fnStore (outs j)).status := congrArg (·.1) h2
    have hr : s.shared.result = (fnStore (outs j)).result := congrArg (·.2.1) h2
    have he : s.shared.err = (fnStore (outs j)).err := congrArg (·.2.2) h2
    obtain ⟨_, f2, f3, f4, f5⟩ := C16_function_fields (outs j)
    rw [hs, hr, he]
    exact ⟨f2, f3, f4, fun h => (f5 h).1⟩

/-- ShellJob: `JobStatus()`, `ExitCode()`, `Stdout()`, `Stderr()` are those of the execution that stored last -/
theorem C16_last_execution_shell (outs : Nat → ShOut) (cbk : Bool) (sched : List Nat) :
    let s := Sys.run (fun _ i => shStore (outs i)) cbk (Sys.init ({} : ShFields)) sched
    (s.order = [] ∧ s.shared = {}) ∨
    (∃ j rest, s.order = j :: rest ∧ s.shared.exitCode = (outs j).exitCode ∧ s.shared.stdout = (outs j).stdout ∧
      s.shared.stderr = (outs j).stderr ∧ (s.shared.status = .ok ↔ (outs j).runErr = false)) := by
  intro s
  rcases C16_last_execution (fun (_ : ShFields) o => shStore o) id shStore (fun _ _ => rfl) outs {} cbk sched with
    ⟨h1, h2, _⟩ | ⟨j, rest, h1, h2, _⟩
  · exact Or.inl ⟨h1, h2⟩
  · refine Or.inr ⟨j, rest, h1, ?_⟩
    have hs : s.shared = shStore (outs j) := h2
    rw [hs]
    exact ⟨rfl, rfl, rfl, C16_shell_status_iff _⟩

/-- CurlJob: `JobStatus()` and the stored response are those of the execution that stored last -/
theorem C16_last_execution_curl (outs : Nat → CuOut) (cbk : Bool) (sched : List Nat) :
    let s := Sys.run (fun x i => cuStore true x (outs i)) cbk (Sys.init ({} : CuState)) sched
    (s.order = [] ∧ s.shared = {}) ∨
    (∃ j rest, s.order = j :: rest ∧ s.shared.response = (outs j).resp ∧
      (s.shared.status = .ok ↔ ∃ r, (outs j).resp = some r ∧ 200 ≤ r.code ∧ r.code < 400)) := by
  intro s
  rcases C16_last_execution (cuStore true) (fun x => (x.status, x.response))
      (fun o => (curlStatus (o.resp.map (·.code)), o.resp)) (fun _ _ => rfl) outs {} cbk sched with
    ⟨h1, h2, _⟩ | ⟨j, rest, h1, h2, _⟩
  · exact Or.inl ⟨h1, h2⟩
  · refine Or.inr ⟨j, rest, h1, congrArg (·.2) h2, ?_⟩
    have hs : s.shared.status = curlStatus ((outs j).resp.map (·.code)) := congrArg (·.1) h2
    rw [hs, C16_curl_status_iff]
    cases (outs j).resp with
    | none => simp
    | some r => simp

/-- NEGATIVE CONTROL for the critical section: if the fields were written in two separate steps (no mutex),
two concurrent executions can leave field `a` from execution 1 and field `b` from execution 0 -/
theorem C16_fields_mix_without_lock : ∃ sched, tornRun sched = { a := some 1, b := some 0 } :=
  ⟨[0, 1, 1, 0], by decide⟩

/-! ## callbacks -/

/-- with a callback: in every reachable state each execution has run it at most once, exactly once when it
has returned; the number of callbacks equals the number of completed executions. Without: none. -/
theorem C16_callback_once {S : Type} (store : S → Nat → S) (s0 : S) (sched : List Nat) (m : Nat) :
    let s := Sys.run store true (Sys.init s0) sched
    let s' := Sys.run store false (Sys.init s0) sched
    (∀ i, s.cb i ≤ 1 ∧ (s.pc i = .done ↔ s.cb i = 1)) ∧ s.callbacks m = s.completed m ∧ s'.callbacks m = 0 :=
  ⟨(callback_of_inv store s0 _ m (inv_reachable store true s0 sched)).1,
   (callback_of_inv store s0 _ m (inv_reachable store true s0 sched)).2,
   no_callback_of_inv store s0 _ m (inv_reachable store false s0 sched)⟩

/-! ## CurlJob response bodies -/

/-- every sequence of executions (successful, failed with nil response, with nil body): at most one body is
open, namely the one of the stored response; and every body ever handed out was closed or is that one -/
theorem C16_open_bodies_le_one (os : List CuOut) :
    let s := cuRun true {} os
    s.openBodies.length ≤ 1 ∧ s.openBodies = (heldBody s.response).toList ∧
    s.closes + s.openBodies.length = gotBody os := by
  intro s
  have h := cuRun_open_inv {} os rfl
  have hc := cuRun_conserved {} os rfl
  refine ⟨?_, h, by simpa using hc⟩
  show (cuRun true {} os).openBodies.length ≤ 1
  rw [h]
  cases heldBody (cuRun true {} os).response <;> simp

/-- the same at every reachable state of every interleaving of concurrent executions -/
theorem C16_open_bodies_le_one_concurrent (outs : Nat → CuOut) (cbk : Bool) (sched : List Nat) :
    (Sys.run (fun x i => cuStore true x (outs i)) cbk (Sys.init ({} : CuState)) sched).shared.openBodies.length ≤ 1 := by
  have h := C16_serialised (cuStore true) outs {} cbk sched
  simp only at h
  rw [h]
  exact (C16_open_bodies_le_one _).1

/-- NEGATIVE CONTROL (the repaired defect): without `cu.response.Body.Close()` before `Do`, nothing is ever
closed and the number of open bodies equals the number of executions that obtained a body -/
theorem C16_leak_without_close (os : List CuOut) :
    (cuRun false {} os).openBodies.length = gotBody os ∧ (cuRun false {} os).closes = 0 := by
  have h := cuRun_leak {} os
  simpa using h

/-- … hence unbounded: `n` successful requests leave `n` bodies open (with the close: one) -/
theorem C16_leak_unbounded (n : Nat) :
    (cuRun false {} (List.replicate n ⟨some ⟨200, some 0⟩, false⟩)).openBodies.length = n ∧
    (cuRun true {} (List.replicate n ⟨some ⟨200, some 0⟩, false⟩)).openBodies.length ≤ 1 := by
  refine ⟨?_, (C16_open_bodies_le_one _).1⟩
  rw [(C16_leak_without_close _).1]
  unfold gotBody
  simp [heldBody]

/-! ## non-vacuity -/

example : curlStatus (some 204) = .ok ∧ curlStatus (some 399) = .ok ∧ curlStatus (some 400) = .failure ∧
    curlStatus (some 199) = .failure ∧ curlStatus none = .failure := by decide

example : functionStatus false = .ok ∧ shellStatus true = .failure := by decide

/-- an `ExecContract` outcome exists for both branches -/
example : (ShOut.mk 0 false "out" "").ExecContract ∧ (ShOut.mk 3 true "" "err").ExecContract ∧
    (ShOut.mk (-1) true "" "").ExecContract := by
  unfold ShOut.ExecContract; decide

/-- two concurrent executions, execution 1 stores first, execution 0 last: the fields are those of 0 -/
example :
    let outs : Nat → ShOut := fun i => if i = 0 then ⟨0, false, "zero", ""⟩ else ⟨7, true, "", "one"⟩
    let s := Sys.run (fun _ i => shStore (outs i)) true (Sys.init ({} : ShFields)) [0, 1, 1, 0, 0, 1]
    s.order = [0, 1] ∧ s.shared = shStore (outs 0) ∧ s.cb 0 = 1 ∧ s.cb 1 = 1 ∧ s.completed 2 = 2 := by
  decide

/-- ok, server error, transport failure (nil response), ok without body, ok: one body open, three closed -/
example :
    let os : List CuOut := [⟨some ⟨200, some 1⟩, false⟩, ⟨some ⟨500, some 2⟩, false⟩, ⟨none, true⟩,
                             ⟨some ⟨301, none⟩, false⟩, ⟨some ⟨200, some 5⟩, false⟩, ⟨some ⟨204, some 6⟩, false⟩]
    (cuRun true {} os).openBodies = [6] ∧ (cuRun true {} os).closes = 3 ∧ gotBody os = 4 ∧
    (cuRun false {} os).openBodies = [6, 5, 2, 1] := by
  decide

end Jobs
