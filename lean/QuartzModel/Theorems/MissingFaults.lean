import QuartzModel.Generated.Facts
/-! No source shape of the `faults` fact group(s) is missing (a separate module per group, so that a reshaped function of one area
cannot break the proof obligations of properties that do not depend on it). -/
namespace Facts
theorem missing_none_faults : (Generated.missing.filter (fun s => "faults.".toList.isPrefixOf s.toList)) = [] := by decide
end Facts
