import QuartzModel.Proofs.ComposeLemmas
import QuartzModel.Theorems.C07
/-!
# Composition: the scheduler (C03 / C04) with a cron trigger (C01 / C02 / C07)

`Trig.cron f c` is `quartz.CronTrigger` with parsed fields `f` in a fixed-offset location `c` seconds
east of UTC; its `fire prev` is `Cron.nextFire {} f (Cron.fixedZone c) prev` (`cronNext f c prev`,
`none` = the trigger's error) and it has no state.  Times are Unix nanoseconds.

* `cron_job_runs_only_at_matching_instants` (C03 ∘ C01): in every history from the empty scheduler the
  job is handed to a worker only for instants that are whole seconds whose civil reading in the job's
  location satisfies the expression; `parsed_cron_job_runs_only_at_matching_instants` is the same for a
  job built from an accepted expression string (C07 discharges well-formedness).
* `cron_job_dispatch_is_first_match`: that instant is moreover the FIRST matching instant after the
  argument of an earlier call on the job's own trigger.
* `cron_job_never_early`: the step that dispatches it reads a clock `now` with
  `d.time ≤ now ≤ d.time + thr`.
* `cron_job_no_skip_while_on_time` (C04 no-drift ∘ C02): under loop steps only, never more than `thr`
  late, the dispatched fire times are exactly the first `k` matching instants after the clock reading
  of `ScheduleJob`, none skipped (`NoSkip`); `cron_job_runs_exactly_the_first_matches` reads this as a
  set equation (`ExactlyFirst`), `cron_job_no_skip_from_empty` states both for whole histories from
  the empty scheduler.
* `cron_job_leaves_when_expired` / `cron_job_stays_iff_match_left` (C04 ∘ C02): the job leaves the
  registry exactly when no matching instant is left.

Helpers are in `Proofs/ComposeLemmas.lean`.
-/
namespace Sched
open Queue

/-! ## 1. a cron job runs only at matching instants -/

/-- **C03 ∘ C01.**  Any history `evs` from the empty scheduler — API calls and loop steps in any order,
clock readings arbitrary (also non-monotone) but not before the epoch, every `ScheduleJob` with its own
trigger object.  If one of its `ScheduleJob` events brought the job with tag `a.tag` and a cron trigger
with well-formed fields `f` in the fixed-offset location `c`, then every dispatch of that job is for an
instant `d.time` that is a whole second whose civil reading at offset `c` satisfies the expression. -/
theorem cron_job_runs_only_at_matching_instants (thr : Int) (evs : List Ev) (hft : FreshTags evs)
    (hclk : NonnegClock evs) (now0 : Int) (a : SchedArgs) (f : Cron.Fields) (c : Int)
    (hsch : Ev.schedule now0 a ∈ evs) (ha : a.trig = some (.cron f c))
    (hwff : Cron.WellFormed f = true) (hc : -100000 ≤ c ∧ c ≤ 100000)
    (d : Disp) (hd : d ∈ dispatches (run thr {} evs).2) (hdt : d.tag = a.tag) :
    d.time % 1000000000 = 0 ∧ Cron.Matches f (Cal.Civil.ofSeconds (d.time / 1000000000 + c)) := by
  obtain ⟨k, pv, _, hk⟩ := C03_dispatch_answers_own_trigger thr evs hft d hd
  have hmem : (⟨d.tag, pv, some d.time⟩ : TrigCall) ∈ callLog (run thr {} evs).2 :=
    List.mem_of_getElem? hk
  obtain ⟨h0, hres⟩ := cron_calls thr evs hft hclk now0 a f c hsch ha hwff hc _ hmem hdt
  have h0' : 0 ≤ pv := h0
  obtain ⟨h1, _, h3⟩ := cronNext_sound f hwff c pv hc (by omega) d.time hres.symm
  exact ⟨h1, h3⟩

/-- (extra, C03 ∘ C01 ∘ C02) the dispatched instant answers an EARLIER call `k` on the job's own
trigger, whose argument `pv` is `≥ 0`, and it is the first matching whole second after `pv`: it lies
after `pv` and no matching whole second lies strictly between -/
theorem cron_job_dispatch_is_first_match (thr : Int) (evs : List Ev) (hft : FreshTags evs)
    (hclk : NonnegClock evs) (now0 : Int) (a : SchedArgs) (f : Cron.Fields) (c : Int)
    (hsch : Ev.schedule now0 a ∈ evs) (ha : a.trig = some (.cron f c))
    (hwff : Cron.WellFormed f = true) (hc : -100000 ≤ c ∧ c ≤ 100000)
    (d : Disp) (hd : d ∈ dispatches (run thr {} evs).2) (hdt : d.tag = a.tag) :
    ∃ k pv, k < d.pos ∧ (callLog (run thr {} evs).2)[k]? = some ⟨a.tag, pv, some d.time⟩ ∧
      0 ≤ pv ∧ pv < d.time ∧ cronNext f c pv = some d.time ∧
      ∀ u : Int, pv < u → u < d.time → u % 1000000000 = 0 →
        ¬ Cron.Matches f (Cal.Civil.ofSeconds (u / 1000000000 + c)) := by
  obtain ⟨k, pv, hlt, hk⟩ := C03_dispatch_answers_own_trigger thr evs hft d hd
  have hmem : (⟨d.tag, pv, some d.time⟩ : TrigCall) ∈ callLog (run thr {} evs).2 :=
    List.mem_of_getElem? hk
  obtain ⟨h0, hres⟩ := cron_calls thr evs hft hclk now0 a f c hsch ha hwff hc _ hmem hdt
  have h0' : 0 ≤ pv := h0
  have hres' : cronNext f c pv = some d.time := hres.symm
  rw [hdt] at hk
  exact ⟨k, pv, hlt, hk, h0', (cronNext_sound f hwff c pv hc (by omega) d.time hres').2.1, hres',
    cronNext_minimal f hwff c pv hc (by omega) d.time hres'⟩

/-! ## 2. ... and never early -/

/-- **C03 (never early) ∘ C01.**  Every dispatch of the cron job was made by a loop step of the history
(`evs = evs1 ++ .step now :: evs2`, the dispatch is the one that step's observation shows); the clock
reading `now` of that step is not before the dispatched instant and at most `thr` after it; and the
instant satisfies the expression.  So whenever the job runs, a matching instant lies in
`[now - thr, now]`. -/
theorem cron_job_never_early (thr : Int) (evs : List Ev) (hft : FreshTags evs)
    (hclk : NonnegClock evs) (now0 : Int) (a : SchedArgs) (f : Cron.Fields) (c : Int)
    (hsch : Ev.schedule now0 a ∈ evs) (ha : a.trig = some (.cron f c))
    (hwff : Cron.WellFormed f = true) (hc : -100000 ≤ c ∧ c ≤ 100000)
    (d : Disp) (hd : d ∈ dispatches (run thr {} evs).2) (hdt : d.tag = a.tag) :
    ∃ (evs1 : List Ev) (now : Int) (evs2 : List Ev), evs = evs1 ++ .step now :: evs2 ∧
      (apply thr (run thr {} evs1).1 (.step now)).2.disp? (callLog (run thr {} evs1).2).length = some d ∧
      d.time ≤ now ∧ now - thr ≤ d.time ∧
      d.time % 1000000000 = 0 ∧ Cron.Matches f (Cal.Civil.ofSeconds (d.time / 1000000000 + c)) := by
  obtain ⟨evs1, now, evs2, h1, h2, h3, h4⟩ := dispatch_at_step thr {} evs d hd
  obtain ⟨h5, h6⟩ :=
    cron_job_runs_only_at_matching_instants thr evs hft hclk now0 a f c hsch ha hwff hc d hd hdt
  exact ⟨evs1, now, evs2, h1, h2, h3, h4, h5, h6⟩

/-- the same, one step: a step at clock reading `now` from ANY state that hands entry `e` to a worker
has `e.prio ≤ now` (restated from `C03_never_early` for reference) -/
theorem cron_job_never_early_step (s : SState) (now thr : Int) (e : Entry)
    (hd : (step s now thr).2.dispatched = true) (hp : (step s now thr).2.popped = some e) :
    e.prio ≤ now ∧ now - thr ≤ e.prio :=
  ⟨(C03_never_early s now thr e hd hp).1, (C03_never_early s now thr e hd hp).2.1⟩

/-! ## 3. no matching instant is skipped while the loop is on time -/

/-- **C04 (no drift) ∘ C02.**  `ScheduleJob` at clock reading `now0` (any int64 value, `now0 ≥ -2^63`,
also before 1970) registers an active cron job (new trigger object) in a reachable state `s`; then ANY history of loop steps follows — at arbitrary
clock readings, spurious, out of order, interleaved with steps that serve other jobs — in which no step
finds the job more than `thr` late.  Then, with `k` the number of its dispatches:
* the dispatched fire times are `chain f c now0 k = [r₁, …, r_k]`, `r₁ = next(now0)`, `rᵢ₊₁ = next(rᵢ)`
  (all `k` exist), whatever the clock readings were;
* (`NoSkip`) each is a whole second after its predecessor (`now0` for the first) that satisfies the
  expression, and NO matching whole second lies strictly between two consecutive ones, nor between
  `now0` and the first;
* the calls on its trigger during these steps were made with exactly these scheduled fire times (not
  the clock) as arguments;
* afterwards the job sits in the registry with fire time `next(r_k)` (`next(now0)` if `k = 0`), or has
  left it if the trigger reports that nothing is left. -/
theorem cron_job_no_skip_while_on_time (thr : Int) (s s1 : SState) (calls : List TrigCall) (hwf : WF s)
    (now0 : Int) (h0 : -9223372036854775808 ≤ now0) (a : SchedArgs) (f : Cron.Fields) (c : Int)
    (ha : a.trig = some (.cron f c)) (hs : a.suspended = false)
    (hwff : Cron.WellFormed f = true) (hc : -100000 ≤ c ∧ c ≤ 100000)
    (hfresh : AbsentTag a.tag s) (hsched : schedule s now0 a = (s1, none, calls))
    (evs : List Ev) (hos : OnlySteps evs) (hno : NeverOutdated a.tag (run thr s1 evs).2) :
    ∃ k : Nat,
      dispatchTimes a.tag (run thr s1 evs).2 = chain f c now0 k ∧
      (chain f c now0 k).length = k ∧
      NoSkip f c now0 (dispatchTimes a.tag (run thr s1 evs).2) ∧
      (callLog (run thr s1 evs).2).filter (fun cl => cl.tag == a.tag) =
        (chain f c now0 k).map (fun p => (⟨a.tag, p, cronNext f c p⟩ : TrigCall)) ∧
      (∀ r, cronNext f c (lastOr now0 (chain f c now0 k)) = some r →
        a.entry r ∈ (run thr s1 evs).1.q.toList ∧ (run thr s1 evs).1.trig a.tag = .cron f c) ∧
      (cronNext f c (lastOr now0 (chain f c now0 k)) = none → AbsentTag a.tag (run thr s1 evs).1) := by
  have hs1 : (schedule s now0 a).1 = s1 := by rw [hsched]
  have hok : (schedule s now0 a).2.1 = none := by rw [hsched]
  obtain ⟨hwf1, hI1⟩ := schedule_cron_trig thr s hwf now0 a f c ha hfresh hok
  obtain ⟨t, p, ht, _, hcs | hcs, hmem, _⟩ := schedule_ok_facts s now0 a hwf.inv hok
  · rw [hs] at hcs; cases hcs.1
  rw [ha] at ht
  injection ht with ht
  subst ht
  obtain ⟨_, hp, _, _⟩ := hcs
  rw [hs1] at hwf1 hI1 hmem
  obtain ⟨k, i1, i2, i3, i4, i5⟩ := cron_drift_aux thr a.tag f hwff c hc evs s1 (a.entry p) now0 hwf1
    hmem hs rfl hI1 h0 hp hos hno
  refine ⟨k, i1, i2, ?_, i3, i4, i5⟩
  rw [i1]
  exact chain_noSkip f hwff c hc k now0 h0

/-- the same conclusion read as a set equation: the dispatched fire times are increasing, all after
`now0`, and a whole second `u` with `now0 < u ≤` (the last dispatched fire time) was dispatched IF AND
ONLY IF its civil reading satisfies the expression — exactly the first `k` matching instants -/
theorem cron_job_runs_exactly_the_first_matches (thr : Int) (s s1 : SState) (calls : List TrigCall)
    (hwf : WF s) (now0 : Int) (h0 : -9223372036854775808 ≤ now0) (a : SchedArgs) (f : Cron.Fields) (c : Int)
    (ha : a.trig = some (.cron f c)) (hs : a.suspended = false)
    (hwff : Cron.WellFormed f = true) (hc : -100000 ≤ c ∧ c ≤ 100000)
    (hfresh : AbsentTag a.tag s) (hsched : schedule s now0 a = (s1, none, calls))
    (evs : List Ev) (hos : OnlySteps evs) (hno : NeverOutdated a.tag (run thr s1 evs).2) :
    ExactlyFirst f c now0 (dispatchTimes a.tag (run thr s1 evs).2) := by
  obtain ⟨k, _, _, h3, _⟩ := cron_job_no_skip_while_on_time thr s s1 calls hwf now0 h0 a f c ha hs hwff hc
    hfresh hsched evs hos hno
  exact noSkip_exactlyFirst f c _ now0 h3

/-- the state hypotheses of `cron_job_no_skip_while_on_time` hold at every `ScheduleJob` event of every
fresh history from the empty scheduler (from `C04_hyps_reachable`) -/
theorem cron_job_no_skip_hyps_reachable (thr : Int) (evs0 : List Ev) (now0 : Int) (a : SchedArgs)
    (evs : List Ev) (hft : FreshTags (evs0 ++ .schedule now0 a :: evs)) :
    WF (run thr {} evs0).1 ∧ AbsentTag a.tag (run thr {} evs0).1 :=
  ⟨(C04_hyps_reachable thr evs0 now0 a evs hft).1, (C04_hyps_reachable thr evs0 now0 a evs hft).2.1⟩

/-- **the same from the empty scheduler**: any fresh history `evs0`, then a successful `ScheduleJob` of
an active cron job at clock reading `now0` (any int64 value), then loop steps only, the job never
found more than `thr` late.  The fire times dispatched for the job in the WHOLE history are the first `k` answers of
the trigger iterated from `now0`, i.e. exactly the first `k` matching instants after `now0`. -/
theorem cron_job_no_skip_from_empty (thr : Int) (evs0 : List Ev) (now0 : Int) (a : SchedArgs)
    (steps : List Ev) (hft : FreshTags (evs0 ++ .schedule now0 a :: steps)) (h0 : -9223372036854775808 ≤ now0)
    (f : Cron.Fields) (c : Int) (ha : a.trig = some (.cron f c)) (hs : a.suspended = false)
    (hwff : Cron.WellFormed f = true) (hc : -100000 ≤ c ∧ c ≤ 100000)
    (hok : (schedule (run thr {} evs0).1 now0 a).2.1 = none) (hos : OnlySteps steps)
    (hno : NeverOutdated a.tag (run thr {} (evs0 ++ .schedule now0 a :: steps)).2) :
    ∃ k : Nat,
      dispatchTimes a.tag (run thr {} (evs0 ++ .schedule now0 a :: steps)).2 = chain f c now0 k ∧
      (chain f c now0 k).length = k ∧
      NoSkip f c now0 (dispatchTimes a.tag (run thr {} (evs0 ++ .schedule now0 a :: steps)).2) ∧
      ExactlyFirst f c now0
        (dispatchTimes a.tag (run thr {} (evs0 ++ .schedule now0 a :: steps)).2) := by
  obtain ⟨hwf0, habs0, _, _⟩ := C04_hyps_reachable thr evs0 now0 a steps hft
  have hnd : (schedTags evs0 ++ (a.tag :: schedTags steps)).Nodup := by
    have := hft
    unfold FreshTags at this
    rw [schedTags_append, schedTags_cons] at this
    exact this
  have hns1 : a.tag ∉ schedTags evs0 := fun hh =>
    (List.nodup_append.mp hnd).2.2 a.tag hh a.tag List.mem_cons_self rfl
  have hq1 := (run_absent thr a.tag evs0 {} wf0_empty (fun e he => by simp at he) hns1).2
  have hrun : (run thr {} (evs0 ++ .schedule now0 a :: steps)).2 =
      (run thr {} evs0).2 ++ (apply thr (run thr {} evs0).1 (.schedule now0 a)).2 ::
        (run thr (schedule (run thr {} evs0).1 now0 a).1 steps).2 := by
    rw [run_append, run_cons]
    rfl
  have hdt : dispatchTimes a.tag (run thr {} (evs0 ++ .schedule now0 a :: steps)).2 =
      dispatchTimes a.tag (run thr (schedule (run thr {} evs0).1 now0 a).1 steps).2 := by
    rw [hrun, dispatchTimes_append, dispatchTimes_cons, (quiet_nothing a.tag _ hq1).1]
    rfl
  have hno' : NeverOutdated a.tag (run thr (schedule (run thr {} evs0).1 now0 a).1 steps).2 := by
    intro o ho
    apply hno o
    rw [hrun]
    exact List.mem_append_right _ (List.mem_cons_of_mem _ ho)
  obtain ⟨k, h1, h2, h3, _⟩ := cron_job_no_skip_while_on_time thr _ _ _ hwf0 now0 h0 a f c ha hs hwff hc
    habs0 (schedule_ok_eta _ now0 a hok) steps hos hno'
  rw [hdt]
  exact ⟨k, h1, h2, h3, noSkip_exactlyFirst f c _ now0 h3⟩

/-! ## 4. an expired cron job leaves the registry -/

/-- **C04 (leaves the registry) ∘ C02 (expiry).**  A loop step pops the due, active entry `e` of a cron
job.  `fetchAndReschedule` asks the trigger with the scheduled fire time `e.prio` if the loop is at most
`thr` late, with the clock reading `now` otherwise.  If no whole second after that argument satisfies
the expression (before the year 2262, `Cron.Matches` is bounded by `lastYear`), the job leaves the
registry — nothing else changes — and its last fire time has still been handed to a worker if the
loop was on time (reported as misfired otherwise). -/
theorem cron_job_leaves_when_expired (s : SState) (now thr : Int) (h : Inv s.q) (e : Entry)
    (f : Cron.Fields) (c : Int) (hwff : Cron.WellFormed f = true) (hc : -100000 ≤ c ∧ c ≤ 100000)
    (hp : (step s now thr).2.popped = some e) (hs : e.suspended = false)
    (htr : s.trig e.tag = .cron f c) (h0 : -9223372036854775808 ≤ e.prio) (hdue : e.prio ≤ now)
    (hexp : ¬ ∃ u : Int, (if now - thr ≤ e.prio then e.prio else now) < u ∧ u % 1000000000 = 0 ∧
      Cron.Matches f (Cal.Civil.ofSeconds (u / 1000000000 + c))) :
    ¬ hasKey (step s now thr).1.q e.group e.name ∧ (step s now thr).2.pushed = none ∧
    (step s now thr).1.q.toList.Perm (s.q.toList.erase e) ∧
    (now - thr ≤ e.prio → (step s now thr).2.dispatched = true) ∧
    (e.prio < now - thr → (step s now thr).2.misfired = true) := by
  obtain ⟨_, hacc⟩ := C04_accounted s now thr h e hp hs
  have hnone : ∃ pv, (step s now thr).2.calls = [⟨e.tag, pv, none⟩] := by
    rcases hacc with ⟨_, _, _, hlo, _, r, hr, hcs, _⟩ | ⟨_, _, _, hlate, r, hr, hcs, _⟩ |
      ⟨_, _, _, hearly, _⟩
    · rw [if_pos hlo] at hexp
      refine ⟨e.prio, ?_⟩
      rw [hcs, hr, htr, cron_fire_eq]
      simp only
      rw [(cronNext_none_iff_no_match f hwff c e.prio hc h0).mpr hexp]
    · rw [if_neg (by omega)] at hexp
      refine ⟨now, ?_⟩
      rw [hcs, hr, htr, cron_fire_eq]
      simp only
      rw [(cronNext_none_iff_no_match f hwff c now hc (by omega)).mpr hexp]
    · omega
  obtain ⟨l1, l2, l3, l4, l5, l6⟩ := C04_leaves_registry s now thr h e hp hnone
  refine ⟨l1, l2, l3, ?_, ?_⟩
  · intro hlo
    rcases hacc with ⟨_, hd, _⟩ | ⟨_, _, _, hlate, _⟩ | ⟨_, _, _, hearly, _⟩
    · exact hd
    · omega
    · omega
  · intro hlate
    rcases hacc with ⟨_, _, _, hlo, _⟩ | ⟨_, _, hm, _⟩ | ⟨_, _, _, hearly, _⟩
    · omega
    · exact hm
    · omega

/-- ... and only then: the job is still registered after the step iff a matching instant is left; it
is then registered with the FIRST such instant as its next fire time. -/
theorem cron_job_stays_iff_match_left (s : SState) (now thr : Int) (h : Inv s.q) (e : Entry)
    (f : Cron.Fields) (c : Int) (hwff : Cron.WellFormed f = true) (hc : -100000 ≤ c ∧ c ≤ 100000)
    (hp : (step s now thr).2.popped = some e) (hs : e.suspended = false)
    (htr : s.trig e.tag = .cron f c) (h0 : -9223372036854775808 ≤ e.prio) (hdue : e.prio ≤ now) :
    (hasKey (step s now thr).1.q e.group e.name ↔
      ∃ u : Int, (if now - thr ≤ e.prio then e.prio else now) < u ∧ u % 1000000000 = 0 ∧
        Cron.Matches f (Cal.Civil.ofSeconds (u / 1000000000 + c))) ∧
    ∀ r, cronNext f c (if now - thr ≤ e.prio then e.prio else now) = some r →
      ({ e with prio := r } : Entry) ∈ (step s now thr).1.q.toList := by
  have hpv0 : -9223372036854775808 ≤ (if now - thr ≤ e.prio then e.prio else now) := by split <;> omega
  obtain ⟨⟨rest, _, hperm⟩, hacc⟩ := C04_accounted s now thr h e hp hs
  have hpushed : (step s now thr).2.pushed =
      (cronNext f c (if now - thr ≤ e.prio then e.prio else now)).map
        (fun p => ({ e with prio := p } : Entry)) := by
    rcases hacc with ⟨_, _, _, hlo, _, r, hr, _, hpu, _⟩ | ⟨_, _, _, hlate, r, hr, _, hpu, _⟩ |
      ⟨_, _, _, hearly, _⟩
    · rw [if_pos hlo, hpu, hr, htr, cron_fire_eq]
    · rw [if_neg (by omega), hpu, hr, htr, cron_fire_eq]
    · omega
  have hstay : ∀ r, cronNext f c (if now - thr ≤ e.prio then e.prio else now) = some r →
      ({ e with prio := r } : Entry) ∈ (step s now thr).1.q.toList := by
    intro r hr
    rw [hpushed, hr] at hperm
    exact hperm.mem_iff.mpr (by simp)
  refine ⟨?_, hstay⟩
  constructor
  · intro hk
    apply Classical.byContradiction
    intro hno
    exact (cron_job_leaves_when_expired s now thr h e f c hwff hc hp hs htr h0 hdue hno).1 hk
  · intro hex
    cases hr : cronNext f c (if now - thr ≤ e.prio then e.prio else now) with
    | none => exact absurd hex ((cronNext_none_iff_no_match f hwff c _ hc hpv0).mp hr)
    | some r => exact ⟨_, hstay r hr, rfl, rfl⟩

/-! ## 5. the same for a job built from an expression string -/

/-- **C03 ∘ C01 ∘ C07.**  `cron_job_runs_only_at_matching_instants` for a trigger obtained from
`NewCronTrigger(s)` (`Cron.newTrigger {} s = some f`): no well-formedness hypothesis is left. -/
theorem parsed_cron_job_runs_only_at_matching_instants (thr : Int) (evs : List Ev)
    (hft : FreshTags evs) (hclk : NonnegClock evs) (now0 : Int) (a : SchedArgs) (expr : Cron.Str)
    (f : Cron.Fields) (c : Int) (hparse : Cron.newTrigger {} expr = some f)
    (hsch : Ev.schedule now0 a ∈ evs) (ha : a.trig = some (.cron f c))
    (hc : -100000 ≤ c ∧ c ≤ 100000)
    (d : Disp) (hd : d ∈ dispatches (run thr {} evs).2) (hdt : d.tag = a.tag) :
    d.time % 1000000000 = 0 ∧ Cron.Matches f (Cal.Civil.ofSeconds (d.time / 1000000000 + c)) :=
  cron_job_runs_only_at_matching_instants thr evs hft hclk now0 a f c hsch ha
    (Cron.newTrigger_wellFormed expr f hparse) hc d hd hdt

/-- likewise for "never early" -/
theorem parsed_cron_job_never_early (thr : Int) (evs : List Ev)
    (hft : FreshTags evs) (hclk : NonnegClock evs) (now0 : Int) (a : SchedArgs) (expr : Cron.Str)
    (f : Cron.Fields) (c : Int) (hparse : Cron.newTrigger {} expr = some f)
    (hsch : Ev.schedule now0 a ∈ evs) (ha : a.trig = some (.cron f c))
    (hc : -100000 ≤ c ∧ c ≤ 100000)
    (d : Disp) (hd : d ∈ dispatches (run thr {} evs).2) (hdt : d.tag = a.tag) :
    ∃ (evs1 : List Ev) (now : Int) (evs2 : List Ev), evs = evs1 ++ .step now :: evs2 ∧
      (apply thr (run thr {} evs1).1 (.step now)).2.disp? (callLog (run thr {} evs1).2).length = some d ∧
      d.time ≤ now ∧ now - thr ≤ d.time ∧
      d.time % 1000000000 = 0 ∧ Cron.Matches f (Cal.Civil.ofSeconds (d.time / 1000000000 + c)) :=
  cron_job_never_early thr evs hft hclk now0 a f c hsch ha
    (Cron.newTrigger_wellFormed expr f hparse) hc d hd hdt

/-! ## non-vacuity -/
namespace ComposeEx

/-- `OutdatedThreshold`: 100 ms -/
def thr : Int := 100000000

/-- a job with the cron trigger `0 0 12 * * ?` (every day at noon) in UTC -/
def exJob : SchedArgs :=
  { group := "g", name := "noon", tag := 7, trig := some (.cron Cron.exNoon 0) }

/-- `ScheduleJob` at the epoch, then loop steps at 1970-01-01T12:00:00Z and 1970-01-02T12:00:00Z -/
def exHist : List Ev := [.schedule 0 exJob, .step 43200000000000, .step 129600000000000]

/-- the expression string parses to the fields of the trigger -/
theorem exNoon_parsed : Cron.newTrigger {} "0 0 12 * * ?".toList = some Cron.exNoon := by decide

example : FreshTags exHist := by decide
example : NonnegClock exHist := by decide

/-- two dispatches, at exactly those instants -/
theorem exHist_dispatches : dispatches (run thr {} exHist).2 =
    [⟨1, 7, 43200000000000⟩, ⟨2, 7, 129600000000000⟩] := by decide +kernel

/-- ... each answering the call before it; three calls on the trigger in all -/
example : callLog (run thr {} exHist).2 =
    [⟨7, 0, some 43200000000000⟩, ⟨7, 43200000000000, some 129600000000000⟩,
     ⟨7, 129600000000000, some 216000000000000⟩] := by decide +kernel

/-- theorem 1 instantiated on the concrete history: noon of day 2 satisfies `0 0 12 * * ?` -/
example : (129600000000000 : Int) % 1000000000 = 0 ∧
    Cron.Matches Cron.exNoon (Cal.Civil.ofSeconds (129600000000000 / 1000000000 + 0)) :=
  cron_job_runs_only_at_matching_instants thr exHist (by decide) (by decide) 0 exJob Cron.exNoon 0
    List.mem_cons_self rfl Cron.exNoon_wf (by omega) ⟨2, 7, 129600000000000⟩
    (by rw [exHist_dispatches]; simp) rfl

/-- ... and theorem 5 with the expression string -/
example : (43200000000000 : Int) % 1000000000 = 0 ∧
    Cron.Matches Cron.exNoon (Cal.Civil.ofSeconds (43200000000000 / 1000000000 + 0)) :=
  parsed_cron_job_runs_only_at_matching_instants thr exHist (by decide) (by decide) 0 exJob
    "0 0 12 * * ?".toList Cron.exNoon 0 exNoon_parsed List.mem_cons_self rfl (by omega)
    ⟨1, 7, 43200000000000⟩ (by rw [exHist_dispatches]; simp) rfl

/-- theorem 2 on the concrete history: the first dispatch was made by a step that read a clock not
before noon of day 1 -/
example : ∃ (evs1 : List Ev) (now : Int) (evs2 : List Ev), exHist = evs1 ++ .step now :: evs2 ∧
    (apply thr (run thr {} evs1).1 (.step now)).2.disp? (callLog (run thr {} evs1).2).length =
      some ⟨1, 7, 43200000000000⟩ ∧ (43200000000000 : Int) ≤ now := by
  obtain ⟨evs1, now, evs2, h1, h2, h3, _⟩ :=
    cron_job_never_early thr exHist (by decide) (by decide) 0 exJob Cron.exNoon 0
      List.mem_cons_self rfl Cron.exNoon_wf (by omega) ⟨1, 7, 43200000000000⟩
      (by rw [exHist_dispatches]; simp) rfl
  exact ⟨evs1, now, evs2, h1, h2, h3⟩

/-- a location east of UTC (+02:00): noon local time is 10:00 UTC -/
def exJobEast : SchedArgs :=
  { group := "g", name := "noonEast", tag := 11, trig := some (.cron Cron.exNoon 7200) }

theorem exEast_dispatches :
    dispatches (run thr {} [.schedule 0 exJobEast, .step 36000000000000]).2 =
      [⟨1, 11, 36000000000000⟩] := by decide +kernel

example : Cron.Matches Cron.exNoon (Cal.Civil.ofSeconds (36000000000000 / 1000000000 + 7200)) :=
  (cron_job_runs_only_at_matching_instants thr [.schedule 0 exJobEast, .step 36000000000000]
    (by decide) (by decide) 0 exJobEast Cron.exNoon 7200 List.mem_cons_self rfl Cron.exNoon_wf
    (by omega) ⟨1, 11, 36000000000000⟩ (by rw [exEast_dispatches]; simp) rfl).2

/-- a richer history for theorem 3: a second (simple-trigger) job; a spurious early step; a step 50 ms
late (within the threshold); a step that goes back in time; a step that serves the other job -/
def exOther : SchedArgs :=
  { group := "g", name := "other", tag := 8, trig := some (.simple 100000000000000) }

def exS0 : SState := (run thr {} [.schedule 5 exOther]).1
def exS1 : SState := (schedule exS0 0 exJob).1

def exSteps : List Ev :=
  [.step 1000000000, .step 43200050000000, .step 43200000000000, .step 100000000000005,
   .step 129600000000000, .step 129600000000001]

theorem exS0_wf : WF exS0 := run_wf thr _ {} wf_empty (by decide) (freshFor_empty _)

theorem exSched : schedule exS0 0 exJob = (exS1, none, (schedule exS0 0 exJob).2.2) :=
  schedule_ok_eta exS0 0 exJob (by decide +kernel)

theorem exAbsent : AbsentTag exJob.tag exS0 := by unfold AbsentTag; decide +kernel

theorem exOnly : OnlySteps exSteps := onlyStepsB_sound _ (by decide)

theorem exNever : NeverOutdated exJob.tag (run thr exS1 exSteps).2 :=
  neverOutdatedB_sound _ _ (by decide +kernel)

/-- fire times dispatched for the cron job: noon of day 1 and noon of day 2, although the steps ran at
other clock readings; in between a step served the other job -/
example : dispatchTimes 7 (run thr exS1 exSteps).2 = [43200000000000, 129600000000000] := by
  decide +kernel
example : dispatchTimes 8 (run thr exS1 exSteps).2 = [100000000000005] := by decide +kernel

/-- theorem 3 instantiated: the conclusion holds for this history (`exJob.tag = 7`; here `k = 2`) -/
example : ∃ k : Nat,
    dispatchTimes exJob.tag (run thr exS1 exSteps).2 = chain Cron.exNoon 0 0 k ∧
    (chain Cron.exNoon 0 0 k).length = k ∧
    NoSkip Cron.exNoon 0 0 (dispatchTimes exJob.tag (run thr exS1 exSteps).2) := by
  obtain ⟨k, h⟩ := cron_job_no_skip_while_on_time thr exS0 exS1 _ exS0_wf 0 (by omega) exJob
    Cron.exNoon 0 rfl rfl Cron.exNoon_wf (by omega) exAbsent exSched exSteps exOnly exNever
  exact ⟨k, h.1, h.2.1, h.2.2.1⟩

/-- ... and read as a set equation -/
example : ExactlyFirst Cron.exNoon 0 0 (dispatchTimes exJob.tag (run thr exS1 exSteps).2) :=
  cron_job_runs_exactly_the_first_matches thr exS0 exS1 _ exS0_wf 0 (by omega) exJob
    Cron.exNoon 0 rfl rfl Cron.exNoon_wf (by omega) exAbsent exSched exSteps exOnly exNever

/-- the same from the empty scheduler: the hypotheses of `cron_job_no_skip_from_empty` hold -/
example : FreshTags ([.schedule 5 exOther] ++ .schedule 0 exJob :: exSteps) ∧
    (schedule (run thr {} [.schedule 5 exOther]).1 0 exJob).2.1 = none ∧
    neverOutdatedB exJob.tag (run thr {} ([.schedule 5 exOther] ++ .schedule 0 exJob :: exSteps)).2 = true :=
  ⟨by decide, by decide +kernel, by decide +kernel⟩

/-- the chain itself, evaluated: the first two noons -/
example : chain Cron.exNoon 0 0 2 = [43200000000000, 129600000000000] := by decide +kernel

/-- theorem 4: `0 0 12 * * ? 1970`, scheduled on 1970-12-31 shortly before noon; the step at noon
dispatches the last fire time of 1970, the trigger has nothing left, the job leaves the registry -/
def exJob70 : SchedArgs :=
  { group := "g", name := "y1970", tag := 9, trig := some (.cron Cron.exNoon1970 0) }

def exS70 : SState := (run thr {} [.schedule 31490000000000000 exJob70]).1

def exE70 : Entry := { group := "g", name := "y1970", prio := 31492800000000000, tag := 9 }

theorem exS70_popped : (step exS70 31492800000000000 thr).2.popped = some exE70 := by decide +kernel

theorem exS70_expired :
    Cron.nextFire {} Cron.exNoon1970 (Cron.fixedZone 0) 31492800000000000 = .expired := by
  decide +kernel

theorem exS70_inv : Inv exS70.q := by rw [exS70]; exact run_inv thr _ {} inv_empty

theorem exS70_trig : exS70.trig exE70.tag = .cron Cron.exNoon1970 0 := by decide +kernel

/-- the hypotheses of `cron_job_leaves_when_expired` hold on the instance, and so does its conclusion
(`exE70.group = "g"`, `exE70.name = "y1970"`) -/
example : ¬ hasKey (step exS70 31492800000000000 thr).1.q exE70.group exE70.name ∧
    (step exS70 31492800000000000 thr).2.dispatched = true := by
  have hexp : ¬ ∃ u : Int, (if (31492800000000000 : Int) - thr ≤ exE70.prio then exE70.prio
      else 31492800000000000) < u ∧ u % 1000000000 = 0 ∧
      Cron.Matches Cron.exNoon1970 (Cal.Civil.ofSeconds (u / 1000000000 + 0)) :=
    (Cron.C02_expired_iff Cron.exNoon1970 Cron.exNoon1970_wf 0 31492800000000000 (by omega)
      (by omega)).mp exS70_expired
  obtain ⟨h1, _, _, h4, _⟩ := cron_job_leaves_when_expired exS70 31492800000000000 thr
    exS70_inv exE70 Cron.exNoon1970 0 Cron.exNoon1970_wf (by omega) exS70_popped rfl exS70_trig
    (by decide) (by decide) hexp
  exact ⟨h1, h4 (by decide)⟩

example : (step exS70 31492800000000000 thr).1.q.toList = [] := by decide +kernel

/-! ### clock readings and fire times before 1970 (negative) -/

/-- `ScheduleJob` one day and 1 ns before the epoch (a clock before 1970) -/
def exS1neg : SState := (schedule {} (-86400000000001) exJob).1

def exStepsNeg : List Ev := [.step (-50000000000000), .step (-43200000000000), .step 43200000000001]

theorem exSchedNeg : schedule {} (-86400000000001) exJob =
    (exS1neg, none, (schedule {} (-86400000000001) exJob).2.2) :=
  schedule_ok_eta {} _ exJob (by decide +kernel)

theorem exAbsentNeg : AbsentTag exJob.tag {} := by unfold AbsentTag; decide +kernel

theorem exOnlyNeg : OnlySteps exStepsNeg := onlyStepsB_sound _ (by decide)

theorem exNeverNeg : NeverOutdated exJob.tag (run thr exS1neg exStepsNeg).2 :=
  neverOutdatedB_sound _ _ (by decide +kernel)

example : dispatchTimes 7 (run thr exS1neg exStepsNeg).2 = [-43200000000000, 43200000000000] := by
  decide +kernel

example : ∃ k : Nat,
    dispatchTimes exJob.tag (run thr exS1neg exStepsNeg).2 = chain Cron.exNoon 0 (-86400000000001) k ∧
    (chain Cron.exNoon 0 (-86400000000001) k).length = k ∧
    NoSkip Cron.exNoon 0 (-86400000000001) (dispatchTimes exJob.tag (run thr exS1neg exStepsNeg).2) := by
  obtain ⟨k, h⟩ := cron_job_no_skip_while_on_time thr {} exS1neg _ wf_empty (-86400000000001) (by omega) exJob
    Cron.exNoon 0 rfl rfl Cron.exNoon_wf (by omega) exAbsentNeg exSchedNeg exStepsNeg exOnlyNeg exNeverNeg
  exact ⟨k, h.1, h.2.1, h.2.2.1⟩

example : ExactlyFirst Cron.exNoon 0 (-86400000000001)
    (dispatchTimes exJob.tag (run thr exS1neg exStepsNeg).2) :=
  cron_job_runs_exactly_the_first_matches thr {} exS1neg _ wf_empty (-86400000000001) (by omega) exJob
    Cron.exNoon 0 rfl rfl Cron.exNoon_wf (by omega) exAbsentNeg exSchedNeg exStepsNeg exOnlyNeg exNeverNeg

def exSneg : SState := (run thr {} [.schedule (-86400000000001) exJob]).1

def exEneg : Entry := { group := "g", name := "noon", prio := -43200000000000, tag := 7 }

theorem exSneg_popped : (step exSneg (-43200000000000) thr).2.popped = some exEneg := by decide +kernel

theorem exSneg_inv : Inv exSneg.q := by rw [exSneg]; exact run_inv thr _ {} inv_empty

theorem exSneg_trig : exSneg.trig exEneg.tag = .cron Cron.exNoon 0 := by decide +kernel

/-- `cron_job_stays_iff_match_left` / `cron_job_leaves_when_expired` take a fire time before 1970
(`e.prio < 0`): the job popped at 1969-12-31T12:00:00Z stays, registered with the first matching instant after it -/
example : hasKey (step exSneg (-43200000000000) thr).1.q exEneg.group exEneg.name ∧
    ({ exEneg with prio := 43200000000000 } : Entry) ∈ (step exSneg (-43200000000000) thr).1.q.toList := by
  obtain ⟨h1, h2⟩ := cron_job_stays_iff_match_left exSneg (-43200000000000) thr exSneg_inv exEneg
    Cron.exNoon 0 Cron.exNoon_wf (by omega) exSneg_popped rfl exSneg_trig (by decide) (by decide)
  have hr : cronNext Cron.exNoon 0
      (if (-43200000000000 : Int) - thr ≤ exEneg.prio then exEneg.prio else -43200000000000) =
      some 43200000000000 := by decide +kernel
  refine ⟨h1.mpr ?_, h2 _ hr⟩
  exact ⟨43200000000000, by decide, by decide,
    (cronNext_sound Cron.exNoon Cron.exNoon_wf 0 _ (by omega) (by decide) _ hr).2.2⟩

end ComposeEx

end Sched
