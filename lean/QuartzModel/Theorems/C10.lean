import QuartzModel.Sched.Lifecycle
import QuartzModel.Proofs.LifecycleLemmas
import QuartzModel.Generated.Facts
/-!
# C10 — lifecycle: start / stop / cancel / wait / restart behave and leak nothing

Model: `QuartzModel/Sched/Lifecycle.lean` (Start, Stop, stopRun, stop, IsStarted, Wait, the watcher, loop, worker
and per-execution goroutines of quartz/scheduler.go). Every theorem quantifies over ALL interleavings of the
user's calls (`start`, `stop`, `cancel g`) with the internal steps of all goroutines of all generations.
`Cfg.std n` is the code as it is (generation guard in the watcher, Start completes a pending stop, IsStarted looks
at the run's context); `C10_facts` ties these three switches and the goroutine accounting to the source.
The `…_fails` / `…_unrepaired` / `…_hazard` theorems are negative controls: they prove that without the guard / without the
pre-stop the property is false, i.e. that the theorems really depend on those pieces of code.
-/
namespace Lifecycle

/-! ## the regenerated facts -/

/-- the variant of the model selected by what the extractor found in quartz/scheduler.go -/
def cfgOfFacts (n : Nat) : Cfg :=
  { workers := n,
    guarded := Generated.Lifecycle.watcherCallsStopRun && Generated.Lifecycle.stopRunGuard,
    prestop := Generated.Lifecycle.startPrestop && Generated.Lifecycle.startEarlyReturn,
    ctxAware := Generated.Lifecycle.isStartedCtxAware }

/-- The source has the shape the model transcribes: every `go` statement of package quartz (there are four: watcher
    and loop in `Start`, the workers, the per-execution goroutine) is accounted for in the counter (`wg.Add(1)` right
    before, `defer wg.Done()` first); `Wait` creates no goroutine and writes nothing — it is exactly
    `select { case <-ctx.Done(): case <-sched.wg.zero(): }`; there are no other uses of `sched.wg`; the counter's
    `Add` makes a fresh `done` channel when it leaves zero and closes it when it returns to zero, `zero()` answers
    a closed channel iff `n = 0`; the watcher calls `stopRun` with the captured generation and `stopRun` compares it
    with `sched.run`; `Start` completes a pending stop, returns early when started, and has exactly the modelled
    statement list; `stop` returns early when not started, cancels and clears the flag; `started` is written nowhere
    else; `IsStarted` consults the run's context; the loop leaves on `ctx.Done()`; jobs receive the run's context. -/
theorem C10_facts :
    (∀ n, cfgOfFacts n = Cfg.std n) ∧
    Generated.Lifecycle.goSites = [(0, 0), (0, 0), (1, 0), (2, 0)] ∧
    Generated.Lifecycle.wgCalls = [4, 4, 4, 4, 1, 0] ∧
    Generated.Lifecycle.counterShape = true ∧
    Generated.Lifecycle.startShape = true ∧ Generated.Lifecycle.stopLocked = true ∧
    Generated.Lifecycle.stopShape = true ∧ Generated.Lifecycle.waitShape = true ∧
    Generated.Lifecycle.loopExitsOnDone = true ∧ Generated.Lifecycle.jobsGetRunCtx = true ∧
    Generated.Lifecycle.startedWritesStd = true := by
  refine ⟨fun n => ?_, by decide, by decide, by decide, by decide, by decide, by decide, by decide, by decide,
    by decide, by decide⟩
  simp [cfgOfFacts, Cfg.std, Generated.Lifecycle.watcherCallsStopRun, Generated.Lifecycle.stopRunGuard,
    Generated.Lifecycle.startPrestop, Generated.Lifecycle.startEarlyReturn, Generated.Lifecycle.isStartedCtxAware]

/-! ## idempotence -/

/-- A second `Start` changes nothing (for every state, every variant); after a `Start` the flag is set, and for the
    code as it is `IsStarted` reports true. -/
theorem C10_start_idempotent (cfg : Cfg) (s s1 : St) (h : step cfg s .start = some s1) :
    step cfg s1 .start = some s1 ∧ s1.started = true ∧
    (cfg.prestop = true → isStarted cfg s1 = true) := by
  simp only [step] at h; cases h
  obtain ⟨h1, h2⟩ := startBody_idem cfg s
  refine ⟨by simp only [step]; rw [h1], h2, ?_⟩
  intro hp
  by_cases hc : s.started = true ∧ curCancelled s = false
  · rw [startBody_noop cfg s hc.1 hc.2]; simp [isStarted, hc.1, hc.2]
  · have : s.started = false ∨ curCancelled s = true := by
      cases h1 : s.started <;> cases h2 : curCancelled s <;> simp_all
    rw [startBody_new cfg s hp this]
    simp [isStarted, curCancelled_append, newGen]

/-- A second `Stop` changes nothing; after a `Stop` `IsStarted` reports false; `Stop` before any `Start` is a no-op. -/
theorem C10_stop_idempotent (cfg : Cfg) (s s1 : St) (h : step cfg s .stop = some s1) :
    step cfg s1 .stop = some s1 ∧ s1.started = false ∧ isStarted cfg s1 = false ∧
    step cfg init .stop = some init := by
  simp only [step] at h; cases h
  refine ⟨?_, stopBody_started s, by simp [isStarted, stopBody_started], rfl⟩
  simp only [step]; rw [stopBody_of_not_started _ (stopBody_started s)]

/-! ## IsStarted reports the most recent Start / Stop / cancellation -/

/-- For EVERY interleaving `as` of user calls and internal steps, `IsStarted` equals what the user's calls alone
    determine in call order (`expect`): true after a Start, false after a Stop or after the cancellation of the
    context of the current run; cancelling the context of an earlier run has no effect. No quiescence is needed. -/
theorem C10_isStarted_latest (n : Nat) (as : List Act) (s : St) (h : run (Cfg.std n) init as = some s) :
    isStarted (Cfg.std n) s = (expect as).2 ∧ s.gens.length = (expect as).1 := by
  obtain ⟨h1, h2⟩ := latest_run n as init s (0, false) inv_init rfl (by simp [isStarted, init]) h
  exact ⟨h2, h1⟩

/-- …and once the watchers have nothing left to do the `started` field itself says the same. -/
theorem C10_started_at_quiescence (n : Nat) (as : List Act) (s : St) (h : run (Cfg.std n) init as = some s)
    (hq : Quiet s) : s.started = (expect as).2 := by
  rw [← (C10_isStarted_latest n as s h).1, isStarted_std]
  cases hst : s.started with
  | false => rfl
  | true => simp [quiet_started (inv_reach _ s ⟨as, h⟩) hq hst]

/-! ## cancelling the context is equivalent to Stop -/

/-- From any reachable state: cancelling the current run's context and calling Stop both make `IsStarted` false at
    once, and under EVERY continuation `as` (user calls and internal steps alike) the two systems move in lock-step:
    the same steps are enabled, `IsStarted` agrees at every point, the states differ at most in the `started` field
    (while the watcher has not reacted), and they are identical as soon as the watchers are quiescent. -/
theorem C10_cancel_eq_stop (n : Nat) (s : St) (hr : Reach (Cfg.std n) s) (hst : s.started = true)
    (sc ss : St) (hc : step (Cfg.std n) s (.cancel (s.gens.length - 1)) = some sc)
    (hs : step (Cfg.std n) s .stop = some ss) :
    isStarted (Cfg.std n) sc = false ∧ isStarted (Cfg.std n) ss = false ∧
    ∀ as, (run (Cfg.std n) sc as = none ∧ run (Cfg.std n) ss as = none) ∨
      ∃ sc' ss', run (Cfg.std n) sc as = some sc' ∧ run (Cfg.std n) ss as = some ss' ∧
        isStarted (Cfg.std n) sc' = isStarted (Cfg.std n) ss' ∧ (sc' = ss' ∨ ss' = clr sc') ∧
        (Quiet sc' → sc' = ss') := by
  have hi := inv_reach _ s hr
  have hne := hi.started_has hst
  have hpos : 0 < s.gens.length := List.length_pos_iff.mpr hne
  obtain ⟨g, hg⟩ : ∃ g, s.gens[s.gens.length - 1]? = some g :=
    ⟨_, List.getElem?_eq_getElem (by omega)⟩
  simp only [step, hg] at hc hs
  cases hc; cases hs
  have hcc : curCancelled { s with gens := s.gens.set (s.gens.length - 1) { g with cancelled := true } } = true := by
    rw [curCancelled_set_cancel s _ g s.wg s.started hg]
    have : s.gens.length - 1 + 1 = s.gens.length := by omega
    simp [this]
  have hsim : Sim { s with gens := s.gens.set (s.gens.length - 1) { g with cancelled := true } } (stopBody s) := by
    right
    refine ⟨?_, hcc⟩
    simp [stopBody, hst, cancelAt, hg, clr]
  refine ⟨by simp [isStarted_std, hcc], by simp [isStarted, stopBody_started], ?_⟩
  intro as
  rcases sim_run n as _ _ hsim with h | ⟨a', b', h1, h2, hs'⟩
  · exact Or.inl h
  · refine Or.inr ⟨a', b', h1, h2, sim_isStarted n hs', ?_, ?_⟩
    · rcases hs' with h | ⟨h, _⟩
      · exact Or.inl h
      · exact Or.inr h
    · intro hq
      rcases hs' with h | ⟨h, hcc'⟩
      · exact h
      · have hra : Reach (Cfg.std n) a' :=
          reach_run _ _ a' as (reach_run _ s _ [.cancel (s.gens.length - 1)] hr (by simp [run, step, hg])) h1
        have hsa : a'.started = false := by
          cases hh : a'.started with
          | false => rfl
          | true => have := quiet_started (inv_reach _ a' hra) hq hh; rw [hcc'] at this; cases this
        rw [h]; cases a'; simp_all [clr]

/-! ## restart -/

/-- A stopped scheduler can be started again, even immediately. After `Stop; Start` — and equally after
    `cancel; Start` — from ANY state, whatever the goroutines of earlier generations (in particular their stale
    watchers) do afterwards, the scheduler is started: `IsStarted` is true, the new run's context is live and its
    execution loop is alive (so it fires its jobs again). A watcher of generation g never stops generation g' > g. -/
theorem C10_restart (n : Nat) (s s' : St) (as : List Act) (hint : ∀ a ∈ as, a.isInternal = true) :
    (run (Cfg.std n) s (.stop :: .start :: as) = some s' → isStarted (Cfg.std n) s' = true ∧ Fresh s') ∧
    (run (Cfg.std n) s (.cancel (s.gens.length - 1) :: .start :: as) = some s' →
      isStarted (Cfg.std n) s' = true ∧ Fresh s') ∧
    (∀ i t, i + 1 < s.gens.length → step (Cfg.std n) s (.watcherStop i) = some t →
      t.started = s.started ∧ isStarted (Cfg.std n) t = isStarted (Cfg.std n) s) := by
  refine ⟨?_, ?_, ?_⟩
  · intro h
    simp only [run, step, Option.bind_some] at h
    have hf : Fresh (startBody (Cfg.std n) (stopBody s)) := by
      rw [startBody_new _ _ rfl (Or.inl (stopBody_started s))]
      exact fresh_startBody_new _ _ _
    have := fresh_run _ rfl as _ s' hf hint h
    exact ⟨fresh_isStarted _ this, this⟩
  · intro h
    simp only [run, step] at h
    cases hg : s.gens[s.gens.length - 1]? with
    | none => simp [hg] at h
    | some g =>
      simp only [hg, Option.bind_some] at h
      have hlt := lt_of_getElem? hg
      have hcc : curCancelled { s with gens := s.gens.set (s.gens.length - 1) { g with cancelled := true } } = true := by
        rw [curCancelled_set_cancel s _ g s.wg s.started hg]
        have : s.gens.length - 1 + 1 = s.gens.length := by omega
        simp [this]
      have hf : Fresh (startBody (Cfg.std n)
          { s with gens := s.gens.set (s.gens.length - 1) { g with cancelled := true } }) := by
        rw [startBody_new _ _ rfl (Or.inr hcc)]
        exact fresh_startBody_new _ _ _
      have := fresh_run _ rfl as _ s' hf hint h
      exact ⟨fresh_isStarted _ this, this⟩
  · intro i t hi h
    simp only [step] at h
    split at h
    · rename_i g hg
      split at h <;> simp at h
      subst h
      have hne : ¬ s.gens.length = i + 1 := by omega
      rw [if_pos ⟨rfl, hne⟩]
      exact ⟨finishWatcher_started s i, isStarted_finishWatcher _ s i⟩
    · cases h

/-- Negative control — the historic defect. In the variant whose watcher calls plain `Stop()` the state
    `Start; Stop; Start; watcher₁` is reachable and has `started = false` (and the NEW run's context cancelled);
    run on to quiescence the scheduler stays
    stopped although the most recent call was `Start`. -/
theorem C10_restart_unguarded_fails :
    run { Cfg.std 0 with guarded := false } init [.start, .stop, .start, .watcherWake 0, .watcherStop 0] =
      some { started := false,
             gens := [{ cancelled := true, watcher := .done, loop := true, workers := 0, jobs := 0 },
                      { cancelled := true, watcher := .waiting, loop := true, workers := 0, jobs := 0 }],
             wg := 3 } ∧
    (∃ s, run { Cfg.std 0 with guarded := false } init
        [.start, .stop, .start, .watcherWake 0, .watcherStop 0, .watcherWake 1, .watcherStop 1] = some s ∧
      Quiet s ∧ s.started = false ∧ isStarted { Cfg.std 0 with guarded := false } s = false ∧
      (expect [.start, .stop, .start, .watcherWake 0, .watcherStop 0, .watcherWake 1, .watcherStop 1]).2 = true) := by
  constructor
  · decide
  · exact ⟨{ started := false, gens := [{ cancelled := true, watcher := .done, loop := true, workers := 0, jobs := 0 },
               { cancelled := true, watcher := .done, loop := true, workers := 0, jobs := 0 }], wg := 2 },
      (by decide), (by decide), rfl, (by decide), (by decide)⟩

/-- Negative control — the second defect (repaired by the `runCtx` check). Without Start's pre-stop,
    `Start; cancel; Start` followed by the watcher's reaction ends, quiescent, with the scheduler stopped although
    the most recent call was a `Start`. -/
theorem C10_cancel_start_race_unrepaired :
    ∃ s, run { Cfg.std 0 with prestop := false } init
        [.start, .cancel 0, .start, .watcherWake 0, .watcherStop 0] = some s ∧
      Quiet s ∧ s.started = false ∧ isStarted { Cfg.std 0 with prestop := false } s = false ∧
      (expect [.start, .cancel 0, .start, .watcherWake 0, .watcherStop 0]).2 = true := by
  exact ⟨{ started := false, gens := [{ cancelled := true, watcher := .done, loop := true, workers := 0, jobs := 0 }],
           wg := 1 },
    (by decide), (by decide), rfl, (by decide), (by decide)⟩

/-! ## Wait -/

/-- In every reachable state the counter is exactly the number of live counted goroutines of all generations.
    Hence when it is zero no watcher, loop, worker or per-execution goroutine of any generation is alive, the scheduler
    is stopped, and no internal step is enabled at all: no job execution is in progress and none will start until the
    user calls `Start` again. (Fact: these four kinds are ALL the goroutines the package creates — `Wait` itself creates
    none, `C10_facts`.) Holds for every variant. -/
theorem C10_wait_sound (cfg : Cfg) (s : St) (hr : Reach cfg s) :
    s.wg = live s ∧
    (s.wg = 0 →
      (∀ g ∈ s.gens, g.watcher = .done ∧ g.loop = false ∧ g.workers = 0 ∧ g.jobs = 0) ∧
      s.started = false ∧
      ∀ a, a.isInternal = true → step cfg s a = none) := by
  have hi := inv_reach cfg s hr
  refine ⟨hi.wg_live, ?_⟩
  intro h0
  have hat := dead_of_wg_zero hi h0
  refine ⟨fun g hg => ?_, ?_, no_internal_of_wg_zero cfg hi h0⟩
  · obtain ⟨i, hi'⟩ := List.mem_iff_getElem?.mp hg
    exact hat i g hi'
  · cases hst : s.started with
    | false => rfl
    | true =>
      exfalso
      have hne := hi.started_has hst
      have hpos : 0 < s.gens.length := List.length_pos_iff.mpr hne
      obtain ⟨g, hg⟩ : ∃ g, s.gens[s.gens.length - 1]? = some g :=
        ⟨_, List.getElem?_eq_getElem (by omega)⟩
      exact hi.cur_watching g hg hst (hat _ g hg).1

/-- When does `Wait` return because of the counter? A caller that enters `Wait` is released at once iff the counter
    is zero at that moment; a blocked caller is released only when the `done` channel it holds is closed, and then
    — provided no `Start` has taken effect since its call — the counter IS zero now: everything of every generation
    has exited (`C10_wait_sound`). (If a `Start` did take effect in between, the counter was zero at some moment
    after the call: the epoch the caller waited for has ended.) All interleavings, any number of callers. -/
theorem C10_wait_returns_at_zero (cfg : Cfg) (w : WSt) (hr : WReach cfg false w) :
    (∀ w', wstep cfg false w .waitCall = some w' →
      (w'.waiters.getLast? = some .released ↔ w.sched.wg = 0)) ∧
    (∀ k e g0 w', w.waiters[k]? = some (.blocked e g0) → wstep cfg false w (.waitWake k) = some w' →
      (e < w.epoch ∨ w.sched.wg = 0) ∧
      (w.sched.gens.length = g0 → w.sched.wg = 0 ∧ w.sched.started = false ∧
        ∀ g ∈ w.sched.gens, g.watcher = .done ∧ g.loop = false ∧ g.workers = 0 ∧ g.jobs = 0)) := by
  have hi := winv_reach cfg false w hr
  refine ⟨?_, ?_⟩
  · intro w' h
    simp only [wstep] at h; cases h
    simp only [List.getLast?_append, List.getLast?_singleton, Option.some_or, Option.some.injEq]
    by_cases h0 : w.sched.wg = 0 <;> simp [h0]
  · intro k e g0 w' hk h
    simp only [wstep, hk] at h
    split at h <;> simp at h
    rename_i hc
    simp only [chanClosed, Bool.or_eq_true, decide_eq_true_eq, Bool.and_eq_true, beq_iff_eq] at hc
    obtain ⟨_, _, h3⟩ := hi.blocked k e g0 hk
    have hz : e < w.epoch ∨ w.sched.wg = 0 := by
      rcases hc with hc | hc
      · exact Or.inl hc
      · exact Or.inr hc.2
    refine ⟨hz, ?_⟩
    intro hlen
    have hwg : w.sched.wg = 0 := by
      rcases hz with hz | hz
      · have := h3 hlen; omega
      · exact hz
    have := (C10_wait_sound cfg w.sched (wreach_sched cfg false w hr)).2 hwg
    exact ⟨hwg, this.2.1, this.1⟩

/-- Callers of `Wait` — pending, expired or returned, any number of them — are not part of the state that Start, Stop,
    cancellation or any goroutine of the scheduler reads or writes: a scheduler action is enabled in the layered system
    iff it is enabled on the scheduler state alone, and along EVERY layered trace the scheduler component is exactly the
    run of the scheduler model on the trace's scheduler actions (the waiter actions erased). Every theorem above
    therefore holds unchanged in the presence of waiters. -/
theorem C10_wait_independent (cfg : Cfg) (w : WSt) :
    (∀ a, (wstep cfg false w (.sched a)).isSome = (step cfg w.sched a).isSome) ∧
    (∀ as w', wrun cfg false w as = some w' → run cfg w.sched (schedActs as) = some w'.sched) ∧
    (∀ a w', wstep cfg false w a = some w' → (∀ x, a ≠ .sched x) → w'.sched = w.sched ∧ w'.epoch = w.epoch) := by
  refine ⟨?_, fun as w' h => wrun_sched cfg false as w w' h, ?_⟩
  · intro a
    simp only [wstep]
    cases step cfg w.sched a <;> rfl
  · intro a w' h hne
    cases a <;> simp only [wstep] at h
    case sched x => exact absurd rfl (hne x)
    case waitCall => cases h; exact ⟨rfl, rfl⟩
    case waitWake k =>
      split at h
      · split at h <;> simp at h
        subst h; exact ⟨rfl, rfl⟩
      · cases h
    case waitReturn k =>
      split at h
      · cases h; exact ⟨rfl, rfl⟩
      · cases h
    case waitExpire k =>
      split at h
      · simp at h; subst h; exact ⟨rfl, rfl⟩
      · cases h

/-- The counter is reusable across runs: the error state of the old WaitGroup is unreachable, and a `done` channel
    that is closed stays closed whatever happens next — so a caller left over from an earlier run (blocked, or released
    but not yet returned) is neither broken by a later `Start` nor does it disturb it. -/
theorem C10_wait_reusable (cfg : Cfg) (w : WSt) (hr : WReach cfg false w) :
    w.broken = false ∧
    (∀ e a w', chanClosed w e = true → wstep cfg false w a = some w' → chanClosed w' e = true) ∧
    (∀ e as w', chanClosed w e = true → wrun cfg false w as = some w' → chanClosed w' e = true) := by
  obtain ⟨as0, h0⟩ := hr
  exact ⟨not_broken_run cfg as0 winit w rfl h0, fun e a w' hc h => chanClosed_step cfg false e hc h,
    fun e as w' hc h => chanClosed_run cfg false e as w w' hc h⟩

/-- Negative control — the hazard of the old implementation (sync.WaitGroup + one helper goroutine per `Wait`),
    `old := true`: a `Wait` whose context expired leaves its helper blocked in `wg.Wait()`; after `Stop` and the exit of
    the run the helper is released, and a `Start` issued before it has returned reaches the error state
    ("WaitGroup is reused before previous Wait has returned"). The same calls on the code as it is (`old := false`,
    where the expired caller is simply gone) end with a running scheduler and no error. -/
theorem C10_waitgroup_reuse_hazard :
    (∃ w, wrun (Cfg.std 0) true winit
        [.sched .start, .waitCall, .waitExpire 0, .sched .stop, .sched (.watcherWake 0), .sched (.watcherStop 0),
         .sched (.loopExit 0), .waitWake 0, .sched .start] = some w ∧ w.broken = true) ∧
    (∃ w, wrun (Cfg.std 0) false winit
        [.sched .start, .waitCall, .waitExpire 0, .sched .stop, .sched (.watcherWake 0), .sched (.watcherStop 0),
         .sched (.loopExit 0), .sched .start] = some w ∧ w.broken = false ∧ isStarted (Cfg.std 0) w.sched = true ∧
      w.waiters = [.expired]) := by
  constructor
  · exact ⟨{ sched := { started := true,
                        gens := [{ cancelled := true, watcher := .done, loop := false, workers := 0, jobs := 0 },
                                 { cancelled := false, watcher := .waiting, loop := true, workers := 0, jobs := 0 }],
                        wg := 2 },
             epoch := 2, waiters := [.released], broken := true }, (by decide), rfl⟩
  · exact ⟨{ sched := { started := true,
                        gens := [{ cancelled := true, watcher := .done, loop := false, workers := 0, jobs := 0 },
                                 { cancelled := false, watcher := .waiting, loop := true, workers := 0, jobs := 0 }],
                        wg := 2 },
             epoch := 2, waiters := [.expired], broken := false }, (by decide), rfl, (by decide), rfl⟩

/-! ## the jobs' context -/

/-- `Stop` on a started scheduler cancels the context of the current run (the one its jobs received, fact
    `jobsGetRunCtx`); and in every reachable state the context of every generation other than a started current
    one is cancelled — whichever way that run ended (Stop, cancellation, Start's pre-stop, its watcher). -/
theorem C10_ctx_cancelled_on_stop (cfg : Cfg) (s : St) (hr : Reach cfg s) :
    (s.started = true → ∀ s', step cfg s .stop = some s' → curCancelled s' = true ∧ s'.gens.length = s.gens.length) ∧
    (∀ i g, s.gens[i]? = some g → (i + 1 < s.gens.length ∨ s.started = false) → g.cancelled = true) := by
  have hi := inv_reach cfg s hr
  refine ⟨?_, hi.old_cancelled⟩
  intro hst s' h
  simp only [step] at h; cases h
  exact ⟨curCancelled_stopBody s hst (hi.started_has hst), stopBody_length s⟩

/-! ## the statements for the code as read from the source -/

theorem C10_isStarted_latest_code (n : Nat) (as : List Act) (s : St) (h : run (cfgOfFacts n) init as = some s) :
    isStarted (cfgOfFacts n) s = (expect as).2 := by
  rw [C10_facts.1 n] at h ⊢; exact (C10_isStarted_latest n as s h).1

theorem C10_restart_code (n : Nat) (s s' : St) (as : List Act) (hint : ∀ a ∈ as, a.isInternal = true)
    (h : run (cfgOfFacts n) s (.stop :: .start :: as) = some s') : isStarted (cfgOfFacts n) s' = true := by
  rw [C10_facts.1 n] at h ⊢; exact ((C10_restart n s s' as hint).1 h).1

/-! ## non-vacuity -/

/-- a started scheduler with two workers, a running job and a stale generation whose loop is still alive is reachable -/
example : ∃ s, Reach (Cfg.std 2) s ∧ s.started = true ∧ s.gens.length = 2 ∧ s.wg = 7 ∧ Quiet s :=
  ⟨_, ⟨[.start, .jobSpawn 0, .stop, .start, .watcherWake 0, .watcherStop 0, .workerExit 0, .workerExit 0,
        .jobSpawn 1], rfl⟩, rfl, rfl, rfl, by decide⟩

/-- `expect` on a history with a stale cancellation and a cancel;Start: the last Start wins -/
example : expect [.start, .stop, .start, .cancel 0, .cancel 1, .start, .watcherWake 1] = (3, true) := by decide

/-- `Wait` can return: everything of both generations has exited, wg = 0 -/
example : ∃ s, Reach (Cfg.std 1) s ∧ s.wg = 0 ∧ s.gens.length = 2 :=
  ⟨_, ⟨[.start, .jobSpawn 0, .cancel 0, .start, .stop, .watcherWake 0, .watcherStop 0, .watcherWake 1, .watcherStop 1,
        .loopExit 0, .loopExit 1, .workerExit 0, .workerExit 1, .jobExit 0], rfl⟩, rfl, rfl⟩

/-- `C10_wait_returns_at_zero` is not vacuous: a caller blocked since run 1 is woken after that run has drained -/
example : ∃ w w', WReach (Cfg.std 0) false w ∧ w.waiters[0]? = some (.blocked 1 1) ∧
    wstep (Cfg.std 0) false w (.waitWake 0) = some w' ∧ w.sched.gens.length = 1 :=
  ⟨_, _, ⟨[.sched .start, .waitCall, .sched .stop, .sched (.watcherWake 0), .sched (.watcherStop 0),
           .sched (.loopExit 0)], rfl⟩, by decide, rfl, by decide⟩

/-- …and a caller of run 1 that is woken only after run 2 has begun (its epoch ended: `e < epoch`, counter not zero) -/
example : ∃ w w', WReach (Cfg.std 0) false w ∧ w.waiters[0]? = some (.blocked 1 1) ∧
    wstep (Cfg.std 0) false w (.waitWake 0) = some w' ∧ w.sched.wg = 2 ∧ w.epoch = 2 :=
  ⟨_, _, ⟨[.sched .start, .waitCall, .sched .stop, .sched (.watcherWake 0), .sched (.watcherStop 0),
           .sched (.loopExit 0), .sched .start], rfl⟩, by decide, rfl, by decide, by decide⟩

/-- the hypotheses of `C10_cancel_eq_stop` are satisfiable -/
example : ∃ s sc ss, Reach (Cfg.std 0) s ∧ s.started = true ∧
    step (Cfg.std 0) s (.cancel (s.gens.length - 1)) = some sc ∧ step (Cfg.std 0) s .stop = some ss :=
  ⟨_, _, _, ⟨[.start], rfl⟩, rfl, rfl, rfl⟩

end Lifecycle
