import QuartzModel.Sched.Model
import QuartzModel.Sched.History
import QuartzModel.Theorems.C11
import QuartzModel.Proofs.SchedLemmas
/-!
# C08 — PauseJob / DeleteJob / Clear stop the consumption of fire times; ResumeJob restarts from now

"Once PauseJob, DeleteJob or Clear has returned successfully the scheduler consumes no further fire
time of the affected job; a paused job stays listed, marked paused, with its trigger intact, and
ResumeJob re-activates it with a fire time computed from the moment of resumption."

"Consumes a fire time" = asks the job's trigger (a `TrigCall` with the job's tag) or dispatches the job.
Steps may happen at any clock reading, in any interleaving (see `Sched/History.lean`).
-/
namespace Sched
open Queue

/-! ## the immediate effect of the calls -/

/-- A successful `PauseJob`: the entry stays in the registry under its key, now marked suspended, with
the sentinel priority `maxInt64`, the same tag (= the same trigger object and job detail), every other
entry and every trigger object untouched; it is listed by `GetJobKeys` with the "suspended" matcher. -/
theorem C08_pause_effect (s : SState) (hk : Bool) (g n : String) (h : Inv s.q)
    (hok : (pause s hk g n).2 = none) :
    ∃ e, e ∈ s.q.toList ∧ e.group = g ∧ e.name = n ∧ e.suspended = false ∧
      getJob (pause s hk g n).1 true g n =
        .ok { e with prio := maxInt64, suspended := true } ∧
      (pause s hk g n).1.q.toList.Perm
        ({ e with prio := maxInt64, suspended := true } :: s.q.toList.erase e) ∧
      (pause s hk g n).1.trigs = s.trigs ∧
      (g, n) ∈ jobKeys (pause s hk g n).1 [.status true] ∧
      Inv (pause s hk g n).1.q := by
  cases hk with
  | false => rw [pause_nokey] at hok; cases hok
  | true =>
    by_cases hkey : hasKey s.q g n
    · obtain ⟨e, hq, he, hg, hn⟩ := qget_spec s.q h g n hkey
      cases hs : e.suspended with
      | true => rw [pause_suspended s g n e hq hs] at hok; cases hok
      | false =>
        obtain ⟨q1, _, hperm, _, _, hinv2, hp⟩ := pause_active s g n e h hq hs
        rw [hp]
        have hmem : pausedOf e ∈ (hpush q1 (pausedOf e)).toList :=
          (hpush_perm _ _).mem_iff.mpr List.mem_cons_self
        refine ⟨e, he, hg, hn, hs, ?_, ?_, rfl, ?_, hinv2⟩
        · unfold getJob
          simp only [Bool.not_true, Bool.false_eq_true, if_false]
          rw [((C11_get _ hinv2 g n).1 (pausedOf e)).mpr ⟨hmem, hg, hn⟩]
          rfl
        · exact (hpush_perm _ _).trans (List.Perm.cons _ (perm_erase_of_cons hperm).symm)
        · unfold jobKeys
          rw [List.mem_map]
          refine ⟨pausedOf e, ?_, by rw [← hg, ← hn]; rfl⟩
          rw [C11_list_exact]
          refine ⟨hmem, ?_⟩
          intro m hm
          rw [List.mem_singleton] at hm
          subst hm
          rfl
    · rw [pause_missing s g n h hkey] at hok; cases hok

/-- A successful `ResumeJob` at clock reading `now`: exactly one trigger call, made with `prev = now`;
the entry is active again with the trigger's answer as its fire time; same tag; everything else
untouched. -/
theorem C08_resume_from_now (s : SState) (now : Int) (hk : Bool) (g n : String) (h : Inv s.q)
    (hok : (resume s now hk g n).2.1 = none) :
    ∃ e p, e ∈ s.q.toList ∧ e.group = g ∧ e.name = n ∧ e.suspended = true ∧
      ((s.trig e.tag).fire now).1 = some p ∧
      (resume s now hk g n).2.2 = [⟨e.tag, now, some p⟩] ∧
      getJob (resume s now hk g n).1 true g n = .ok { e with prio := p, suspended := false } ∧
      (resume s now hk g n).1.q.toList.Perm
        ({ e with prio := p, suspended := false } :: s.q.toList.erase e) ∧
      (resume s now hk g n).1.trig e.tag = ((s.trig e.tag).fire now).2 ∧
      (∀ t, t ≠ e.tag → (resume s now hk g n).1.trig t = s.trig t) ∧
      Inv (resume s now hk g n).1.q := by
  cases hk with
  | false => rw [resume_nokey] at hok; cases hok
  | true =>
    by_cases hkey : hasKey s.q g n
    · obtain ⟨e, hq, he, hg, hn⟩ := qget_spec s.q h g n hkey
      cases hs : e.suspended with
      | false => rw [resume_active s now g n e hq hs] at hok; cases hok
      | true =>
        cases hf : ((s.trig e.tag).fire now).1 with
        | none => rw [resume_trigger_error s now g n e hq hs hf] at hok; cases hok
        | some p =>
          obtain ⟨q1, _, hperm, _, _, hinv2, hp⟩ := resume_ok s now g n e p h hq hs hf
          rw [hp]
          have hmem : resumedOf e p ∈ (hpush q1 (resumedOf e p)).toList :=
            (hpush_perm _ _).mem_iff.mpr List.mem_cons_self
          refine ⟨e, p, he, hg, hn, hs, hf, rfl, ?_, ?_, ?_, ?_, hinv2⟩
          · unfold getJob
            simp only [Bool.not_true, Bool.false_eq_true, if_false]
            rw [((C11_get _ hinv2 g n).1 (resumedOf e p)).mpr ⟨hmem, hg, hn⟩]
            rfl
          · exact (hpush_perm _ _).trans (List.Perm.cons _ (perm_erase_of_cons hperm).symm)
          · exact trig_setTrig_same _ _ _
          · intro t ht
            exact trig_setTrig_other _ _ _ _ ht
    · rw [resume_missing s now g n h hkey] at hok; cases hok


/-! ## no further consumption -/

/-- After a successful `PauseJob` — for ANY continuation made of loop steps at arbitrary clock readings
and API calls on other keys (`Ev.touches g n = false`; `Clear` counts as touching every key) — the
scheduler never asks the paused job's trigger and never dispatches the job; the entry stays in the
registry exactly as `PauseJob` left it (listed, suspended, same tag) and its trigger object keeps its
state.  `hwf`: the state is well-formed (true of every reachable state, `run_wf`); `FreshTags` /
`FreshFor`: trigger objects handed to later `ScheduleJob` calls are new ones. -/
theorem C08_paused_no_consumption (thr : Int) (s : SState) (hk : Bool) (g n : String) (hwf : WF s)
    (hok : (pause s hk g n).2 = none) :
    ∃ e, e ∈ s.q.toList ∧ e.group = g ∧ e.name = n ∧ e.suspended = false ∧
      ∀ evs : List Ev, (∀ ev ∈ evs, ev.touches g n = false) → FreshTags evs →
        FreshFor (pause s hk g n).1 evs →
        (∀ o ∈ (run thr (pause s hk g n).1 evs).2, o.noConsume e.tag) ∧
        pausedOf e ∈ (run thr (pause s hk g n).1 evs).1.q.toList ∧
        getJob (run thr (pause s hk g n).1 evs).1 true g n = .ok (pausedOf e) ∧
        (g, n) ∈ jobKeys (run thr (pause s hk g n).1 evs).1 [.status true] ∧
        (run thr (pause s hk g n).1 evs).1.trig e.tag = s.trig e.tag := by
  obtain ⟨e, he, hg, hn, hs, _, hperm, htr, _, _⟩ := C08_pause_effect s hk g n hwf.inv hok
  refine ⟨e, he, hg, hn, hs, ?_⟩
  intro evs hnt hft hff
  -- the pause is an event of the history language
  have hkind : Kind thr s (.pause hk g n) (pause s hk g n).1 { err := (pause s hk g n).2 } :=
    apply_kind thr s hwf.wf0 (.pause hk g n)
  have hwf' : WF (pause s hk g n).1 := kind_wf hwf (fun t ht => by cases ht) hkind
  have hpe : pausedOf e ∈ (pause s hk g n).1.q.toList := hperm.mem_iff.mpr List.mem_cons_self
  have hnt' : ∀ ev ∈ evs, ev.touches (pausedOf e).group (pausedOf e).name = false := by
    intro ev hev
    show ev.touches e.group e.name = false
    rw [hg, hn]; exact hnt ev hev
  obtain ⟨h1, h2, h3⟩ := run_paused thr evs _ hwf' hft hff (pausedOf e) hpe rfl hnt'
  have hinv := (run_wf thr evs _ hwf' hft hff).inv
  refine ⟨h2, h1, ?_, ?_, ?_⟩
  · unfold getJob
    simp only [Bool.not_true, Bool.false_eq_true, if_false]
    rw [((C11_get _ hinv g n).1 (pausedOf e)).mpr ⟨h1, hg, hn⟩]
  · unfold jobKeys
    rw [List.mem_map]
    refine ⟨pausedOf e, ?_, by rw [← hg, ← hn]; rfl⟩
    rw [C11_list_exact]
    refine ⟨h1, ?_⟩
    intro m hm
    rw [List.mem_singleton] at hm
    subst hm
    rfl
  · have : (pause s hk g n).1.trig e.tag = s.trig e.tag := by unfold SState.trig; rw [htr]
    rw [← this]; exact h3

/-- After a successful `DeleteJob` the entry is gone (everything else stays) and for ANY continuation
in which that trigger object is not handed to `ScheduleJob` again, no step ever pops, asks or dispatches
it. -/
theorem C08_delete_effect (thr : Int) (s : SState) (hk : Bool) (g n : String) (hwf : WF s)
    (hok : (delete s hk g n).2 = none) :
    ∃ e, e ∈ s.q.toList ∧ e.group = g ∧ e.name = n ∧
      ¬ hasKey (delete s hk g n).1.q g n ∧
      (delete s hk g n).1.q.toList.Perm (s.q.toList.erase e) ∧
      ∀ evs : List Ev, e.tag ∉ schedTags evs →
        (∀ o ∈ (run thr (delete s hk g n).1 evs).2, o.quiet e.tag ∧ o.noConsume e.tag) ∧
        AbsentTag e.tag (run thr (delete s hk g n).1 evs).1 := by
  cases hk with
  | false => rw [delete_nokey] at hok; cases hok
  | true =>
    by_cases hkey : hasKey s.q g n
    · obtain ⟨q1, e, _, hg, hn, he, hperm, hinv, hnk, hd⟩ := delete_present s g n hwf.inv hkey
      rw [hd]
      refine ⟨e, he, hg, hn, hnk, (perm_erase_of_cons hperm).symm, ?_⟩
      intro evs hns
      have hwf0 : WF0 ({ s with q := q1 } : SState) :=
        ⟨hinv, fun x hx hs => hwf.susp x ((mem_rest_iff hwf.inv hperm x).mp hx).1 hs⟩
      have habs : AbsentTag e.tag ({ s with q := q1 } : SState) := by
        intro x hx hxt
        obtain ⟨h1, h2⟩ := (mem_rest_iff hwf.inv hperm x).mp hx
        exact h2 (hwf.tags x h1 e he hxt)
      obtain ⟨h1, h2⟩ := run_absent thr e.tag evs _ hwf0 habs hns
      exact ⟨fun o ho => ⟨h2 o ho, quiet_noConsume (h2 o ho)⟩, h1⟩
    · rw [delete_missing s g n hwf.inv hkey] at hok; cases hok

/-- After `Clear` the registry is empty and for ANY continuation no step ever pops, asks or dispatches
any of the jobs that were in it (as long as their trigger objects are not scheduled again). -/
theorem C08_clear_effect (thr : Int) (s : SState) :
    (clear s).q = #[] ∧ jobKeys (clear s) [] = [] ∧
    ∀ e ∈ s.q.toList, ∀ evs : List Ev, e.tag ∉ schedTags evs →
      (∀ o ∈ (run thr (clear s) evs).2, o.quiet e.tag ∧ o.noConsume e.tag) ∧
      AbsentTag e.tag (run thr (clear s) evs).1 := by
  refine ⟨rfl, rfl, ?_⟩
  intro e _ evs hns
  have hwf0 : WF0 (clear s) := ⟨inv_empty, fun x hx => by simp [clear] at hx⟩
  have habs : AbsentTag e.tag (clear s) := fun x hx => by simp [clear] at hx
  obtain ⟨h1, h2⟩ := run_absent thr e.tag evs _ hwf0 habs hns
  exact ⟨fun o ho => ⟨h2 o ho, quiet_noConsume (h2 o ho)⟩, h1⟩


/-! ## the same, for histories from the empty scheduler (`FreshTags` is the only assumption) -/

/-- history `evs1 ++ [PauseJob g n] ++ evs2` from the empty scheduler, the pause succeeds, `evs2` leaves
the key alone: nothing of the job is consumed during `evs2`, and it is still listed as paused after it -/
theorem C08_paused_no_consumption_reachable (thr : Int) (evs1 evs2 : List Ev) (hk : Bool) (g n : String)
    (hft : FreshTags (evs1 ++ .pause hk g n :: evs2))
    (hok : (pause (run thr {} evs1).1 hk g n).2 = none)
    (hnt : ∀ ev ∈ evs2, ev.touches g n = false) :
    ∃ e, e ∈ (run thr {} evs1).1.q.toList ∧ e.group = g ∧ e.name = n ∧ e.suspended = false ∧
      (∀ o ∈ (run thr (pause (run thr {} evs1).1 hk g n).1 evs2).2, o.noConsume e.tag) ∧
      getJob (run thr {} (evs1 ++ .pause hk g n :: evs2)).1 true g n = .ok (pausedOf e) ∧
      (g, n) ∈ jobKeys (run thr {} (evs1 ++ .pause hk g n :: evs2)).1 [.status true] ∧
      (run thr {} (evs1 ++ .pause hk g n :: evs2)).1.trig e.tag = (run thr {} evs1).1.trig e.tag := by
  obtain ⟨hwf, h2, h3, _⟩ := reachable_split thr evs1 (.pause hk g n) evs2 hft
  obtain ⟨e, he, hg, hn, hs, hall⟩ := C08_paused_no_consumption thr _ hk g n hwf hok
  obtain ⟨a1, _, a3, a4, a5⟩ := hall evs2 hnt h2 h3
  have hrun : (run thr {} (evs1 ++ .pause hk g n :: evs2)).1 =
      (run thr (pause (run thr {} evs1).1 hk g n).1 evs2).1 := by
    rw [run_append, run_cons]; rfl
  rw [hrun]
  exact ⟨e, he, hg, hn, hs, a1, a3, a4, a5⟩

theorem C08_delete_effect_reachable (thr : Int) (evs1 evs2 : List Ev) (hk : Bool) (g n : String)
    (hft : FreshTags (evs1 ++ .delete hk g n :: evs2))
    (hok : (delete (run thr {} evs1).1 hk g n).2 = none) :
    ∃ e, e ∈ (run thr {} evs1).1.q.toList ∧ e.group = g ∧ e.name = n ∧
      (∀ o ∈ (run thr (delete (run thr {} evs1).1 hk g n).1 evs2).2, o.quiet e.tag ∧ o.noConsume e.tag) ∧
      AbsentTag e.tag (run thr {} (evs1 ++ .delete hk g n :: evs2)).1 := by
  obtain ⟨hwf, _, _, h4⟩ := reachable_split thr evs1 (.delete hk g n) evs2 hft
  obtain ⟨e, he, hg, hn, _, _, hall⟩ := C08_delete_effect thr _ hk g n hwf hok
  obtain ⟨a1, a2⟩ := hall evs2 (h4 e he)
  have hrun : (run thr {} (evs1 ++ .delete hk g n :: evs2)).1 =
      (run thr (delete (run thr {} evs1).1 hk g n).1 evs2).1 := by
    rw [run_append, run_cons]; rfl
  rw [hrun]
  exact ⟨e, he, hg, hn, a1, a2⟩

theorem C08_clear_effect_reachable (thr : Int) (evs1 evs2 : List Ev)
    (hft : FreshTags (evs1 ++ .clear :: evs2)) :
    ∀ e ∈ (run thr {} evs1).1.q.toList,
      (∀ o ∈ (run thr (clear (run thr {} evs1).1) evs2).2, o.quiet e.tag ∧ o.noConsume e.tag) ∧
      AbsentTag e.tag (run thr {} (evs1 ++ .clear :: evs2)).1 := by
  obtain ⟨_, _, _, h4⟩ := reachable_split thr evs1 .clear evs2 hft
  intro e he
  obtain ⟨a1, a2⟩ := (C08_clear_effect thr (run thr {} evs1).1).2.2 e he evs2 (h4 e he)
  have hrun : (run thr {} (evs1 ++ .clear :: evs2)).1 =
      (run thr (clear (run thr {} evs1).1) evs2).1 := by
    rw [run_append, run_cons]; rfl
  rw [hrun]
  exact ⟨a1, a2⟩

/-! ## "ResumeJob re-activates it" at full strength — FALSE for a run-once job paused before its fire time

`C08_resume_from_now` describes every SUCCESSFUL `ResumeJob`. The property's sentence promises more: a paused job
can be re-activated. `ScheduleJob` has already asked a `RunOnceTrigger` for its single fire time; `PauseJob` parks the
entry; `ResumeJob` asks the trigger again "from the moment of resumption" and gets the trigger's own error. The call
fails, the registry is unchanged (C09), and the job stays paused for ever although it never ran. Recorded as known
finding `paused-run-once` (the harness replays the witness on the real code in every run). -/

/-- full strength: whenever a job is listed as paused, `ResumeJob` succeeds -/
def ResumeAlwaysReactivates (s : SState) (now : Int) (g n : String) : Prop :=
  (∃ e ∈ s.q.toList, e.group = g ∧ e.name = n ∧ e.suspended = true) → (resume s now true g n).2.1 = none

def exOnce : SchedArgs := { group := "g", name := "once", tag := 9, trig := some (.runOnce 3600 false) }

/-- schedule a run-once job (fire time 0 + 3600), pause it at once -/
def exPausedOnce : SState := (run 5 {} [.schedule 0 exOnce, .pause true "g" "once"]).1

theorem exPausedOnce_listed : exPausedOnce.q.toList.map (fun e => (e.name, e.prio, e.suspended)) =
    [("once", maxInt64, true)] := by decide +kernel

/-- `ResumeJob` answers the trigger's error and leaves everything as it was -/
theorem exPausedOnce_resume : (resume exPausedOnce 10 true "g" "once").2.1 = some .triggerError ∧
    (resume exPausedOnce 10 true "g" "once").1.q.toList.map (fun e => (e.name, e.prio, e.suspended)) =
      [("once", maxInt64, true)] := by decide +kernel

/-- **the full-strength clause does not hold** (known finding `paused-run-once`) -/
theorem C08_resume_run_once_fails : ¬ ResumeAlwaysReactivates exPausedOnce 10 "g" "once" := by
  intro h
  have hl := exPausedOnce_listed
  have hr := exPausedOnce_resume.1
  have : (resume exPausedOnce 10 true "g" "once").2.1 = none := by
    apply h
    have : ∃ e ∈ exPausedOnce.q.toList, (e.name, e.prio, e.suspended) = ("once", maxInt64, true) ∧ e.group = "g" := by
      decide +kernel
    obtain ⟨e, he, h1, h2⟩ := this
    refine ⟨e, he, h2, ?_, ?_⟩
    · exact congrArg (·.1) h1
    · exact congrArg (·.2.2) h1
  rw [this] at hr
  cases hr

/-! ## non-vacuity -/
namespace C08Ex

def exA : SchedArgs := { group := "g", name := "a", tag := 1, trig := some (.simple 10) }
def exB : SchedArgs := { group := "g", name := "b", tag := 2, trig := some (.simple 7) }
def exNew : SchedArgs := { group := "g", name := "c", tag := 3, trig := some (.fixed 40) }

def exPre : List Ev := [.schedule 0 exA, .schedule 1 exB]
/-- after pausing `g/a`: steps at assorted (non-monotone) times, a new job, a pause/resume of the other job -/
def exPost : List Ev :=
  [.step 8, .step 50, .step 9, .schedule 20 exNew, .pause true "g" "b", .step 100, .resume 30 true "g" "b",
   .step 37, .delete true "g" "c"]

-- hypotheses of `C08_paused_no_consumption_reachable` / `C08_pause_effect`
example : FreshTags (exPre ++ .pause true "g" "a" :: exPost) := by decide
example : (pause (run 5 {} exPre).1 true "g" "a").2 = none := by decide +kernel
example : ∀ ev ∈ exPost, ev.touches "g" "a" = false := by decide
-- ... and the other job does get consumed meanwhile, so the statement is not trivially true
example : ((run 5 (pause (run 5 {} exPre).1 true "g" "a").1 exPost).2.map (fun o => o.calls.map (·.tag))) =
    [[2], [2], [], [3], [], [3], [2], [2], []] := by decide +kernel
example : ((run 5 {} (exPre ++ .pause true "g" "a" :: exPost)).1.q.toList.map
      (fun e => (e.name, e.prio, e.suspended, e.tag))) =
    [("b", 44, false, 2), ("a", maxInt64, true, 1)] := by decide +kernel
-- `C08_resume_from_now`: resumed at 30, the simple trigger (interval 7) answers 37 = 30 + 7
example : (resume (run 5 {} (exPre ++ [.pause true "g" "b"])).1 30 true "g" "b").2 =
    (none, [⟨2, 30, some 37⟩]) := by decide +kernel
-- `C08_delete_effect_reachable` / `C08_clear_effect_reachable`
example : FreshTags (exPre ++ .delete true "g" "a" :: exPost) ∧
    (delete (run 5 {} exPre).1 true "g" "a").2 = none := ⟨by decide, by decide +kernel⟩
example : FreshTags (exPre ++ .clear :: exPost) ∧ (run 5 {} exPre).1.q.size = 2 :=
  ⟨by decide, by decide +kernel⟩

-- hypotheses of the general-state versions (`C08_paused_no_consumption`, `C08_delete_effect`)
example : WF (run 5 {} exPre).1 := run_wf 5 _ {} wf_empty (by decide) (freshFor_empty _)
example : FreshFor (pause (run 5 {} exPre).1 true "g" "a").1 exPost := by
  unfold FreshFor; decide +kernel
example : (1 : Nat) ∉ schedTags exPost := by decide

end C08Ex

end Sched
