import QuartzModel.Generated.Facts
import QuartzModel.Queue.JobQueue
/-!
# The queue model is the queue of the source (C11, also C09 "keyed by (group, name)")

Pins, against the source text read on this run: the heap order (`Less` is `<` on the priority), key
equality (name AND group, field by field — not a rendering), which container/heap function each
`jobQueue` method uses (`Push`: `heap.Remove` then `heap.Push`; `Pop`: `heap.Pop`; `Remove`:
`heap.Remove`; the others none), the all-matchers filter, the bindings of the four string operators
and the status predicate. The model's counterparts: `prioAt a j < prioAt a i` in `up`/`down`,
`Entry.sameKey`, `qpush`/`qpop`/`qremove`, `qlist`, `StrOp.apply`, `Matcher.isMatch`.
-/
namespace Queue

theorem less_fact : Generated.Queue.less = "pq[i].priority < pq[j].priority" := by decide
theorem keyEquals_fact :
    Generated.Queue.keyEquals = "jobKey.name == that.name && jobKey.group == that.group" := by decide
theorem heapCalls_fact :
    Generated.Queue.heapCalls =
      [("Clear", ""), ("Get", ""), ("Head", ""), ("Pop", "heap.Pop"), ("Push", "heap.Remove,heap.Push"),
       ("Remove", "heap.Remove"), ("Size", "")] := by decide
theorem operators_fact :
    Generated.Queue.operators =
      [("StringContains", "strings.Contains"), ("StringEndsWith", "strings.HasSuffix"),
       ("StringEquals", "stringsEqual"), ("StringStartsWith", "strings.HasPrefix")] ∧
    Generated.Queue.stringsEqual = "source == target" := by decide
theorem matchers_fact :
    Generated.Queue.statusIsMatch = "job.JobDetail().Options().Suspended == s.Suspended" ∧
    Generated.Queue.nameIsMatch = "(*n.Operator)(job.JobDetail().JobKey().Name(), n.Pattern)" ∧
    Generated.Queue.groupIsMatch = "(*g.Operator)(job.JobDetail().JobKey().Group(), g.Pattern)" ∧
    Generated.Queue.filterBody = "{ if !matcher.IsMatch(job) { continue JobLoop } }" := by decide

end Queue
