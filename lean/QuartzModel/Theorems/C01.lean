import QuartzModel.Proofs.CronAssembly
/-!
# C01 — `NextFireTime` is sound

For a well-formed expression and a fixed-offset location (UTC / `time.FixedZone`), every value
returned by the model of `CronTrigger.NextFireTime` is a whole second strictly after `prev` whose
civil reading in that location satisfies the expression — including the day rules (L, L-k, dW, LW,
wL, w#k) and the "this date exists" clauses, so an impossible date (Feb 30, Apr 31) is never rolled
over into the following month. Helpers are in `Proofs/CronAssembly.lean`.
-/
namespace Cron
open Cal Odo

/-- soundness: a returned value is a whole second strictly after prev whose civil reading in the
    fixed-offset location satisfies the expression (incl. day rules; impossible dates are never
    rolled over) -/
theorem C01_sound (f : Fields) (hwf : WellFormed f = true) (c prev : Int)
    (hc : -100000 ≤ c ∧ c ≤ 100000) (hp : -9223372036854775808 ≤ prev)
    (r : Int) (h : nextFire {} f (fixedZone c) prev = .ok r) :
    r % 1000000000 = 0 ∧ prev < r ∧ Matches f (Civil.ofSeconds (r / 1000000000 + c)) := by
  obtain ⟨t, ht, rfl⟩ := nextFire_ok f hwf c prev hc hp r h
  obtain ⟨hm, hlt, _⟩ := csmNext_spec_some f hwf _ t ht
  obtain ⟨hwv, hws⟩ := wall0_valid c prev hc hp
  have hv := matches_valid f t hm
  have hsec := (Civil.toSeconds_lt_iff _ t hwv hv).mpr hlt
  refine ⟨by omega, by omega, ?_⟩
  have e : (t.toSeconds - c) * 1000000000 / 1000000000 + c = t.toSeconds := by omega
  rw [e, Civil.ofSeconds_toSeconds t hv]
  exact hm

/-! ## Non-vacuity -/

/-- `0 0 12 * * ?` — every day at noon -/
def exNoon : Fields :=
  { sec := ⟨[0], 0⟩, min := ⟨[0], 0⟩, hour := ⟨[12], 0⟩, dom := ⟨[], 0⟩, month := ⟨[], 0⟩,
    dow := ⟨[], 0⟩, year := ⟨[], 0⟩ }

/-- `0 0 0 31 * ?` — midnight on the 31st (months without a 31st are skipped, not rolled over) -/
def ex31st : Fields :=
  { sec := ⟨[0], 0⟩, min := ⟨[0], 0⟩, hour := ⟨[0], 0⟩, dom := ⟨[31], 0⟩, month := ⟨[], 0⟩,
    dow := ⟨[], 0⟩, year := ⟨[], 0⟩ }

theorem exNoon_wf : WellFormed exNoon = true := by decide
theorem ex31st_wf : WellFormed ex31st = true := by decide

/-- from the epoch, UTC: 1970-01-01T12:00:00Z -/
theorem exNoon_first : nextFire {} exNoon (fixedZone 0) 0 = .ok 43200000000000 := by decide +kernel

/-- from 1970-02-01T00:00:00Z (2678400 s): February has no 31st, the result is 1970-03-31T00:00:00Z -/
theorem ex31st_feb : nextFire {} ex31st (fixedZone 0) 2678400000000000 = .ok 7689600000000000 := by
  decide +kernel

/-- the hypotheses of `C01_sound` are satisfiable, and its conclusion on the instance -/
example : (43200000000000 : Int) % 1000000000 = 0 ∧ (0 : Int) < 43200000000000 ∧
    Matches exNoon (Civil.ofSeconds (43200000000000 / 1000000000 + 0)) :=
  C01_sound exNoon exNoon_wf 0 0 (by omega) (by omega) _ exNoon_first

example : Civil.ofSeconds (7689600000000000 / 1000000000 + 0) = ⟨1970, 3, 31, 0, 0, 0⟩ := by
  decide +kernel

example : Matches ex31st ⟨1970, 3, 31, 0, 0, 0⟩ := by
  have h := (C01_sound ex31st ex31st_wf 0 2678400000000000 (by omega) (by omega) _ ex31st_feb).2.2
  have e : Civil.ofSeconds (7689600000000000 / 1000000000 + 0) = ⟨1970, 3, 31, 0, 0, 0⟩ := by
    decide +kernel
  rw [e] at h
  exact h

/-- a fixed offset east of UTC (+02:00): 12:00 local is 10:00 UTC -/
example : nextFire {} exNoon (fixedZone 7200) 0 = .ok 36000000000000 := by decide +kernel

/-! ### a `prev` before 1970 (negative): the hypothesis on `prev` is only "an int64 value" -/

/-- `* * * * * ?` — every second -/
def exEvery : Fields :=
  { sec := ⟨[], 0⟩, min := ⟨[], 0⟩, hour := ⟨[], 0⟩, dom := ⟨[], 0⟩, month := ⟨[], 0⟩,
    dow := ⟨[], 0⟩, year := ⟨[], 0⟩ }

theorem exEvery_wf : WellFormed exEvery = true := by decide

/-- prev = half a second before the epoch: its second is the floor `-1`, the next second is the epoch
    itself (truncation towards zero would answer 1 s) -/
theorem exEvery_neg : nextFire {} exEvery (fixedZone 0) (-500000000) = .ok 0 := by decide +kernel

/-- prev = one day and 1 ns before the epoch: the answer is 1969-12-31T12:00:00Z, itself negative -/
theorem exNoon_neg : nextFire {} exNoon (fixedZone 0) (-86400000000001) = .ok (-43200000000000) := by
  decide +kernel

/-- `C01_sound` at a negative `prev` -/
example : (0 : Int) % 1000000000 = 0 ∧ (-500000000 : Int) < 0 ∧
    Matches exEvery (Civil.ofSeconds (0 / 1000000000 + 0)) :=
  C01_sound exEvery exEvery_wf 0 (-500000000) (by omega) (by omega) _ exEvery_neg

example : Matches exNoon (Civil.ofSeconds (-43200000000000 / 1000000000 + 0)) :=
  (C01_sound exNoon exNoon_wf 0 (-86400000000001) (by omega) (by omega) _ exNoon_neg).2.2

example : Civil.ofSeconds (-43200000000000 / 1000000000 + 0) = ⟨1969, 12, 31, 12, 0, 0⟩ := by
  decide +kernel

end Cron
