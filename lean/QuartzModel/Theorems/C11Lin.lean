import QuartzModel.Concurrency.Lock
import QuartzModel.Theorems.C11
import QuartzModel.Generated.Facts
/-!
# C11, "thread-safe": every concurrent history of calls on the default queue is equivalent to a
sequential order of the calls, and the queue a thread finds when it gets the lock is a heap with unique keys

`Lock.linearizable` (threads whose multi-step bodies run entirely under one mutex, ANY schedule) is
instantiated with the methods of `jobQueue`. Its premise for the real code is regenerated from
`quartz/queue.go` on every run (`Generated.Queue.lockShape` …): every exported method of `jobQueue` is
`jq.mtx.Lock(); defer jq.mtx.Unlock(); …`, mentions the mutex nowhere else, starts no goroutine and builds
no closure; the heap array `delegate` is touched by those methods and by the helper `scheduledJobs` only,
and that helper is called by locked methods only.

`Push` is modelled as a body of three micro-steps (search, `heap.Remove`, `heap.Push`) — the places where a
missing lock would let another thread in; `pushOp_run` shows that the uninterrupted body is `qpush`.
-/
namespace Queue
open Lock

/-! ## the regenerated premise -/

/-- every exported method of the default queue runs under the queue's mutex from its first statement to its return -/
theorem C11_queue_lock_facts :
    Generated.Queue.lockShape =
      [("Clear", "locked"), ("Get", "locked"), ("Head", "locked"), ("Pop", "locked"), ("Push", "locked"),
       ("Remove", "locked"), ("ScheduledJobs", "locked"), ("Size", "locked")] := by decide

/-- the heap array is touched by the queue's own methods only (no `!` entry), and the one unlocked helper among them is
called by locked methods only -/
theorem C11_queue_array_confined :
    Generated.Queue.delegateUsers =
      ["Clear", "Get", "Head", "Pop", "Push", "Remove", "ScheduledJobs", "Size", "scheduledJobs"] ∧
    Generated.Queue.helperCallers = [("scheduledJobs", "Push,Remove,ScheduledJobs")] ∧
    Generated.Queue.queueMethodSet =
      ["Clear", "Get", "Head", "Pop", "Push", "Remove", "ScheduledJobs", "Size", "scheduledJobs"] := by decide

/-! ## calls, results, bodies -/

inductive QCall where
  | push (e : Entry) | pop | head | get (g n : String) | remove (g n : String)
  | list (ms : List Matcher) | size | clear
deriving Repr

inductive QRes where
  | ok | err (e : QErr) | entry (e : Entry) | entries (l : List Entry) | size (n : Nat)
deriving DecidableEq, Repr

/-- the sequential specification: one call on the queue model -/
def qcall (a : Arr) : QCall → Arr × QRes
  | .push e => match qpush a e with | .ok a' => (a', .ok) | .error x => (a, .err x)
  | .pop => match qpop a with | .ok (a', e) => (a', .entry e) | .error x => (a, .err x)
  | .head => match qhead a with | .ok e => (a, .entry e) | .error x => (a, .err x)
  | .get g n => match qget a g n with | .ok e => (a, .entry e) | .error x => (a, .err x)
  | .remove g n => match qremove a g n with | .ok (a', e) => (a', .entry e) | .error x => (a, .err x)
  | .list ms => (a, .entries (qlist a ms))
  | .size => (a, .size a.size)
  | .clear => (#[], .ok)

structure QLoc where
  res : QRes := .ok
  idx : Option Nat := none
  stop : Bool := false

/-- `jobQueue.Push`, statement by statement: the linear search, `heap.Remove` (or the early return), `heap.Push` -/
def pushSteps (e : Entry) : List (Arr → QLoc → Arr × QLoc) :=
  [ fun a l => (a, { l with idx := findIdx a e.group e.name }),
    fun a l => match l.idx with
      | some i => if e.replace then ((hremove a i).1, l) else (a, { l with res := .err .jobAlreadyExists, stop := true })
      | none => (a, l),
    fun a l => if l.stop then (a, l) else (hpush a e, l) ]

def single (c : QCall) : List (Arr → QLoc → Arr × QLoc) :=
  [fun a l => ((qcall a c).1, { l with res := (qcall a c).2 })]

def qcallOp : QCall → Lock.Op Arr QLoc QRes
  | .push e => { init := {}, result := fun l => l.res, steps := pushSteps e }
  | c => { init := {}, result := fun l => l.res, steps := single c }

/-- the three-statement body of Push, run without interruption, is `qpush` -/
theorem pushOp_run (a : Arr) (e : Entry) : (qcallOp (.push e)).run a = qcall a (.push e) := by
  simp only [qcallOp, Lock.Op.run, runSteps, pushSteps, List.foldl, qcall, qpush]
  cases h : findIdx a e.group e.name with
  | none => simp
  | some i =>
    by_cases hr : e.replace = true
    · simp [hr]
    · simp [hr]

/-- every body, run without interruption, is the sequential specification -/
theorem qcallOp_run (a : Arr) (c : QCall) : (qcallOp c).run a = qcall a c := by
  cases c with
  | push e => exact pushOp_run a e
  | pop => simp [qcallOp, single, Lock.Op.run, runSteps]
  | head => simp [qcallOp, single, Lock.Op.run, runSteps]
  | get g n => simp [qcallOp, single, Lock.Op.run, runSteps]
  | remove g n => simp [qcallOp, single, Lock.Op.run, runSteps]
  | list ms => simp [qcallOp, single, Lock.Op.run, runSteps]
  | size => simp [qcallOp, single, Lock.Op.run, runSteps]
  | clear => simp [qcallOp, single, Lock.Op.run, runSteps]

/-- the queue after running the calls `order` one after another -/
def seqQueue (calls : Nat → QCall) (a0 : Arr) (order : List Nat) : Arr :=
  order.foldl (fun a i => (qcall a (calls i)).1) a0

theorem seqState_eq (calls : Nat → QCall) (a0 : Arr) (order : List Nat) :
    seqState (fun i => qcallOp (calls i)) a0 order = seqQueue calls a0 order := by
  unfold seqState seqQueue
  congr 1
  funext a i
  rw [qcallOp_run]

/-- **C11 (thread-safe).** For any assignment of calls to threads and any schedule of their micro-steps: whenever the
mutex is free the queue is the one produced by running the calls one after another in lock-acquisition order, and every
completed call returned what the sequential specification `qcall` returns at its place in that order. -/
theorem C11_linearizable (calls : Nat → QCall) (a0 : Arr) (sched : List Nat) :
    let σ := exec (fun i => qcallOp (calls i)) (init a0) sched
    (σ.holder = none → σ.shared = seqQueue calls a0 σ.order) ∧
    (∀ i r, σ.th i = .done r → ∃ pre post, σ.order = pre ++ i :: post ∧
        r = (qcall (seqQueue calls a0 pre) (calls i)).2) := by
  intro σ
  have h := linearizable (fun i => qcallOp (calls i)) a0 sched
  refine ⟨fun hh => by rw [← seqState_eq]; exact h.1 hh, ?_⟩
  intro i r hd
  obtain ⟨pre, post, ho, hr⟩ := h.2 i r hd
  refine ⟨pre, post, ho, ?_⟩
  rw [hr, seqResult, seqState_eq, qcallOp_run]

/-- one call keeps the heap order and the uniqueness of keys -/
theorem qcall_inv (a0 : Arr) (c : QCall) (h0 : Inv a0) : Inv (qcall a0 c).1 := by
  cases c with
  | push e =>
    have := C11_inv_step a0 (.push e) h0
    simp only [qcall]; simp only [step] at this
    cases hq : qpush a0 e with
    | ok a' => simpa [hq] using this
    | error x => simpa using h0
  | pop =>
    have := C11_inv_step a0 .pop h0
    simp only [qcall]; simp only [step] at this
    cases hq : qpop a0 with
    | ok r => obtain ⟨a', e⟩ := r; simpa [hq] using this
    | error x => simpa using h0
  | remove g n =>
    have := C11_inv_step a0 (.remove g n) h0
    simp only [qcall]; simp only [step] at this
    cases hq : qremove a0 g n with
    | ok r => obtain ⟨a', e⟩ := r; simpa [hq] using this
    | error x => simpa using h0
  | clear => simpa [qcall, step] using C11_inv_step a0 .clear h0
  | head => simp only [qcall]; cases qhead a0 <;> simpa using h0
  | get g n => simp only [qcall]; cases qget a0 g n <;> simpa using h0
  | list ms => simpa [qcall] using h0
  | size => simpa [qcall] using h0

/-- a sequential run of calls keeps the heap order and the uniqueness of keys -/
theorem seqQueue_inv (calls : Nat → QCall) (a0 : Arr) (h0 : Inv a0) (order : List Nat) :
    Inv (seqQueue calls a0 order) := by
  unfold seqQueue
  induction order generalizing a0 with
  | nil => exact h0
  | cons i rest ih => exact ih _ (qcall_inv a0 (calls i) h0)

/-- **C11 (thread-safe, invariant).** Under any schedule, whenever the mutex is free the queue is a heap with unique keys:
no interleaving of Push / Pop / Remove / Clear / reads can tear it. -/
theorem C11_concurrent_inv (calls : Nat → QCall) (sched : List Nat) :
    let σ := exec (fun i => qcallOp (calls i)) (init (#[] : Arr)) sched
    σ.holder = none → Inv σ.shared := by
  intro σ hh
  rw [(C11_linearizable calls #[] sched).1 hh]
  exact seqQueue_inv calls #[] inv_empty _

/-- non-vacuity: a replacing Push racing with a Pop and a Get on a two-entry queue, micro-steps interleaved; all three
calls complete, in lock-acquisition order 0, 1, 2 -/
example :
    let calls : Nat → QCall := fun i =>
      if i = 0 then .push { group := "g", name := "b", prio := 1, replace := true, tag := 9 }
      else if i = 1 then .pop else .get "g" "a"
    let a0 : Arr := #[{ group := "g", name := "a", prio := 5, tag := 1 }, { group := "g", name := "b", prio := 7, tag := 2 }]
    let σ := exec (fun i => qcallOp (calls i)) (init a0) [0, 1, 0, 2, 0, 1, 0, 0, 1, 1, 1, 2, 2, 2]
    σ.order = [0, 1, 2] ∧ σ.holder = none := by
  decide

end Queue
