import QuartzModel.Proofs.ParseLemmas
/-!
# C07 — the cron parser accepts the documented format with its documented meaning and rejects the rest

All expression-level statements are about the default `Bounds` (`{}`), i.e. the boundaries
`buildCronField` uses (`Theorems/Facts.lean` ties them to the Go source). Helper lemmas are in
`Proofs/ParseLemmas.lean`.

* accepted ⇒ well-formed: `parse_wellFormed`, `newTrigger_wellFormed`, `parseField_inRange`,
  `parseField_no_special`, `parseDom_shape`, `parseDow_shape`
* rejections: `C07_rejects_field_count`, `C07_rejects_both_days`, `C07_rejects_bad_step`,
  `C07_rejects_bad_step_start`, `C07_rejects_bad_single`, `C07_rejects_bad_range`,
  `C07_rejects_bad_list_member` (+ `C07_list_member_as_field`)
* documented meaning: `C07_macros`, `C07_whitespace` (+ `_between`, `_leading`, `_trailing`),
  `C07_missing_year`, names and case (`normalize_name`, `normalize_glossary`, `normalize_month`,
  `normalize_day`, `C07_name_synonym`, `C07_name_synonym_range`), `atoi_render`, round trips
  (`C07_roundtrip_single/_name/_range/_step/_star_step/_range_step`), `C07_list_meaning`,
  `C07_seven_fields`, `C07_accepts`

Deviations from the requested statements (intent unchanged):
* `normalize_name`, `normalize_month`, `normalize_day`, `atoi_render` write the result as
  `some (i : Int)`; a bare `some i` with `i : Nat` elaborates to a monadic lift
  (`do let a ← some i; pure ↑a`) instead of `some ↑i`.
* the round trips carry `bd.upper ≤ maxInt64`: `strconv.Atoi` fails beyond int64, so without it the
  statement is false for absurd bounds (all real bounds are ≤ 3940).
-/
namespace Cron

/-! ## everything accepted is well-formed -/

/-- semantic form of "out-of-range values anywhere are rejected": the generic field parser's output
    carries no L/W/# marker, is sorted, and every value (single, list member, range end, step
    start/end and everything in between) lies inside the field's range -/
theorem parseField_inRange (fld : Str) (b : Bound) (names : List Str) (f : Field)
    (h : parseField fld b names = some f) :
    f.n = 0 ∧ Sorted f.values = true ∧ allIn b.lower b.upper f.values = true :=
  ⟨(parseField_good h).1, (parseField_good h).2.sorted, (parseField_good h).2.allIn⟩

/-- the fields without special characters (seconds, minutes, hours, month, year) never carry L/W/# -/
theorem parseField_no_special (fld : Str) (b : Bound) (names : List Str) (f : Field)
    (h : parseField fld b names = some f) : f.n = 0 :=
  (parseField_good h).1

/-- day-of-month: `L`, `L-k` (1 ≤ k ≤ 31), `dW` (1 ≤ d ≤ 31), `LW` stand alone — never with lists,
    ranges or steps — and otherwise the field is an ordinary in-range value list -/
theorem parseDom_shape (fld : Str) (f : Field) (h : parseDom fld ⟨1, 31⟩ = some f) : domOK f = true :=
  parseDom_domOK h

/-- day-of-week (after the shift to 0 = Sunday): `L`, `wL`, `w#k` (1 ≤ k ≤ 5) carry exactly one
    in-range weekday — never lists, ranges or steps — and otherwise an ordinary in-range value list -/
theorem parseDow_shape (fld : Str) (f : Field) (h : parseDow fld ⟨1, 7⟩ = some f) :
    dowOK { f with values := f.values.map (· - 1) } = true :=
  parseDow_dowOK h

/-- everything the parser accepts is well-formed: all values (single, list member, range end, step
    start/end) inside the field's range, sorted; L/W/# markers only in the day fields and with
    in-range parameters; at most one day field restricted -/
theorem parse_wellFormed (s : Str) (f : Fields) (h : parse {} s = some f) : WellFormed f = true := by
  unfold parse at h
  rw [parseExpr_eq] at h
  exact parseTokens_wellFormed h

theorem newTrigger_wellFormed (s : Str) (f : Fields) (h : newTrigger {} s = some f) :
    WellFormed f = true := by
  unfold newTrigger at h
  simp only [Option.map_eq_some_iff] at h
  obtain ⟨g, hg, rfl⟩ := h
  exact finish_wellFormed (parse_wellFormed s g hg)

/-! ## rejections -/

/-- wrong field count is rejected (after whitespace normalisation; macros aside) -/
theorem C07_rejects_field_count (s : Str) (hm : specialTable.lookup (trimExpr s) = none)
    (h : (splitOn ' ' (trimExpr s)).length < 6 ∨ (splitOn ' ' (trimExpr s)).length > 7) :
    parse {} s = none := by
  unfold parse
  rw [parseExpr_eq, tokensOf_of_lookup_none hm]
  unfold parseTokens
  simp [h]

/-- both day fields set is rejected -/
theorem C07_rejects_both_days (s : Str) (hm : specialTable.lookup (trimExpr s) = none)
    (h : anyDay ((splitOn ' ' (trimExpr s)).getD 3 []) = false ∧
         anyDay ((splitOn ' ' (trimExpr s)).getD 5 []) = false) :
    parse {} s = none := by
  unfold parse
  rw [parseExpr_eq, tokensOf_of_lookup_none hm]
  generalize splitOn ' ' (trimExpr s) = toks at h
  unfold parseTokens
  split
  · rfl
  · dsimp only
    by_cases h6 : toks.length = 6
    · have e3 : (toks ++ [['*']]).getD 3 [] = toks.getD 3 [] := by
        simp [List.getD_eq_getElem?_getD, h6]
      have e5 : (toks ++ [['*']]).getD 5 [] = toks.getD 5 [] := by
        simp [List.getD_eq_getElem?_getD, h6]
      simp only [h6, if_true, e3, e5, h.1, h.2]
      rfl
    · simp only [h6, if_false, h.1, h.2]
      rfl

/-- a step whose increment is not a number in 1..upper is rejected, wherever it occurs -/
theorem C07_rejects_bad_step (t0 t1 : Str) (b : Bound) (names : List Str)
    (hsep : ¬ t1.contains '/') (hsep0 : ¬ t0.contains '/')
    (h : ∀ k, atoi t1 = some k → k < 1 ∨ k > b.upper) :
    parseStep (t0 ++ '/' :: t1) b names = none := by
  unfold parseStep
  rw [splitOn_two '/' t0 t1 hsep0 hsep]
  dsimp only
  cases hk : atoi t1 with
  | none =>
    split
    · rename_i hst; cases hst
    · rfl
  | some k =>
    have hbad : inScope k 1 b.upper = false := by
      rcases h k hk with h | h
      · simp [inScope]; omega
      · simp [inScope]; omega
    split
    · rename_i frm to step _ hst
      injection hst with hst; subst hst
      simp [hbad]
    · rfl

/-! ## documented meaning -/

/-- macros equal their expansions -/
theorem C07_macros : ∀ p ∈ specialTable, parse {} p.1 = parse {} p.2 := by decide

/-- whitespace is insignificant: the parse depends only on the normalised text -/
theorem C07_whitespace (s s' : Str) (h : trimExpr s = trimExpr s') : parse {} s = parse {} s' := by
  unfold parse; rw [h]

theorem specialTable_keys_no_space : ∀ p ∈ specialTable, ¬ (' ' ∈ p.1) := by decide

theorem lookup_with_space (x y : Str) : specialTable.lookup (x ++ ' ' :: y) = none := by
  rw [List.lookup_eq_none_iff]
  intro p hp
  have hk := specialTable_keys_no_space p hp
  simp only [bne_iff_ne, ne_eq]
  intro heq
  rw [← heq] at hk
  exact hk (by simp)

/-- a missing year means every year -/
theorem C07_missing_year (s : Str) (hm : specialTable.lookup (trimExpr s) = none)
    (h6 : (splitOn ' ' (trimExpr s)).length = 6) :
    parse {} s = parseExpr {} (trimExpr s ++ " *".toList) := by
  have e : " *".toList = [' ', '*'] := rfl
  unfold parse
  rw [e, parseExpr_eq, parseExpr_eq, tokensOf_of_lookup_none hm,
    tokensOf_of_lookup_none (lookup_with_space _ _), splitOn_append_sep, parseTokens_six _ _ h6]
  rfl

/-! ## names and case (tier 2) -/

set_option linter.unusedVariables false in
/-- a glossary name, in any mix of upper and lower case, normalises to its index -/
theorem normalize_name (names : List Str) (i : Nat) (nm : Str) (h : names[i]? = some nm) (hpos : 0 < i)
    (hnodup : names.Nodup) (hup : nm.map upperChar = nm) (hnotnum : atoi nm = none) (v : Str)
    (hv : v.map upperChar = nm) (hvn : atoi v = none) : normalize names v = some (i : Int) := by
  unfold normalize translateLiteral
  rw [hvn, hv, indexOf?_of_nodup names i nm h hnodup]
  rfl

/-- the same without the `atoi` side conditions, for glossaries whose entries (from index 1) are
    words of ASCII capitals: they follow from the shape of the name -/
theorem normalize_glossary (names : List Str) (hok : glossaryOK names = true) (hnodup : names.Nodup)
    (i : Nat) (nm : Str) (h : names[i]? = some nm) (hpos : 0 < i) (v : Str)
    (hv : v.map upperChar = nm) : normalize names v = some (i : Int) := by
  have hw : Wordy v := wordy_of_map_upper v nm hv (glossaryOK_get hok hpos h).1
  unfold normalize translateLiteral
  rw [atoi_wordy v hw, hv, indexOf?_of_nodup names i nm h hnodup]
  rfl

/-- "jan", "Jan", "JAN", … all mean 1; … ; "dec", "DEC", … all mean 12 -/
theorem normalize_month (i : Nat) (nm : Str) (h : monthNames[i]? = some nm) (hpos : 0 < i) (v : Str)
    (hv : v.map upperChar = nm) : normalize monthNames v = some (i : Int) :=
  normalize_glossary monthNames (by decide) (by decide) i nm h hpos v hv

/-- "sun", "Sun", "SUN", … all mean 1; … ; "sat", … all mean 7 -/
theorem normalize_day (i : Nat) (nm : Str) (h : dayNames[i]? = some nm) (hpos : 0 < i) (v : Str)
    (hv : v.map upperChar = nm) : normalize dayNames v = some (i : Int) :=
  normalize_glossary dayNames (by decide) (by decide) i nm h hpos v hv

/-- `strconv.Atoi` inverts decimal rendering -/
theorem atoi_render (n : Nat) (h : n ≤ maxInt64) : atoi (Nat.toDigits 10 n) = some (n : Int) :=
  atoi_renderNat n h

/-- names are case-insensitive synonyms of numbers: as a field on its own, a glossary name in any
    case parses exactly like its index written in decimal -/
theorem C07_name_synonym (names : List Str) (hok : glossaryOK names = true) (hnodup : names.Nodup)
    (i : Nat) (nm : Str) (h : names[i]? = some nm) (hpos : 0 < i) (hi : i ≤ maxInt64) (v : Str)
    (hv : v.map upperChar = nm) (b : Bound) :
    parseField v b names = parseField (renderNat i) b names := by
  have hw : Wordy v := wordy_of_map_upper v nm hv (glossaryOK_get hok hpos h).1
  rw [parseField_single v b names hw.not_wild hw.noSep,
    parseField_single (renderNat i) b names (not_wild_of_all_digit _ (renderNat_all_digit i))
      (noSep_renderNat i),
    normalize_glossary names hok hnodup i nm h hpos v hv, normalize_renderNat names i hi]

/-- … and likewise as either end of a range -/
theorem C07_name_synonym_range (names : List Str) (hok : glossaryOK names = true) (hnodup : names.Nodup)
    (i j : Nat) (ni nj : Str) (hi : names[i]? = some ni) (hj : names[j]? = some nj)
    (hipos : 0 < i) (hjpos : 0 < j) (himax : i ≤ maxInt64) (hjmax : j ≤ maxInt64) (v w : Str)
    (hv : v.map upperChar = ni) (hw : w.map upperChar = nj) (b : Bound) :
    parseField (v ++ '-' :: w) b names = parseField (renderNat i ++ '-' :: renderNat j) b names := by
  have wv : Wordy v := wordy_of_map_upper v ni hv (glossaryOK_get hok hipos hi).1
  have ww : Wordy w := wordy_of_map_upper w nj hw (glossaryOK_get hok hjpos hj).1
  rw [parseField_range v w b names wv.noSep ww.noSep,
    parseField_range _ _ b names (noSep_renderNat i) (noSep_renderNat j),
    normalize_glossary names hok hnodup i ni hi hipos v hv,
    normalize_glossary names hok hnodup j nj hj hjpos w hw,
    normalize_renderNat names i himax, normalize_renderNat names j hjmax]

/-! ## round trips: the documented forms are accepted with their documented meaning (tier 2)

`bd.upper ≤ maxInt64` is needed because `strconv.Atoi` fails beyond int64 (all real bounds are tiny). -/

/-- a single in-range number -/
theorem C07_roundtrip_single (a : Nat) (bd : Bound) (names : List Str) (hmax : bd.upper ≤ maxInt64)
    (h1 : bd.lower ≤ a) (h2 : a ≤ bd.upper) :
    parseField (renderNat a) bd names = some { values := [a] } := by
  rw [parseField_single _ bd names (not_wild_of_all_digit _ (renderNat_all_digit a)) (noSep_renderNat a),
    normalize_renderNat names a (by omega)]
  have : inScope (a : Int) bd.lower bd.upper = true := by rw [inScope_iff]; omega
  simp [singleOf, this]

/-- a glossary name in any case -/
theorem C07_roundtrip_name (names : List Str) (hok : glossaryOK names = true) (hnodup : names.Nodup)
    (i : Nat) (nm : Str) (h : names[i]? = some nm) (hpos : 0 < i) (v : Str)
    (hv : v.map upperChar = nm) (bd : Bound) (h1 : bd.lower ≤ i) (h2 : i ≤ bd.upper) :
    parseField v bd names = some { values := [i] } := by
  have hw : Wordy v := wordy_of_map_upper v nm hv (glossaryOK_get hok hpos h).1
  rw [parseField_single v bd names hw.not_wild hw.noSep,
    normalize_glossary names hok hnodup i nm h hpos v hv]
  have : inScope (i : Int) bd.lower bd.upper = true := by rw [inScope_iff]; omega
  simp [singleOf, this]

/-- `a-z` means a, a+1, …, z -/
theorem C07_roundtrip_range (a z : Nat) (bd : Bound) (names : List Str) (hmax : bd.upper ≤ maxInt64)
    (h1 : bd.lower ≤ a) (h2 : a ≤ z) (h3 : z ≤ bd.upper) :
    parseField (renderNat a ++ '-' :: renderNat z) bd names =
      some { values := (List.range (z - a + 1)).map (· + a) } := by
  rw [parseField_range _ _ bd names (noSep_renderNat a) (noSep_renderNat z),
    normalize_renderNat names a (by omega), normalize_renderNat names z (by omega)]
  have ia : inScope (a : Int) bd.lower bd.upper = true := by rw [inScope_iff]; omega
  have iz : inScope (z : Int) bd.lower bd.upper = true := by rw [inScope_iff]; omega
  have : ¬ z < a := by omega
  simp [rangeOf, ia, iz, fillRange, this]

theorem not_contains_renderNat (n : Nat) (c : Char) (hc : isDigit c = false) :
    ¬ ((renderNat n).contains c = true) :=
  not_contains_of_all_digit _ (renderNat_all_digit n) c hc

/-- `a/s` means a, a+s, a+2s, … up to the field's upper bound -/
theorem C07_roundtrip_step (a s : Nat) (bd : Bound) (names : List Str) (hmax : bd.upper ≤ maxInt64)
    (h1 : bd.lower ≤ a) (h2 : a ≤ bd.upper) (hs1 : 1 ≤ s) (hs2 : s ≤ bd.upper) :
    parseField (renderNat a ++ '/' :: renderNat s) bd names =
      some { values := (List.range ((bd.upper - a) / s + 1)).map (fun j => a + j * s) } := by
  rw [parseField_step _ _ bd names (not_contains_renderNat a _ (by decide))
      (not_contains_renderNat s _ (by decide)) (not_contains_renderNat a _ (by decide))
      (not_contains_renderNat s _ (by decide)),
    stepFromTo_from bd names _ (not_wild_of_all_digit _ (renderNat_all_digit a)).1
      (not_contains_renderNat a _ (by decide)),
    normalize_renderNat names a (by omega), atoi_renderNat s (by omega)]
  have ia : inScope (a : Int) bd.lower bd.upper = true := by rw [inScope_iff]; omega
  have iu : inScope (bd.upper : Int) bd.lower bd.upper = true := by rw [inScope_iff]; omega
  have is' : inScope (s : Int) 1 bd.upper = true := by rw [inScope_iff]; omega
  have n1 : ¬ (bd.upper < a ∨ s = 0) := by omega
  simp [stepOf, ia, iu, is', fillStep, n1]

/-- `*/s` means lower, lower+s, … up to the field's upper bound -/
theorem C07_roundtrip_star_step (s : Nat) (bd : Bound) (names : List Str) (hmax : bd.upper ≤ maxInt64)
    (hb : bd.lower ≤ bd.upper) (hs1 : 1 ≤ s) (hs2 : s ≤ bd.upper) :
    parseField ('*' :: '/' :: renderNat s) bd names =
      some { values := (List.range ((bd.upper - bd.lower) / s + 1)).map (fun j => bd.lower + j * s) } := by
  have e : ('*' :: '/' :: renderNat s) = ['*'] ++ '/' :: renderNat s := rfl
  rw [e, parseField_step _ _ bd names (by decide) (not_contains_renderNat s _ (by decide)) (by decide)
      (not_contains_renderNat s _ (by decide)),
    stepFromTo_star, atoi_renderNat s (by omega)]
  have il : inScope (bd.lower : Int) bd.lower bd.upper = true := by rw [inScope_iff]; omega
  have iu : inScope (bd.upper : Int) bd.lower bd.upper = true := by rw [inScope_iff]; omega
  have is' : inScope (s : Int) 1 bd.upper = true := by rw [inScope_iff]; omega
  have n1 : ¬ (bd.upper < bd.lower ∨ s = 0) := by omega
  simp [stepOf, il, iu, is', fillStep, n1]

/-- `a-z/s` means a, a+s, a+2s, … up to z -/
theorem C07_roundtrip_range_step (a z s : Nat) (bd : Bound) (names : List Str)
    (hmax : bd.upper ≤ maxInt64) (h1 : bd.lower ≤ a) (h2 : a ≤ z) (h3 : z ≤ bd.upper)
    (hs1 : 1 ≤ s) (hs2 : s ≤ bd.upper) :
    parseField (renderNat a ++ '-' :: renderNat z ++ '/' :: renderNat s) bd names =
      some { values := (List.range ((z - a) / s + 1)).map (fun j => a + j * s) } := by
  have e : renderNat a ++ '-' :: renderNat z ++ '/' :: renderNat s =
      (renderNat a ++ '-' :: renderNat z) ++ '/' :: renderNat s := by simp
  have nc : ∀ c, isDigit c = false → c ≠ '-' → ¬ ((renderNat a ++ '-' :: renderNat z).contains c = true) := by
    intro c hc hne
    simp only [contains_append_sep, not_or]
    exact ⟨not_contains_renderNat a c hc, hne, not_contains_renderNat z c hc⟩
  rw [e, parseField_step _ _ bd names (nc _ (by decide) (by decide))
      (not_contains_renderNat s _ (by decide)) (nc _ (by decide) (by decide))
      (not_contains_renderNat s _ (by decide)),
    stepFromTo_range bd names _ _ (not_contains_renderNat a _ (by decide))
      (not_contains_renderNat z _ (by decide)),
    normalize_renderNat names a (by omega), normalize_renderNat names z (by omega),
    atoi_renderNat s (by omega)]
  have ia : inScope (a : Int) bd.lower bd.upper = true := by rw [inScope_iff]; omega
  have iz : inScope (z : Int) bd.lower bd.upper = true := by rw [inScope_iff]; omega
  have is' : inScope (s : Int) 1 bd.upper = true := by rw [inScope_iff]; omega
  have n1 : ¬ (z < a ∨ s = 0) := by omega
  simp [stepOf, ia, iz, is', fillStep, n1]

/-! ## syntactic rejections: unknown / out-of-range values in every position (tier 2) -/

/-- a single value that is neither a number nor a known name, or is out of range, is rejected -/
theorem C07_rejects_bad_single (v : Str) (b : Bound) (names : List Str) (hw : v ≠ ['*'] ∧ v ≠ ['?'])
    (hs : noSep v = true)
    (h : ∀ x, normalize names v = some x → x < b.lower ∨ x > b.upper) :
    parseField v b names = none := by
  rw [parseField_single v b names hw hs]
  cases hn : normalize names v with
  | none => rfl
  | some x =>
    have : inScope x b.lower b.upper = false := by
      rcases h x hn with h | h <;> simp [inScope] <;> omega
    simp [singleOf, this]

/-- a range with an unknown or out-of-range end, or with its ends reversed, is rejected -/
theorem C07_rejects_bad_range (a z : Str) (b : Bound) (names : List Str)
    (ha : noSep a = true) (hz : noSep z = true)
    (h : ∀ x y, normalize names a = some x → normalize names z = some y →
      x < b.lower ∨ x > b.upper ∨ y < b.lower ∨ y > b.upper ∨ y < x) :
    parseField (a ++ '-' :: z) b names = none := by
  rw [parseField_range a z b names ha hz]
  cases hx : normalize names a with
  | none => simp [rangeOf]
  | some x =>
    cases hy : normalize names z with
    | none => simp [rangeOf]
    | some y =>
      simp only [rangeOf, Option.map_eq_none_iff]
      split
      · rename_i hsc
        simp only [Bool.and_eq_true, inScope_iff] at hsc
        have := h x y hx hy
        unfold fillRange
        have : y.toNat < x.toNat := by omega
        simp [this]
      · rfl

/-- a step with an unknown or out-of-range start (or range end) is rejected, whatever the increment -/
theorem C07_rejects_bad_step_start (t0 t1 : Str) (b : Bound) (names : List Str)
    (h0 : ¬ t0.contains '/') (h1 : ¬ t1.contains '/')
    (h : ∀ frm to, stepFromTo b names t0 = some (frm, to) →
      frm < b.lower ∨ frm > b.upper ∨ to < b.lower ∨ to > b.upper ∨ to < frm) :
    parseStep (t0 ++ '/' :: t1) b names = none := by
  rw [parseStep_eq t0 t1 b names h0 h1]
  unfold stepOf
  split
  · rename_i frm to step hft _
    split
    · rename_i hsc
      simp only [Bool.and_eq_true, inScope_iff] at hsc
      have := h frm to hft
      unfold fillStep
      have : to.toNat < frm.toNat := by omega
      simp [this]
    · rfl
  · rfl

/-- a list is rejected as soon as one member — plain value, range or step — would be rejected -/
theorem C07_rejects_bad_list_member (fld : Str) (b : Bound) (names : List Str) (t : Str)
    (ht : t ∈ splitOn ',' fld) (hbad : parseMember t b names = none) :
    parseList fld b names = none := by
  cases hp : parseList fld b names with
  | none => rfl
  | some l =>
    have := parseList_members hp t ht
    rw [hbad] at this; cases this

/-- … where a member that is not a wildcard is judged exactly like a field on its own -/
theorem C07_list_member_as_field (fld : Str) (b : Bound) (names : List Str) (t : Str)
    (ht : t ∈ splitOn ',' fld) (hw : t ≠ ['*'] ∧ t ≠ ['?']) :
    parseField t b names = (parseMember t b names).map (fun v => { values := v }) := by
  apply parseField_eq_member t b names hw
  intro hc
  exact splitOn_no_sep_mem ',' fld t ht ',' (by simpa using hc) rfl

/-! ## whitespace, concretely (extra)

`C07_whitespace` says the parse depends only on `trimExpr s`; these three say what `trimExpr`
ignores: how much and which RE2 white space (`\t \n \f \r` blank) separates two parts, and any white
space at either end. -/

/-- any non-empty run of white space between two parts can be replaced by any other -/
theorem C07_whitespace_between (x y w1 w2 : Str) (h1 : w1 ≠ []) (h2 : w2 ≠ [])
    (a1 : ∀ c ∈ w1, isReSpace c = true) (a2 : ∀ c ∈ w2, isReSpace c = true) :
    parse {} (x ++ w1 ++ y) = parse {} (x ++ w2 ++ y) :=
  C07_whitespace _ _ (trimExpr_between x y w1 w2 h1 h2 a1 a2)

/-- leading white space is ignored -/
theorem C07_whitespace_leading (w x : Str) (hw : ∀ c ∈ w, isReSpace c = true) :
    parse {} (w ++ x) = parse {} x :=
  C07_whitespace _ _ (trimExpr_leading w x hw)

/-- trailing white space is ignored -/
theorem C07_whitespace_trailing (x w : Str) (hw : ∀ c ∈ w, isReSpace c = true) :
    parse {} (x ++ w) = parse {} x :=
  C07_whitespace _ _ (trimExpr_trailing x w hw)

/-! ## the list field, exactly (extra) -/

/-- a list means the sorted union of its members, each parsed on its own as a step, a range or a
    single value (`parseMember`); it is accepted iff every member is -/
theorem C07_list_meaning (fld : Str) (b : Bound) (names : List Str) (hc : fld.contains ',' = true) :
    parseField fld b names =
      (mapM' (fun t => parseMember t b names) (splitOn ',' fld)).map
        (fun vs => { values := sortNat vs.flatten }) := by
  have w1 : fld ≠ ['*'] := by intro h; rw [h] at hc; revert hc; decide
  have w2 : fld ≠ ['?'] := by intro h; rw [h] at hc; revert hc; decide
  unfold parseField
  simp only [w1, w2, or_self, if_false, hc, if_true, parseList_eq, Option.map_map]
  rfl

/-! ## the expression level, exactly (extra) -/

/-- a seven-field expression is accepted iff at least one day field is unrestricted and every field
    is accepted by its own parser; the result is assembled field by field (`buildFields`) -/
theorem C07_seven_fields (s : Str) (hm : specialTable.lookup (trimExpr s) = none)
    (t0 t1 t2 t3 t4 t5 t6 : Str) (hs : splitOn ' ' (trimExpr s) = [t0, t1, t2, t3, t4, t5, t6]) :
    parse {} s =
      if anyDay t3 || anyDay t5 then buildFields {} [t0, t1, t2, t3, t4, t5, t6] else none := by
  unfold parse
  rw [parseExpr_eq, tokensOf_of_lookup_none hm, hs]
  unfold parseTokens
  cases h3 : anyDay t3 <;> cases h5 : anyDay t5 <;> simp [h3, h5]

/-- every expression made of seven individually accepted fields, one day field unrestricted, is
    accepted, with exactly the field-wise meaning -/
theorem C07_accepts (s : Str) (hm : specialTable.lookup (trimExpr s) = none)
    (t0 t1 t2 t3 t4 t5 t6 : Str) (hs : splitOn ' ' (trimExpr s) = [t0, t1, t2, t3, t4, t5, t6])
    (hd : anyDay t3 = true ∨ anyDay t5 = true) (f0 f1 f2 f3 f4 f5 f6 : Field)
    (h0 : parseField t0 ⟨0, 59⟩ [] = some f0) (h1 : parseField t1 ⟨0, 59⟩ [] = some f1)
    (h2 : parseField t2 ⟨0, 23⟩ [] = some f2) (h3 : parseDom t3 ⟨1, 31⟩ = some f3)
    (h4 : parseField t4 ⟨1, 12⟩ monthNames = some f4) (h5 : parseDow t5 ⟨1, 7⟩ = some f5)
    (h6 : parseField t6 ⟨1970, 3940⟩ [] = some f6) :
    parse {} s = some { sec := f0, min := f1, hour := f2, dom := f3, month := f4,
                        dow := { f5 with values := f5.values.map (· - 1) }, year := f6 } := by
  rw [C07_seven_fields s hm t0 t1 t2 t3 t4 t5 t6 hs]
  have : (anyDay t3 || anyDay t5) = true := by rcases hd with h | h <;> simp [h]
  rw [this]
  show buildFields {} [t0, t1, t2, t3, t4, t5, t6] = _
  unfold buildFields
  simp only
  have e0 : parseField t0 ({} : Bounds).sec [] = some f0 := h0
  have e1 : parseField t1 ({} : Bounds).min [] = some f1 := h1
  have e2 : parseField t2 ({} : Bounds).hour [] = some f2 := h2
  have e3 : parseDom t3 ({} : Bounds).dom = some f3 := h3
  have e4 : parseField t4 ({} : Bounds).month monthNames = some f4 := h4
  have e5 : parseDow t5 ({} : Bounds).dow = some f5 := h5
  have e6 : parseField t6 ({} : Bounds).year [] = some f6 := h6
  rw [e0, e1, e2, e3, e4, e5, e6]

/-! ## non-vacuity: the hypotheses are satisfiable on concrete, non-trivial inputs -/

section NonVacuity

def exAccepted : Str := "0 0/5 14,18 * JAN-mar ?".toList
def exAcceptedFields : Fields :=
  { sec := { values := [0] }, min := { values := [0, 5, 10, 15, 20, 25, 30, 35, 40, 45, 50, 55] },
    hour := { values := [14, 18] }, dom := { values := [] }, month := { values := [1, 2, 3] },
    dow := { values := [] }, year := { values := [] } }

/-- `parse_wellFormed` / `newTrigger_wellFormed` apply to a non-trivial accepted expression -/
example : parse {} exAccepted = some exAcceptedFields := by decide
example : newTrigger {} exAccepted = some exAcceptedFields := by decide
example : WellFormed exAcceptedFields = true := parse_wellFormed exAccepted _ (by decide)
/-- the all-wildcard expression: `finish` fills in the seconds -/
example : (newTrigger {} "* * * * * ?".toList).map (·.sec.values) = some (List.range 60) := by decide
/-- the special day rules are accepted in their own field … -/
example : (parse {} "0 15 10 L-2 * ?".toList).map (·.dom) = some { values := [], n := -2 } := by decide
example : (parse {} "0 15 10 15W * ?".toList).map (·.dom) = some { values := [15], n := 2 } := by decide
example : (parse {} "0 15 10 LW * ?".toList).map (·.dom) = some { values := [0], n := 3 } := by decide
example : (parse {} "0 15 10 ? * 6L".toList).map (·.dow) = some { values := [5], n := -1 } := by decide
example : (parse {} "0 15 10 ? * fri#3".toList).map (·.dow) = some { values := [5], n := 3 } := by decide
/-- … and rejected when misplaced, combined or out of range -/
example : parse {} "L 15 10 ? * ?".toList = none := by decide
example : parse {} "0 15 10 ? L ?".toList = none := by decide
example : parse {} "0 15 10 L,15 * ?".toList = none := by decide
example : parse {} "0 15 10 1-15W * ?".toList = none := by decide
example : parse {} "0 15 10 L-32 * ?".toList = none := by decide
example : parse {} "0 15 10 32W * ?".toList = none := by decide
example : parse {} "0 15 10 ? * 6#6".toList = none := by decide
example : parse {} "0 15 10 ? * 2,6L".toList = none := by decide
example : parse {} "0 15 10 ? * 6L#2".toList = none := by decide
example : parse {} "0 15 10 15 * 6#3".toList = none := by decide
/-- out-of-range / unknown values inside lists, ranges and steps -/
example : parse {} "0 15,60 10 * * ?".toList = none := by decide
example : parse {} "0 15 10-24 * * ?".toList = none := by decide
example : parse {} "0 15 10 * 0-3 ?".toList = none := by decide
example : parse {} "0 15 10 * JAN,FOO ?".toList = none := by decide
example : parse {} "0 60/5 10 * * ?".toList = none := by decide
example : parse {} "0 5-61/5 10 * * ?".toList = none := by decide
example : parse {} "0 15 10 * * ? 1969".toList = none := by decide

/-- `C07_rejects_field_count`: five and eight fields -/
example : parse {} "0 0 0 * *".toList = none :=
  C07_rejects_field_count _ (by decide) (Or.inl (by decide))
example : parse {} " 0 0 0 * * ? * * ".toList = none :=
  C07_rejects_field_count _ (by decide) (Or.inr (by decide))

/-- `C07_rejects_both_days` -/
example : parse {} "0 0 0 1 * 2".toList = none :=
  C07_rejects_both_days _ (by decide) ⟨by decide, by decide⟩

/-- `C07_rejects_bad_step`: zero, non-numeric, too large, empty -/
example : parseStep "0/0".toList ⟨0, 59⟩ [] = none :=
  C07_rejects_bad_step "0".toList "0".toList ⟨0, 59⟩ [] (by decide) (by decide)
    (fun k hk => by
      have e : atoi "0".toList = some 0 := by decide
      rw [e] at hk; injection hk with hk; subst hk; exact Or.inl (by decide))
example : parseStep "1-5/x".toList ⟨0, 59⟩ [] = none :=
  C07_rejects_bad_step "1-5".toList "x".toList ⟨0, 59⟩ [] (by decide) (by decide)
    (fun k hk => by
      have e : atoi "x".toList = none := by decide
      rw [e] at hk; cases hk)
example : parseStep "*/60".toList ⟨0, 59⟩ [] = none :=
  C07_rejects_bad_step "*".toList "60".toList ⟨0, 59⟩ [] (by decide) (by decide)
    (fun k hk => by
      have e : atoi "60".toList = some 60 := by decide
      rw [e] at hk; injection hk with hk; subst hk; exact Or.inr (by decide))
/-- … and the rejection propagates to the whole expression, also from inside a list -/
example : parse {} "0 0/0 * * * ?".toList = none := by decide
example : parse {} "0 1,0/0 * * * ?".toList = none := by decide
example : parse {} "0 1,2/x * * * ?".toList = none := by decide

/-- `parseField_inRange`: list with a step, a range and a name, lower/upper case -/
example : parseField "dec,1-3,2/5,Jun".toList ⟨1, 12⟩ monthNames =
    some { values := [1, 2, 2, 3, 6, 7, 12, 12] } := by decide

/-- `C07_whitespace`: tabs, newlines, runs of blanks, leading/trailing blanks -/
example : parse {} "  0\t 0/5  14,18\n*   JAN-mar ? \r\n".toList = parse {} exAccepted :=
  C07_whitespace _ _ (by decide)

/-- `C07_missing_year` -/
example : parse {} exAccepted = parseExpr {} "0 0/5 14,18 * JAN-mar ? *".toList :=
  C07_missing_year exAccepted (by decide) (by decide)
example : parse {} "0 0 0 1 1 ? *".toList = parse {} "0 0 0 1 1 ?".toList := by decide

/-- `C07_macros`, spelled out -/
example : parse {} "@yearly".toList = parse {} "0 0 0 1 1 *".toList := C07_macros (_, _) (by decide)
example : (parse {} "@hourly".toList).isSome = true := by decide

/-! tier 2 -/

/-- `normalize_name` / `normalize_month` / `normalize_day`: any mix of cases -/
example : normalize monthNames "mAr".toList = some 3 :=
  normalize_name monthNames 3 "MAR".toList (by decide) (by decide) (by decide) (by decide) (by decide)
    "mAr".toList (by decide) (by decide)
example : normalize monthNames "jan".toList = some 1 := normalize_month 1 "JAN".toList (by decide) (by decide) _ (by decide)
example : normalize monthNames "Jan".toList = some 1 := normalize_month 1 "JAN".toList (by decide) (by decide) _ (by decide)
example : normalize monthNames "JAN".toList = some 1 := normalize_month 1 "JAN".toList (by decide) (by decide) _ (by decide)
example : normalize monthNames "dEC".toList = some 12 := normalize_month 12 "DEC".toList (by decide) (by decide) _ (by decide)
example : normalize dayNames "sat".toList = some 7 := normalize_day 7 "SAT".toList (by decide) (by decide) _ (by decide)
example : normalize dayNames "Sun".toList = some 1 := normalize_day 1 "SUN".toList (by decide) (by decide) _ (by decide)
/-- … whereas a name of the other glossary, or a misspelt one, is unknown -/
example : normalize monthNames "mon".toList = none := by decide
example : normalize dayNames "sunday".toList = none := by decide

/-- `atoi_render` -/
example : atoi "1970".toList = some 1970 := atoi_render 1970 (by decide)

/-- `C07_name_synonym`, `C07_name_synonym_range` -/
example : parseField "oct".toList ⟨1, 12⟩ monthNames = parseField "10".toList ⟨1, 12⟩ monthNames :=
  C07_name_synonym monthNames (by decide) (by decide) 10 "OCT".toList (by decide) (by decide) (by decide) _ (by decide) _
example : parseField "mon-Fri".toList ⟨1, 7⟩ dayNames = parseField "2-6".toList ⟨1, 7⟩ dayNames :=
  C07_name_synonym_range dayNames (by decide) (by decide) 2 6 "MON".toList "FRI".toList (by decide) (by decide) (by decide)
    (by decide) (by decide) (by decide) "mon".toList "Fri".toList (by decide) (by decide) _
example : parse {} "0 0 0 ? jan,MAR-may,Oct/1 mon-Fri".toList = parse {} "0 0 0 ? 1,3-5,10/1 2-6".toList := by
  decide

/-- round trips -/
example : parseField "17".toList ⟨0, 23⟩ [] = some { values := [17] } :=
  C07_roundtrip_single 17 ⟨0, 23⟩ [] (by decide) (by decide) (by decide)
example : parseField "wEd".toList ⟨1, 7⟩ dayNames = some { values := [4] } :=
  C07_roundtrip_name dayNames (by decide) (by decide) 4 "WED".toList (by decide) (by decide) _ (by decide) _
    (by decide) (by decide)
example : parseField "10-12".toList ⟨0, 23⟩ [] = some { values := [10, 11, 12] } :=
  C07_roundtrip_range 10 12 ⟨0, 23⟩ [] (by decide) (by decide) (by decide) (by decide)
example : parseField "0/15".toList ⟨0, 59⟩ [] = some { values := [0, 15, 30, 45] } :=
  C07_roundtrip_step 0 15 ⟨0, 59⟩ [] (by decide) (by decide) (by decide) (by decide) (by decide)
example : parseField "*/4".toList ⟨1, 12⟩ monthNames = some { values := [1, 5, 9] } :=
  C07_roundtrip_star_step 4 ⟨1, 12⟩ monthNames (by decide) (by decide) (by decide) (by decide)
example : parseField "10-20/5".toList ⟨0, 59⟩ [] = some { values := [10, 15, 20] } :=
  C07_roundtrip_range_step 10 20 5 ⟨0, 59⟩ [] (by decide) (by decide) (by decide) (by decide)
    (by decide) (by decide)

/-- syntactic rejections -/
example : parseField "60".toList ⟨0, 59⟩ [] = none :=
  C07_rejects_bad_single _ _ _ (by decide) (by decide) (fun x hx => by
    have e : normalize [] "60".toList = some 60 := by decide
    rw [e] at hx; injection hx with hx; subst hx; exact Or.inr (by decide))
example : parseField "FOO".toList ⟨1, 12⟩ monthNames = none :=
  C07_rejects_bad_single _ _ _ (by decide) (by decide) (fun x hx => by
    have e : normalize monthNames "FOO".toList = none := by decide
    rw [e] at hx; cases hx)
example : parseField "5-2".toList ⟨0, 59⟩ [] = none :=
  C07_rejects_bad_range "5".toList "2".toList _ _ (by decide) (by decide) (fun x y hx hy => by
    have e1 : normalize [] "5".toList = some 5 := by decide
    have e2 : normalize [] "2".toList = some 2 := by decide
    rw [e1] at hx; rw [e2] at hy
    injection hx with hx; injection hy with hy; subst hx; subst hy
    exact Or.inr (Or.inr (Or.inr (Or.inr (by decide)))))
example : parseStep "61/5".toList ⟨0, 59⟩ [] = none :=
  C07_rejects_bad_step_start "61".toList "5".toList _ _ (by decide) (by decide) (fun frm to h => by
    have e : stepFromTo ⟨0, 59⟩ [] "61".toList = some (61, 59) := by decide
    rw [e] at h; injection h with h; injection h with h1 h2; subst h1; subst h2
    exact Or.inr (Or.inl (by decide)))
example : parseList "1,60,3".toList ⟨0, 59⟩ [] = none :=
  C07_rejects_bad_list_member _ _ _ "60".toList (by decide) (by decide)
example : parseList "1,2-x,3".toList ⟨0, 59⟩ [] = none :=
  C07_rejects_bad_list_member _ _ _ "2-x".toList (by decide) (by decide)
example : parseList "1,*,3".toList ⟨0, 59⟩ [] = none :=
  C07_rejects_bad_list_member _ _ _ "*".toList (by decide) (by decide)

/-! extras -/

/-- `C07_whitespace_between/leading/trailing` -/
example : parse {} "0 0\t\n 12 * * ?".toList = parse {} "0 0 12 * * ?".toList :=
  C07_whitespace_between "0 0".toList "12 * * ?".toList "\t\n ".toList " ".toList (by decide) (by decide)
    (by decide) (by decide)
example : parse {} " \n0 0 12 * * ?".toList = parse {} "0 0 12 * * ?".toList :=
  C07_whitespace_leading " \n".toList _ (by decide)
example : parse {} "0 0 12 * * ?\r\n".toList = parse {} "0 0 12 * * ?".toList :=
  C07_whitespace_trailing "0 0 12 * * ?".toList "\r\n".toList (by decide)
/-- white space is a separator, though: removing it altogether changes the field count -/
example : parse {} "0 012 * * ?".toList = none := by decide

/-- `C07_list_meaning` -/
example : parseField "dec,1-3,2/5,Jun".toList ⟨1, 12⟩ monthNames =
    some { values := sortNat ([[12], [1, 2, 3], [2, 7, 12], [6]] : List (List Nat)).flatten } :=
  (C07_list_meaning _ _ _ (by decide)).trans (by decide)

/-- `C07_seven_fields`, `C07_accepts` -/
example : parse {} "0 0/5 14,18 * JAN-mar ? 2030".toList =
    some { exAcceptedFields with year := { values := [2030] } } :=
  C07_accepts _ (by decide) "0".toList "0/5".toList "14,18".toList "*".toList "JAN-mar".toList
    "?".toList "2030".toList (by decide) (Or.inl (by decide)) _ _ _ _ _ _ _
    (by decide : _ = some { values := [0] })
    (by decide : _ = some { values := [0, 5, 10, 15, 20, 25, 30, 35, 40, 45, 50, 55] })
    (by decide : _ = some { values := [14, 18] }) (by decide : _ = some { values := [] })
    (by decide : _ = some { values := [1, 2, 3] }) (by decide : _ = some { values := [] })
    (by decide : _ = some { values := [2030] })

end NonVacuity

end Cron
