import QuartzModel.Proofs.ParseLemmas
/-!
# C07 — the cron parser accepts the documented format with its documented meaning and rejects the rest

All statements are about the default `Bounds` (`{}`), i.e. the boundaries `buildCronField` uses
(`Theorems/Facts.lean` ties them to the Go source). Helper lemmas are in `Proofs/ParseLemmas.lean`.
-/
namespace Cron

/-! ## everything accepted is well-formed -/

/-- semantic form of "out-of-range values anywhere are rejected": the generic field parser's output
    carries no L/W/# marker, is sorted, and every value (single, list member, range end, step
    start/end and everything in between) lies inside the field's range -/
theorem parseField_inRange (fld : Str) (b : Bound) (names : List Str) (f : Field)
    (h : parseField fld b names = some f) :
    f.n = 0 ∧ Sorted f.values = true ∧ allIn b.lower b.upper f.values = true :=
  ⟨(parseField_good h).1, (parseField_good h).2.sorted, (parseField_good h).2.allIn⟩

/-- the fields without special characters (seconds, minutes, hours, month, year) never carry L/W/# -/
theorem parseField_no_special (fld : Str) (b : Bound) (names : List Str) (f : Field)
    (h : parseField fld b names = some f) : f.n = 0 :=
  (parseField_good h).1

/-- day-of-month: `L`, `L-k` (1 ≤ k ≤ 31), `dW` (1 ≤ d ≤ 31), `LW` stand alone — never with lists,
    ranges or steps — and otherwise the field is an ordinary in-range value list -/
theorem parseDom_shape (fld : Str) (f : Field) (h : parseDom fld ⟨1, 31⟩ = some f) : domOK f = true :=
  parseDom_domOK h

/-- day-of-week (after the shift to 0 = Sunday): `L`, `wL`, `w#k` (1 ≤ k ≤ 5) carry exactly one
    in-range weekday — never lists, ranges or steps — and otherwise an ordinary in-range value list -/
theorem parseDow_shape (fld : Str) (f : Field) (h : parseDow fld ⟨1, 7⟩ = some f) :
    dowOK { f with values := f.values.map (· - 1) } = true :=
  parseDow_dowOK h

/-- everything the parser accepts is well-formed: all values (single, list member, range end, step
    start/end) inside the field's range, sorted; L/W/# markers only in the day fields and with
    in-range parameters; at most one day field restricted -/
theorem parse_wellFormed (s : Str) (f : Fields) (h : parse {} s = some f) : WellFormed f = true := by
  unfold parse at h
  rw [parseExpr_eq] at h
  exact parseTokens_wellFormed h

theorem newTrigger_wellFormed (s : Str) (f : Fields) (h : newTrigger {} s = some f) :
    WellFormed f = true := by
  unfold newTrigger at h
  simp only [Option.map_eq_some_iff] at h
  obtain ⟨g, hg, rfl⟩ := h
  exact finish_wellFormed (parse_wellFormed s g hg)

/-! ## rejections -/

/-- wrong field count is rejected (after whitespace normalisation; macros aside) -/
theorem C07_rejects_field_count (s : Str) (hm : specialTable.lookup (trimExpr s) = none)
    (h : (splitOn ' ' (trimExpr s)).length < 6 ∨ (splitOn ' ' (trimExpr s)).length > 7) :
    parse {} s = none := by
  unfold parse
  rw [parseExpr_eq, tokensOf_of_lookup_none hm]
  unfold parseTokens
  simp [h]

/-- both day fields set is rejected -/
theorem C07_rejects_both_days (s : Str) (hm : specialTable.lookup (trimExpr s) = none)
    (h : anyDay ((splitOn ' ' (trimExpr s)).getD 3 []) = false ∧
         anyDay ((splitOn ' ' (trimExpr s)).getD 5 []) = false) :
    parse {} s = none := by
  unfold parse
  rw [parseExpr_eq, tokensOf_of_lookup_none hm]
  generalize splitOn ' ' (trimExpr s) = toks at h
  unfold parseTokens
  split
  · rfl
  · dsimp only
    by_cases h6 : toks.length = 6
    · have e3 : (toks ++ [['*']]).getD 3 [] = toks.getD 3 [] := by
        simp [List.getD_eq_getElem?_getD, h6]
      have e5 : (toks ++ [['*']]).getD 5 [] = toks.getD 5 [] := by
        simp [List.getD_eq_getElem?_getD, h6]
      simp only [h6, if_true, e3, e5, h.1, h.2]
      rfl
    · simp only [h6, if_false, h.1, h.2]
      rfl

/-- a step whose increment is not a number in 1..upper is rejected, wherever it occurs -/
theorem C07_rejects_bad_step (t0 t1 : Str) (b : Bound) (names : List Str)
    (hsep : ¬ t1.contains '/') (hsep0 : ¬ t0.contains '/')
    (h : ∀ k, atoi t1 = some k → k < 1 ∨ k > b.upper) :
    parseStep (t0 ++ '/' :: t1) b names = none := by
  unfold parseStep
  rw [splitOn_two '/' t0 t1 hsep0 hsep]
  dsimp only
  cases hk : atoi t1 with
  | none =>
    split
    · rename_i hst; cases hst
    · rfl
  | some k =>
    have hbad : inScope k 1 b.upper = false := by
      rcases h k hk with h | h
      · simp [inScope]; omega
      · simp [inScope]; omega
    split
    · rename_i frm to step _ hst
      injection hst with hst; subst hst
      simp [hbad]
    · rfl

/-! ## documented meaning -/

/-- macros equal their expansions -/
theorem C07_macros : ∀ p ∈ specialTable, parse {} p.1 = parse {} p.2 := by decide

/-- whitespace is insignificant: the parse depends only on the normalised text -/
theorem C07_whitespace (s s' : Str) (h : trimExpr s = trimExpr s') : parse {} s = parse {} s' := by
  unfold parse; rw [h]

theorem specialTable_keys_no_space : ∀ p ∈ specialTable, ¬ (' ' ∈ p.1) := by decide

theorem lookup_with_space (x y : Str) : specialTable.lookup (x ++ ' ' :: y) = none := by
  rw [List.lookup_eq_none_iff]
  intro p hp
  have hk := specialTable_keys_no_space p hp
  simp only [bne_iff_ne, ne_eq]
  intro heq
  rw [← heq] at hk
  exact hk (by simp)

/-- a missing year means every year -/
theorem C07_missing_year (s : Str) (hm : specialTable.lookup (trimExpr s) = none)
    (h6 : (splitOn ' ' (trimExpr s)).length = 6) :
    parse {} s = parseExpr {} (trimExpr s ++ " *".toList) := by
  have e : " *".toList = [' ', '*'] := rfl
  unfold parse
  rw [e, parseExpr_eq, parseExpr_eq, tokensOf_of_lookup_none hm,
    tokensOf_of_lookup_none (lookup_with_space _ _), splitOn_append_sep, parseTokens_six _ _ h6]
  rfl

/-! ## non-vacuity: the hypotheses are satisfiable on concrete, non-trivial inputs -/

section NonVacuity

def exAccepted : Str := "0 0/5 14,18 * JAN-mar ?".toList
def exAcceptedFields : Fields :=
  { sec := { values := [0] }, min := { values := [0, 5, 10, 15, 20, 25, 30, 35, 40, 45, 50, 55] },
    hour := { values := [14, 18] }, dom := { values := [] }, month := { values := [1, 2, 3] },
    dow := { values := [] }, year := { values := [] } }

/-- `parse_wellFormed` / `newTrigger_wellFormed` apply to a non-trivial accepted expression -/
example : parse {} exAccepted = some exAcceptedFields := by decide
example : newTrigger {} exAccepted = some exAcceptedFields := by decide
example : WellFormed exAcceptedFields = true := parse_wellFormed exAccepted _ (by decide)
/-- the all-wildcard expression: `finish` fills in the seconds -/
example : (newTrigger {} "* * * * * ?".toList).map (·.sec.values) = some (List.range 60) := by decide
/-- the special day rules are accepted in their own field … -/
example : (parse {} "0 15 10 L-2 * ?".toList).map (·.dom) = some { values := [], n := -2 } := by decide
example : (parse {} "0 15 10 15W * ?".toList).map (·.dom) = some { values := [15], n := 2 } := by decide
example : (parse {} "0 15 10 LW * ?".toList).map (·.dom) = some { values := [0], n := 3 } := by decide
example : (parse {} "0 15 10 ? * 6L".toList).map (·.dow) = some { values := [5], n := -1 } := by decide
example : (parse {} "0 15 10 ? * fri#3".toList).map (·.dow) = some { values := [5], n := 3 } := by decide
/-- … and rejected when misplaced, combined or out of range -/
example : parse {} "L 15 10 ? * ?".toList = none := by decide
example : parse {} "0 15 10 ? L ?".toList = none := by decide
example : parse {} "0 15 10 L,15 * ?".toList = none := by decide
example : parse {} "0 15 10 1-15W * ?".toList = none := by decide
example : parse {} "0 15 10 L-32 * ?".toList = none := by decide
example : parse {} "0 15 10 32W * ?".toList = none := by decide
example : parse {} "0 15 10 ? * 6#6".toList = none := by decide
example : parse {} "0 15 10 ? * 2,6L".toList = none := by decide
example : parse {} "0 15 10 ? * 6L#2".toList = none := by decide
example : parse {} "0 15 10 15 * 6#3".toList = none := by decide
/-- out-of-range / unknown values inside lists, ranges and steps -/
example : parse {} "0 15,60 10 * * ?".toList = none := by decide
example : parse {} "0 15 10-24 * * ?".toList = none := by decide
example : parse {} "0 15 10 * 0-3 ?".toList = none := by decide
example : parse {} "0 15 10 * JAN,FOO ?".toList = none := by decide
example : parse {} "0 60/5 10 * * ?".toList = none := by decide
example : parse {} "0 5-61/5 10 * * ?".toList = none := by decide
example : parse {} "0 15 10 * * ? 1969".toList = none := by decide

/-- `C07_rejects_field_count`: five and eight fields -/
example : parse {} "0 0 0 * *".toList = none :=
  C07_rejects_field_count _ (by decide) (Or.inl (by decide))
example : parse {} " 0 0 0 * * ? * * ".toList = none :=
  C07_rejects_field_count _ (by decide) (Or.inr (by decide))

/-- `C07_rejects_both_days` -/
example : parse {} "0 0 0 1 * 2".toList = none :=
  C07_rejects_both_days _ (by decide) ⟨by decide, by decide⟩

/-- `C07_rejects_bad_step`: zero, non-numeric, too large, empty -/
example : parseStep "0/0".toList ⟨0, 59⟩ [] = none :=
  C07_rejects_bad_step "0".toList "0".toList ⟨0, 59⟩ [] (by decide) (by decide)
    (fun k hk => by
      have e : atoi "0".toList = some 0 := by decide
      rw [e] at hk; injection hk with hk; subst hk; exact Or.inl (by decide))
example : parseStep "1-5/x".toList ⟨0, 59⟩ [] = none :=
  C07_rejects_bad_step "1-5".toList "x".toList ⟨0, 59⟩ [] (by decide) (by decide)
    (fun k hk => by
      have e : atoi "x".toList = none := by decide
      rw [e] at hk; cases hk)
example : parseStep "*/60".toList ⟨0, 59⟩ [] = none :=
  C07_rejects_bad_step "*".toList "60".toList ⟨0, 59⟩ [] (by decide) (by decide)
    (fun k hk => by
      have e : atoi "60".toList = some 60 := by decide
      rw [e] at hk; injection hk with hk; subst hk; exact Or.inr (by decide))
/-- … and the rejection propagates to the whole expression, also from inside a list -/
example : parse {} "0 0/0 * * * ?".toList = none := by decide
example : parse {} "0 1,0/0 * * * ?".toList = none := by decide
example : parse {} "0 1,2/x * * * ?".toList = none := by decide

/-- `parseField_inRange`: list with a step, a range and a name, lower/upper case -/
example : parseField "dec,1-3,2/5,Jun".toList ⟨1, 12⟩ monthNames =
    some { values := [1, 2, 2, 3, 6, 7, 12, 12] } := by decide

/-- `C07_whitespace`: tabs, newlines, runs of blanks, leading/trailing blanks -/
example : parse {} "  0\t 0/5  14,18\n*   JAN-mar ? \r\n".toList = parse {} exAccepted :=
  C07_whitespace _ _ (by decide)

/-- `C07_missing_year` -/
example : parse {} exAccepted = parseExpr {} "0 0/5 14,18 * JAN-mar ? *".toList :=
  C07_missing_year exAccepted (by decide) (by decide)
example : parse {} "0 0 0 1 1 ? *".toList = parse {} "0 0 0 1 1 ?".toList := by decide

/-- `C07_macros`, spelled out -/
example : parse {} "@yearly".toList = parse {} "0 0 0 1 1 *".toList := C07_macros (_, _) (by decide)
example : (parse {} "@hourly".toList).isSome = true := by decide

end NonVacuity

end Cron
