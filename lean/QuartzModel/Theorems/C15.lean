import QuartzModel.Generated.Facts
import QuartzModel.Proofs.FaultsLemmas
/-!
# C15 — the scheduler tolerates a failing or slow custom job queue

Model: `Sched/Faults.lean`. Every theorem quantifies over **all** fault assignments: the result of every queue call,
every clock reading and every `select` outcome (tick or interrupt) is an arbitrary input (`In` / `Plan`). The shape of
the loop's error handling is a parameter `S : Shape`; the theorems need the decidable `WF S`, which is discharged for
the shape regenerated from the source (`C15_facts_wf`).

Formalisation of "retries a failing queue no faster than once per RetryInterval" (`C15_backoff`): in every run whose
clock readings are monotone and whose timers do not fire early (`WellTimed`, the two guarantees of the Go runtime),
* after a `Pop()`/`Push()` error whose clock reading is `t`, no later iteration ticks (and so calls `Pop()`) before
  `t + RetryInterval` — whatever faults and however many interrupts follow;
* after a `Size()`/`Head()` error whose clock reading is `t` the timer of the same iteration is armed with
  `RetryInterval` and the same deadline `t + RetryInterval` is set: no later iteration ticks before it either;
* and until the deadline the loop does not ask the queue ANYTHING: an iteration inside the back-off window makes no
  `Size()` and no `Head()` call (the back-off test comes before `Size()`), so an interrupt token (an API call /
  `Reset()`) that ends the wait early only makes the loop arm the timer for the same deadline again
  (`C15_backoff`, `C15_backoff_step`, `C15_size_retry_kept` in `Theorems/C15F4.lean`; before the repair of finding F4
  every interrupt made the loop ask a failing `Size()` again: `C15_size_retry_full_fails`).
The real call rate is observed by `qh faults` (burst scenarios, also under API traffic).

Recovery (`C15_recovers`, `C15_deadline_not_postponed`): the back-off deadline is fixed when the error happens and
interrupts do not move it; fault-free iterations never touch it; outside the back-off window a fault-free iteration
is exactly an iteration of the loop without any back-off state, and even inside the window the loop pops, dispatches
and reschedules exactly what that loop would.

A queue that reports a size (and perhaps a due head) but has nothing to pop: `fetchAndReschedule` asks `Size()` again
under the queue lock and returns the empty `Pop()` like any other failed `Pop()` unless the answer is 0, so the
back-off applies (`C15_no_spin_on_empty_pop`) — but not to an honestly empty queue (`C15_honest_empty_pop`) — and
`calculateNextTick` arms `RetryInterval` when `Head()` answers `ErrQueueEmpty` (`C15_no_spin_on_spurious_empty`).

Negative controls: the loop without back-off state spins (`C15_backoff_fails_without_flag`); the loop with a `failed`
flag (the first repair) is starved by interrupts (`C15_interrupts_postpone_recovery`); `calculateNextTick` returning
the zero duration on `ErrQueueEmpty` and `fetchAndReschedule` returning `nil` for an empty `Pop()` spin on such queues
(`C15_spurious_empty_spins_unrepaired`, `C15_empty_pop_spins_unrepaired`); returning every empty `Pop()` as an error
(78e46a3) makes an honestly empty queue be polled for ever (`C15_empty_queue_keeps_polling`).

Not proved here: absence of panics and deadlocks of the real code and wall-clock latencies (harness, observed).
-/
namespace Generated.Faults
open _root_.Faults

def armOf (s : String) : Arm :=
  if s = "RetryInterval" then .retry else if s = "maxTimerDuration" then .max
  else if s = "calculateNextTick" then .nextTick else if s = "zero" then .zero
  else if s = "time.Until(retryAt)" then .untilRetry else .other

/-- the regenerated facts as a `Shape`. The case labels must appear in the order of the source; a missing,
    reordered or unknown case yields a shape that fails `WF`. -/
def shape : Shape :=
  let common (first : Bool) (a1 : String) (bo : Backoff) (a2 a3 a4 : String) : Shape :=
    { onSizeErr := armOf a1, backoff := bo, onBackoff := armOf a2, onEmpty := armOf a3, onDefault := armOf a4,
      backoffFirst := first && decide (sizeGuard = "guarded"), stateFromArm := stateFromArm,
      headErr := armOf headErrReturns, headEmpty := if headPositive then armOf headEmptyReturns else .other,
      stateFromTick := stateFromTick && execReturnsFetchErr, popErrReturned := popErrReturned,
      popEmpty := if popEmptyReturned && popEmptyUnlessSizeZero then .unlessSizeZero
        else if popEmptyReturned then .returned else .nil,
      pushErrReturned := pushErrReturned }
  match loopCases with
  | [("backingOff", a2), ("err != nil", a1), ("queueSize == 0", a3), ("default", a4)] =>
    common true a1 .deadline a2 a3 a4
  | [("err != nil", a1), ("time.Now().Before(retryAt)", a2), ("queueSize == 0", a3), ("default", a4)] =>
    common false a1 .deadline a2 a3 a4
  | [("err != nil", a1), ("failed", a2), ("queueSize == 0", a3), ("default", a4)] => common false a1 .flag a2 a3 a4
  | [("err != nil", a1), ("queueSize == 0", a3), ("default", a4)] => common false a1 .none "" a3 a4
  | _ => common false "" .none "" "" ""

def apiName : ApiCall → String
  | .schedulePush => "ScheduleJob.Push" | .deleteRemove => "DeleteJob.Remove" | .clearClear => "Clear.Clear"
  | .getGet => "GetScheduledJob.Get" | .keysList => "GetJobKeys.ScheduledJobs"
  | .pauseGet => "PauseJob.Get" | .pauseRemove => "PauseJob.Remove" | .pausePush => "PauseJob.Push"
  | .resumeGet => "ResumeJob.Get" | .resumeRemove => "ResumeJob.Remove" | .resumePush => "ResumeJob.Push"

/-- does the source return the error of this queue call unchanged? -/
def propagates (c : ApiCall) : Bool := (apiPropagates.lookup (apiName c)).getD false

end Generated.Faults

namespace Faults

/-! ## Back-off -/

/-- One iteration, any inputs:
    (1) a failing `Size()` / `Head()` arms `RetryInterval` in the same iteration and sets the deadline `retryAt` to its
        clock reading plus `RetryInterval` (a failing `Pop()` / `Push()` on the tick that follows can only move it
        further);
    (2) a failing `Pop()` / `Push()` (necessarily on a tick) sets the deadline `retryAt` to the clock reading plus
        `RetryInterval`;
    (3) before the deadline the timer is armed for exactly the deadline and the queue is asked nothing — no `Size()`,
        no `Head()`: the only queue calls of such an iteration are those of the tick, if the timer fires;
    (4) an interrupted iteration without a `Size()` / `Head()` error leaves the back-off state as it is. -/
theorem C15_backoff_step (S : Shape) (hS : WF S) (c : Cfg) (trig : Trig) (st : BState) (i : In) :
    ((iter S c trig st i).armErr = true → (iter S c trig st i).armed = c.R ∧
      (i.interrupted = true → (iter S c trig st i).st.retryAt = some (i.now2 + c.R)) ∧
      (i.now2 ≤ i.nowErr → ∃ r', (iter S c trig st i).st.retryAt = some r' ∧ i.now2 + c.R ≤ r')) ∧
    ((iter S c trig st i).tickErr = true →
      i.interrupted = false ∧ (iter S c trig st i).st.retryAt = some (i.nowErr + c.R)) ∧
    (∀ r, st.retryAt = some r → i.now1 < r → i.now2 + (iter S c trig st i).armed = r ∧
      (iter S c trig st i).armErr = false ∧
      (iter S c trig st i).calls = (if i.interrupted then [] else (fetch S c trig i).calls)) ∧
    (i.interrupted = true → (iter S c trig st i).armErr = false → (iter S c trig st i).st = st) := by
  refine ⟨fun h => ⟨iter_armErr S hS c trig st i h, ?_, iter_armErr_retryAt S hS c trig st i h⟩,
    iter_tickErr S hS c trig st i, ?_, ?_⟩
  · intro hint
    rw [(iter_interrupted S c trig st i hint).1, iter_armErr_st S hS c trig st i h]
  · intro r h2 h3
    have hb : inBackoff S st i.now1 = true := by simp [inBackoff, hS.2.1, h2, h3]
    refine ⟨?_, (iter_backoff_quiet S hS c trig st i hb).1, (iter_backoff_quiet S hS c trig st i hb).2.2⟩
    rw [iter_armed_backoff S hS c trig st i r h2 h3]; omega
  · intro hint harm
    rw [(iter_interrupted S c trig st i hint).1, harm, afterArm_noErr]

/-- For every sequence of inputs (every fault assignment, every pattern of interrupts) whose clock readings are
    monotone and whose timers do not fire early: if iteration `k` had a loop-side error, then
    * if it was a `Size()`/`Head()` error, read off the clock at `ik.now2`: the tick of the same iteration (and with it
      the next queue call, `Pop()`) came at least `RetryInterval` after the timer was armed unless an interrupt ended
      the wait — and WHATEVER ended the wait, **no** later iteration ticks before `ik.now2 + RetryInterval` and **no**
      later iteration asks `Size()` (the call that an iteration outside the back-off window begins with; inside it there
      is no `Size()` and no `Head()` call at all) before that moment: interrupts do not make the loop ask the failing
      queue again;
    * if it was a `Pop()`/`Push()` error, read off the clock at `ik.nowErr`, then **no** later iteration ticks before
      `ik.nowErr + RetryInterval` and none asks `Size()` before that moment: no queue call at all is attempted before
      it, whatever interrupts arrive. -/
theorem C15_backoff (S : Shape) (hS : WF S) (c : Cfg) (trig : Trig) (st0 : BState) (prev : Int) (ins : List In)
    (hwt : WellTimed S c trig st0 prev ins) (k : Nat) (ik : In) (ok : Out)
    (hik : ins[k]? = some ik) (hok : (runLoop S c trig st0 ins).1[k]? = some ok) :
    (ok.armErr = true → (ik.interrupted = false → ik.tArm + c.R ≤ ik.tickAt) ∧
      ∀ j ij oj, k < j → ins[j]? = some ij → (runLoop S c trig st0 ins).1[j]? = some oj →
        (ij.interrupted = false → ik.now2 + c.R ≤ ij.tickAt) ∧
        (∀ o, oj.calls.head? = some (.size, o) → ik.now2 + c.R ≤ ij.now1)) ∧
    (ok.tickErr = true → ∀ j ij, k < j → ins[j]? = some ij →
      (ij.interrupted = false → ik.nowErr + c.R ≤ ij.tickAt) ∧
      (∀ oj o, (runLoop S c trig st0 ins).1[j]? = some oj → oj.calls.head? = some (.size, o) →
        ik.nowErr + c.R ≤ ij.now1)) := by
  obtain ⟨t1, t2, t3, t4, t5, t6⟩ := wellTimed_at S c trig st0 prev ins hwt k ik ok hik hok
  have hst : ∃ stk, ok = iter S c trig stk ik := by
    clear hwt t6
    induction ins generalizing st0 k with
    | nil => simp at hik
    | cons i is ih =>
      cases k with
      | zero =>
        have hik' : i = ik := by simpa using hik
        have hok' : iter S c trig st0 i = ok := by simpa [runLoop] using hok
        subst hik'; exact ⟨st0, hok'.symm⟩
      | succ k =>
        simp only [List.getElem?_cons_succ] at hik
        simp only [runLoop, List.getElem?_cons_succ] at hok
        exact ih _ k hik hok
  obtain ⟨stk, rfl⟩ := hst
  refine ⟨?_, ?_⟩
  · intro herr
    refine ⟨?_, ?_⟩
    · intro hni
      have := t6 hni
      rw [iter_armErr S hS c trig stk ik herr] at this
      exact this
    · intro j ij oj hkj hij hoj
      exact after_deadline S hS c trig st0 prev ins hwt k ik _ hik hok (ik.now2 + c.R)
        (iter_armErr_retryAt S hS c trig stk ik herr (by omega)) (by omega) j ij oj hkj hij hoj
  · intro herr j ij hkj hij
    have hX : ∃ r, (iter S c trig stk ik).st.retryAt = some r ∧ ik.nowErr + c.R ≤ r :=
      ⟨_, (iter_tickErr S hS c trig stk ik herr).2, Int.le_refl _⟩
    refine ⟨?_, ?_⟩
    · intro hni
      have hlen : j < (runLoop S c trig st0 ins).1.length := by
        have hl : ∀ (st : BState) (l : List In), (runLoop S c trig st l).1.length = l.length := by
          intro st l
          induction l generalizing st with
          | nil => simp [runLoop]
          | cons x xs ih => simp [runLoop, ih]
        rw [hl]
        exact (List.getElem?_eq_some_iff.mp hij).1
      exact (after_deadline S hS c trig st0 prev ins hwt k ik _ hik hok (ik.nowErr + c.R) hX (Int.le_refl _) j ij
        _ hkj hij (List.getElem?_eq_getElem hlen)).1 hni
    · intro oj o hoj hsz
      exact (after_deadline S hS c trig st0 prev ins hwt k ik _ hik hok (ik.nowErr + c.R) hX (Int.le_refl _) j ij
        oj hkj hij hoj).2 o hsz

/-- the input of one iteration of the spinning scenario, everything happening at the instant `now`:
    one stored job whose fire time `f` has arrived, `Pop()` fails -/
def spinIn (f now : Int) : In :=
  { size := some 1, now1 := now, head := .ok f, now2 := now, tArm := now, interrupted := false, tickAt := now,
    pop := .err, size2 := some 1, nowVal := now, pushOk := true, nowErr := now }

/-- Negative control: the loop without back-off state (the code before the repairs) spins. With a due head and a
    failing `Pop()`, any number `n` of consecutive iterations can happen at one and the same instant — the input is
    well-timed — each arming the zero duration and making three queue calls: `3 n` calls in no time, and the bound of
    `C15_backoff` fails already between the first two iterations. -/
theorem C15_backoff_fails_without_flag (S : Shape) (hS : WF S) (c : Cfg) (trig : Trig) (f now : Int)
    (hdue : f ≤ now) (n : Nat) :
    (runLoop (plain S) c trig {} (List.replicate n (spinIn f now))).1 =
      List.replicate n
        { armed := 0, calls := [(.size, .ok), (.head, .ok), (.pop, .err)], dispatched := none, pushed := none,
          popped := none, armErr := false, tickErr := true, st := {} } ∧
    WellTimed (plain S) c trig {} now (List.replicate n (spinIn f now)) ∧
    (0 < c.R → (spinIn f now).tickAt < (spinIn f now).nowErr + c.R) := by
  obtain ⟨-, -, -, -, h5, -⟩ := hS
  have hnot : ¬ f > now := by omega
  have hit : iter (plain S) c trig {} (spinIn f now) =
      { armed := 0, calls := [(.size, .ok), (.head, .ok), (.pop, .err)], dispatched := none, pushed := none,
        popped := none, armErr := false, tickErr := true, st := {} } := by
    simp [iter, plain, spinIn, chooseArm, skipsSize, afterArm, inBackoff, h5, calcNextTick, hnot, fetch, Res.outcome,
      afterTick]
  refine ⟨?_, ?_, ?_⟩
  · induction n with
    | zero => simp [runLoop]
    | succ n ih => simp only [List.replicate_succ, runLoop, hit, ih]
  · induction n with
    | zero => simp [WellTimed]
    | succ n ih =>
      simp only [List.replicate_succ, WellTimed, hit]
      refine ⟨?_, ?_, ?_, ?_, ?_, ?_, ?_, ih⟩ <;> simp [spinIn]
  · intro hR; simp [spinIn]; omega

/-- Negative control: the loop with a `failed` flag that re-arms the full `RetryInterval` (the first repair).
    While `failed` is set, every interrupt restarts the back-off: under any stream of interrupts — API calls at
    intervals shorter than `RetryInterval` — the flag stays set, every iteration arms a fresh `RetryInterval` and
    nothing is ever dispatched, although the queue may long have recovered. -/
theorem C15_interrupts_postpone_recovery (S : Shape) (c : Cfg) (trig : Trig) (ins : List In)
    (hall : ∀ i ∈ ins, i.interrupted = true ∧ i.size.isSome = true) :
    (runLoop (flagVariant S) c trig { failed := true } ins).2 = { failed := true } ∧
    ∀ o ∈ (runLoop (flagVariant S) c trig { failed := true } ins).1, o.armed = c.R ∧ o.dispatched = none := by
  induction ins with
  | nil => simp [runLoop]
  | cons i is ih =>
    obtain ⟨hi1, hi2⟩ := hall i (by simp)
    have hA : ∀ b t, afterArm (flagVariant S) c { failed := true } b t = { failed := true } := by
      intro b t; unfold afterArm flagVariant; cases S.stateFromArm <;> simp
    have hi := iter_interrupted (flagVariant S) c trig { failed := true } i hi1
    rw [hA] at hi
    have ih' := ih (fun x hx => hall x (by simp [hx]))
    have harm : (iter (flagVariant S) c trig { failed := true } i).armed = c.R := by
      rw [iter_armed]
      cases hs : i.size with
      | none => simp [hs] at hi2
      | some n => simp [chooseArm, skipsSize, inBackoff, flagVariant]
    simp only [runLoop, hi.1, List.mem_cons]
    refine ⟨ih'.1, ?_⟩
    rintro o (rfl | ho)
    · exact ⟨harm, hi.2.1⟩
    · exact ih'.2 o ho

/-! ## A queue that reports a size (and a head) but has nothing to pop -/

/-- In every well-timed run, whatever the inputs: after a tick whose `Pop()` answered `ErrQueueEmpty` while the queue,
    asked again under the queue lock, still claimed to hold jobs or could not say (`size2 ≠ some 0`), read off the
    clock at `ik.nowErr`, no later iteration ticks — and so no `Pop()` is attempted — before
    `ik.nowErr + RetryInterval`. `fetchAndReschedule` returns such an empty `Pop()` like any other failed `Pop()`, so
    the loop's back-off applies; this covers a queue with a size and a due head but nothing to pop (another node of a
    clustered queue claimed the head) as well as a queue with a size and no head at all.
    (Not covered, and not true: a queue whose `Size()` alternates between non-zero at the top of the loop and zero
    inside `fetchAndReschedule` while its due head cannot be popped.) -/
theorem C15_no_spin_on_empty_pop (S : Shape) (hS : WF S) (c : Cfg) (trig : Trig) (st0 : BState) (prev : Int)
    (ins : List In) (hwt : WellTimed S c trig st0 prev ins) (k : Nat) (ik : In) (hik : ins[k]? = some ik)
    (hni : ik.interrupted = false) (hpop : ik.pop = .empty) (hsz : ik.size2 ≠ some 0) :
    ∀ j ij, k < j → ins[j]? = some ij → ij.interrupted = false → ik.nowErr + c.R ≤ ij.tickAt :=
  fun j ij hkj hij hnj =>
    backoff_after S hS c trig st0 prev ins hwt k ik hik hni (fetch_popEmpty S hS c trig ik hpop hsz) j ij hkj hij hnj

/-- For a queue whose `Size()` says non-empty (every time it is asked) while `Head()` and `Pop()` answer
    `ErrQueueEmpty`, in every well-timed
    run: nothing is dispatched, any two ticks are at least `RetryInterval` apart, and an iteration outside the
    back-off window arms `RetryInterval` (so the first tick, too, comes `RetryInterval` after its timer was armed,
    unless an interrupt ends the wait). -/
theorem C15_no_spin_on_spurious_empty (S : Shape) (hS : WF S) (c : Cfg) (trig : Trig) (st0 : BState) (prev : Int)
    (ins : List In) (hall : ∀ i ∈ ins, SpuriousEmpty i) (hwt : WellTimed S c trig st0 prev ins) :
    (∀ o ∈ (runLoop S c trig st0 ins).1, o.dispatched = none) ∧
    (∀ (k j : Nat) (ik ij : In), k < j → ins[k]? = some ik → ins[j]? = some ij → ik.interrupted = false →
      ij.interrupted = false → ik.nowErr + c.R ≤ ij.tickAt) ∧
    (∀ (st : BState) (i : In), i ∈ ins → inBackoff S st i.now1 = false →
      (iter S c trig st i).armed = c.R ∧ (i.interrupted = false → i.tArm + (iter S c trig st i).armed ≤ i.tickAt →
        i.tArm + c.R ≤ i.tickAt)) := by
  refine ⟨?_, ?_, ?_⟩
  · intro o ho
    obtain ⟨k, hk, hok⟩ := List.mem_iff_getElem.mp ho
    have hlen : (runLoop S c trig st0 ins).1.length = ins.length := by
      clear hall hwt ho hk hok
      induction ins generalizing st0 with
      | nil => simp [runLoop]
      | cons i is ih => simp [runLoop, ih]
    have hik : ins[k]? = some ins[k] := by simp
    have := (runLoop_tick_fields S c trig st0 ins k _ o hik (by simp [hk, hok])).2
    rw [this, (fetch_popEmpty_nothing S c trig _ (hall _ (List.getElem_mem _)).2.2.1).1]
    simp
  · intro k j ik ij hkj hik hij hni hnj
    have hmem : ik ∈ ins := List.mem_of_getElem? hik
    exact C15_no_spin_on_empty_pop S hS c trig st0 prev ins hwt k ik hik hni (hall ik hmem).2.2.1 (hall ik hmem).2.2.2
      j ij hkj hij hnj
  · intro st i hi hnb
    have := (iter_spurious S hS c trig st i (hall i hi) hnb).1
    refine ⟨this, ?_⟩
    intro _ h
    rw [this] at h
    exact h

/-- the input of one iteration of a spinning scenario, everything happening at the instant `now` -/
def spuriousIn (now : Int) : In :=
  { size := some 1, now1 := now, head := .empty, now2 := now, tArm := now, interrupted := false, tickAt := now,
    pop := .empty, size2 := some 1, nowVal := now, pushOk := true, nowErr := now }

/-- Negative control: `calculateNextTick` and `fetchAndReschedule` as they were before their repairs (zero duration
    on an empty `Head()`, `nil` on an empty `Pop()`). On a queue with a size but no head neither back-off applies, so
    any number `n` of iterations, three queue calls each, happen at one and the same instant in a well-timed run. -/
theorem C15_spurious_empty_spins_unrepaired (S : Shape) (hS : WF S) (c : Cfg) (trig : Trig) (now : Int) (n : Nat) :
    (runLoop (nilOnEmptyPop (zeroOnEmptyHead S)) c trig {} (List.replicate n (spuriousIn now))).1 =
      List.replicate n
        { armed := 0, calls := [(.size, .ok), (.head, .empty), (.pop, .empty)], dispatched := none, pushed := none,
          popped := none, armErr := false, tickErr := false, st := {} } ∧
    WellTimed (nilOnEmptyPop (zeroOnEmptyHead S)) c trig {} now (List.replicate n (spuriousIn now)) ∧
    SpuriousEmpty (spuriousIn now) := by
  obtain ⟨-, h2, -, -, h5, -, -, h8, -⟩ := hS
  have hit : iter (nilOnEmptyPop (zeroOnEmptyHead S)) c trig {} (spuriousIn now) =
      { armed := 0, calls := [(.size, .ok), (.head, .empty), (.pop, .empty)], dispatched := none, pushed := none,
        popped := none, armErr := false, tickErr := false, st := {} } := by
    simp [iter, zeroOnEmptyHead, nilOnEmptyPop, spuriousIn, chooseArm, skipsSize, afterArm, inBackoff, h2, h5,
      calcNextTick, fetch, Res.outcome, afterTick, h8]
  refine ⟨?_, ?_, ⟨⟨0, rfl⟩, rfl, rfl, by simp [spuriousIn]⟩⟩
  · induction n with
    | zero => simp [runLoop]
    | succ n ih => simp only [List.replicate_succ, runLoop, hit, ih]
  · induction n with
    | zero => simp [WellTimed]
    | succ n ih =>
      simp only [List.replicate_succ, WellTimed, hit]
      refine ⟨?_, ?_, ?_, ?_, ?_, ?_, ?_, ih⟩ <;> simp [spuriousIn]

/-- a due head `f ≤ now` that cannot be popped: `Pop()` answers `ErrQueueEmpty`; everything at the instant `now` -/
def emptyPopIn (f now : Int) : In :=
  { size := some 1, now1 := now, head := .ok f, now2 := now, tArm := now, interrupted := false, tickAt := now,
    pop := .empty, size2 := some 1, nowVal := now, pushOk := true, nowErr := now }

/-- Negative control: `fetchAndReschedule` as it was before its repair (`nil` when `Pop()` answers `ErrQueueEmpty`).
    With a due head that cannot be popped, any number `n` of iterations (`Size()`, `Head()`, `Pop()`) happen at one
    and the same instant in a well-timed run: the bound of `C15_no_spin_on_empty_pop` fails between the first two. -/
theorem C15_empty_pop_spins_unrepaired (S : Shape) (hS : WF S) (c : Cfg) (trig : Trig) (f now : Int) (hdue : f ≤ now)
    (n : Nat) :
    (runLoop (nilOnEmptyPop S) c trig {} (List.replicate n (emptyPopIn f now))).1 =
      List.replicate n
        { armed := 0, calls := [(.size, .ok), (.head, .ok), (.pop, .empty)], dispatched := none, pushed := none,
          popped := none, armErr := false, tickErr := false, st := {} } ∧
    WellTimed (nilOnEmptyPop S) c trig {} now (List.replicate n (emptyPopIn f now)) ∧
    (0 < c.R → (emptyPopIn f now).tickAt < (emptyPopIn f now).nowErr + c.R) := by
  obtain ⟨-, h2, -, -, h5, -, -, h8, -⟩ := hS
  have hnot : ¬ f > now := by omega
  have hit : iter (nilOnEmptyPop S) c trig {} (emptyPopIn f now) =
      { armed := 0, calls := [(.size, .ok), (.head, .ok), (.pop, .empty)], dispatched := none, pushed := none,
        popped := none, armErr := false, tickErr := false, st := {} } := by
    simp [iter, nilOnEmptyPop, emptyPopIn, chooseArm, skipsSize, afterArm, inBackoff, h2, h5, calcNextTick, hnot, fetch,
      Res.outcome, afterTick, h8]
  refine ⟨?_, ?_, ?_⟩
  · induction n with
    | zero => simp [runLoop]
    | succ n ih => simp only [List.replicate_succ, runLoop, hit, ih]
  · induction n with
    | zero => simp [WellTimed]
    | succ n ih =>
      simp only [List.replicate_succ, WellTimed, hit]
      refine ⟨?_, ?_, ?_, ?_, ?_, ?_, ?_, ih⟩ <;> simp [emptyPopIn]
  · intro hR; simp [emptyPopIn]; omega

/-! ## API methods return the queue's error -/

/-- If every queue call's error is returned unchanged (the regenerated facts say so: `C15_facts_api`), then every
    API method returns the error of the first of its queue calls that fails, and makes no further queue call. -/
theorem C15_api_propagates (F : ApiCall → Bool) (hF : ∀ c, F c = true) (e : QE) :
    scheduleJob F (some e) = (some (.queue e), [.push]) ∧
    deleteJob F (some e) = (some (.queue e), [.remove]) ∧
    clear F (some e) = (some (.queue e), [.clear]) ∧
    getScheduledJob F (some e) = (some (.queue e), [.get]) ∧
    getJobKeys F (some e) = (some (.queue e), [.list]) ∧
    (∀ r p, pauseJob F (.error e) r p = (some (.queue e), [.get])) ∧
    (∀ p, pauseJob F (.ok false) (some e) p = (some (.queue e), [.get, .remove])) ∧
    pauseJob F (.ok false) none (some e) = (some (.queue e), [.get, .remove, .push]) ∧
    (∀ t r p, resumeJob F (.error e) t r p = (some (.queue e), [.get])) ∧
    (∀ p, resumeJob F (.ok true) true (some e) p = (some (.queue e), [.get, .remove])) ∧
    resumeJob F (.ok true) true none (some e) = (some (.queue e), [.get, .remove, .push]) := by
  simp [scheduleJob, deleteJob, clear, getScheduledJob, getJobKeys, pauseJob, resumeJob, ret, hF]

/-- and a method returns `nil` only if every queue call it made succeeded -/
theorem C15_api_nil_only_if_all_ok (F : ApiCall → Bool) (hF : ∀ c, F c = true) :
    (∀ p, (scheduleJob F p).1 = none → p = none) ∧
    (∀ r, (deleteJob F r).1 = none → r = none) ∧
    (∀ r, (clear F r).1 = none → r = none) ∧
    (∀ r, (getScheduledJob F r).1 = none → r = none) ∧
    (∀ r, (getJobKeys F r).1 = none → r = none) ∧
    (∀ g r p, (pauseJob F g r p).1 = none → g = .ok false ∧ r = none ∧ p = none) ∧
    (∀ g t r p, (resumeJob F g t r p).1 = none → g = .ok true ∧ t = true ∧ r = none ∧ p = none) := by
  refine ⟨?_, ?_, ?_, ?_, ?_, ?_, ?_⟩
  · intro p; cases p <;> simp [scheduleJob, ret, hF]
  · intro p; cases p <;> simp [deleteJob, ret, hF]
  · intro p; cases p <;> simp [clear, ret, hF]
  · intro p; cases p <;> simp [getScheduledJob, ret, hF]
  · intro p; cases p <;> simp [getJobKeys, ret, hF]
  · intro g r p
    rcases g with e | b
    · simp [pauseJob, ret, hF]
    · cases b <;> cases r <;> cases p <;> simp [pauseJob, ret, hF]
  · intro g t r p
    rcases g with e | b
    · simp [resumeJob, ret, hF]
    · cases b <;> cases t <;> cases r <;> cases p <;> simp [resumeJob, ret, hF]

/-! ## No fire time is executed twice -/

/-- Structure of one iteration, for any shape and any inputs: a dispatch happens only on a tick, only of the entry a
    successful `Pop()` returned (so at its popped fire time); a push-back happens only after a successful pop and
    stores the popped job. -/
theorem C15_dispatch_after_pop (S : Shape) (c : Cfg) (trig : Trig) (st : BState) (i : In) :
    (∀ e, (iter S c trig st i).dispatched = some e → i.interrupted = false ∧ i.pop = .ok e) ∧
    (∀ e', (iter S c trig st i).pushed = some e' →
        i.interrupted = false ∧ ∃ e, i.pop = .ok e ∧ e'.key = e.key) := by
  unfold iter
  simp only
  cases hint : i.interrupted
  · simp only [Bool.false_eq_true, ↓reduceIte]
    unfold fetch
    cases hp : i.pop with
    | err => simp
    | empty => cases S.popEmpty <;> simp
    | ok e =>
      simp only
      cases hv : (validate c trig e i.nowVal).2 with
      | none =>
        simp only
        refine ⟨?_, by simp⟩
        intro e' he'; split at he' <;> simp at he'; subst he'; simp
      | some t =>
        simp only
        cases hpo : i.pushOk
        · simp only [Bool.false_eq_true, ↓reduceIte]
          refine ⟨?_, by simp⟩
          intro e' he'; split at he' <;> simp at he'; subst he'; simp
        · simp only [↓reduceIte]
          refine ⟨?_, ?_⟩
          · intro e' he'; split at he' <;> simp at he'; subst he'; simp
          · intro e' he'; simp at he'; subst he'; simp
  · simp

/-- the queue calls of one `fetchAndReschedule`: one `Pop()`; after an empty one possibly one `Size()`; after a
    successful one at most one `Push()` -/
theorem C15_one_push_per_pop (S : Shape) (c : Cfg) (trig : Trig) (i : In) :
    (fetch S c trig i).calls = [(.pop, .err)] ∨ (fetch S c trig i).calls = [(.pop, .empty)] ∨
    (fetch S c trig i).calls = [(.pop, .empty), (.size, .ok)] ∨
    (fetch S c trig i).calls = [(.pop, .empty), (.size, .err)] ∨
    (fetch S c trig i).calls = [(.pop, .ok)] ∨ (fetch S c trig i).calls = [(.pop, .ok), (.push, .ok)] ∨
    (fetch S c trig i).calls = [(.pop, .ok), (.push, .err)] := by
  unfold fetch
  cases i.pop with
  | err => simp
  | empty => cases S.popEmpty <;> simp; cases i.size2 <;> simp
  | ok e =>
    simp only
    cases (validate c trig e i.nowVal).2 with
    | none => simp
    | some t => cases i.pushOk <;> simp

/-- … and these are the only `Pop()`/`Push()` calls of an iteration: before them there are only `Size()`/`Head()`,
    at most one of each, in this order — and neither of them while the loop is backing off (well-formed shape: the
    back-off test comes first) -/
theorem C15_iter_calls (S : Shape) (c : Cfg) (trig : Trig) (st : BState) (i : In) :
    ∃ pre, (∀ x ∈ pre, x.1 = .size ∨ x.1 = .head) ∧
      (pre = [] ∨ (∃ o, pre = [(.size, o)]) ∨ (∃ o, pre = [(.head, o)]) ∨ (∃ o o', pre = [(.size, o), (.head, o')])) ∧
      (WF S → inBackoff S st i.now1 = true → pre = []) ∧
      (iter S c trig st i).calls = pre ++ (if i.interrupted then [] else (fetch S c trig i).calls) := by
  refine ⟨(if !skipsSize S st i.now1 then [(.size, if i.size.isSome then .ok else .err)] else []) ++
    (if decide (chooseArm S st i.size i.now1 = .nextTick) then [(.head, i.head.outcome)] else []), ?_, ?_, ?_, ?_⟩
  · intro x hx
    simp only [List.mem_append] at hx
    rcases hx with hx | hx
    · split at hx <;> simp at hx
      subst hx; simp
    · split at hx <;> simp at hx
      subst hx; simp
  · cases skipsSize S st i.now1 <;> cases decide (chooseArm S st i.size i.now1 = .nextTick) <;> simp
  · intro hS hb
    have h := (iter_backoff_quiet S hS c trig st i hb).2.1
    have hsk : skipsSize S st i.now1 = true := by simp [skipsSize, hb, hS.2.2.2.2.2.2.2.2.2.2.2.1]
    simp [hsk, h]
  · exact iter_calls_eq S c trig st i

/-- For ALL fault plans (any calls failing, any interrupts, any clock readings), over a queue that stores what is
    pushed (and on which a failed call has no effect), with triggers whose fire times strictly increase and distinct
    job keys: no (job, fire time) appears twice in the execution log. Holds for any shape of the error handling. -/
theorem C15_no_double_fire (S : Shape) (c : Cfg) (hthr : 0 ≤ c.thr) (trig : Trig)
    (hmono : ∀ k p t, trig k p = some t → p < t) (q0 : Queue) (hq : (q0.map (·.key)).Nodup) (st0 : BState)
    (ps : List Plan) : (dispatchLog (runQ S c trig ⟨st0, q0⟩ ps).1).Nodup := by
  have := runQ_nodup S c hthr trig hmono ps [] ⟨st0, q0⟩ ⟨hq, by simp⟩ (by simp)
  simpa using this

/-! ## Recovery -/

/-- The deadline is not postponed: under an arbitrary stream of interrupts the back-off state does not change as long
    as the queue does not fail anew AFTER the deadline (before the deadline it is not asked, so its answers — `size`,
    `head` of the inputs — are arbitrary and irrelevant); every iteration before the deadline `r` arms its timer for
    exactly `r` and asks the queue nothing; every iteration from `r` on is outside the back-off case. With timers that
    fire on time the loop therefore ticks at `r` at the latest, however dense the interrupt traffic is.
    (A `Size()` / `Head()` failure after the deadline starts a new back-off: `C15_backoff_step` (1).) -/
theorem C15_deadline_not_postponed (S : Shape) (hS : WF S) (c : Cfg) (trig : Trig) (st : BState) (r : Int)
    (hr : st.retryAt = some r) (ins : List In) (hall : ∀ i ∈ ins, i.interrupted = true)
    (hok : ∀ i ∈ ins, r ≤ i.now1 → i.size.isSome = true ∧ i.head ≠ .err) :
    (runLoop S c trig st ins).2 = st ∧
    ∀ (k : Nat) (ik : In) (ok : Out), ins[k]? = some ik → (runLoop S c trig st ins).1[k]? = some ok →
      (ik.now1 < r → ik.now2 + ok.armed = r ∧ ok.calls = []) ∧
      (r ≤ ik.now1 → inBackoff S st ik.now1 = false) := by
  induction ins with
  | nil => simp [runLoop]
  | cons i is ih =>
    have hint := hall i (by simp)
    have hi := iter_interrupted S c trig st i hint
    have harm : (iter S c trig st i).armErr = false := by
      by_cases hlt : i.now1 < r
      · exact ((C15_backoff_step S hS c trig st i).2.2.1 r hr hlt).2.1
      · obtain ⟨h1, h2⟩ := hok i (by simp) (by omega)
        rw [iter_armErr_eq]
        cases hs : i.size with
        | none => simp [hs] at h1
        | some n => simp [h2]
    rw [harm, afterArm_noErr] at hi
    have ih' := ih (fun x hx => hall x (by simp [hx])) (fun x hx => hok x (by simp [hx]))
    simp only [runLoop, hi.1]
    refine ⟨ih'.1, ?_⟩
    intro k ik ok hik hok'
    cases k with
    | zero =>
      have hik' : i = ik := by simpa using hik
      have hok'' : iter S c trig st i = ok := by simpa using hok'
      subst hik'; subst hok''
      refine ⟨fun hlt => ?_, ?_⟩
      · obtain ⟨a1, _, a3⟩ := (C15_backoff_step S hS c trig st i).2.2.1 r hr hlt
        exact ⟨a1, by rw [a3]; simp [hint]⟩
      · intro hge
        simp [inBackoff, hS.2.1, hr]; omega
    | succ k =>
      simp only [List.getElem?_cons_succ] at hik hok'
      exact ih'.2 k ik ok hik hok'

/-- Once no queue call fails any more (any clock readings, any interrupts, ticks on an honestly empty queue included):
    the back-off state is never touched again; the loop pops, dispatches and reschedules exactly what the loop
    without any back-off state does on the same queue (same execution log, same stored entries); and if the plans all
    lie outside the back-off window (their clock reading is at or after the deadline, or there is no deadline) the two
    loops coincide in every output: armed durations, queue calls, dispatches. -/
theorem C15_recovers (S : Shape) (hS : WF S) (c : Cfg) (trig : Trig) (s : LState) (ps : List Plan)
    (hps : ∀ p ∈ ps, p.faultFree = true) :
    (runQ S c trig s ps).2.st = s.st ∧
    (runQ S c trig s ps).2.q = (runQ (plain S) c trig ⟨{}, s.q⟩ ps).2.q ∧
    dispatchLog (runQ S c trig s ps).1 = dispatchLog (runQ (plain S) c trig ⟨{}, s.q⟩ ps).1 ∧
    ((∀ p ∈ ps, inBackoff S s.st p.now1 = false) →
      (runQ S c trig s ps).1 = (runQ (plain S) c trig ⟨{}, s.q⟩ ps).1.map (fun o => { o with st := s.st })) := by
  induction ps generalizing s with
  | nil => simp [runQ, dispatchLog]
  | cons p ps ih =>
    obtain ⟨st, q⟩ := s
    obtain ⟨h1, h2, h3⟩ := iterQ_vs_plain S hS c trig st q p (hps p (by simp))
    have hpl : (iterQ (plain S) c trig ⟨{}, q⟩ p).2 = ⟨{}, (iterQ (plain S) c trig ⟨{}, q⟩ p).2.q⟩ := by
      have := iterQ_plain_st S c trig q p
      generalize (iterQ (plain S) c trig ⟨{}, q⟩ p).2 = x at this
      cases x; simp_all
    obtain ⟨i1, i2, i3, i4⟩ := ih ⟨st, (iterQ (plain S) c trig ⟨{}, q⟩ p).2.q⟩ (fun p' h => hps p' (by simp [h]))
    simp only [runQ, dispatchLog_cons]
    rw [h1, h2, hpl]
    refine ⟨i1, i2, by rw [i3], ?_⟩
    intro hall
    rw [h3 (hall p (by simp)), i4 (fun p' h => hall p' (by simp [h]))]
    simp

/-- An honestly empty queue is not a failing queue: a tick whose `Pop()` answers `ErrQueueEmpty` and whose `Size()`,
    asked under the queue lock, answers 0 (the last job was deleted or cleared after the timer was armed) leaves the
    back-off state as the arming part of the iteration left it — as it was, unless `Size()` / `Head()` failed in this
    very iteration — in particular it does not start a back-off, and dispatches nothing. A job scheduled
    afterwards is therefore not held back (C05). -/
theorem C15_honest_empty_pop (S : Shape) (hS : WF S) (c : Cfg) (trig : Trig) (st : BState) (i : In)
    (hni : i.interrupted = false) (hpop : i.pop = .empty) (hsz : i.size2 = some 0) :
    ((iter S c trig st i).armErr = false → (iter S c trig st i).st = st) ∧
    (iter S c trig st i).st = afterArm S c st (iter S c trig st i).armErr i.now2 ∧
    (iter S c trig st i).dispatched = none ∧
    (iter S c trig st i).popped = none ∧ (iter S c trig st i).tickErr = false := by
  obtain ⟨e1, _, e3, e4, e5⟩ := iter_fields S c trig st i
  obtain ⟨n1, n2, _, n4⟩ := fetch_popEmpty_nothing S c trig i hpop
  have h5 : (iter S c trig st i).st = afterArm S c st (iter S c trig st i).armErr i.now2 := by
    rw [e5, fetch_popEmpty_honest S hS c trig i hpop hsz, afterTick_noErr S c _ _ hS]
    simp [hni]
  refine ⟨fun h => by rw [h5, h, afterArm_noErr], h5, ?_⟩
  rw [e1, e3, e4, n1, n2, n4]
  simp [hni]

/-- Negative control (the behaviour of 78e46a3, which returned every empty `Pop()` as an error): once a tick happens
    on an EMPTY queue, the queue is polled for ever. The back-off case of the `switch` precedes `queueSize == 0`, so
    the loop waits for the deadline instead of sleeping on `maxTimerDuration`; the tick at the deadline is an empty
    `Pop()`, which sets the next deadline. Fault-free inputs, nothing stored: every tick re-arms the back-off, and a
    job scheduled meanwhile waits for the end of the window. -/
theorem C15_empty_queue_keeps_polling (S : Shape) (hS : WF S) (c : Cfg) (trig : Trig) (st : BState) (p : Plan)
    (hp : p.faultFree = true) (hni : p.interrupted = false) :
    (iterQ (alwaysOnEmptyPop S) c trig ⟨st, []⟩ p).2 = ⟨{ st with retryAt := some (p.nowErr + c.R) }, []⟩ ∧
    (∀ r : Int, p.now1 < r →
      (iterQ (alwaysOnEmptyPop S) c trig ⟨{ st with retryAt := some r }, []⟩ p).1.armed = r - p.now2) := by
  simp only [Plan.faultFree, Bool.and_eq_true, Bool.not_eq_eq_eq_not, Bool.not_true] at hp
  obtain ⟨⟨⟨⟨hfs, _⟩, hpop⟩, _⟩, _⟩ := hp
  have hpe : (inOf [] p).pop = .empty := by simp [inOf, hpop]
  have hi : (inOf [] p).interrupted = false := by simp [inOf, hni]
  obtain ⟨_, e2, e3, _, e5⟩ := iter_fields (alwaysOnEmptyPop S) c trig st (inOf [] p)
  have hpp := (fetch_popEmpty_nothing (alwaysOnEmptyPop S) c trig (inOf [] p) hpe).2.1
  have hret : (fetch (alwaysOnEmptyPop S) c trig (inOf [] p)).retErr = true := by
    simp [fetch, hpe, alwaysOnEmptyPop]
  have hp' : p.faultFree = true := by simp [Plan.faultFree, *]
  have ha := iter_faultFree_armErr (alwaysOnEmptyPop S) c trig st [] p hp'
  refine ⟨?_, ?_⟩
  · simp only [iterQ, qAfter, e3, e5, hi, hpp, hret, ha, afterArm_noErr, Bool.false_eq_true, ↓reduceIte]
    simp [afterTick, alwaysOnEmptyPop, hS.2.2.2.2.2.2.2.1, hS.2.1, inOf]
  · intro r hlt
    simp only [iterQ]
    rw [iter_armed]
    simp [chooseArm, skipsSize, inBackoff, alwaysOnEmptyPop, inOf, hS.2.1, hS.2.2.1, hfs, hlt]

/-! ## The facts of the current source -/

theorem C15_facts_wf : WF Generated.Faults.shape := by decide

theorem C15_facts_api : ∀ c, Generated.Faults.propagates c = true := by
  intro c; cases c <;> decide

theorem C15_facts_dispatch : Generated.Faults.dispatchOnlyIfValid = true := by decide

/-- the back-off theorem for the loop as it is in the source now -/
theorem C15_holds (c : Cfg) (trig : Trig) (st0 : BState) (prev : Int) (ins : List In)
    (hwt : WellTimed Generated.Faults.shape c trig st0 prev ins) (k : Nat) (ik : In) (ok : Out)
    (hik : ins[k]? = some ik) (hok : (runLoop Generated.Faults.shape c trig st0 ins).1[k]? = some ok) :
    (ok.armErr = true → (ik.interrupted = false → ik.tArm + c.R ≤ ik.tickAt) ∧
      ∀ j ij oj, k < j → ins[j]? = some ij → (runLoop Generated.Faults.shape c trig st0 ins).1[j]? = some oj →
        (ij.interrupted = false → ik.now2 + c.R ≤ ij.tickAt) ∧
        (∀ o, oj.calls.head? = some (.size, o) → ik.now2 + c.R ≤ ij.now1)) ∧
    (ok.tickErr = true → ∀ j ij, k < j → ins[j]? = some ij →
      (ij.interrupted = false → ik.nowErr + c.R ≤ ij.tickAt) ∧
      (∀ oj o, (runLoop Generated.Faults.shape c trig st0 ins).1[j]? = some oj → oj.calls.head? = some (.size, o) →
        ik.nowErr + c.R ≤ ij.now1)) :=
  C15_backoff Generated.Faults.shape (by decide) c trig st0 prev ins hwt k ik ok hik hok

/-! ## Non-vacuity -/

def cfg0 : Cfg := { R := 50, M := 1000000, thr := 100 }
def trig0 : Trig := fun _ p => some (p + 30)

/-- `Pop()` fails at time 10; an interrupt at 20 does not move the deadline 60; the loop ticks at 60 -/
def plans0 : List Plan :=
  [{ Plan.at 10 with fPop := true },
   { Plan.at 20 with interrupted := true },
   { now1 := 21, now2 := 21, tArm := 21, tickAt := 60, nowVal := 60, nowErr := 60 },
   Plan.at 61]

example :
    (runQ Generated.Faults.shape cfg0 trig0 ⟨{}, [⟨1, 5⟩]⟩ plans0).1.map (·.armed) = [0, 40, 39, 0] ∧
    dispatchLog (runQ Generated.Faults.shape cfg0 trig0 ⟨{}, [⟨1, 5⟩]⟩ plans0).1 = [(1, 5), (1, 35)] ∧
    (runQ Generated.Faults.shape cfg0 trig0 ⟨{}, [⟨1, 5⟩]⟩ plans0).1.map (·.tickErr) = [true, false, false, false] ∧
    (runQ Generated.Faults.shape cfg0 trig0 ⟨{}, [⟨1, 5⟩]⟩ plans0).2 = ⟨{ retryAt := some 60 }, [⟨1, 65⟩]⟩ := by
  decide

/-- … and that run is well-timed: the hypotheses of `C15_backoff` are satisfiable with an error in it -/
example : WellTimed Generated.Faults.shape cfg0 trig0 {} 0 (plans0.foldl
    (fun (acc : List In × Queue) p =>
      (acc.1 ++ [inOf acc.2 p], (iterQ Generated.Faults.shape cfg0 trig0 ⟨{}, acc.2⟩ p).2.q)) ([], [⟨1, 5⟩])).1 := by
  decide

/-- the hypotheses of `C15_no_spin_on_spurious_empty` / `C15_no_spin_on_empty_pop` are satisfiable: two ticks, 50 apart -/
example :
    let ins : List In := [{ spuriousIn 0 with tickAt := 50, nowVal := 50, nowErr := 50 },
      { spuriousIn 50 with tickAt := 100, nowVal := 100, nowErr := 100 }]
    (∀ i ∈ ins, SpuriousEmpty i) ∧ WellTimed Generated.Faults.shape cfg0 trig0 {} 0 ins ∧
    (runLoop Generated.Faults.shape cfg0 trig0 {} ins).1.map (·.armed) = [50, 50] ∧
    (runLoop Generated.Faults.shape cfg0 trig0 {} ins).2 = { retryAt := some 150 } := by
  refine ⟨?_, by decide, by decide, by decide⟩
  intro i hi
  simp only [List.mem_cons, List.not_mem_nil, or_false] at hi
  rcases hi with rfl | rfl <;> exact ⟨⟨0, rfl⟩, rfl, rfl, by decide⟩

/-- a tick on an honestly empty queue in the middle of a back-off: the state is not touched (cf. 78e46a3: 110) -/
example : (iterQ Generated.Faults.shape cfg0 trig0 ⟨{ retryAt := some 60 }, []⟩ (Plan.at 60)).2 = ⟨{ retryAt := some 60 }, []⟩ ∧
    (iterQ (alwaysOnEmptyPop Generated.Faults.shape) cfg0 trig0 ⟨{ retryAt := some 60 }, []⟩ (Plan.at 60)).2 =
      ⟨{ retryAt := some 110 }, []⟩ := by decide

/-- the hypotheses of `C15_no_double_fire` are satisfiable and the log is non-empty -/
example : (∀ k p t, trig0 k p = some t → p < t) ∧ (([⟨1, 5⟩, ⟨2, 7⟩] : Queue).map (·.key)).Nodup ∧
    dispatchLog (runQ Generated.Faults.shape cfg0 trig0 ⟨{}, [⟨1, 5⟩, ⟨2, 7⟩]⟩
      [Plan.at 5, { Plan.at 7 with fPush := true }, Plan.at 35]).1
      = [(1, 5), (2, 7), (1, 35)] := by
  refine ⟨?_, by decide, by decide⟩
  intro k p t h; simp [trig0] at h; omega

end Faults
