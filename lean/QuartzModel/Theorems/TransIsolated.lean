import QuartzModel.Generated.TransLogger
import QuartzModel.Theorems.C17
/-!
# The translated isolated job (`Generated.TransLogger`: `isolatedJob.Execute`, `NewIsolatedJob`, regenerated from /repo/job/isolated_job.go
# by `harness/cmd/gotolean-logger`) performs the per-thread program of the hand-written model `Jobs.Isolated`

* `trans_isolated_call` : one `Execute` call in closed form, for every environment (Swap(true); busy error | delegate; Store(false) on EVERY exit)
* `pcStep` / `pcRun` : the model's per-thread program as an acceptor of events; `pcStep_is_Step` : every accepted event IS a `Step true`
* `trans_execute_program` : the event sequence of one translated call is accepted, ends where the model says, with the model's result
* transfers: `C17_fail_fast_trans`, `C17_fail_fast_steps`, `C17_reopens_trans`; `trans_isolated_facts` (the extractor's string facts are implied)
-/
set_option autoImplicit false
set_option linter.unusedSimpArgs false

namespace TransLogger
open Generated.TransLogger

variable {W A : Type}

/-- nothing of job/isolated_job.go is untranslated (an untranslatable change of package logger does not touch this one) -/
theorem trans_isolated_nothing_missing : Generated.TransLogger.missingJob = [] := by decide


section Isolated
open Jobs.Isolated

/-- the constructor keeps the job it was handed (whatever it is) and nothing else; the flag is not mentioned: it starts false
(idiom `ctor-isolatedJob`) -/
theorem trans_NewIsolatedJob (u : Option Ref) : NewIsolatedJob u = { Job := u } := rfl

/-- the error of a refused call -/
def busyErr : Option Err := some ⟨"job is running"⟩

/-- **one call of `(*isolatedJob).Execute`, in closed form**, for EVERY environment: one atomic `Swap(true)`; if it answers `true` the
call returns `errors.New("job is running")` and does nothing else (no delegate, NO store); otherwise the delegate runs once with the
caller's context, then `Store(false)` runs — whether the delegate returned nil, returned an error or PANICKED — and the delegate's own
outcome (its error, its panic) is what the caller gets. -/
theorem trans_isolated_call [Inhabited A] (X : Ext W A) (σ : St W A) (j : isolatedJob) (ctx : Option Ref) :
    isolatedJob.Execute X σ j ctx =
      if (X.swap σ.world "j.isRunning" true).2 = true then
        ({ world := (X.swap σ.world "j.isRunning" true).1, out := σ.out ++ [.swap "j.isRunning" true true] }, .returned busyErr)
      else
        ({ world := X.store (X.execute (X.swap σ.world "j.isRunning" true).1 j.Job ctx).1 "j.isRunning" false,
           out := σ.out ++ [.swap "j.isRunning" true false,
                            .execute j.Job ctx (X.execute (X.swap σ.world "j.isRunning" true).1 j.Job ctx).2,
                            .store "j.isRunning" false] },
         (X.execute (X.swap σ.world "j.isRunning" true).1 j.Job ctx).2) := by
  unfold isolatedJob.Execute isolatedJob.Execute.body
  simp only [St.swap, St.execute, St.store, busyErr]
  by_cases h : (X.swap σ.world "j.isRunning" true).2 = true
  · simp [h]
  · have h' : (X.swap σ.world "j.isRunning" true).2 = false := by simpa using h
    simp only [h', Bool.false_eq_true, if_false]
    cases (X.execute (X.swap σ.world "j.isRunning" true).1 j.Job ctx).2 <;> simp

/-- how the delegate was left, in the model's terms -/
def exitOf : CallResult (Option Err) → Exit
  | .returned none => .ok
  | .returned (some _) => .err
  | .panicked => .panic

/-- **the per-thread program of the hand model**, as an acceptor of events: which atomic action a thread at program counter `pc` may
perform, and where it goes (`none`: the model's thread cannot do this here).  `Swap` must write `true`, `Store` must write `false`. -/
def pcStep : PC → Event A → Option PC
  | .idle, .swap _ true old => some (if old then .rejected else .running)
  | .running, .execute _ _ r => some (.exiting (exitOf r))
  | .exiting e, .store _ false => some (.finished (.delegated e))
  | _, _ => none

def pcRun : PC → List (Event A) → Option PC
  | pc, [] => some pc
  | pc, e :: es => (pcStep pc e).bind (fun pc' => pcRun pc' es)

/-- what an event does to the shared flag -/
def flagAfter (flag : Bool) : Event A → Bool
  | .swap _ v _ => v
  | .store _ v => v
  | _ => flag

/-- **every accepted event IS a `Step true` of the model**: at any global state `s` in which thread `t` is at `pc`, provided a `Swap`
answered the flag's real value (one atomic read-modify-write), performing the event — flag effect `flagAfter`, thread `t` moves to the
accepted `pc'`, nobody else moves — is a step of `Jobs.Isolated.Step true`. -/
theorem pcStep_is_Step {n : Nat} (s : State n) (t : Fin n) (ev : Event A) (pc' : PC) (h : pcStep (s.pc t) ev = some pc')
    (hsw : ∀ f v old, ev = .swap f v old → old = s.flag) :
    Step true s t { flag := flagAfter s.flag ev, pc := setPc s.pc t pc' } := by
  cases hpc : s.pc t with
  | idle =>
    rw [hpc] at h
    cases ev with
    | swap f v old =>
      cases v with
      | false => simp [pcStep] at h
      | true =>
        simp only [pcStep, Option.some.injEq] at h
        have ho := hsw f true old rfl
        subst ho
        subst h
        exact Step.swap s t hpc
    | _ => simp [pcStep] at h
  | running =>
    rw [hpc] at h
    cases ev with
    | execute jb c r =>
      simp only [pcStep, Option.some.injEq] at h
      subst h
      exact Step.leave s t (exitOf r) hpc (.inl rfl)
    | _ => simp [pcStep] at h
  | exiting e =>
    rw [hpc] at h
    cases ev with
    | store f v =>
      cases v with
      | true => simp [pcStep] at h
      | false =>
        simp only [pcStep, Option.some.injEq] at h
        subst h
        exact Step.store s t e hpc
    | _ => simp [pcStep] at h
  | rejected => rw [hpc] at h; cases ev <;> simp [pcStep] at h
  | finished r => rw [hpc] at h; cases ev <;> simp [pcStep] at h

/-- the events one call adds to the record -/
def isoEvents [Inhabited A] (X : Ext W A) (σ : St W A) (j : isolatedJob) (ctx : Option Ref) : List (Event A) :=
  (isolatedJob.Execute X σ j ctx).1.out.drop σ.out.length

/-- **the sequence of atomic actions of one translated `Execute` call is a run of the model's per-thread program**, from `idle`:
either `swap(true)→true` ending in `rejected` (whose only step is `Step.refuse`: return the error `busy`), with the Go result
`errors.New("job is running")`; or `swap(true)→false, delegate, store(false)` ending in `finished (delegated e)` with `e` the way the
delegate was left — and the Go result is the delegate's own.  Nothing else is possible, for any environment. -/
theorem trans_execute_program [Inhabited A] (X : Ext W A) (σ : St W A) (j : isolatedJob) (ctx : Option Ref) :
    (isoEvents X σ j ctx = [.swap "j.isRunning" true true] ∧
      pcRun .idle (isoEvents X σ j ctx) = some .rejected ∧ (isolatedJob.Execute X σ j ctx).2 = .returned busyErr) ∨
    (∃ res, isoEvents X σ j ctx = [.swap "j.isRunning" true false, .execute j.Job ctx res, .store "j.isRunning" false] ∧
      pcRun .idle (isoEvents X σ j ctx) = some (.finished (.delegated (exitOf res))) ∧
      (isolatedJob.Execute X σ j ctx).2 = res) := by
  unfold isoEvents
  rw [trans_isolated_call]
  by_cases h : (X.swap σ.world "j.isRunning" true).2 = true
  · left
    simp [h, pcRun, pcStep]
  · have h' : (X.swap σ.world "j.isRunning" true).2 = false := by simpa using h
    right
    refine ⟨(X.execute (X.swap σ.world "j.isRunning" true).1 j.Job ctx).2, ?_⟩
    simp [h', pcRun, pcStep]

/-- `C17_fail_fast` for the translated code: a call whose `Swap` finds the flag set does not invoke the delegate, does not touch the flag
again, and returns the error; conversely the delegate is only ever invoked after a `Swap` that found the flag clear. -/
theorem C17_fail_fast_trans [Inhabited A] (X : Ext W A) (σ : St W A) (j : isolatedJob) (ctx : Option Ref) :
    ((X.swap σ.world "j.isRunning" true).2 = true →
      isoEvents X σ j ctx = [.swap "j.isRunning" true true] ∧ (isolatedJob.Execute X σ j ctx).2 = .returned busyErr) ∧
    (∀ jb c r, Event.execute jb c r ∈ isoEvents X σ j ctx →
      (X.swap σ.world "j.isRunning" true).2 = false ∧ isoEvents X σ j ctx = [.swap "j.isRunning" true false, .execute jb c r, .store "j.isRunning" false]) := by
  unfold isoEvents
  rw [trans_isolated_call]
  by_cases h : (X.swap σ.world "j.isRunning" true).2 = true
  · simp [h]
  · have h' : (X.swap σ.world "j.isRunning" true).2 = false := by simpa using h
    simp only [h', Bool.false_eq_true, if_false, false_implies, true_and]
    intro jb c r hm
    simp at hm
    obtain ⟨rfl, rfl, rfl⟩ := hm
    simp

/-- the model's `C17_fail_fast`, instantiated on the steps the translated events denote: at a state where the flag is set, the call's
first event moves the thread to `rejected` and leaves the flag set; nobody else moves -/
theorem C17_fail_fast_steps {n : Nat} (s : State n) (t : Fin n) (hidle : s.pc t = .idle) (hflag : s.flag = true) :
    let ev : Event A := .swap "j.isRunning" true s.flag
    ∃ s', Step true s t s' ∧ s' = { flag := flagAfter s.flag ev, pc := setPc s.pc t .rejected } ∧
      s'.pc t = .rejected ∧ s'.flag = true ∧ ∀ u, u ≠ t → s'.pc u = s.pc u := by
  intro ev
  have hp : pcStep (A := A) (s.pc t) ev = some .rejected := by rw [hidle]; simp [ev, pcStep, hflag]
  have st := pcStep_is_Step s t ev .rejected hp (by intro f v old h; simp only [ev, Event.swap.injEq] at h; exact h.2.2.symm)
  have ff := C17_fail_fast st
  exact ⟨_, st, rfl, (ff.1 hidle hflag).1, (ff.1 hidle hflag).2, ff.2.2.2⟩

/-- `C17_reopens` for the translated code: whenever the delegate was invoked, the LAST event of the call is `Store(false)` — whether the
delegate returned nil, an error, or panicked -/
theorem C17_reopens_trans [Inhabited A] (X : Ext W A) (σ : St W A) (j : isolatedJob) (ctx : Option Ref)
    (h : (X.swap σ.world "j.isRunning" true).2 = false) :
    (isoEvents X σ j ctx).getLast? = some (.store "j.isRunning" false) ∧
    (isolatedJob.Execute X σ j ctx).1.world = X.store (X.execute (X.swap σ.world "j.isRunning" true).1 j.Job ctx).1 "j.isRunning" false := by
  unfold isoEvents
  rw [trans_isolated_call]
  simp [h]

/-- the string facts of the extractor (`C17_facts : generatedShape = {}`) are now IMPLIED by the translated code: statement order and
deferred store = `trans_isolated_call`; the constructor = `trans_NewIsolatedJob`; the remaining three (uses of the flag, its type, the
number of methods) are re-derived by the translator's own idiom checks and agree with the extractor's -/
theorem trans_isolated_facts :
    Generated.TransLogger.flagUses = Generated.Isolated.flagUses ∧ Generated.TransLogger.flagType = Generated.Isolated.flagType ∧
    Generated.TransLogger.isolatedMethods.length = Generated.Isolated.numMethods ∧
    Generated.TransLogger.flagUses = ({} : SourceShape).flagUses ∧ Generated.TransLogger.flagType = ({} : SourceShape).flagType ∧
    Generated.TransLogger.isolatedMethods.length = ({} : SourceShape).numMethods := by decide

/-! ### non-vacuity -/

/-- a world that IS the flag; the delegate's outcome is a parameter -/
def flagExt (r : CallResult (Option Err)) : Ext Bool String :=
  { isoBase with swap := fun w _ v => (v, w), store := fun _ _ v => v, execute := fun w _ _ => (w, r) }
where isoBase : Ext Bool String :=
  { output := fun w _ _ _ => (w, .returned none), enabled := fun w _ _ _ => (w, true), handle := fun w _ _ _ => (w, .returned none),
    swap := fun w _ _ => (w, false), store := fun w _ _ => w, execute := fun w _ _ => (w, .returned none) }

/-- a panicking delegate: swap, execute, store — the flag is clear afterwards and the panic propagates -/
example :
    let r := isolatedJob.Execute (flagExt .panicked) { world := false } (NewIsolatedJob (some 9)) none
    r.1.out = [.swap "j.isRunning" true false, .execute (some 9) none .panicked, .store "j.isRunning" false] ∧
    r.1.world = false ∧ r.2 = .panicked := by decide

/-- a call while the flag is set: one swap, the error, the flag stays set -/
example :
    let r := isolatedJob.Execute (flagExt (.returned none)) { world := true } (NewIsolatedJob (some 9)) none
    r.1.out = [.swap "j.isRunning" true true] ∧ r.1.world = true ∧ r.2 = .returned busyErr := by decide

/-- the accepted run of the panicking call, replayed on the model's two-thread example state `e3` (thread 1 already refused):
the three events are the steps `e3 → (thread 0 … )` of the hand-written example in Theorems/C17.lean -/
example : pcRun (A := String) .idle [.swap "j.isRunning" true false, .execute (some 9) none .panicked, .store "j.isRunning" false] =
    some (.finished (.delegated .panic)) := by decide

end Isolated

end TransLogger
