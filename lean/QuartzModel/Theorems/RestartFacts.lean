import QuartzModel.Generated.Facts
/-! # The loop's own reschedule sends the interrupt token (C05, C10)

Within one run the `Reset()` after the loop's re-`Push` is redundant (the loop re-reads the queue at the top of its next
iteration). Across `Stop; Start` it is not: the loop of the previous run may still be between its `Pop` and its `Push`
(a slow trigger, a blocking job) when the loop of the new run parks on the queue that is empty meanwhile; the job put
back afterwards must wake the NEW loop — the interrupt channel is shared by successive runs for exactly this hand-over
(see also D19). The regenerated fact: in `fetchAndReschedule` the success branch of the re-`Push` calls `Reset()`, after
the mutation, under the queue lock. -/
namespace Facts
theorem loop_reschedule_sends_token : Generated.Wakeup.fetchAndReschedule = (true, true, true) := by decide
end Facts
