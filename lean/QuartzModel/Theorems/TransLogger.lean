import QuartzModel.Proofs.TransLoggerLemmas
import QuartzModel.Theorems.C18
/-!
# The translated loggers (`Generated.TransLogger`, regenerated from /repo by `harness/cmd/gotolean-logger`)
# compute what the hand-written models compute

Model side: `Logger` (Logger/Simple.lean: `enabled`, `formatMessage`, `simpleLog`, the level/prefix table, `lstep`/`lrun`, `slogLevel`,
`slogLog`, `noopLog`).  The isolated job of the same generated file is in `Theorems/TransIsolated.lean`.

## SimpleLogger
* `trans_level_table`, `trans_enabled`, `trans_NewSimpleLogger` — constants, prefixes, the filter, the constructor
* `trans_formatMessage` : `formatMessage F msg args = Logger.formatMessage msg (renderArgs F args)` for EVERY rendering `F` of `any`
* `trans_simpleCall` : the events of one call of a level method, in closed form (lock, SetPrefix own label, Output depth 3 of the formatted
  message, unlock — also when `Output` panics; nothing when filtered out)
* `trans_simpleLog` : the bytes written per call (`linesOf`, the contract of `log.Logger.Output` with flags 0) = `Logger.simpleLog`
* `trans_erun` : EVERY interleaving of the recorded events of any number of goroutines = the hand model's `lrun` (step for step)
* transfers: `C18_filter_trans`, `C18_filter_line_trans`, `C18_off_silences_all_trans`, `C18_format_trans`, `C18_label_trans`,
  `C18_mutex_trans`

## SlogLogger, NoOpLogger
* `log_spec`, `trans_slogCall` : a level method = `log` with `Logger.slogLevel lv`; `log` in closed form (Enabled guard, Callers(3), one record, Handle)
* `trans_slogLog` : the records handed to the handler = `Logger.slogLog`; `trans_NewSlogLogger`
* transfers: `C18_slog_level_map_trans`, `C18_noop_trans` (+ `trans_noop_bodies`)
-/
set_option autoImplicit false
set_option linter.unusedSimpArgs false

namespace TransLogger
open Generated.TransLogger

variable {W A : Type}

theorem trans_logger_nothing_missing : Generated.TransLogger.missing = [] := by decide

/-- the part of `missing` that concerns package logger (an untranslatable change of job/isolated_job.go does not touch this one) -/
theorem trans_logger_area_nothing_missing : Generated.TransLogger.missingLogger = [] := by decide

/-! ## constants, filter, constructor -/

/-- the `Level*` constants and the prefixes read from the source are the model's table -/
theorem trans_level_table :
    LevelTrace = Logger.levelTrace ∧ LevelDebug = Logger.levelDebug ∧ LevelInfo = Logger.levelInfo ∧
    LevelWarn = Logger.levelWarn ∧ LevelError = Logger.levelError ∧ LevelOff = Logger.levelOff ∧
    tracePrefix = Logger.Lvl.trace.label ∧ debugPrefix = Logger.Lvl.debug.label ∧ infoPrefix = Logger.Lvl.info.label ∧
    warnPrefix = Logger.Lvl.warn.label ∧ errorPrefix = Logger.Lvl.error.label := by decide

/-- `SimpleLogger.enabled` = `Logger.enabled` with the logger's threshold -/
theorem trans_enabled (l : SimpleLogger) (level : Int) : SimpleLogger.enabled l level = Logger.enabled l.level level := rfl

/-- the constructor stores the threshold and the `*log.Logger` it was handed -/
theorem trans_NewSimpleLogger (lg : Option Ref) (level : Int) :
    NewSimpleLogger lg level = { logger := lg, level := level } := rfl

/-! ## `formatMessage` -/

/-- **`formatMessage` = `Logger.formatMessage`** on the rendered arguments, for every message, every argument list (any length,
any values) and every rendering of `any` under `%s` / `%v` -/
theorem trans_formatMessage [Inhabited A] (F : Fmt A) (msg : String) (args : List A) :
    formatMessage F msg args = Logger.formatMessage msg (renderArgs F args) :=
  formatMessage_eq F msg args

/-- the hand model's reading "arguments are already rendered strings, `%s` and `%v` are the identity" is the instance `A := String` -/
def idFmt : Fmt String := { fmtS := id, fmtV := id }

theorem trans_formatMessage_strings (msg : String) (args : List String) :
    formatMessage idFmt msg args = Logger.formatMessage msg args := by
  rw [trans_formatMessage, renderArgs_map idFmt rfl]
  simp [idFmt]

/-! ## one call -/

/-- the events a call adds to the record -/
def newEvents [Inhabited A] (lv : Logger.Lvl) (F : Fmt A) (X : Ext W A) (σ : St W A) (l : SimpleLogger) (msg : String) (args : List A) :
    List (Event A) :=
  (simpleCall lv F X σ l msg args).1.out.drop σ.out.length

/-- **the events of one call**: filtered out ⇒ nothing at all; otherwise exactly `Lock`, `SetPrefix(<own label>)`,
`Output(3, formatMessage …)`, `Unlock` in this order — the `Unlock` also when `Output` panics (it is deferred) — and the panic,
not the error, of `Output` reaches the caller. -/
theorem trans_simpleCall [Inhabited A] (lv : Logger.Lvl) (F : Fmt A) (X : Ext W A) (σ : St W A) (l : SimpleLogger) (msg : String)
    (args : List A) :
    let m := Logger.formatMessage msg (renderArgs F args)
    let o := X.output σ.world l.logger 3 m
    (Logger.enabled l.level lv.value = true →
      newEvents lv F X σ l msg args = [.lock "l.mtx", .setPrefix l.logger lv.label, .output l.logger 3 m o.2, .unlock "l.mtx"] ∧
      (simpleCall lv F X σ l msg args).1.world = o.1 ∧ (simpleCall lv F X σ l msg args).2 = resultOf o.2) ∧
    (Logger.enabled l.level lv.value = false →
      newEvents lv F X σ l msg args = [] ∧ simpleCall lv F X σ l msg args = (σ, .returned ())) := by
  intro m o
  unfold newEvents
  rw [simpleCall_spec]
  constructor
  · intro h
    simp [h, callEvents, m, o]
  · intro h
    simp [h]

/-- what a `log.Logger` with flags 0 writes for a sequence of events: `Output` writes the CURRENT prefix, the text, and a newline unless
the text ends with one (`Logger.outputLine`, the contract of `log.Logger.Output`); `p` = the prefix before the first event -/
def linesOf : String → List (Event A) → List String
  | _, [] => []
  | _, .setPrefix _ q :: es => linesOf q es
  | p, .output _ _ s _ :: es => Logger.outputLine p s :: linesOf p es
  | p, _ :: es => linesOf p es

/-- **the line written per call = `Logger.simpleLog`**, whatever prefix the shared `log.Logger` had before -/
theorem trans_simpleLog [Inhabited A] (lv : Logger.Lvl) (F : Fmt A) (X : Ext W A) (σ : St W A) (l : SimpleLogger) (msg : String)
    (args : List A) (p0 : String) :
    linesOf p0 (newEvents lv F X σ l msg args) = (Logger.simpleLog l.level lv msg (renderArgs F args)).toList := by
  have h := trans_simpleCall lv F X σ l msg args
  simp only at h
  unfold Logger.simpleLog
  cases he : Logger.enabled l.level lv.value with
  | true => rw [(h.1 he).1]; simp [linesOf]
  | false => rw [(h.2 he).1]; simp [linesOf]

/-! ## C18 transferred: filter, format -/

/-- `C18_filter` for the translated methods: a line is written iff the level is at or above the threshold -/
theorem C18_filter_trans [Inhabited A] (lv : Logger.Lvl) (F : Fmt A) (X : Ext W A) (σ : St W A) (l : SimpleLogger) (msg : String)
    (args : List A) (p0 : String) :
    (∃ line, linesOf p0 (newEvents lv F X σ l msg args) = [line]) ↔ l.level ≤ lv.value := by
  rw [trans_simpleLog, ← Logger.C18_filter l.level lv msg (renderArgs F args)]
  cases Logger.simpleLog l.level lv msg (renderArgs F args) <;> simp

/-- `C18_filter_line`: what is written is the level's own prefix and the formatted message -/
theorem C18_filter_line_trans [Inhabited A] (lv : Logger.Lvl) (F : Fmt A) (X : Ext W A) (σ : St W A) (l : SimpleLogger)
    (msg : String) (args : List A) (p0 line : String) (h : linesOf p0 (newEvents lv F X σ l msg args) = [line]) :
    line = Logger.outputLine lv.label (formatMessage F msg args) ∧ l.level ≤ lv.value := by
  rw [trans_simpleLog] at h
  rw [trans_formatMessage]
  cases hs : Logger.simpleLog l.level lv msg (renderArgs F args) with
  | none => rw [hs] at h; simp at h
  | some line' =>
    rw [hs] at h
    simp at h
    subst h
    exact Logger.C18_filter_line l.level lv msg (renderArgs F args) line' hs

/-- `C18_off_silences_all`: a threshold of `LevelOff` or above records nothing — no lock, no prefix change, no output -/
theorem C18_off_silences_all_trans [Inhabited A] (lv : Logger.Lvl) (F : Fmt A) (X : Ext W A) (σ : St W A) (l : SimpleLogger)
    (msg : String) (args : List A) (h : LevelOff ≤ l.level) :
    newEvents lv F X σ l msg args = [] := by
  have hx := Logger.C18_off_silences_all l.level h lv msg (renderArgs F args)
  have he : Logger.enabled l.level lv.value = false := by
    unfold Logger.simpleLog at hx
    cases hc : Logger.enabled l.level lv.value with
    | false => rfl
    | true => rw [hc] at hx; simp at hx
  exact ((trans_simpleCall lv F X σ l msg args).2 he).1

/-- `C18_format` for the translated `formatMessage`: the text is `msg=<msg>` followed by the rendered arguments in order; nothing is dropped
or reordered; `n / 2` pairs and a lone item iff `n` is odd (`n` = the number of Go arguments) -/
theorem C18_format_trans [Inhabited A] (F : Fmt A) (msg : String) (args : List A) :
    formatMessage F msg args = Logger.expectedMessage msg (renderArgs F args) ∧
    (Logger.structured (renderArgs F args)).flat = renderArgs F args ∧ (renderArgs F args).length = args.length ∧
    (Logger.structured (renderArgs F args)).pairs.length = args.length / 2 ∧
    ((Logger.structured (renderArgs F args)).tail.isSome ↔ args.length % 2 = 1) := by
  have h := Logger.C18_format msg (renderArgs F args)
  rw [renderArgs_length] at h
  exact ⟨by rw [trans_formatMessage]; exact h.1, h.2.1, renderArgs_length F args, h.2.2.1, h.2.2.2⟩

/-! ## C18 transferred: the label under concurrency -/

/-- **every interleaving of the translated programs is the hand model's run, step for step**: goroutine `i` makes the calls `cwork i` on one
shared translated `SimpleLogger`; `sched` picks who takes the next atomic step (one recorded event; a filtered-out call takes one silent
step).  The shared prefix variable, the mutex holder and the written lines evolve exactly as in `Logger.lrun` with the mutex. -/
theorem trans_erun [Inhabited A] (F : Fmt A) (X : Ext W A) (w : W) (l : SimpleLogger) (cwork : Nat → List (Call A))
    (sched : List Nat) :
    absS (erun (callProg F X w l) (einit cwork) sched) =
      Logger.lrun true l.level (Logger.linit (fun i => (cwork i).map Call.toRec)) sched := by
  have h := (erun_sim l.level (callProg F X w l) (callProg_isProg F X w l) sched (einit cwork) (einv_init _ _)).1
  rw [absS_einit] at h
  exact h

/-- `C18_label` for the translated code: in EVERY interleaving of any number of goroutines every written line carries the prefix of the
level it was logged at, and passed the filter -/
theorem C18_label_trans [Inhabited A] (F : Fmt A) (X : Ext W A) (w : W) (l : SimpleLogger) (cwork : Nat → List (Call A))
    (sched : List Nat) :
    ∀ e ∈ (erun (callProg F X w l) (einit cwork) sched).out, e.label = e.lvl.label ∧ l.level ≤ e.lvl.value := by
  have h := trans_erun F X w l cwork sched
  have hout : (erun (callProg F X w l) (einit cwork) sched).out =
      (Logger.lrun true l.level (Logger.linit (fun i => (cwork i).map Call.toRec)) sched).out := by rw [← h]; rfl
  rw [hout]
  exact Logger.C18_label l.level _ sched

/-- `C18_mutex`: two goroutines are never both between `Lock` and `Unlock` -/
theorem C18_mutex_trans [Inhabited A] (F : Fmt A) (X : Ext W A) (w : W) (l : SimpleLogger) (cwork : Nat → List (Call A))
    (sched : List Nat) (i j : Nat) :
    let s := erun (callProg F X w l) (einit cwork) sched
    pcOf (s.th i).k ≠ .start → pcOf (s.th j).k ≠ .start → i = j := by
  intro s hi hj
  have h := trans_erun F X w l cwork sched
  have := Logger.C18_mutex l.level (fun i => (cwork i).map Call.toRec) sched i j
  simp only at this
  rw [← h] at this
  exact this hi hj

/-! ## non-vacuity -/

/-- a concrete environment: `Output` succeeds -/
def okExt : Ext Unit String :=
  { output := fun w _ _ _ => (w, .returned none), enabled := fun w _ _ _ => (w, true), handle := fun w _ _ _ => (w, .returned none),
    swap := fun w _ _ => (w, false), store := fun w _ _ => w, execute := fun w _ _ => (w, .returned none) }

/-- … and one whose writer panics -/
def panicExt : Ext Unit String := { okExt with output := fun w _ _ _ => (w, .panicked) }

example : formatMessage idFmt "job done" ["key", "a/b", "took"] = "msg=job done, key=a/b, took" := by decide

example : linesOf "x" (newEvents .warn idFmt okExt { world := () } (NewSimpleLogger (some 1) LevelInfo) "job done" ["key", "a/b", "took"]) =
    ["WARN msg=job done, key=a/b, took\n"] := by decide

example : newEvents .info idFmt okExt { world := () } (NewSimpleLogger (some 1) LevelWarn) "x" [] = [] := by decide

/-- the mutex is released although `Output` panicked, and the panic reaches the caller -/
example :
    let r := SimpleLogger.Error idFmt panicExt { world := () } (NewSimpleLogger (some 1) LevelInfo) "m" []
    r.1.out = [.lock "l.mtx", .setPrefix (some 1) "ERROR ", .output (some 1) 3 "msg=m" .panicked, .unlock "l.mtx"] ∧
    r.2 = .panicked := by decide

/-- two goroutines, an interleaving in which goroutine 1 blocks on the mutex: both lines carry their own label -/
example :
    let cwork : Nat → List (Call String) := fun i =>
      if i = 0 then [⟨.warn, "a", []⟩] else if i = 1 then [⟨.error, "c", ["k"]⟩, ⟨.debug, "d", []⟩] else []
    (erun (callProg idFmt okExt () (NewSimpleLogger none LevelInfo)) (einit cwork) [0, 1, 0, 1, 0, 0, 1, 1, 1, 1, 1]).out.map
        (fun e => (e.label, e.msg)) = [("ERROR ", "c"), ("WARN ", "a")] := by
  decide

/-! ## SlogLogger -/

/-- the translated method of each level -/
def slogCall [Inhabited A] (lv : Logger.Lvl) (X : Ext W A) (σ : St W A) (l : SlogLogger) (msg : String) (args : List A) :
    St W A × CallResult Unit :=
  match lv with
  | .trace => SlogLogger.Trace X σ l msg args
  | .debug => SlogLogger.Debug X σ l msg args
  | .info => SlogLogger.Info X σ l msg args
  | .warn => SlogLogger.Warn X σ l msg args
  | .error => SlogLogger.Error X σ l msg args

theorem log_spec [Inhabited A] (X : Ext W A) (σ : St W A) (l : SlogLogger) (level : Int) (msg : String) (args : List A) :
    SlogLogger.log X σ l level msg args =
      if (X.enabled σ.world l.logger l.ctx level).2 = true then
        ({ world := (X.handle (X.enabled σ.world l.logger l.ctx level).1 l.logger l.ctx ⟨level, msg, args⟩).1,
           out := σ.out ++ [.enabled l.logger l.ctx level true, .callers 3,
             .handle l.logger l.ctx ⟨level, msg, args⟩
               (X.handle (X.enabled σ.world l.logger l.ctx level).1 l.logger l.ctx ⟨level, msg, args⟩).2] },
         resultOf (X.handle (X.enabled σ.world l.logger l.ctx level).1 l.logger l.ctx ⟨level, msg, args⟩).2)
      else
        ({ world := (X.enabled σ.world l.logger l.ctx level).1, out := σ.out ++ [.enabled l.logger l.ctx level false] },
         .returned ()) := by
  unfold SlogLogger.log
  simp only [St.enabled, St.emit, St.handle, Record.new, Record.add, List.nil_append]
  by_cases he : (X.enabled σ.world l.logger l.ctx level).2 = true
  · simp only [he, Bool.not_true, Bool.false_eq_true, if_false, if_true, resultOf]
    cases (X.handle (X.enabled σ.world l.logger l.ctx level).1 l.logger l.ctx ⟨level, msg, args⟩).2 <;> simp
  · have he' : (X.enabled σ.world l.logger l.ctx level).2 = false := by simpa using he
    simp [he']

/-- a method that only passes on the outcome of its one call IS that call -/
theorem passOn_eq {S : Type} (p : S × CallResult Unit) :
    (match p.2 with
      | .panicked => (p.1, CallResult.panicked)
      | .returned _ => (p.1, CallResult.returned ())) = p := by
  rcases p with ⟨a, b⟩
  cases b with
  | panicked => rfl
  | returned u => cases u; rfl

/-- **one call of a SlogLogger method** is `log` with `<level> = Logger.slogLevel lv` (Trace = Debug − 4 = −8): it asks
`Enabled(ctx, <level>)` on the stored logger and context; if the answer is no, nothing else happens; otherwise `runtime.Callers(3, …)`,
then ONE record with that level, the message and ALL arguments in order goes to `Handler().Handle` with the stored context (`log_spec`);
a panic of the handler, not its error, reaches the caller. -/
theorem trans_slogCall [Inhabited A] (lv : Logger.Lvl) (X : Ext W A) (σ : St W A) (l : SlogLogger) (msg : String) (args : List A) :
    slogCall lv X σ l msg args = SlogLogger.log X σ l (Logger.slogLevel lv) msg args := by
  cases lv <;>
  · simp only [slogCall, SlogLogger.Trace, SlogLogger.Debug, SlogLogger.Info, SlogLogger.Warn, SlogLogger.Error, Logger.slogLevel,
      LevelTrace]
    exact passOn_eq _

/-- the records handed to the handler -/
def handled : List (Event A) → List (Record A)
  | [] => []
  | .handle _ _ r _ :: es => r :: handled es
  | _ :: es => handled es

theorem handled_append (a b : List (Event A)) : handled (a ++ b) = handled a ++ handled b := by
  induction a with
  | nil => rfl
  | cons e es ih => cases e <;> simp [handled, ih]

/-- the hand model's record: attributes are `slog.Record.Add`'s pairing (contract of log/slog, `Logger.slogAttrs`) of the rendered arguments -/
def absRecord (render : A → String) (r : Record A) : Logger.SlogRecord :=
  { level := r.level, msg := r.msg, attrs := Logger.slogAttrs (r.args.map render) }

/-- **`SlogLogger.<Level>` = `Logger.slogLog`**: with `en level` = the handler's answer to `Enabled(ctx, level)` in the current world, the
records a call adds to what the handler has received are exactly the model's -/
theorem trans_slogLog [Inhabited A] (lv : Logger.Lvl) (X : Ext W A) (σ : St W A) (l : SlogLogger) (msg : String) (args : List A)
    (render : A → String) :
    (handled (slogCall lv X σ l msg args).1.out).map (absRecord render) =
      (handled σ.out).map (absRecord render) ++
        (Logger.slogLog (fun level => (X.enabled σ.world l.logger l.ctx level).2) lv msg (args.map render)).toList := by
  rw [trans_slogCall lv X σ l msg args, log_spec]
  unfold Logger.slogLog
  by_cases he : (X.enabled σ.world l.logger l.ctx (Logger.slogLevel lv)).2 = true
  · simp [handled_append, handled, absRecord, he]
  · have he' : (X.enabled σ.world l.logger l.ctx (Logger.slogLevel lv)).2 = false := by simpa using he
    simp [handled_append, handled, he']

/-- `C18_slog_level_map` for the translated methods: the level each method asks about and puts into the record is the numeric value of the
corresponding `logger.Level` (−8, −4, 0, 4, 8); a record reaches the handler iff the handler is enabled for that level; it carries that
level, the message and all arguments in order -/
theorem C18_slog_level_map_trans [Inhabited A] (lv : Logger.Lvl) (X : Ext W A) (σ : St W A) (l : SlogLogger) (msg : String)
    (args : List A) :
    let lvl := Logger.slogLevel lv
    let en := (X.enabled σ.world l.logger l.ctx lvl).2
    lvl = lv.value ∧
    (∃ rest, (slogCall lv X σ l msg args).1.out = σ.out ++ .enabled l.logger l.ctx lvl en :: rest ∧
      (en = false → rest = []) ∧
      (en = true → ∃ res, rest = [.callers 3, .handle l.logger l.ctx ⟨lvl, msg, args⟩ res])) := by
  intro lvl en
  refine ⟨(Logger.C18_slog_level_map.2.2.2.2.2.1) lv, ?_⟩
  rw [trans_slogCall lv X σ l msg args, log_spec]
  by_cases he : (X.enabled σ.world l.logger l.ctx (Logger.slogLevel lv)).2 = true
  · have hen : en = true := he
    refine ⟨[.callers 3, .handle l.logger l.ctx ⟨lvl, msg, args⟩
      (X.handle (X.enabled σ.world l.logger l.ctx lvl).1 l.logger l.ctx ⟨lvl, msg, args⟩).2], ?_, fun h => ?_, fun _ => ⟨_, rfl⟩⟩
    · simp [he, hen, lvl]
    · rw [hen] at h; cases h
  · have he' : (X.enabled σ.world l.logger l.ctx (Logger.slogLevel lv)).2 = false := by simpa using he
    have hen : en = false := he'
    refine ⟨[], ?_, fun _ => rfl, fun h => ?_⟩
    · simp [he', hen, lvl]
    · rw [hen] at h; cases h

/-- `NewSlogLogger`: panics on a nil logger; a nil context becomes `context.Background()`; otherwise both are stored as given -/
theorem trans_NewSlogLogger (ctx lg : Option Ref) :
    NewSlogLogger ctx lg =
      (match lg with
       | none => .panicked
       | some g => .returned { ctx := some (ctx.getD Ref.background), logger := some g }) := by
  unfold NewSlogLogger
  cases lg <;> cases ctx <;> rfl

/-! ## NoOpLogger -/

/-- the translated method of each level: no externals, no state — the type alone says it cannot record anything -/
def noopCall (lv : Logger.Lvl) (n : NoOpLogger) (msg : String) (args : List A) [Inhabited A] : Unit :=
  match lv with
  | .trace => NoOpLogger.Trace n msg args
  | .debug => NoOpLogger.Debug n msg args
  | .info => NoOpLogger.Info n msg args
  | .warn => NoOpLogger.Warn n msg args
  | .error => NoOpLogger.Error n msg args

/-- `C18_noop`: every NoOpLogger method has an empty body (it is translated as a function WITHOUT state argument, returning `()`), as the
model's `noopLog` = `none` -/
theorem C18_noop_trans [Inhabited A] (lv : Logger.Lvl) (n : NoOpLogger) (msg : String) (args : List A) (render : A → String) :
    noopCall lv n msg args = () ∧ Logger.noopLog lv msg (args.map render) = none :=
  ⟨rfl, rfl⟩

/-- every one of the five bodies unfolds to `()` (this is what breaks when a body gets a statement: the definition then takes `σ`) -/
theorem trans_noop_bodies [Inhabited A] (n : NoOpLogger) (msg : String) (args : List A) :
    NoOpLogger.Trace n msg args = () ∧ NoOpLogger.Debug n msg args = () ∧ NoOpLogger.Info n msg args = () ∧
    NoOpLogger.Warn n msg args = () ∧ NoOpLogger.Error n msg args = () := ⟨rfl, rfl, rfl, rfl, rfl⟩

/-- a handler enabled from Debug upwards: Trace is dropped after the `Enabled` question, Debug goes through with both arguments -/
def debugExt : Ext Unit String := { okExt with enabled := fun w _ _ lvl => (w, decide (lvl ≥ -4)) }

example :
    (slogCall .trace debugExt { world := () } ⟨some 0, some 5⟩ "m" ["k", "v"]).1.out = [.enabled (some 5) (some 0) (-8) false] ∧
    (slogCall .debug debugExt { world := () } ⟨some 0, some 5⟩ "m" ["k", "v", "z"]).1.out =
      [.enabled (some 5) (some 0) (-4) true, .callers 3, .handle (some 5) (some 0) ⟨-4, "m", ["k", "v", "z"]⟩ (.returned none)] := by
  decide

example : (handled (slogCall .debug debugExt { world := () } ⟨some 0, some 5⟩ "m" ["k", "v", "z"]).1.out).map (absRecord id) =
    [⟨-4, "m", [("k", "v"), ("!BADKEY", "z")]⟩] := by decide

example : NewSlogLogger none (some 7) = .returned ⟨some Ref.background, some 7⟩ ∧ NewSlogLogger (some 3) none = .panicked := by decide

end TransLogger
