import QuartzModel.Proofs.TransCronLemmas
import QuartzModel.Theorems.C14
/-!
# The hand-written model of `CronTrigger.NextFireTime` IS the translated Go code

`Generated.TransCron` (regenerated from `quartz/cron.go`, `quartz/util.go` by `harness/cmd/gotolean-cron` on every run)
contains the translation of `(*CronTrigger).NextFireTime` and `fires` — the retry loop over wall-clock candidates
around the state machine; the inner `newCSMFromFields(wall, ct.fields)` + `csm.NextTriggerTime(time.UTC)` are the
translated definitions of `Generated.Trans`.  This file proves, for ALL inputs,

* `trans_fires`               — translated `fires` = `Cron.fires`;
* `trans_zoneLoop`            — the translated `for {}` loop = `Cron.zoneLoop` (same loop fuel, any valid cursor);
* `trans_nextFireTime_zoneLoop`, `trans_nextFireTime` — translated `NextFireTime` = `Cron.nextFire {} f z prev` for every
  well-formed expression `f`, every location `z : Cron.Zone` with bounded offsets, EVERY int64 `prev` (negative ones
  included: Go's `prev / 1e9` + `if prev % 1e9 < 0 { prevSec-- }` is the model's floor division) and every fuel `> csmFuel`;

and (last section) the integer/slice helpers of the parser against `Cron/Parse.lean`;

and transfers C14 (`C14_sound`, `C14_no_miss`, `C14_expiry`, `C14_terminates`, `C14_total`, arbitrary `Zone`) and
C01 / C02 / C06 (fixed-offset locations) to the fully translated `NextFireTime` — this replaces the hand-written wrapper
`TransCsm.nextFireT` of `Proofs/TransTransfer.lean`.

Modelled, not translated: `Cron.goTime` (package `time` on UTC midnights, parameter of the state machine),
`TransCron.goClock` (package `time` on UTC seconds: `Cal.Civil.toSeconds` / `ofSeconds`, validated against Go by `cmd/cal`),
the location (`Cron.Zone`, nothing assumed about `date`), int64 overflow (none below `maxYear`), and the translator itself.
The Go results `(int64, error)` are `some (r, none)` / `some (0, some "ErrTriggerExpired")`; `none` = out of fuel.
-/
namespace TransCron
open Generated.TransCron Generated.Trans Cron Cal Odo TransRepr TransCsm

/-- every listed function was translated and every idiom was found in the source -/
theorem trans_cron_nothing_missing : Generated.TransCron.missing = [] := by decide

/-- translated `fires` (on `time.Time`s in the trigger's location; the wall reading in any location) = `Cron.fires` -/
theorem trans_fires (z : Zone) (ct : CronTrigger) (next w prevSec : Int) (b : Bool) :
    CronTrigger.fires (locOfZone z) ct ⟨next, false⟩ ⟨w, b⟩ ⟨prevSec, false⟩ = Cron.fires z next w prevSec :=
  fires_eq z ct next w prevSec b

/-- **the translated `for {}` loop of `NextFireTime` is `Cron.zoneLoop`**: any loop fuel, any cursor showing a valid wall
clock; `cf` is the fuel handed to the state machine -/
theorem trans_zoneLoop (f : Fields) (hwf : WellFormed f = true) (cf : Nat) (hcf : csmFuel + 1 ≤ cf) (z : Zone)
    (ct : CronTrigger) (hct : ct.fields = mkFields f) (prevSec prevOff : Int) (fuel : Nat)
    (wallT : Time) (wallM : Civil) (hv : wallM.Valid) (hy : wallM.year ≤ 3940) (hS : Shows z wallT wallM) :
    CronTrigger.NextFireTime.loop1 goTime goClock (locOfZone z) ct (Time.unixIn prevSec) prevOff cf fuel wallT =
      ofOutcome (zoneLoop {} f z prevSec prevOff fuel wallM) :=
  loop1_eq f hwf cf hcf z ct hct prevSec prevOff fuel wallT wallM hv hy hS

section main
variable (f : Fields) (hwf : WellFormed f = true) (z : Zone)
  (hz : ∀ u, -100000 ≤ z.offsetAt u ∧ z.offsetAt u ≤ 100000)
  (ct : CronTrigger) (hct : ct.fields = mkFields f) (prev : Int)
  (hmin : -9223372036854775808 ≤ prev) (hmax : prev ≤ 9223372036854775807)
  (fuel : Nat) (hfuel : csmFuel + 1 ≤ fuel)
include hwf hz hct hmin hmax hfuel

/-- the translated `NextFireTime` is the model's loop run with the same fuel, started at the reading of `⌊prev / 1e9⌋` -/
theorem trans_nextFireTime_zoneLoop :
    CronTrigger.NextFireTime goTime goClock (locOfZone z) ct prev fuel =
      ofOutcome (zoneLoop {} f z (prev / 1000000000) (z.offsetAt (prev / 1000000000)) fuel
        (Civil.ofSeconds (prev / 1000000000 + z.offsetAt (prev / 1000000000)))) := by
  obtain ⟨hv, hy⟩ := wall0_int64 (z.offsetAt (prev / 1000000000)) prev (hz _) hmin hmax
  have hfd := floorDiv prev
  simp only [CronTrigger.NextFireTime, decide_eq_true_eq, hfd]
  have ho : Time.zoneOffset (locOfZone z) (Time.unixIn (prev / 1000000000)) = z.offsetAt (prev / 1000000000) := by
    simp [Time.zoneOffset, Time.unixIn, locOfZone]
  rw [ho]
  exact loop1_eq f hwf fuel hfuel z ct hct _ _ fuel _ _ hv hy (shows_start z _)

/-- **the translated `(*CronTrigger).NextFireTime` is the model's `Cron.nextFire`**, for every int64 `prev` -/
theorem trans_nextFireTime :
    CronTrigger.NextFireTime goTime goClock (locOfZone z) ct prev fuel = ofOutcome (nextFire {} f z prev) := by
  rw [trans_nextFireTime_zoneLoop f hwf z hz ct hct prev hmin hmax fuel hfuel]
  obtain ⟨hv, hy⟩ := wall0_int64 (z.offsetAt (prev / 1000000000)) prev (hz _) hmin hmax
  have hne : zoneLoop {} f z (prev / 1000000000) (z.offsetAt (prev / 1000000000)) csmFuel
      (Civil.ofSeconds (prev / 1000000000 + z.offsetAt (prev / 1000000000))) ≠ .outOfFuel :=
    zoneLoop_fuel f hwf z _ _ _ _ hv hy (by rw [csmFuel_eq]; omega)
  rw [zoneLoop_mono f z _ _ csmFuel _ fuel (by omega) hne]
  rfl

/-! ## C14 for the translated `NextFireTime` (arbitrary location, every int64 `prev`: `hmin`, `hmax`) -/

/-- C14 soundness -/
theorem C14_sound_transCron (r : Int)
    (h : CronTrigger.NextFireTime goTime goClock (locOfZone z) ct prev fuel = some (r, none)) :
    r % 1000000000 = 0 ∧ prev < r ∧ Matches f (reading z (r / 1000000000)) := by
  rw [trans_nextFireTime f hwf z hz ct hct prev hmin hmax fuel hfuel] at h
  exact C14_sound f hwf z prev hmin hz r (ofOutcome_ok _ r h)

/-- C14 no-miss: a matching local reading that was passed over cannot be named after `prev` -/
theorem C14_no_miss_transCron (r : Int)
    (h : CronTrigger.NextFireTime goTime goClock (locOfZone z) ct prev fuel = some (r, none))
    (L : Civil) (hL : Matches f L)
    (h1 : Civil.lexLt (reading z (prev / 1000000000)) L)
    (h2 : Civil.lexLt L (reading z (r / 1000000000))) :
    ∀ u ∈ cands z (prev / 1000000000) L.toSeconds, ¬ Fires z (prev / 1000000000) L.toSeconds u := by
  rw [trans_nextFireTime f hwf z hz ct hct prev hmin hmax fuel hfuel] at h
  exact C14_no_miss f hwf z prev hmin hz r (ofOutcome_ok _ r h) L hL h1 h2

/-- C14 expiry: `ErrTriggerExpired` only when no matching reading ahead can be named after `prev` -/
theorem C14_expiry_transCron (r : Int) (e : String)
    (h : CronTrigger.NextFireTime goTime goClock (locOfZone z) ct prev fuel = some (r, some e))
    (L : Civil) (hL : Matches f L) (h1 : Civil.lexLt (reading z (prev / 1000000000)) L) :
    ∀ u ∈ cands z (prev / 1000000000) L.toSeconds, ¬ Fires z (prev / 1000000000) L.toSeconds u := by
  rw [trans_nextFireTime f hwf z hz ct hct prev hmin hmax fuel hfuel] at h
  exact C14_expiry f hwf z prev hmin hz (ofOutcome_expired _ r e h) L hL h1

/-- C14 termination: the translated retry loop ends (with any fuel above `csmFuel`) -/
theorem C14_terminates_transCron :
    CronTrigger.NextFireTime goTime goClock (locOfZone z) ct prev fuel ≠ none := by
  rw [trans_nextFireTime f hwf z hz ct hct prev hmin hmax fuel hfuel]
  intro h
  exact C14_terminates f hwf z prev hmin hz (ofOutcome_none _ h)

/-- C14 totality: a value strictly after `prev`, or `ErrTriggerExpired` -/
theorem C14_total_transCron :
    (∃ r, CronTrigger.NextFireTime goTime goClock (locOfZone z) ct prev fuel = some (r, none) ∧ prev < r) ∨
      CronTrigger.NextFireTime goTime goClock (locOfZone z) ct prev fuel = some (0, some "ErrTriggerExpired") := by
  rw [trans_nextFireTime f hwf z hz ct hct prev hmin hmax fuel hfuel]
  rcases C14_total f hwf z prev hmin hz with ⟨r, h, hr⟩ | h
  · exact Or.inl ⟨r, by rw [h]; rfl, hr⟩
  · exact Or.inr (by rw [h]; rfl)

end main

/-! ## C01 / C02 / C06 for the translated `NextFireTime` (fixed-offset locations) -/

section fixed
variable (f : Fields) (hwf : WellFormed f = true) (c : Int) (hc : -100000 ≤ c ∧ c ≤ 100000)
  (ct : CronTrigger) (hct : ct.fields = mkFields f) (prev : Int) (hp : -9223372036854775808 ≤ prev) (hmax : prev ≤ 9223372036854775807)
  (fuel : Nat) (hfuel : csmFuel + 1 ≤ fuel)
include hwf hc hct hp hmax hfuel

theorem trans_nextFireTime_fixed :
    CronTrigger.NextFireTime goTime goClock (locOfZone (fixedZone c)) ct prev fuel =
      ofOutcome (nextFire {} f (fixedZone c) prev) :=
  trans_nextFireTime f hwf (fixedZone c) (fun _ => hc) ct hct prev (by omega) hmax fuel hfuel

/-- C01 (soundness) for the translated `NextFireTime` -/
theorem C01_sound_transCron (r : Int)
    (h : CronTrigger.NextFireTime goTime goClock (locOfZone (fixedZone c)) ct prev fuel = some (r, none)) :
    r % 1000000000 = 0 ∧ prev < r ∧ Matches f (Civil.ofSeconds (r / 1000000000 + c)) := by
  rw [trans_nextFireTime_fixed f hwf c hc ct hct prev hp hmax fuel hfuel] at h
  exact C01_sound f hwf c prev hc hp r (ofOutcome_ok _ r h)

/-- C02 (minimality) for the translated `NextFireTime` -/
theorem C02_minimal_transCron (r : Int)
    (h : CronTrigger.NextFireTime goTime goClock (locOfZone (fixedZone c)) ct prev fuel = some (r, none)) :
    ∀ u : Int, prev < u → u < r → u % 1000000000 = 0 →
      ¬ Matches f (Civil.ofSeconds (u / 1000000000 + c)) := by
  rw [trans_nextFireTime_fixed f hwf c hc ct hct prev hp hmax fuel hfuel] at h
  exact C02_minimal f hwf c prev hc hp r (ofOutcome_ok _ r h)

/-- C06 (totality) for the translated `NextFireTime` -/
theorem C06_total_transCron :
    (∃ r, CronTrigger.NextFireTime goTime goClock (locOfZone (fixedZone c)) ct prev fuel = some (r, none) ∧ prev < r) ∨
      CronTrigger.NextFireTime goTime goClock (locOfZone (fixedZone c)) ct prev fuel =
        some (0, some "ErrTriggerExpired") := by
  rw [trans_nextFireTime_fixed f hwf c hc ct hct prev hp hmax fuel hfuel]
  rcases C06_total f hwf c prev hc hp with ⟨r, h, hr⟩ | h
  · exact Or.inl ⟨r, by rw [h]; rfl, hr⟩
  · exact Or.inr (by rw [h]; rfl)

end fixed

/-! ## non-vacuity -/

/-- the hypotheses are satisfiable: `0 30 * * * ?` in the spring-forward location of `Theorems/C14.lean`, prev = 13:30 local -/
example : WellFormed exHalf = true ∧ (∀ u, -100000 ≤ exSpring.offsetAt u ∧ exSpring.offsetAt u ≤ 100000) ∧
    (mkTrigger "0 30 * * * ?" exHalf 1).fields = mkFields exHalf :=
  ⟨exHalf_wf, exSpring_bounded, rfl⟩

/-- … and there the translated code skips the reading in the gap, as the model does (`exSpring_skip`) -/
example : CronTrigger.NextFireTime goTime goClock (locOfZone exSpring) (mkTrigger "0 30 * * * ?" exHalf 1)
    999000000000000 (csmFuel + 1) = some (1002600000000000, none) := by
  rw [trans_nextFireTime exHalf exHalf_wf exSpring exSpring_bounded _ rfl _ (by decide) (by decide) _ (Nat.le_refl _),
    exSpring_skip]
  rfl

/-- `* * * * * *` as `NewCronTrigger` stores it (full wildcard: seconds 0..59) -/
def exEverySecond : Fields :=
  { sec := ⟨List.range 60, 0⟩, min := ⟨[], 0⟩, hour := ⟨[], 0⟩, dom := ⟨[], 0⟩, month := ⟨[], 0⟩,
    dow := ⟨[], 0⟩, year := ⟨[], 0⟩ }

/-- a negative `prev` (1.5 s before 1970, UTC, every second): the hypotheses of `trans_nextFireTime` hold … -/
example : CronTrigger.NextFireTime goTime goClock (locOfZone (fixedZone 0)) (mkTrigger "* * * * * *" exEverySecond (-1))
    (-1500000000) (csmFuel + 1) = ofOutcome (nextFire {} exEverySecond (fixedZone 0) (-1500000000)) :=
  trans_nextFireTime _ (by decide) _ (fun _ => (⟨by decide, by decide⟩ : -100000 ≤ (0:Int) ∧ (0:Int) ≤ 100000)) _ rfl _ (by decide) (by decide) _ (Nat.le_refl _)

/-- … and the prev second is the floor `-2`, not the truncation `-1` -/
example : (-1500000000 : Int) / 1000000000 = -2 ∧ Int.tdiv (-1500000000) 1000000000 = -1 := by decide

/-- the transferred theorems at a `prev` before 1970: `0 0 12 * * ?`, UTC, one day and 1 ns before the epoch -/
theorem exNoon_neg_transCron :
    CronTrigger.NextFireTime goTime goClock (locOfZone (fixedZone 0)) (mkTrigger "0 0 12 * * ?" exNoon 0)
      (-86400000000001) (csmFuel + 1) = some (-43200000000000, none) := by
  rw [trans_nextFireTime_fixed exNoon exNoon_wf 0 (by omega) _ rfl _ (by omega) (by omega) _ (Nat.le_refl _),
    exNoon_neg]
  rfl

example : (-43200000000000 : Int) % 1000000000 = 0 ∧ (-86400000000001 : Int) < -43200000000000 ∧
    Matches exNoon (Civil.ofSeconds (-43200000000000 / 1000000000 + 0)) :=
  C01_sound_transCron exNoon exNoon_wf 0 (by omega) _ rfl _ (by omega) (by omega) _ (Nat.le_refl _) _
    exNoon_neg_transCron

example : ∀ u : Int, -86400000000001 < u → u < -43200000000000 → u % 1000000000 = 0 →
    ¬ Matches exNoon (Civil.ofSeconds (u / 1000000000 + 0)) :=
  C02_minimal_transCron exNoon exNoon_wf 0 (by omega) _ rfl _ (by omega) (by omega) _ (Nat.le_refl _) _
    exNoon_neg_transCron

/-- C14 (arbitrary location) at a negative `prev`: the spring-forward location, half an hour and 1 ns before the epoch -/
example : (-1800000000000 : Int) % 1000000000 = 0 ∧ (-1800000000001 : Int) < -1800000000000 ∧
    Matches exHalf (reading exSpring (-1800000000000 / 1000000000)) :=
  C14_sound_transCron exHalf exHalf_wf exSpring exSpring_bounded (mkTrigger "0 30 * * * ?" exHalf 1) rfl
    (-1800000000001) (by omega) (by omega) (csmFuel + 1) (Nat.le_refl _) _
    (by rw [trans_nextFireTime exHalf exHalf_wf exSpring exSpring_bounded _ rfl _ (by omega) (by omega) _
          (Nat.le_refl _), exSpring_neg]; rfl)


/-! ## the integer/slice helpers of the parser

`inScope`, `fillRangeValues`, `fillStepValues` (quartz/util.go), `(*cronField).add` and the boundary table of
`buildCronField` (quartz/cron.go) against `Cron.inScope`, `Cron.fillRange`, `Cron.fillStep`, the `values.map (· - 1)` of
`Cron.buildFields` and the defaults of `Cron.Bounds` (`Cron/Parse.lean`).  The string/regexp code of the parser
(`normalize`, `translateLiteral(s)`, `extract*Values`, `parse*Field`, `trimCronExpression`) is not translated. -/

/-- `inScope` = `Cron.inScope`, all arguments -/
theorem trans_inScope (v lo hi : Int) : Generated.TransCron.inScope v lo hi = Cron.inScope v lo hi := by
  unfold Generated.TransCron.inScope Cron.inScope
  by_cases h1 : lo ≤ v <;> by_cases h2 : v ≤ hi <;> simp [h1, h2]

/-- the parser, lower and upper bound per field index -/
theorem trans_boundaryTable (bs : Bounds) (h : bs = {}) :
    buildCronField.table =
      [("parseField", (bs.sec.lower : Int), (bs.sec.upper : Int)), ("parseField", (bs.min.lower : Int), (bs.min.upper : Int)),
       ("parseField", (bs.hour.lower : Int), (bs.hour.upper : Int)), ("parseDayOfMonthField", (bs.dom.lower : Int), (bs.dom.upper : Int)),
       ("parseField", (bs.month.lower : Int), (bs.month.upper : Int)), ("parseDayOfWeekField", (bs.dow.lower : Int), (bs.dow.upper : Int)),
       ("parseField", (bs.year.lower : Int), (bs.year.upper : Int))] ∧ buildCronField.adds = [(5, -1)] := by
  subst h; decide

/-- `fillRangeValues(from, to)` = `Cron.fillRange` for all naturals (the arguments are in scope of a `boundary`, so ≥ 0),
with fuel for `to - from + 2` loop tests -/
theorem trans_fillRangeValues (frm to : Nat) (fuel : Nat) (hfuel : to + 3 ≤ fuel + frm) :
    fillRangeValues frm to fuel =
      some (match Cron.fillRange frm to with
            | none => ([], some "newCronParseError: fill range values")
            | some l => (ints l, none)) := by
  unfold fillRangeValues Cron.fillRange
  by_cases h : to < frm
  · have h' : (to : Int) < frm := by omega
    simp [h, h']
  · have h' : ¬ (to : Int) < frm := by omega
    simp only [h, h', decide_false, if_false, Bool.false_eq_true]
    have hl : (((to : Int) - frm) + 1).toNat = to - frm + 1 := by omega
    have := fillRange_loop to (to - frm + 1) frm 0 [] (List.replicate (to - frm + 1) 0) fuel (by simp) rfl (by omega) (by omega)
    simp only [List.nil_append] at this
    rw [hl, this]
    simp only [Option.bind_some, ints, List.map_map]
    congr 2
    apply List.map_congr_left
    intro d _
    simp only [Function.comp, Int.ofNat_eq_natCast]
    omega


/-- `fillStepValues(from, step, to)` = `Cron.fillStep` for all naturals (incl. the error case `step = 0`) -/
theorem trans_fillStepValues (frm step to : Nat) (fuel : Nat) (hfuel : to + 3 ≤ fuel + frm) :
    fillStepValues frm step to fuel =
      some (match Cron.fillStep frm step to with
            | none => ([], some "newCronParseError: fill step values")
            | some l => (ints l, none)) := by
  unfold fillStepValues Cron.fillStep
  by_cases h : to < frm ∨ step = 0
  · have h' : ((to : Int) < frm) ∨ ((step : Int) = 0) := by omega
    rcases h' with h' | h' <;> simp [h, h']
  · have h1 : ¬ (to : Int) < frm := by omega
    have h2 : ¬ (step : Int) = 0 := by omega
    have hs : 0 < step := by omega
    simp only [h, h1, h2, decide_false, if_false, Bool.false_eq_true, Bool.or_self]
    have hsub : (to : Int) - frm = ((to - frm : Nat) : Int) := by omega
    have hl : (Int.tdiv ((to : Int) - frm) step + 1).toNat = (to - frm) / step + 1 := by
      rw [hsub, Int.tdiv_eq_ediv_of_nonneg (by omega), ← Int.natCast_ediv]
      have : (0 : Int) ≤ (((to - frm) / step : Nat) : Int) := Int.natCast_nonneg _
      omega
    have hlo : ∀ d : Nat, d < (to - frm) / step + 1 → (frm : Int) + (d : Int) * step ≤ to := by
      intro d hd
      have : d * step ≤ to - frm := Nat.mul_le_of_le_div _ _ _ (by omega)
      have hc : ((d * step : Nat) : Int) = (d : Int) * step := Int.natCast_mul _ _
      omega
    have hhi : (to : Int) < (frm : Int) + (((to - frm) / step + 1 : Nat) : Int) * step := by
      have : to - frm < step * ((to - frm) / step + 1) := Nat.lt_mul_div_succ _ hs
      have hc : ((step * ((to - frm) / step + 1) : Nat) : Int) = (((to - frm) / step + 1 : Nat) : Int) * step := by
        rw [Int.natCast_mul, Int.mul_comm]
      omega
    have := fillStep_loop step to ((to - frm) / step + 1) frm 0 [] (List.replicate ((to - frm) / step + 1) 0) fuel
      (by simp) rfl hlo hhi (by
        have : (to - frm) / step ≤ to - frm := Nat.div_le_self _ _
        omega)
    simp only [List.nil_append] at this
    rw [hl, this]
    simp only [Option.bind_some, ints, List.map_map]
    congr 2


/-- `(*cronField).add(delta)` adds `delta` to every value (the model's `values.map (· - 1)` in `Cron.buildFields` for `delta = -1`) -/
theorem trans_cronField_add (cf : Generated.Trans.cronField) (delta : Int) :
    cronField.add cf delta = { cf with values := cf.values.map (· + delta) } := by
  obtain ⟨vs, n⟩ := cf
  have := add_loop delta vs [] n 0 rfl
  simp only [List.nil_append] at this
  simp only [cronField.add, idxRange, List.range_eq_range', this]


/-- the day-of-week shift `fields[5].add(-1)` is the model's `values.map (· - 1)` (values ≥ 1: `boundary{1, 7}`) -/
theorem trans_dowShift (fl : Field) (h : ∀ v ∈ fl.values, 1 ≤ v) :
    cronField.add (mkField fl) (-1) = mkField { fl with values := fl.values.map (· - 1) } := by
  rw [trans_cronField_add]
  simp only [mkField, ints, List.map_map]
  congr 1
  apply List.map_congr_left
  intro v hv
  have := h v hv
  simp only [Function.comp, Int.ofNat_eq_natCast]
  omega

example : fillRangeValues 3 7 10 = some ([3, 4, 5, 6, 7], none) := by decide
example : fillRangeValues 7 3 10 = some ([], some "newCronParseError: fill range values") := by decide
example : fillStepValues 5 15 59 100 = some ([5, 20, 35, 50], none) := by decide
example : cronField.add ⟨[1, 3, 7], 0⟩ (-1) = ⟨[0, 2, 6], 0⟩ := by decide
example : Generated.TransCron.inScope 1970 1970 3940 = true ∧ Generated.TransCron.inScope 0 1 31 = false := by decide

end TransCron

#print axioms TransCron.trans_cron_nothing_missing
#print axioms TransCron.trans_fires
#print axioms TransCron.trans_zoneLoop
#print axioms TransCron.trans_nextFireTime_zoneLoop
#print axioms TransCron.trans_nextFireTime
#print axioms TransCron.C14_sound_transCron
#print axioms TransCron.C14_no_miss_transCron
#print axioms TransCron.C14_expiry_transCron
#print axioms TransCron.C14_terminates_transCron
#print axioms TransCron.C14_total_transCron
#print axioms TransCron.C01_sound_transCron
#print axioms TransCron.C02_minimal_transCron
#print axioms TransCron.C06_total_transCron
#print axioms TransCron.trans_inScope
#print axioms TransCron.trans_boundaryTable
#print axioms TransCron.trans_fillRangeValues
#print axioms TransCron.trans_fillStepValues
#print axioms TransCron.trans_cronField_add
#print axioms TransCron.trans_dowShift
