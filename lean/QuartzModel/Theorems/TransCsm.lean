import QuartzModel.Proofs.TransLemmas
/-!
# The hand-written cron model IS the translated Go code — Stage A: `CommonNode`

`Generated.Trans` is regenerated from `/repo/internal/csm/*.go` and `/repo/quartz/csm.go` on every run by
`harness/cmd/gotolean`; these theorems say that, for ALL inputs, the translated definitions compute what the
hand-written model (`Cron.Nodes`) computes.  A change of the Go code changes the generated definitions and
the proofs below stop checking.

Stage A (this file): `trans_commonValid`, `trans_commonNext`, `trans_commonReset`, `trans_commonFindForward`
for every `CommonNode` whose fields are non-negative (`TransA.CommonWF`).
Stage B: `Proofs/TransDayLemmas.lean` (day node, with `T := Cron.goTime`);
Stage C: `Theorems/TransMachine.lean` (state machine).
-/
namespace TransCsm
open Generated.Trans Cron TransRepr TransA

/-- Go `(*CommonNode).isValid` = model `commonValid` -/
theorem trans_commonValid (n : CommonNode) (h : CommonWF n) :
    n.isValid = Cron.commonValid n.min.toNat n.max.toNat (n.values.map Int.toNat) n.value.toNat := by
  conv => lhs; rw [eq_mk n h]
  exact isValid_mk _ _ _ _

/-- Go `(*CommonNode).Next` = model `commonNext` (new value, overflowed) -/
theorem trans_commonNext (n : CommonNode) (h : CommonWF n) :
    n.Next = (let r := Cron.commonNext n.min.toNat n.max.toNat (n.values.map Int.toNat) n.value.toNat
              ({ n with value := (r.1 : Int) }, r.2)) := by
  conv => lhs; rw [eq_mk n h]
  rw [Next_mk]
  simp only [with_value n h]

/-- Go `(*CommonNode).Reset` = model `commonReset` -/
theorem trans_commonReset (n : CommonNode) (h : CommonWF n) :
    n.Reset = { n with value := (Cron.commonReset n.min.toNat n.max.toNat (n.values.map Int.toNat) : Int) } := by
  conv => lhs; rw [eq_mk n h]
  rw [Reset_mk, with_value n h]

/-- Go `(*CommonNode).findForward`: result code `unchanged` iff the digit is valid, otherwise `Next` is applied and
the code is `overflowed`/`advanced` — exactly what `Odo.advFrom` does with a level
(`if isValid then continue else let r := next …; … if r.2 then overflowFrom …`). -/
theorem trans_commonFindForward (n : CommonNode) (h : CommonWF n) :
    n.findForward =
      (if Cron.commonValid n.min.toNat n.max.toNat (n.values.map Int.toNat) n.value.toNat then (n, unchanged)
       else (let r := Cron.commonNext n.min.toNat n.max.toNat (n.values.map Int.toNat) n.value.toNat
             ({ n with value := (r.1 : Int) }, ffCode r.2))) := by
  conv => lhs; rw [eq_mk n h]
  rw [findForward_mk]
  simp only [with_value n h]
  split
  · rw [← eq_mk n h]
  · rfl

/-- the result codes are the Go constants `unchanged = 0`, `advanced = 1`, `overflowed = 2` (regenerated) -/
theorem trans_resultCodes : (unchanged, advanced, overflowed) = ((0 : Int), (1 : Int), (2 : Int)) := by decide

/-! ## non-vacuity -/

def exNode : CommonNode := { value := 31, min := 0, max := 59, values := [0, 15, 30, 45] }
theorem exNode_wf : CommonWF exNode := ⟨by decide, by decide, by decide, by decide⟩

example : exNode.isValid = false ∧ exNode.Next = ({ exNode with value := 45 }, false) ∧
    exNode.Reset = { exNode with value := 0 } ∧ exNode.findForward = ({ exNode with value := 45 }, advanced) := by
  decide
example : Cron.commonNext 0 59 [0, 15, 30, 45] 31 = (45, false) := by decide
example : ({ exNode with value := 45 } : CommonNode).Next = ({ exNode with value := 0 }, true) := by
  rw [trans_commonNext _ ⟨by decide, by decide, by decide, by decide⟩]; decide

end TransCsm

#print axioms TransCsm.trans_commonValid
#print axioms TransCsm.trans_commonNext
#print axioms TransCsm.trans_commonReset
#print axioms TransCsm.trans_commonFindForward
