import QuartzModel.Proofs.ZoneLemmas
/-!
# C14 — `NextFireTime` in a location with daylight-saving transitions

The location is an arbitrary `Zone` (`offsetAt`: offset in force at a UTC instant, `date`: the instant
`time.Date` picks for a wall-clock reading). The only assumption is that offsets are bounded
(|offset| ≤ 100000 s); nothing is assumed about `date`, nothing relates `offsetAt` at different
instants — the theorems hold however `time.Date` resolves gaps and overlaps.

* `C14_sound`: a returned value is a whole second strictly after `prev` whose local reading matches;
* `C14_no_miss`: a matching local reading that was passed over cannot be named after `prev` by either
  instant the code can form for it (removed by a spring-forward gap, or the earlier pass of a
  fall-back whose instant is not after `prev`);
* `C14_expiry`: expiry is only reported when that holds for every matching reading ahead;
* `C14_terminates`: the retry loop always ends (the fuel of the model is never exhausted);
* `C14_exact_away_from_transitions`, `C14_exact_is_least`: where the zone behaves like a fixed
  offset at `prev` and at the first candidate, the result is exactly the earliest matching local time;
* `C14_chain_increasing`: iterating never returns an instant twice;
* `C14_fixed_zone_is_special_case`: C01/C02/C06 are the fixed-offset instance of this loop.

Helpers are in `Proofs/ZoneLemmas.lean`.
-/
namespace Cron
open Cal Odo

/-- wall-clock reading of the UTC instant u (seconds) in zone z -/
def reading (z : Zone) (u : Int) : Civil := Civil.ofSeconds (u + z.offsetAt u)
/-- the instants the code can name for a wall-clock reading w (seconds-as-if-UTC), given prev -/
def cands (z : Zone) (prevSec w : Int) : List Int := [z.date w, w - z.offsetAt prevSec]
/-- a candidate shows the reading and lies after prev -/
def Fires (z : Zone) (prevSec w u : Int) : Prop := u + z.offsetAt u = w ∧ prevSec < u

instance (z : Zone) (prevSec w u : Int) : Decidable (Fires z prevSec w u) := by
  unfold Fires; infer_instance

/-- the model's `fires` is `Fires` -/
theorem fires_eq_true_iff (z : Zone) (u w prevSec : Int) :
    fires z u w prevSec = true ↔ Fires z prevSec w u := fires_iff z u w prevSec

theorem not_fires_of_rejected (z : Zone) (prevSec w : Int)
    (h : ZoneRejected z prevSec (z.offsetAt prevSec) w) :
    ∀ u ∈ cands z prevSec w, ¬ Fires z prevSec w u := by
  intro u hu
  simp only [cands, List.mem_cons, List.not_mem_nil, or_false] at hu
  rcases hu with rfl | rfl
  · exact h.1
  · exact h.2

/-- the reading returned for an `.ok` result is the matching reading the loop accepted -/
theorem C14_result_reading (f : Fields) (hwf : WellFormed f = true) (z : Zone) (prev : Int)
    (hp : -9223372036854775808 ≤ prev) (r : Int) (h : nextFire {} f z prev = .ok r) :
    ∃ next, r = next * 1000000000 ∧ next ∈ cands z (prev / 1000000000) (reading z next).toSeconds ∧
      Fires z (prev / 1000000000) (reading z next).toSeconds next ∧ Matches f (reading z next) := by
  obtain ⟨nw, next, hm, _, hcand, e1, e2, hr, _⟩ := nextFire_ok_spec f hwf z prev hp r h
  have hrd : reading z next = nw := by
    unfold reading
    rw [e1, Civil.ofSeconds_toSeconds nw (matches_valid f nw hm)]
  refine ⟨next, hr, ?_, ?_, ?_⟩
  · rw [hrd]
    simp only [cands, List.mem_cons, List.not_mem_nil, or_false]
    exact hcand
  · rw [hrd]; exact ⟨e1, e2⟩
  · rw [hrd]; exact hm

set_option linter.unusedVariables false in
/-- soundness: a returned value is a whole second strictly after prev whose wall-clock reading in
    the location satisfies the expression -/
theorem C14_sound (f : Fields) (hwf : WellFormed f = true) (z : Zone) (prev : Int) (hp : -9223372036854775808 ≤ prev)
    (hz : ∀ u, -100000 ≤ z.offsetAt u ∧ z.offsetAt u ≤ 100000)
    (r : Int) (h : nextFire {} f z prev = .ok r) :
    r % 1000000000 = 0 ∧ prev < r ∧ Matches f (reading z (r / 1000000000)) := by
  obtain ⟨nw, next, hm, _, _, e1, e2, hr, _⟩ := nextFire_ok_spec f hwf z prev hp r h
  subst hr
  have e : next * 1000000000 / 1000000000 = next := by omega
  refine ⟨by omega, by omega, ?_⟩
  unfold reading
  rw [e, e1, Civil.ofSeconds_toSeconds nw (matches_valid f nw hm)]
  exact hm

set_option linter.unusedVariables false in
/-- every matching local reading L that was passed over (strictly between prev's reading and the
    returned one) cannot be named after prev: each candidate instant either does not show L
    (spring-forward gap) or is not after prev (earlier pass of a fall-back) -/
theorem C14_no_miss (f : Fields) (hwf : WellFormed f = true) (z : Zone) (prev : Int) (hp : -9223372036854775808 ≤ prev)
    (hz : ∀ u, -100000 ≤ z.offsetAt u ∧ z.offsetAt u ≤ 100000)
    (r : Int) (h : nextFire {} f z prev = .ok r) (L : Civil) (hL : Matches f L)
    (h1 : Civil.lexLt (reading z (prev / 1000000000)) L)
    (h2 : Civil.lexLt L (reading z (r / 1000000000))) :
    ∀ u ∈ cands z (prev / 1000000000) L.toSeconds, ¬ Fires z (prev / 1000000000) L.toSeconds u := by
  obtain ⟨nw, next, hm, _, _, e1, _, hr, hrej⟩ := nextFire_ok_spec f hwf z prev hp r h
  subst hr
  have e : next * 1000000000 / 1000000000 = next := by omega
  have hrd : reading z (next * 1000000000 / 1000000000) = nw := by
    unfold reading
    rw [e, e1, Civil.ofSeconds_toSeconds nw (matches_valid f nw hm)]
  rw [hrd] at h2
  exact not_fires_of_rejected z _ _ (hrej L hL h1 h2)

set_option linter.unusedVariables false in
/-- expiry is reported only when no matching local reading ahead can be named after prev -/
theorem C14_expiry (f : Fields) (hwf : WellFormed f = true) (z : Zone) (prev : Int) (hp : -9223372036854775808 ≤ prev)
    (hz : ∀ u, -100000 ≤ z.offsetAt u ∧ z.offsetAt u ≤ 100000)
    (h : nextFire {} f z prev = .expired) (L : Civil) (hL : Matches f L)
    (h1 : Civil.lexLt (reading z (prev / 1000000000)) L) :
    ∀ u ∈ cands z (prev / 1000000000) L.toSeconds, ¬ Fires z (prev / 1000000000) L.toSeconds u :=
  not_fires_of_rejected z _ _ (nextFire_expired_spec f hwf z prev hp h L hL h1)

/-- the retry loop ends: the model's fuel is never exhausted -/
theorem C14_terminates (f : Fields) (hwf : WellFormed f = true) (z : Zone) (prev : Int) (hp : -9223372036854775808 ≤ prev)
    (hz : ∀ u, -100000 ≤ z.offsetAt u ∧ z.offsetAt u ≤ 100000) :
    nextFire {} f z prev ≠ .outOfFuel :=
  nextFire_zone_ne_outOfFuel f hwf z prev hp hz

/-- a definite answer: a value strictly after prev, or expiry -/
theorem C14_total (f : Fields) (hwf : WellFormed f = true) (z : Zone) (prev : Int) (hp : -9223372036854775808 ≤ prev)
    (hz : ∀ u, -100000 ≤ z.offsetAt u ∧ z.offsetAt u ≤ 100000) :
    (∃ r, nextFire {} f z prev = .ok r ∧ prev < r) ∨ nextFire {} f z prev = .expired := by
  cases h : nextFire {} f z prev with
  | ok r => exact Or.inl ⟨r, rfl, (C14_sound f hwf z prev hp hz r h).2.1⟩
  | expired => exact Or.inr rfl
  | outOfFuel => exact absurd h (C14_terminates f hwf z prev hp hz)

/-- away from transitions: if the zone behaves like one fixed offset c at prev and at the first
    candidate, the result is exactly the earliest matching local time -/
theorem C14_exact_away_from_transitions (f : Fields) (hwf : WellFormed f = true) (z : Zone)
    (prev : Int) (hp : -9223372036854775808 ≤ prev) (hz : ∀ u, -100000 ≤ z.offsetAt u ∧ z.offsetAt u ≤ 100000)
    (t : Civil) (ht : csmNext {} f (reading z (prev / 1000000000)) = some (some t))
    (hd : z.date t.toSeconds = t.toSeconds - z.offsetAt (prev / 1000000000))
    (ho : z.offsetAt (t.toSeconds - z.offsetAt (prev / 1000000000)) = z.offsetAt (prev / 1000000000)) :
    nextFire {} f z prev = .ok ((t.toSeconds - z.offsetAt (prev / 1000000000)) * 1000000000) :=
  nextFire_first_accepted f hwf z prev hp hz t ht hd ho

set_option linter.unusedVariables false in
/-- and that earliest matching local time is characterised as in C01/C02: it matches, is above prev's
    reading, and nothing matching lies between -/
theorem C14_exact_is_least (f : Fields) (hwf : WellFormed f = true) (z : Zone)
    (prev : Int) (hp : -9223372036854775808 ≤ prev) (hz : ∀ u, -100000 ≤ z.offsetAt u ∧ z.offsetAt u ≤ 100000)
    (t : Civil) (ht : csmNext {} f (reading z (prev / 1000000000)) = some (some t))
    (hd : z.date t.toSeconds = t.toSeconds - z.offsetAt (prev / 1000000000))
    (ho : z.offsetAt (t.toSeconds - z.offsetAt (prev / 1000000000)) = z.offsetAt (prev / 1000000000)) :
    Matches f t ∧ Civil.lexLt (reading z (prev / 1000000000)) t ∧
      ∀ L, Matches f L → Civil.lexLt (reading z (prev / 1000000000)) L → ¬ Civil.lexLt L t :=
  csmNext_spec_some f hwf _ t ht

/-- a fall-back repeat fires at most twice per reading and a chain never returns the same instant
    twice: results strictly increase -/
theorem C14_chain_increasing (f : Fields) (hwf : WellFormed f = true) (z : Zone) (prev : Int)
    (hp : -9223372036854775808 ≤ prev) (hz : ∀ u, -100000 ≤ z.offsetAt u ∧ z.offsetAt u ≤ 100000)
    (r r' : Int) (h : nextFire {} f z prev = .ok r) (h' : nextFire {} f z r = .ok r') : r < r' := by
  have hpr := (C14_sound f hwf z prev hp hz r h).2.1
  exact (C14_sound f hwf z r (by omega) hz r' h').2.1

/-- the returned reading lies strictly above prev's reading: along a chain the local readings strictly
    increase, so a reading repeated by a fall-back is fired once by a chain that passes through its
    first occurrence (and a second time only from a prev inside the repeated hour, `exFall_second_pass`) -/
theorem C14_reading_advances (f : Fields) (hwf : WellFormed f = true) (z : Zone) (prev : Int)
    (hp : -9223372036854775808 ≤ prev) (r : Int) (h : nextFire {} f z prev = .ok r) :
    Civil.lexLt (reading z (prev / 1000000000)) (reading z (r / 1000000000)) := by
  obtain ⟨nw, next, hm, hlt, _, e1, _, hr, _⟩ := nextFire_ok_spec f hwf z prev hp r h
  subst hr
  have e : next * 1000000000 / 1000000000 = next := by omega
  have hrd : reading z (next * 1000000000 / 1000000000) = nw := by
    unfold reading
    rw [e, e1, Civil.ofSeconds_toSeconds nw (matches_valid f nw hm)]
  rw [hrd]
  exact hlt

/-- fixed-offset zones are the special case: the general loop agrees with C01/C02's setting -/
theorem C14_fixed_zone_is_special_case (c : Int) :
    (fixedZone c).offsetAt = (fun _ => c) ∧ (fixedZone c).date = (fun w => w - c) := ⟨rfl, rfl⟩

/-- on a fixed-offset zone `reading` is the reading used in C01/C02 -/
theorem C14_reading_fixed (c u : Int) : reading (fixedZone c) u = Civil.ofSeconds (u + c) := rfl

/-! ## Non-vacuity -/

/-- `0 30 * * * ?` — every hour at half past -/
def exHalf : Fields :=
  { sec := ⟨[0], 0⟩, min := ⟨[30], 0⟩, hour := ⟨[], 0⟩, dom := ⟨[], 0⟩, month := ⟨[], 0⟩,
    dow := ⟨[], 0⟩, year := ⟨[], 0⟩ }

theorem exHalf_wf : WellFormed exHalf = true := by decide

/-- spring forward: UTC before the instant 1000000 (1970-01-12T13:46:40Z), UTC+1 from it on; the local
    readings 13:46:40 … 14:46:39 of that day do not exist. `date` resolves a reading with the offset of
    the period it falls into when read as UTC (for a gap reading: the instant one hour earlier). -/
def exSpring : Zone :=
  { offsetAt := fun u => if u < 1000000 then 0 else 3600
    date := fun w => if w < 1000000 then w else w - 3600 }

theorem exSpring_bounded : ∀ u, -100000 ≤ exSpring.offsetAt u ∧ exSpring.offsetAt u ≤ 100000 := by
  intro u
  show -100000 ≤ (if u < 1000000 then (0 : Int) else 3600) ∧ (if u < 1000000 then (0 : Int) else 3600) ≤ 100000
  split <;> omega

/-- prev = 13:30:00 local (999000 s): the next matching reading 14:30:00 lies in the gap and is skipped,
    the result is 15:30:00 local = 14:30:00Z (1002600 s) -/
theorem exSpring_skip : nextFire {} exHalf exSpring 999000000000000 = .ok 1002600000000000 := by
  decide +kernel

theorem exSpring_prev_reading : reading exSpring (999000000000000 / 1000000000) = ⟨1970, 1, 12, 13, 30, 0⟩ := by
  decide +kernel

theorem exSpring_result_reading :
    reading exSpring (1002600000000000 / 1000000000) = ⟨1970, 1, 12, 15, 30, 0⟩ := by decide +kernel

/-- `C14_sound` on the instance -/
example : (1002600000000000 : Int) % 1000000000 = 0 ∧ (999000000000000 : Int) < 1002600000000000 ∧
    Matches exHalf (reading exSpring (1002600000000000 / 1000000000)) :=
  C14_sound exHalf exHalf_wf exSpring _ (by omega) exSpring_bounded _ exSpring_skip

/-- the gap reading 14:30:00 matches and lies strictly between prev's reading and the result's -/
theorem exSpring_gap_matches : Matches exHalf ⟨1970, 1, 12, 14, 30, 0⟩ := by
  refine ⟨Or.inr (by decide), by decide, Or.inr (by decide), by decide, Or.inl rfl, by decide,
    Or.inl rfl, by decide, by decide, Or.inl rfl, by decide, ?_⟩
  refine ⟨by decide, by decide, ?_⟩
  show (if exHalf.dow.values ≠ [] then _ else _)
  rw [if_neg (by decide), if_pos (by decide)]
  exact Or.inl rfl

/-- `C14_no_miss` on the instance: the skipped 14:30:00 cannot be named after prev -/
example : ∀ u ∈ cands exSpring (999000000000000 / 1000000000) (⟨1970, 1, 12, 14, 30, 0⟩ : Civil).toSeconds,
    ¬ Fires exSpring (999000000000000 / 1000000000) (⟨1970, 1, 12, 14, 30, 0⟩ : Civil).toSeconds u :=
  C14_no_miss exHalf exHalf_wf exSpring _ (by omega) exSpring_bounded _ exSpring_skip
    ⟨1970, 1, 12, 14, 30, 0⟩ exSpring_gap_matches
    (by rw [exSpring_prev_reading]; decide) (by rw [exSpring_result_reading]; decide)

/-- and indeed: `time.Date` answers 13:30:00Z (shows 13:30:00, not after prev), the instant with
    prev's offset is 14:30:00Z (shows 15:30:00) -/
example : cands exSpring 999000 (⟨1970, 1, 12, 14, 30, 0⟩ : Civil).toSeconds = [999000, 1002600] ∧
    reading exSpring 999000 = ⟨1970, 1, 12, 13, 30, 0⟩ ∧
    reading exSpring 1002600 = ⟨1970, 1, 12, 15, 30, 0⟩ := by decide +kernel

/-- `0 30 14 12 1 ? 1970` — a single reading, which lies in the gap of `exSpring` -/
def exGapOnly : Fields :=
  { sec := ⟨[0], 0⟩, min := ⟨[30], 0⟩, hour := ⟨[14], 0⟩, dom := ⟨[12], 0⟩, month := ⟨[1], 0⟩,
    dow := ⟨[], 0⟩, year := ⟨[1970], 0⟩ }

theorem exGapOnly_wf : WellFormed exGapOnly = true := by decide

theorem exGapOnly_expired : nextFire {} exGapOnly exSpring 999000000000000 = .expired := by
  decide +kernel

theorem exGapOnly_matches : Matches exGapOnly ⟨1970, 1, 12, 14, 30, 0⟩ := by
  refine ⟨Or.inr (by decide), by decide, Or.inr (by decide), by decide, Or.inr (by decide), by decide,
    Or.inr (by decide), by decide, by decide, Or.inr (by decide), by decide, ?_⟩
  refine ⟨by decide, by decide, ?_⟩
  show (if exGapOnly.dow.values ≠ [] then _ else _)
  rw [if_neg (by decide), if_pos (by decide)]
  exact Or.inr (by decide)

/-- `C14_expiry` on an instance where a matching reading lies ahead of prev's reading (and was
    removed by the gap) -/
example : ∀ u ∈ cands exSpring (999000000000000 / 1000000000) (⟨1970, 1, 12, 14, 30, 0⟩ : Civil).toSeconds,
    ¬ Fires exSpring (999000000000000 / 1000000000) (⟨1970, 1, 12, 14, 30, 0⟩ : Civil).toSeconds u :=
  C14_expiry exGapOnly exGapOnly_wf exSpring _ (by omega) exSpring_bounded exGapOnly_expired
    ⟨1970, 1, 12, 14, 30, 0⟩ exGapOnly_matches (by rw [exSpring_prev_reading]; decide)

/-- `C14_terminates` / `C14_total` on the instance -/
example : nextFire {} exHalf exSpring 999000000000000 ≠ .outOfFuel :=
  C14_terminates exHalf exHalf_wf exSpring _ (by omega) exSpring_bounded

example : (∃ r, nextFire {} exHalf exSpring 999000000000000 = .ok r ∧ 999000000000000 < r) ∨
    nextFire {} exHalf exSpring 999000000000000 = .expired :=
  C14_total exHalf exHalf_wf exSpring _ (by omega) exSpring_bounded

/-- far from the transition (prev = the epoch): the hypotheses of `C14_exact_away_from_transitions`
    hold with t = 00:30:00 and the result is 00:30:00Z -/
theorem exSpring_first : csmNext {} exHalf (reading exSpring (0 / 1000000000)) =
    some (some ⟨1970, 1, 1, 0, 30, 0⟩) := by decide +kernel

example : nextFire {} exHalf exSpring 0 =
    .ok (((⟨1970, 1, 1, 0, 30, 0⟩ : Civil).toSeconds - exSpring.offsetAt (0 / 1000000000)) * 1000000000) :=
  C14_exact_away_from_transitions exHalf exHalf_wf exSpring 0 (by omega) exSpring_bounded
    ⟨1970, 1, 1, 0, 30, 0⟩ exSpring_first (by decide +kernel) (by decide +kernel)

example : ((⟨1970, 1, 1, 0, 30, 0⟩ : Civil).toSeconds - exSpring.offsetAt (0 / 1000000000)) * 1000000000
    = 1800000000000 := by decide +kernel

/-- and after the transition (prev = 1970-02-01T00:00:00Z = 01:00:00 local): 01:30:00 local = 00:30:00Z -/
theorem exSpring_later : csmNext {} exHalf (reading exSpring (2678400000000000 / 1000000000)) =
    some (some ⟨1970, 2, 1, 1, 30, 0⟩) := by decide +kernel

example : nextFire {} exHalf exSpring 2678400000000000 =
    .ok (((⟨1970, 2, 1, 1, 30, 0⟩ : Civil).toSeconds - exSpring.offsetAt (2678400000000000 / 1000000000))
      * 1000000000) :=
  C14_exact_away_from_transitions exHalf exHalf_wf exSpring _ (by omega) exSpring_bounded
    ⟨1970, 2, 1, 1, 30, 0⟩ exSpring_later (by decide +kernel) (by decide +kernel)

example : Matches exHalf ⟨1970, 2, 1, 1, 30, 0⟩ ∧
    Civil.lexLt (reading exSpring (2678400000000000 / 1000000000)) ⟨1970, 2, 1, 1, 30, 0⟩ ∧
    ∀ L, Matches exHalf L → Civil.lexLt (reading exSpring (2678400000000000 / 1000000000)) L →
      ¬ Civil.lexLt L ⟨1970, 2, 1, 1, 30, 0⟩ :=
  C14_exact_is_least exHalf exHalf_wf exSpring _ (by omega) exSpring_bounded
    ⟨1970, 2, 1, 1, 30, 0⟩ exSpring_later (by decide +kernel) (by decide +kernel)

/-- fall back: UTC+1 before the instant 1000000 (local 14:46:40), UTC from it on (local 13:46:40);
    the local readings 13:46:40 … 14:46:39 of 1970-01-12 occur twice. `date` picks the earlier pass. -/
def exFall : Zone :=
  { offsetAt := fun u => if u < 1000000 then 3600 else 0
    date := fun w => if w - 3600 < 1000000 then w - 3600 else w }

theorem exFall_bounded : ∀ u, -100000 ≤ exFall.offsetAt u ∧ exFall.offsetAt u ≤ 100000 := by
  intro u
  show -100000 ≤ (if u < 1000000 then (3600 : Int) else 0) ∧ (if u < 1000000 then (3600 : Int) else 0) ≤ 100000
  split <;> omega

/-- prev = 998000 s (14:13:20 local, first pass): fires at the first 14:30:00 (999000 s) -/
theorem exFall_first : nextFire {} exHalf exFall 998000000000000 = .ok 999000000000000 := by
  decide +kernel

/-- from the first 14:30:00 the search goes on from that reading: the second 14:30:00 (1002600 s) is
    not fired, the result is 15:30:00 (1006200 s) — the repeated reading fired once -/
theorem exFall_second : nextFire {} exHalf exFall 999000000000000 = .ok 1006200000000000 := by
  decide +kernel

/-- from an instant inside the second pass (1000100 s, 13:48:20 local for the second time) the second
    14:30:00 (1002600 s) is fired, through the offset in force at prev — the repeated reading may fire
    twice -/
theorem exFall_second_pass : nextFire {} exHalf exFall 1000100000000000 = .ok 1002600000000000 := by
  decide +kernel

example : reading exFall 999000 = ⟨1970, 1, 12, 14, 30, 0⟩ ∧ reading exFall 1002600 = ⟨1970, 1, 12, 14, 30, 0⟩ ∧
    reading exFall 1006200 = ⟨1970, 1, 12, 15, 30, 0⟩ := by decide +kernel

/-- `C14_chain_increasing` on the instance -/
example : (999000000000000 : Int) < 1006200000000000 :=
  C14_chain_increasing exHalf exHalf_wf exFall _ (by omega) exFall_bounded _ _ exFall_first exFall_second

example : (fixedZone 7200).offsetAt = (fun _ => 7200) ∧ (fixedZone 7200).date = (fun w => w - 7200) :=
  C14_fixed_zone_is_special_case 7200

/-- `C14_reading_advances` on the instance -/
example : Civil.lexLt (reading exFall (999000000000000 / 1000000000))
    (reading exFall (1006200000000000 / 1000000000)) :=
  C14_reading_advances exHalf exHalf_wf exFall _ (by omega) _ exFall_second

/-! ## The expiry clause at full strength (instants, not readings) — FALSE for the code as it is

`C14_expiry` speaks of local readings that come after prev's reading in calendar order. The property's
sentence "never reports expiry while matching local times remain in the future" is about instants. The
two differ exactly inside the first pass of a repeated interval: a reading smaller than prev's reading is
shown again later. The code's search runs over readings, so the full-strength clause fails; the witness
below is replayed against the real code on every run (`qh dst`, class `one-shot-in-first-pass`, known
finding `overlap-first-pass-expiry`). -/

/-- full strength: expiry is reported only if no instant after prev shows a matching reading -/
def ExpiryFull (f : Fields) (z : Zone) (prev : Int) : Prop :=
  nextFire {} f z prev = .expired → ∀ u : Int, prev / 1000000000 < u → ¬ Matches f (reading z u)

/-- `0 30 14 12 1 ? 1970` — once, on 1970-01-12 at 14:30:00 -/
def exOneShot : Fields :=
  { sec := ⟨[0], 0⟩, min := ⟨[30], 0⟩, hour := ⟨[14], 0⟩, dom := ⟨[12], 0⟩, month := ⟨[1], 0⟩,
    dow := ⟨[], 0⟩, year := ⟨[1970], 0⟩ }

theorem exOneShot_wf : WellFormed exOneShot = true := by decide

/-- from 14:13:20 (first pass) the one-shot fires at the first 14:30:00 -/
example : nextFire {} exOneShot exFall 998000000000000 = .ok 999000000000000 := by decide +kernel

/-- prev = 999600 s = 14:40:00 in the FIRST pass: the first 14:30:00 (999000 s) is over, the second one
    (1002600 s) is 50 minutes ahead — and the answer is "expired" -/
theorem exFall_oneShot_expired : nextFire {} exOneShot exFall 999600000000000 = .expired := by
  decide +kernel

/-- from the second pass the one-shot's second occurrence is answered — so that instant matches (`C14_sound`) -/
theorem exFall_oneShot_second : nextFire {} exOneShot exFall 1000100000000000 = .ok 1002600000000000 := by
  decide +kernel

theorem exFall_oneShot_remains : (999600000000000 : Int) / 1000000000 < 1002600 ∧
    Matches exOneShot (reading exFall 1002600) := by
  refine ⟨by decide, ?_⟩
  have h := C14_sound exOneShot exOneShot_wf exFall _ (by omega) exFall_bounded _ exFall_oneShot_second
  have e : (1002600000000000 : Int) / 1000000000 = 1002600 := by decide
  rw [e] at h
  exact h.2.2

/-- **the full-strength expiry clause does not hold** (known finding `overlap-first-pass-expiry`);
    what is proved for all inputs is `C14_expiry` (= the clause for readings after prev's reading) -/
theorem C14_expiry_full_fails : ¬ ExpiryFull exOneShot exFall 999600000000000 := fun h =>
  h exFall_oneShot_expired 1002600 exFall_oneShot_remains.1 exFall_oneShot_remains.2

/-! The same evaluations on the model of `time.Date`'s two-lookup resolution (`TZ.toZone`). For the
fall-back zone (later offset 0, like Europe/London) `time.Date` resolves a repeated reading to its
*second* occurrence, so from 14:13:20 (first pass) the result is the second 14:30:00 (1002600 s) and the
first one (999000 s) is passed over: the repeated reading still fires once — `C14_sound`, `C14_no_miss`
hold for every `date`. -/

def exSpringTZ : TZ := { base := 0, trans := #[(1000000, 3600)] }
def exFallTZ : TZ := { base := 3600, trans := #[(1000000, 0)] }

example : nextFire {} exHalf exSpringTZ.toZone 999000000000000 = .ok 1002600000000000 := by decide +kernel
example : nextFire {} exHalf exFallTZ.toZone 998000000000000 = .ok 1002600000000000 := by decide +kernel
example : nextFire {} exHalf exFallTZ.toZone 999000000000000 = .ok 1006200000000000 := by decide +kernel
example : nextFire {} exHalf exFallTZ.toZone 1000100000000000 = .ok 1002600000000000 := by decide +kernel

/-! ### a `prev` before 1970 (negative) -/

/-- half an hour and 1 ns before the epoch, in the spring-forward location: 23:30:00Z of 1969-12-31 -/
theorem exSpring_neg : nextFire {} exHalf exSpring (-1800000000001) = .ok (-1800000000000) := by
  decide +kernel

theorem exSpring_neg2 : nextFire {} exHalf exSpring (-1800000000000) = .ok 1800000000000 := by
  decide +kernel

example : (-1800000000000 : Int) % 1000000000 = 0 ∧ (-1800000000001 : Int) < -1800000000000 ∧
    Matches exHalf (reading exSpring (-1800000000000 / 1000000000)) :=
  C14_sound exHalf exHalf_wf exSpring _ (by omega) exSpring_bounded _ exSpring_neg

example : nextFire {} exHalf exSpring (-9223372036854775808) ≠ .outOfFuel :=
  C14_terminates exHalf exHalf_wf exSpring _ (by omega) exSpring_bounded

example : (∃ r, nextFire {} exHalf exSpring (-1800000000001) = .ok r ∧ -1800000000001 < r) ∨
    nextFire {} exHalf exSpring (-1800000000001) = .expired :=
  C14_total exHalf exHalf_wf exSpring _ (by omega) exSpring_bounded

example : (-1800000000000 : Int) < 1800000000000 :=
  C14_chain_increasing exHalf exHalf_wf exSpring (-1800000000001) (by omega) exSpring_bounded _ _
    exSpring_neg exSpring_neg2

example : Civil.lexLt (reading exSpring (-1800000000001 / 1000000000))
    (reading exSpring (-1800000000000 / 1000000000)) :=
  C14_reading_advances exHalf exHalf_wf exSpring _ (by omega) _ exSpring_neg

end Cron
