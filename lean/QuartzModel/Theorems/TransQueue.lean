import QuartzModel.Generated.TransQueue
import QuartzModel.Proofs.TransQueueLemmas
import QuartzModel.Proofs.TransQueueRunLemmas
import QuartzModel.Theorems.C11
/-!
# The default job queue: the hand-written model IS the translated code

`Generated.TransQueue` is regenerated on every run from `quartz/queue.go`, `quartz/job_key.go`, `quartz/job_detail.go`,
`quartz/error.go`, `matcher/*.go` and from `$GOROOT/src/container/heap/heap.go` (harness/cmd/gotolean-queue).

The equivalence theorems live in `Proofs/TransQueueLemmas.lean` (namespace `TransQueue`), for ALL inputs, under
explicit in-range / fuel hypotheses, modulo the representation map `toEntry` / `toArr`:
* heap layer — `trans_less`, `trans_swap`, `trans_pq_push`, `trans_pq_pop` (`priorityQueue.*`), `up_loop_eq`, `trans_up`
  (`heap.up` = `Queue.up`), `down_loop_eq`, `trans_down` (`heap.down` = `Queue.down`), `trans_heap_push` (= `hpush`),
  `trans_heap_pop` (= `hpop`), `trans_heap_remove` (= `hremove`);
* `jobQueue` — `trans_scheduledJobs`, `trans_qpush` (= `qpush`), `trans_qpop` (= `qpop`), `trans_qhead` (= `qhead`),
  `trans_qget` (= `qget`), `trans_qremove` (= `qremove`), `trans_qlist` (= `qlist`), `trans_qsize`, `trans_qclear`,
  `trans_newJobQueue`;
* matchers — `trans_strop` (= `StrOp.apply`), `trans_matcher_name`, `trans_matcher_group`, `trans_matcher_status`,
  `trans_matcher_ctors` (= `Matcher.isMatch`), with `strings.HasPrefix/HasSuffix/Contains` taken to be the model's
  operators (`goStrings`, modelled, not translated);
* runs — `tstep_sim`, `trun_sim` (`Proofs/TransQueueRunLemmas.lean`).

This file: nothing is missing from the translation, the lock-shape fact, and the transfer of the C11 property theorems
`C11_inv_reachable`, `C11_pop_min`, `C11_push_replace`, `C11_head_min`, `C11_push_duplicate` to the translated code.
-/
set_option autoImplicit false

namespace TransQueue
open Generated.TransQueue
open Queue

/-- every listed function was translated and every idiom check passed -/
theorem trans_queue_nothing_missing : Generated.TransQueue.missing = [] := by decide

/-- every exported method of the default queue begins with `jq.mtx.Lock(); defer jq.mtx.Unlock()` (the mutex itself is
not translated) -/
theorem trans_queue_lockShape :
    Generated.TransQueue.lockedMethods = ["Push", "Pop", "Head", "Get", "Remove", "ScheduledJobs", "Size", "Clear"] := by
  decide

theorem toArr_toList (pq : priorityQueue) : (toArr pq).toList = pq.map toEntry := by simp [toArr]

/-! ## transfer of C11 to the translated code -/

/-- C11 (invariant): whatever sequence of `Push` / `Pop` / `Remove` / `Clear` is run on the translated queue starting
from `NewJobQueue()`, no call runs out of fuel (one unit per operation suffices) and the resulting array is a heap
with pairwise distinct keys. -/
theorem C11_inv_reachable_trans (ops : List TOp) (fuel : Nat) (hf : ops.length ≤ fuel) :
    ∃ jq, trun fuel NewJobQueue ops = some jq ∧ Inv (toArr jq.delegate) := by
  obtain ⟨jq, h1, h2⟩ := trun_sim fuel ops NewJobQueue (by simpa [NewJobQueue] using hf)
  refine ⟨jq, h1, ?_⟩
  rw [h2, trans_newJobQueue]
  exact C11_inv_reachable _

/-- C11 (pop): the translated `jobQueue.Pop` on a non-empty queue satisfying the invariant succeeds, returns an entry of
minimal priority and keeps exactly the others. -/
theorem C11_pop_min_trans (jq : jobQueue) (fuel : Nat) (h : Inv (toArr jq.delegate)) (hne : jq.delegate ≠ [])
    (hf : jq.delegate.length ≤ fuel) :
    ∃ jq' sj, jobQueue.Pop jq fuel = some (jq', sj, Error.nil) ∧
      (jq.delegate.map toEntry).Perm (toEntry sj :: jq'.delegate.map toEntry) ∧
      ∀ x ∈ jq.delegate, sj.priority ≤ x.priority := by
  have hsz : (toArr jq.delegate).size ≠ 0 := by
    rw [toArr_size]; exact fun h0 => hne (List.length_eq_zero_iff.mp h0)
  obtain ⟨a', e, hq, hperm, hmin⟩ := C11_pop_min (toArr jq.delegate) h hsz
  have ht := trans_qpop jq fuel hf
  rw [hq] at ht
  obtain ⟨jq', sj, e1, e2, e3⟩ := ht
  refine ⟨jq', sj, e1, ?_, ?_⟩
  · rw [← toArr_toList, ← toArr_toList, e2, e3]; exact hperm
  · intro x hx
    have := hmin (toEntry x) (by rw [toArr_toList]; exact List.mem_map_of_mem hx)
    rw [← e3] at this
    exact this

/-- C11 (head): the translated `jobQueue.Head` returns an entry of minimal priority. -/
theorem C11_head_min_trans (jq : jobQueue) (h : Inv (toArr jq.delegate)) (hne : jq.delegate ≠ []) :
    ∃ sj, jobQueue.Head jq = (sj, Error.nil) ∧ toEntry sj ∈ jq.delegate.map toEntry ∧
      ∀ x ∈ jq.delegate, sj.priority ≤ x.priority := by
  have hsz : (toArr jq.delegate).size ≠ 0 := by
    rw [toArr_size]; exact fun h0 => hne (List.length_eq_zero_iff.mp h0)
  obtain ⟨e, hq, hmem, hmin⟩ := C11_head_min (toArr jq.delegate) h hsz
  have ht := trans_qhead jq
  rw [hq] at ht
  obtain ⟨sj, e1, e2⟩ := ht
  refine ⟨sj, e1, ?_, ?_⟩
  · rw [e2, ← toArr_toList]; exact hmem
  · intro x hx
    have := hmin (toEntry x) (by rw [toArr_toList]; exact List.mem_map_of_mem hx)
    rw [← e2] at this
    exact this

/-- C11 (replace): the translated `jobQueue.Push` of a job with `Replace` whose key is queued succeeds and exchanges
exactly the entry with that key for the new one. -/
theorem C11_push_replace_trans (jq : jobQueue) (job old : scheduledJob) (fuel : Nat) (h : Inv (toArr jq.delegate))
    (ho : old ∈ jq.delegate) (hk : old.job.jobKey = job.job.jobKey) (hr : job.job.opts.Replace = true)
    (hf : jq.delegate.length < fuel) :
    ∃ jq', jobQueue.Push jq job fuel = some (jq', Error.nil) ∧
      (jq'.delegate.map toEntry).Perm (toEntry job :: (jq.delegate.map toEntry).erase (toEntry old)) := by
  have hk' : (toEntry old).group = (toEntry job).group ∧ (toEntry old).name = (toEntry job).name := by
    simp [toEntry, hk]
  obtain ⟨a', hq, hperm⟩ := C11_push_replace (toArr jq.delegate) (toEntry job) (toEntry old) h
    (by rw [toArr_toList]; exact List.mem_map_of_mem ho) hk' hr
  have ht := trans_qpush jq job fuel hf
  rw [hq] at ht
  obtain ⟨jq', e1, e2⟩ := ht
  refine ⟨jq', e1, ?_⟩
  rw [← toArr_toList, ← toArr_toList, e2]; exact hperm

/-- C11 (duplicate): the translated `jobQueue.Push` of a job without `Replace` whose key is queued fails with
`ErrIllegalState: ErrJobAlreadyExists` and leaves the queue unchanged. -/
theorem C11_push_duplicate_trans (jq : jobQueue) (job old : scheduledJob) (fuel : Nat)
    (ho : old ∈ jq.delegate) (hk : old.job.jobKey = job.job.jobKey) (hr : job.job.opts.Replace = false)
    (hf : jq.delegate.length < fuel) :
    jobQueue.Push jq job fuel = some (jq, newIllegalStateError Error.ErrJobAlreadyExists) := by
  have hk' : (toEntry old).group = (toEntry job).group ∧ (toEntry old).name = (toEntry job).name := by
    simp [toEntry, hk]
  have hq := C11_push_duplicate (toArr jq.delegate) (toEntry job)
    ⟨toEntry old, by rw [toArr_toList]; exact List.mem_map_of_mem ho, hk'⟩ hr
  have ht := trans_qpush jq job fuel hf
  rw [hq] at ht
  exact ht

/-! ## non-vacuity -/

def mkJob (n g : String) (p : Int) (rep : Bool) (tag : Nat) : scheduledJob :=
  { job := { job := 0, jobKey := ⟨n, g⟩, opts := ⟨0, 1000000000, rep, false⟩ }, trigger := tag, priority := p }

def exOps : List TOp :=
  [.push (mkJob "a" "g1" 30 false 1), .push (mkJob "b" "g1" 10 false 2), .push (mkJob "c" "g2" 20 false 3),
   .push (mkJob "d" "g2" 5 false 4), .push (mkJob "b" "g1" 1 false 5), .push (mkJob "c" "g2" 40 true 6), .pop,
   .remove ⟨"zz", "g9"⟩, .push (mkJob "e" "g3" 7 false 7)]

/-- the translated code, run on `exOps` (9 operations, fuel 9) -/
def exQ : jobQueue := (trun 9 NewJobQueue exOps).getD default

example : trun 9 NewJobQueue exOps = some exQ ∧
    exQ.delegate.map (fun sj => (sj.job.jobKey.name, sj.priority, sj.trigger)) =
      [("e", 7, 7), ("b", 10, 2), ("a", 30, 1), ("c", 40, 6)] := by decide

theorem exQ_inv : Inv (toArr exQ.delegate) :=
  ⟨isHeapB_sound _ (by decide), keysDistinctB_sound _ (by decide)⟩

-- hypotheses of the transfer theorems hold on a non-trivial instance
example : Inv (toArr exQ.delegate) ∧ exQ.delegate ≠ [] ∧ exQ.delegate.length ≤ 4 := ⟨exQ_inv, by decide, by decide⟩
example : ∃ jq' sj, jobQueue.Pop exQ 4 = some (jq', sj, Error.nil) ∧ sj.priority = 7 ∧ jq'.delegate.length = 3 :=
  ⟨_, _, rfl, by decide, by decide⟩
example : mkJob "a" "g1" 30 false 1 ∈ exQ.delegate ∧ (mkJob "a" "g1" 30 false 1).job.jobKey = (mkJob "a" "g1" 2 true 9).job.jobKey ∧
    (mkJob "a" "g1" 2 true 9).job.opts.Replace = true ∧ exQ.delegate.length < 5 := by decide
example : (jobQueue.Push exQ (mkJob "a" "g1" 2 true 9) 5).map (fun r => (r.1.delegate.map (·.trigger), r.2)) =
    some ([9, 7, 6, 2], Error.nil) := by decide
example : jobQueue.Push exQ (mkJob "a" "g1" 2 false 9) 5 = some (exQ, newIllegalStateError Error.ErrJobAlreadyExists) := by
  decide
-- fuel is really needed: with too little fuel the translated loops give up
example : heap.up (exQ.delegate ++ [mkJob "z" "g" 0 false 8]) 4 2 = none ∧
    (heap.up (exQ.delegate ++ [mkJob "z" "g" 0 false 8]) 4 3).map (·.map (·.trigger)) = some [8, 7, 1, 6, 2] := by decide
-- in-range hypotheses of the heap-layer theorems
example : (3 : Nat) < exQ.delegate.length ∧ 4 - 0 < 5 := by decide
example : (heap.down exQ.delegate 0 4 5).map (·.2) = some false := by decide
-- matchers
example : MatchersAgree [matcher.JobNameStartsWith goStrings "a", matcher.JobActive]
    [Queue.Matcher.name .startsWith "a", Queue.Matcher.status false] :=
  ⟨fun sj => (trans_matcher_ctors "a" sj).2.1, fun sj => (trans_matcher_status sj).1, trivial⟩
example : (jobQueue.ScheduledJobs exQ [matcher.JobGroupEquals "g1", matcher.JobActive]).1.map (·.trigger) = [2, 1] := by
  decide

end TransQueue
