import QuartzModel.Proofs.TransJobsLemmas
import QuartzModel.Theorems.C16
/-!
# The translated built-in jobs ARE the hand-written model (area `jobs`)

`Generated.TransJobs` is regenerated from `job/job_status.go`, `function_job.go`, `shell_job.go`, `curl_job.go` by
`harness/cmd/gotolean-jobs` on every run (the `Status` constants, the constructors, the three `Execute` methods, the accessors).
Model: `QuartzModel/Jobs/Status.lean`; property theorems: `Theorems/C16.lean`.

* `trans_function_execute`, `trans_shell_execute`, `trans_curl_execute`: for EVERY environment (`X`, world, recorded prefix),
  job value and context, one `Execute` of the translated code stores exactly what `Jobs.fnStore` / `Jobs.shStore` /
  `Jobs.cuStore true` store (under the abstractions `absFn`, `absSh`, `absCu`), returns what `fnReturn`/`shReturn`/`cuReturn`
  return, and records exactly the listed events (`fnEvents`, `shEvents`, `cuHead ++ cuTail`, then the callback).
* `trans_*_lock_discipline`: every write of a mutable field lies between the one `Lock` and the one (for CurlJob: deferred) `Unlock`; the user function
  and the callbacks run outside the lock; the accessors read under the lock.
* transferred: `C16_function_status_iff`, `C16_shell_status_iff`, `C16_curl_status_iff`, `C16_last_execution_*`,
  `C16_callback_once`, `C16_open_bodies_le_one` (names `…_trans`).
* `trans_curl_do_panic_releases_lock`, `trans_curl_close_panic_releases_lock`: a panicking `HTTPHandler.Do` / `Body.Close()` leaves
  `CurlJob.Execute` with `cu.mtx` RELEASED (the critical section is the helper `do`, below `defer cu.mtx.Unlock()`).  Before the
  repair this was the finding `trans_curl_do_panic_holds_lock`: the panic left the mutex locked for good.
-/
set_option autoImplicit false
set_option linter.unusedSimpArgs false
set_option linter.unusedVariables false

namespace TransJobs
open Generated.TransJobs

theorem trans_jobs_nothing_missing : Generated.TransJobs.missing = [] := by decide

/-! ## `Status`, the constructors, the facts emitted next to the functions -/

/-- the constants and their Go values (what `C16_facts_tests` pins as `statusConsts`), the zero value, and the abstraction to the
model's `Jobs.Status` is a bijection -/
theorem trans_status_consts :
    Status.val .StatusNA = 0 ∧ Status.val .StatusOK = 1 ∧ Status.val .StatusFailure = 2 ∧ (default : Status) = .StatusNA ∧
    (∀ a b, absStatus a = absStatus b → a = b) ∧ (∀ m, ∃ a, absStatus a = m) := by
  refine ⟨rfl, rfl, rfl, rfl, ?_, ?_⟩
  · intro a b; cases a <;> cases b <;> simp [absStatus]
  · intro m; cases m
    · exact ⟨.StatusNA, rfl⟩
    · exact ⟨.StatusOK, rfl⟩
    · exact ⟨.StatusFailure, rfl⟩

/-- a new job of each kind has status `StatusNA` and the model's initial fields -/
theorem trans_constructors {R : Type} [Inhabited R] (fn : Option Ref) (d cmd : String) (cb : Option Ref) (req : Option Request)
    (opts : CurlJobOptions) :
    absFn (NewFunctionJobWithDesc (R := R) fn d) = Jobs.FnFields.init ∧
    absSh (NewShellJob cmd) = {} ∧ absSh (NewShellJobWithCallback cmd cb) = {} ∧
    (NewShellJob cmd).callback = none ∧ (NewShellJobWithCallback cmd cb).callback = cb ∧
    (NewShellJob cmd).cmd = cmd ∧ (NewShellJobWithCallback cmd cb).cmd = cmd ∧
    absCu (NewCurlJobWithOptions req opts) [] = {} ∧ (NewCurlJobWithOptions req opts).callback = opts.Callback ∧
    (NewCurlJobWithOptions req opts).request = req ∧ (NewCurlJobWithOptions req opts).httpClient.isSome = true := by
  refine ⟨rfl, rfl, rfl, rfl, rfl, rfl, rfl, ?_, ?_, ?_, ?_⟩ <;>
    (unfold NewCurlJobWithOptions; cases h : opts.HTTPClient <;> simp [h, absCu, absStatus, bodies])

/-- which fields are assigned by methods at all, and every access to one of them outside the receiver's mutex in ANY method of
the three types: only `CurlJob.Description` (untranslated; `description` is protected by its `sync.Once`, the read of
`cu.request` there is NOT protected — see the status file) -/
theorem trans_jobs_field_facts :
    mutableFields = [("FunctionJob", ["err", "jobStatus", "result"]), ("ShellJob", ["exitCode", "jobStatus", "stderr", "stdout"]),
                     ("CurlJob", ["description", "jobStatus", "request", "response"])] ∧
    unguardedAccesses = ["CurlJob.Description: write description", "CurlJob.Description: read request",
                         "CurlJob.Description: read description"] := by decide

theorem fn_fields_aux {R : Type} [Inhabited R] (x : Option Err) (r : R) :
    ((if x.isSome then Status.StatusFailure else Status.StatusOK) = Status.StatusOK ↔ x = none) ∧
    (x = none → (if x.isSome then default else r) = r) ∧ (x ≠ none → (if x.isSome then (default : R) else r) = default) := by
  cases x <;> simp

theorem cuOk_iff (x : Option Response) :
    (if cuOk x then Status.StatusOK else Status.StatusFailure) = Status.StatusOK ↔
      ∃ r, x = some r ∧ 200 ≤ r.StatusCode ∧ r.StatusCode < 400 := by
  rcases x with _ | r
  · simp [cuOk]
  · by_cases h1 : (200 : Int) ≤ r.StatusCode <;> by_cases h2 : r.StatusCode < 400 <;> simp [cuOk, h1, h2]

theorem callbacks_append (a b : List Event) : callbacks (a ++ b) = callbacks a + callbacks b := by
  simp [callbacks, List.filter_append]

theorem callbacks_single (ctx : Ctx) (r : CallResult Unit) : callbacks [.callback ctx r] = 1 := rfl

/-! ## FunctionJob -/

section function
variable {W R : Type} [Inhabited R] (X : FnExt W R) (σ : St W) (f : FunctionJob R) (ctx : Ctx)

/-- ONE `Execute` whose function returned `(res, err)`: the function is called exactly once, with the execution's context,
before the lock; the three fields are written in one critical section; they are `Jobs.fnStore` of that one outcome; the return
value is that `err` (`Jobs.fnReturn`); `function`/`description` are untouched.  (Implies the strings of `C16_facts_function`.) -/
theorem trans_function_execute (res : R) (err : Option Err) (h : (X.function σ.world ctx).2 = .returned (res, err)) :
    (FunctionJob.Execute X σ f ctx).1.out = σ.out ++ fnEvents ctx err ∧
    (FunctionJob.Execute X σ f ctx).1.world = (X.function σ.world ctx).1 ∧
    absFn (FunctionJob.Execute X σ f ctx).2.1 = Jobs.fnStore ⟨res, absErr err⟩ ∧
    (FunctionJob.Execute X σ f ctx).2.1.err = err ∧
    (FunctionJob.Execute X σ f ctx).2.1.function = f.function ∧ (FunctionJob.Execute X σ f ctx).2.1.description = f.description ∧
    (FunctionJob.Execute X σ f ctx).2.2 = .returned err ∧ absErr err = Jobs.fnReturn ⟨res, absErr err⟩ := by
  rw [fn_execute_returned X σ f ctx res err h]
  refine ⟨rfl, rfl, absFn_fnStored f res err, ?_, ?_, ?_, rfl, rfl⟩ <;> cases err <;> simp [fnStored]

/-- a panicking function: nothing is locked, nothing is written, the panic leaves `Execute` -/
theorem trans_function_panic (h : (X.function σ.world ctx).2 = .panicked) :
    FunctionJob.Execute X σ f ctx = (⟨(X.function σ.world ctx).1, σ.out ++ [.function ctx .panicked]⟩, f, .panicked) :=
  fn_execute_panicked X σ f ctx h

/-- transferred `C16_function_status_iff`: the stored status is OK iff the function returned a nil error -/
theorem C16_function_status_iff_trans (res : R) (err : Option Err) (h : (X.function σ.world ctx).2 = .returned (res, err)) :
    (FunctionJob.Execute X σ f ctx).2.1.jobStatus = .StatusOK ↔ err = none := by
  rw [fn_execute_returned X σ f ctx res err h]
  cases err <;> simp [fnStored]

/-- in EVERY environment: reads/writes under the lock, the user function outside it, the lock released at the end -/
theorem trans_function_lock_discipline :
    ∃ evs, (FunctionJob.Execute X σ f ctx).1.out = σ.out ++ evs ∧ accessGuarded "f.mtx" false evs = true ∧
      userOutside "f.mtx" false evs = true ∧ heldAfter "f.mtx" false evs = false := by
  rcases h : (X.function σ.world ctx).2 with ⟨res, err⟩ | _
  · exact ⟨_, by rw [fn_execute_returned X σ f ctx res err h], by simp [fnEvents, accessGuarded],
      by simp [fnEvents, userOutside], by simp [fnEvents, heldAfter]⟩
  · exact ⟨_, by rw [fn_execute_panicked X σ f ctx h], by simp [accessGuarded], by simp [userOutside], by simp [heldAfter]⟩

/-- the accessors return the fields, reading under the read lock (implies the FunctionJob part of `C16_facts_accessors`) -/
theorem trans_function_accessors :
    FunctionJob.JobStatus X σ f = (⟨σ.world, σ.out ++ [.rlock "f.mtx", .read "f.jobStatus", .runlock "f.mtx"]⟩, f.jobStatus) ∧
    FunctionJob.Result X σ f = (⟨σ.world, σ.out ++ [.rlock "f.mtx", .read "f.result", .runlock "f.mtx"]⟩, f.result) ∧
    FunctionJob.Error X σ f = (⟨σ.world, σ.out ++ [.rlock "f.mtx", .read "f.err", .runlock "f.mtx"]⟩, f.err) ∧
    FunctionJob.Description X σ f = (σ, f.description) ∧
    accessGuarded "f.mtx" false [.rlock "f.mtx", .read "f.jobStatus", .runlock "f.mtx"] = true := by
  refine ⟨?_, ?_, ?_, rfl, by decide⟩ <;> simp [FunctionJob.JobStatus, FunctionJob.Result, FunctionJob.Error, St.emit]

end function

/-- transferred `C16_last_execution_function`: concurrent executions `0, 1, 2, …` of ONE FunctionJob (execution `i` runs in its
own environment `X i, σ i, c i` and its function returns `(res i, err i)`), in ANY interleaving of their steps: the translated
accessors `JobStatus()`, `Result()`, `Error()` show the outcome of one and the same execution, the last to store -/
theorem C16_last_execution_function_trans {W R : Type} [Inhabited R] (X : Nat → FnExt W R) (σ : Nat → St W) (c : Nat → Ctx)
    (res : Nat → R) (err : Nat → Option Err) (hret : ∀ i, ((X i).function (σ i).world (c i)).2 = .returned (res i, err i))
    (fn : Option Ref) (d : String) (Xa : FnExt W R) (σa : St W) (sched : List Nat) :
    let s := Jobs.Sys.run (fun f i => (FunctionJob.Execute (X i) (σ i) f (c i)).2.1) false
      (Jobs.Sys.init (NewFunctionJobWithDesc fn d)) sched
    (s.order = [] ∧ (FunctionJob.JobStatus Xa σa s.shared).2 = .StatusNA) ∨
    (∃ j rest, s.order = j :: rest ∧ (FunctionJob.Error Xa σa s.shared).2 = err j ∧
      ((FunctionJob.JobStatus Xa σa s.shared).2 = .StatusOK ↔ err j = none) ∧
      (err j = none → (FunctionJob.Result Xa σa s.shared).2 = res j) ∧
      (err j ≠ none → (FunctionJob.Result Xa σa s.shared).2 = default)) := by
  intro s
  have hacc : ∀ g : FunctionJob R, (FunctionJob.JobStatus Xa σa g).2 = g.jobStatus ∧ (FunctionJob.Result Xa σa g).2 = g.result ∧
      (FunctionJob.Error Xa σa g).2 = g.err := fun g => ⟨rfl, rfl, rfl⟩
  have hst : ∀ (g : FunctionJob R) (i : Nat),
      (fun g : FunctionJob R => (g.jobStatus, g.result, g.err)) ((FunctionJob.Execute (X i) (σ i) g (c i)).2.1) =
      (if (err i).isSome then Status.StatusFailure else Status.StatusOK, if (err i).isSome then default else res i, err i) := by
    intro g i
    rw [fn_execute_returned (X i) (σ i) g (c i) (res i) (err i) (hret i)]
    cases err i <;> simp [fnStored]
  rcases Jobs.C16_last_execution (fun (g : FunctionJob R) (i : Nat) => (FunctionJob.Execute (X i) (σ i) g (c i)).2.1)
      (fun g => (g.jobStatus, g.result, g.err)) _ hst id (NewFunctionJobWithDesc fn d) false sched with
    ⟨h1, h2, _⟩ | ⟨j, rest, h1, h2, _⟩
  · refine Or.inl ⟨h1, ?_⟩
    rw [(hacc _).1]
    show s.shared.jobStatus = _
    rw [show s.shared = _ from h2]; rfl
  · refine Or.inr ⟨j, rest, h1, ?_⟩
    have e1 : s.shared.jobStatus = _ := congrArg (·.1) h2
    have e2 : s.shared.result = _ := congrArg (·.2.1) h2
    have e3 : s.shared.err = _ := congrArg (·.2.2) h2
    rw [(hacc _).1, (hacc _).2.1, (hacc _).2.2, e1, e2, e3]
    exact ⟨rfl, fn_fields_aux (err j) (res j)⟩

/-! ## ShellJob -/

section shell
variable {W : Type} (X : ShExt W) (σ : St W) (sh : ShellJob) (ctx : Ctx)

/-- ONE `Execute`, EVERY environment: the command is built from the execution's context, the shell and `sh.cmd`, its two buffers
are attached before the one `Run`; buffers, exit code (of THAT command's `ProcessState`, read after `Run`) and status are written
in one critical section and are `Jobs.shStore` of that one run; then exactly one callback call iff a callback is set, with the
stored job; the return value is `Run`'s error (`Jobs.shReturn`) unless the callback panics.  (Implies `C16_facts_shell`.) -/
theorem trans_shell_execute :
    (ShellJob.Execute X σ sh ctx).1.out =
      σ.out ++ shEvents X σ sh ctx ++ (if sh.callback.isSome then [.callback ctx (shCb X σ sh ctx).2] else []) ∧
    absSh (ShellJob.Execute X σ sh ctx).2.1 = Jobs.shStore (shOut X σ) ∧
    (ShellJob.Execute X σ sh ctx).2.1.cmd = sh.cmd ∧ (ShellJob.Execute X σ sh ctx).2.1.callback = sh.callback ∧
    ((sh.callback = none ∨ (shCb X σ sh ctx).2 = .returned ()) →
      (ShellJob.Execute X σ sh ctx).2.2 = .returned (shErr X σ) ∧ (shErr X σ).isSome = Jobs.shReturn (shOut X σ)) ∧
    (sh.callback.isSome = true → (shCb X σ sh ctx).2 = .panicked → (ShellJob.Execute X σ sh ctx).2.2 = .panicked) := by
  rw [sh_execute X σ sh ctx]
  cases hc : sh.callback with
  | none =>
    simp only [Option.isSome_none, Bool.false_eq_true, if_false, List.append_nil]
    exact ⟨by simp, absSh_shStored X σ sh, by simp [shStored], by simp [shStored, hc],
      fun _ => ⟨by simp, by simp [Jobs.shReturn, shOut]⟩, fun h => by cases h⟩
  | some c =>
    simp only [Option.isSome_some, if_true]
    refine ⟨by simp, absSh_shStored X σ sh, by simp [shStored], by simp [shStored, hc], ?_, ?_⟩
    · rintro (h | h)
      · cases h
      · rw [h]; exact ⟨by simp, by simp [Jobs.shReturn, shOut]⟩
    · intro _ h; rw [h]

/-- transferred `C16_shell_status_iff`: the stored status is OK iff `cmd.Run()` returned nil -/
theorem C16_shell_status_iff_trans : (ShellJob.Execute X σ sh ctx).2.1.jobStatus = .StatusOK ↔ shErr X σ = none := by
  rw [sh_execute X σ sh ctx]
  cases hc : sh.callback <;> cases he : shErr X σ <;> simp [shStored, he]

/-- transferred `C16_shell_status_exit`: under the contract of os/exec the stored status is OK iff the stored exit code is 0 -/
theorem C16_shell_status_exit_trans (h : (shOut X σ).ExecContract) :
    (ShellJob.Execute X σ sh ctx).2.1.jobStatus = .StatusOK ↔ (ShellJob.Execute X σ sh ctx).2.1.exitCode = 0 := by
  have h1 := (trans_shell_execute X σ sh ctx).2.1
  have h2 := Jobs.C16_shell_status_exit (shOut X σ) h
  rw [← h1] at h2
  simp only [absSh] at h2
  constructor
  · intro hs; exact h2.mp (by rw [hs]; rfl)
  · intro he
    have := h2.mpr he
    cases hj : (ShellJob.Execute X σ sh ctx).2.1.jobStatus <;> simp [hj, absStatus] at this ⊢

/-- in EVERY environment: writes under the lock, the callback outside it, the lock released at the end -/
theorem trans_shell_lock_discipline :
    ∃ evs, (ShellJob.Execute X σ sh ctx).1.out = σ.out ++ evs ∧ accessGuarded "sh.mtx" false evs = true ∧
      userOutside "sh.mtx" false evs = true ∧ heldAfter "sh.mtx" false evs = false := by
  rw [sh_execute X σ sh ctx]
  cases hc : sh.callback with
  | none => exact ⟨shEvents X σ sh ctx, by simp, by simp [shEvents, accessGuarded], by simp [shEvents, userOutside], by simp [shEvents, heldAfter]⟩
  | some c =>
    exact ⟨shEvents X σ sh ctx ++ [.callback ctx (shCb X σ sh ctx).2], by simp, by simp [shEvents, accessGuarded],
      by simp [shEvents, userOutside], by simp [shEvents, heldAfter]⟩

/-- transferred `C16_callback_once` (per execution): ONE `Execute` makes exactly one callback call when a callback is set, none
otherwise — also when `Run` failed — and it is the LAST event, after the `Unlock` (the step `stored → done` of `Jobs.Sys.step`) -/
theorem C16_callback_once_trans_shell :
    ∃ evs, (ShellJob.Execute X σ sh ctx).1.out = σ.out ++ evs ∧
      callbacks evs = (if sh.callback.isSome then 1 else 0) ∧
      (sh.callback.isSome = true → evs.getLast? = some (.callback ctx (shCb X σ sh ctx).2)) := by
  rw [sh_execute X σ sh ctx]
  cases hc : sh.callback with
  | none => exact ⟨shEvents X σ sh ctx, by simp, rfl, by simp⟩
  | some c =>
    exact ⟨shEvents X σ sh ctx ++ [.callback ctx (shCb X σ sh ctx).2], by simp, by rw [callbacks_append, callbacks_single]; rfl, by simp⟩

theorem trans_shell_accessors :
    ShellJob.JobStatus X σ sh = (⟨σ.world, σ.out ++ [.lock "sh.mtx", .read "sh.jobStatus", .unlock "sh.mtx"]⟩, sh.jobStatus) ∧
    ShellJob.ExitCode X σ sh = (⟨σ.world, σ.out ++ [.lock "sh.mtx", .read "sh.exitCode", .unlock "sh.mtx"]⟩, sh.exitCode) ∧
    ShellJob.Stdout X σ sh = (⟨σ.world, σ.out ++ [.lock "sh.mtx", .read "sh.stdout", .unlock "sh.mtx"]⟩, sh.stdout) ∧
    ShellJob.Stderr X σ sh = (⟨σ.world, σ.out ++ [.lock "sh.mtx", .read "sh.stderr", .unlock "sh.mtx"]⟩, sh.stderr) ∧
    accessGuarded "sh.mtx" false [.lock "sh.mtx", .read "sh.jobStatus", .unlock "sh.mtx"] = true := by
  refine ⟨?_, ?_, ?_, ?_, by decide⟩ <;> simp [ShellJob.JobStatus, ShellJob.ExitCode, ShellJob.Stdout, ShellJob.Stderr, St.emit]

end shell

/-- transferred `C16_last_execution_shell` + `C16_callback_once` for the translated store: concurrent executions of ONE ShellJob in
ANY interleaving — the translated accessors show exit code, buffers and status of the execution that stored last; each execution
has run the callback at most once, exactly once when it has returned -/
theorem C16_last_execution_shell_trans {W : Type} (X : Nat → ShExt W) (σ : Nat → St W) (c : Nat → Ctx) (cmd : String) (cb : Option Ref)
    (Xa : ShExt W) (σa : St W) (sched : List Nat) (m : Nat) :
    let s := Jobs.Sys.run (fun sh i => (ShellJob.Execute (X i) (σ i) sh (c i)).2.1) cb.isSome
      (Jobs.Sys.init (NewShellJobWithCallback cmd cb)) sched
    ((s.order = [] ∧ (ShellJob.JobStatus Xa σa s.shared).2 = .StatusNA) ∨
     (∃ j rest, s.order = j :: rest ∧ (ShellJob.ExitCode Xa σa s.shared).2 = (shOut (X j) (σ j)).exitCode ∧
       (ShellJob.Stdout Xa σa s.shared).2 = (shOut (X j) (σ j)).stdout ∧
       (ShellJob.Stderr Xa σa s.shared).2 = (shOut (X j) (σ j)).stderr ∧
       ((ShellJob.JobStatus Xa σa s.shared).2 = .StatusOK ↔ (shOut (X j) (σ j)).runErr = false))) ∧
    (cb.isSome = true → (∀ i, s.cb i ≤ 1 ∧ (s.pc i = .done ↔ s.cb i = 1)) ∧ s.callbacks m = s.completed m) ∧
    (cb.isSome = false → s.callbacks m = 0) := by
  intro s
  have hst : ∀ (g : ShellJob) (i : Nat), absSh ((ShellJob.Execute (X i) (σ i) g (c i)).2.1) = Jobs.shStore (shOut (X i) (σ i)) :=
    fun g i => (trans_shell_execute (X i) (σ i) g (c i)).2.1
  refine ⟨?_, ?_, ?_⟩
  · rcases Jobs.C16_last_execution (fun (g : ShellJob) (i : Nat) => (ShellJob.Execute (X i) (σ i) g (c i)).2.1)
        absSh _ hst id (NewShellJobWithCallback cmd cb) cb.isSome sched with ⟨h1, h2, _⟩ | ⟨j, rest, h1, h2, _⟩
    · refine Or.inl ⟨h1, ?_⟩
      show s.shared.jobStatus = _
      rw [show s.shared = _ from h2]; rfl
    · refine Or.inr ⟨j, rest, h1, ?_⟩
      have h2' : absSh s.shared = Jobs.shStore (shOut (X j) (σ j)) := h2
      have e1 : s.shared.exitCode = _ := congrArg (·.exitCode) h2'
      have e2 : s.shared.stdout = _ := congrArg (·.stdout) h2'
      have e3 : s.shared.stderr = _ := congrArg (·.stderr) h2'
      have e4 : absStatus s.shared.jobStatus = _ := congrArg (·.status) h2'
      refine ⟨e1, e2, e3, ?_⟩
      show s.shared.jobStatus = .StatusOK ↔ _
      have e5 : absStatus s.shared.jobStatus = Jobs.shellStatus (shOut (X j) (σ j)).runErr := e4
      rw [← Jobs.C16_shell_status_iff, ← e5]
      cases s.shared.jobStatus <;> simp [absStatus]
  · intro hcb
    have := Jobs.C16_callback_once (fun sh i => (ShellJob.Execute (X i) (σ i) sh (c i)).2.1) (NewShellJobWithCallback cmd cb) sched m
    simp only [s, hcb]
    exact ⟨this.1, this.2.1⟩
  · intro hcb
    have := Jobs.C16_callback_once (fun sh i => (ShellJob.Execute (X i) (σ i) sh (c i)).2.1) (NewShellJobWithCallback cmd cb) sched m
    simp only [s, hcb]
    exact this.2.2

/-! ## CurlJob -/

section curl
variable {W : Type} (X : CuExt W) (σ : St W) (cu : CurlJob) (ctx : Ctx)

/-- ONE `Execute` in which neither `Close` nor `Do` panics: under ONE lock the request is re-bound to the execution's context, the
body of the previously stored response is closed (iff that response and its body are non-nil) BEFORE the one `Do`, the response
and the status are stored: exactly `Jobs.cuStore true` (body accounting included); then one callback call iff a callback is set;
the return value is `Do`'s error.  (Implies `C16_facts_curl`.) -/
theorem trans_curl_execute (resp : Option Response) (err : Option Err)
    (hclose : cuPrev cu = true → ∃ e, (cuClose X σ cu).2 = .returned e)
    (hdo : (cuDoCall X σ cu ctx).2 = .returned (resp, err)) :
    (CurlJob.Execute X σ cu ctx).1.out = σ.out ++ cuHead X σ cu ++ cuTail cu ctx resp err ++
      (if cu.callback.isSome then [.callback ctx (cuCb X σ cu ctx resp).2] else []) ∧
    absCu (CurlJob.Execute X σ cu ctx).2.1 (CurlJob.Execute X σ cu ctx).1.out =
      Jobs.cuStore true (absCu cu σ.out) ⟨resp.map absResp, err.isSome⟩ ∧
    (CurlJob.Execute X σ cu ctx).2.1 = cuStored cu ctx resp ∧
    ((cu.callback = none ∨ (cuCb X σ cu ctx resp).2 = .returned ()) →
      (CurlJob.Execute X σ cu ctx).2.2 = .returned err ∧ err.isSome = Jobs.cuReturn ⟨resp.map absResp, err.isSome⟩) := by
  refine ⟨?_, cu_execute_abs X σ cu ctx resp err hclose hdo, ?_, ?_⟩
  all_goals rw [cu_execute_returned X σ cu ctx resp err hclose hdo]
  all_goals cases hc : cu.callback <;> simp [hc, Jobs.cuReturn]
  intro h; rw [h]

/-- transferred `C16_curl_status_iff`: the stored status is OK iff `Do` returned a response with `200 ≤ StatusCode < 400` -/
theorem C16_curl_status_iff_trans (resp : Option Response) (err : Option Err)
    (hclose : cuPrev cu = true → ∃ e, (cuClose X σ cu).2 = .returned e)
    (hdo : (cuDoCall X σ cu ctx).2 = .returned (resp, err)) :
    (CurlJob.Execute X σ cu ctx).2.1.jobStatus = .StatusOK ↔ ∃ r, resp = some r ∧ 200 ≤ r.StatusCode ∧ r.StatusCode < 400 := by
  rw [(trans_curl_execute X σ cu ctx resp err hclose hdo).2.2.1]
  exact cuOk_iff resp

/-- lock discipline of the non-panicking `Execute`: everything, the `Close` and the `Do` included, happens under the one lock;
the callback runs outside it; the lock is released at the end -/
theorem trans_curl_lock_discipline (resp : Option Response) (err : Option Err)
    (hclose : cuPrev cu = true → ∃ e, (cuClose X σ cu).2 = .returned e)
    (hdo : (cuDoCall X σ cu ctx).2 = .returned (resp, err)) :
    ∃ evs, (CurlJob.Execute X σ cu ctx).1.out = σ.out ++ evs ∧ accessGuarded "cu.mtx" false evs = true ∧
      userOutside "cu.mtx" false evs = true ∧ heldAfter "cu.mtx" false evs = false ∧
      callbacks evs = (if cu.callback.isSome then 1 else 0) := by
  refine ⟨cuHead X σ cu ++ cuTail cu ctx resp err ++ (if cu.callback.isSome then [.callback ctx (cuCb X σ cu ctx resp).2] else []),
    by rw [(trans_curl_execute X σ cu ctx resp err hclose hdo).1]; simp, ?_, ?_, ?_, ?_⟩
  · cases hc : cu.callback <;> cases hp : cuPrev cu <;> simp [cuHead, cuTail, hc, hp, accessGuarded]
  · cases hc : cu.callback <;> cases hp : cuPrev cu <;> simp [cuHead, cuTail, hc, hp, userOutside]
  · cases hc : cu.callback <;> cases hp : cuPrev cu <;> simp [cuHead, cuTail, hc, hp, heldAfter]
  · cases hc : cu.callback <;> cases hp : cuPrev cu <;> simp [cuHead, cuTail, hc, hp] <;> rfl

/-- REPAIRED FINDING (was `trans_curl_do_panic_holds_lock`: a panicking `HTTPHandler.Do` left `cu.mtx` held for good).  `Execute` now
runs its critical section in the helper `do` below `defer cu.mtx.Unlock()`: when the user's `HTTPHandler.Do` panics, the LAST
recorded event is the `Unlock` — the mutex is not held when the panic reaches the scheduler (which recovers it), every access
happened under the lock, no callback ran, and only `request` was written.  Later `Execute`/`JobStatus()`/`DumpResponse()` calls
on the job find the mutex free. -/
theorem trans_curl_do_panic_releases_lock (hclose : cuPrev cu = true → ∃ e, (cuClose X σ cu).2 = .returned e)
    (hdo : (cuDoCall X σ cu ctx).2 = .panicked) :
    ∃ evs, (CurlJob.Execute X σ cu ctx).1.out = σ.out ++ evs ∧ heldAfter "cu.mtx" false evs = false ∧
      evs.getLast? = some (.unlock "cu.mtx") ∧ accessGuarded "cu.mtx" false evs = true ∧ callbacks evs = 0 ∧
      (CurlJob.Execute X σ cu ctx).2.1 = { cu with request := cuReq cu ctx } ∧
      (CurlJob.Execute X σ cu ctx).2.2 = .panicked := by
  rw [cu_execute_do_panicked X σ cu ctx hclose hdo]
  refine ⟨cuHead X σ cu ++ [.httpDo cu.httpClient (cuReq cu ctx) .panicked, .unlock "cu.mtx"], by simp, ?_, ?_, ?_, ?_, rfl, rfl⟩
  · cases hp : cuPrev cu <;> simp [cuHead, hp, heldAfter]
  · simp
  · cases hp : cuPrev cu <;> simp [cuHead, hp, accessGuarded]
  · cases hp : cuPrev cu <;> simp [cuHead, hp, callbacks, isCallback]

/-- the same for a panicking `Body.Close()` of the previously stored response: `Do` is not called, the mutex is released -/
theorem trans_curl_close_panic_releases_lock (hp : cuPrev cu = true) (hclose : (cuClose X σ cu).2 = .panicked) :
    ∃ evs, (CurlJob.Execute X σ cu ctx).1.out = σ.out ++ evs ∧ heldAfter "cu.mtx" false evs = false ∧
      evs.getLast? = some (.unlock "cu.mtx") ∧ accessGuarded "cu.mtx" false evs = true ∧ callbacks evs = 0 ∧
      (CurlJob.Execute X σ cu ctx).2.2 = .panicked := by
  rw [cu_execute_close_panicked X σ cu ctx hp hclose]
  exact ⟨_, rfl, by simp [heldAfter], by simp, by simp [accessGuarded], by simp [callbacks, isCallback], rfl⟩

theorem trans_curl_accessors (body : Bool) :
    CurlJob.JobStatus X σ cu = (⟨σ.world, σ.out ++ [.lock "cu.mtx", .read "cu.jobStatus", .unlock "cu.mtx"]⟩, cu.jobStatus) ∧
    (cu.response = none → CurlJob.DumpResponse X σ cu body =
      (⟨σ.world, σ.out ++ [.lock "cu.mtx", .read "cu.response", .unlock "cu.mtx"]⟩, [], some ⟨"response is nil"⟩)) ∧
    (cu.response.isSome = true → CurlJob.DumpResponse X σ cu body =
      (⟨(X.dumpResponse σ.world cu.response body).1,
        σ.out ++ [.lock "cu.mtx", .read "cu.response", .read "cu.response", .dumpResponse cu.response body, .unlock "cu.mtx"]⟩,
       (X.dumpResponse σ.world cu.response body).2.1, (X.dumpResponse σ.world cu.response body).2.2)) ∧
    accessGuarded "cu.mtx" false [.lock "cu.mtx", .read "cu.response", .read "cu.response", .dumpResponse cu.response body,
      .unlock "cu.mtx"] = true := by
  refine ⟨by simp [CurlJob.JobStatus, St.emit], ?_, ?_, by simp [accessGuarded]⟩
  · intro h; simp [CurlJob.DumpResponse, St.emit, h]
  · intro h; simp [CurlJob.DumpResponse, St.cuDumpResponse, St.emit, h]

end curl

/-- transferred `C16_open_bodies_le_one`: after ANY number of executions of one (new) translated CurlJob, in any environment in
which `Do`/`Close` do not panic — successful, failed with nil response, with nil body — at most one body handed out by `Do` has
not been closed, namely the one of the stored response -/
theorem C16_open_bodies_le_one_trans {W : Type} (X : CuExt W) (hX : CuNoPanic X) (ctxs : Nat → Ctx) (w : W) (req : Option Request)
    (opts : CurlJobOptions) (n : Nat) :
    let s := cuIter X ctxs n (⟨w, []⟩, NewCurlJobWithOptions req opts)
    (bodies s.1.out).1.length ≤ 1 ∧ (bodies s.1.out).1 = (Jobs.heldBody (s.2.response.map absResp)).toList := by
  intro s
  obtain ⟨os, _, h⟩ := cu_iter_abs X hX ctxs (⟨w, []⟩, NewCurlJobWithOptions req opts) n
  have h0 : absCu (NewCurlJobWithOptions req opts) [] = {} := (trans_constructors (R := Unit) none "" "" none req opts).2.2.2.2.2.2.2.1
  simp only [h0] at h
  have hm := Jobs.C16_open_bodies_le_one os
  simp only at hm
  rw [← h] at hm
  exact ⟨hm.1, hm.2.1⟩

/-- transferred `C16_last_execution_curl`: concurrent executions of ONE CurlJob in ANY interleaving: the stored response and the
status are those of the execution that stored last -/
theorem C16_last_execution_curl_trans {W : Type} (X : Nat → CuExt W) (σ : Nat → St W) (c : Nat → Ctx)
    (hX : ∀ i, CuNoPanic (X i)) (resp : Nat → CurlJob → Option Response)
    (hdo : ∀ i g, ∃ err, (cuDoCall (X i) (σ i) g (c i)).2 = .returned (resp i g, err))
    (hresp : ∀ i g g', resp i g = resp i g')
    (req : Option Request) (opts : CurlJobOptions) (Xa : CuExt W) (σa : St W) (sched : List Nat) :
    let s := Jobs.Sys.run (fun cu i => (CurlJob.Execute (X i) (σ i) cu (c i)).2.1) opts.Callback.isSome
      (Jobs.Sys.init (NewCurlJobWithOptions req opts)) sched
    (s.order = [] ∧ (CurlJob.JobStatus Xa σa s.shared).2 = .StatusNA) ∨
    (∃ j rest, s.order = j :: rest ∧ s.shared.response = resp j s.shared ∧
      ((CurlJob.JobStatus Xa σa s.shared).2 = .StatusOK ↔
        ∃ r, resp j s.shared = some r ∧ 200 ≤ r.StatusCode ∧ r.StatusCode < 400)) := by
  intro s
  have hst : ∀ (g : CurlJob) (i : Nat),
      (fun g : CurlJob => (g.jobStatus, g.response)) ((CurlJob.Execute (X i) (σ i) g (c i)).2.1) =
      (if cuOk (resp i (NewCurlJobWithOptions req opts)) then Status.StatusOK else Status.StatusFailure,
       resp i (NewCurlJobWithOptions req opts)) := by
    intro g i
    obtain ⟨err, hd⟩ := hdo i g
    rw [(trans_curl_execute (X i) (σ i) g (c i) (resp i g) err (fun _ => (hX i).2 _ _) hd).2.2.1, hresp i g (NewCurlJobWithOptions req opts)]
    rfl
  rcases Jobs.C16_last_execution (fun (g : CurlJob) (i : Nat) => (CurlJob.Execute (X i) (σ i) g (c i)).2.1)
      (fun g => (g.jobStatus, g.response)) _ hst id (NewCurlJobWithOptions req opts) opts.Callback.isSome sched with
    ⟨h1, h2, _⟩ | ⟨j, rest, h1, h2, _⟩
  · refine Or.inl ⟨h1, ?_⟩
    show s.shared.jobStatus = _
    rw [show s.shared = _ from h2]
    unfold NewCurlJobWithOptions; cases opts.HTTPClient <;> rfl
  · refine Or.inr ⟨j, rest, h1, ?_⟩
    have e1 : s.shared.jobStatus = _ := congrArg (·.1) h2
    have e2 : s.shared.response = _ := congrArg (·.2) h2
    simp only [id] at e1 e2
    rw [hresp j s.shared (NewCurlJobWithOptions req opts)]
    refine ⟨e2, ?_⟩
    show s.shared.jobStatus = .StatusOK ↔ _
    rw [e1]
    exact cuOk_iff _

/-! ## non-vacuity -/

/-- a function that fails -/
def exFn : FnExt Unit Int := { function := fun w _ => (w, .returned (5, some ⟨"boom"⟩)) }

/-- a FunctionJob whose function fails: status Failure, result zero, the error kept and returned -/
example :
    let r := FunctionJob.Execute exFn ⟨(), []⟩ (NewFunctionJobWithDesc (some 1) "d") 7
    r.2.1.jobStatus = .StatusFailure ∧ r.2.1.result = 0 ∧ r.2.1.err = some ⟨"boom"⟩ ∧ r.2.2 = .returned (some ⟨"boom"⟩) ∧
    r.1.out = fnEvents 7 (some ⟨"boom"⟩) := by decide

/-- `exit 3` -/
def exSh : ShExt Unit :=
  { getShell := fun w => (w, "bash")
    run := fun w _ => (w, some ⟨"exit status 3"⟩)
    bufferString := fun _ b => b
    exitCode := fun _ _ => 3
    callback := fun w _ _ => (w, .returned ()) }

/-- `exit 3` with a callback: exit code 3, Failure, one callback after the unlock; the `ExecContract` holds -/
example :
    let r := ShellJob.Execute exSh ⟨(), []⟩ (NewShellJobWithCallback "exit 3" (some 1)) 7
    r.2.1.jobStatus = .StatusFailure ∧ r.2.1.exitCode = 3 ∧ r.2.1.stdout = "stdout" ∧ callbacks r.1.out = 1 ∧
    r.1.out.getLast? = some (.callback 7 (.returned ())) ∧ (shOut exSh ⟨(), []⟩).ExecContract := by
  refine ⟨by decide, by decide, by decide, by decide, by decide, ?_⟩
  unfold Jobs.ShOut.ExecContract; decide

/-- a server answering 200 (body 1), then 404 (body 2), … -/
def exCu : CuExt Nat :=
  { Do := fun w _ _ => (w + 1, .returned (some ⟨if w = 0 then 200 else 404, some (w + 1)⟩, none))
    closeBody := fun w _ => (w, .returned none)
    callback := fun w _ _ => (w, .returned ())
    dumpResponse := fun w _ _ => (w, ([], none)) }

/-- two requests: the first body is closed before the second `Do`, one body stays open; `CuNoPanic` is satisfiable -/
example :
    let s := cuIter exCu (fun _ => 0) 2 (⟨0, []⟩, NewCurlJobWithOptions (some {}) {})
    CuNoPanic exCu ∧ s.2.jobStatus = .StatusFailure ∧ bodies s.1.out = ([2], 1) ∧
    (cuIter exCu (fun _ => 0) 1 (⟨0, []⟩, NewCurlJobWithOptions (some {}) {})).2.jobStatus = .StatusOK := by
  refine ⟨⟨fun w c r => ⟨_, rfl⟩, fun w b => ⟨_, rfl⟩⟩, by decide, by decide, by decide⟩

/-- an HTTP client that panics -/
def exCuPanic : CuExt Unit :=
  { Do := fun w _ _ => (w, .panicked)
    closeBody := fun w _ => (w, .returned none)
    callback := fun w _ _ => (w, .returned ())
    dumpResponse := fun w _ _ => (w, ([], none)) }

/-- a panicking HTTP client: the lock is NOT held when `Execute` is left, the last event is the unlock, and a second `Execute`
of the same job (the scheduler recovered the panic) takes the lock again and releases it again -/
example :
    let r := CurlJob.Execute exCuPanic ⟨(), []⟩ (NewCurlJobWithOptions (some {}) {}) 0
    heldAfter "cu.mtx" false r.1.out = false ∧ r.1.out.getLast? = some (.unlock "cu.mtx") ∧ r.2.2 = .panicked ∧
    accessGuarded "cu.mtx" false (CurlJob.Execute exCuPanic r.1 r.2.1 1).1.out = true ∧
    heldAfter "cu.mtx" false (CurlJob.Execute exCuPanic r.1 r.2.1 1).1.out = false := by
  decide

/-- a response body whose `Close` panics (second execution): the lock is released as well -/
def exCuClosePanic : CuExt Nat :=
  { Do := fun w _ _ => (w + 1, .returned (some ⟨200, some (w + 1)⟩, none))
    closeBody := fun w _ => (w, .panicked)
    callback := fun w _ _ => (w, .returned ())
    dumpResponse := fun w _ _ => (w, ([], none)) }

example :
    let r := CurlJob.Execute exCuClosePanic ⟨0, []⟩ (NewCurlJobWithOptions (some {}) {}) 0
    let r' := CurlJob.Execute exCuClosePanic r.1 r.2.1 1
    r.2.2 = .returned none ∧ cuPrev r.2.1 = true ∧ r'.2.2 = .panicked ∧ heldAfter "cu.mtx" false r'.1.out = false := by
  decide

/-! ## negative control: the shape of `CurlJob.Execute` BEFORE the repair

`Unrepaired.Execute` is, verbatim, the definition `gotolean-jobs` generated from `job/curl_job.go` before the fix commit
(`cu.mtx.Lock()` … `cu.httpClient.Do(cu.request)` … `cu.mtx.Unlock()` in `Execute` itself, no `defer`).  It is NOT regenerated: it
documents the finding that the repair removed — with that shape a panicking `HTTPHandler.Do` left the mutex held. -/

namespace Unrepaired

def Execute {W : Type} (X : CuExt W) (σ : St W) (cu : CurlJob) (ctx : Ctx) : St W × CurlJob × CallResult (Option Err) :=
  let σ := σ.emit (Event.lock "cu.mtx")
  let σ := σ.emit (Event.read "cu.request")
  let σ := σ.emit (Event.write "cu.request")
  let cu := { cu with request := (Request.WithContext cu.request ctx) }
  let σ := σ.emit (Event.read "cu.response")
  let σ := σ.emit (Event.read "cu.response")
  if (cu.response.isSome && ((deref cu.response).Body).isSome) then
    let σ := σ.emit (Event.read "cu.response")
    let r1 := σ.cuCloseBody X ((deref cu.response).Body)
    let σ := r1.1
    (match r1.2 with
    | .panicked =>
      (σ, cu, CallResult.panicked)
    | .returned r1v =>
      let err : Option Err := none
      let σ := σ.emit (Event.read "cu.request")
      let r2 := σ.cuDo X cu.httpClient cu.request
      let σ := r2.1
      (match r2.2 with
      | .panicked =>
        (σ, cu, CallResult.panicked)
      | .returned r2v =>
        let σ := σ.emit (Event.write "cu.response")
        let cu := { cu with response := r2v.1 }
        let err : Option Err := r2v.2
        let σ := σ.emit (Event.read "cu.response")
        let σ := σ.emit (Event.read "cu.response")
        let σ := σ.emit (Event.read "cu.response")
        let r3 :=
          if ((cu.response.isSome && decide (((deref cu.response).StatusCode : Int) ≥ 200)) && decide (((deref cu.response).StatusCode : Int) < 400)) then
            let σ := σ.emit (Event.write "cu.jobStatus")
            let cu := { cu with jobStatus := Status.StatusOK }
            (σ, cu)
          else
            let σ := σ.emit (Event.write "cu.jobStatus")
            let cu := { cu with jobStatus := Status.StatusFailure }
            (σ, cu)
        let σ := r3.1
        let cu := r3.2
        let σ := σ.emit (Event.unlock "cu.mtx")
        if cu.callback.isSome then
          let r4 := σ.cuCallback X ctx cu
          let σ := r4.1
          (match r4.2 with
          | .panicked =>
            (σ, cu, CallResult.panicked)
          | .returned _ =>
            (σ, cu, CallResult.returned err))
        else
          (σ, cu, CallResult.returned err)))
  else
    let err : Option Err := none
    let σ := σ.emit (Event.read "cu.request")
    let r5 := σ.cuDo X cu.httpClient cu.request
    let σ := r5.1
    (match r5.2 with
    | .panicked =>
      (σ, cu, CallResult.panicked)
    | .returned r5v =>
      let σ := σ.emit (Event.write "cu.response")
      let cu := { cu with response := r5v.1 }
      let err : Option Err := r5v.2
      let σ := σ.emit (Event.read "cu.response")
      let σ := σ.emit (Event.read "cu.response")
      let σ := σ.emit (Event.read "cu.response")
      let r6 :=
        if ((cu.response.isSome && decide (((deref cu.response).StatusCode : Int) ≥ 200)) && decide (((deref cu.response).StatusCode : Int) < 400)) then
          let σ := σ.emit (Event.write "cu.jobStatus")
          let cu := { cu with jobStatus := Status.StatusOK }
          (σ, cu)
        else
          let σ := σ.emit (Event.write "cu.jobStatus")
          let cu := { cu with jobStatus := Status.StatusFailure }
          (σ, cu)
      let σ := r6.1
      let cu := r6.2
      let σ := σ.emit (Event.unlock "cu.mtx")
      if cu.callback.isSome then
        let r7 := σ.cuCallback X ctx cu
        let σ := r7.1
        (match r7.2 with
        | .panicked =>
          (σ, cu, CallResult.panicked)
        | .returned _ =>
          (σ, cu, CallResult.returned err))
      else
        (σ, cu, CallResult.returned err))

end Unrepaired

/-- the former finding `trans_curl_do_panic_holds_lock`, now about the UNREPAIRED shape only: after a panicking `Do` the recorded
events end with `lock … httpDo … panicked` — the mutex is still held when `Execute` is left (contrast:
`trans_curl_do_panic_releases_lock` for the current code, same hypotheses) -/
theorem trans_curl_do_panic_holds_lock_unrepaired {W : Type} (X : CuExt W) (σ : St W) (cu : CurlJob) (ctx : Ctx)
    (hclose : cuPrev cu = true → ∃ e, (cuClose X σ cu).2 = .returned e)
    (hdo : (cuDoCall X σ cu ctx).2 = .panicked) :
    ∃ evs, (Unrepaired.Execute X σ cu ctx).1.out = σ.out ++ evs ∧ heldAfter "cu.mtx" false evs = true ∧
      evs.getLast? = some (.httpDo cu.httpClient (cuReq cu ctx) .panicked) ∧
      (Unrepaired.Execute X σ cu ctx).2.2 = .panicked := by
  have h : Unrepaired.Execute X σ cu ctx =
      (⟨(cuDoCall X σ cu ctx).1, σ.out ++ cuHead X σ cu ++ [.httpDo cu.httpClient (cuReq cu ctx) .panicked]⟩,
       { cu with request := cuReq cu ctx }, .panicked) := by
    by_cases hp : cuPrev cu = true
    · obtain ⟨e, he⟩ := hclose hp
      have hp' := hp
      simp only [cuPrev] at hp'
      simp only [cuDoCall, cuW1, cuReq, hp, if_true] at hdo
      simp only [cuClose] at he hdo
      simp [Unrepaired.Execute, St.cuCloseBody, St.cuDo, St.emit, cuHead, cuDoCall, cuW1, cuClose, cuReq, *]
    · have hp' := hp
      simp only [cuPrev] at hp'
      simp only [cuDoCall, cuW1, cuReq, hp] at hdo
      simp only [Bool.false_eq_true, if_false] at hdo
      simp [Unrepaired.Execute, St.cuCloseBody, St.cuDo, St.emit, cuHead, cuDoCall, cuW1, cuClose, cuReq, *]
  rw [h]
  refine ⟨cuHead X σ cu ++ [.httpDo cu.httpClient (cuReq cu ctx) .panicked], by simp, ?_, by simp, rfl⟩
  cases hp : cuPrev cu <;> simp [cuHead, hp, heldAfter]

/-- the unrepaired shape with the panicking client of `exCuPanic`: the lock is still held; the current code releases it -/
example :
    heldAfter "cu.mtx" false (Unrepaired.Execute exCuPanic ⟨(), []⟩ (NewCurlJobWithOptions (some {}) {}) 0).1.out = true ∧
    heldAfter "cu.mtx" false (CurlJob.Execute exCuPanic ⟨(), []⟩ (NewCurlJobWithOptions (some {}) {}) 0).1.out = false := by
  decide

/-- when nothing panics the two shapes record the same events, store the same job and return the same value (the repair does
not change the behaviour otherwise) — on the two-request example -/
example :
    let a := Unrepaired.Execute exCu ⟨0, []⟩ (NewCurlJobWithOptions (some {}) {}) 3
    let b := CurlJob.Execute exCu ⟨0, []⟩ (NewCurlJobWithOptions (some {}) {}) 3
    a.1.out = b.1.out ∧ a.1.world = b.1.world ∧ a.2 = b.2 ∧ b.1.out.length = 13 := by
  decide

end TransJobs
