import QuartzModel.Proofs.TransLoopLemmas
import QuartzModel.Proofs.FaultsLemmas
import QuartzModel.Theorems.C15
import QuartzModel.Theorems.C15F4
import QuartzModel.Theorems.C05
/-!
# The translated execution loop (`Generated.TransLoop`, regenerated from quartz/scheduler.go by `gotolean-loop`) IS the
hand-written fault model (`Sched/Faults.lean`), and the C15 theorems hold of the translated iteration

Representation (all in `Proofs/TransLoopLemmas.lean`): the model input `i : Faults.In` becomes (a) the generated input record
`inpOf i dsel tstop : Inputs` (clock readings `now1 now2 nowVal nowErr`, the `select` outcome `interrupted`; `tArm`/`tickAt` are
not read by the code; `dsel`/`tstop` — the worker-pool `select` and the result of `timer.Stop()` — are not part of the model) and
(b) the scripted externals `scriptQ eE eO i` / `scriptT trig` that answer every queue / trigger call as `i` / `trig` dictate.
The result is read back by `absOut` (timer duration = the first `timerReset` event, calls/popped/pushed = the script's record,
dispatched = the `execute`/`spawn`/`send` event, new state = the loop-carried `retryAt`).

* `trans_calculateNextTick` : `calculateNextTick` = `Faults.calcNextTick`            (priority 2)
* `trans_arm`               : the `timer.Reset` argument = what `Faults.chooseArm` selects (priority 2)
* `trans_executeAndReschedule` : `executeAndReschedule` (+ imported `fetchAndReschedule`, `validateJob`) = `Faults.fetch`
* `trans_iter`              : ONE ITERATION = `Faults.iter S c trig st i` for every well-formed `S` (priority 3)
* `trans_iter_facts`        : … in particular for `S := Generated.Faults.shape` (the string facts of the extractor)
* `trans_iter_exit`, `trans_Reset`, `trans_init` : the `ctx.Done()` case, `Reset()`, the statements before the loop
* `trans_runLoop`, `trans_runQ` : the iteration iterated = `Faults.runLoop` / `Faults.runQ`
* transfers: `C15_backoff_step_trans`, `C15_backoff_trans`, `C15_size_retry_kept_trans`, `C15_deadline_not_postponed_trans`,
  `C15_no_double_fire_trans`
-/
set_option linter.unusedSimpArgs false

namespace TransLoop
open Generated.TransSched Generated.TransLoop Faults

theorem trans_loop_nothing_missing : Generated.TransLoop.missing = [] := by decide

/-- no int64 overflow in the three subtractions of the iteration (`time.Until(retryAt)`, `nextRunTime - now`,
    `now - OutdatedThreshold`): the model computes in `Int` -/
def NoOvf (c : Cfg) (st : BState) (i : In) : Prop :=
  (∀ r, st.retryAt = some r → i.now1 < r → satDuration (r - i.now2) = r - i.now2) ∧
  (∀ f, i.head = .ok f → f > i.now2 → i64 (f - i.now2) = f - i.now2) ∧
  i64 (i.nowVal - c.thr) = i.nowVal - c.thr

/-- a sufficient condition: every quantity is below 2^62 in absolute value -/
theorem noOvf_of_bounded (c : Cfg) (st : BState) (i : In)
    (h1 : ∀ r, st.retryAt = some r → -4611686018427387903 ≤ r ∧ r ≤ 4611686018427387903)
    (h2 : ∀ f, i.head = .ok f → -4611686018427387903 ≤ f ∧ f ≤ 4611686018427387903)
    (h3 : -4611686018427387903 ≤ i.now2 ∧ i.now2 ≤ 4611686018427387903)
    (h4 : -4611686018427387903 ≤ i.nowVal ∧ i.nowVal ≤ 4611686018427387903)
    (h5 : -4611686018427387903 ≤ c.thr ∧ c.thr ≤ 4611686018427387903) : NoOvf c st i := by
  refine ⟨fun r hr _ => satDuration_id ?_, fun f hf _ => i64_id ?_, i64_id ?_⟩
  · have := h1 r hr; omega
  · have := h2 f hf; omega
  · omega

/-- **`calculateNextTick` = `Faults.calcNextTick`** (see `calculateNextTick_spec`) -/
theorem trans_calculateNextTick (eE eO : Err) (hE : errorsIs (some eE) (some ErrQueueEmpty) = true)
    (hO : errorsIs (some eO) (some ErrQueueEmpty) = false) (trig : Trig) (c : Cfg) (b : Bool) (w : Int) (i : In)
    (dsel : executeAndReschedule.Sel1) (tstop : Bool) (σ : LSt SQ Unit)
    (hov : ∀ f, i.head = .ok f → f > i.now2 → i64 (f - i.now2) = f - i.now2) :
    calculateNextTick (scriptQ eE eO i) (scriptT trig) (envOf c b w) (inpOf i dsel tstop) σ =
      ({ queue := σ.queue.call .head i.head.outcome, trigs := σ.trigs, out := σ.out ++ calcLogs i.head },
        (calcNextTick theShape c i.head i.now2, if i.head = .err then some eO else none)) :=
  calculateNextTick_spec eE eO hE hO trig c b w i _ rfl σ hov

/-- **`executeAndReschedule` = `Faults.fetch`** (see `executeAndReschedule_spec`) -/
theorem trans_executeAndReschedule (eE eO : Err) (hE : errorsIs (some eE) (some ErrQueueEmpty) = true)
    (hO : errorsIs (some eO) (some ErrQueueEmpty) = false) (trig : Trig) (c : Cfg) (b : Bool) (w : Int) (i : In)
    (dsel : executeAndReschedule.Sel1) (tstop : Bool) (σ : LSt SQ Unit)
    (hov : i64 (i.nowVal - c.thr) = i.nowVal - c.thr)
    (hmode : b = true ∨ w ≤ 0 ∨ dsel = .send_dispatch) :
    let F := fetch theShape c trig i
    let r := executeAndReschedule (scriptQ eE eO i) (scriptT trig) (envOf c b w) (inpOf i dsel tstop) σ
    r.1.queue.log = σ.queue.log ++ F.calls ∧
    r.1.queue.popped = (match F.popped with | some e => some (ofEntry e) | none => σ.queue.popped) ∧
    r.1.queue.pushed = (match F.pushed with | some e => some (ofEntry e) | none => σ.queue.pushed) ∧
    r.1.out.filterMap resetOf = σ.out.filterMap resetOf ∧
    r.1.out.filterMap dispOf = σ.out.filterMap dispOf ++ (match F.dispatched with | some e => [(ofEntry e).job] | none => []) ∧
    r.2.isSome = F.retErr ∧
    r.1.out.filterMap intrOf = σ.out.filterMap intrOf :=
  executeAndReschedule_spec eE eO hE hO trig c b w i _ rfl σ hov (by simpa [inpOf] using hmode)

/-- **ONE ITERATION of the translated `startExecutionLoop` = `Faults.iter`**, for every well-formed shape `S` (there is exactly one:
    `wf_eq`), every configuration with `M = maxTimerDuration`, every trigger function, every loop state, EVERY model input `i`
    (every result of every queue call, every clock reading, tick or interrupt), every choice of error values the queue uses
    (`eE` any error that `errors.Is` `ErrQueueEmpty`, `eO` any that is not), every dispatch mode, every `timer.Stop()` result.
    Hypotheses: no int64 overflow (`NoOvf`); the worker-pool `select` is not decided by `ctx.Done()` (a case the model lacks).
    All eight components of `Out` agree, the iteration does not end the loop, and the ONLY receive from the interrupt channel is
    the blocking one of the `select` when it takes that case (no token is ever drained on the side: the wake-up model of C05
    assumes that a token is consumed only there). -/
theorem trans_iter_core (S : Shape) (hS : WF S) (c : Cfg) (hM : c.M = maxDur) (trig : Trig) (st : BState) (i : In)
    (eE eO : Err) (hE : errorsIs (some eE) (some ErrQueueEmpty) = true)
    (hO : errorsIs (some eO) (some ErrQueueEmpty) = false) (b : Bool) (w : Int)
    (dsel : executeAndReschedule.Sel1) (tstop : Bool)
    (hmode : b = true ∨ w ≤ 0 ∨ dsel = .send_dispatch)
    (hov1 : ∀ r, st.retryAt = some r → i.now1 < r → satDuration (r - i.now2) = r - i.now2)
    (hov2 : ∀ f, i.head = .ok f → f > i.now2 → i64 (f - i.now2) = f - i.now2)
    (hov3 : i64 (i.nowVal - c.thr) = i.nowVal - c.thr) :
    let r := startExecutionLoop.iter (scriptQ eE eO i) (scriptT trig) (envOf c b w) (inpOf i dsel tstop) σ0 st.retryAt
    absOut st r = Faults.iter S c trig st i ∧ r.2.2 = true ∧
      r.1.out.filterMap intrOf = (if i.interrupted then [true] else []) := by
  rw [wf_eq S hS]
  intro r
  have X := fun σ => executeAndReschedule_spec eE eO hE hO trig c b w i (inpOf i dsel tstop) rfl σ hov3
    (by simpa [inpOf] using hmode)
  have C := fun σ => calculateNextTick_spec eE eO hE hO trig c b w i (inpOf i dsel tstop) rfl σ hov2
  have X1 : ∀ σ : LSt SQ Unit, (executeAndReschedule (scriptQ eE eO i) (scriptT trig) (envOf c b w) (inpOf i dsel tstop) σ).1.queue.log = σ.queue.log ++ (fetch theShape c trig i).calls := fun σ => (X σ).1
  have X2 : ∀ σ : LSt SQ Unit, (executeAndReschedule (scriptQ eE eO i) (scriptT trig) (envOf c b w) (inpOf i dsel tstop) σ).1.queue.popped = (match (fetch theShape c trig i).popped with | some e => some (ofEntry e) | none => σ.queue.popped) := fun σ => (X σ).2.1
  have X3 : ∀ σ : LSt SQ Unit, (executeAndReschedule (scriptQ eE eO i) (scriptT trig) (envOf c b w) (inpOf i dsel tstop) σ).1.queue.pushed = (match (fetch theShape c trig i).pushed with | some e => some (ofEntry e) | none => σ.queue.pushed) := fun σ => (X σ).2.2.1
  have X4 : ∀ σ : LSt SQ Unit, (executeAndReschedule (scriptQ eE eO i) (scriptT trig) (envOf c b w) (inpOf i dsel tstop) σ).1.out.filterMap resetOf = σ.out.filterMap resetOf := fun σ => (X σ).2.2.2.1
  have X5 : ∀ σ : LSt SQ Unit, (executeAndReschedule (scriptQ eE eO i) (scriptT trig) (envOf c b w) (inpOf i dsel tstop) σ).1.out.filterMap dispOf = σ.out.filterMap dispOf ++ (match (fetch theShape c trig i).dispatched with | some e => [(ofEntry e).job] | none => []) := fun σ => (X σ).2.2.2.2.1
  have X6 : ∀ σ : LSt SQ Unit, (executeAndReschedule (scriptQ eE eO i) (scriptT trig) (envOf c b w) (inpOf i dsel tstop) σ).2.isSome = (fetch theShape c trig i).retErr := fun σ => (X σ).2.2.2.2.2.1
  have X7 : ∀ σ : LSt SQ Unit, (executeAndReschedule (scriptQ eE eO i) (scriptT trig) (envOf c b w) (inpOf i dsel tstop) σ).1.out.filterMap intrOf = σ.out.filterMap intrOf := fun σ => (X σ).2.2.2.2.2.2
  clear X
  have D := fetch_dispatched_popped theShape c trig i
  have T : (decide ((Op.pop, Outcome.err) ∈ (fetch theShape c trig i).calls) ||
      decide ((Op.push, Outcome.err) ∈ (fetch theShape c trig i).calls)) = (fetch theShape c trig i).tickErr := by
    simpa using (fetch_tickErr_calls theShape c trig i).symm
  -- the first call of `fetch` is a `Pop()`: while backing off the log does not start with a `Size()` error, and it has no `Head()`
  have F1 : ((fetch theShape c trig i).calls.head? = some (Op.size, Outcome.err)) = False := by
    obtain ⟨o', ho'⟩ := fetch_calls_head theShape c trig i
    simp [ho']
  obtain ⟨fl, ra⟩ := st
  -- is the loop backing off?
  have hcase : (∃ rr, ra = some rr ∧ i.now1 < rr) ∨ inBackoff theShape ⟨fl, ra⟩ i.now1 = false := by
    cases ra with
    | none => right; simp [inBackoff]
    | some rr =>
      by_cases hlt : i.now1 < rr
      · exact Or.inl ⟨rr, rfl, hlt⟩
      · right; simp [inBackoff, hlt]
  rcases hcase with ⟨rr, rfl, hlt⟩ | hnb
  · -- backing off: no `Size()`, no `Head()`; the timer is armed for the deadline
    have h1 := hov1 rr rfl hlt
    cases hint : i.interrupted with
    | true =>
      cases tstop <;>
      simp [r, startExecutionLoop.iter, hint, σ0, LSt.callQ, LSt.emit, SQ.call, absOut, Faults.iter,
        chooseArm, skipsSize, afterArm, afterTick, inBackoff, Time.Before, Time.Until, Time.Sub, Time.zero, Time.now, Time.Add,
        -List.head?_filterMap, List.filterMap_cons, hlt, h1]
    | false =>
      cases hre : (fetch theShape c trig i).retErr <;>
      simp [r, startExecutionLoop.iter, hint, σ0, LSt.callQ, LSt.emit, SQ.call, absOut, Faults.iter,
        chooseArm, skipsSize, afterArm, afterTick, inBackoff, Time.Before, Time.Until, Time.Sub, Time.zero, Time.now, Time.Add,
        X1, X2, X3, X4, X5, X6, X7, T, F1, -List.head?_filterMap, List.filterMap_cons, hre, hlt, h1] <;>
      exact tick_tail _ D
  · -- not backing off: the iteration starts with `Size()`
    have hB : Time.Before (some i.now1) ra = false := by
      cases ra with
      | none => simp [Time.Before]
      | some rr => simpa [Time.Before, inBackoff] using hnb
    have hsk : skipsSize theShape ⟨fl, ra⟩ i.now1 = false := by simp [skipsSize, hnb]
    cases hsz : i.size with
    | none =>
      cases hint : i.interrupted with
      | true =>
        cases tstop <;>
        simp [r, startExecutionLoop.iter, hint, hsz, hB, hsk, hnb, scriptQ_Size, σ0, LSt.callQ, LSt.emit, SQ.call, absOut,
          Faults.iter, chooseArm, afterArm, afterTick, Time.now, Time.Add, -List.head?_filterMap, List.filterMap_cons]
      | false =>
        cases hre : (fetch theShape c trig i).retErr <;>
        simp [r, startExecutionLoop.iter, hint, hre, hsz, hB, hsk, hnb, scriptQ_Size, σ0, LSt.callQ, LSt.emit, SQ.call, absOut,
          Faults.iter, chooseArm, afterArm, afterTick, X1, X2, X3, X4, X5, X6, X7, T, Time.Add, Time.now,
          -List.head?_filterMap, List.filterMap_cons] <;>
        exact tick_tail _ D
    | some n =>
      cases n with
      | zero =>
        cases hint : i.interrupted with
        | true =>
          cases tstop <;>
          simp [r, startExecutionLoop.iter, hint, hsz, hB, hsk, hnb, scriptQ_Size, σ0, LSt.callQ, LSt.emit, SQ.call, absOut,
            Faults.iter, chooseArm, afterArm, afterTick, Time.now, Time.Add, hM, maxDur,
            -List.head?_filterMap, List.filterMap_cons]
        | false =>
          cases hre : (fetch theShape c trig i).retErr <;>
          simp [r, startExecutionLoop.iter, hint, hsz, hB, hsk, hnb, scriptQ_Size, σ0, LSt.callQ, LSt.emit, SQ.call, absOut,
            Faults.iter, chooseArm, afterArm, afterTick, Time.now, Time.Add, hM, maxDur,
            X1, X2, X3, X4, X5, X6, X7, T, -List.head?_filterMap, List.filterMap_cons, hre] <;>
          exact tick_tail _ D
      | succ n =>
        have hne : ¬ ((n : Int) + 1 = 0) := by omega
        cases hhd : i.head with
        | err =>
          cases hint : i.interrupted with
          | true =>
            cases tstop <;>
            simp [r, startExecutionLoop.iter, hint, hsz, hhd, hB, hsk, hnb, scriptQ_Size, σ0, LSt.callQ, LSt.emit, SQ.call,
              absOut, Faults.iter, chooseArm, afterArm, afterTick, Time.now, Time.Add, C, calcLogs, calcNextTick, Res.outcome,
              -List.head?_filterMap, List.filterMap_cons, hne]
          | false =>
            cases hre : (fetch theShape c trig i).retErr <;>
            simp [r, startExecutionLoop.iter, hint, hsz, hhd, hB, hsk, hnb, scriptQ_Size, σ0, LSt.callQ, LSt.emit, SQ.call,
              absOut, Faults.iter, chooseArm, afterArm, afterTick, Time.now, Time.Add, C, calcLogs, calcNextTick, Res.outcome,
              X1, X2, X3, X4, X5, X6, X7, T, -List.head?_filterMap, List.filterMap_cons, hne, hre] <;>
            exact tick_tail _ D
        | empty =>
          cases hint : i.interrupted with
          | true =>
            cases tstop <;>
            simp [r, startExecutionLoop.iter, hint, hsz, hhd, hB, hsk, hnb, scriptQ_Size, σ0, LSt.callQ, LSt.emit, SQ.call,
              absOut, Faults.iter, chooseArm, afterArm, afterTick, Time.now, Time.Add, C, calcLogs, calcNextTick, Res.outcome,
              -List.head?_filterMap, List.filterMap_cons, hne]
          | false =>
            cases hre : (fetch theShape c trig i).retErr <;>
            simp [r, startExecutionLoop.iter, hint, hsz, hhd, hB, hsk, hnb, scriptQ_Size, σ0, LSt.callQ, LSt.emit, SQ.call,
              absOut, Faults.iter, chooseArm, afterArm, afterTick, Time.now, Time.Add, C, calcLogs, calcNextTick, Res.outcome,
              X1, X2, X3, X4, X5, X6, X7, T, -List.head?_filterMap, List.filterMap_cons, hne, hre] <;>
            exact tick_tail _ D
        | ok f =>
          have C' := C
          simp only [hhd] at C'
          cases hint : i.interrupted with
          | true =>
            cases tstop <;>
            simp [r, startExecutionLoop.iter, hint, hsz, hhd, hB, hsk, hnb, scriptQ_Size, σ0, LSt.callQ, LSt.emit, SQ.call,
              absOut, Faults.iter, chooseArm, afterArm, afterTick, Time.now, Time.Add, C', calcLogs, Res.outcome,
              -List.head?_filterMap, List.filterMap_cons, hne]
          | false =>
            cases hre : (fetch theShape c trig i).retErr <;>
            simp [r, startExecutionLoop.iter, hint, hsz, hhd, hB, hsk, hnb, scriptQ_Size, σ0, LSt.callQ, LSt.emit, SQ.call,
              absOut, Faults.iter, chooseArm, afterArm, afterTick, Time.now, Time.Add, C', calcLogs, Res.outcome,
              X1, X2, X3, X4, X5, X6, X7, T, -List.head?_filterMap, List.filterMap_cons, hne, hre] <;>
            exact tick_tail _ D

/-- the translated iteration, read back as a model `Out` -/
def iterT (eE eO : Err) (trig : Trig) (c : Cfg) (b : Bool) (w : Int) (dsel : executeAndReschedule.Sel1) (tstop : Bool)
    (st : BState) (i : In) : Out :=
  absOut st (startExecutionLoop.iter (scriptQ eE eO i) (scriptT trig) (envOf c b w) (inpOf i dsel tstop) σ0 st.retryAt)

/-- the parameters of the translation that the model does not have, and what is assumed of them -/
structure Par where
  eE : Err
  eO : Err
  hE : errorsIs (some eE) (some ErrQueueEmpty) = true
  hO : errorsIs (some eO) (some ErrQueueEmpty) = false
  b : Bool
  w : Int
  dsel : executeAndReschedule.Sel1
  tstop : Bool
  hmode : b = true ∨ w ≤ 0 ∨ dsel = .send_dispatch

/-- the errors of the default queue, blocking execution -/
def par0 : Par :=
  { eE := .wrap2 ErrIllegalState ErrQueueEmpty, eO := .other 7, hE := by decide, hO := by decide, b := true, w := 0,
    dsel := .send_dispatch, tstop := true, hmode := Or.inl rfl }

def Par.iter (p : Par) (trig : Trig) (c : Cfg) (st : BState) (i : In) : Out :=
  iterT p.eE p.eO trig c p.b p.w p.dsel p.tstop st i

/-- **the translated iteration = `Faults.iter`** (main statement) -/
theorem trans_iter (p : Par) (S : Shape) (hS : WF S) (c : Cfg) (hM : c.M = maxDur) (trig : Trig) (st : BState) (i : In)
    (hov : NoOvf c st i) : p.iter trig c st i = Faults.iter S c trig st i :=
  (trans_iter_core S hS c hM trig st i p.eE p.eO p.hE p.hO p.b p.w p.dsel p.tstop p.hmode hov.1 hov.2.1 hov.2.2).1

/-- an iteration consumes an interrupt token only through its `select` (cf. `Theorems/C05.lean`: the loop's only receive) -/
theorem trans_iter_interrupt_use (p : Par) (c : Cfg) (hM : c.M = maxDur) (trig : Trig) (st : BState) (i : In)
    (hov : NoOvf c st i) :
    (startExecutionLoop.iter (scriptQ p.eE p.eO i) (scriptT trig) (envOf c p.b p.w) (inpOf i p.dsel p.tstop) σ0
      st.retryAt).1.out.filterMap intrOf = (if i.interrupted then [true] else []) :=
  (trans_iter_core theShape theShape_wf c hM trig st i p.eE p.eO p.hE p.hO p.b p.w p.dsel p.tstop p.hmode hov.1 hov.2.1
    hov.2.2).2.2

/-- … in particular for the shape that the extractor's string facts describe: the facts are no longer trusted, they are implied -/
theorem trans_iter_facts (p : Par) (c : Cfg) (hM : c.M = maxDur) (trig : Trig) (st : BState) (i : In) (hov : NoOvf c st i) :
    p.iter trig c st i = Faults.iter Generated.Faults.shape c trig st i :=
  trans_iter p _ C15_facts_wf c hM trig st i hov

/-- the extractor's facts describe the shape the translated code has -/
theorem facts_shape_eq : Generated.Faults.shape = theShape := wf_eq _ C15_facts_wf

/-- **the arm choice**: the duration of the first `timer.Reset` of the translated iteration is what `Faults.chooseArm` selects -/
theorem trans_arm (p : Par) (c : Cfg) (hM : c.M = maxDur) (trig : Trig) (st : BState) (i : In) (hov : NoOvf c st i) :
    (p.iter trig c st i).armed =
      (match chooseArm theShape st i.size i.now1 with
        | .zero => 0 | .retry => c.R | .max => c.M | .other => 0
        | .nextTick => calcNextTick theShape c i.head i.now2
        | .untilRetry => st.retryAt.getD i.now2 - i.now2) := by
  rw [trans_iter p theShape theShape_wf c hM trig st i hov]
  unfold Faults.iter
  cases i.interrupted <;> rfl

/-- **the exit path**: when `ctx.Done()` fires, the iteration stops the timer, hands the interrupt token on (`Reset()`: one
    non-blocking send) and ends the loop: these four events are the last ones recorded, for ANY queue / trigger externals. (The model
    `Faults.iter` has no such case; `retryAt`, which the arming part of the iteration may have set, is dead after the `return`.) -/
theorem trans_iter_exit {Q H M : Type} (JQ : JobQueueExt Q M) (TR : TriggerExt H) (env : Env) (inp : Inputs) (σ : LSt Q H)
    (retryAt : Time) (hsel : inp.startExecutionLoop_sel1 = .recv_ctx_Done) :
    let r := startExecutionLoop.iter JQ TR env inp σ retryAt
    r.2.2 = false ∧
    [.recv "ctx.Done()", .log "Info" "Exit the execution loop", .timerStop, .trySend "sched.interrupt"] <:+ r.1.out := by
  simp only [startExecutionLoop.iter, hsel, Reset, LSt.emit, List.append_assoc, List.cons_append, List.nil_append]
  exact ⟨trivial, List.suffix_append _ _⟩

/-- `Reset()` is one non-blocking send on `sched.interrupt` and nothing else — the fact `Generated.Wakeup.resetNonBlocking`
    of the wake-up model (C05), here read off the translated code -/
theorem trans_Reset {Q H M : Type} (JQ : JobQueueExt Q M) (TR : TriggerExt H) (env : Env) (inp : Inputs) (σ : LSt Q H) :
    Reset JQ TR env inp σ = ({ σ with out := σ.out ++ [.trySend "sched.interrupt"] }, ()) ∧
    Generated.Wakeup.resetNonBlocking = true :=
  ⟨rfl, by decide⟩

/-- the statements before the loop: the timer is created with `maxTimerDuration`, `retryAt` starts as the zero Time -/
theorem trans_init {Q H M : Type} (JQ : JobQueueExt Q M) (TR : TriggerExt H) (env : Env) (inp : Inputs) (σ : LSt Q H) :
    startExecutionLoop.init JQ TR env inp σ =
      ({ σ with out := σ.out ++ [.deferWgDone, .timerNew maxDur] }, (none : Time)) := by
  simp [startExecutionLoop.init, LSt.emit, maxDur, Time.zero]

/-! ## The iteration iterated -/

/-- the translated iteration, iterated over the inputs of a run: `retryAt` is threaded from iteration to iteration exactly as the
    generated `startExecutionLoop.loop` threads it; every iteration meets a script of its own (its input dictates the answers) -/
def Par.runLoop (p : Par) (trig : Trig) (c : Cfg) (st : BState) : List In → List Out × BState
  | [] => ([], st)
  | i :: is =>
    let o := p.iter trig c st i
    let r := p.runLoop trig c o.st is
    (o :: r.1, r.2)

/-- no int64 overflow along a run -/
def NoOvfRun (c : Cfg) (trig : Trig) (st : BState) : List In → Prop
  | [] => True
  | i :: is => NoOvf c st i ∧ NoOvfRun c trig (Faults.iter theShape c trig st i).st is

theorem trans_runLoop (p : Par) (S : Shape) (hS : WF S) (c : Cfg) (hM : c.M = maxDur) (trig : Trig) (st : BState)
    (ins : List In) (hov : NoOvfRun c trig st ins) : p.runLoop trig c st ins = Faults.runLoop S c trig st ins := by
  rw [wf_eq S hS]
  induction ins generalizing st with
  | nil => rfl
  | cons i is ih =>
    obtain ⟨h1, h2⟩ := hov
    simp only [Par.runLoop, Faults.runLoop, trans_iter p theShape theShape_wf c hM trig st i h1, ih _ h2]

/-- the translated iteration closed over a queue that stores what is pushed (`Faults.iterQ`) -/
def Par.iterQ (p : Par) (trig : Trig) (c : Cfg) (s : LState) (pl : Plan) : Out × LState :=
  let o := p.iter trig c s.st (inOf s.q pl)
  (o, { st := o.st, q := qAfter s.q o })

def Par.runQ (p : Par) (trig : Trig) (c : Cfg) (s : LState) : List Plan → List Out × LState
  | [] => ([], s)
  | pl :: ps =>
    let r := p.iterQ trig c s pl
    let rest := p.runQ trig c r.2 ps
    (r.1 :: rest.1, rest.2)

def NoOvfRunQ (c : Cfg) (trig : Trig) (s : LState) : List Plan → Prop
  | [] => True
  | pl :: ps => NoOvf c s.st (inOf s.q pl) ∧ NoOvfRunQ c trig (Faults.iterQ theShape c trig s pl).2 ps

theorem trans_runQ (p : Par) (S : Shape) (hS : WF S) (c : Cfg) (hM : c.M = maxDur) (trig : Trig) (s : LState)
    (ps : List Plan) (hov : NoOvfRunQ c trig s ps) : p.runQ trig c s ps = Faults.runQ S c trig s ps := by
  rw [wf_eq S hS]
  induction ps generalizing s with
  | nil => rfl
  | cons pl ps ih =>
    obtain ⟨h1, h2⟩ := hov
    have e : p.iterQ trig c s pl = Faults.iterQ theShape c trig s pl := by
      simp only [Par.iterQ, Faults.iterQ, trans_iter p theShape theShape_wf c hM trig s.st _ h1]
    simp only [Par.runQ, Faults.runQ, e, ih _ h2]

/-! ## Transfers: the C15 theorems hold of the translated iteration -/

/-- `C15_backoff_step` for the TRANSLATED iteration: (1) a failing `Size()`/`Head()` arms `RetryInterval` and sets `retryAt` to its
    clock reading plus `RetryInterval`; (2) a failing `Pop()`/`Push()` sets `retryAt` to the clock reading plus `RetryInterval`;
    (3) before the deadline the timer is armed for exactly the deadline and the queue is asked nothing before the `select` — no
    `Size()`, no `Head()`; (4) an interrupted iteration without such an error leaves `retryAt` as it is. No shape parameter, no
    extracted fact. -/
theorem C15_backoff_step_trans (p : Par) (c : Cfg) (hM : c.M = maxDur) (trig : Trig) (st : BState) (i : In)
    (hov : NoOvf c st i) :
    ((p.iter trig c st i).armErr = true → (p.iter trig c st i).armed = c.R ∧
      (i.interrupted = true → (p.iter trig c st i).st.retryAt = some (i.now2 + c.R)) ∧
      (i.now2 ≤ i.nowErr → ∃ r', (p.iter trig c st i).st.retryAt = some r' ∧ i.now2 + c.R ≤ r')) ∧
    ((p.iter trig c st i).tickErr = true →
      i.interrupted = false ∧ (p.iter trig c st i).st.retryAt = some (i.nowErr + c.R)) ∧
    (∀ r, st.retryAt = some r → i.now1 < r → i.now2 + (p.iter trig c st i).armed = r ∧
      (p.iter trig c st i).armErr = false ∧
      (p.iter trig c st i).calls = (if i.interrupted then [] else (fetch theShape c trig i).calls)) ∧
    (i.interrupted = true → (p.iter trig c st i).armErr = false → (p.iter trig c st i).st = st) := by
  rw [trans_iter p theShape theShape_wf c hM trig st i hov]
  exact C15_backoff_step theShape theShape_wf c trig st i

/-- `C15_backoff` for the translated loop: after a loop-side error no later iteration ticks, and none asks `Size()`, before
    `RetryInterval` has passed — whatever interrupts arrive -/
theorem C15_backoff_trans (p : Par) (c : Cfg) (hM : c.M = maxDur) (trig : Trig) (st0 : BState) (prev : Int) (ins : List In)
    (hov : NoOvfRun c trig st0 ins) (hwt : WellTimed theShape c trig st0 prev ins) (k : Nat) (ik : In) (ok : Out)
    (hik : ins[k]? = some ik) (hok : (p.runLoop trig c st0 ins).1[k]? = some ok) :
    (ok.armErr = true → (ik.interrupted = false → ik.tArm + c.R ≤ ik.tickAt) ∧
      ∀ j ij oj, k < j → ins[j]? = some ij → (p.runLoop trig c st0 ins).1[j]? = some oj →
        (ij.interrupted = false → ik.now2 + c.R ≤ ij.tickAt) ∧
        (∀ o, oj.calls.head? = some (.size, o) → ik.now2 + c.R ≤ ij.now1)) ∧
    (ok.tickErr = true → ∀ j ij, k < j → ins[j]? = some ij →
      (ij.interrupted = false → ik.nowErr + c.R ≤ ij.tickAt) ∧
      (∀ oj o, (p.runLoop trig c st0 ins).1[j]? = some oj → oj.calls.head? = some (.size, o) →
        ik.nowErr + c.R ≤ ij.now1)) := by
  rw [trans_runLoop p theShape theShape_wf c hM trig st0 ins hov] at hok ⊢
  exact C15_backoff theShape theShape_wf c trig st0 prev ins hwt k ik ok hik hok

/-- `C15_size_retry_kept` (finding F4, repaired) for the translated loop: after an iteration that asked `Size()` and got an error,
    no later iteration asks `Size()` before `RetryInterval` has passed, whatever ended the waits in between -/
theorem C15_size_retry_kept_trans (p : Par) (c : Cfg) (hM : c.M = maxDur) (trig : Trig) (st0 : BState) (prev : Int)
    (ins : List In) (hov : NoOvfRun c trig st0 ins) (hwt : WellTimed theShape c trig st0 prev ins)
    (k j : Nat) (ik ij : In) (ok oj : Out) (o : Outcome) (hkj : k < j) (hik : ins[k]? = some ik) (hij : ins[j]? = some ij)
    (hok : (p.runLoop trig c st0 ins).1[k]? = some ok) (hoj : (p.runLoop trig c st0 ins).1[j]? = some oj)
    (hk : ok.calls.head? = some (.size, .err)) (hj : oj.calls.head? = some (.size, o)) : ik.now1 + c.R ≤ ij.now1 := by
  rw [trans_runLoop p theShape theShape_wf c hM trig st0 ins hov] at hok hoj
  exact C15_size_retry_kept_wf theShape theShape_wf c trig st0 prev ins hwt k j ik ij ok oj o hkj hik hij hok hoj hk hj

/-- `C15_deadline_not_postponed` for the translated loop: under an arbitrary stream of interrupts `retryAt` does not change
    (unless the queue fails anew after the deadline), every iteration before the deadline arms its timer for exactly the deadline
    and asks the queue nothing, and from the deadline on the back-off case is not taken -/
theorem C15_deadline_not_postponed_trans (p : Par) (c : Cfg) (hM : c.M = maxDur) (trig : Trig) (st : BState) (r : Int)
    (hr : st.retryAt = some r) (ins : List In) (hov : NoOvfRun c trig st ins) (hall : ∀ i ∈ ins, i.interrupted = true)
    (hok : ∀ i ∈ ins, r ≤ i.now1 → i.size.isSome = true ∧ i.head ≠ .err) :
    (p.runLoop trig c st ins).2 = st ∧
    ∀ (k : Nat) (ik : In) (ok : Out), ins[k]? = some ik → (p.runLoop trig c st ins).1[k]? = some ok →
      (ik.now1 < r → ik.now2 + ok.armed = r ∧ ok.calls = []) ∧
      (r ≤ ik.now1 → inBackoff theShape st ik.now1 = false) := by
  rw [trans_runLoop p theShape theShape_wf c hM trig st ins hov]
  exact C15_deadline_not_postponed theShape theShape_wf c trig st r hr ins hall hok

/-- `C15_no_double_fire` for the translated loop over a queue that stores what is pushed: no (job, fire time) is dispatched twice -/
theorem C15_no_double_fire_trans (p : Par) (c : Cfg) (hM : c.M = maxDur) (hthr : 0 ≤ c.thr) (trig : Trig)
    (hmono : ∀ k p t, trig k p = some t → p < t) (q0 : Queue) (hq : (q0.map (·.key)).Nodup) (st0 : BState)
    (ps : List Plan) (hov : NoOvfRunQ c trig ⟨st0, q0⟩ ps) :
    (dispatchLog (p.runQ trig c ⟨st0, q0⟩ ps).1).Nodup := by
  rw [trans_runQ p theShape theShape_wf c hM trig ⟨st0, q0⟩ ps hov]
  exact C15_no_double_fire theShape c hthr trig hmono q0 hq st0 ps

/-! ## Non-vacuity -/

/-- `NoOvf` with its two quantifiers resolved (decidable) -/
def NoOvf' (c : Cfg) (st : BState) (i : In) : Prop :=
  (match st.retryAt with
    | some r => i.now1 < r → satDuration (r - i.now2) = r - i.now2
    | none => True) ∧
  (match i.head with
    | .ok f => f > i.now2 → i64 (f - i.now2) = f - i.now2
    | _ => True) ∧
  i64 (i.nowVal - c.thr) = i.nowVal - c.thr

theorem noOvf_iff (c : Cfg) (st : BState) (i : In) : NoOvf c st i ↔ NoOvf' c st i := by
  unfold NoOvf NoOvf'
  cases st.retryAt <;> cases i.head <;> simp

instance (c : Cfg) (st : BState) (i : In) : Decidable (NoOvf' c st i) := by
  unfold NoOvf'
  cases st.retryAt <;> cases i.head <;> simp only <;> infer_instance

instance (c : Cfg) (st : BState) (i : In) : Decidable (NoOvf c st i) :=
  decidable_of_iff _ (noOvf_iff c st i).symm

instance decNoOvfRunQ (c : Cfg) (trig : Trig) : (s : LState) → (ps : List Plan) → Decidable (NoOvfRunQ c trig s ps)
  | _, [] => isTrue trivial
  | s, pl :: ps => by
    unfold NoOvfRunQ
    have := decNoOvfRunQ c trig (Faults.iterQ theShape c trig s pl).2 ps
    infer_instance

instance decNoOvfRun (c : Cfg) (trig : Trig) : (st : BState) → (ins : List In) → Decidable (NoOvfRun c trig st ins)
  | _, [] => isTrue trivial
  | st, i :: is => by
    unfold NoOvfRun
    have := decNoOvfRun c trig (Faults.iter theShape c trig st i).st is
    infer_instance

/-- a configuration whose `M` is `maxTimerDuration` -/
def cfg1 : Cfg := { R := 50, M := maxDur, thr := 100 }

/-- The TRANSLATED loop on the scenario of C15's own example: `Pop()` fails at time 10 (deadline 60); an interrupt at 20 does
    not move the deadline (timer armed with 40, then 39); the loop ticks at 60 and dispatches; no overflow anywhere. -/
example :
    NoOvfRunQ cfg1 trig0 ⟨{}, [⟨1, 5⟩]⟩ plans0 ∧
    (par0.runQ trig0 cfg1 ⟨{}, [⟨1, 5⟩]⟩ plans0).1.map (·.armed) = [0, 40, 39, 0] ∧
    dispatchLog (par0.runQ trig0 cfg1 ⟨{}, [⟨1, 5⟩]⟩ plans0).1 = [(1, 5), (1, 35)] ∧
    (par0.runQ trig0 cfg1 ⟨{}, [⟨1, 5⟩]⟩ plans0).1.map (·.tickErr) = [true, false, false, false] ∧
    (par0.runQ trig0 cfg1 ⟨{}, [⟨1, 5⟩]⟩ plans0).2 = ⟨{ retryAt := some 60 }, [⟨1, 65⟩]⟩ := by
  decide

/-- the hypotheses of `C15_deadline_not_postponed_trans` are satisfiable: two interrupts before the deadline 60 -/
example :
    let ins : List In := [inOf [⟨1, 5⟩] { Plan.at 20 with interrupted := true }, inOf [⟨1, 5⟩] { Plan.at 30 with interrupted := true }]
    NoOvfRun cfg1 trig0 { retryAt := some 60 } ins ∧ (∀ i ∈ ins, i.interrupted = true) ∧
    (par0.runLoop trig0 cfg1 { retryAt := some 60 } ins).1.map (·.armed) = [40, 30] := by
  decide

/-- the worker-pool mode and the goroutine mode dispatch as well; the exit case ends the loop -/
example :
    let i := inOf [⟨1, 5⟩] (Plan.at 10)
    (iterT par0.eE par0.eO trig0 cfg1 false 3 .send_dispatch true {} i).dispatched = some ⟨1, 5⟩ ∧
    (iterT par0.eE par0.eO trig0 cfg1 false 0 .recv_ctx_Done true {} i).dispatched = some ⟨1, 5⟩ ∧
    (startExecutionLoop.iter (scriptQ par0.eE par0.eO i) (scriptT trig0) (envOf cfg1 true 0)
      { inpOf i .send_dispatch true with startExecutionLoop_sel1 := .recv_ctx_Done } σ0 (some 7)).2 = (some 7, false) := by
  decide

/-- the case the model does not have (and `trans_iter` excludes): a worker-pool dispatch that loses against `ctx.Done()`
    pops and reschedules the job but does not run it -/
example :
    let i := inOf [⟨1, 5⟩] (Plan.at 10)
    (iterT par0.eE par0.eO trig0 cfg1 false 3 .recv_ctx_Done true {} i).dispatched = none ∧
    (iterT par0.eE par0.eO trig0 cfg1 false 3 .recv_ctx_Done true {} i).popped = some ⟨1, 5⟩ ∧
    (Faults.iter theShape cfg1 trig0 {} i).dispatched = some ⟨1, 5⟩ := by
  decide

end TransLoop
