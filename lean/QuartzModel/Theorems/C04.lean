import QuartzModel.Sched.Model
import QuartzModel.Sched.History
import QuartzModel.Theorems.C11
import QuartzModel.Proofs.SchedLemmas
/-!
# C04 — every dequeued fire time is accounted for

"each fire time the scheduler dequeues is either executed, after which the next fire time is computed
from that scheduled fire time rather than from the clock (no drift), or, only if the scheduler is more
than OutdatedThreshold late, skipped, offered to MisfiredChan and re-based on the current time.  No fire
time is silently dropped or invented, and when the trigger reports that no further fire time exists the
job leaves the registry, after its last fire time has run if that was on time (a run-once job runs
exactly once)."

`thr` is `OutdatedThreshold` in nanoseconds; `StepOut.misfired` is the (non-blocking) offer to
`MisfiredChan`.  Clock readings are not assumed monotone.
-/
namespace Sched
open Queue

/-! ## one step -/

/-- Every non-suspended entry a step pops is accounted for in exactly one of three ways (the three
`cls` values are different, so the cases exclude each other):
* valid: dispatched, the trigger is asked with the SCHEDULED fire time `e.prio` (not the clock);
* outdated — only if `now - e.prio > thr`: not dispatched, offered to the misfire channel, the trigger
  is asked with the clock reading `now`;
* not due: not dispatched, no trigger call, the very same entry goes back.
In the first two cases the entry goes back with the trigger's answer as its new fire time, or not at
all if the trigger answered with an error.  Nothing else in the registry changes. -/
theorem C04_accounted (s : SState) (now thr : Int) (h : Inv s.q) (e : Entry)
    (hp : (step s now thr).2.popped = some e) (hs : e.suspended = false) :
    (∃ rest : List Entry, s.q.toList.Perm (e :: rest) ∧
      (step s now thr).1.q.toList.Perm ((step s now thr).2.pushed.toList ++ rest)) ∧
    (((step s now thr).2.cls = some .valid ∧ (step s now thr).2.dispatched = true ∧
        (step s now thr).2.misfired = false ∧ now - thr ≤ e.prio ∧ e.prio ≤ now ∧
        ∃ r, r = ((s.trig e.tag).fire e.prio).1 ∧
          (step s now thr).2.calls = [⟨e.tag, e.prio, r⟩] ∧
          (step s now thr).2.pushed = r.map (fun p => { e with prio := p }) ∧
          (step s now thr).1.trig e.tag = ((s.trig e.tag).fire e.prio).2) ∨
     ((step s now thr).2.cls = some .outdated ∧ (step s now thr).2.dispatched = false ∧
        (step s now thr).2.misfired = true ∧ now - e.prio > thr ∧
        ∃ r, r = ((s.trig e.tag).fire now).1 ∧
          (step s now thr).2.calls = [⟨e.tag, now, r⟩] ∧
          (step s now thr).2.pushed = r.map (fun p => { e with prio := p }) ∧
          (step s now thr).1.trig e.tag = ((s.trig e.tag).fire now).2) ∨
     ((step s now thr).2.cls = some .notDue ∧ (step s now thr).2.dispatched = false ∧
        (step s now thr).2.misfired = false ∧ now < e.prio ∧
        (step s now thr).2.calls = [] ∧ (step s now thr).2.pushed = some e ∧
        (step s now thr).1.trigs = s.trigs)) := by
  rcases step_cases s now thr h with ⟨_, hst⟩ | ⟨q1, e', _, hperm, hi, hmin, hnk,
    ⟨ha, hst⟩ | ⟨pv, ha, hf, hst⟩ | ⟨pv, p, ha, hf, hst⟩⟩
  · rw [hst] at hp; cases hp
  · -- not asked: suspended or not due
    rw [hst] at hp ⊢
    have : e' = e := by injection hp with hp
    subst this
    rcases classify_cases e' now thr with ⟨_, h2⟩ | ⟨hc, _⟩ | ⟨hc, _, _, h4⟩ | ⟨hc, _⟩
    · rw [hs] at h2; cases h2
    · unfold askedWith at ha; rw [hc] at ha; cases ha
    · have hk : keptPrio e' now thr = e'.prio := by unfold keptPrio; rw [hc]
      refine ⟨⟨q1.toList, hperm, ?_⟩, Or.inr (Or.inr ?_)⟩
      · exact hpush_perm _ _
      · refine ⟨by simp [outBase, hc], by simp [outBase, hc], by simp [outBase, hc], h4, rfl, ?_, rfl⟩
        show some ({ e' with prio := keptPrio e' now thr } : Entry) = some e'
        rw [hk]
    · unfold askedWith at ha; rw [hc] at ha; cases ha
  · -- asked, answer none
    rw [hst] at hp ⊢
    have : e' = e := by injection hp with hp
    subst this
    refine ⟨⟨q1.toList, hperm, ?_⟩, ?_⟩
    · exact List.Perm.refl _
    · rcases classify_cases e' now thr with ⟨hc, _⟩ | ⟨hc, _, h3⟩ | ⟨hc, _⟩ | ⟨hc, _, h3, h4⟩
      · unfold askedWith at ha; rw [hc] at ha; cases ha
      · have : pv = now := by unfold askedWith at ha; rw [hc] at ha; injection ha with ha; exact ha.symm
        subst this
        refine Or.inr (Or.inl ⟨by simp [outBase, hc], by simp [outBase, hc], by simp [outBase, hc],
          by omega, none, hf.symm, rfl, rfl, ?_⟩)
        exact trig_setTrig_same _ _ _
      · unfold askedWith at ha; rw [hc] at ha; cases ha
      · have : pv = e'.prio := by unfold askedWith at ha; rw [hc] at ha; injection ha with ha; exact ha.symm
        subst this
        refine Or.inl ⟨by simp [outBase, hc], by simp [outBase, hc], by simp [outBase, hc],
          h3, h4, none, hf.symm, rfl, rfl, ?_⟩
        exact trig_setTrig_same _ _ _
  · -- asked, answer some p
    rw [hst] at hp ⊢
    have : e' = e := by injection hp with hp
    subst this
    refine ⟨⟨q1.toList, hperm, ?_⟩, ?_⟩
    · exact hpush_perm _ _
    · rcases classify_cases e' now thr with ⟨hc, _⟩ | ⟨hc, _, h3⟩ | ⟨hc, _⟩ | ⟨hc, _, h3, h4⟩
      · unfold askedWith at ha; rw [hc] at ha; cases ha
      · have : pv = now := by unfold askedWith at ha; rw [hc] at ha; injection ha with ha; exact ha.symm
        subst this
        refine Or.inr (Or.inl ⟨by simp [outBase, hc], by simp [outBase, hc], by simp [outBase, hc],
          by omega, some p, hf.symm, rfl, rfl, ?_⟩)
        exact trig_setTrig_same _ _ _
      · unfold askedWith at ha; rw [hc] at ha; cases ha
      · have : pv = e'.prio := by unfold askedWith at ha; rw [hc] at ha; injection ha with ha; exact ha.symm
        subst this
        refine Or.inl ⟨by simp [outBase, hc], by simp [outBase, hc], by simp [outBase, hc],
          h3, h4, some p, hf.symm, rfl, rfl, ?_⟩
        exact trig_setTrig_same _ _ _

/-- a suspended entry that is popped is neither executed nor reported nor asked: it goes back with the
sentinel priority -/
theorem C04_suspended_untouched (s : SState) (now thr : Int) (h : Inv s.q) (e : Entry)
    (hp : (step s now thr).2.popped = some e) (hs : e.suspended = true) :
    (step s now thr).2.dispatched = false ∧ (step s now thr).2.misfired = false ∧
    (step s now thr).2.calls = [] ∧ (step s now thr).2.pushed = some { e with prio := maxInt64 } ∧
    (step s now thr).1.trigs = s.trigs := by
  have hc : classify e now thr = .suspended := by unfold classify; simp [hs]
  rcases step_cases s now thr h with ⟨_, hst⟩ | ⟨q1, e', _, hperm, hi, hmin, hnk,
    ⟨ha, hst⟩ | ⟨pv, ha, hf, hst⟩ | ⟨pv, p, ha, hf, hst⟩⟩
  · rw [hst] at hp; cases hp
  · rw [hst] at hp ⊢
    have : e' = e := by injection hp with hp
    subst this
    have hk : keptPrio e' now thr = maxInt64 := by unfold keptPrio; rw [hc]
    refine ⟨by simp [outBase, hc], by simp [outBase, hc], rfl, ?_, rfl⟩
    show some ({ e' with prio := keptPrio e' now thr } : Entry) = _
    rw [hk]
  · rw [hst] at hp
    have : e' = e := by injection hp with hp
    subst this
    unfold askedWith at ha; rw [hc] at ha; cases ha
  · rw [hst] at hp
    have : e' = e := by injection hp with hp
    subst this
    unfold askedWith at ha; rw [hc] at ha; cases ha

/-- A fire time is reported as misfired (and skipped) exactly when the loop is more than the threshold
late for it; no assumption on the state. -/
theorem C04_misfire_iff_late (s : SState) (now thr : Int) (e : Entry)
    (hp : (step s now thr).2.popped = some e) :
    (step s now thr).2.misfired = true ↔ (e.suspended = false ∧ now - e.prio > thr) := by
  rcases step_out_basic s now thr with ⟨_, hs⟩ | ⟨q1, e', _, hp', _, _, hm, _⟩
  · rw [hs] at hp; cases hp
  · rw [hp] at hp'
    injection hp' with hp'
    subst hp'
    rw [hm]
    rcases classify_cases e now thr with ⟨hc, h2⟩ | ⟨hc, h2, h3⟩ | ⟨hc, h2, h3, h4⟩ | ⟨hc, h2, h3, h4⟩ <;>
      rw [hc]
    · simp [h2]
    · simp only [beq_self_eq_true, true_iff]; exact ⟨h2, by omega⟩
    · simp only [show (Class.notDue == Class.outdated) = false from rfl, Bool.false_eq_true, false_iff]
      intro hh; omega
    · simp only [show (Class.valid == Class.outdated) = false from rfl, Bool.false_eq_true, false_iff]
      intro hh; omega

theorem C04_misfire_only_if_late (s : SState) (now thr : Int) (e : Entry)
    (hm : (step s now thr).2.misfired = true) (hp : (step s now thr).2.popped = some e) :
    now - e.prio > thr ∧ e.suspended = false ∧ (step s now thr).2.dispatched = false := by
  have h1 := (C04_misfire_iff_late s now thr e hp).mp hm
  refine ⟨h1.2, h1.1, ?_⟩
  cases hd : (step s now thr).2.dispatched with
  | false => rfl
  | true =>
    rcases step_out_basic s now thr with ⟨_, hs⟩ | ⟨q1, e', _, hp', _, hd', hm', _⟩
    · rw [hs] at hp; cases hp
    · rw [hd'] at hd
      rw [hm'] at hm
      have h2 : classify e' now thr = .valid := by simpa using hd
      rw [h2] at hm
      cases hm

/-- When the trigger reports that no further fire time exists the job leaves the registry (everything
else stays), and if the popped fire time was on time it has still been handed to a worker. -/
theorem C04_leaves_registry (s : SState) (now thr : Int) (h : Inv s.q) (e : Entry)
    (hp : (step s now thr).2.popped = some e)
    (hnone : ∃ pv, (step s now thr).2.calls = [⟨e.tag, pv, none⟩]) :
    ¬ hasKey (step s now thr).1.q e.group e.name ∧ (step s now thr).2.pushed = none ∧
    (step s now thr).1.q.toList.Perm (s.q.toList.erase e) ∧
    ((step s now thr).2.cls = some .valid ∨ (step s now thr).2.cls = some .outdated) ∧
    ((step s now thr).2.cls = some .valid → (step s now thr).2.dispatched = true) ∧
    ((step s now thr).2.cls = some .outdated → (step s now thr).2.misfired = true) := by
  obtain ⟨pv', hcalls⟩ := hnone
  rcases step_cases s now thr h with ⟨_, hst⟩ | ⟨q1, e', _, hperm, hi, hmin, hnk,
    ⟨ha, hst⟩ | ⟨pv, ha, hf, hst⟩ | ⟨pv, p, ha, hf, hst⟩⟩
  · rw [hst] at hp; cases hp
  · rw [hst] at hcalls; cases hcalls
  · rw [hst] at hp ⊢
    have : e' = e := by injection hp with hp
    subst this
    refine ⟨hnk, rfl, (perm_erase_of_cons hperm).symm, ?_, ?_, ?_⟩
    · unfold askedWith at ha
      cases hc : classify e' now thr <;> rw [hc] at ha <;> simp [outBase, hc] <;> cases ha
    · intro hv
      have : classify e' now thr = .valid := by simpa [outBase] using hv
      simp [outBase, this]
    · intro hv
      have : classify e' now thr = .outdated := by simpa [outBase] using hv
      simp [outBase, this]
  · rw [hst] at hcalls
    simp [outBase] at hcalls

end Sched
