import QuartzModel.Sched.Model
import QuartzModel.Sched.History
import QuartzModel.Theorems.C11
import QuartzModel.Proofs.SchedLemmas
/-!
# C04 — every dequeued fire time is accounted for

"each fire time the scheduler dequeues is either executed, after which the next fire time is computed
from that scheduled fire time rather than from the clock (no drift), or, only if the scheduler is more
than OutdatedThreshold late, skipped, offered to MisfiredChan and re-based on the current time.  No fire
time is silently dropped or invented, and when the trigger reports that no further fire time exists the
job leaves the registry, after its last fire time has run if that was on time (a run-once job runs
exactly once)."

`thr` is `OutdatedThreshold` in nanoseconds; `StepOut.misfired` is the (non-blocking) offer to
`MisfiredChan`.  Clock readings are not assumed monotone.
-/
namespace Sched
open Queue

/-! ## one step -/

/-- Every non-suspended entry a step pops is accounted for in exactly one of three ways (the three
`cls` values are different, so the cases exclude each other):
* valid: dispatched, the trigger is asked with the SCHEDULED fire time `e.prio` (not the clock);
* outdated — only if `now - e.prio > thr`: not dispatched, offered to the misfire channel, the trigger
  is asked with the clock reading `now`;
* not due: not dispatched, no trigger call, the very same entry goes back.
In the first two cases the entry goes back with the trigger's answer as its new fire time, or not at
all if the trigger answered with an error.  Nothing else in the registry changes. -/
theorem C04_accounted (s : SState) (now thr : Int) (h : Inv s.q) (e : Entry)
    (hp : (step s now thr).2.popped = some e) (hs : e.suspended = false) :
    (∃ rest : List Entry, s.q.toList.Perm (e :: rest) ∧
      (step s now thr).1.q.toList.Perm ((step s now thr).2.pushed.toList ++ rest)) ∧
    (((step s now thr).2.cls = some .valid ∧ (step s now thr).2.dispatched = true ∧
        (step s now thr).2.misfired = false ∧ now - thr ≤ e.prio ∧ e.prio ≤ now ∧
        ∃ r, r = ((s.trig e.tag).fire e.prio).1 ∧
          (step s now thr).2.calls = [⟨e.tag, e.prio, r⟩] ∧
          (step s now thr).2.pushed = r.map (fun p => { e with prio := p }) ∧
          (step s now thr).1.trig e.tag = ((s.trig e.tag).fire e.prio).2) ∨
     ((step s now thr).2.cls = some .outdated ∧ (step s now thr).2.dispatched = false ∧
        (step s now thr).2.misfired = true ∧ now - e.prio > thr ∧
        ∃ r, r = ((s.trig e.tag).fire now).1 ∧
          (step s now thr).2.calls = [⟨e.tag, now, r⟩] ∧
          (step s now thr).2.pushed = r.map (fun p => { e with prio := p }) ∧
          (step s now thr).1.trig e.tag = ((s.trig e.tag).fire now).2) ∨
     ((step s now thr).2.cls = some .notDue ∧ (step s now thr).2.dispatched = false ∧
        (step s now thr).2.misfired = false ∧ now < e.prio ∧
        (step s now thr).2.calls = [] ∧ (step s now thr).2.pushed = some e ∧
        (step s now thr).1.trigs = s.trigs)) := by
  rcases step_cases s now thr h with ⟨_, hst⟩ | ⟨q1, e', _, hperm, hi, hmin, hnk,
    ⟨ha, hst⟩ | ⟨pv, ha, hf, hst⟩ | ⟨pv, p, ha, hf, hst⟩⟩
  · rw [hst] at hp; cases hp
  · -- not asked: suspended or not due
    rw [hst] at hp ⊢
    have : e' = e := by injection hp with hp
    subst this
    rcases classify_cases e' now thr with ⟨_, h2⟩ | ⟨hc, _⟩ | ⟨hc, _, _, h4⟩ | ⟨hc, _⟩
    · rw [hs] at h2; cases h2
    · unfold askedWith at ha; rw [hc] at ha; cases ha
    · have hk : keptPrio e' now thr = e'.prio := by unfold keptPrio; rw [hc]
      refine ⟨⟨q1.toList, hperm, ?_⟩, Or.inr (Or.inr ?_)⟩
      · exact hpush_perm _ _
      · refine ⟨by simp [outBase, hc], by simp [outBase, hc], by simp [outBase, hc], h4, rfl, ?_, rfl⟩
        show some ({ e' with prio := keptPrio e' now thr } : Entry) = some e'
        rw [hk]
    · unfold askedWith at ha; rw [hc] at ha; cases ha
  · -- asked, answer none
    rw [hst] at hp ⊢
    have : e' = e := by injection hp with hp
    subst this
    refine ⟨⟨q1.toList, hperm, ?_⟩, ?_⟩
    · exact List.Perm.refl _
    · rcases classify_cases e' now thr with ⟨hc, _⟩ | ⟨hc, _, h3⟩ | ⟨hc, _⟩ | ⟨hc, _, h3, h4⟩
      · unfold askedWith at ha; rw [hc] at ha; cases ha
      · have : pv = now := by unfold askedWith at ha; rw [hc] at ha; injection ha with ha; exact ha.symm
        subst this
        refine Or.inr (Or.inl ⟨by simp [outBase, hc], by simp [outBase, hc], by simp [outBase, hc],
          by omega, none, hf.symm, rfl, rfl, ?_⟩)
        exact trig_setTrig_same _ _ _
      · unfold askedWith at ha; rw [hc] at ha; cases ha
      · have : pv = e'.prio := by unfold askedWith at ha; rw [hc] at ha; injection ha with ha; exact ha.symm
        subst this
        refine Or.inl ⟨by simp [outBase, hc], by simp [outBase, hc], by simp [outBase, hc],
          h3, h4, none, hf.symm, rfl, rfl, ?_⟩
        exact trig_setTrig_same _ _ _
  · -- asked, answer some p
    rw [hst] at hp ⊢
    have : e' = e := by injection hp with hp
    subst this
    refine ⟨⟨q1.toList, hperm, ?_⟩, ?_⟩
    · exact hpush_perm _ _
    · rcases classify_cases e' now thr with ⟨hc, _⟩ | ⟨hc, _, h3⟩ | ⟨hc, _⟩ | ⟨hc, _, h3, h4⟩
      · unfold askedWith at ha; rw [hc] at ha; cases ha
      · have : pv = now := by unfold askedWith at ha; rw [hc] at ha; injection ha with ha; exact ha.symm
        subst this
        refine Or.inr (Or.inl ⟨by simp [outBase, hc], by simp [outBase, hc], by simp [outBase, hc],
          by omega, some p, hf.symm, rfl, rfl, ?_⟩)
        exact trig_setTrig_same _ _ _
      · unfold askedWith at ha; rw [hc] at ha; cases ha
      · have : pv = e'.prio := by unfold askedWith at ha; rw [hc] at ha; injection ha with ha; exact ha.symm
        subst this
        refine Or.inl ⟨by simp [outBase, hc], by simp [outBase, hc], by simp [outBase, hc],
          h3, h4, some p, hf.symm, rfl, rfl, ?_⟩
        exact trig_setTrig_same _ _ _

/-- a suspended entry that is popped is neither executed nor reported nor asked: it goes back with the
sentinel priority -/
theorem C04_suspended_untouched (s : SState) (now thr : Int) (h : Inv s.q) (e : Entry)
    (hp : (step s now thr).2.popped = some e) (hs : e.suspended = true) :
    (step s now thr).2.dispatched = false ∧ (step s now thr).2.misfired = false ∧
    (step s now thr).2.calls = [] ∧ (step s now thr).2.pushed = some { e with prio := maxInt64 } ∧
    (step s now thr).1.trigs = s.trigs := by
  have hc : classify e now thr = .suspended := by unfold classify; simp [hs]
  rcases step_cases s now thr h with ⟨_, hst⟩ | ⟨q1, e', _, hperm, hi, hmin, hnk,
    ⟨ha, hst⟩ | ⟨pv, ha, hf, hst⟩ | ⟨pv, p, ha, hf, hst⟩⟩
  · rw [hst] at hp; cases hp
  · rw [hst] at hp ⊢
    have : e' = e := by injection hp with hp
    subst this
    have hk : keptPrio e' now thr = maxInt64 := by unfold keptPrio; rw [hc]
    refine ⟨by simp [outBase, hc], by simp [outBase, hc], rfl, ?_, rfl⟩
    show some ({ e' with prio := keptPrio e' now thr } : Entry) = _
    rw [hk]
  · rw [hst] at hp
    have : e' = e := by injection hp with hp
    subst this
    unfold askedWith at ha; rw [hc] at ha; cases ha
  · rw [hst] at hp
    have : e' = e := by injection hp with hp
    subst this
    unfold askedWith at ha; rw [hc] at ha; cases ha

/-- A fire time is reported as misfired (and skipped) exactly when the loop is more than the threshold
late for it; no assumption on the state. -/
theorem C04_misfire_iff_late (s : SState) (now thr : Int) (e : Entry)
    (hp : (step s now thr).2.popped = some e) :
    (step s now thr).2.misfired = true ↔ (e.suspended = false ∧ now - e.prio > thr) := by
  rcases step_out_basic s now thr with ⟨_, hs⟩ | ⟨q1, e', _, hp', _, _, hm, _⟩
  · rw [hs] at hp; cases hp
  · rw [hp] at hp'
    injection hp' with hp'
    subst hp'
    rw [hm]
    rcases classify_cases e now thr with ⟨hc, h2⟩ | ⟨hc, h2, h3⟩ | ⟨hc, h2, h3, h4⟩ | ⟨hc, h2, h3, h4⟩ <;>
      rw [hc]
    · simp [h2]
    · simp only [beq_self_eq_true, true_iff]; exact ⟨h2, by omega⟩
    · simp only [show (Class.notDue == Class.outdated) = false from rfl, Bool.false_eq_true, false_iff]
      intro hh; omega
    · simp only [show (Class.valid == Class.outdated) = false from rfl, Bool.false_eq_true, false_iff]
      intro hh; omega

theorem C04_misfire_only_if_late (s : SState) (now thr : Int) (e : Entry)
    (hm : (step s now thr).2.misfired = true) (hp : (step s now thr).2.popped = some e) :
    now - e.prio > thr ∧ e.suspended = false ∧ (step s now thr).2.dispatched = false := by
  have h1 := (C04_misfire_iff_late s now thr e hp).mp hm
  refine ⟨h1.2, h1.1, ?_⟩
  cases hd : (step s now thr).2.dispatched with
  | false => rfl
  | true =>
    rcases step_out_basic s now thr with ⟨_, hs⟩ | ⟨q1, e', _, hp', _, hd', hm', _⟩
    · rw [hs] at hp; cases hp
    · rw [hd'] at hd
      rw [hm'] at hm
      have h2 : classify e' now thr = .valid := by simpa using hd
      rw [h2] at hm
      cases hm

/-- When the trigger reports that no further fire time exists the job leaves the registry (everything
else stays), and if the popped fire time was on time it has still been handed to a worker. -/
theorem C04_leaves_registry (s : SState) (now thr : Int) (h : Inv s.q) (e : Entry)
    (hp : (step s now thr).2.popped = some e)
    (hnone : ∃ pv, (step s now thr).2.calls = [⟨e.tag, pv, none⟩]) :
    ¬ hasKey (step s now thr).1.q e.group e.name ∧ (step s now thr).2.pushed = none ∧
    (step s now thr).1.q.toList.Perm (s.q.toList.erase e) ∧
    ((step s now thr).2.cls = some .valid ∨ (step s now thr).2.cls = some .outdated) ∧
    ((step s now thr).2.cls = some .valid → (step s now thr).2.dispatched = true) ∧
    ((step s now thr).2.cls = some .outdated → (step s now thr).2.misfired = true) := by
  obtain ⟨pv', hcalls⟩ := hnone
  rcases step_cases s now thr h with ⟨_, hst⟩ | ⟨q1, e', _, hperm, hi, hmin, hnk,
    ⟨ha, hst⟩ | ⟨pv, ha, hf, hst⟩ | ⟨pv, p, ha, hf, hst⟩⟩
  · rw [hst] at hp; cases hp
  · rw [hst] at hcalls; cases hcalls
  · rw [hst] at hp ⊢
    have : e' = e := by injection hp with hp
    subst this
    refine ⟨hnk, rfl, (perm_erase_of_cons hperm).symm, ?_, ?_, ?_⟩
    · unfold askedWith at ha
      cases hc : classify e' now thr <;> rw [hc] at ha <;> simp [outBase, hc] <;> cases ha
    · intro hv
      have : classify e' now thr = .valid := by simpa [outBase] using hv
      simp [outBase, this]
    · intro hv
      have : classify e' now thr = .outdated := by simpa [outBase] using hv
      simp [outBase, this]
  · rw [hst] at hcalls
    simp [outBase] at hcalls

/-! ## whole histories: no drift -/

/-- **No drift.**  A job with a `SimpleTrigger` of interval `I` whose next fire time is `f0 = x.prio`;
ANY history of loop steps at arbitrary clock readings (spurious, late within the threshold, out of
order, interleaved with steps that serve other jobs) in which no step finds the job more than `thr`
late.  Then the fire times dispatched for the job are exactly `f0, f0 + I, f0 + 2 I, …` — whatever the
actual clock readings were — each `NextFireTime` call was made with the scheduled fire time (not the
clock) as argument, and the job sits in the registry with fire time `f0 + k I`.

`hov` (no overflow): the interval addition saturates at `maxInt64` (`addNanos`, see `C04_saturates`), so the
arithmetic progression holds as long as `clock + I` is representable at every step of the history.  This is a
statement about the clock readings only, not about the fire times: a fire time is dispatched only when it is
due (`x.prio + i I ≤ now`, `C03_never_early`), so `x.prio + i I + I ≤ now + I ≤ maxInt64` at every
dispatching step, and a step that does not dispatch asks nothing.  For real clock readings (UnixNano, about
`1.8e18`) it holds for every interval up to about 234 years. -/
theorem C04_no_drift (thr I : Int) (s : SState) (hwf : WF s) (x : Entry) (hx : x ∈ s.q.toList)
    (hxs : x.suspended = false) (htr : s.trig x.tag = .simple I) (evs : List Ev)
    (hos : OnlySteps evs) (hno : NeverOutdated x.tag (run thr s evs).2)
    (hov : I ≤ 0 ∨ ∀ now, Ev.step now ∈ evs → now + I ≤ maxInt64) :
    ∃ k : Nat,
      dispatchTimes x.tag (run thr s evs).2 =
        (List.range k).map (fun (i : Nat) => x.prio + (i : Int) * I) ∧
      (callLog (run thr s evs).2).filter (fun c => c.tag == x.tag) =
        (List.range k).map (fun (i : Nat) =>
          (⟨x.tag, x.prio + (i : Int) * I, some (x.prio + (i : Int) * I + I)⟩ : TrigCall)) ∧
      ({ x with prio := x.prio + (k : Int) * I } : Entry) ∈ (run thr s evs).1.q.toList ∧
      (run thr s evs).1.trig x.tag = .simple I :=
  no_drift_aux thr I x.tag evs s x hwf hx hxs rfl htr hos hno hov

/-- the hypotheses of `C04_no_drift` right after `ScheduleJob` with a simple trigger at clock reading
`now0`: first fire time `f0 = satAdd now0 I`, that is `now0 + I`, or `maxInt64` if that overflows
(`C04_saturates`, `satAdd_eq`) -/
theorem C04_no_drift_start (s : SState) (hwf : WF s) (now0 I : Int) (a : SchedArgs)
    (ha : a.trig = some (.simple I)) (hs : a.suspended = false) (hfresh : AbsentTag a.tag s)
    (hok : (schedule s now0 a).2.1 = none) :
    WF (schedule s now0 a).1 ∧ a.entry (satAdd now0 I) ∈ (schedule s now0 a).1.q.toList ∧
    (a.entry (satAdd now0 I)).suspended = false ∧
    (schedule s now0 a).1.trig (a.entry (satAdd now0 I)).tag = .simple I := by
  have hkind : Kind 0 s (.schedule now0 a) (schedule s now0 a).1
      { err := (schedule s now0 a).2.1, calls := (schedule s now0 a).2.2 } :=
    apply_kind 0 s hwf.wf0 (.schedule now0 a)
  have hwf' : WF (schedule s now0 a).1 :=
    kind_wf hwf (fun t ht e he => by injection ht with ht; subst ht; exact hfresh e he) hkind
  obtain ⟨t, p, ht, _, hc | hc, hmem, _⟩ := schedule_ok_facts s now0 a hwf.inv hok
  · rw [hs] at hc; cases hc.1
  · rw [ha] at ht
    injection ht with ht
    subst ht
    obtain ⟨_, hp, htr, _⟩ := hc
    have : p = satAdd now0 I := by
      rw [fire_simple] at hp
      injection hp with hp
      exact hp.symm
    subst this
    exact ⟨hwf', hmem, hs, htr⟩

/-! ## whole histories: a run-once job runs exactly once -/

/-- **Run once.**  `ScheduleJob` at clock reading `now0` with a `RunOnceTrigger` of delay `d` (a new
trigger object) succeeded: the job is registered with the single fire time `f = satAdd now0 d`, that is
`satAdd now0 d`, or `maxInt64` if that overflows (`C04_saturates`, `satAdd_eq`).  Then for EVERY
continuation `evs` (loop steps at any clock readings, any API calls — later `ScheduleJob`s bring their
own trigger objects):
1. the job is dispatched at most once in total, and only for the fire time `f`; every later call
   on its trigger answers "no further fire time";
2. if some step at a clock reading within `[f, f + thr]` pops the (active) job, that step
   dispatches it; in total the job is then dispatched exactly once; afterwards it is never popped,
   asked or dispatched again, its tag is not in the registry, and its key is not in the registry unless
   a later `ScheduleJob` brings that key again. -/
theorem C04_run_once (thr : Int) (s s1 : SState) (calls : List TrigCall) (hwf : WF s) (now0 d : Int)
    (a : SchedArgs) (ha : a.trig = some (.runOnce d false)) (hs : a.suspended = false)
    (hfresh : AbsentTag a.tag s) (hsched : schedule s now0 a = (s1, none, calls)) :
    a.entry (satAdd now0 d) ∈ s1.q.toList ∧ calls = [⟨a.tag, now0, some (satAdd now0 d)⟩] ∧
    ∀ evs : List Ev, FreshTags evs → FreshFor s1 evs →
      (dispatchTimes a.tag (run thr s1 evs).2 = [] ∨
        dispatchTimes a.tag (run thr s1 evs).2 = [satAdd now0 d]) ∧
      (∀ c ∈ callLog (run thr s1 evs).2, c.tag = a.tag → c.result = none) ∧
      ∀ (evs1 : List Ev) (now : Int) (evs2 : List Ev), evs = evs1 ++ .step now :: evs2 →
        ∀ e, (step (run thr s1 evs1).1 now thr).2.popped = some e → e.tag = a.tag →
          e.suspended = false → satAdd now0 d ≤ now → now ≤ satAdd now0 d + thr →
          (step (run thr s1 evs1).1 now thr).2.dispatched = true ∧
          e = a.entry (satAdd now0 d) ∧
          dispatchTimes a.tag (run thr s1 evs).2 = [satAdd now0 d] ∧
          (∀ o ∈ (run thr (step (run thr s1 evs1).1 now thr).1 evs2).2, o.quiet a.tag) ∧
          AbsentTag a.tag (run thr s1 evs).1 ∧
          ((∀ ev ∈ evs2, ev.schedulesKey a.group a.name = false) →
            ¬ hasKey (run thr s1 evs).1.q a.group a.name) := by
  have hs1 : (schedule s now0 a).1 = s1 := by rw [hsched]
  have hok : (schedule s now0 a).2.1 = none := by rw [hsched]
  have hcalls : (schedule s now0 a).2.2 = calls := by rw [hsched]
  have hkind : Kind thr s (.schedule now0 a) (schedule s now0 a).1
      { err := (schedule s now0 a).2.1, calls := (schedule s now0 a).2.2 } :=
    apply_kind thr s hwf.wf0 (.schedule now0 a)
  have hwf1 : WF s1 := by
    rw [← hs1]
    exact kind_wf hwf (fun t ht e he => by injection ht with ht; subst ht; exact hfresh e he) hkind
  -- the state right after the schedule
  obtain ⟨t, p, ht, _, hc | hc, hmem, _⟩ := schedule_ok_facts s now0 a hwf.inv hok
  · rw [hs] at hc; cases hc.1
  rw [ha] at ht
  injection ht with ht
  subst ht
  obtain ⟨_, hp, htr, hcl⟩ := hc
  have hpe : p = satAdd now0 d := by
    rw [fire_runOnce] at hp
    injection hp with hp
    exact hp.symm
  subst hpe
  rw [hs1] at hmem htr
  rw [hcalls] at hcl
  have htr1 : s1.trig a.tag = .runOnce d true := htr
  have hT : ∀ pv, (Trig.runOnce d true).fire pv = (none, .runOnce d true) := fun _ => rfl
  -- entries with this tag: exactly the new one
  have hown : ∀ x ∈ s1.q.toList, x.tag = a.tag → x = a.entry (satAdd now0 d) :=
    fun x hx hxt => hwf1.tags x hx _ hmem hxt
  refine ⟨hmem, hcl, ?_⟩
  intro evs hft hff
  have hns : a.tag ∉ schedTags evs := fun hh => hff a.tag hh _ hmem rfl
  have hR1 : ∀ x ∈ s1.q.toList, x.tag = a.tag → x.suspended = false → x = a.entry (satAdd now0 d) :=
    fun x hx hxt _ => hown x hx hxt
  obtain ⟨r1, r2, _, _⟩ :=
    run_spent_once thr a.tag (a.entry (satAdd now0 d)) _ hT evs s1 hwf1 hft hff hns htr1 hR1
  have r1 : dispatchTimes a.tag (run thr s1 evs).2 = [] ∨
      dispatchTimes a.tag (run thr s1 evs).2 = [satAdd now0 d] := r1
  refine ⟨r1, r2, ?_⟩
  intro evs1 now evs2 hevs e hpop het hes hlo hhi
  subst hevs
  -- the state before the step
  obtain ⟨hwf2, hft2, hff2⟩ := run_fresh thr evs1 (.step now :: evs2) s1 hwf1 hft hff
  have hns1 : a.tag ∉ schedTags evs1 := by
    rw [schedTags_append] at hns
    exact fun hh => hns (List.mem_append_left _ hh)
  have hns2 : a.tag ∉ schedTags evs2 := by
    rw [schedTags_append, schedTags_cons] at hns
    exact fun hh => hns (List.mem_append_right _ (List.mem_append_right _ hh))
  obtain ⟨_, _, htr2, hR2⟩ := run_spent_once thr a.tag (a.entry (satAdd now0 d)) _ hT evs1 s1 hwf1
    (freshTags_append_left hft) (fun t ht => hff t (by rw [schedTags_append]; exact List.mem_append_left _ ht))
    hns1 htr1 hR1
  generalize hs2 : (run thr s1 evs1).1 = s2 at *
  -- the step
  have hk2 := apply_kind thr s2 hwf2.wf0 (.step now)
  have he2 : e ∈ s2.q.toList := kind_pop hk2 _ e rfl hpop
  have hee : e = a.entry (satAdd now0 d) := hR2 e he2 het hes
  have hprio : e.prio = satAdd now0 d := by rw [hee]; rfl
  obtain ⟨_, hacc⟩ := C04_accounted s2 now thr hwf2.inv e hpop hes
  have hvalid : (step s2 now thr).2.dispatched = true ∧
      (step s2 now thr).2.calls = [⟨e.tag, e.prio, none⟩] := by
    rcases hacc with ⟨_, hd, _, _, _, r, hr, hcs, _⟩ | ⟨_, _, _, hlate, _⟩ | ⟨_, _, _, hearly, _⟩
    · refine ⟨hd, ?_⟩
      rw [hcs, hr, het, htr2]
      rfl
    · omega
    · omega
  obtain ⟨hnk, _, hperm, _⟩ := C04_leaves_registry s2 now thr hwf2.inv e hpop ⟨e.prio, hvalid.2⟩
  have hek : e.group = a.group ∧ e.name = a.name := by rw [hee]; exact ⟨rfl, rfl⟩
  -- after the step
  have hwf3 : WF0 (step s2 now thr).1 := kind_wf0 hwf2.wf0 hk2
  have habs3 : AbsentTag a.tag (step s2 now thr).1 := by
    intro x hx hxt
    have := (mem_erase_iff_of_inv hwf2.inv e x).mp (hperm.mem_iff.mp hx)
    exact this.2 (hwf2.tags x this.1 e he2 (by rw [hxt, het]))
  obtain ⟨habs4, hquiet⟩ := run_absent thr a.tag evs2 _ hwf3 habs3 hns2
  have hrun : run thr s1 (evs1 ++ .step now :: evs2) =
      ((run thr (step s2 now thr).1 evs2).1,
        (run thr s1 evs1).2 ++ (apply thr s2 (.step now)).2 :: (run thr (step s2 now thr).1 evs2).2) := by
    rw [run_append, run_cons, hs2]
    rfl
  -- the step's own observation dispatches `satAdd now0 d`
  have hdt : (apply thr s2 (.step now)).2.dispTime? a.tag = some (satAdd now0 d) := by
    apply (dispTime_some_iff _ _ _).mpr
    refine ⟨⟨0, e.tag, e.prio⟩, ?_, het, hprio⟩
    show Obs.disp? { calls := (step s2 now thr).2.calls, out := some (step s2 now thr).2 } 0 = _
    unfold Obs.disp?
    simp only [hvalid.1, hpop, if_true]
  rw [hrun] at r1 ⊢
  have hexact : dispatchTimes a.tag ((run thr s1 evs1).2 ++
      (apply thr s2 (.step now)).2 :: (run thr (step s2 now thr).1 evs2).2) = [satAdd now0 d] := by
    rcases r1 with r1 | r1
    · rw [dispatchTimes_append, dispatchTimes_cons, hdt] at r1
      simp at r1
    · exact r1
  refine ⟨hvalid.1, hee, hexact, hquiet, habs4, ?_⟩
  · intro hsk
    have := run_nokey thr a.group a.name evs2 _ hwf3 (by rw [← hek.1, ← hek.2]; exact hnk) hsk
    exact this


/-- the hypotheses of `C04_run_once` / `C04_no_drift_start` hold at every `ScheduleJob` of every fresh
history from the empty scheduler -/
theorem C04_hyps_reachable (thr : Int) (evs0 : List Ev) (now0 : Int) (a : SchedArgs) (evs : List Ev)
    (hft : FreshTags (evs0 ++ .schedule now0 a :: evs)) :
    WF (run thr {} evs0).1 ∧ AbsentTag a.tag (run thr {} evs0).1 ∧ FreshTags evs ∧
      FreshFor (schedule (run thr {} evs0).1 now0 a).1 evs := by
  obtain ⟨hwf, h2, h3, _⟩ := reachable_split thr evs0 (.schedule now0 a) evs hft
  obtain ⟨_, _, h5⟩ := run_fresh thr evs0 (.schedule now0 a :: evs) {} wf_empty hft (freshFor_empty _)
  refine ⟨hwf, ?_, h2, h3⟩
  intro e he
  exact h5 a.tag (by rw [schedTags_cons]; exact List.mem_append_left _ (by simp [Ev.schedTag?])) e he

/-! ## overflow of the interval addition: the fire time saturates, the loop does not spin

`SimpleTrigger` / `RunOnceTrigger` compute `prev + interval` with `addNanos` (`satAdd`): an interval beyond
about 292 years from `prev` (for instance `time.Duration(math.MaxInt64)` used as "never") answers the largest
representable time instead of wrapping around to a time in the distant past. -/

/-- **Saturation.**  A `SimpleTrigger` of interval `I > 0` (resp. an unexpired `RunOnceTrigger` of delay `I`)
asked at `prev` with `prev + I` not representable answers exactly `maxInt64`. -/
theorem C04_saturates (I prev : Int) (hI : I > 0) (hov : prev + I > maxInt64) :
    Trig.fire (.simple I) prev = (some maxInt64, .simple I) ∧
    Trig.fire (.runOnce I false) prev = (some maxInt64, .runOnce I true) := by
  rw [fire_simple, fire_runOnce, satAdd_sat hI hov]
  exact ⟨rfl, rfl⟩

/-- The answer of the two interval triggers in general: the exact sum whenever that is representable (or the
interval is not positive); for a positive interval and a representable `prev` never a time before `prev`
(what the wrapping addition violated) and never beyond `maxInt64`; strictly later than `prev` unless `prev`
is `maxInt64` itself. -/
theorem C04_interval_answer (I prev : Int) :
    (Trig.fire (.simple I) prev).1 = some (satAdd prev I) ∧
    (Trig.fire (.runOnce I false) prev).1 = some (satAdd prev I) ∧
    (¬ (I > 0 ∧ prev + I > maxInt64) → satAdd prev I = prev + I) ∧
    (I > 0 → prev ≤ maxInt64 → prev ≤ satAdd prev I ∧ satAdd prev I ≤ maxInt64) ∧
    (I > 0 → prev < maxInt64 → prev < satAdd prev I) :=
  ⟨rfl, rfl, satAdd_eq, fun hI hp => ⟨satAdd_ge hI hp, satAdd_le_max hp⟩, satAdd_gt⟩

/-- `ScheduleJob` with such a trigger registers the job with fire time `maxInt64` (the trigger was asked once,
with the clock reading, and answered `maxInt64`). -/
theorem C04_saturated_registered (s : SState) (hwf : WF s) (now0 I : Int) (a : SchedArgs)
    (ha : a.trig = some (.simple I) ∨ a.trig = some (.runOnce I false)) (hs : a.suspended = false)
    (hI : I > 0) (hov : now0 + I > maxInt64) (hok : (schedule s now0 a).2.1 = none) :
    a.entry maxInt64 ∈ (schedule s now0 a).1.q.toList ∧
    (schedule s now0 a).2.2 = [⟨a.tag, now0, some maxInt64⟩] := by
  obtain ⟨t, p, ht, _, hc | hc, hmem, _⟩ := schedule_ok_facts s now0 a hwf.inv hok
  · rw [hs] at hc; cases hc.1
  · obtain ⟨_, hp, _, hcalls⟩ := hc
    have hpe : p = maxInt64 := by
      rcases ha with ha | ha <;> rw [ha] at ht <;> injection ht with ht <;> subst ht
      · rw [(C04_saturates I now0 hI hov).1] at hp
        injection hp with hp
        exact hp.symm
      · rw [(C04_saturates I now0 hI hov).2] at hp
        injection hp with hp
        exact hp.symm
    subst hpe
    exact ⟨hmem, hcalls⟩

/-- **A saturated fire time is not due — one step.**  A step at a clock reading `now < maxInt64` (threshold
`thr ≥ 0`) that pops an active entry with fire time `maxInt64` classifies it `notDue`: not dispatched, not
reported as misfired, the trigger is NOT asked (no re-basing on the clock), the very same entry goes back, no
trigger object changes.  And the step popped it only because nothing earlier was there: every entry of the
registry has fire time `≥ maxInt64` (the queue hands out a minimum, `C11_pop_min`), so the saturated entry
never precedes — never starves — an entry with a representable fire time. -/
theorem C04_saturated_not_due (s : SState) (now thr : Int) (h : Inv s.q) (hthr : 0 ≤ thr)
    (hnow : now < maxInt64) (e : Entry) (hp : (step s now thr).2.popped = some e)
    (hs : e.suspended = false) (hprio : e.prio = maxInt64) :
    (step s now thr).2.cls = some .notDue ∧ (step s now thr).2.dispatched = false ∧
    (step s now thr).2.misfired = false ∧ (step s now thr).2.calls = [] ∧
    (step s now thr).2.pushed = some e ∧ (step s now thr).1.trigs = s.trigs ∧
    (step s now thr).1.q.toList.Perm s.q.toList ∧
    ∀ y ∈ s.q.toList, maxInt64 ≤ y.prio := by
  obtain ⟨⟨rest, hperm, hperm'⟩, hacc⟩ := C04_accounted s now thr h e hp hs
  have hmin : ∀ y ∈ s.q.toList, maxInt64 ≤ y.prio := by
    rcases step_cases s now thr h with ⟨_, hst⟩ | ⟨q1, e', _, _, _, hmin, _, hst⟩
    · rw [hst] at hp; cases hp
    · have : e' = e := by
        rcases hst with ⟨_, hst⟩ | ⟨_, _, _, hst⟩ | ⟨_, _, _, _, hst⟩ <;> rw [hst] at hp <;>
          injection hp with hp
      subst this
      rw [← hprio]
      exact hmin
  rcases hacc with ⟨_, _, _, _, hdue, _⟩ | ⟨_, _, _, hlate, _⟩ | ⟨h1, h2, h3, _, h5, h6, h7⟩
  · omega
  · omega
  · refine ⟨h1, h2, h3, h5, h6, h7, ?_, hmin⟩
    rw [h6] at hperm'
    exact hperm'.trans hperm.symm

/-- **No spin — whole histories.**  An active job whose fire time is `maxInt64` (a saturated answer), ANY
history of loop steps at clock readings before `maxInt64`: the job is never dispatched, its trigger is never
asked again (so it is never re-based, never reported as misfired), it stays in the registry as it is.  (With
the wrapping addition the fire time was negative instead: `C04_overflow_spins_unrepaired`.) -/
theorem C04_saturated_never_spins (thr : Int) (hthr : 0 ≤ thr) (s : SState) (hwf : WF s) (x : Entry)
    (hx : x ∈ s.q.toList) (hxs : x.suspended = false) (hprio : x.prio = maxInt64) (evs : List Ev)
    (hos : OnlySteps evs) (hnows : ∀ now, Ev.step now ∈ evs → now < maxInt64) :
    dispatchTimes x.tag (run thr s evs).2 = [] ∧
    (∀ c ∈ callLog (run thr s evs).2, c.tag ≠ x.tag) ∧
    x ∈ (run thr s evs).1.q.toList ∧ (run thr s evs).1.trig x.tag = s.trig x.tag :=
  parked_aux thr x.tag evs hthr s x hwf hx hxs rfl hprio hos hnows

/-! ### negative control: the unrepaired (wrapping) addition spins -/

/-- `prev + interval` in int64 arithmetic as the code before repair d24dc25 computed it (wrap-around at the
upper end; the arguments of interest are non-negative) -/
def wrapAdd (t d : Int) : Int := if t + d > maxInt64 then t + d - 2 ^ 64 else t + d

/-- an overflowing wrapped sum of two representable numbers is negative -/
theorem wrapAdd_neg (t d : Int) (ht : t ≤ maxInt64) (hd : d ≤ maxInt64) (hov : t + d > maxInt64) :
    wrapAdd t d < 0 := by
  unfold wrapAdd
  rw [if_pos hov]
  unfold maxInt64 at *
  omega

/-- `addNanos` read literally in int64 arithmetic: the wrapped sum, replaced by `math.MaxInt64` when the interval is
positive and the wrapped sum is smaller than `t` -/
def goAddNanos (t d : Int) : Int := if d > 0 ∧ wrapAdd t d < t then maxInt64 else wrapAdd t d

/-- **The model's `satAdd` is `addNanos`** on int64 arguments: for a positive interval always (the test
`next < t` on the wrapped sum detects exactly the sums beyond `maxInt64`), for a non-positive interval as long as
the sum does not fall below `MinInt64` (then nothing wraps). -/
theorem C04_addNanos_is_satAdd (t d : Int) (ht : -maxInt64 - 1 ≤ t ∧ t ≤ maxInt64) (hd : d ≤ maxInt64)
    (hlow : 0 < d ∨ -maxInt64 - 1 ≤ t + d) : goAddNanos t d = satAdd t d := by
  unfold goAddNanos wrapAdd satAdd maxInt64 at *
  split <;> split <;> split <;> omega

/-- **The unrepaired trigger spins.**  An active entry with a negative fire time (what the wrapping addition
answered for an overflowing interval: `wrapAdd_neg`) popped at a clock reading `now ≥ thr`: the step finds it
outdated, does not dispatch it, reports a misfire and asks the trigger with the clock reading; if the trigger
answers as the unrepaired code did (`wrapAdd now I`, overflowing again because `now` is at least the earlier
clock reading) the entry goes back with a negative fire time AGAIN — the hypothesis of this lemma holds of
the entry after the step, so by induction every later step finds it outdated; and being negative it precedes
every entry with a real (non-negative) fire time: nothing else is ever dispatched. -/
theorem C04_overflow_spins_unrepaired (s : SState) (now thr I : Int) (h : Inv s.q) (e : Entry)
    (hp : (step s now thr).2.popped = some e) (hs : e.suspended = false) (hneg : e.prio < 0)
    (hnow : thr ≤ now) (hmax : now ≤ maxInt64) (hI : I ≤ maxInt64) (hov : now + I > maxInt64)
    (hf : ((s.trig e.tag).fire now).1 = some (wrapAdd now I)) :
    (step s now thr).2.cls = some .outdated ∧ (step s now thr).2.dispatched = false ∧
    (step s now thr).2.misfired = true ∧
    (step s now thr).2.calls = [⟨e.tag, now, some (wrapAdd now I)⟩] ∧
    (step s now thr).2.pushed = some { e with prio := wrapAdd now I } ∧
    ({ e with prio := wrapAdd now I } : Entry).prio < 0 ∧
    ({ e with prio := wrapAdd now I } : Entry) ∈ (step s now thr).1.q.toList := by
  obtain ⟨⟨rest, _, hperm'⟩, hacc⟩ := C04_accounted s now thr h e hp hs
  rcases hacc with ⟨_, _, _, hlo, _⟩ | ⟨h1, h2, h3, _, r, hr, h5, h6, _⟩ | ⟨_, _, _, hearly, _⟩
  · omega
  · rw [hf] at hr
    subst hr
    refine ⟨h1, h2, h3, h5, h6, wrapAdd_neg now I hmax hI hov, ?_⟩
    rw [h6] at hperm'
    exact hperm'.mem_iff.mpr (by simp)
  · omega

/-! ## non-vacuity -/
namespace C04Ex

def exA : SchedArgs := { group := "g", name := "a", tag := 1, trig := some (.simple 10) }
def exB : SchedArgs := { group := "g", name := "b", tag := 2, trig := some (.runOnce 5 false) }
def exC : SchedArgs := { group := "g", name := "c", tag := 3, trig := some (.fixed 40) }

def exS : SState := (run 3 {} [.schedule 0 exA, .schedule 1 exB]).1

-- `C04_accounted`: the three cases all occur (threshold 3; `g/b` is due at 6, `g/a` at 10)
example : ((step exS 6 3).2.cls, (step exS 6 3).2.dispatched, (step exS 6 3).2.calls) =
    (some .valid, true, [⟨2, 6, none⟩]) := by decide +kernel
example : ((step exS 5 3).2.cls, (step exS 5 3).2.dispatched, (step exS 5 3).2.calls) =
    (some .notDue, false, []) := by decide +kernel
example : ((step exS 10 3).2.cls, (step exS 10 3).2.misfired, (step exS 10 3).2.calls) =
    (some .outdated, true, [⟨2, 10, none⟩]) := by decide +kernel
-- `C04_leaves_registry`: on time, the run-once job is dispatched and leaves; late, it is reported and leaves
example : (step exS 6 3).1.q.toList.map (·.name) = ["a"] ∧ (step exS 10 3).1.q.toList.map (·.name) = ["a"] := by
  decide +kernel
-- `C04_suspended_untouched`
example : (step (pause (pause exS true "g" "a").1 true "g" "b").1 50 3).2.popped.map (·.suspended) = some true := by
  decide +kernel

def exD : SchedArgs := { group := "g", name := "d", tag := 4, trig := some (.simple 36) }
/-- `C04_no_drift`: job `g/a` (interval 10, first fire time 10) next to `g/d` (fires at 36); steps at 10,
12 (spurious: not due), 22 (2 late), 5 (clock went back: not due), 33 (3 late = the threshold), 36 (serves
the other job), 41 (1 late), 41 (not due) -/
def exSteps : List Ev := [.step 10, .step 12, .step 22, .step 5, .step 33, .step 36, .step 41, .step 41]
def exS1 : SState := (run 3 {} [.schedule 0 exA, .schedule 0 exD]).1
example : OnlySteps exSteps := by
  intro ev hev
  simp only [exSteps, List.mem_cons, List.not_mem_nil, or_false] at hev
  rcases hev with rfl | rfl | rfl | rfl | rfl | rfl | rfl | rfl <;> exact ⟨_, rfl⟩
example : ((run 3 exS1 exSteps).2.map (fun o => (o.out.bind (·.cls), o.out.bind (·.popped) |>.map (·.tag)))) =
    [(some .valid, some 1), (some .notDue, some 1), (some .valid, some 1), (some .notDue, some 1),
     (some .valid, some 1), (some .valid, some 4), (some .valid, some 1), (some .notDue, some 1)] := by
  decide +kernel
-- the dispatched fire times are 10, 20, 30, 40 although the steps ran at 10, 22, 33, 41
example : dispatchTimes 1 (run 3 exS1 exSteps).2 = [10, 20, 30, 40] := by decide +kernel
example : (callLog (run 3 exS1 exSteps).2).filter (fun c => c.tag == 1) =
    [⟨1, 10, some 20⟩, ⟨1, 20, some 30⟩, ⟨1, 30, some 40⟩, ⟨1, 40, some 50⟩] := by decide +kernel

/-- `C04_run_once`: history after scheduling the run-once job `g/b` at 1 (fire time 6) -/
def exAfter : List Ev := [.step 4, .schedule 5 exC, .step 7, .step 8, .pause true "g" "a", .step 60]
example : FreshTags ([.schedule 0 exA, .schedule 1 exB] ++ exAfter) := by decide
example : dispatchTimes 2 (run 3 exS exAfter).2 = [6] := by decide +kernel
example : (run 3 exS exAfter).1.q.toList.map (·.name) = ["c", "a"] := by decide +kernel

-- the hypotheses of `C04_no_drift` (state `exS1`, entry of `g/a`) ...
example : WF exS1 ∧ ({ group := "g", name := "a", prio := 10, tag := 1 } : Entry) ∈ exS1.q.toList ∧
    exS1.trig 1 = .simple 10 :=
  ⟨run_wf 3 _ {} wf_empty (by decide) (freshFor_empty _), by decide +kernel, by decide +kernel⟩
-- ... and of `C04_run_once` / `C04_no_drift_start` (state before the `ScheduleJob` of the run-once job)
def exS0 : SState := (run 3 {} [.schedule 0 exA]).1
example : WF exS0 ∧ AbsentTag exB.tag exS0 ∧ exB.trig = some (.runOnce 5 false) ∧
    ∃ s1 calls, schedule exS0 1 exB = (s1, none, calls) := by
  refine ⟨run_wf 3 _ {} wf_empty (by decide) (freshFor_empty _), ?_, rfl, _, _,
    Prod.ext rfl (Prod.ext ?_ rfl)⟩
  · unfold AbsentTag; decide +kernel
  · show (schedule exS0 1 exB).2.1 = none
    decide +kernel
-- the on-time step of `C04_run_once` (2): at 7 ∈ [6, 6 + 3] the run-once job is popped
example : (step (run 3 exS [.step 4, .schedule 5 exC]).1 7 3).2.popped.map (·.tag) = some 2 := by
  decide +kernel

-- `C04_no_drift`, hypothesis `hov`: the clock readings of `exSteps` are far from the end of time
example : (10 : Int) ≤ 0 ∨ ∀ now, Ev.step now ∈ exSteps → now + 10 ≤ maxInt64 := by
  right
  intro now hm
  simp only [exSteps, List.mem_cons, List.not_mem_nil, or_false] at hm
  have h : now ≤ 41 := by
    rcases hm with h | h | h | h | h | h | h | h <;> injection h with h <;> omega
  unfold maxInt64; omega

/-! ### saturation -/

/-- "never": a `SimpleTrigger` with `time.Duration(math.MaxInt64)` -/
def exN : SchedArgs := { group := "g", name := "never", tag := 5, trig := some (.simple maxInt64) }
/-- the first addition fits (from clock reading 100), the second one saturates -/
def exL : SchedArgs := { group := "g", name := "long", tag := 6, trig := some (.simple (maxInt64 / 4 * 3)) }
def bigI : Int := maxInt64 / 4 * 3

-- `C04_saturates` / `C04_interval_answer`
example : Trig.fire (.simple maxInt64) 100 = (some maxInt64, .simple maxInt64) ∧
    Trig.fire (.runOnce maxInt64 false) 100 = (some maxInt64, .runOnce maxInt64 true) :=
  C04_saturates maxInt64 100 (by decide) (by decide)
example : (Trig.fire (.simple bigI) 100).1 = some (100 + bigI) ∧
    (Trig.fire (.simple bigI) (100 + bigI)).1 = some maxInt64 := by decide +kernel
-- the boundary: the largest representable sum is not saturated away, one more is
example : satAdd 1 (maxInt64 - 1) = maxInt64 ∧ satAdd 0 maxInt64 = maxInt64 ∧ satAdd 2 (maxInt64 - 1) = maxInt64 ∧
    satAdd (maxInt64 - 5) 5 = maxInt64 ∧ satAdd (maxInt64 - 5) 4 = maxInt64 - 1 ∧ satAdd 7 (-9) = -2 := by
  decide +kernel

/-- the concrete starvation input: "never" beside a job with interval 10, both scheduled at 100 -/
def exS2 : SState := (run 3 {} [.schedule 100 exN, .schedule 100 exA]).1
def exSteps2 : List Ev := [.step 105, .step 110, .step 121, .step 130, .step 135]
-- `C04_saturated_registered`: the hypotheses hold, the job sits at `maxInt64`
example : WF ({} : SState) ∧ (schedule {} 100 exN).2.1 = none ∧ (100 : Int) + maxInt64 > maxInt64 ∧
    exS2.q.toList.map (fun e => (e.name, e.prio)) = [("a", 110), ("never", maxInt64)] :=
  ⟨wf_empty, by decide +kernel, by decide, by decide +kernel⟩
-- `C04_saturated_never_spins`: the other job fires at 110, 120, 130; "never" is not asked, not dispatched
example : dispatchTimes 1 (run 3 exS2 exSteps2).2 = [110, 120, 130] ∧
    dispatchTimes 5 (run 3 exS2 exSteps2).2 = [] ∧
    (callLog (run 3 exS2 exSteps2).2).filter (fun c => c.tag == 5) = [] := by decide +kernel
-- `C04_saturated_not_due`: alone in the registry the saturated entry IS popped (there is nothing earlier) and
-- goes back untouched
example : ((step (schedule {} 100 exN).1 200 3).2.popped.map (·.prio), (step (schedule {} 100 exN).1 200 3).2.cls,
    (step (schedule {} 100 exN).1 200 3).2.calls) = (some maxInt64, some .notDue, []) := by decide +kernel
-- first addition fits, second saturates: dispatched once at `100 + bigI`, then parked at `maxInt64`
example : dispatchTimes 6 (run 3 (schedule {} 100 exL).1 [.step 200, .step (100 + bigI + 1), .step (100 + bigI + 2)]).2 =
      [100 + bigI] ∧
    (run 3 (schedule {} 100 exL).1 [.step 200, .step (100 + bigI + 1), .step (100 + bigI + 2)]).1.q.toList.map (·.prio) =
      [maxInt64] := by decide +kernel

/-! ### negative control: the same input with the wrapping addition -/

/-- the unrepaired `SimpleTrigger(math.MaxInt64)` as a scripted trigger: it is asked at 100 (`ScheduleJob`),
then with the clock readings of the steps (105, 110) because every step finds it outdated -/
def exWAnswers : List (Option Int) :=
  [some (wrapAdd 100 maxInt64), some (wrapAdd 105 maxInt64), some (wrapAdd 110 maxInt64)]
def exW : SchedArgs := { group := "g", name := "never", tag := 5, trig := some (.script exWAnswers) }
def exS3 : SState := (run 3 {} [.schedule 100 exW, .schedule 100 exA]).1
example : wrapAdd 100 maxInt64 = -9223372036854775709 ∧ wrapAdd 105 maxInt64 < 0 ∧ wrapAdd 0 5 = 5 := by
  decide +kernel
-- `C04_addNanos_is_satAdd`: the literal int64 reading of `addNanos` on an overflowing, a fitting and a negative case
example : goAddNanos 100 maxInt64 = maxInt64 ∧ wrapAdd 100 maxInt64 < 100 ∧ goAddNanos 100 5 = 105 ∧
    goAddNanos 100 (-7) = 93 ∧ goAddNanos (maxInt64 - 5) 5 = maxInt64 ∧ goAddNanos maxInt64 1 = maxInt64 := by
  decide +kernel
-- both steps pop "never" (negative fire time: ahead of everything), find it outdated and ask it with the
-- clock; job `g/a`, due at 110, is not dispatched at 110: starved
example : (run 3 exS3 [.step 105, .step 110]).2.map
      (fun o => (o.out.bind (·.popped) |>.map (·.name), o.out.bind (·.cls), o.calls.map (·.prev))) =
    [(some "never", some .outdated, [105]), (some "never", some .outdated, [110])] ∧
    dispatchTimes 1 (run 3 exS3 [.step 105, .step 110]).2 = [] := by decide +kernel
-- the hypotheses of `C04_overflow_spins_unrepaired` at the first of these steps
example : ∃ e, (step exS3 105 3).2.popped = some e ∧ e.suspended = false ∧ e.prio < 0 ∧
    ((exS3.trig e.tag).fire 105).1 = some (wrapAdd 105 maxInt64) :=
  ⟨{ group := "g", name := "never", prio := wrapAdd 100 maxInt64, tag := 5 }, by decide +kernel, rfl,
    by decide +kernel, by decide +kernel⟩

end C04Ex

end Sched
