import QuartzModel.Theorems.C01
/-!
# C06 — `NextFireTime` terminates with a definite answer

For a well-formed expression and a fixed-offset location the model of `NextFireTime` (which carries
an explicit fuel bound in place of Go's unbounded loops) never runs out of fuel: it returns a value
strictly after `prev`, or reports expiry. The search is a single call of the state machine — the
retry loop that exists for DST transitions returns on its first iteration.
-/
namespace Cron
open Cal Odo

/-- the search is one call of the state machine for a fixed-offset location (the DST retry loop
    returns at once) -/
theorem C06_single_pass (f : Fields) (hwf : WellFormed f = true) (c prev : Int)
    (hc : -100000 ≤ c ∧ c ≤ 100000) (hp : -9223372036854775808 ≤ prev) :
    ∃ nw, csmNext {} f (Civil.ofSeconds (prev / 1000000000 + c)) = some nw ∧
      nextFire {} f (fixedZone c) prev =
        (match nw with
         | none => .expired
         | some t => .ok ((t.toSeconds - c) * 1000000000)) :=
  nextFire_fixed f hwf c prev hc hp

theorem C06_total (f : Fields) (hwf : WellFormed f = true) (c prev : Int)
    (hc : -100000 ≤ c ∧ c ≤ 100000) (hp : -9223372036854775808 ≤ prev) :
    (∃ r, nextFire {} f (fixedZone c) prev = .ok r ∧ prev < r) ∨
      nextFire {} f (fixedZone c) prev = .expired := by
  obtain ⟨nw, _, hnf⟩ := nextFire_fixed f hwf c prev hc hp
  cases nw with
  | none => exact Or.inr hnf
  | some t => exact Or.inl ⟨_, hnf, (C01_sound f hwf c prev hc hp _ hnf).2.1⟩

theorem nextFire_ne_outOfFuel (f : Fields) (hwf : WellFormed f = true) (c prev : Int)
    (hc : -100000 ≤ c ∧ c ≤ 100000) (hp : -9223372036854775808 ≤ prev) :
    nextFire {} f (fixedZone c) prev ≠ .outOfFuel := by
  rcases C06_total f hwf c prev hc hp with ⟨r, h, _⟩ | h <;> rw [h] <;> exact fun h => by cases h

/-! ## Non-vacuity -/

/-- the hypotheses are satisfiable; on `0 0 12 * * ?` from the epoch the first alternative holds -/
example : (∃ r, nextFire {} exNoon (fixedZone 0) 0 = .ok r ∧ 0 < r) ∨
    nextFire {} exNoon (fixedZone 0) 0 = .expired :=
  C06_total exNoon exNoon_wf 0 0 (by omega) (by omega)

example : ∃ r, nextFire {} exNoon (fixedZone 0) 0 = .ok r ∧ 0 < r :=
  ⟨43200000000000, exNoon_first, by omega⟩

/-- a start far beyond the node range (year 33658, where the year digit exceeds every bound used in
    the fuel argument) still gets a definite answer -/
example : nextFire {} exNoon (fixedZone 0) 1000000000000000000000 ≠ .outOfFuel :=
  nextFire_ne_outOfFuel exNoon exNoon_wf 0 _ (by omega) (by omega)

example : ∃ nw, csmNext {} exNoon (Civil.ofSeconds (0 / 1000000000 + 0)) = some nw ∧
    nextFire {} exNoon (fixedZone 0) 0 =
      (match nw with
       | none => .expired
       | some t => .ok ((t.toSeconds - 0) * 1000000000)) :=
  C06_single_pass exNoon exNoon_wf 0 0 (by omega) (by omega)

/-! ### a `prev` before 1970 (negative), down to the smallest int64 -/

example : (∃ r, nextFire {} exEvery (fixedZone 0) (-500000000) = .ok r ∧ -500000000 < r) ∨
    nextFire {} exEvery (fixedZone 0) (-500000000) = .expired :=
  C06_total exEvery exEvery_wf 0 (-500000000) (by omega) (by omega)

/-- the smallest `prev` Go can pass (`math.MinInt64` ns, the year 1677) -/
example : nextFire {} exNoon (fixedZone 0) (-9223372036854775808) ≠ .outOfFuel :=
  nextFire_ne_outOfFuel exNoon exNoon_wf 0 _ (by omega) (by omega)

example : ∃ nw, csmNext {} exEvery (Civil.ofSeconds (-500000000 / 1000000000 + 0)) = some nw ∧
    nextFire {} exEvery (fixedZone 0) (-500000000) =
      (match nw with
       | none => .expired
       | some t => .ok ((t.toSeconds - 0) * 1000000000)) :=
  C06_single_pass exEvery exEvery_wf 0 (-500000000) (by omega) (by omega)

end Cron
