import QuartzModel.Generated.Facts
/-! No source shape of the `wakeup` fact group(s) is missing (a separate module per group, so that a reshaped function of one area
cannot break the proof obligations of properties that do not depend on it). -/
namespace Facts
theorem missing_none_wakeup : (Generated.missing.filter (fun s => "wakeup.".toList.isPrefixOf s.toList)) = [] := by decide
end Facts
