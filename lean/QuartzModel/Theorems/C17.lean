import QuartzModel.Jobs.Isolated
import QuartzModel.Proofs.IsolatedLemmas
import QuartzModel.Generated.Facts
/-!
# C17 — isolated job: executions never overlap, and the gate always reopens

Model: `QuartzModel/Jobs/Isolated.lean` — any number `n` of threads calling `(*isolatedJob).Execute`
repeatedly, small-step interleaving semantics with the atomic `Swap(true)` and the deferred
`Store(false)`. All theorems are about every state reachable by ANY interleaving (`Reachable true`), for
every `n`, through the inductive invariant `Inv` (`Proofs/IsolatedLemmas.lean`). Not in the model:
the memory model of `sync/atomic` (the two operations are taken as sequentially consistent atomic
actions, which is what `atomic.Bool` documents) and the delegate itself (it is left in one of three
ways after arbitrarily many steps of the other threads).
-/
namespace Jobs.Isolated

variable {n : Nat}

/-! ## the source has the shape the model transcribes -/

/-- the shape read from /repo's current source by `harness/cmd/extract/x_isolated.go` -/
def generatedShape : SourceShape :=
  { stmts := Generated.Isolated.stmts
    flagType := Generated.Isolated.flagType
    ctorKeys := Generated.Isolated.ctorKeys
    flagUses := Generated.Isolated.flagUses
    numMethods := Generated.Isolated.numMethods }

/-- `Execute` is: the `Swap(true)` guard returning an error, then `defer Store(false)`, then the delegate
call; the flag is an `atomic.Bool` that starts false and is touched nowhere else. -/
theorem C17_facts : generatedShape = ({} : SourceShape) := by decide

/-! ## C17_flag_iff and C17_mutex -/

/-- the flag is set exactly when some thread is inside the gate (in the delegate, or between the
delegate's exit and the store) -/
theorem C17_flag_iff {s : State n} (h : Reachable true s) :
    s.flag = true ↔ ∃ t, s.pc t = .running ∨ ∃ e, s.pc t = .exiting e := by
  rw [(inv_reachable h).2]
  constructor
  · rintro ⟨t, ht⟩
    refine ⟨t, ?_⟩
    cases hp : s.pc t with
    | running => exact .inl rfl
    | exiting e => exact .inr ⟨e, rfl⟩
    | idle => rw [hp] at ht; cases ht
    | rejected => rw [hp] at ht; cases ht
    | finished r => rw [hp] at ht; cases ht
  · rintro ⟨t, ht | ⟨e, ht⟩⟩ <;> exact ⟨t, by rw [ht]; rfl⟩

/-- At most one thread is inside the delegate — in fact at most one is anywhere between its successful
`Swap` and its `Store`. -/
theorem C17_mutex {s : State n} (h : Reachable true s) (t u : Fin n)
    (ht : s.pc t = .running ∨ ∃ e, s.pc t = .exiting e)
    (hu : s.pc u = .running ∨ ∃ e, s.pc u = .exiting e) : t = u := by
  refine (inv_reachable h).1 t u ?_ ?_
  · rcases ht with ht | ⟨e, ht⟩ <;> rw [ht] <;> rfl
  · rcases hu with hu | ⟨e, hu⟩ <;> rw [hu] <;> rfl

/-- two executions of the underlying job never overlap -/
theorem C17_mutex_running {s : State n} (h : Reachable true s) (t u : Fin n)
    (ht : s.pc t = .running) (hu : s.pc u = .running) : t = u :=
  C17_mutex h t u (.inl ht) (.inl hu)

/-! ## C17_fail_fast -/

/-- A call that finds the flag set does not enter the delegate: its `Swap` step leads to `rejected`
(leaving the flag set), its only next step returns the error `busy`, and it changes nothing else.
Conversely a thread is only ever in the delegate through a `Swap` that found the flag clear. -/
theorem C17_fail_fast {s s' : State n} {t : Fin n} (st : Step true s t s') :
    (s.pc t = .idle → s.flag = true → s'.pc t = .rejected ∧ s'.flag = true) ∧
    (s.pc t = .rejected → s'.pc t = .finished .busy ∧ s'.flag = s.flag) ∧
    (s'.pc t = .running → s.pc t = .idle ∧ s.flag = false) ∧
    (∀ u, u ≠ t → s'.pc u = s.pc u) := by
  cases st with
  | swap hpc =>
    refine ⟨fun _ hf => ?_, fun h => ?_, fun h => ⟨hpc, ?_⟩, fun u hu => setPc_other _ _ _ _ hu⟩
    · simp [hf]
    · rw [hpc] at h; cases h
    · cases hf : s.flag with
      | false => rfl
      | true => simp [hf] at h
  | refuse hpc =>
    refine ⟨fun h => ?_, fun _ => ⟨by simp, rfl⟩, fun h => ?_, fun u hu => setPc_other _ _ _ _ hu⟩
    · rw [hpc] at h; cases h
    · simp at h
  | leave e hpc _ =>
    refine ⟨fun h => ?_, fun h => ?_, fun h => ?_, fun u hu => setPc_other _ _ _ _ hu⟩
    · rw [hpc] at h; cases h
    · rw [hpc] at h; cases h
    · simp at h
  | store e hpc =>
    refine ⟨fun h => ?_, fun h => ?_, fun h => ?_, fun u hu => setPc_other _ _ _ _ hu⟩
    · rw [hpc] at h; cases h
    · rw [hpc] at h; cases h
    · simp at h
  | unwind _ hd => cases hd
  | again r hpc =>
    refine ⟨fun h => ?_, fun h => ?_, fun h => ?_, fun u hu => setPc_other _ _ _ _ hu⟩
    · rw [hpc] at h; cases h
    · rw [hpc] at h; cases h
    · simp at h

/-- the error is returned only to calls that did not run the delegate, and a call whose `Swap` found the
flag set while another thread is inside can only get the error -/
theorem C17_busy_only_if_rejected {s s' : State n} {t : Fin n} (st : Step true s t s')
    (h : s'.pc t = .finished .busy) : s.pc t = .rejected := by
  cases st with
  | swap hpc => cases hf : s.flag <;> simp [hf] at h
  | refuse hpc => exact hpc
  | leave e hpc _ => simp at h
  | store e hpc => simp at h
  | unwind _ hd => cases hd
  | again r hpc => simp at h

/-! ## C17_reopens -/

/-- Whenever no thread is inside (in the delegate or between its exit and the store) the flag is clear,
so the next call is admitted; and whichever way the delegate was left — nil, error or panic — the very
next step of that thread is the store, which is enabled and clears the flag. -/
theorem C17_reopens {s : State n} (h : Reachable true s) :
    ((∀ t, s.pc t ≠ .running ∧ ∀ e, s.pc t ≠ .exiting e) → s.flag = false) ∧
    (∀ t e, s.pc t = .exiting e →
      (∃ s', Step true s t s') ∧
      ∀ s', Step true s t s' → s'.flag = false ∧ s'.pc t = .finished (.delegated e)) ∧
    (∀ t, s.pc t = .running → ∀ e, ∃ s', Step true s t s' ∧ s'.pc t = .exiting e) := by
  refine ⟨fun hno => ?_, fun t e hpc => ⟨⟨_, Step.store s t e hpc⟩, fun s' st => ?_⟩,
    fun t hpc e => ⟨_, Step.leave s t e hpc (.inl rfl), by simp⟩⟩
  · cases hf : s.flag with
    | false => rfl
    | true =>
      obtain ⟨t, ht⟩ := (C17_flag_iff h).mp hf
      rcases ht with ht | ⟨e, ht⟩
      · exact absurd ht (hno t).1
      · exact absurd ht ((hno t).2 e)
  · cases st with
    | swap h' => rw [hpc] at h'; cases h'
    | refuse h' => rw [hpc] at h'; cases h'
    | leave e' h' _ => rw [hpc] at h'; cases h'
    | store e' h' => rw [hpc] at h'; cases h'; exact ⟨rfl, by simp⟩
    | unwind h' _ => rw [hpc] at h'; cases h'
    | again r h' => rw [hpc] at h'; cases h'

/-- with nobody inside, a call is admitted: it runs the delegate -/
theorem C17_admitted_when_free {s s' : State n} {t : Fin n} (h : Reachable true s)
    (hfree : ∀ u, s.pc u ≠ .running ∧ ∀ e, s.pc u ≠ .exiting e) (hidle : s.pc t = .idle)
    (st : Step true s t s') : s'.pc t = .running ∧ s'.flag = true := by
  have hf := (C17_reopens h).1 hfree
  cases st with
  | swap _ => simp [hf]
  | refuse h' => rw [hidle] at h'; cases h'
  | leave e' h' _ => rw [hidle] at h'; cases h'
  | store e' h' => rw [hidle] at h'; cases h'
  | unwind h' _ => rw [hidle] at h'; cases h'
  | again r h' => rw [hidle] at h'; cases h'

/-- the gate always reopens: from every reachable state with the flag set, the thread that holds it can
on its own, in at most two steps and whatever the delegate does, reach a state where the flag is clear -/
theorem C17_reopens_progress {s : State n} (h : Reachable true s) (hf : s.flag = true) (e : Exit) :
    ∃ t s1 s2, (s1 = s ∨ Step true s t s1) ∧ Step true s1 t s2 ∧ s2.flag = false ∧ Reachable true s2 := by
  obtain ⟨t, ht | ⟨e', ht⟩⟩ := (C17_flag_iff h).mp hf
  · have st1 := Step.leave (deferred := true) s t e ht (.inl rfl)
    refine ⟨t, _, _, .inr st1, Step.store _ t e (by simp), rfl, ?_⟩
    exact .step (.step h st1) (Step.store _ t e (by simp))
  · exact ⟨t, s, _, .inl rfl, Step.store s t e' ht, rfl, .step h (Step.store s t e' ht)⟩

/-! ## negative control: without `defer` a panic leaves the gate shut for ever -/

/-- the panic trace of the variant with a plain `Store(false)` after the delegate call:
one thread calls `Execute` and is admitted (`admitted1`), then the delegate panics (`stuck`) -/
def admitted1 : State 1 := { flag := true, pc := setPc (State.init 1).pc 0 .running }

def stuck : State 1 := { flag := true, pc := setPc admitted1.pc 0 (.finished (.delegated .panic)) }

theorem stuck_reachable : Reachable false stuck := by
  have s1 : Step false (State.init 1) 0 admitted1 := Step.swap (State.init 1) 0 rfl
  have s2 : Step false admitted1 0 stuck := Step.unwind admitted1 0 (by simp [admitted1]) rfl
  exact .step (.step .init s1) s2

/-- `C17_reopens` fails for the variant: nobody is inside, yet the flag is set … -/
theorem C17_reopens_fails_without_defer :
    ¬ ∀ (n : Nat) (s : State n), Reachable false s →
      (∀ t, s.pc t ≠ .running ∧ ∀ e, s.pc t ≠ .exiting e) → s.flag = false := by
  intro hall
  have := hall 1 stuck stuck_reachable (by
    intro t
    have : t = 0 := Subsingleton.elim _ _
    subst this
    simp [stuck])
  simp [stuck] at this

/-- … and the next call is rejected although no execution is in progress -/
theorem C17_rejected_for_ever_without_defer :
    ∃ s s' s'' : State 1, Reachable false s ∧ (∀ t, (s.pc t).holds = false) ∧
      Step false s 0 s' ∧ Step false s' 0 s'' ∧ s''.pc 0 = .rejected ∧ s''.flag = true := by
  refine ⟨stuck, _, _, stuck_reachable, ?_, Step.again stuck 0 (.delegated .panic) (by simp [stuck]),
    Step.swap _ 0 (by simp), by simp [stuck], rfl⟩
  intro t
  have : t = 0 := Subsingleton.elim _ _
  subst this
  simp [stuck, PC.holds]

/-! ## non-vacuity: a concrete interleaving of two threads -/

namespace Example
/-- thread 0 is admitted -/
def e1 : State 2 := { flag := true, pc := setPc (State.init 2).pc 0 .running }
/-- thread 1 calls meanwhile: its `Swap` finds the flag set -/
def e2 : State 2 := { flag := true, pc := setPc e1.pc 1 .rejected }
/-- thread 1 gets the error -/
def e3 : State 2 := { flag := true, pc := setPc e2.pc 1 (.finished .busy) }
/-- thread 0's delegate panics -/
def e4 : State 2 := { flag := true, pc := setPc e3.pc 0 (.exiting .panic) }
/-- the deferred store reopens the gate while the panic unwinds -/
def e5 : State 2 := { flag := false, pc := setPc e4.pc 0 (.finished (.delegated .panic)) }
/-- thread 1 calls again … -/
def e6 : State 2 := { flag := false, pc := setPc e5.pc 1 .idle }
/-- … and is admitted -/
def e7 : State 2 := { flag := true, pc := setPc e6.pc 1 .running }

theorem e7_reachable : Reachable true e7 := by
  have a1 : Step true (State.init 2) 0 e1 := Step.swap (State.init 2) 0 rfl
  have a2 : Step true e1 1 e2 := Step.swap e1 1 (by simp [e1, setPc, State.init])
  have a3 : Step true e2 1 e3 := Step.refuse e2 1 (by simp [e2])
  have a4 : Step true e3 0 e4 := Step.leave e3 0 .panic (by simp [e3, e2, e1, setPc]) (.inl rfl)
  have a5 : Step true e4 0 e5 := Step.store e4 0 .panic (by simp [e4])
  have a6 : Step true e5 1 e6 := Step.again e5 1 .busy (by simp [e5, e4, e3, setPc])
  have a7 : Step true e6 1 e7 := Step.swap e6 1 (by simp [e6])
  exact .step (.step (.step (.step (.step (.step (.step .init a1) a2) a3) a4) a5) a6) a7

/-- the hypotheses of the theorems are satisfiable on a non-trivial reachable state: thread 1 is in the
delegate after thread 0's execution panicked; `C17_mutex`/`C17_flag_iff` apply to it -/
example : e7.pc 1 = .running ∧ e7.pc 0 = .finished (.delegated .panic) ∧ e7.flag = true ∧
    (∀ u, e7.pc u = .running → u = 1) :=
  ⟨by simp [e7], by simp [e7, e6, e5, setPc], rfl,
    fun u hu => C17_mutex_running e7_reachable u 1 hu (by simp [e7])⟩

example : e2.pc 1 = .rejected ∧ e3.pc 1 = .finished .busy := ⟨by simp [e2], by simp [e3]⟩
end Example

end Jobs.Isolated
