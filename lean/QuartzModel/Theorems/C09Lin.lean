import QuartzModel.Concurrency.Lock
import QuartzModel.Sched.Model
import QuartzModel.Generated.Facts
/-!
# C09, concurrent part: every interleaving of registry calls (and dispatch steps of the running
scheduler) is equivalent to a sequential order of the calls

`Lock.linearizable` is the general theorem: threads whose multi-step bodies run entirely under one
mutex, under ANY schedule, return what they return in the sequential execution in lock-acquisition
order, and whenever the lock is free the shared state is that execution's state. Its premise for the
real code is a regenerated fact: every method of StdScheduler that mutates or reads the registry
makes all its queue calls after `queueLocker.Lock(); defer queueLocker.Unlock()`.
The theorem holds for any shared state type and any bodies, hence for any contract-abiding JobQueue
(one that hands out copies included): only the queue's own sequential behaviour enters `Op.run`.
-/
namespace Sched
open Queue Lock

/-- the registry methods and the loop's pop-reschedule step keep every queue access inside the lock -/
def lockedMethods : List String :=
  ["ScheduleJob", "GetJobKeys", "GetScheduledJob", "DeleteJob", "PauseJob", "ResumeJob", "Clear", "fetchAndReschedule"]

/-- regenerated from quartz/scheduler.go: each of them is found, with `Lock(); defer Unlock()` before its first queue call -/
theorem C09_lock_facts :
    lockedMethods.all (fun m => Generated.Locks.table.any (fun r => r.1 == m && r.2.1)) = true := by decide

/-- the only queue calls outside the lock are the loop's read-only `Size` and `Head` (they feed the
timer only; C05 treats that window) -/
theorem C09_unlocked_are_reads :
    (Generated.Locks.table.filter (fun r => !r.2.1)).all (fun r => r.2.2.all (fun c => c == "Size" || c == "Head")) = true := by
  decide

/-- ScheduleJob consults the job's suspended flag (which PauseJob / ResumeJob change in place) and the trigger under the lock, so
the whole call is one critical section as in the model (`Sched.schedule` is atomic); repaired defect b62cd12 -/
theorem C09_schedule_reads_under_lock : Generated.Locks.scheduleReadsUnderLock = true := by decide

/-- one call, as a body of micro-steps executed under the lock: here the multi-call bodies of
PauseJob / ResumeJob are split at their queue calls (Get+check, Remove, Push), which is where a
missing lock would let another thread in -/
inductive Call where
  | delete (g n : String)
  | pause (g n : String)
  | clear
  | step (now thr : Int)
deriving Repr

/-- local state of a call body: the error so far and the entry it carries between queue calls -/
structure Loc where
  err : Option SErr := none
  job : Option Entry := none
  stop : Bool := false

def pauseSteps (g n : String) : List (SState → Loc → SState × Loc) :=
  [ fun s l => match qget s.q g n with
      | .error e => (s, { l with err := some (ofQErr e), stop := true })
      | .ok job => if job.suspended then (s, { l with err := some .jobIsSuspended, stop := true }) else (s, l),
    fun s l => if l.stop then (s, l) else match qremove s.q g n with
      | .error e => (s, { l with err := some (ofQErr e), stop := true })
      | .ok (q', j) => ({ s with q := q' }, { l with job := some j }),
    fun s l => if l.stop then (s, l) else match l.job with
      | none => (s, l)
      | some j => match qpush s.q { j with prio := maxInt64, suspended := true } with
        | .ok q'' => ({ s with q := q'' }, l)
        | .error e => (s, { l with err := some (ofQErr e) }) ]

def deleteStep (g n : String) (s : SState) (l : Loc) : SState × Loc :=
  ((delete s true g n).1, { l with err := (delete s true g n).2 })

def callOp : Call → Op SState Loc (Option SErr)
  | .delete g n => { init := {}, result := fun l => l.err, steps := [deleteStep g n] }
  | .pause g n => { init := {}, result := fun l => l.err, steps := pauseSteps g n }
  | .clear => { init := {}, result := fun l => l.err, steps := [fun s l => (clear s, l)] }
  | .step now thr => { init := {}, result := fun l => l.err, steps := [fun s l => ((step s now thr).1, l)] }

/-- the three-queue-call body of PauseJob, run without interruption, is the `pause` function of the model -/
theorem pauseOp_run (s : SState) (g n : String) :
    (callOp (.pause g n)).run s = ((pause s true g n).1, (pause s true g n).2) := by
  simp only [callOp, Op.run, runSteps, pauseSteps, List.foldl, pause, Bool.not_true, Bool.false_eq_true, if_false]
  cases h1 : qget s.q g n with
  | error e => simp
  | ok job =>
    by_cases hs : job.suspended = true
    · simp [hs]
    · simp only [hs, Bool.false_eq_true, if_false]
      cases h2 : qremove s.q g n with
      | error e => simp
      | ok r =>
        obtain ⟨q', j⟩ := r
        simp only
        cases h3 : qpush q' { j with prio := maxInt64, suspended := true } with
        | error e => simp
        | ok q'' => simp

/-- **C09 (concurrent histories).** For any assignment of calls to threads and any schedule of their
micro-steps: when the lock is free the registry is the one produced by running the calls one after
another in lock-acquisition order, and every completed call returned what it returns in that
sequential execution. -/
theorem C09_linearizable (calls : Nat → Call) (s0 : SState) (sched : List Nat) :
    let σ := exec (fun i => callOp (calls i)) (init s0) sched
    (σ.holder = none → σ.shared = seqState (fun i => callOp (calls i)) s0 σ.order) ∧
    (∀ i r, σ.th i = .done r → ∃ pre post, σ.order = pre ++ i :: post ∧
        r = seqResult (fun i => callOp (calls i)) s0 pre i) :=
  linearizable (fun i => callOp (calls i)) s0 sched

/-- non-vacuity (the theorem has no hypotheses): pause vs delete of the same key, micro-steps interleaved -/
example :=
  C09_linearizable (fun i => if i = 0 then .pause "g" "a" else .delete "g" "a")
    { q := #[{ group := "g", name := "a", prio := 5 }] } [0, 1, 0, 1, 0, 0, 1, 1, 1]

/-- the mechanism on a small decidable instance: two read-modify-write bodies (read; write read+1) on a counter.
Interleaved under the lock the second acquirer sees the first one's write: final value 2, never the lost update 1. -/
example :
    let inc : Op Nat Nat Nat := { init := 0, result := id, steps := [fun s _ => (s, s), fun _ l => (l + 1, l)] }
    let σ := exec (fun _ => inc) (init 0) [0, 1, 0, 1, 0, 0, 1, 1, 1, 1]
    σ.shared = 2 ∧ σ.order = [0, 1] ∧ σ.holder = none := by
  decide

end Sched
