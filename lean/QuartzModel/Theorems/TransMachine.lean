import QuartzModel.Proofs.TransMachineLemmas
/-!
# The hand-written cron model IS the translated Go code — Stage C: the state machine

`Generated.Trans.CronStateMachine.{resetFrom, overflowFrom, advanceInvalid, findForward, NextTriggerTime}` and
`Generated.Trans.newCSMFromFields` (regenerated from `internal/csm/fn_find_forward.go`, `fn_next.go`,
`cron_state_machine.go`, `quartz/csm.go`) compute, on the machine `mkCsm {} f c ex` built from the model's
configuration `c`, exactly `Odo.resetFrom / overflowFrom / advFrom / findForward` instantiated with
`Cron.levels {} f`; and `newCSMFromFields(wall, fields).NextTriggerTime` is `Cron.csmNext {} f wall`.

Hypotheses: `WellFormed f` (what the parser establishes, C07), the digits inside `TransC.Box`
(month 1..12, day 1..31, … — true for every valid wall clock and preserved by every step), enough fuel,
and the per-node equivalence of the day node `TransC.DayEquiv T f fuel` (Stage B proves it for
`T := Cron.goTime`; `Theorems/TransFinal.lean` plugs it in).  The five common nodes are Stage A.
-/
set_option linter.unusedSimpArgs false

namespace TransCsm
open Generated.Trans Cron Odo TransRepr TransA TransC

section
variable (T : TimeExt) (f : Fields) (hwf : WellFormed f = true) (fuel : Nat) (hD : DayEquiv T f fuel) (hf : 7 ≤ fuel)
include hwf hD hf

/-- Go `csm.resetFrom(k-1)` = `Odo.resetFrom L k` (resets levels k-1 … 0) -/
theorem trans_resetFrom (k : Nat) (hk : k ≤ 6) (c : Cfg) (ex : Bool) (hb : Box c) :
    CronStateMachine.resetFrom T (mkCsm {} f c ex) ((k : Int) - 1) fuel =
      some (mkCsm {} f (Odo.resetFrom (levels {} f) k c) ex) :=
  resetFrom_mk T f hwf fuel hD k hk c ex hb hf _ rfl

/-- Go `csm.overflowFrom(k)` = `Odo.overflowFrom L 6 k`; the model's flag is Go's `exhausted` -/
theorem trans_overflowFrom (k : Nat) (hk : k ≤ 6) (c : Cfg) (ex : Bool) (hb : Box c) :
    CronStateMachine.overflowFrom T (mkCsm {} f c ex) (k : Int) fuel =
      some (mkCsm {} f (Odo.overflowFrom (levels {} f) 6 k c).1 (ex || (Odo.overflowFrom (levels {} f) 6 k c).2)) :=
  overflowFrom_mk T f hwf fuel hD hf k hk c ex hb _ rfl

/-- Go `csm.advanceInvalid()` = `Odo.advFrom L D 6 6` (`none` ↔ Go returns `false`) -/
theorem trans_advanceInvalid (c : Cfg) (ex : Bool) (hb : Box c) :
    CronStateMachine.advanceInvalid T (mkCsm {} f c ex) fuel =
      some (match Odo.advFrom (levels {} f) (levelsDec {} f) 6 6 c with
            | none => (mkCsm {} f c ex, false)
            | some r => (mkCsm {} f r.1 (ex || r.2), true)) :=
  advanceInvalid_mk T f hwf fuel hD hf c ex hb

/-- Go `csm.findForward()` = `Odo.findForward L D 6` whenever the model's fuel `n` suffices (`n < fuel`:
the Go loop takes one more turn to test `exhausted`) -/
theorem trans_findForward (n : Nat) (hn : n + 1 ≤ fuel) (p : Cfg) (hb : Box p) (r : Cfg × Bool)
    (h : Odo.findForward (levels {} f) (levelsDec {} f) 6 n p = some r) :
    CronStateMachine.findForward T (mkCsm {} f p false) fuel = some (mkCsm {} f r.1 r.2) :=
  findForward_mk T f hwf fuel hD hf n hn p hb r h

end

/-! ## `newCSMFromFields` and `NextTriggerTime` -/

/-- the translated `quartz/csm.go: newCSMFromFields` builds `mkCsm {} f` (this is where the regenerated node
limits 0..59, 0..23, 1..31, 1..12, 0..maxYear and the field order enter) -/
theorem trans_newCSMFromFields (f : Fields) (w : Cal.Civil) :
    newCSMFromFields w.year w.month w.day w.hour w.minute w.second (mkFields f) =
      mkCsm {} f (cfgOfCivil w) false := by
  by_cases hd : f.dow.values = []
  · simp [newCSMFromFields, mkFields, idxD, mkField, NewCommonNode, NewCronStateMachine, NewWeekDayNode,
      NewMonthDayNode, mkCsm, mkCommon, mkDay, cfgOfCivil, dayCfg, maxYear, hd, ints]
  · have hne : ¬ (ints f.dow.values = []) := fun h => hd ((ints_eq_nil _).mp h)
    simp [newCSMFromFields, mkFields, idxD, mkField, NewCommonNode, NewCronStateMachine, NewWeekDayNode,
      NewMonthDayNode, mkCsm, mkCommon, mkDay, cfgOfCivil, dayCfg, maxYear, hd, hne, ints_nil]

/-- six `time.Date` arguments read back as the model's civil date-time -/
def civilOfWall (w : Wall) : Cal.Civil :=
  { year := w.year.toNat, month := w.month.toNat, day := w.day.toNat,
    hour := w.hour.toNat, minute := w.minute.toNat, second := w.second.toNat }

/-- one `newCSMFromFields(wall, fields).NextTriggerTime(time.UTC)` of the TRANSLATED code, in the result type of
the model's `csmNext` (`none` = out of fuel, `some none` = exhausted) -/
def transCsmNext (T : TimeExt) (f : Fields) (wall : Cal.Civil) (fuel : Nat) : Option (Option Cal.Civil) :=
  (CronStateMachine.NextTriggerTime T
      (newCSMFromFields wall.year wall.month wall.day wall.hour wall.minute wall.second (mkFields f)) fuel).map
    fun r => if r.2.2 then some (civilOfWall r.2.1) else none

theorem box_cfgOfCivil (wall : Cal.Civil) (hv : wall.Valid) (hy : wall.year ≤ 3940) : Box (cfgOfCivil wall) := by
  refine ⟨inBox_cfgOfCivil wall hv hy, ?_⟩
  intro k hk
  obtain ⟨⟨hm, _, hd, _⟩, _⟩ := hv
  have hk6 : k = 0 ∨ k = 1 ∨ k = 2 ∨ k = 3 ∨ k = 4 ∨ k = 5 := by omega
  rcases hk6 with rfl | rfl | rfl | rfl | rfl | rfl <;> simp only [cfgOfCivil, A6] <;> omega

theorem civilOfWall_value (f : Fields) (c : Cfg) (ex : Bool) :
    civilOfWall (CronStateMachine.ValueWithLocation (mkCsm {} f c ex)) = civilOfCfg c := by
  simp [civilOfWall, CronStateMachine.ValueWithLocation, mkCsm, Value_mk, DayNode.Value, mkDay, civilOfCfg]

/-- **the translated state machine is the model's `csmNext`** (given the day node's equivalence) -/
theorem trans_nextTriggerTime_of (T : TimeExt) (f : Fields) (hwf : WellFormed f = true) (fuel : Nat)
    (hD : DayEquiv T f fuel) (hfuel : csmFuel + 1 ≤ fuel) (wall : Cal.Civil) (hv : wall.Valid) (hy : wall.year ≤ 3940) :
    transCsmNext T f wall fuel = csmNext {} f wall := by
  have hf7 : 7 ≤ fuel := by have := csmFuel_eq; omega
  have hne := findForward_ne_none f hwf wall hv
  unfold transCsmNext csmNext
  rw [trans_newCSMFromFields]
  cases hff : Odo.findForward (levels {} f) (levelsDec {} f) 6 csmFuel (cfgOfCivil wall) with
  | none => exact absurd hff hne
  | some r =>
    obtain ⟨c, fl⟩ := r
    have h := trans_findForward T f hwf fuel hD hf7 csmFuel hfuel _ (box_cfgOfCivil wall hv hy) _ hff
    simp only [CronStateMachine.NextTriggerTime, h, Option.bind_some]
    cases fl with
    | true => rfl
    | false =>
      have hex : (mkCsm {} f c false).exhausted = false := rfl
      simp only [hex, Bool.false_eq_true, ↓reduceIte, Option.map_some, civilOfWall_value]

end TransCsm

#print axioms TransCsm.trans_resetFrom
#print axioms TransCsm.trans_overflowFrom
#print axioms TransCsm.trans_advanceInvalid
#print axioms TransCsm.trans_findForward
#print axioms TransCsm.trans_newCSMFromFields
#print axioms TransCsm.trans_nextTriggerTime_of
