import QuartzModel.Generated.Facts
/-! No source shape of the `locks, validate, queue` fact group(s) is missing (a separate module per group, so that a reshaped function of one area
cannot break the proof obligations of properties that do not depend on it). -/
namespace Facts
theorem missing_none_locks : (Generated.missing.filter (fun s => "locks.".toList.isPrefixOf s.toList)) = [] ∧ (Generated.missing.filter (fun s => "validate.".toList.isPrefixOf s.toList)) = [] ∧ (Generated.missing.filter (fun s => "queue.".toList.isPrefixOf s.toList)) = [] := by decide
end Facts
