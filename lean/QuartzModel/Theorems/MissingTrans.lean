import QuartzModel.Generated.Trans
/-!
# Every listed function of `internal/csm` and `quartz/csm.go` was translated on this run

`harness/cmd/gotolean` lists in `Generated.Trans.missing` each function it could not translate (unsupported syntax, or one of its
checked idioms — borrowed month/year nodes, devirtualised node fields, `selectNode` dispatch, the `time` interface — no longer found
in the source). An entry there means the equivalence theorems of `Theorems/TransCsm.lean` … no longer speak about the whole package.
-/
namespace Trans

theorem missing_none : Generated.Trans.missing = [] := by decide

end Trans
