import QuartzModel.Proofs.TransRetryLemmas
import QuartzModel.Theorems.C13
import QuartzModel.Sched.Pool
/-!
# The translated job-execution control flow IS the hand-written model (area `retry`)

`Generated.TransRetry` is regenerated from quartz/scheduler.go by `harness/cmd/gotolean-retry` on every run
(`executeWithRetries`, the dispatch switch of `executeAndReschedule`, `startWorkers` and the goroutine bodies).

* `trans_executeWithRetries`: in every scripted environment (`Scripted`: the `j`-th `Execute` returns the `j`-th
  outcome of the script, the context ends before the `cancelAt`-th retry wait completes, and when both the timer and
  `ctx.Done()` are ready the `select` takes ANY case) the recorded events of the translated `executeWithRetries`,
  abstracted by `absResult`, are exactly `Sched.Retry.executeWithRetries MaxRetries script cancelAt`.
  `C13_attempts`, `C13_cancel_stops`, `C13_panic_ends_sequence` (and `C13_interval`) are transferred.
* `trans_dispatch_arm`, `trans_dispatch_*`: for EVERY environment the arm of the translated dispatch switch is
  `Pool.Code.std.arm`; `trans_startWorkers`: the worker goroutines started are `Pool.Code.std.workers`;
  `trans_dispatchCap`; `trans_worker_rounds`: a worker goroutine alternates one receive with one complete
  `executeWithRetries` and leaves only through `<-ctx.Done()`, calling `wg.Done()` last.
-/
set_option autoImplicit false
set_option linter.unusedSimpArgs false

namespace TransRetry
open Generated.TransRetry
open Sched.Retry (Outcome End Exit Normal ctxDone retryLoop)

theorem trans_retry_nothing_missing : Generated.TransRetry.missing = [] := by decide

/-- `Job.Execute` is called only inside `executeWithRetries` (twice: first attempt and retry), and
`executeWithRetries` only from the worker goroutine and the two executing arms of the dispatch switch -/
theorem trans_retry_callers :
    Generated.TransRetry.executeCallers = ["executeWithRetries", "executeWithRetries"] ∧
    Generated.TransRetry.executeWithRetriesCallers = ["startWorkers", "executeAndReschedule", "executeAndReschedule"] := by
  decide

/-! ## `executeWithRetries` -/

section
variable {SJ : Type}

private theorem hx1 (j : Ref) : absTrace ([Event.execute j (.returned (some {}))] : List (Event SJ)) = [.attempt .err] := rfl
private theorem hx2 (j : Ref) (r : CallResult (Option Err)) :
    panicLogged ([Event.execute j r] : List (Event SJ)) = false := rfl
private theorem hx3 (j : Ref) (r : CallResult (Option Err)) :
    termLogged ([Event.execute j r] : List (Event SJ)) = false := rfl
private theorem hlogE : panicLogged ([Event.log "Error" "Job panicked"] : List (Event SJ)) = true := by
  simp [panicLogged, isLog]
private theorem hlogW : termLogged ([Event.log "Warn" "Job terminated"] : List (Event SJ)) = true := by
  simp [termLogged, isLog]
private theorem hlogWE : panicLogged ([Event.log "Warn" "Job terminated"] : List (Event SJ)) = false := by
  simp [panicLogged, isLog]
private theorem hnil (l m : String) : absTrace ([Event.log l m] : List (Event SJ)) = [] := by
  simp [absTrace]

/-- The translated `executeWithRetries` computes the hand-written model `Sched.Retry.executeWithRetries`:
for every scripted environment, every job detail with options `o`, every script and cancel point. `out0` (what was
recorded before the call) must hold no event the abstraction looks at. -/
theorem trans_executeWithRetries (X : Ext MW SJ) (c : Option Nat) (pick : Nat → Nat) (hX : Scripted X c pick)
    (env : Env) (jd : JobDetail) (o : JobDetailOptions) (hjd : jd.opts = some o) (script : List Outcome)
    (out0 : List (Event SJ)) (h0 : absTrace out0 = []) (hp0 : panicLogged out0 = false)
    (ht0 : termLogged out0 = false) :
    absResult (executeWithRetries X env ⟨⟨script, 0⟩, out0⟩ (some jd)).out
      = Sched.Retry.executeWithRetries o.MaxRetries script c := by
  rcases Sched.Retry.script_cases script with h | ⟨t, h⟩ | ⟨t, h⟩ | ⟨t, h⟩ <;> subst h
  · rw [Sched.Retry.exec_nil]
    simp [executeWithRetries, executeWithRetries.body, St.execute, hX.execute, scriptExecute, recoverOf, absResult,
      absEnd, absTrace_append, panicLogged_append, termLogged_append, h0, hp0, ht0, hx2, hx3]
    simp [absTrace, outcomeOf]
  · rw [Sched.Retry.exec_ok]
    simp [executeWithRetries, executeWithRetries.body, St.execute, hX.execute, scriptExecute, resOf, recoverOf,
      absResult, absEnd, absTrace_append, panicLogged_append, termLogged_append, h0, hp0, ht0, hx2, hx3]
    simp [absTrace, outcomeOf]
  · rw [Sched.Retry.exec_panic]
    simp [executeWithRetries, executeWithRetries.body, St.execute, St.emit, hX.execute, scriptExecute, resOf,
      recoverOf, absResult, absEnd, absTrace_append, panicLogged_append, termLogged_append, h0, hp0, ht0, hx2, hx3,
      hlogE, hnil]
    simp [absTrace, outcomeOf, panicLogged, isLog]
  · have hspec := loop1_spec X c pick hX env jd o hjd t 0 ((o.MaxRetries + 1 - 1).toNat)
      (out0 ++ [Event.execute jd.job (.returned (some {}))]) {} (by simp)
    have h1 : ((0 : Nat) : Int) + 1 = 1 := rfl
    rw [h1] at hspec
    rw [Sched.Retry.exec_err]
    simp only [executeWithRetries, executeWithRetries.body, St.execute, hX.execute, scriptExecute, resOf, hjd,
      deref_some]
    generalize executeWithRetries.loop1 X env (some jd) (o.MaxRetries + 1 - 1).toNat 1
      { world := { script := t, waits := 0 }, out := out0 ++ [Event.execute jd.job (CallResult.returned (some { }))] }
              (some { }) = r at hspec ⊢
    obtain ⟨σ', err', fl⟩ := r
    have hwc := loop_wc o.MaxRetries c t 1
    simp only [Nat.zero_add] at hspec
    generalize retryLoop o.MaxRetries c 1 t = m at hspec hwc ⊢
    obtain ⟨mt, mx⟩ := m
    obtain ⟨hA, hP, hT, hC⟩ := hspec
    have hA' : absTrace σ'.out = .attempt .err :: mt := by
      rw [absTrace_append, h0, hx1] at hA; exact hA
    have hP' : panicLogged σ'.out = false := by rw [panicLogged_append, hp0, hx2] at hP; exact hP
    have hT' : termLogged σ'.out = false := by rw [termLogged_append, ht0, hx3] at hT; exact hT
    cases mx with
    | panicking =>
      simp only at hC
      subst hC
      simp [absResult, absEnd, St.emit, recoverOf, absTrace_append, panicLogged_append, hA', hP', hlogE, hnil,
        Sched.Retry.recoverDeferred]
    | returned nrm =>
      cases nrm with
      | succeeded =>
        obtain ⟨hf, he⟩ := hC
        subst hf; subst he
        simp [absResult, absEnd, recoverOf, hA', hP', hT', Sched.Retry.recoverDeferred]
      | gaveUp =>
        obtain ⟨hf, he⟩ := hC
        obtain ⟨e', rfl⟩ := Option.isSome_iff_exists.mp he
        subst hf
        simp at hwc
        simp [absResult, absEnd, St.emit, recoverOf, absTrace_append, panicLogged_append, termLogged_append, hA', hP',
          hT', hlogW, hlogWE, hnil, hwc, Sched.Retry.recoverDeferred]
      | cancelled =>
        obtain ⟨hf, he⟩ := hC
        obtain ⟨e', rfl⟩ := Option.isSome_iff_exists.mp he
        subst hf
        simp at hwc
        simp [absResult, absEnd, St.emit, recoverOf, absTrace_append, panicLogged_append, termLogged_append, hA', hP',
          hT', hlogW, hlogWE, hnil, hwc, Sched.Retry.recoverDeferred]

/-- the run of the translated function from an empty record -/
def runRetries (X : Ext MW SJ) (env : Env) (jd : JobDetail) (script : List Outcome) : List (Event SJ) :=
  (executeWithRetries X env ⟨⟨script, 0⟩, []⟩ (some jd)).out

theorem trans_runRetries (X : Ext MW SJ) (c : Option Nat) (pick : Nat → Nat) (hX : Scripted X c pick)
    (env : Env) (jd : JobDetail) (o : JobDetailOptions) (hjd : jd.opts = some o) (script : List Outcome) :
    absResult (runRetries X env jd script) = Sched.Retry.executeWithRetries o.MaxRetries script c :=
  trans_executeWithRetries X c pick hX env jd o hjd script [] rfl rfl rfl

/-! ### C13 transferred to the translated code

`(absResult es).attempts = executes es` (`attempts_eq_executes`): the attempts spoken of are literally the recorded
`Execute` calls; `ending = recovered` means the deferred function logged "Job panicked", `gaveUp`/`cancelled` mean the
function logged "Job terminated" (with / without a cancelled wait), `succeeded` that it logged neither. -/

/-- C13_attempts for the translated code (context never ends, no panic) -/
theorem C13_attempts_trans (X : Ext MW SJ) (pick : Nat → Nat) (hX : Scripted X none pick) (env : Env)
    (jd : JobDetail) (o : JobDetailOptions) (hjd : jd.opts = some o) (script : List Outcome)
    (hp : Outcome.panic ∉ script) :
    let es := runRetries X env jd script
    ((executes es).length : Int) = 1 + min (max 0 o.MaxRetries) (Sched.Retry.failuresBefore script) ∧
    executes es = (script ++ [Outcome.ok]).take (executes es).length ∧
    (absResult es).waits + 1 = (executes es).length ∧
    (absResult es).ending = (if (Sched.Retry.failuresBefore script : Int) ≤ max 0 o.MaxRetries
      then End.succeeded else End.gaveUp) := by
  intro es
  have h := Sched.Retry.C13_attempts o.MaxRetries script hp
  rw [← trans_runRetries X none pick hX env jd o hjd script] at h
  simp only [attempts_eq_executes] at h
  exact h

/-- C13_cancel_stops for the translated code: the context ends during the `k`-th retry wait -/
theorem C13_cancel_stops_trans (X : Ext MW SJ) (pick : Nat → Nat) (k : Nat) (hX : Scripted X (some k) pick)
    (env : Env) (jd : JobDetail) (o : JobDetailOptions) (hjd : jd.opts = some o) (script : List Outcome)
    (hk1 : 1 ≤ k) (hkm : (k : Int) ≤ o.MaxRetries) (hfail : ∀ j, j < k → script[j]? = some Outcome.err) :
    let es := runRetries X env jd script
    executes es = List.replicate k Outcome.err ∧ (absResult es).ending = End.cancelled ∧
      (absTrace es).getLast? = some Sched.Retry.Event.waitCancelled ∧ (absResult es).waits = k - 1 := by
  intro es
  have h := Sched.Retry.C13_cancel_stops o.MaxRetries script k hk1 hkm hfail
  rw [← trans_runRetries X (some k) pick hX env jd o hjd script] at h
  simp only [attempts_eq_executes] at h
  exact h

/-- C13_panic_ends_sequence for the translated code: a panicking `Execute` is the last one, and the function
returns normally having logged the recovered panic -/
theorem C13_panic_ends_sequence_trans (X : Ext MW SJ) (c : Option Nat) (pick : Nat → Nat) (hX : Scripted X c pick)
    (env : Env) (jd : JobDetail) (o : JobDetailOptions) (hjd : jd.opts = some o) (script : List Outcome) (j : Nat)
    (hj : (executes (runRetries X env jd script))[j]? = some Outcome.panic) :
    (executes (runRetries X env jd script)).length = j + 1 ∧
      (absResult (runRetries X env jd script)).ending = End.recovered ∧
      panicLogged (runRetries X env jd script) = true := by
  have h := Sched.Retry.C13_panic_ends_sequence o.MaxRetries script c j
  rw [← trans_runRetries X c pick hX env jd o hjd script] at h
  simp only [attempts_eq_executes] at h
  obtain ⟨h1, h2⟩ := h hj
  refine ⟨h1, h2, ?_⟩
  have : absEnd (runRetries X env jd script) = End.recovered := h2
  unfold absEnd at this
  cases hpl : panicLogged (runRetries X env jd script)
  · rw [hpl] at this
    simp only [Bool.false_eq_true, if_false] at this
    split at this
    · split at this <;> cases this
    · cases this
  · rfl

/-- C13_interval for the translated code: consecutive `Execute` calls are separated by exactly one completed wait -/
theorem C13_interval_trans (X : Ext MW SJ) (c : Option Nat) (pick : Nat → Nat) (hX : Scripted X c pick)
    (env : Env) (jd : JobDetail) (o : JobDetailOptions) (hjd : jd.opts = some o) (script : List Outcome) :
    let es := runRetries X env jd script
    absTrace es = Sched.Retry.spaced (executes es) ++
      (if (absResult es).ending = End.cancelled then [Sched.Retry.Event.waitCancelled] else []) := by
  intro es
  have h := (Sched.Retry.C13_interval o.MaxRetries script c).1
  rw [← trans_runRetries X c pick hX env jd o hjd script] at h
  simp only [attempts_eq_executes] at h
  exact h

end

/-! ## `executeWithRetries` in ANY environment

No assumption on the externals: whatever `Execute`, the `select`s and `ctx.Err()` answer (consistent or not), the run of
the translated function is a run of the model — for the script of outcomes it was given and the retry wait at which it
first saw the context ended. So everything the model satisfies for all scripts and cancel points holds for the code in
every environment. -/

section
variable {W SJ : Type}

private theorem finish_err (X : Ext W SJ) (env : Env) (σ : St W SJ) (jd : JobDetail) (o : JobDetailOptions)
    (hjd : jd.opts = some o) (h0 : absTrace σ.out = []) (hp0 : panicLogged σ.out = false)
    (ht0 : termLogged σ.out = false) (w1 : W) (a : Err)
    (hex : X.Execute σ.world jd.job = (w1, CallResult.returned (some a))) (rest : List Outcome) (c : Option Nat)
    (hsim : LoopSim { world := w1, out := σ.out ++ [Event.execute jd.job (CallResult.returned (some a))] }
      (executeWithRetries.loop1 X env (some jd) (o.MaxRetries + 1 - 1).toNat 1
        { world := w1, out := σ.out ++ [Event.execute jd.job (CallResult.returned (some a))] } (some a))
      (retryLoop o.MaxRetries c 1 rest)) :
    absResult (executeWithRetries X env σ (some jd)).out = Sched.Retry.executeWithRetries o.MaxRetries (.err :: rest) c := by
  rw [Sched.Retry.exec_err]
  simp only [executeWithRetries, executeWithRetries.body, St.execute, deref_some, hex, hjd]
  generalize executeWithRetries.loop1 X env (some jd) (o.MaxRetries + 1 - 1).toNat 1
    { world := w1, out := σ.out ++ [Event.execute jd.job (CallResult.returned (some a))] } (some a) = r at hsim ⊢
  obtain ⟨σ', err', fl⟩ := r
  have hwc := loop_wc o.MaxRetries c rest 1
  generalize retryLoop o.MaxRetries c 1 rest = m at hsim hwc ⊢
  obtain ⟨mt, mx⟩ := m
  obtain ⟨⟨hA, hP, hT⟩, hC⟩ := hsim
  simp only at hA hP hT hC
  have hy1 : absTrace ([Event.execute jd.job (.returned (some a))] : List (Event SJ)) = [.attempt .err] := rfl
  have hA' : absTrace σ'.out = .attempt .err :: mt := by
    rw [absTrace_append, h0, hy1] at hA; exact hA
  have hP' : panicLogged σ'.out = false := by rw [panicLogged_append, hp0, hx2] at hP; exact hP
  have hT' : termLogged σ'.out = false := by rw [termLogged_append, ht0, hx3] at hT; exact hT
  cases mx with
  | panicking =>
    simp only at hC
    subst hC
    simp [absResult, absEnd, St.emit, recoverOf, absTrace_append, panicLogged_append, hA', hP', hlogE, hnil,
      Sched.Retry.recoverDeferred]
  | returned nrm =>
    cases nrm with
    | succeeded =>
      obtain ⟨hf, he⟩ := hC
      subst hf; subst he
      simp [absResult, absEnd, recoverOf, hA', hP', hT', Sched.Retry.recoverDeferred]
    | gaveUp =>
      obtain ⟨hf, he⟩ := hC
      obtain ⟨e', rfl⟩ := Option.isSome_iff_exists.mp he
      subst hf
      simp at hwc
      simp [absResult, absEnd, St.emit, recoverOf, absTrace_append, panicLogged_append, termLogged_append, hA', hP',
        hT', hlogW, hlogWE, hnil, hwc, Sched.Retry.recoverDeferred]
    | cancelled =>
      obtain ⟨hf, he⟩ := hC
      obtain ⟨e', rfl⟩ := Option.isSome_iff_exists.mp he
      subst hf
      simp at hwc
      simp [absResult, absEnd, St.emit, recoverOf, absTrace_append, panicLogged_append, termLogged_append, hA', hP',
        hT', hlogW, hlogWE, hnil, hwc, Sched.Retry.recoverDeferred]

/-- REFINEMENT, no hypothesis on the environment: every run of the translated `executeWithRetries` is the model's run
for some script and cancel point. -/
theorem trans_executeWithRetries_any (X : Ext W SJ) (env : Env) (σ : St W SJ) (jd : JobDetail) (o : JobDetailOptions)
    (hjd : jd.opts = some o) (h0 : absTrace σ.out = []) (hp0 : panicLogged σ.out = false)
    (ht0 : termLogged σ.out = false) :
    ∃ (script : List Outcome) (cancelAt : Option Nat),
      absResult (executeWithRetries X env σ (some jd)).out
        = Sched.Retry.executeWithRetries o.MaxRetries script cancelAt := by
  cases hex : X.Execute σ.world jd.job with
  | mk w1 r =>
    cases r with
    | panicked =>
      refine ⟨[.panic], none, ?_⟩
      rw [Sched.Retry.exec_panic]
      simp [executeWithRetries, executeWithRetries.body, St.execute, St.emit, hex, recoverOf, absResult, absEnd,
        absTrace_append, panicLogged_append, termLogged_append, h0, hp0, ht0, hx2, hx3, hlogE, hnil]
      simp [absTrace, outcomeOf, panicLogged, isLog]
    | returned a =>
      cases a with
      | none =>
        refine ⟨[], none, ?_⟩
        rw [Sched.Retry.exec_nil]
        simp [executeWithRetries, executeWithRetries.body, St.execute, hex, recoverOf, absResult, absEnd,
          absTrace_append, panicLogged_append, termLogged_append, h0, hp0, ht0, hx2, hx3]
        simp [absTrace, outcomeOf]
      | some a =>
        obtain ⟨rest, c, _, hsim⟩ := loop1_any X env jd o hjd (o.MaxRetries + 1 - 1).toNat 1
          { world := w1, out := σ.out ++ [Event.execute jd.job (CallResult.returned (some a))] } (some a) 0 a rfl rfl rfl
        exact ⟨.err :: rest, c, finish_err X env σ jd o hjd h0 hp0 ht0 w1 a hex rest c hsim⟩

/-- in every environment: at most `1 + max 0 MaxRetries` calls of `Execute` -/
theorem C13_attempts_bound_any (X : Ext W SJ) (env : Env) (σ : St W SJ) (jd : JobDetail) (o : JobDetailOptions)
    (hjd : jd.opts = some o) (h0 : absTrace σ.out = []) (hp0 : panicLogged σ.out = false)
    (ht0 : termLogged σ.out = false) :
    ((executes (executeWithRetries X env σ (some jd)).out).length : Int) ≤ 1 + max 0 o.MaxRetries := by
  obtain ⟨script, c, h⟩ := trans_executeWithRetries_any X env σ jd o hjd h0 hp0 ht0
  rw [← attempts_eq_executes, h]
  rcases Sched.Retry.script_cases script with hs | ⟨t, hs⟩ | ⟨t, hs⟩ | ⟨t, hs⟩ <;> subst hs
  · simp [Sched.Retry.exec_nil, Sched.Retry.Result.attempts]; omega
  · simp [Sched.Retry.exec_ok, Sched.Retry.Result.attempts]; omega
  · simp [Sched.Retry.exec_panic, Sched.Retry.Result.attempts]; omega
  · have := loop_attempts_le o.MaxRetries c t 1
    simp only [Sched.Retry.exec_err, Sched.Retry.Result.attempts, Sched.Retry.attemptsOf_attempt, List.length_cons]
    push_cast at this ⊢
    omega

/-- in every environment: at least one call of `Execute`, and every call except the last one returned an error (so a
success or a panic is always the last call) -/
theorem C13_attempts_structure_any (X : Ext W SJ) (env : Env) (σ : St W SJ) (jd : JobDetail) (o : JobDetailOptions)
    (hjd : jd.opts = some o) (h0 : absTrace σ.out = []) (hp0 : panicLogged σ.out = false)
    (ht0 : termLogged σ.out = false) :
    executes (executeWithRetries X env σ (some jd)).out ≠ [] ∧
    ∀ j, j + 1 < (executes (executeWithRetries X env σ (some jd)).out).length →
      (executes (executeWithRetries X env σ (some jd)).out)[j]? = some Outcome.err := by
  obtain ⟨script, c, h⟩ := trans_executeWithRetries_any X env σ jd o hjd h0 hp0 ht0
  have hs := Sched.Retry.C13_attempts_structure o.MaxRetries script c
  rw [← h] at hs
  simp only [attempts_eq_executes] at hs
  exact ⟨hs.1, hs.2.2⟩

/-- in every environment: a panicking `Execute` is the last call, the deferred function logs it and the function returns -/
theorem C13_panic_ends_sequence_any (X : Ext W SJ) (env : Env) (σ : St W SJ) (jd : JobDetail) (o : JobDetailOptions)
    (hjd : jd.opts = some o) (h0 : absTrace σ.out = []) (hp0 : panicLogged σ.out = false)
    (ht0 : termLogged σ.out = false) (j : Nat)
    (hj : (executes (executeWithRetries X env σ (some jd)).out)[j]? = some Outcome.panic) :
    (executes (executeWithRetries X env σ (some jd)).out).length = j + 1 ∧
      absEnd (executeWithRetries X env σ (some jd)).out = End.recovered := by
  obtain ⟨script, c, h⟩ := trans_executeWithRetries_any X env σ jd o hjd h0 hp0 ht0
  have hs := Sched.Retry.C13_panic_ends_sequence o.MaxRetries script c j
  rw [← h] at hs
  simp only [attempts_eq_executes] at hs
  exact hs hj

/-- in every environment: consecutive calls of `Execute` are separated by exactly one completed wait, and after a
cancelled wait (`<-ctx.Done()` won, or `ctx.Err() != nil` after the timer) nothing more is executed -/
theorem C13_interval_any (X : Ext W SJ) (env : Env) (σ : St W SJ) (jd : JobDetail) (o : JobDetailOptions)
    (hjd : jd.opts = some o) (h0 : absTrace σ.out = []) (hp0 : panicLogged σ.out = false)
    (ht0 : termLogged σ.out = false) :
    absTrace (executeWithRetries X env σ (some jd)).out =
      Sched.Retry.spaced (executes (executeWithRetries X env σ (some jd)).out) ++
        (if absEnd (executeWithRetries X env σ (some jd)).out = End.cancelled
          then [Sched.Retry.Event.waitCancelled] else []) := by
  obtain ⟨script, c, h⟩ := trans_executeWithRetries_any X env σ jd o hjd h0 hp0 ht0
  have hs := (Sched.Retry.C13_interval o.MaxRetries script c).1
  rw [← h] at hs
  simp only [attempts_eq_executes] at hs
  exact hs

end

/-! ## the dispatch switch and the workers against `Pool` -/

section
variable {W SJ : Type}

/-- the configuration the Pool model reads off `sched.opts` -/
def cfgOf (env : Env) : Pool.Cfg := ⟨env.opts.BlockingExecution, env.opts.WorkerLimit.toNat⟩

/-- what an event says about the arm of the dispatch switch that produced it -/
def armOfEvent : Event SJ → Pool.Arm
  | .execute _ _ => .inline
  | .select (Chan.send _ :: _) _ => .handoff
  | .wgAdd _ => .spawn
  | _ => .skip

/-- the arm taken by one call of `executeAndReschedule` that started with `pre` recorded and ended with `post`: what
the first event after `fetch`, `log "Job is about to be executed"` shows -/
def armOf (pre post : List (Event SJ)) : Pool.Arm :=
  match post.drop (pre.length + 2) with
  | e :: _ => armOfEvent e
  | [] => .skip

/-- `b` extends the record of `a` -/
def St.le (a b : St W SJ) : Prop := ∃ evs, b.out = a.out ++ evs
theorem St.le_refl (a : St W SJ) : St.le a a := ⟨[], by simp⟩
theorem St.le_trans {a b c : St W SJ} (h1 : St.le a b) (h2 : St.le b c) : St.le a c := by
  obtain ⟨e1, h1⟩ := h1; obtain ⟨e2, h2⟩ := h2
  exact ⟨e1 ++ e2, by rw [h2, h1, List.append_assoc]⟩
theorem St.le_emit_of {a b : St W SJ} (e : Event SJ) (h : St.le a b) : St.le a (b.emit e) :=
  St.le_trans h ⟨[e], rfl⟩
theorem St.le_select_of {a b : St W SJ} (X : Ext W SJ) (cs : List Chan) (h : St.le a b) :
    St.le a (b.select X cs).1 := St.le_trans h ⟨[_], rfl⟩
theorem St.le_ctxErr_of {a b : St W SJ} (X : Ext W SJ) (h : St.le a b) : St.le a (b.ctxErr X).1 :=
  St.le_trans h ⟨[_], rfl⟩
theorem St.le_execute_of {a b : St W SJ} (X : Ext W SJ) (j : Ref) (h : St.le a b) : St.le a (b.execute X j).1 :=
  St.le_trans h ⟨[_], rfl⟩

/-- chains the lemmas above backwards from the final state -/
macro "le_chain" : tactic =>
  `(tactic| repeat' (first | exact St.le_refl _ | apply St.le_emit_of | apply St.le_select_of | apply St.le_ctxErr_of | apply St.le_execute_of))

/-- the retry loop only appends to the record -/
theorem loop1_le (X : Ext W SJ) (env : Env) (jd : Option JobDetail) (n : Nat) (i : Int) (σ : St W SJ)
    (err : Option Err) : St.le σ (executeWithRetries.loop1 X env jd n i σ err).1 := by
  fun_induction executeWithRetries.loop1 X env jd n i σ err
  case case5 ih => exact St.le_trans (by le_chain) ih
  all_goals le_chain

theorem St.le_loop1_of {a b : St W SJ} (X : Ext W SJ) (env : Env) (jd : Option JobDetail) (n : Nat) (i : Int)
    (err : Option Err) (h : St.le a b) : St.le a (executeWithRetries.loop1 X env jd n i b err).1 :=
  St.le_trans h (loop1_le X env jd n i b err)

theorem body_le (X : Ext W SJ) (env : Env) (σ : St W SJ) (jd : Option JobDetail) :
    St.le (σ.execute X (deref jd).job).1 (executeWithRetries.body X env σ jd).1 := by
  fun_cases executeWithRetries.body X env σ jd
  all_goals repeat' (first | exact St.le_refl _ | apply St.le_emit_of | apply St.le_loop1_of)

/-- `executeWithRetries` starts with the call of `Execute` -/
theorem executeWithRetries_starts (X : Ext W SJ) (env : Env) (σ : St W SJ) (jd : Option JobDetail) :
    ∃ evs, (executeWithRetries X env σ jd).out
      = σ.out ++ Event.execute (deref jd).job (X.Execute σ.world (deref jd).job).2 :: evs := by
  have h : St.le (σ.execute X (deref jd).job).1 (executeWithRetries X env σ jd) := by
    fun_cases executeWithRetries X env σ jd
    · exact St.le_emit_of _ (body_le X env σ jd)
    · exact body_le X env σ jd
  obtain ⟨evs, h⟩ := h
  exact ⟨evs, by rw [h]; simp [St.execute]⟩

/-- inline arm: the job is executed by the loop goroutine itself, before `executeAndReschedule` returns -/
theorem trans_dispatch_inline (X : Ext W SJ) (env : Env) (σ : St W SJ)
    (hv : (X.fetchAndReschedule σ.world).2.2.1 = true) (hb : env.opts.BlockingExecution = true) :
    executeAndReschedule X env σ =
      (executeWithRetries X env ((σ.fetch X).1.emit (Event.log "Debug" "Job is about to be executed"))
        (X.JobDetail (σ.fetch X).2.1), (σ.fetch X).2.2.2) := by
  have hv' : (σ.fetch X).2.2.1 = true := hv
  simp [executeAndReschedule, hb, hv']

/-- hand-off arm: nothing is executed or started; the job is offered on `dispatch` in a `select` with `ctx.Done()`,
and it is sent iff the send case wins -/
theorem trans_dispatch_handoff (X : Ext W SJ) (env : Env) (σ : St W SJ)
    (hv : (X.fetchAndReschedule σ.world).2.2.1 = true) (hb : env.opts.BlockingExecution = false)
    (hw : env.opts.WorkerLimit > 0) :
    executeAndReschedule X env σ =
      (if (((σ.fetch X).1.emit (Event.log "Debug" "Job is about to be executed")).select X
            [Chan.send "dispatch", Chan.recv "ctx.Done()"]).2 = 0
       then (((σ.fetch X).1.emit (Event.log "Debug" "Job is about to be executed")).select X
            [Chan.send "dispatch", Chan.recv "ctx.Done()"]).1.emit (Event.send "dispatch" (σ.fetch X).2.1)
       else (((σ.fetch X).1.emit (Event.log "Debug" "Job is about to be executed")).select X
            [Chan.send "dispatch", Chan.recv "ctx.Done()"]).1, (σ.fetch X).2.2.2) := by
  have hv' : (σ.fetch X).2.2.1 = true := hv
  simp only [executeAndReschedule, hb, hv', hw, if_true, decide_true, Bool.false_eq_true, if_false]
  generalize ((σ.fetch X).1.emit (Event.log "Debug" "Job is about to be executed")).select X
            [Chan.send "dispatch", Chan.recv "ctx.Done()"] = s
  obtain ⟨s1, n⟩ := s
  cases n <;> simp

/-- THE DISPATCH SWITCH: for every environment, configuration and state, if `fetchAndReschedule` delivers a valid job
the arm of the translated switch is the model's `Code.std.arm` (first `BlockingExecution`: inline; then
`WorkerLimit > 0`: hand-off; default: spawn). -/
theorem trans_dispatch_arm (X : Ext W SJ) (env : Env) (σ : St W SJ)
    (hv : (X.fetchAndReschedule σ.world).2.2.1 = true) :
    armOf σ.out (executeAndReschedule X env σ).1.out = Pool.Code.std.arm (cfgOf env) := by
  cases hb : env.opts.BlockingExecution
  · by_cases hw : env.opts.WorkerLimit > 0
    · have hpos : 0 < env.opts.WorkerLimit.toNat := by omega
      have harm : Pool.Code.std.arm (cfgOf env) = .handoff := by
        simp [Pool.Code.arm, Pool.Code.std, Pool.pick, Pool.Guard.holds, cfgOf, hb, hpos]
      rw [harm, trans_dispatch_handoff X env σ hv hb hw]
      by_cases hc : (((σ.fetch X).1.emit (Event.log "Debug" "Job is about to be executed")).select X
            [Chan.send "dispatch", Chan.recv "ctx.Done()"]).2 = 0
      · simp only [hc, if_true]
        simp [St.fetch, St.emit, St.select, armOf, armOfEvent, hv]
      · simp only [hc, if_false]
        simp [St.fetch, St.emit, St.select, armOf, armOfEvent, hv]
    · have hpos : ¬ 0 < env.opts.WorkerLimit.toNat := by omega
      simp [executeAndReschedule, St.fetch, St.emit, hv, hb, hw, armOf, armOfEvent, Pool.Code.arm,
        Pool.Code.std, Pool.pick, Pool.Guard.holds, cfgOf, hpos]
  · obtain ⟨evs, h⟩ := executeWithRetries_starts X env
      ((σ.fetch X).1.emit (Event.log "Debug" "Job is about to be executed")) (X.JobDetail (σ.fetch X).2.1)
    rw [trans_dispatch_inline X env σ hv hb]
    show armOf σ.out (executeWithRetries X env _ _).out = _
    rw [h]
    simp [St.fetch, St.emit, armOf, armOfEvent, Pool.Code.arm, Pool.Code.std, Pool.pick, Pool.Guard.holds, cfgOf, hb]

/-- default arm: the counter is incremented and one goroutine running `executeWithRetries` for that job is started;
`executeAndReschedule` does not wait for it -/
theorem trans_dispatch_spawn (X : Ext W SJ) (env : Env) (σ : St W SJ)
    (hv : (X.fetchAndReschedule σ.world).2.2.1 = true) (hb : env.opts.BlockingExecution = false)
    (hw : ¬ env.opts.WorkerLimit > 0) :
    (executeAndReschedule X env σ).1.out = σ.out ++ [Event.fetch true, Event.log "Debug" "Job is about to be executed",
      Event.wgAdd 1, Event.go (Closure.executeAndReschedule_lit1 (X.fetchAndReschedule σ.world).2.1)] ∧
    (executeAndReschedule X env σ).1.world = (X.fetchAndReschedule σ.world).1 := by
  simp [executeAndReschedule, St.fetch, St.emit, hb, hv, hw]

/-- …and that goroutine is one `executeWithRetries` followed by `wg.Done()` -/
theorem trans_spawned_body (X : Ext W SJ) (env : Env) (σ : St W SJ) (scheduled : SJ) :
    executeAndReschedule.lit1 X env σ scheduled =
      (executeWithRetries X env σ (X.JobDetail scheduled)).emit Event.wgDone := by
  simp [executeAndReschedule.lit1, executeAndReschedule.lit1.body]

/-- no valid job: nothing is dispatched -/
theorem trans_dispatch_invalid (X : Ext W SJ) (env : Env) (σ : St W SJ)
    (hv : (X.fetchAndReschedule σ.world).2.2.1 = false) :
    (executeAndReschedule X env σ).1.out = σ.out ++ [Event.fetch false] := by
  simp [executeAndReschedule, St.fetch, hv]

/-! ### `startWorkers` -/

/-- `n` times `sched.wg.Add(1); go worker` -/
def spawnEvents : Nat → List (Event SJ)
  | 0 => []
  | n + 1 => Event.wgAdd 1 :: Event.go Closure.startWorkers_lit1 :: spawnEvents n

theorem workers_loop (X : Ext W SJ) (env : Env) : ∀ (n : Nat) (i : Int) (σ : St W SJ),
    n = (env.opts.WorkerLimit - i).toNat →
    startWorkers.loop1 X env n i σ = { σ with out := σ.out ++ spawnEvents n } := by
  intro n
  induction n with
  | zero => intro i σ _; simp [startWorkers.loop1, spawnEvents]
  | succ k ih =>
    intro i σ hn
    have hlt : i < env.opts.WorkerLimit := by omega
    rw [startWorkers.loop1]
    simp only [hlt, decide_true, if_true]
    rw [ih (i + 1) _ (by omega)]
    simp [St.emit, spawnEvents]

/-- THE WORKER GUARD AND COUNT: `startWorkers` starts exactly `Pool.Code.std.workers` goroutines (none under
`BlockingExecution` or with `WorkerLimit ≤ 0`, else `WorkerLimit`), each counted by `wg.Add(1)` before its `go`, and
touches nothing else. -/
theorem trans_startWorkers (X : Ext W SJ) (env : Env) (σ : St W SJ) :
    startWorkers X env σ = { σ with out := σ.out ++
      (if Pool.Code.std.workers (cfgOf env) = 0 then []
       else Event.log "Debug" "Starting scheduler workers" :: spawnEvents (Pool.Code.std.workers (cfgOf env))) } := by
  cases hb : env.opts.BlockingExecution
  · by_cases hw : env.opts.WorkerLimit > 0
    · have hpos : 0 < env.opts.WorkerLimit.toNat := by omega
      have hne : env.opts.WorkerLimit.toNat ≠ 0 := by omega
      simp only [startWorkers, hb, hw, Bool.not_false, decide_true, Bool.and_self, if_true]
      rw [workers_loop X env _ 0 _ (by omega)]
      simp [St.emit, Pool.Code.workers, Pool.Code.std, cfgOf, hb, hpos, hne]
    · have hpos : ¬ 0 < env.opts.WorkerLimit.toNat := by omega
      simp [startWorkers, hb, hw, Pool.Code.workers, Pool.Code.std, cfgOf, hpos]
  · simp [startWorkers, hb, Pool.Code.workers, Pool.Code.std, cfgOf]

/-- the channel the hand-off goes through is unbuffered, as in `Pool.Code.std` -/
theorem trans_dispatchCap : Generated.TransRetry.dispatchCap = Pool.Code.std.dispatchCap := by decide

/-- The sequential behaviour of one worker goroutine: a sequence of rounds, each ONE receive from `dispatch` followed by
ONE complete `executeWithRetries` for the received job (the next `select` is reached only after it returned), left only
through the `<-ctx.Done()` case, with `wg.Done()` as the last thing done. -/
inductive WorkerRun (X : Ext W SJ) (env : Env) : St W SJ → St W SJ → Prop where
  | exit (σ : St W SJ) (h : (σ.select X [Chan.recv "ctx.Done()", Chan.recv "dispatch"]).2 = 0) :
      WorkerRun X env σ ((σ.select X [Chan.recv "ctx.Done()", Chan.recv "dispatch"]).1.emit Event.wgDone)
  | round (σ σ' : St W SJ) (h : (σ.select X [Chan.recv "ctx.Done()", Chan.recv "dispatch"]).2 ≠ 0)
      (rest : WorkerRun X env
        (executeWithRetries X env ((σ.select X [Chan.recv "ctx.Done()", Chan.recv "dispatch"]).1.recv X "dispatch").1
          (X.JobDetail ((σ.select X [Chan.recv "ctx.Done()", Chan.recv "dispatch"]).1.recv X "dispatch").2)) σ') :
      WorkerRun X env σ σ'

theorem worker_loop_rounds (X : Ext W SJ) (env : Env) : ∀ (fuel : Nat) (σ : St W SJ) (r : St W SJ × Flow),
    startWorkers.lit1.loop1 X env fuel σ = some r → r.2 = Flow.ret ∧ WorkerRun X env σ (r.1.emit Event.wgDone) := by
  intro fuel
  induction fuel with
  | zero => intro σ r h; simp [startWorkers.lit1.loop1] at h
  | succ k ih =>
    intro σ r h
    rw [startWorkers.lit1.loop1] at h
    cases hs : (σ.select X [Chan.recv "ctx.Done()", Chan.recv "dispatch"]).2 with
    | zero =>
      simp only [hs] at h
      cases h
      exact ⟨rfl, WorkerRun.exit σ hs⟩
    | succ n =>
      simp only [hs] at h
      obtain ⟨h1, h2⟩ := ih _ r h
      exact ⟨h1, WorkerRun.round σ _ (by rw [hs]; exact Nat.succ_ne_zero n) h2⟩

/-- every terminating run of the translated worker goroutine is a `WorkerRun` -/
theorem trans_worker_rounds (X : Ext W SJ) (env : Env) (fuel : Nat) (σ σ' : St W SJ)
    (h : startWorkers.lit1 X env fuel σ = some σ') : WorkerRun X env σ σ' := by
  simp only [startWorkers.lit1, startWorkers.lit1.body] at h
  cases hl : startWorkers.lit1.loop1 X env fuel σ with
  | none => rw [hl] at h; cases h
  | some r =>
    rw [hl] at h
    obtain ⟨hf, hr⟩ := worker_loop_rounds X env fuel σ r hl
    obtain ⟨s, f⟩ := r
    simp only at hf
    subst hf
    simp only [Option.some.injEq] at h
    subst h
    exact hr

end

/-! ## the hypotheses are satisfiable, the definitions compute (non-vacuity) -/

/-- a concrete environment: everything not scripted is trivial -/
def baseX : Ext MW Unit where
  Execute w _ := (w, .returned none)
  select w _ := (w, 0)
  ctxErr w := (w, none)
  recv w _ := (w, ())
  fetchAndReschedule w := (w, ((), true, none))
  JobDetail _ := some { opts := some { MaxRetries := 3, RetryInterval := 10 } }

def jd3 : JobDetail := { opts := some { MaxRetries := 3, RetryInterval := 10 } }

example : runRetries (scriptedOn baseX none (fun _ => 0)) ⟨{}⟩ jd3 [.err, .ok] =
    [Event.execute 0 (.returned (some {})), Event.newTimer 10,
     Event.select [Chan.recv "timer.C", Chan.recv "ctx.Done()"] 0, Event.ctxErr none, Event.log "Trace" "Job retry",
     Event.execute 0 (.returned none)] := by decide
example : absResult (runRetries (scriptedOn baseX (some 2) (fun _ => 1)) ⟨{}⟩ jd3 [.err, .err, .ok]) =
    ⟨[.attempt .err, .wait, .attempt .err, .waitCancelled], .cancelled⟩ := by decide
/-- the timer and the context ready at the same time, the select takes the timer: the re-check of `ctx.Err()` stops -/
example : absResult (runRetries (scriptedOn baseX (some 2) (fun _ => 0)) ⟨{}⟩ jd3 [.err, .err, .ok]) =
    ⟨[.attempt .err, .wait, .attempt .err, .waitCancelled], .cancelled⟩ := by decide
example : absResult (runRetries (scriptedOn baseX none (fun _ => 0)) ⟨{}⟩ jd3 [.err, .panic, .ok]) =
    ⟨[.attempt .err, .wait, .attempt .panic], .recovered⟩ := by decide
example := trans_runRetries (scriptedOn baseX (some 2) (fun _ => 1)) (some 2) (fun _ => 1)
  (scriptedOn_scripted _ _ _) ⟨{}⟩ jd3 _ rfl [.err, .err, .ok]
example := C13_attempts_trans (scriptedOn baseX none (fun _ => 0)) (fun _ => 0) (scriptedOn_scripted _ _ _) ⟨{}⟩ jd3 _ rfl
  [.err, .err, .ok, .err] (by decide)
example := C13_cancel_stops_trans (scriptedOn baseX (some 2) (fun _ => 1)) (fun _ => 1) 2 (scriptedOn_scripted _ _ _)
  ⟨{}⟩ jd3 _ rfl [.err, .err, .err, .ok] (by decide) (by decide) (fun j hj => match j, hj with | 0, _ => rfl | 1, _ => rfl)
example := C13_panic_ends_sequence_trans (scriptedOn baseX none (fun _ => 0)) none (fun _ => 0)
  (scriptedOn_scripted _ _ _) ⟨{}⟩ jd3 _ rfl [.err, .panic, .ok] 1 (by decide)
example : armOf [] (executeAndReschedule baseX ⟨{ BlockingExecution := true, WorkerLimit := 2 }⟩ ⟨⟨[], 0⟩, []⟩).1.out
    = .inline := by decide
example : armOf [] (executeAndReschedule baseX ⟨{ WorkerLimit := 2 }⟩ ⟨⟨[], 0⟩, []⟩).1.out = .handoff := by decide
example : armOf [] (executeAndReschedule baseX ⟨{}⟩ ⟨⟨[], 0⟩, []⟩).1.out = .spawn := by decide
example : (startWorkers baseX ⟨{ WorkerLimit := 2 }⟩ ⟨⟨[], 0⟩, []⟩).out =
    [Event.log "Debug" "Starting scheduler workers", Event.wgAdd 1, Event.go Closure.startWorkers_lit1,
     Event.wgAdd 1, Event.go Closure.startWorkers_lit1] := by decide
example : (startWorkers baseX ⟨{ BlockingExecution := true, WorkerLimit := 2 }⟩ ⟨⟨[], 0⟩, []⟩).out = [] := by decide
example : (startWorkers.lit1 baseX ⟨{}⟩ 5 ⟨⟨[], 0⟩, []⟩).map (·.out) =
    some [Event.select [Chan.recv "ctx.Done()", Chan.recv "dispatch"] 0, Event.wgDone] := by decide

end TransRetry
