import QuartzModel.Queue.Heap
import QuartzModel.Queue.JobQueue
import QuartzModel.Proofs.HeapLemmas
/-!
# C11 — the default `JobQueue` is a key-addressed map ordered by next run time

Model: `QuartzModel/Queue/Heap.lean` (Go `container/heap`), `QuartzModel/Queue/JobQueue.lean`
(`quartz/queue.go`, `matcher/*.go`).  Core Lean only.
-/
namespace Queue

/-! ## definitions -/

def IsHeap (a : Arr) : Prop := ∀ k, 0 < k → k < a.size → prioAt a ((k - 1) / 2) ≤ prioAt a k

def KeysDistinct (a : Arr) : Prop :=
  ∀ i j, i < a.size → j < a.size → (a.getD i default).sameKey (a.getD j default) = true → i = j

def Inv (a : Arr) : Prop := IsHeap a ∧ KeysDistinct a

def hasKey (a : Arr) (g n : String) : Prop := ∃ e ∈ a.toList, e.group = g ∧ e.name = n

inductive Op where
  | push (e : Entry) | pop | remove (g n : String) | clear

def step (a : Arr) : Op → Arr
  | .push e => match qpush a e with | .ok a' => a' | .error _ => a
  | .pop => match qpop a with | .ok (a', _) => a' | .error _ => a
  | .remove g n => match qremove a g n with | .ok (a', _) => a' | .error _ => a
  | .clear => #[]

/-! ## heap layer -/

theorem isHeap_iff (a : Arr) : IsHeap a ↔ IsHeapN a a.size := Iff.rfl

theorem hpush_perm (a : Arr) (e : Entry) : (hpush a e).toList.Perm (e :: a.toList) :=
  hpush_perm' a e

theorem hpush_heap (a : Arr) (e : Entry) (h : IsHeap a) : IsHeap (hpush a e) :=
  hpush_heapN a e h

theorem heap_root_min (a : Arr) (h : IsHeap a) (e : Entry) (h0 : a[0]? = some e) :
    ∀ x ∈ a.toList, e.prio ≤ x.prio :=
  heapN_root_min a h e h0

theorem hpop_spec (a : Arr) (h : IsHeap a) (hne : a.size ≠ 0) :
    ∃ a' e, hpop a = (a', some e) ∧ a.toList.Perm (e :: a'.toList) ∧ IsHeap a' ∧ a[0]? = some e ∧
      ∀ x ∈ a.toList, e.prio ≤ x.prio := by
  obtain ⟨a', e, h1, h2, h3, h4⟩ := hpop_core a h hne
  exact ⟨a', e, h1, h2, h3, h4, heap_root_min a h e h4⟩

theorem hpop_empty (a : Arr) (h : a.size = 0) : hpop a = (a, none) := hpop_empty' a h

theorem hremove_spec (a : Arr) (i : Nat) (h : IsHeap a) (hi : i < a.size) :
    ∃ a' e, hremove a i = (a', some e) ∧ a[i]? = some e ∧ a.toList.Perm (e :: a'.toList) ∧
      IsHeap a' :=
  hremove_core a i h hi

/-! ## keys -/

theorem sameKey_iff (x y : Entry) : x.sameKey y = true ↔ x.name = y.name ∧ x.group = y.group := by
  simp [Entry.sameKey]

/-- "different job keys" as a relation on entries -/
def KeyNe (x y : Entry) : Prop := ¬ (x.name = y.name ∧ x.group = y.group)

theorem KeyNe.symm {x y : Entry} (h : KeyNe x y) : KeyNe y x :=
  fun ⟨h1, h2⟩ => h ⟨h1.symm, h2.symm⟩

theorem getD_eq_getElem (a : Arr) (i : Nat) (hi : i < a.size) : a.getD i default = a[i] := by
  simp [Array.getD_eq_getD_getElem?, hi]

theorem keysDistinct_iff_pairwise (a : Arr) : KeysDistinct a ↔ a.toList.Pairwise KeyNe := by
  rw [List.pairwise_iff_getElem]
  constructor
  · intro h i j hi hj hij hk
    have hi' : i < a.size := hi
    have hj' : j < a.size := hj
    have := h i j hi' hj' (by
      rw [getD_eq_getElem a i hi', getD_eq_getElem a j hj', sameKey_iff]
      exact hk)
    omega
  · intro h i j hi hj hk
    rw [getD_eq_getElem a i hi, getD_eq_getElem a j hj, sameKey_iff] at hk
    rcases Nat.lt_trichotomy i j with hlt | heq | hgt
    · exact absurd hk (h i j hi hj hlt)
    · exact heq
    · exact absurd ⟨hk.1.symm, hk.2.symm⟩ (h j i hj hi hgt)

theorem keysDistinct_perm (a b : Arr) (hp : a.toList.Perm b.toList) :
    KeysDistinct a ↔ KeysDistinct b := by
  rw [keysDistinct_iff_pairwise, keysDistinct_iff_pairwise]
  exact hp.pairwise_iff (fun h => KeyNe.symm h)

/-- two members of a key-distinct array with the same key are equal -/
theorem keysDistinct_unique (a : Arr) (h : KeysDistinct a) (x y : Entry) (hx : x ∈ a.toList)
    (hy : y ∈ a.toList) (hk : x.name = y.name ∧ x.group = y.group) : x = y := by
  obtain ⟨i, hi, hix⟩ := (mem_toList_iff_getElem? a x).mp hx
  obtain ⟨j, hj, hjy⟩ := (mem_toList_iff_getElem? a y).mp hy
  have hxi : a.getD i default = x := by rw [Array.getD_eq_getD_getElem?, hix]; rfl
  have hyj : a.getD j default = y := by rw [Array.getD_eq_getD_getElem?, hjy]; rfl
  have := h i j hi hj (by rw [hxi, hyj, sameKey_iff]; exact hk)
  subst this
  rw [hix] at hjy
  exact Option.some.inj hjy

/-! ## `findIdx` -/

theorem findIdx_some (a : Arr) (g n : String) (i : Nat) (h : findIdx a g n = some i) :
    ∃ hi : i < a.size, a[i].name = n ∧ a[i].group = g := by
  unfold findIdx at h
  rw [Array.findIdx?_eq_some_iff_getElem] at h
  obtain ⟨hi, hp, _⟩ := h
  refine ⟨hi, ?_⟩
  simpa using hp

theorem findIdx_none_iff (a : Arr) (g n : String) : findIdx a g n = none ↔ ¬ hasKey a g n := by
  unfold findIdx hasKey
  rw [Array.findIdx?_eq_none_iff]
  constructor
  · rintro h ⟨e, he, hg, hn⟩
    have := h e (Array.mem_toList_iff.mp he)
    simp [hg, hn] at this
  · intro h x hx
    apply Bool.eq_false_iff.mpr
    intro hp
    apply h
    refine ⟨x, Array.mem_toList_iff.mpr hx, ?_⟩
    simp only [Bool.and_eq_true, beq_iff_eq] at hp
    exact ⟨hp.2, hp.1⟩

theorem findIdx_of_hasKey (a : Arr) (g n : String) (h : hasKey a g n) :
    ∃ i, findIdx a g n = some i := by
  cases hf : findIdx a g n with
  | some i => exact ⟨i, rfl⟩
  | none => exact absurd h ((findIdx_none_iff a g n).mp hf)

theorem hasKey_of_findIdx (a : Arr) (g n : String) (i : Nat) (h : findIdx a g n = some i) :
    hasKey a g n := by
  obtain ⟨hi, hn, hg⟩ := findIdx_some a g n i h
  exact ⟨a[i], Array.getElem_mem_toList hi, hg, hn⟩

/-! ## invariant preservation -/

theorem inv_empty : Inv #[] := by
  constructor
  · intro k _ hk; simp at hk
  · intro i j hi; simp at hi

theorem keysDistinct_cons (a b : Arr) (e : Entry) (hb : KeysDistinct b)
    (hp : a.toList.Perm (e :: b.toList)) (hne : ∀ x ∈ b.toList, KeyNe e x) : KeysDistinct a := by
  rw [keysDistinct_iff_pairwise] at hb ⊢
  exact (hp.pairwise_iff (fun h => KeyNe.symm h)).mpr (List.pairwise_cons.mpr ⟨hne, hb⟩)

theorem keysDistinct_of_cons (a b : Arr) (e : Entry) (ha : KeysDistinct a)
    (hp : a.toList.Perm (e :: b.toList)) : KeysDistinct b ∧ ∀ x ∈ b.toList, KeyNe e x := by
  rw [keysDistinct_iff_pairwise] at ha ⊢
  have := List.pairwise_cons.mp ((hp.pairwise_iff (fun h => KeyNe.symm h)).mp ha)
  exact ⟨this.2, this.1⟩

theorem qpush_inv (a a' : Arr) (e : Entry) (h : Inv a) (hq : qpush a e = .ok a') : Inv a' := by
  unfold qpush at hq
  split at hq
  · rename_i i hf
    split at hq
    · injection hq with hq
      subst hq
      obtain ⟨hi, hn, hg⟩ := findIdx_some a _ _ i hf
      obtain ⟨a1, old, hre, hold, hperm, hheap⟩ := hremove_spec a i h.1 hi
      rw [hre]
      refine ⟨hpush_heap _ _ hheap, ?_⟩
      obtain ⟨hkd, hne⟩ := keysDistinct_of_cons a a1 old h.2 hperm
      apply keysDistinct_cons _ a1 e hkd (hpush_perm _ _)
      intro x hx hk
      have hoe : old = a[i] := by
        rw [Array.getElem?_eq_getElem hi] at hold
        exact (Option.some.inj hold).symm
      apply hne x hx
      rw [hoe, hn, hg]
      exact hk
    · cases hq
  · rename_i hf
    injection hq with hq
    subst hq
    refine ⟨hpush_heap _ _ h.1, ?_⟩
    apply keysDistinct_cons _ a e h.2 (hpush_perm _ _)
    intro x hx hk
    exact (findIdx_none_iff a _ _).mp hf ⟨x, hx, hk.2.symm, hk.1.symm⟩

theorem qpop_inv (a a' : Arr) (e : Entry) (h : Inv a) (hq : qpop a = .ok (a', e)) : Inv a' := by
  by_cases hne : a.size = 0
  · unfold qpop at hq
    rw [hpop_empty a hne] at hq
    cases hq
  · obtain ⟨a1, e1, hp, hperm, hheap, _, _⟩ := hpop_spec a h.1 hne
    unfold qpop at hq
    rw [hp] at hq
    injection hq with hq
    injection hq with h1 h2
    subst h1
    exact ⟨hheap, (keysDistinct_of_cons a a1 e1 h.2 hperm).1⟩

theorem qremove_inv (a a' : Arr) (g n : String) (e : Entry) (h : Inv a)
    (hq : qremove a g n = .ok (a', e)) : Inv a' := by
  unfold qremove at hq
  split at hq
  · rename_i i hf
    obtain ⟨hi, _, _⟩ := findIdx_some a _ _ i hf
    obtain ⟨a1, old, hre, _, hperm, hheap⟩ := hremove_spec a i h.1 hi
    rw [hre] at hq
    injection hq with hq
    injection hq with h1 h2
    subst h1
    exact ⟨hheap, (keysDistinct_of_cons a a1 old h.2 hperm).1⟩
  · cases hq

theorem C11_inv_step (a : Arr) (op : Op) (h : Inv a) : Inv (step a op) := by
  cases op with
  | push e =>
    show Inv (match qpush a e with | .ok a' => a' | .error _ => a)
    split
    · rename_i a' hq; exact qpush_inv a a' e h hq
    · exact h
  | pop =>
    show Inv (match qpop a with | .ok (a', _) => a' | .error _ => a)
    split
    · rename_i a' e hq; exact qpop_inv a a' e h hq
    · exact h
  | remove g n =>
    show Inv (match qremove a g n with | .ok (a', _) => a' | .error _ => a)
    split
    · rename_i a' e hq; exact qremove_inv a a' g n e h hq
    · exact h
  | clear => exact inv_empty

theorem inv_foldl (ops : List Op) (a : Arr) (h : Inv a) : Inv (ops.foldl step a) := by
  induction ops generalizing a with
  | nil => exact h
  | cons op ops ih => exact ih _ (C11_inv_step a op h)

theorem C11_inv_reachable (ops : List Op) : Inv (ops.foldl step #[]) :=
  inv_foldl ops #[] inv_empty

/-! ## Push -/

theorem C11_push_new (a : Arr) (e : Entry) (_h : Inv a) (hk : ¬ hasKey a e.group e.name) :
    ∃ a', qpush a e = .ok a' ∧ a'.toList.Perm (e :: a.toList) := by
  refine ⟨hpush a e, ?_, hpush_perm a e⟩
  unfold qpush
  rw [(findIdx_none_iff a _ _).mpr hk]

theorem C11_push_duplicate (a : Arr) (e : Entry) (hk : hasKey a e.group e.name)
    (hr : e.replace = false) : qpush a e = .error .jobAlreadyExists := by
  obtain ⟨i, hf⟩ := findIdx_of_hasKey a _ _ hk
  unfold qpush
  rw [hf]
  simp [hr]

theorem C11_push_replace (a : Arr) (e old : Entry) (h : Inv a) (ho : old ∈ a.toList)
    (hk : old.group = e.group ∧ old.name = e.name) (hr : e.replace = true) :
    ∃ a', qpush a e = .ok a' ∧ a'.toList.Perm (e :: a.toList.erase old) := by
  obtain ⟨i, hf⟩ := findIdx_of_hasKey a _ _ ⟨old, ho, hk⟩
  obtain ⟨hi, hn, hg⟩ := findIdx_some a _ _ i hf
  obtain ⟨a1, x, hre, hx, hperm, _⟩ := hremove_spec a i h.1 hi
  have hxi : x = a[i] := by
    rw [Array.getElem?_eq_getElem hi] at hx
    exact (Option.some.inj hx).symm
  have hxo : x = old := by
    apply keysDistinct_unique a h.2 x old _ ho
    · rw [hxi, hn, hg]; exact ⟨hk.2.symm, hk.1.symm⟩
    · rw [hxi]; exact Array.getElem_mem_toList hi
  subst hxo
  refine ⟨hpush a1 e, ?_, ?_⟩
  · unfold qpush
    rw [hf]
    simp [hr, hre]
  · refine (hpush_perm a1 e).trans (List.Perm.cons e ?_)
    have := hperm.erase x
    rw [List.erase_cons_head] at this
    exact this.symm

/-! ## Pop / Head / empty -/

theorem C11_pop_min (a : Arr) (h : Inv a) (hne : a.size ≠ 0) :
    ∃ a' e, qpop a = .ok (a', e) ∧ a.toList.Perm (e :: a'.toList) ∧
      ∀ x ∈ a.toList, e.prio ≤ x.prio := by
  obtain ⟨a', e, hp, hperm, _, _, hmin⟩ := hpop_spec a h.1 hne
  refine ⟨a', e, ?_, hperm, hmin⟩
  unfold qpop
  rw [hp]

theorem C11_head_min (a : Arr) (h : Inv a) (hne : a.size ≠ 0) :
    ∃ e, qhead a = .ok e ∧ e ∈ a.toList ∧ ∀ x ∈ a.toList, e.prio ≤ x.prio := by
  have h0 : 0 < a.size := by omega
  have he : a[0]? = some a[0] := Array.getElem?_eq_getElem h0
  refine ⟨a[0], ?_, Array.getElem_mem_toList h0, heap_root_min a h.1 _ he⟩
  unfold qhead
  rw [he]

theorem C11_empty_errors (a : Arr) (h : a.size = 0) :
    qpop a = .error .queueEmpty ∧ qhead a = .error .queueEmpty := by
  constructor
  · unfold qpop
    rw [hpop_empty a h]
  · unfold qhead
    rw [Array.getElem?_eq_none (by omega)]

/-! ## Get / Remove -/

theorem C11_get (a : Arr) (h : Inv a) (g n : String) :
    (∀ e, qget a g n = .ok e ↔ (e ∈ a.toList ∧ e.group = g ∧ e.name = n)) ∧
    (qget a g n = .error .jobNotFound ↔ ¬ hasKey a g n) := by
  cases hf : findIdx a g n with
  | none =>
    have hnk := (findIdx_none_iff a g n).mp hf
    have hq : qget a g n = .error .jobNotFound := by unfold qget; rw [hf]
    constructor
    · intro e
      rw [hq]
      constructor
      · intro hh; cases hh
      · rintro ⟨he, hg, hn⟩; exact absurd ⟨e, he, hg, hn⟩ hnk
    · rw [hq]; exact ⟨fun _ => hnk, fun _ => rfl⟩
  | some i =>
    obtain ⟨hi, hn, hg⟩ := findIdx_some a g n i hf
    have hq : qget a g n = .ok a[i] := by
      unfold qget; rw [hf]; simp only; rw [Array.getElem?_eq_getElem hi]
    have hmem : a[i] ∈ a.toList := Array.getElem_mem_toList hi
    constructor
    · intro e
      rw [hq]
      constructor
      · intro hh
        injection hh with hh
        subst hh
        exact ⟨hmem, hg, hn⟩
      · rintro ⟨he, heg, hen⟩
        have : a[i] = e := keysDistinct_unique a h.2 _ _ hmem he
          ⟨by rw [hn, hen], by rw [hg, heg]⟩
        rw [this]
    · rw [hq]
      constructor
      · intro hh; cases hh
      · intro hh; exact absurd ⟨a[i], hmem, hg, hn⟩ hh

theorem C11_remove (a : Arr) (h : Inv a) (g n : String) :
    (hasKey a g n → ∃ a' e, qremove a g n = .ok (a', e) ∧ e.group = g ∧ e.name = n ∧
      a.toList.Perm (e :: a'.toList)) ∧
    (¬ hasKey a g n → qremove a g n = .error .jobNotFound) := by
  constructor
  · intro hk
    obtain ⟨i, hf⟩ := findIdx_of_hasKey a g n hk
    obtain ⟨hi, hn, hg⟩ := findIdx_some a g n i hf
    obtain ⟨a1, x, hre, hx, hperm, _⟩ := hremove_spec a i h.1 hi
    have hxi : x = a[i] := by
      rw [Array.getElem?_eq_getElem hi] at hx
      exact (Option.some.inj hx).symm
    refine ⟨a1, x, ?_, by rw [hxi, hg], by rw [hxi, hn], hperm⟩
    unfold qremove
    rw [hf]
    simp only
    rw [hre]
  · intro hk
    unfold qremove
    rw [(findIdx_none_iff a g n).mpr hk]

/-! ## ScheduledJobs -/

theorem C11_list_exact (a : Arr) (ms : List Matcher) (e : Entry) :
    e ∈ qlist a ms ↔ (e ∈ a.toList ∧ ∀ m ∈ ms, m.isMatch e = true) := by
  unfold qlist
  rw [List.mem_filter, List.all_eq_true]

theorem C11_list_all (a : Arr) : qlist a [] = a.toList := by
  unfold qlist
  simp

/-! ## string operators mean what their names say -/

theorem StrOp.startsWith_iff (s p : String) :
    StrOp.startsWith.apply s p = true ↔ ∃ t, s.toList = p.toList ++ t := by
  show p.toList.isPrefixOf s.toList = true ↔ _
  rw [List.isPrefixOf_iff_prefix]
  constructor
  · rintro ⟨t, ht⟩; exact ⟨t, ht.symm⟩
  · rintro ⟨t, ht⟩; exact ⟨t, ht.symm⟩

theorem StrOp.endsWith_iff (s p : String) :
    StrOp.endsWith.apply s p = true ↔ ∃ t, s.toList = t ++ p.toList := by
  show p.toList.reverse.isPrefixOf s.toList.reverse = true ↔ _
  rw [List.isPrefixOf_iff_prefix, List.reverse_prefix]
  constructor
  · rintro ⟨t, ht⟩; exact ⟨t, ht.symm⟩
  · rintro ⟨t, ht⟩; exact ⟨t, ht.symm⟩

theorem isInfix_iff (p s : List Char) : isInfix p s = true ↔ ∃ t u, s = t ++ p ++ u := by
  induction s with
  | nil =>
    unfold isInfix
    constructor
    · intro h
      have : p = [] := by simpa using h
      subst this
      exact ⟨[], [], rfl⟩
    · rintro ⟨t, u, h⟩
      have : p = [] := by
        have := congrArg List.length h
        simp at this
        exact List.eq_nil_of_length_eq_zero (by omega)
      simp [this]
  | cons c cs ih =>
    unfold isInfix
    rw [Bool.or_eq_true, List.isPrefixOf_iff_prefix, ih]
    constructor
    · rintro (⟨u, hu⟩ | ⟨t, u, h⟩)
      · exact ⟨[], u, by simpa using hu.symm⟩
      · exact ⟨c :: t, u, by simp [h]⟩
    · rintro ⟨t, u, h⟩
      cases t with
      | nil => left; exact ⟨u, by simpa using h.symm⟩
      | cons c' t' =>
        right
        simp only [List.cons_append] at h
        injection h with _ h2
        exact ⟨t', u, h2⟩

theorem StrOp.contains_iff (s p : String) :
    StrOp.contains.apply s p = true ↔ ∃ t u, s.toList = t ++ p.toList ++ u := by
  show isInfix p.toList s.toList = true ↔ _
  exact isInfix_iff _ _

theorem StrOp.equals_iff (s p : String) : StrOp.equals.apply s p = true ↔ s = p := by
  show (s == p) = true ↔ _
  exact beq_iff_eq

/-! ## corollaries: the map view (Get after Push / Remove) and Size -/

/-- a successful `Push e` makes `Get e.key` return exactly `e` (new key or replaced key) -/
theorem C11_get_after_push (a a' : Arr) (e : Entry) (h : Inv a) (hq : qpush a e = .ok a') :
    qget a' e.group e.name = .ok e := by
  have hinv : Inv a' := qpush_inv a a' e h hq
  have hmem : e ∈ a'.toList := by
    unfold qpush at hq
    split at hq
    · split at hq
      · injection hq with hq
        subst hq
        exact (hpush_perm _ e).mem_iff.mpr List.mem_cons_self
      · cases hq
    · injection hq with hq
      subst hq
      exact (hpush_perm _ e).mem_iff.mpr List.mem_cons_self
  exact ((C11_get a' hinv e.group e.name).1 e).mpr ⟨hmem, rfl, rfl⟩

/-- after a successful `Remove key` the key is gone and every other entry is still there -/
theorem C11_get_after_remove (a a' : Arr) (g n : String) (e : Entry) (h : Inv a)
    (hq : qremove a g n = .ok (a', e)) :
    qget a' g n = .error .jobNotFound ∧
    ∀ x ∈ a.toList, x ≠ e → qget a' x.group x.name = .ok x := by
  have hinv : Inv a' := qremove_inv a a' g n e h hq
  obtain ⟨hk, _⟩ := C11_remove a h g n
  have hhas : hasKey a g n := by
    unfold qremove at hq
    split at hq
    · rename_i i hf; exact hasKey_of_findIdx a g n i hf
    · cases hq
  obtain ⟨a1, e1, hq1, hg, hn, hperm⟩ := hk hhas
  rw [hq] at hq1
  injection hq1 with hq1
  injection hq1 with h1 h2
  subst h1; subst h2
  obtain ⟨_, hne⟩ := keysDistinct_of_cons a a' e h.2 hperm
  constructor
  · apply (C11_get a' hinv g n).2.mpr
    rintro ⟨x, hx, hxg, hxn⟩
    exact hne x hx ⟨by rw [hn, hxn], by rw [hg, hxg]⟩
  · intro x hx hxe
    have : x ∈ e :: a'.toList := hperm.mem_iff.mp hx
    rcases List.mem_cons.mp this with heq | hmem
    · exact absurd heq hxe
    · exact ((C11_get a' hinv x.group x.name).1 x).mpr ⟨hmem, rfl, rfl⟩

theorem C11_size_push_new (a a' : Arr) (e : Entry) (hk : ¬ hasKey a e.group e.name)
    (hq : qpush a e = .ok a') : a'.size = a.size + 1 := by
  unfold qpush at hq
  rw [(findIdx_none_iff a _ _).mpr hk] at hq
  injection hq with hq
  subst hq
  exact hpush_size a e

theorem C11_size_pop (a a' : Arr) (e : Entry) (h : Inv a) (hq : qpop a = .ok (a', e)) :
    a'.size + 1 = a.size := by
  by_cases hne : a.size = 0
  · rw [(C11_empty_errors a hne).1] at hq; cases hq
  · obtain ⟨a1, e1, hq1, hperm, _⟩ := C11_pop_min a h hne
    rw [hq] at hq1
    injection hq1 with hq1
    injection hq1 with h1 h2
    subst h1
    have := hperm.length_eq
    simpa using this.symm

/-! ## non-vacuity: a concrete five-entry queue -/

def ex5 : Arr := #[
  { group := "g1", name := "a", prio := 10, tag := 1 },
  { group := "g1", name := "b", prio := 20, tag := 2 },
  { group := "g2", name := "a", prio := 15, suspended := true, tag := 3 },
  { group := "g2", name := "c", prio := 30, tag := 4 },
  { group := "g1", name := "d", prio := 25, tag := 5 }]

/-- Bool checker for `IsHeap` (decidable on literals) -/
def isHeapB (a : Arr) : Bool :=
  (List.range a.size).all (fun k => k == 0 || decide (prioAt a ((k - 1) / 2) ≤ prioAt a k))

/-- Bool checker for `KeysDistinct` -/
def keysDistinctB (a : Arr) : Bool :=
  (List.range a.size).all (fun i => (List.range a.size).all (fun j =>
    !((a.getD i default).sameKey (a.getD j default)) || i == j))

theorem isHeapB_sound (a : Arr) (h : isHeapB a = true) : IsHeap a := by
  intro k hk hks
  unfold isHeapB at h
  rw [List.all_eq_true] at h
  have := h k (List.mem_range.mpr hks)
  simp only [Bool.or_eq_true, beq_iff_eq, decide_eq_true_eq] at this
  rcases this with h0 | h1
  · omega
  · exact h1

theorem keysDistinctB_sound (a : Arr) (h : keysDistinctB a = true) : KeysDistinct a := by
  intro i j hi hj hk
  unfold keysDistinctB at h
  rw [List.all_eq_true] at h
  have := h i (List.mem_range.mpr hi)
  rw [List.all_eq_true] at this
  have := this j (List.mem_range.mpr hj)
  simp only [Bool.or_eq_true, Bool.not_eq_true', beq_iff_eq] at this
  rcases this with h0 | h1
  · rw [hk] at h0; cases h0
  · exact h1

theorem ex5_inv : Inv ex5 :=
  ⟨isHeapB_sound ex5 (by decide), keysDistinctB_sound ex5 (by decide)⟩

/-- the checkers are not trivially true: a non-heap and a duplicate key are rejected -/
example : isHeapB (ex5.swap 0 1) = false := by decide
example : keysDistinctB (ex5.push { group := "g1", name := "a", prio := 99 }) = false := by decide

def exNew : Entry := { group := "g3", name := "z", prio := 5, tag := 6 }
def exDup : Entry := { group := "g2", name := "c", prio := 1, tag := 7 }
def exRep : Entry := { group := "g2", name := "c", prio := 1, replace := true, tag := 8 }
def exOld : Entry := { group := "g2", name := "c", prio := 30, tag := 4 }

-- heap layer: hypotheses of `hpush_heap`, `hpop_spec`, `hremove_spec`, `heap_root_min`, `hpop_empty`
example : IsHeap ex5 ∧ ex5.size ≠ 0 ∧ 3 < ex5.size ∧ ex5[0]? = some ex5[0] :=
  ⟨ex5_inv.1, by decide, by decide, rfl⟩
example : (#[] : Arr).size = 0 := rfl
-- `C11_inv_step`, `C11_pop_min`, `C11_head_min`, `C11_get`, `C11_remove`
example : Inv ex5 ∧ ex5.size ≠ 0 := ⟨ex5_inv, by decide⟩
example : ∃ e, qhead ex5 = .ok e ∧ e.prio = 10 := ⟨_, rfl, rfl⟩
-- `C11_inv_reachable`: a non-trivial op sequence
example : Inv ([Op.push exNew, .push exDup, .push exRep, .pop, .remove "g3" "z"].foldl step #[]) :=
  C11_inv_reachable _
-- `C11_push_new`
example : Inv ex5 ∧ ¬ hasKey ex5 exNew.group exNew.name :=
  ⟨ex5_inv, by unfold hasKey; decide⟩
-- `C11_push_duplicate`
example : hasKey ex5 exDup.group exDup.name ∧ exDup.replace = false :=
  ⟨⟨exOld, by decide, rfl, rfl⟩, rfl⟩
-- `C11_push_replace`
example : Inv ex5 ∧ exOld ∈ ex5.toList ∧ (exOld.group = exRep.group ∧ exOld.name = exRep.name) ∧
    exRep.replace = true := ⟨ex5_inv, by decide, ⟨rfl, rfl⟩, rfl⟩
-- `C11_remove`: both branches are inhabited
example : hasKey ex5 "g2" "c" ∧ ¬ hasKey ex5 "g2" "zz" :=
  ⟨⟨exOld, by decide, rfl, rfl⟩, by unfold hasKey; decide⟩
-- `C11_list_exact` / `C11_list_all`: a matcher list that keeps some entries and drops others
example : qlist ex5 [.group .startsWith "g", .status false, .name .contains ""] =
    [ex5[0], ex5[1], ex5[3], ex5[4]] := by decide
example : qlist ex5 [.name .equals "a", .group .endsWith "2"] = [ex5[2]] := by decide
-- string operators: positive and negative instances
example : StrOp.startsWith.apply "hello" "he" = true ∧ StrOp.startsWith.apply "hello" "el" = false := by
  decide
example : StrOp.endsWith.apply "hello" "llo" = true ∧ StrOp.endsWith.apply "hello" "ell" = false := by
  decide
example : StrOp.contains.apply "hello" "ell" = true ∧ StrOp.contains.apply "hello" "lel" = false := by
  decide
example : StrOp.equals.apply "hello" "hello" = true ∧ StrOp.equals.apply "hello" "hell" = false := by
  decide

end Queue
