import QuartzModel.Proofs.TransParseLemmas
import QuartzModel.Theorems.C07
/-!
# The hand-written model of the cron PARSER is the translated Go code

`Generated.TransParse` (regenerated from `quartz/cron.go`, `quartz/util.go`, `quartz/error.go` by `harness/cmd/gotolean-parse`
on every run) contains the translation of the text level of the parser: `ValidateCronExpression`, `NewCronTrigger(WithLoc)`,
`parseCronExpression`, `trimCronExpression`, `buildCronField`, `parseField`, `parseListField`, `parseRangeField`,
`parseStepField`, `parseDayOfMonthField`, `parseDayOfWeekField`, `normalize`, `translateLiteral(s)`, `extract*Values`, the
glossaries, the macro table, the regexp patterns and the error constructors.  The library functions it calls are the
parameter `(X : StrExt)`; here `X := TransParse.modelExt`, the re-implementations of `Cron/Parse.lean`
(**assumption**: Go's `strings.Split/ContainsRune/ToUpper/TrimSpace/TrimSuffix`, `strconv.Atoi`, the five regexps and
`sort.Ints` compute what `Cron.splitOn`, `List.contains`, `Cron.upperChar`, `Cron.trimSpace`, `TransParse.trimSuffix`,
`Cron.atoi`, `Cron.match…`/`Cron.collapseSpace` and insertion sort compute — exercised by the C07 differential run, not proved).

Equivalences (ALL inputs; `Agrees t m f` = the translated result `t` is the model's value `m` through `f` with a nil error,
or — when the model rejects — SOME non-nil error that wraps `ErrCronParse`; fuel ≥ `parseFuel` = 3943 for everything that
reaches `fillRangeValues`/`fillStepValues`):
`trans_translateLiteral`, `trans_normalize`, `trans_translateLiterals`, `trans_extractStepValues`, `trans_extractRangeValues`,
`trans_parseRangeField`, `trans_parseStepField`, `trans_parseListField`, `trans_parseField`, `trans_parseDayOfMonthField`,
`trans_parseDayOfWeekField`, `trans_buildCronField`, `trans_parseCronExpression`, `trans_trimCronExpression`,
`trans_ValidateCronExpression`, `trans_NewCronTriggerWithLoc`, `trans_NewCronTrigger` (proved in `Proofs/TransParseLemmas.lean`,
restated here), `trans_parse_data` (glossaries, macro table, patterns).

Transfers of C07 to the translated code: `parse_wellFormed_trans`, `C07_rejects_field_count_trans`,
`C07_rejects_both_days_trans`, `C07_macros_trans`, `C07_missing_year_trans`, `trans_errors_wrap_ErrCronParse`.

Composition with `TransCron.trans_nextFireTime`: `trans_newTrigger_nextFire` (and the one-equation form
`trans_newTrigger_nextFire_eq`): the translated `NewCronTrigger e` followed by the translated `NextFireTime` is
`Cron.newTrigger e` followed by `Cron.nextFire`.
-/
namespace TransParse
open Generated Generated.TransParse TransRepr

/-- every listed function was translated and every idiom was found in the source -/
theorem trans_parse_nothing_missing : Generated.TransParse.missing = [] := by decide

/-- the data read from the source is the model's: glossaries, macro table, and each regexp pattern is one the model
interprets (an edited pattern text matches nothing in `modelExt`, which breaks these equations) -/
theorem trans_parse_data :
    months = Cron.monthNames ∧ days = Cron.dayNames ∧ special = Cron.specialTable ∧
    (∀ s, modelExt.reMatch cronLastMonthDayRegex s = Cron.matchLastMonthDay s) ∧
    (∀ s, modelExt.reMatch cronWeekdayRegex s = Cron.matchWeekday s) ∧
    (∀ s, modelExt.reMatch cronLastWeekdayRegex s = Cron.matchLastWeekday s) ∧
    (∀ s, modelExt.reMatch cronHashRegex s = Cron.matchHash s) ∧
    (∀ s, modelExt.reReplaceAll whitespacePattern s [' '] = Cron.collapseSpace s) ∧
    errorCtors.lookup "newCronParseError" = some "ErrCronParse" ∧
    errorCtors.lookup "newInvalidCronFieldError" = some "ErrCronParse" :=
  ⟨months_eq, days_eq, special_eq, re_lastMonthDay, re_weekday, re_lastWeekday, re_hash, re_whitespace, by decide, by decide⟩

/-! ## the headline equivalences, in accept/reject form -/

/-- `ValidateCronExpression` returns nil exactly when the model's `parse` accepts … -/
theorem trans_validate_accepts (s : Str) (fuel : Nat) (hf : parseFuel ≤ fuel) :
    ValidateCronExpression modelExt s fuel = some none ↔ (Cron.parse {} s).isSome = true := by
  have h := trans_ValidateCronExpression s fuel hf
  cases hm : Cron.parse {} s with
  | none =>
    rw [hm] at h
    obtain ⟨e, he, _⟩ := h
    simp [he]
  | some f => rw [hm] at h; simp [h]

/-- … and otherwise an error that wraps `ErrCronParse` (never out of fuel, never another error) -/
theorem trans_validate_rejects (s : Str) (fuel : Nat) (hf : parseFuel ≤ fuel) (h : Cron.parse {} s = none) :
    ∃ e, ValidateCronExpression modelExt s fuel = some (some e) ∧ wraps e "ErrCronParse" = true := by
  have := trans_ValidateCronExpression s fuel hf
  rw [h] at this
  exact this

/-- every error of the translated `ValidateCronExpression` / `NewCronTrigger` wraps `ErrCronParse` -/
theorem trans_errors_wrap_ErrCronParse (s : Str) (fuel : Nat) (hf : parseFuel ≤ fuel) :
    (∀ e, ValidateCronExpression modelExt s fuel = some (some e) → wraps e "ErrCronParse" = true) ∧
    (∀ ct e, NewCronTrigger modelExt s fuel = some (ct, some e) → wraps e "ErrCronParse" = true) := by
  constructor
  · intro e he
    have h := trans_ValidateCronExpression s fuel hf
    cases hm : Cron.parse {} s with
    | none =>
      rw [hm] at h
      obtain ⟨e', he', hw⟩ := h
      rw [he'] at he
      injection he with he; injection he with he; subst he; exact hw
    | some f => rw [hm] at h; rw [h] at he; cases he
  · intro ct e he
    have h := trans_NewCronTrigger s fuel hf
    cases hm : Cron.parse {} s with
    | none =>
      rw [hm] at h
      obtain ⟨a, e', he', hw⟩ := h.err
      rw [he'] at he
      injection he with he; injection he with _ he; injection he with he; subst he; exact hw
    | some f => rw [hm] at h; rw [h.ok] at he; cases he

/-- the translated `NewCronTrigger`, on acceptance: the trimmed expression, the model's fields (after the full-wildcard
adjustment) and `lastDefined` -/
theorem trans_newCronTrigger_accepts (s : Str) (fuel : Nat) (hf : parseFuel ≤ fuel) (f : Cron.Fields)
    (h : Cron.newTrigger {} s = some f) :
    ∃ ld, NewCronTrigger modelExt s fuel = some (TransCron.mkTrigger (String.ofList (Cron.trimExpr s)) f ld, none) := by
  have ht := trans_NewCronTrigger s fuel hf
  unfold Cron.newTrigger at h
  cases hm : Cron.parse {} s with
  | none => rw [hm] at h; cases h
  | some g =>
    rw [hm] at h ht
    injection h with h; subst h
    exact ⟨_, ht.ok⟩

/-! ## transfers of C07 -/

/-- `parse_wellFormed` / `newTrigger_wellFormed` for the translated code: whatever `NewCronTrigger` accepts has well-formed fields -/
theorem parse_wellFormed_trans (s : Str) (fuel : Nat) (hf : parseFuel ≤ fuel) (ct : TransCron.CronTrigger)
    (h : NewCronTrigger modelExt s fuel = some (ct, none)) :
    ∃ f : Cron.Fields, ct.fields = mkFields f ∧ Cron.WellFormed f = true ∧ Cron.newTrigger {} s = some f := by
  have ht := trans_NewCronTrigger s fuel hf
  cases hm : Cron.parse {} s with
  | none =>
    rw [hm] at ht
    obtain ⟨a, e, he, _⟩ := ht.err
    rw [he] at h; cases h
  | some g =>
    rw [hm] at ht
    rw [ht.ok] at h
    injection h with h; injection h with h _; subst h
    have hn : Cron.newTrigger {} s = some (Cron.finish g) := by simp [Cron.newTrigger, hm]
    exact ⟨Cron.finish g, rfl, Cron.newTrigger_wellFormed s _ hn, hn⟩

/-- the hypotheses of the rejection theorems, about the TRANSLATED tokenisation -/
theorem lookup_of_mapLookup {e : Str} (h : (mapLookup special e).2 = false) : Cron.specialTable.lookup e = none := by
  rw [special_eq] at h
  unfold mapLookup at h
  cases hl : List.lookup e Cron.specialTable with
  | none => rfl
  | some v => rw [hl] at h; cases h

/-- wrong field count is rejected (after whitespace normalisation; macros aside) — for the translated code -/
theorem C07_rejects_field_count_trans (s : Str) (fuel : Nat) (hf : parseFuel ≤ fuel)
    (hm : (mapLookup special (trimCronExpression modelExt s)).2 = false)
    (h : (modelExt.split (trimCronExpression modelExt s) [' ']).length < 6 ∨
         (modelExt.split (trimCronExpression modelExt s) [' ']).length > 7) :
    ∃ e, ValidateCronExpression modelExt s fuel = some (some e) ∧ wraps e "ErrCronParse" = true := by
  rw [trans_trimCronExpression] at hm h
  exact trans_validate_rejects s fuel hf (Cron.C07_rejects_field_count s (lookup_of_mapLookup hm) h)

/-- both day fields set is rejected — for the translated code -/
theorem C07_rejects_both_days_trans (s : Str) (fuel : Nat) (hf : parseFuel ≤ fuel)
    (hm : (mapLookup special (trimCronExpression modelExt s)).2 = false)
    (h3 : strIdx (modelExt.split (trimCronExpression modelExt s) [' ']) 3 ≠ ['?'] ∧
          strIdx (modelExt.split (trimCronExpression modelExt s) [' ']) 3 ≠ ['*'])
    (h5 : strIdx (modelExt.split (trimCronExpression modelExt s) [' ']) 5 ≠ ['?'] ∧
          strIdx (modelExt.split (trimCronExpression modelExt s) [' ']) 5 ≠ ['*']) :
    ∃ e, ValidateCronExpression modelExt s fuel = some (some e) ∧ wraps e "ErrCronParse" = true := by
  rw [trans_trimCronExpression] at hm h3 h5
  refine trans_validate_rejects s fuel hf (Cron.C07_rejects_both_days s (lookup_of_mapLookup hm) ⟨?_, ?_⟩)
  · have : strIdx (Cron.splitOn ' ' (Cron.trimExpr s)) 3 = (Cron.splitOn ' ' (Cron.trimExpr s)).getD 3 [] := rfl
    rw [← this]; simp only [Cron.anyDay, Bool.or_eq_false_iff, decide_eq_false_iff_not]; exact ⟨h3.1, h3.2⟩
  · have : strIdx (Cron.splitOn ' ' (Cron.trimExpr s)) 5 = (Cron.splitOn ' ' (Cron.trimExpr s)).getD 5 [] := rfl
    rw [← this]; simp only [Cron.anyDay, Bool.or_eq_false_iff, decide_eq_false_iff_not]; exact ⟨h5.1, h5.2⟩

/-- macros equal their expansions — for the translated code: same fields, same `lastDefined`, both accepted -/
theorem C07_macros_trans (fuel : Nat) (hf : parseFuel ≤ fuel) : ∀ p ∈ special,
    ∃ ct ct' : TransCron.CronTrigger,
      NewCronTrigger modelExt p.1 fuel = some (ct, none) ∧ NewCronTrigger modelExt p.2 fuel = some (ct', none) ∧
      ct.fields = ct'.fields ∧ ct.lastDefined = ct'.lastDefined := by
  intro p hp
  rw [special_eq] at hp
  have hpar := Cron.C07_macros p hp
  have hsome : ∀ q ∈ Cron.specialTable, (Cron.parse {} q.2).isSome = true := by decide
  have h2 := trans_NewCronTrigger p.2 fuel hf
  have h1 := trans_NewCronTrigger p.1 fuel hf
  cases hm : Cron.parse {} p.2 with
  | none => have := hsome p hp; rw [hm] at this; cases this
  | some g =>
    rw [hpar, hm] at h1
    rw [hm] at h2
    exact ⟨_, _, h1.ok, h2.ok, rfl, rfl⟩

/-- a missing year means every year — for the translated code: the six-field expression and the same text with ` *`
appended are parsed to the same model value -/
theorem C07_missing_year_trans (s : Str) (fuel : Nat) (hf : parseFuel ≤ fuel)
    (hm : (mapLookup special (trimCronExpression modelExt s)).2 = false)
    (h6 : (modelExt.split (trimCronExpression modelExt s) [' ']).length = 6) :
    ∃ m : Option Cron.Fields,
      Agrees (parseCronExpression modelExt (trimCronExpression modelExt s) fuel) m mkFields ∧
      Agrees (parseCronExpression modelExt (trimCronExpression modelExt s ++ [' ', '*']) fuel) m mkFields := by
  rw [trans_trimCronExpression] at hm h6 ⊢
  refine ⟨Cron.parse {} s, trans_parseCronExpression _ fuel hf, ?_⟩
  rw [Cron.C07_missing_year s (lookup_of_mapLookup hm) h6]
  exact trans_parseCronExpression _ fuel hf

/-! ## end to end: `NewCronTrigger` then `NextFireTime` -/

section compose
open Generated.TransCron Cron Cal Odo TransCsm TransCron

/-- Go: `ct, err := NewCronTrigger(e); if err != nil { return 0, err }; return ct.NextFireTime(prev)` with the translated
`NewCronTrigger` (`Generated.TransParse`) and the translated `NextFireTime` (`Generated.TransCron`) in the location `L` -/
def goNewThenNext (L : LocExt) (e : List Char) (prev : Int) (fuel : Nat) : Option (Int × Option String) :=
  (NewCronTrigger modelExt e fuel).bind fun r =>
    match r.2 with
    | some err => some (0, some err)
    | none => CronTrigger.NextFireTime goTime goClock L r.1 prev fuel

/-- the same with the hand-written model: `Cron.newTrigger` then `Cron.nextFire` (`none` = the parser rejects) -/
def modelNewThenNext (z : Zone) (e : List Char) (prev : Int) : Option Outcome :=
  (Cron.newTrigger {} e).map fun f => Cron.nextFire {} f z prev

/-- **the translated `NewCronTrigger e` followed by the translated `NextFireTime` is `Cron.newTrigger e` followed by
`Cron.nextFire`**: for every expression string, every location with bounded offsets, every int64 `prev` and every fuel
above `csmFuel`.  On rejection the Go error wraps `ErrCronParse`. -/
theorem trans_newTrigger_nextFire (e : List Char) (z : Zone) (hz : ∀ u, -100000 ≤ z.offsetAt u ∧ z.offsetAt u ≤ 100000)
    (prev : Int) (hmin : -9223372036854775808 ≤ prev) (hmax : prev ≤ 9223372036854775807)
    (fuel : Nat) (hfuel : csmFuel + 1 ≤ fuel) :
    match modelNewThenNext z e prev with
    | some o => goNewThenNext (locOfZone z) e prev fuel = ofOutcome o
    | none => ∃ err, goNewThenNext (locOfZone z) e prev fuel = some (0, some err) ∧ wraps err "ErrCronParse" = true := by
  have hpf : parseFuel ≤ fuel := by unfold parseFuel; rw [csmFuel_eq] at hfuel; omega
  unfold modelNewThenNext goNewThenNext
  cases hn : Cron.newTrigger {} e with
  | none =>
    have ht := trans_NewCronTrigger e fuel hpf
    have hp : Cron.parse {} e = none := by
      unfold Cron.newTrigger at hn
      cases hp : Cron.parse {} e with
      | none => rfl
      | some g => rw [hp] at hn; cases hn
    rw [hp] at ht
    obtain ⟨a, err, he, hw⟩ := ht.err
    rw [he]
    exact ⟨err, rfl, hw⟩
  | some f =>
    obtain ⟨ld, hct⟩ := trans_newCronTrigger_accepts e fuel hpf f hn
    rw [hct]
    exact trans_nextFireTime f (Cron.newTrigger_wellFormed e f hn) z hz _ rfl prev hmin hmax fuel hfuel

/-- an error value reduced to the sentinel it wraps (`"newX: …"` ↦ the entry of `errorCtors`; a bare sentinel stays) -/
def sentinelOf (e : String) : String := (errorCtors.lookup (errCtor e)).getD e

/-- the model's composite as a Go result: rejection = `(0, ErrCronParse)` -/
def ofNewNext : Option Outcome → Option (Int × Option String)
  | none => some (0, some "ErrCronParse")
  | some o => ofOutcome o

theorem sentinelOf_of_wraps {e : String} (h : wraps e "ErrCronParse" = true) : sentinelOf e = "ErrCronParse" := by
  unfold wraps at h
  unfold sentinelOf
  cases hl : errorCtors.lookup (errCtor e) with
  | none => rw [hl] at h; cases h
  | some s =>
    rw [hl] at h
    simp only [beq_iff_eq, Option.some.injEq] at h
    simp [h]

/-- the same as ONE equation, errors compared by the sentinel they wrap -/
theorem trans_newTrigger_nextFire_eq (e : List Char) (z : Zone) (hz : ∀ u, -100000 ≤ z.offsetAt u ∧ z.offsetAt u ≤ 100000)
    (prev : Int) (hmin : -9223372036854775808 ≤ prev) (hmax : prev ≤ 9223372036854775807)
    (fuel : Nat) (hfuel : csmFuel + 1 ≤ fuel) :
    (goNewThenNext (locOfZone z) e prev fuel).map (fun r => (r.1, r.2.map sentinelOf)) =
      ofNewNext (modelNewThenNext z e prev) := by
  have h := trans_newTrigger_nextFire e z hz prev hmin hmax fuel hfuel
  cases hm : modelNewThenNext z e prev with
  | none =>
    rw [hm] at h
    obtain ⟨err, he, hw⟩ := h
    rw [he]
    simp [ofNewNext, sentinelOf_of_wraps hw]
  | some o =>
    rw [hm] at h
    rw [h]
    have hs : sentinelOf "ErrTriggerExpired" = "ErrTriggerExpired" := by decide
    cases o <;> simp [ofNewNext, ofOutcome, hs]

end compose

/-! ## non-vacuity -/

/-- `0 15 10 ? * 6L` as the model parses it -/
def exLastFriday : Cron.Fields :=
  { sec := { values := [0] }, min := { values := [15] }, hour := { values := [10] }, dom := { values := [] },
    month := { values := [] }, dow := { values := [5], n := -1 }, year := { values := [] } }

/-- the hypotheses are satisfiable and the translated parser computes: a documented example through the theorem -/
example : NewCronTrigger modelExt "0 15 10 ? * 6L".toList parseFuel =
    some (TransCron.mkTrigger "0 15 10 ? * 6L" exLastFriday 5, none) := by
  have h := trans_NewCronTrigger "0 15 10 ? * 6L".toList parseFuel (Nat.le_refl _)
  have hm : Cron.parse {} "0 15 10 ? * 6L".toList = some exLastFriday := by decide
  rw [hm] at h
  rw [h.ok]
  decide

/-- a rejection of each class, through `trans_validate_rejects` -/
example : ∃ e, ValidateCronExpression modelExt "0 0 0 * *".toList parseFuel = some (some e) ∧ wraps e "ErrCronParse" = true :=
  trans_validate_rejects _ _ (Nat.le_refl _) (by decide)
example : ∃ e, ValidateCronExpression modelExt "0 0 0 1 * 2".toList parseFuel = some (some e) ∧ wraps e "ErrCronParse" = true :=
  trans_validate_rejects _ _ (Nat.le_refl _) (by decide)
example : ∃ e, ValidateCronExpression modelExt "0,99 * * * * *".toList parseFuel = some (some e) ∧ wraps e "ErrCronParse" = true :=
  trans_validate_rejects _ _ (Nat.le_refl _) (by decide)
example : ∃ e, ValidateCronExpression modelExt "0 15 10 ? * 6#6".toList parseFuel = some (some e) ∧ wraps e "ErrCronParse" = true :=
  trans_validate_rejects _ _ (Nat.le_refl _) (by decide)

/-- `C07_rejects_field_count_trans` / `C07_rejects_both_days_trans` / `C07_missing_year_trans`: hypotheses satisfiable -/
example : ∃ e, ValidateCronExpression modelExt " 0 0 0 * * ? * * ".toList parseFuel = some (some e) ∧ wraps e "ErrCronParse" = true :=
  C07_rejects_field_count_trans _ _ (Nat.le_refl _) (by decide) (Or.inr (by decide))
example : ∃ e, ValidateCronExpression modelExt "0 0 0 1 * MON".toList parseFuel = some (some e) ∧ wraps e "ErrCronParse" = true :=
  C07_rejects_both_days_trans _ _ (Nat.le_refl _) (by decide) ⟨by decide, by decide⟩ ⟨by decide, by decide⟩
example : ∃ m : Option Cron.Fields,
    Agrees (parseCronExpression modelExt (trimCronExpression modelExt "0 0/5 14,18 * JAN-mar ?".toList) parseFuel) m mkFields ∧
    Agrees (parseCronExpression modelExt (trimCronExpression modelExt "0 0/5 14,18 * JAN-mar ?".toList ++ [' ', '*']) parseFuel) m mkFields :=
  C07_missing_year_trans _ _ (Nat.le_refl _) (by decide) (by decide)

/-- the translated text-level functions compute (small fuel, kernel evaluation) -/
example : normalize modelExt "mAr".toList months = (3, none) := by decide
example : (parseField modelExt "dec,1-3,2/5,Jun".toList ⟨1, 12⟩ months 20).map (fun r => (r.1.values, r.2)) =
    some ([1, 2, 2, 3, 6, 7, 12, 12], none) := by decide
example : (parseDayOfMonthField modelExt "L-2".toList ⟨1, 31⟩ [] 40).map (fun r => (r.1, r.2)) = some (⟨[], -2⟩, none) := by decide
example : (parseDayOfWeekField modelExt "fri#3".toList ⟨1, 7⟩ days 10).map (fun r => (r.1, r.2)) = some (⟨[6], 3⟩, none) := by decide
example : trimCronExpression modelExt "  0\t 0/5  14,18\n*   JAN-mar ? \r\n".toList = "0 0/5 14,18 * JAN-mar ?".toList := by decide

/-- end to end: the spring-forward location of `Theorems/C14.lean`, the expression as TEXT -/
example : goNewThenNext (TransCron.locOfZone Cron.exSpring) "0 30 * * * ?".toList 999000000000000 (Cron.csmFuel + 1) =
    some (1002600000000000, none) := by
  have h := trans_newTrigger_nextFire "0 30 * * * ?".toList Cron.exSpring Cron.exSpring_bounded 999000000000000
    (by decide) (by decide) _ (Nat.le_refl _)
  have hm : modelNewThenNext Cron.exSpring "0 30 * * * ?".toList 999000000000000 =
      some (Cron.nextFire {} Cron.exHalf Cron.exSpring 999000000000000) := by
    have : Cron.newTrigger {} "0 30 * * * ?".toList = some Cron.exHalf := by decide
    unfold modelNewThenNext
    rw [this]
    rfl
  rw [hm, Cron.exSpring_skip] at h
  exact h

end TransParse

#print axioms TransParse.trans_parse_nothing_missing
#print axioms TransParse.trans_parse_data
#print axioms TransParse.trans_translateLiteral
#print axioms TransParse.trans_normalize
#print axioms TransParse.trans_translateLiterals
#print axioms TransParse.trans_extractStepValues
#print axioms TransParse.trans_extractRangeValues
#print axioms TransParse.trans_parseRangeField
#print axioms TransParse.trans_parseStepField
#print axioms TransParse.trans_parseListField
#print axioms TransParse.trans_parseField
#print axioms TransParse.trans_parseDayOfMonthField
#print axioms TransParse.trans_parseDayOfWeekField
#print axioms TransParse.trans_buildCronField
#print axioms TransParse.trans_parseCronExpression
#print axioms TransParse.trans_trimCronExpression
#print axioms TransParse.trans_ValidateCronExpression
#print axioms TransParse.trans_NewCronTriggerWithLoc
#print axioms TransParse.trans_NewCronTrigger
#print axioms TransParse.trans_validate_accepts
#print axioms TransParse.trans_validate_rejects
#print axioms TransParse.trans_errors_wrap_ErrCronParse
#print axioms TransParse.trans_newCronTrigger_accepts
#print axioms TransParse.parse_wellFormed_trans
#print axioms TransParse.C07_rejects_field_count_trans
#print axioms TransParse.C07_rejects_both_days_trans
#print axioms TransParse.C07_macros_trans
#print axioms TransParse.C07_missing_year_trans
#print axioms TransParse.trans_newTrigger_nextFire
#print axioms TransParse.trans_newTrigger_nextFire_eq
