"""C13: failed jobs are retried exactly as configured; panics are contained."""
import os
from . import common, generic

RULE = ("one evaluation = one execution of a scripted job (call k of Execute returns nil / returns an error / panics as the script says) fired once by a "
        "real StdScheduler in one of the three dispatch modes (BlockingExecution, WorkerLimit 2, unbounded), observed through the calls of Execute "
        "(monotonic time stamps), the scheduler's own log lines for the job and Wait; compared exactly with the Lean model of executeWithRetries "
        "(attempts, completed waits, how it ended) and judged independently against 1 + min(max(0,MaxRetries), failures before the first success), "
        "gap >= RetryInterval between attempts (one-sided), no attempt after the context ended during a retry wait, and after a panic: next fire time "
        "still executed, a sibling job runs, Wait returns. Exhaustive part: MaxRetries in {-1..4} x all scripts over {ok,err,panic} of length <= 5 "
        "(<= 6 thorough) x 3 modes, plus cancellations during the 1st..3rd wait and random longer cases; non-trivial = >= 2 attempts or a panic; "
        "distinct by (mode, MaxRetries, script, cancel point). Plus (qh retry5) the context given to Start ends by an expired DEADLINE (context.WithTimeout on it / "
        "WithDeadline on its grandparent; no cancel(), no Stop()) x 3 modes: in the middle of the 1st / 2nd retry wait of an always-failing job (MaxRetries 3, RetryInterval 300 ms) "
        "and while attempt 1 / 2 is running (RetryInterval 20 ms, 0, -1 ms; the attempt fails after it has seen the context end): every gap between attempts >= RetryInterval - 1 ms, "
        "no two attempts entered with a context that has already ended, no attempt after the one during which the context ended (48 scenarios per round)")

MISFIRE_RULE = ("; plus the same on schedulers configured with WithMisfiredChan(ch) where ch is unbuffered or its buffer of 1 is taken and nobody reads it: a slice of the cases above "
                "(scripts of length <= 3, 30 random cases; engine run 'unread') and (qh misfire --prop C13, 6 scenarios per round, three modes) a job due every 7 ms that plays "
                "p / ep / eep / eeep per fire time (MaxRetries 3), three run-once jobs that panic and a counting job every 5 ms: >= 6 panics of the periodic job (its next fire "
                "times stay scheduled), every run-once job executed, the counting job keeps running, a sibling scheduled afterwards runs, Stop and Wait return (10 s each)")



def run(ctx):
    b = common.build_all(ctx)
    if not b.get("go_ok"):
        common.report_violation(ctx, "the harness no longer builds against /repo", {"log": b.get("go_log", "")[-2000:]}, no_input=True)
        return common.finish(ctx)
    if not ctx.thorough:
        results = [generic.engine_run(ctx, "retry", ["--seed", str(ctx.seed), "--n", "300"], "main", timeout=600)]
    else:
        results = [generic.engine_run(ctx, "retry", ["--seed", str(ctx.seed), "--maxlen", "6", "--n", "2000"], "main", timeout=1500)]
        for k in range(1, 4):
            results.append(generic.engine_run(ctx, "retry", ["--seed", str(ctx.seed * 1000 + k), "--maxlen", "0", "--n", "3000",
                                                             "--interval", "%dms" % k, "--par", str(8 * k)], "extra%d" % k, timeout=1500))
    # the scheduler's context ends by an expired deadline instead of cancel()/Stop() (harness/cmd/qh/retry5.go)
    results.append(generic.engine_run(ctx, "retry5", ["--seed", str(ctx.seed), "--n", "1" if not ctx.thorough else "6"], "deadline", timeout=300))
    # the same with a configured MisfiredChan that nobody reads: scenarios of their own (harness/cmd/qh/misfire.go), and a slice of the retry engine's
    # cases on schedulers that have such a channel (QH_MISFIRED_CHAN, read by mfRetryOpts)
    results.append(generic.engine_run(ctx, "misfire", ["--prop", "C13", "--seed", str(ctx.seed), "--n", "1" if not ctx.thorough else "8"], "misfire", timeout=900))
    results.append(generic.engine_run(ctx, "retry", ["--seed", str(ctx.seed + 17), "--maxlen", "3" if not ctx.thorough else "4", "--n", "30" if not ctx.thorough else "300"], "unread",
                                      timeout=900, env=dict(os.environ, QH_MISFIRED_CHAN=("full", "unbuffered")[ctx.seed % 2])))
    bad = generic.proof_cov(ctx, extra_trusted=[
        "time.NewTimer fires no earlier than its duration, select/ctx.Done and defer/recover behave as the Go specification says (the model takes "
        "a completed wait, a cancelled wait and a recovered panic as atomic events; real-time gaps are observed by the harness, not proved)",
        "the three dispatch sites of executeAndReschedule/startWorkers are tied by a regenerated fact (every call of executeWithRetries, no direct "
        "Execute elsewhere) and by running all three modes, not by a proof about goroutines"])
    generic.judge(ctx, results, bad, "retry",
                  widen=lambda: (generic.engine_run(ctx, "retry", ["--seed", str(ctx.seed * 7919 + k), "--maxlen", "0", "--n", "4000"], "search%d" % k, timeout=1500)
                                 for k in range(1, 3)))
    generic.fill_coverage(ctx, results, RULE + MISFIRE_RULE)
    ctx.coverage["traces_validated_against_impl"] = sum(len(r.get("ops", [])) for r in results if not r.get("failed"))   # (the deadline scenarios have no model run)
    ok = [r for r in results if not r.get("failed")]
    gaps = [r["stats"].get("min_gap_between_attempts_ns", -1) for r in ok]
    gaps = [g for g in gaps if g >= 0]
    if gaps:
        ctx.coverage["observed_min_gap_between_attempts_ns"] = min(gaps)
    ctx.assumptions.append("the outcome of the j-th Execute call and the moment the context ends are inputs of the model (a script and a cancel point); "
                           "a context that ends while no retry wait is pending has no effect on the sequence (the first attempt is unconditional)")
    return common.finish(ctx)


def replay(ctx, path):
    import json
    print(json.dumps(json.load(open(path)), indent=1)[:4000])
    return 1
