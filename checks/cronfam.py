"""C01 / C02 / C06 / C07: the cron family. One engine, four verdict classes.

Tie to the code: (1) regenerated facts + `Theorems/Facts.lean`; (2) exact differential execution of
NextFireTime / NewCronTrigger (real code, supervised worker processes) against the compiled Lean model;
(3) an independent brute-force oracle that turns a disagreement into a verdict for one property."""
import json, os
from . import common
from .registry import THEOREMS

BUDGET = {"quick": 5000, "thorough": 120000}


def relevant_disagreement(pid, impl, model):
    a, b = impl.split(" ")[0], model.split(" ")[0]
    parse_side = (a == "parse-error") != (b == "parse-error")
    if pid == "C07":
        return parse_side or a in ("panic", "error-other", "inconsistent-validate")
    return not parse_side


def one_run(ctx, seed, n, tag, corpus=True):
    d = os.path.join(ctx.dir, tag)
    os.makedirs(d, exist_ok=True)
    cmd = [common.QH, "cron", "--seed", str(seed), "--n", str(n), "--out", d]
    cp = os.path.join(common.VERIF, "corpus", "cron.txt")
    if corpus and os.path.exists(cp):
        cmd += ["--corpus", cp]
    rc, out = common.sh(cmd, timeout=3000)
    ctx.log(out.strip().split("\n")[-1] if out.strip() else "qh cron rc=%d" % rc)
    if rc != 0:
        return None
    ok = common.run_model(ctx, d + "/ops.txt", d + "/model.txt")
    cases = [json.loads(l) for l in common.read_lines(d + "/cases.jsonl")]
    model = common.read_lines(d + "/model.txt")
    ops = common.read_lines(d + "/ops.txt")
    if not ok or len(model) != len(cases):
        ctx.log("model driver failed or truncated output (%d of %d lines)" % (len(model), len(cases)))
        model = model + ["model-no-answer"] * (len(cases) - len(model))
    stats = json.load(open(d + "/stats.json"))
    return {"cases": cases, "model": model, "ops": ops, "stats": stats}


def run(ctx, pid=None):
    pid = pid or ctx.pid
    b = common.build_all(ctx)
    if not b.get("go_ok"):
        common.report_violation(ctx, "the harness no longer builds against /repo (public API changed?)",
                                {"broken": "go build", "log": b.get("go_log", "")[-2000:]}, no_input=True)
        return common.finish(ctx)
    n = BUDGET[ctx.tier]
    runs = [one_run(ctx, ctx.seed, n, "main")]
    if ctx.thorough:
        for k in range(1, 4):
            runs.append(one_run(ctx, ctx.seed * 1000 + k, n // 3, "extra%d" % k, corpus=False))
    runs = [r for r in runs if r]
    # side engines: calendar validation (C01/C02: the order on civil tuples is the order on instants) and purity (C06)
    from . import generic
    side = []
    if pid in ("C01", "C02"):
        side.append(("cal", generic.engine_run(ctx, "cal", ["--seed", str(ctx.seed), "--stride", "1"], "cal")))
    if pid == "C06":
        # termination in locations with daylight-saving transitions (hang / crash attribution through supervised workers)
        side.append(("dst", generic.engine_run(ctx, "dst", ["--seed", str(ctx.seed), "--zones", "12" if not ctx.thorough else "0", "--per-zone", "8", "--date-samples", "2"], "dst", timeout=3000)))
        side.append(("pure", generic.engine_run(ctx, "pure", ["--seed", str(ctx.seed), "--n", "300" if not ctx.thorough else "3000"], "pure")))
        if ctx.thorough:
            rc, out = common.sh(["go", "build", "-race", "-o", common.BIN + "/qh_race", "./cmd/qh"], cwd=os.path.join(common.VERIF, "harness"),
                                env=dict(common.GOENV, CGO_ENABLED="1"), timeout=900)
            if rc == 0:
                d = os.path.join(ctx.dir, "pure_race")
                os.makedirs(d, exist_ok=True)
                rc, out = common.sh([common.BIN + "/qh_race", "pure", "--seed", str(ctx.seed), "--n", "400", "--out", d], timeout=1800)
                ctx.coverage["race_detector_run"] = {"exit": rc, "tail": out[-300:]}
                if rc != 0 or "DATA RACE" in out:
                    common.report_violation(ctx, "C06 data race or failure while hammering one CronTrigger from 16 goroutines under -race: " + out[-600:],
                                            {"engine": "pure -race", "log": out[-4000:]})
            else:
                ctx.coverage["race_detector_run"] = {"skipped": "go build -race failed: " + out[-200:]}
    for name, r in side:
        if r.get("failed"):
            common.report_violation(ctx, "side engine %s failed: %s" % (name, r.get("log", "")[-400:]), {"engine": name}, no_input=True)
            continue
        for v in (r["stats"].get("violations") or []):
            if v.startswith(pid + " ") or name != "dst":
                common.report_violation(ctx, v, {"engine": name, "what": v})
        if r.get("diffs"):
            i = r["diffs"][0]
            common.report_violation(ctx, "the Lean calendar disagrees with Go's time package on %d instants, first: %s go=%s lean=%s" % (
                len(r["diffs"]), r["ops"][i], r["impl"][i], r["model"][i]), {"engine": name, "op": r["ops"][i], "impl": r["impl"][i], "model": r["model"][i]}, no_input=True)
        ctx.coverage["side_" + name] = {"evaluations": r["stats"].get("evaluations"), "exhaustive": r["stats"].get("exhaustive", False),
                                         "disagreements": len(r.get("diffs", []))}
    tie_broken = []       # (case, model answer, op)
    concrete = []
    evals = nontrivial = 0
    dist = {}
    for r in runs:
        evals += r["stats"]["evaluations"]
        nontrivial += r["stats"]["distinct_nontrivial"]
        for k, v in r["stats"]["distribution"].items():
            dd = dist.setdefault(k, {})
            for kk, vv in v.items():
                dd[kk] = dd.get(kk, 0) + vv
        for c, m, op in zip(r["cases"], r["model"], r["ops"]):
            if c.get("verdict", "").startswith(pid + " "):
                concrete.append((c, m, op))
            if c["impl"] != m and relevant_disagreement(pid, c["impl"], m):
                tie_broken.append((c, m, op))
    # proof obligations
    mods = sorted({m for m, _ in THEOREMS[pid]})
    thms = [t for _, t in THEOREMS[pid]]
    src_mod = mods[0] if len(mods) == 1 else None
    bad = proof_cov(ctx, mods, thms)
    if ctx.thorough:
        for m in mods:
            common.leanchecker(ctx, m)

    for c, m, op in concrete[:20]:
        common.report_violation(ctx, "%s | expr=%r loc=%s prev=%d impl=%s oracle=%s model=%s" % (
            c["verdict"], c["expr"], c["loc"], c["prev"], c["impl"], c.get("expect", "?"), m),
            {"engine": "cron", "case": c, "model": m, "protocol_line": op,
             "how": "qh cron-worker <<< 'N <hex expr> <loc> <prev>' on the real code; model: qmodel <<< protocol_line"})
    if not concrete and (tie_broken or bad):
        # a proof obligation or the correspondence no longer checks, and no oracle-judged failing input was
        # found in the runs above: widen the search before giving up
        found = []
        for k in range(1, 4 if not ctx.thorough else 8):
            r = one_run(ctx, ctx.seed * 7919 + k, n, "search%d" % k, corpus=False)
            if not r:
                continue
            evals += r["stats"]["evaluations"]
            found += [(c, m, op) for c, m, op in zip(r["cases"], r["model"], r["ops"]) if c.get("verdict", "").startswith(pid + " ")]
            if found:
                break
        for c, m, op in found[:5]:
            common.report_violation(ctx, "%s | expr=%r loc=%s prev=%d impl=%s oracle=%s" % (
                c["verdict"], c["expr"], c["loc"], c["prev"], c["impl"], c.get("expect", "?")),
                {"engine": "cron", "case": c, "model": m, "protocol_line": op, "found_by": "widened search after a broken tie"})
        if not found:
            what = []
            if bad:
                what.append("proof obligations no longer check: " + ", ".join(bad[:8]))
            if tie_broken:
                c, m, op = tie_broken[0]
                what.append("correspondence broken on %d input(s), e.g. expr=%r loc=%s prev=%d impl=%s model=%s" % (
                    len(tie_broken), c["expr"], c["loc"], c["prev"], c["impl"], m))
            common.report_violation(ctx, "; ".join(what),
                                    {"engine": "cron", "undischarged": bad, "lean_log_tail": ctx.lean_log[-1500:],
                                     "disagreements": [{"case": c, "model": m, "protocol_line": op} for c, m, op in tie_broken[:10]]},
                                    no_input=True)
    sample_src = runs[0]["cases"] if runs else []
    ctx.coverage.update({
        "evaluations": evals, "distinct_nontrivial": nontrivial,
        "rule": "one evaluation = one (expression, location, prev) triple run on the real code (supervised worker), the compiled Lean model and, where the generator knows the meaning, the brute-force oracle; non-trivial = not the all-wildcard expression; distinct by hash of the triple",
        "distribution": dist,
        "traces_validated_against_impl": evals,
        "disagreements_model_vs_impl": len(tie_broken),
        "samples": [{k: c[k] for k in ("expr", "loc", "prev", "feature", "place", "impl", "expect") if k in c} for c in sample_src[:3] + sample_src[len(sample_src) // 2: len(sample_src) // 2 + 3]],
    })
    ctx.assumptions += ["Go's time package implements the proleptic Gregorian calendar (validated against the Lean Calendar by `./check C01 --tier thorough`)",
                        "WellFormed fields is what the parser establishes (Theorems/C07.lean: parse_wellFormed)"]
    return common.finish(ctx)


def proof_cov(ctx, mods, thms):
    """#print axioms for every obligation, one Lean invocation per module (so that one module that no longer builds does not
    hide the others); a theorem is discharged iff its module builds now and its axioms are within the allowed set."""
    import re
    from concurrent.futures import ThreadPoolExecutor
    from .registry import THEOREMS as _T
    modof = {}
    for m, t in _T.get(ctx.pid, []):
        modof.setdefault(t, m)
    for t in thms:
        modof.setdefault(t, mods[0] if mods else "")
    failed = set(common.lean_failed_modules(ctx)) if not ctx.lean_ok else set()
    reach = common.modules_reaching(failed) if failed else set()
    res = {t: None for t in thms}
    bymod = {}
    for t in thms:
        bymod.setdefault(modof[t], []).append(t)

    def audit_one(item):
        m, ts = item
        if m in reach:
            return ""
        path = os.path.join(ctx.dir, "Audit_%s_%s.lean" % (ctx.pid, m.replace(".", "_")))
        open(path, "w").write("import %s\n" % m + "".join("#print axioms %s\n" % t for t in ts))
        rc, out = common.sh(["lake", "env", "lean", path], cwd=common.LEAN, timeout=900)
        return out

    with ThreadPoolExecutor(max_workers=8) as ex:
        outs = list(ex.map(audit_one, bymod.items()))
    out = "\n".join(outs)
    for m in re.finditer(r"'([^']+)' depends on axioms: \[([^\]]*)\]", out, re.S):
        res[m.group(1)] = sorted(a.strip() for a in m.group(2).replace("\n", " ").split(",") if a.strip())
    for m in re.finditer(r"'([^']+)' does not depend on any axioms", out):
        res[m.group(1)] = []
    bad = [t for t, a in res.items() if a is None or not set(a) <= common.ALLOWED_AXIOMS]
    hits = common.forbidden_tokens()
    if hits:
        ctx.log("forbidden tokens in Lean sources:", hits[:5])
        bad = list(thms)
    if not ctx.lean_ok and not failed:      # the build failed in a way we cannot attribute
        bad = list(thms)
    ctx.coverage.update({
        "obligations": len(thms), "discharged": len(thms) - len(bad), "theorems": thms, "axioms": res,
        "undischarged": bad, "forbidden_token_hits": hits, "modules_that_failed_to_build": sorted(failed),
        "checker_cmd": "cd /verif/lean && lake build && for each module M of the obligations: lake env lean <file: import M; #print axioms T for each obligation T of M> (files kept under build/run/%s/Audit_*.lean)" % ctx.pid,
        "trusted_base": ["Lean 4.33.0 kernel", "fact extractor harness/cmd/extract (go/ast + go/types pattern matching)",
                         "Go harness and diff driver (harness/cmd/qh, checks/*.py)",
                         "Lean code generator (only for running the model in the correspondence check)",
                         "Go time package = proleptic Gregorian calendar"],
    })
    return bad


def replay(ctx, path):
    r = json.load(open(path))
    c = r.get("case")
    if not c:
        print(json.dumps(r, indent=1)[:3000])
        return 1
    common.build_all(ctx)
    req = "N %s %s %d\n" % (c["expr"].encode("utf8", "surrogateescape").hex() or "-", c["loc"], c["prev"])
    rc, out = common.sh([common.QH, "cron-worker"], stdin=req, timeout=60)
    rc2, out2 = common.sh([common.QMODEL], stdin=r["protocol_line"] + "\n", timeout=60)
    print("impl  :", out.strip())
    print("model :", out2.strip())
    print("oracle:", c.get("expect"))
    return 0 if out.strip() == c.get("expect", out.strip()) else 1
