"""C15: the scheduler tolerates a failing or slow custom job queue."""
from . import common, generic

RULE = ("one evaluation = one queue call made by a real StdScheduler (execution loop or API method) on a JobQueue wrapper around the default queue that makes "
        "chosen calls fail with an injected error (without touching the stored entries) or sleep 50 ms. Workload: 3 jobs with recording interval triggers "
        "(20/30/40 ms), RetryInterval 50 ms, a script of 13 API calls (Schedule, GetJobKeys, GetScheduledJob, Pause, Resume, Delete, Clear, re-Schedule). Plans: "
        "single faults exhaustively (the k-th queue call, k = 0..119 counting loop-side and API calls together, fails / is slow); bursts (every loop-side call of "
        "{Pop},{Push},{Size},{Head},{Pop,Head},{all four} fails / is slow for 400 ms, and fails for 30/60/90 ms so that the back-off is still running when the faults "
        "stop); spurious-empty windows (for 400/30/60/90 ms Size() reports 1 or 3 while Head() and Pop() return an error wrapping quartz.ErrQueueEmpty: nothing 'fails' "
        "in the loop's eyes, so only calculateNextTick's RetryInterval and the returned empty Pop keep it from spinning); empty-pop windows (for 400/30/60/90 ms Size() and Head() answer truthfully "
        "- three stored jobs, the head due - while Pop() returns an error wrapping quartz.ErrQueueEmpty, as when another node of a shared queue claims the head); "
        "quiet recovery (22 stand-alone scenarios): Head() answers an error wrapping quartz.ErrQueueEmpty (or the injected error) for 1..3 consecutive calls starting with its 1st / 2nd / 5th, "
        "while Size() (1), Pop() and Push() answer truthfully; one 20 ms job scheduled before / after Start; NO API call follows the fault (nothing but the loop's own timer can wake it): the job, still "
        "stored and not paused, must run again within 5 s (100 RetryIntervals) of the last faulty Head() returning; "
        "60 seeded random mixes (per-call failure probability 0.05..0.9, delay probability 0..0.2, operation subsets, loop/API side). Every plan runs in a "
        "supervised child process (a panic or a hang is attributed to the plan). Judged per plan by the harness's own oracle: no panic, no hang (20 s), every "
        "API call returns within 2 s, an API call returns an error that errors.Is the injected one exactly when one of its own queue calls was made to fail, no "
        "fire time handed out by a trigger is taken for execution twice and no job runs more often than fire times were taken, at most 200 loop-side queue "
        "calls per burst window (expected about 2 per RetryInterval; the unrepaired loop made > 100 000), and after the faults stop every job still stored in the "
        "inner queue and not paused runs again within 1 s although unrelated far-future jobs keep being scheduled every 15 ms (interrupt tokens must not postpone "
        "the retry); slower than 1 s but within 3 s = the plan is re-run alone and is a violation only if slow again. Under API traffic (an unrelated far-future job scheduled every 10 ms during a 400 ms burst, every one an interrupt token) the failing loop-side call - "
        "Pop, Push, and since the repair of finding F4 also Size and Head - is made at most 11 times (once per RetryInterval + 3). "
        "Call by call (faults5.go), in every plan: after a loop-side Pop(), Push(), Size() or Head() has failed with the injected error the loop's next queue call of ANY kind comes no "
        "sooner than RetryInterval - 1 ms (the Size() at the top of an iteration included: the back-off deadline is tested before the queue is asked); plus (qh faults5) 3 / 4 jobs due at the same moment, every Push() failing from before they are due while "
        "Pop()/Size()/Head() answer truthfully, RetryInterval 400 ms, three dispatch modes, no API call: every failed push-back of a due job is followed by >= 399 ms without Pop/Push/Head. "
        "A plan is non-trivial when a fault was "
        "really injected (plans whose call was never reached are counted separately); distinct by (plan kind, side/operation/fault kind hit). "
        "No exact differential run against the Lean model: the theorems cover every fault assignment, clock reading and interrupt pattern of the model, the tie "
        "is the regenerated shape of the loop's switch, calculateNextTick, the retryAt plumbing and the error returns of every API method, plus these runs")


def run(ctx):
    b = common.build_all(ctx)
    if not b.get("go_ok"):
        common.report_violation(ctx, "the harness no longer builds against /repo", {"log": b.get("go_log", "")[-2000:]}, no_input=True)
        return common.finish(ctx)
    results = [generic.engine_run(ctx, "faults", ["--seed", str(ctx.seed), "--n", "120" if not ctx.thorough else "200"], "main", timeout=900)]
    if ctx.thorough:
        for k, par in enumerate([4, 12, 24], 1):
            results.append(generic.engine_run(ctx, "faults", ["--seed", str(ctx.seed * 1000 + k), "--n", "120", "--par", str(par)], "extra%d" % k, timeout=900))
    # write side of the queue down with several jobs due at once: back-off after every failed push-back (harness/cmd/qh/faults5.go)
    results.append(generic.engine_run(ctx, "faults5", ["--seed", str(ctx.seed), "--n", "1" if not ctx.thorough else "4"], "pushdown", timeout=300))
    bad = generic.proof_cov(ctx, extra_trusted=[
        "Go runtime: time.Now/Until/Before use the monotonic clock and a timer never fires before its duration has elapsed (the model's `WellTimed`)",
        "the custom queue is modelled as arbitrary answers per call; for `C15_no_double_fire` / `C15_recovers` as a store on which a failed call has no effect, "
        "wrapped by an arbitrary fault plan; triggers hand out strictly increasing fire times; job keys are distinct",
        "paused entries are treated as entries at +infinity (not due); the API methods are modelled by their queue-call skeleton (regenerated per method)",
        "absence of panics / deadlocks and all wall-clock quantities (call rate in a burst, recovery latency) are observed by the harness, not proved"])
    generic.judge(ctx, results, bad, "faults",
                  widen=lambda: (generic.engine_run(ctx, "faults", ["--seed", str(ctx.seed * 7919 + k), "--n", "120"], "search%d" % k, timeout=900) for k in range(1, 3)))
    generic.fill_coverage(ctx, results, RULE)
    ctx.coverage["traces_validated_against_impl"] = 0
    ctx.coverage["note"] = "fault-injection property: stats.json only, no ops.txt/impl.txt; the harness's own oracle judges the real code"
    ctx.coverage["observations"] = [
        "since the repair of finding F4 the back-off deadline retryAt is set by EVERY failing loop-side call (Size, Head, Pop, Push) and tested before Size() is asked: "
        "until the deadline the loop asks the queue nothing, whatever interrupt tokens arrive - mutating API calls, Reset(), the loop's own Reset() after a push-back - "
        "(C15_backoff, C15_size_retry_kept, C15_deadline_not_postponed; judged on the real scheduler by the traffic plans and call by call). A Head() that answers "
        "ErrQueueEmpty although Size() was non-zero sets no deadline (on a healthy queue that is the race 'last job deleted between Size() and Head()'; a back-off "
        "there would hold back the next ScheduleJob, cf. d8c40f6): such a queue is looked at again on every interrupt, at most once per RetryInterval otherwise "
        "(C15_no_spin_on_spurious_empty)",
        "a back-off, once started by a queue failure, also holds back jobs scheduled meanwhile (by at most RetryInterval) - after Size()/Head() failures now as "
        "after Pop()/Push() failures before; C05 is about queues that do not fail",
        "an empty Pop() counts as a queue failure only if Size(), asked again under the queue lock, does not answer 0 (C15_honest_empty_pop); a queue whose Size() "
        "alternates between non-zero at the top of the loop and zero inside fetchAndReschedule while its due head cannot be popped would still spin: excluded by "
        "the hypothesis size2 != 0 of C15_no_spin_on_empty_pop, not exercised by the harness",
        "PauseJob/ResumeJob over a failing Push() lose the job (Remove succeeded, error returned): allowed by the wording of C15, recorded as an observation",
    ]
    ok = [r for r in results if not r.get("failed")]
    if ok:
        ctx.coverage["plans"] = sum(r["stats"].get("plans", 0) for r in ok)
        ctx.coverage["max_loop_side_calls_per_burst_observed"] = max(r["stats"].get("max_burst_calls", 0) for r in ok)
        ctx.coverage["burst_limit"] = ok[0]["stats"].get("burst_limit")
        ctx.coverage["max_recovery_ms_observed"] = max(r["stats"].get("max_recovery_ms", 0) for r in ok)
        ctx.coverage["api_calls"] = sum(r["stats"].get("api_calls", 0) for r in ok)
        ctx.coverage["api_calls_with_injected_fault"] = sum(r["stats"].get("api_calls_with_injected_fault", 0) for r in ok)
    return common.finish(ctx)


def replay(ctx, path):
    import json
    print(json.dumps(json.load(open(path)), indent=1)[:4000])
    return 1
