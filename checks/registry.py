"""Which Lean theorems are the proof obligations of which property (module, fully qualified name)."""

FACTS = [("QuartzModel.Theorems.Facts", t) for t in [
    "Facts.missing_none", "Facts.limits_eq", "Facts.limitsAux_eq", "Facts.bounds_eq", "Facts.hashRange_eq",
    "Facts.dowShift_eq", "Facts.months_eq", "Facts.days_eq", "Facts.special_eq"]]

# the hand-written cron model IS the code: definitions translated from internal/csm + quartz/csm.go on every run (harness/cmd/gotolean ->
# Generated/Trans.lean) are proved equal to the model's functions for all inputs
TRANS = [("QuartzModel.Theorems.MissingTrans", "Trans.missing_none")] + \
        [("QuartzModel.Theorems.TransCsm", "TransCsm." + t) for t in ["trans_commonValid", "trans_commonNext", "trans_commonReset", "trans_commonFindForward", "trans_resultCodes"]] + \
        [("QuartzModel.Proofs.TransDayLemmas", "TransDay." + t) for t in ["trans_dayIsValid", "trans_dayNext", "trans_dayFindForward", "trans_dayReset"]] + \
        [("QuartzModel.Theorems.TransMachine", "TransCsm." + t) for t in ["trans_resetFrom", "trans_overflowFrom", "trans_advanceInvalid", "trans_findForward", "trans_newCSMFromFields"]] + \
        [("QuartzModel.Theorems.TransFinal", "TransCsm." + t) for t in ["trans_nothing_missing", "trans_dayEquiv", "trans_nextTriggerTime", "trans_nextTriggerTime_values",
                                                                       "nextFireT_eq_nextFire", "C01_sound_trans", "C02_minimal_trans", "C06_total_trans"]]

# quartz/cron.go: NextFireTime (the loop over wall-clock candidates around the state machine), fires, and the parser's integer helpers, translated by
# harness/cmd/gotolean-cron -> Generated/TransCron.lean
def _tc(*names):
    return [("QuartzModel.Theorems.TransCron", "TransCron." + t) for t in names]
TRANSCRON_LOOP = _tc("trans_cron_nothing_missing", "trans_fires", "trans_zoneLoop", "trans_nextFireTime")
TRANSCRON_C14 = TRANSCRON_LOOP + _tc("C14_sound_transCron", "C14_no_miss_transCron", "C14_expiry_transCron", "C14_terminates_transCron", "C14_total_transCron")
TRANSCRON_C07 = _tc("trans_cron_nothing_missing", "trans_inScope", "trans_fillRangeValues", "trans_fillStepValues", "trans_cronField_add", "trans_dowShift", "trans_boundaryTable")

# quartz/queue.go, job_key.go, matcher/*.go and the toolchain's container/heap/heap.go, translated by harness/cmd/gotolean-queue -> Generated/TransQueue.lean
TRANSQUEUE = [("QuartzModel.Theorems.TransQueue", "TransQueue." + t) for t in [
    "trans_queue_nothing_missing", "trans_queue_lockShape", "C11_inv_reachable_trans", "C11_pop_min_trans", "C11_head_min_trans",
    "C11_push_replace_trans", "C11_push_duplicate_trans", "exQ_inv"]] + \
    [("QuartzModel.Proofs.TransQueueLemmas", "TransQueue." + t) for t in [
        "trans_less", "trans_swap", "trans_pq_push", "trans_pq_pop", "up_loop_eq", "trans_up", "down_loop_eq", "trans_down", "trans_heap_push", "trans_heap_pop",
        "trans_heap_remove", "trans_scheduledJobs", "push_loop", "trans_qpush", "trans_qpop", "trans_qhead", "get_loop", "trans_qget", "remove_loop", "trans_qremove",
        "trans_qsize", "trans_qclear", "trans_newJobQueue", "list_inner", "list_outer", "trans_qlist", "trans_strop", "trans_matcher_name", "trans_matcher_group",
        "trans_matcher_status", "trans_matcher_ctors", "qerr_ne_nil", "qerr_injective"]] + \
    [("QuartzModel.Proofs.TransQueueRunLemmas", "TransQueue." + t) for t in ["step_size_le", "tstep_sim", "trun_sim"]]

# quartz/scheduler.go (validateJob, fetchAndReschedule, the registry methods) and quartz/trigger.go, translated by harness/cmd/gotolean-sched -> Generated/TransSched.lean
def _ts(*names):
    return [("QuartzModel.Theorems.TransSched", "TransSched." + t) for t in names]
TRANSSCHED_STEP = _ts("trans_sched_nothing_missing", "trans_validateJob", "trans_fetchAndReschedule")
TRANSSCHED_C03 = TRANSSCHED_STEP + _ts("C03_never_early_trans", "C03_never_early_any_queue")
TRANSSCHED_C04 = TRANSSCHED_STEP + _ts("trans_addNanos", "trans_addNanos_goAddNanos", "trans_simpleTrigger_fire", "trans_runOnceTrigger_fire",
                                       "C04_misfire_iff_late_trans", "C04_accounted_trans")
TRANSSCHED_REG = _ts("trans_sched_nothing_missing", "trans_ScheduleJob", "trans_DeleteJob", "trans_PauseJob", "trans_ResumeJob", "trans_Clear", "trans_GetScheduledJob",
                     "trans_GetJobKeys", "C09_schedule_error_unchanged_trans", "C09_delete_error_unchanged_trans", "C09_pause_error_unchanged_trans",
                     "C09_resume_error_unchanged_trans", "C09_delete_error_iff_trans")

# the TEXT level of the cron parser, translated by harness/cmd/gotolean-parse -> Generated/TransParse.lean
TRANSPARSE = [("QuartzModel.Theorems.TransParse", "TransParse." + t) for t in [
    "trans_parse_nothing_missing", "trans_parse_data", "trans_normalize", "trans_translateLiteral", "trans_translateLiterals", "trans_extractStepValues",
    "trans_extractRangeValues", "trans_parseRangeField", "trans_parseStepField", "trans_parseListField", "trans_parseField", "trans_parseDayOfMonthField",
    "trans_parseDayOfWeekField", "trans_buildCronField", "trans_parseCronExpression", "trans_trimCronExpression", "trans_ValidateCronExpression",
    "trans_NewCronTriggerWithLoc", "trans_NewCronTrigger", "trans_validate_accepts", "trans_validate_rejects", "trans_errors_wrap_ErrCronParse",
    "parse_wellFormed_trans", "C07_rejects_field_count_trans", "C07_rejects_both_days_trans", "C07_macros_trans", "C07_missing_year_trans"]]
# end to end: translated NewCronTrigger followed by translated NextFireTime = Cron.newTrigger followed by Cron.nextFire, for every expression string
TRANSE2E = [("QuartzModel.Theorems.TransParse", "TransParse.trans_newTrigger_nextFire"), ("QuartzModel.Theorems.TransParse", "TransParse.trans_newTrigger_nextFire_eq")]
# one iteration of the execution loop, translated by harness/cmd/gotolean-loop -> Generated/TransLoop.lean
def _tl(*names):
    return [("QuartzModel.Theorems.TransLoop", "TransLoop." + t) for t in names]
TRANSLOOP_C15 = _tl("trans_loop_nothing_missing", "trans_calculateNextTick", "trans_arm", "trans_executeAndReschedule", "trans_iter_core", "trans_iter", "trans_iter_facts",
                    "facts_shape_eq", "trans_iter_exit", "trans_init", "trans_runLoop", "trans_runQ", "C15_backoff_step_trans", "C15_backoff_trans",
                    "C15_size_retry_kept_trans", "C15_deadline_not_postponed_trans", "C15_no_double_fire_trans")
TRANSLOOP_C05 = _tl("trans_loop_nothing_missing", "trans_Reset", "trans_iter_interrupt_use", "trans_iter_exit")
# executeWithRetries, the dispatch switch and the workers, translated by harness/cmd/gotolean-retry -> Generated/TransRetry.lean
def _tr(*names):
    return [("QuartzModel.Theorems.TransRetry", "TransRetry." + t) for t in names]
TRANSRETRY_C13 = _tr("trans_retry_nothing_missing", "trans_retry_callers", "trans_executeWithRetries", "trans_runRetries", "trans_executeWithRetries_any", "C13_attempts_trans",
                     "C13_cancel_stops_trans", "C13_panic_ends_sequence_trans", "C13_interval_trans", "C13_attempts_bound_any", "C13_attempts_structure_any",
                     "C13_panic_ends_sequence_any", "C13_interval_any")
TRANSRETRY_C12 = _tr("trans_retry_nothing_missing", "trans_dispatch_arm", "trans_dispatch_inline", "trans_dispatch_handoff", "trans_dispatch_spawn", "trans_spawned_body",
                     "trans_dispatch_invalid", "trans_startWorkers", "trans_dispatchCap", "trans_worker_rounds")

# logger/*.go (gotolean-logger -> Generated/TransLogger.lean), job/isolated_job.go (same generated file), job/{function,shell,curl}_job.go (gotolean-jobs)
TRANSLOGGER = [("QuartzModel.Theorems.TransLogger", "TransLogger." + t) for t in [
    "trans_logger_nothing_missing", "trans_logger_area_nothing_missing", "trans_level_table", "trans_enabled", "trans_NewSimpleLogger", "trans_formatMessage",
    "trans_formatMessage_strings", "trans_simpleCall", "trans_simpleLog", "trans_erun", "C18_filter_trans", "C18_filter_line_trans", "C18_off_silences_all_trans",
    "C18_format_trans", "C18_label_trans", "C18_mutex_trans", "log_spec", "trans_slogCall", "trans_slogLog", "trans_NewSlogLogger", "C18_slog_level_map_trans",
    "C18_noop_trans", "trans_noop_bodies"]]
TRANSISOLATED = [("QuartzModel.Theorems.TransIsolated", "TransLogger." + t) for t in [
    "trans_isolated_nothing_missing", "trans_NewIsolatedJob", "trans_isolated_call", "pcStep_is_Step", "trans_execute_program", "C17_fail_fast_trans", "C17_fail_fast_steps",
    "C17_reopens_trans", "trans_isolated_facts"]]
TRANSJOBS = [("QuartzModel.Theorems.TransJobs", "TransJobs." + t) for t in [
    "trans_jobs_nothing_missing", "trans_status_consts", "trans_constructors", "trans_jobs_field_facts",
    "trans_function_execute", "trans_function_panic", "C16_function_status_iff_trans", "trans_function_lock_discipline", "trans_function_accessors", "C16_last_execution_function_trans",
    "trans_shell_execute", "C16_shell_status_iff_trans", "C16_shell_status_exit_trans", "trans_shell_lock_discipline", "C16_callback_once_trans_shell", "trans_shell_accessors",
    "C16_last_execution_shell_trans", "trans_curl_execute", "C16_curl_status_iff_trans", "trans_curl_lock_discipline", "trans_curl_do_panic_releases_lock", "trans_curl_close_panic_releases_lock", "trans_curl_do_panic_holds_lock_unrepaired", "trans_curl_accessors",
    "C16_open_bodies_le_one_trans", "C16_last_execution_curl_trans"]]

ODO = [("QuartzModel.Proofs.Odometer", t) for t in ["Odo.findForward_spec", "Odo.loop_fuel", "Odo.μ6_measure"]]

# the dispatch step and the API calls are atomic with respect to each other because of the queue lock: its facts are obligations
# of every property that reasons with atomic steps
# the loop's timer channel never carries a stale tick (old timer-channel semantics): obligation of everything that reasons about when ticks happen
TIMERFACTS = [("QuartzModel.Theorems.TimerFacts", "Facts.timer_drained_after_interrupt")]

# every successful queue mutation sends the interrupt token after the mutation, under the lock, with a fresh look at "started": obligations of
# every property that promises that a job in the queue of a running scheduler gets fired (C05 itself, restart in C10, recovery in C15)
WAKEFACTS = [("QuartzModel.Theorems.MissingWakeup", "Facts.missing_none_wakeup"), ("QuartzModel.Theorems.C05", "Wakeup.C05_facts_wf"),
             ("QuartzModel.Theorems.RestartFacts", "Facts.loop_reschedule_sends_token")]

SCHEDFACTS = [("QuartzModel.Theorems.SchedFacts", "Sched." + t) for t in ["validate_branches", "misfire_offer_nonblocking", "step_order", "classify_spec"]] + \
             [("QuartzModel.Theorems.C09Lin", "Sched.C09_lock_facts"), ("QuartzModel.Theorems.C09Lin", "Sched.C09_unlocked_are_reads"),
              ("QuartzModel.Theorems.MissingLocks", "Facts.missing_none_locks")]

COMPOSE = [("QuartzModel.Theorems.Compose", "Sched." + t) for t in [
    "cron_job_runs_only_at_matching_instants", "cron_job_dispatch_is_first_match", "cron_job_never_early", "cron_job_no_skip_while_on_time",
    "cron_job_runs_exactly_the_first_matches", "cron_job_no_skip_from_empty", "cron_job_leaves_when_expired", "cron_job_stays_iff_match_left",
    "parsed_cron_job_runs_only_at_matching_instants", "parsed_cron_job_never_early"]]

# the clock a fire time is computed from is read inside the critical section (regenerated: NowNano() and the trigger call come after queueLocker.Lock()
# in ResumeJob and ScheduleJob; validateJob's clock under the lock of fetchAndReschedule)
CLOCKFACTS = [("QuartzModel.Theorems.ClockFacts", "Sched.Clock." + t) for t in [
    "clock_facts", "read_in_critical_section", "stale_read_precedes_pause", "C08_resume_moment", "C09_schedule_moment"]] + [
    ("QuartzModel.Theorems.ClockFacts", "Facts.missing_none_clockorder")]
THEOREMS = {
    # (a job popped before its time must go back with its fire time untouched: the dispatch step's facts are obligations here too)
    # "the only permitted delays are a job executing in blocking mode and a full worker pool": which arm of the dispatch switch takes a fetched job
    # (and that startWorkers agrees with it) is the business of the C12 facts
    "C05": TRANSLOOP_C05 + [("QuartzModel.Theorems.C12", "Pool.C12_facts")] + TIMERFACTS + [t for t in SCHEDFACTS if t[0] == "QuartzModel.Theorems.SchedFacts"] + [("QuartzModel.Theorems.MissingWakeup", "Facts.missing_none_wakeup"),
                         ("QuartzModel.Theorems.RestartFacts", "Facts.loop_reschedule_sends_token")] + [("QuartzModel.Theorems.C05", "Wakeup." + t) for t in [
        "C05_facts_wf", "C05_invariant", "C05_parked_correct", "C05_never_lost", "C05_token_rereads", "C05_send_never_blocks", "C05_holds",
        "C05_lost_unbuffered", "C05_lost_without_send", "C05_lost_send_before", "C05_lost_without_reread", "C05_blocking_send_deadlocks"]] +
           [("QuartzModel.Proofs.WakeupLemmas", "Wakeup.inv_step"), ("QuartzModel.Proofs.WakeupLemmas", "Wakeup.inv_run")] +
           # a fire time beyond the largest representable time does not get ahead of the due jobs (the loop neither spins nor starves them)
           [("QuartzModel.Theorems.C04", "Sched." + t) for t in ["C04_saturates", "C04_saturated_not_due", "C04_saturated_never_spins"]],
    "C15": TRANSLOOP_C15 + TIMERFACTS + WAKEFACTS + [("QuartzModel.Theorems.MissingFaults", "Facts.missing_none_faults")] + [("QuartzModel.Theorems.C15", "Faults." + t) for t in [
        "C15_facts_wf", "C15_facts_api", "C15_facts_dispatch", "C15_backoff_step", "C15_backoff", "C15_holds", "C15_backoff_fails_without_flag",
        "C15_interrupts_postpone_recovery", "C15_api_propagates", "C15_api_nil_only_if_all_ok", "C15_dispatch_after_pop", "C15_one_push_per_pop",
        "C15_iter_calls", "C15_no_double_fire", "C15_deadline_not_postponed", "C15_recovers",
        "C15_no_spin_on_spurious_empty", "C15_spurious_empty_spins_unrepaired", "C15_no_spin_on_empty_pop",
        "C15_empty_pop_spins_unrepaired", "C15_honest_empty_pop", "C15_empty_queue_keeps_polling"]] +
           # the rate clause at full strength for the loop's read-only calls Size()/Head() under interrupts (finding F4, repaired): PROVED for every well-formed
           # shape and for the regenerated one; the refutation is kept as a negative control for the shape before the repair (`Faults.askFirst`)
           [("QuartzModel.Theorems.C15F4", "Faults." + t) for t in ["C15_size_retry_kept_wf", "C15_size_retry_kept", "C15_size_retry_full_fails"]] +
           [("QuartzModel.Proofs.FaultsLemmas", "Faults.no_tick_before"), ("QuartzModel.Proofs.FaultsLemmas", "Faults.runQ_nodup"),
            ("QuartzModel.Proofs.FaultsLemmas", "Faults.iter_spurious"), ("QuartzModel.Proofs.FaultsLemmas", "Faults.backoff_after")],
    "C16": TRANSJOBS + [("QuartzModel.Theorems.MissingJobs", "Facts.missing_none_jobs")] + [("QuartzModel.Theorems.C16", "Jobs." + t) for t in [
        "C16_facts_tests", "C16_facts_function", "C16_facts_shell", "C16_facts_curl", "C16_facts_accessors",
        "C16_function_status_iff", "C16_shell_status_iff", "C16_status_total", "C16_shell_status_exit", "C16_curl_status_iff",
        "C16_curl_status_failure_iff", "C16_status_iff_code", "C16_function_fields", "C16_shell_fields", "C16_curl_fields",
        "C16_last_execution", "C16_store_order", "C16_serialised", "C16_last_execution_function", "C16_last_execution_shell",
        "C16_last_execution_curl", "C16_fields_mix_without_lock", "C16_callback_once", "C16_open_bodies_le_one",
        "C16_open_bodies_le_one_concurrent", "C16_leak_without_close", "C16_leak_unbounded"]],
    "C18": TRANSLOGGER + [("QuartzModel.Theorems.MissingLogger", "Facts.missing_none_logger")] + [("QuartzModel.Theorems.C18", "Logger." + t) for t in [
        "C18_facts", "C18_facts_output", "C18_facts_slog", "C18_filter", "C18_filter_line", "C18_off_silences_all", "C18_trace_emits_all",
        "C18_level_order", "C18_format", "C18_format_indexed", "C18_format_shapes", "C18_output_line", "C18_label", "C18_complete",
        "C18_mutex", "C18_label_race", "C18_label_race_locked", "C18_noop", "C18_slog_level_map", "C18_slog_attrs"]],
    "C13": TRANSRETRY_C13 + [("QuartzModel.Theorems.C13", "Sched.Retry." + t) for t in [
        "C13_facts", "C13_attempts", "C13_attempts_general", "C13_attempts_structure", "C13_stops_on_success", "C13_cancel_stops",
        "C13_cancel_bound", "C13_cancelled_last", "C13_interval", "C13_interval_time", "C13_panic_ends_sequence", "C13_recovered_iff", "C13_returns"]],
    "C17": TRANSISOLATED + [("QuartzModel.Theorems.C17", "Jobs.Isolated." + t) for t in [
        "C17_facts", "C17_flag_iff", "C17_mutex", "C17_mutex_running", "C17_fail_fast", "C17_busy_only_if_rejected", "C17_reopens",
        "C17_admitted_when_free", "C17_reopens_progress", "C17_reopens_fails_without_defer", "C17_rejected_for_ever_without_defer"]],
    "C12": TRANSRETRY_C12 + [("QuartzModel.Theorems.C12", "Pool." + t) for t in [
        "C12_facts", "C12_blocking_le_one", "C12_blocking_ignores_worker_limit", "C12_pool_le_n", "C12_pool_reaches_n",
        "C12_pool_full_blocks", "C12_unbounded_loop_never_waits", "C12_unbounded_no_bound",
        "C12_blocking_le_one_code", "C12_pool_le_n_code", "C12_unbounded_loop_never_waits_code",
        "C12_handoff_within_run", "C12_stale_worker_steals_shared_channel"]] +
           # the pool model counts one dispatched job, retries included, as one occupancy of its worker / of the blocking loop:
           # the shape of executeWithRetries (no goroutine of its own) is an obligation here as well
           [("QuartzModel.Theorems.C13", "Sched.Retry.C13_facts")],
    "C10": WAKEFACTS + [("QuartzModel.Theorems.C10", "Lifecycle." + t) for t in [
        "C10_facts", "C10_start_idempotent", "C10_stop_idempotent", "C10_isStarted_latest", "C10_started_at_quiescence",
        "C10_cancel_eq_stop", "C10_restart", "C10_restart_unguarded_fails", "C10_cancel_start_race_unrepaired",
        "C10_wait_sound", "C10_wait_returns_at_zero", "C10_wait_independent", "C10_wait_reusable", "C10_waitgroup_reuse_hazard", "C10_ctx_cancelled_on_stop", "C10_isStarted_latest_code", "C10_restart_code"]] +
           [("QuartzModel.Proofs.LifecycleLemmas", "Lifecycle.quiet_iff")] +
           # the lock discipline: every method's lock operations (regenerated) fit the hierarchy for which deadlock freedom is proved
           [("QuartzModel.Theorems.C10Locks", "LockOrder." + t) for t in ["good_step", "C10_lock_order_no_deadlock", "C10_lock_order_reachable",
                                                                         "C10_recursive_rlock_deadlocks", "C10_reverse_order_deadlocks", "blCheck_sound", "C10_mutual_exclusion"]] +
           [("QuartzModel.Theorems.C10LockFacts", "LockOrder." + t) for t in ["C10_lock_shapes_good", "C10_lock_shapes_cover", "C10_no_lock_deadlock_code"]] +
           [("QuartzModel.Theorems.MissingMtx", "Facts.missing_none_mtx")] +
           # "once Wait returns every goroutine the scheduler created has exited": the execution loop must not be able to block for ever inside its
           # dispatch step, where the only channel operation is the offer to MisfiredChan: a `select` with a `default` (regenerated fact and translated validateJob)
           [("QuartzModel.Theorems.SchedFacts", "Sched.misfire_offer_nonblocking")] + _ts("trans_sched_nothing_missing", "trans_validateJob"),
    "C14": [("QuartzModel.Theorems.C14", "Cron." + t) for t in [
        "C14_sound", "C14_no_miss", "C14_expiry", "C14_terminates", "C14_exact_away_from_transitions", "C14_exact_is_least",
        "C14_chain_increasing", "C14_fixed_zone_is_special_case", "C14_total", "C14_reading_advances", "C14_result_reading",
        # the expiry clause at full strength (instants) is FALSE for the code as it is: proved negation with a witness that qh dst replays (known finding)
        "C14_expiry_full_fails"]] +
           [("QuartzModel.Proofs.ZoneLemmas", "Cron.zoneLoop_spec"), ("QuartzModel.Proofs.ZoneLemmas", "Cron.zoneLoop_fuel")] + FACTS[:2] +
           # the C14 theorems hold for the TRANSLATED NextFireTime (loop and state machine), for an arbitrary zone
           TRANS + TRANSCRON_C14,
    "C03": TRANSSCHED_C03 + TIMERFACTS + COMPOSE[:3] + COMPOSE[8:] + SCHEDFACTS + [("QuartzModel.Theorems.C03", "Sched." + t) for t in ['C03_dispatch_has_entry', 'C03_never_early', 'C03_dispatch_is_popped_min', 'C03_own_trigger_once', 'C03_dispatch_answers_own_trigger', 'C03_at_most_once']], "C04": TRANSSCHED_C04 + COMPOSE[3:8] + SCHEDFACTS + [("QuartzModel.Theorems.C12", "Pool.C12_facts")] + [("QuartzModel.Theorems.C04", "Sched." + t) for t in ['C04_accounted', 'C04_suspended_untouched', 'C04_misfire_iff_late', 'C04_misfire_only_if_late', 'C04_leaves_registry', 'C04_no_drift', 'C04_no_drift_start', 'C04_run_once', 'C04_hyps_reachable',
        'C04_saturates', 'C04_interval_answer', 'C04_saturated_registered', 'C04_saturated_not_due', 'C04_saturated_never_spins',
        'wrapAdd_neg', 'C04_addNanos_is_satAdd', 'C04_overflow_spins_unrepaired']] +
           [("QuartzModel.Proofs.SchedLemmas", "Sched." + t) for t in ['satAdd_eq', 'satAdd_sat', 'satAdd_le', 'satAdd_ge', 'no_drift_aux', 'parked_aux']] +
           # the interval triggers of the source are the model's (regenerated fact: SimpleTrigger / RunOnceTrigger / addNanos statements)
           [("QuartzModel.Theorems.TriggerFacts", "Sched.trigger_interval_add"), ("QuartzModel.Theorems.TriggerFacts", "Sched.trigger_fire_spec")], "C08": TRANSSCHED_STEP + _ts("trans_PauseJob", "trans_ResumeJob", "trans_DeleteJob", "trans_Clear") + CLOCKFACTS + SCHEDFACTS + WAKEFACTS + [("QuartzModel.Theorems.C12", "Pool.C12_facts")] + [("QuartzModel.Theorems.C08", "Sched." + t) for t in ['C08_pause_effect', 'C08_resume_from_now', 'C08_paused_no_consumption', 'C08_delete_effect', 'C08_clear_effect', 'C08_paused_no_consumption_reachable', 'C08_delete_effect_reachable', 'C08_clear_effect_reachable',
                # the full-strength "ResumeJob re-activates it" is FALSE for a run-once job paused before its fire time: proved witness (known finding)
                'C08_resume_run_once_fails']],
    "C09": TRANSSCHED_REG + CLOCKFACTS + [("QuartzModel.Theorems.C09", "Sched." + t) for t in ['C09_schedule_error_unchanged', 'C09_schedule_error_state_unchanged', 'C09_delete_error_unchanged', 'C09_pause_error_unchanged', 'C09_resume_error_unchanged', 'C09_schedule_error_iff', 'C09_delete_error_iff', 'C09_pause_error_iff', 'C09_resume_error_iff', 'C09_keys_unique', 'C09_keys_unique_entry', 'C09_keys_unique_count', 'C09_replace_exact', 'C09_no_replace_rejected']] + [("QuartzModel.Theorems.C09Lin", "Sched." + t) for t in ["C09_lock_facts", "C09_unlocked_are_reads", "C09_schedule_reads_under_lock", "pauseOp_run", "C09_linearizable"]] +
           [("QuartzModel.Concurrency.Lock", "Lock.linearizable")] +
           # the loop's pop / classify / ask-the-trigger / push step is one critical section (one atomic step of the linearizability argument)
           [t for t in SCHEDFACTS if t[1] not in ("Sched.C09_lock_facts", "Sched.C09_unlocked_are_reads")],
    "C11": [("QuartzModel.Theorems.C11", "Queue." + t) for t in [
        "hpush_perm", "hpush_heap", "hpop_spec", "hpop_empty", "hremove_spec", "heap_root_min",
        "C11_inv_step", "C11_inv_reachable", "C11_push_new", "C11_push_duplicate", "C11_push_replace", "C11_pop_min",
        "C11_head_min", "C11_empty_errors", "C11_get", "C11_remove", "C11_list_exact", "C11_list_all",
        "StrOp.startsWith_iff", "StrOp.endsWith_iff", "StrOp.contains_iff", "StrOp.equals_iff"]] +
           [("QuartzModel.Theorems.C11Facts", "Queue." + t) for t in ["less_fact", "keyEquals_fact", "heapCalls_fact", "operators_fact", "matchers_fact"]] +
           # "thread-safe": every exported method runs under the queue's own mutex from its first statement (regenerated), hence every
           # interleaving of calls is a sequential order of them and the array a thread finds is a heap with unique keys
           [("QuartzModel.Theorems.C11Lin", "Queue." + t) for t in ["C11_queue_lock_facts", "C11_queue_array_confined", "pushOp_run", "qcallOp_run",
                                                                   "C11_linearizable", "qcall_inv", "C11_concurrent_inv"]] +
           [("QuartzModel.Concurrency.Lock", "Lock.linearizable")] +
           # the queue model IS the code (container/heap of the toolchain included): translated definitions = hand-written model, C11 theorems transferred
           TRANSQUEUE,
    "C01": FACTS + TRANS + TRANSE2E + TRANSCRON_LOOP + _tc("C01_sound_transCron") + ODO + [("QuartzModel.Theorems.C01", "Cron.C01_sound"), ("QuartzModel.Theorems.CronCode", "Cron.C01_sound_code"),
                          ("QuartzModel.Proofs.CronAssembly", "Cron.allValid_iff_matches"), ("QuartzModel.Proofs.DaySpec", "Cron.dayValid_iff"),
                          ("QuartzModel.Proofs.CalendarLemmas", "Cal.Civil.ofSeconds_toSeconds"), ("QuartzModel.Proofs.CalendarLemmas", "Cal.Civil.toSeconds_lt_iff")],
    "C02": FACTS + TRANS + TRANSE2E + TRANSCRON_LOOP + _tc("C02_minimal_transCron") + ODO + [("QuartzModel.Theorems.C02", "Cron." + t) for t in ["C02_minimal", "C02_expired_iff", "C02_chain"]] +
           [("QuartzModel.Theorems.CronCode", "Cron.C02_minimal_code"), ("QuartzModel.Theorems.CronCode", "Cron.C02_expired_iff_code"),
            ("QuartzModel.Proofs.CronAssembly", "Cron.csmNext_spec_some"), ("QuartzModel.Proofs.CronAssembly", "Cron.csmNext_spec_none")],
    "C06": FACTS + TRANS + TRANSCRON_LOOP + _tc("C06_total_transCron") + ODO + [("QuartzModel.Theorems.C06", "Cron." + t) for t in ["C06_total", "nextFire_ne_outOfFuel", "C06_single_pass"]] +
           [("QuartzModel.Theorems.CronCode", "Cron.C06_total_code"), ("QuartzModel.Proofs.CronAssembly", "Cron.csmNext_ne_none")],
    "C07": FACTS + TRANSCRON_C07 + TRANSPARSE + TRANSE2E + [("QuartzModel.Theorems.C07", "Cron." + t) for t in [
        "parse_wellFormed", "newTrigger_wellFormed", "parseField_inRange", "parseField_no_special", "parseDom_shape",
        "parseDow_shape", "C07_rejects_field_count", "C07_rejects_both_days", "C07_rejects_bad_step", "C07_macros",
        "C07_whitespace", "C07_missing_year", "normalize_glossary", "normalize_month", "normalize_day", "atoi_render",
        "C07_name_synonym", "C07_name_synonym_range", "C07_roundtrip_single", "C07_roundtrip_name", "C07_roundtrip_range",
        "C07_roundtrip_step", "C07_roundtrip_star_step", "C07_roundtrip_range_step", "C07_rejects_bad_single",
        "C07_rejects_bad_range", "C07_rejects_bad_step_start", "C07_rejects_bad_list_member", "C07_whitespace_between",
        "C07_whitespace_leading", "C07_whitespace_trailing", "C07_list_meaning", "C07_seven_fields", "C07_accepts"]] + [("QuartzModel.Theorems.CronCode", "Cron.C07_wellFormed_code")],
}
