"""Which Lean theorems are the proof obligations of which property (module, fully qualified name)."""

FACTS = [("QuartzModel.Theorems.Facts", t) for t in [
    "Facts.missing_none", "Facts.limits_eq", "Facts.limitsAux_eq", "Facts.bounds_eq", "Facts.hashRange_eq",
    "Facts.dowShift_eq", "Facts.months_eq", "Facts.days_eq", "Facts.special_eq"]]

ODO = [("QuartzModel.Proofs.Odometer", t) for t in ["Odo.findForward_spec", "Odo.loop_fuel", "Odo.μ6_measure"]]

THEOREMS = {
    "C01": FACTS + ODO,
    "C02": FACTS + ODO,
    "C06": FACTS + ODO,
    "C07": FACTS,
}
