"""Which Lean theorems are the proof obligations of which property (module, fully qualified name)."""

FACTS = [("QuartzModel.Theorems.Facts", t) for t in [
    "Facts.missing_none", "Facts.limits_eq", "Facts.limitsAux_eq", "Facts.bounds_eq", "Facts.hashRange_eq",
    "Facts.dowShift_eq", "Facts.months_eq", "Facts.days_eq", "Facts.special_eq"]]

ODO = [("QuartzModel.Proofs.Odometer", t) for t in ["Odo.findForward_spec", "Odo.loop_fuel", "Odo.μ6_measure"]]

THEOREMS = {
    "C01": FACTS + ODO,
    "C02": FACTS + ODO,
    "C06": FACTS + ODO,
    "C07": FACTS + [("QuartzModel.Theorems.C07", "Cron." + t) for t in [
        "parse_wellFormed", "newTrigger_wellFormed", "parseField_inRange", "parseField_no_special", "parseDom_shape",
        "parseDow_shape", "C07_rejects_field_count", "C07_rejects_both_days", "C07_rejects_bad_step", "C07_macros",
        "C07_whitespace", "C07_missing_year"]],
}
