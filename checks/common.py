"""Shared machinery of the /verif checks: build, facts, model driver, audit, evidence, reports."""
import fcntl, hashlib, json, os, re, shutil, subprocess, sys, time

VERIF = os.path.dirname(os.path.dirname(os.path.abspath(__file__)))
REPO = os.environ.get("VERIF_REPO", "/repo")
BUILD = os.path.join(VERIF, "build")
BIN = os.path.join(BUILD, "bin")
LEAN = os.path.join(VERIF, "lean")
QH = os.path.join(BIN, "qh")
EXTRACT = os.path.join(BIN, "extract")
# (binary, generated Lean file, its namespace, json summary); order matters: TransCron.lean imports Trans.lean
TRANSLATORS = [("gotolean", "Trans.lean", "Generated.Trans", "trans.json"),
               ("gotolean-cron", "TransCron.lean", "Generated.TransCron", "trans_cron.json"),
               # the TEXT level of the cron parser (quartz/cron.go, util.go); imports TransCron.lean
               ("gotolean-parse", "TransParse.lean", "Generated.TransParse", "trans_parse.json"),
               # quartz/queue.go, job_key.go, matcher/*.go AND the toolchain's container/heap/heap.go
               ("gotolean-queue", "TransQueue.lean", "Generated.TransQueue", "trans_queue.json"),
               # quartz/scheduler.go: validateJob, fetchAndReschedule, the seven registry methods; quartz/trigger.go
               ("gotolean-sched", "TransSched.lean", "Generated.TransSched", "trans_sched.json"),
               # quartz/scheduler.go: one iteration of startExecutionLoop, calculateNextTick, executeAndReschedule, Reset; imports TransSched.lean
               ("gotolean-loop", "TransLoop.lean", "Generated.TransLoop", "trans_loop.json"),
               # quartz/scheduler.go: executeWithRetries, the dispatch switch, startWorkers
               ("gotolean-retry", "TransRetry.lean", "Generated.TransRetry", "trans_retry.json"),
               # logger/*.go and job/isolated_job.go
               ("gotolean-logger", "TransLogger.lean", "Generated.TransLogger", "trans_logger.json"),
               # job/function_job.go, shell_job.go, curl_job.go, job_status.go
               ("gotolean-jobs", "TransJobs.lean", "Generated.TransJobs", "trans_jobs.json")]
QMODEL = os.path.join(LEAN, ".lake", "build", "bin", "qmodel")
GOENV = dict(os.environ, GOFLAGS="-mod=mod", GOPROXY="off", GOSUMDB="off", GOTOOLCHAIN="local",
             CGO_ENABLED=os.environ.get("CGO_ENABLED", "0"))
ALLOWED_AXIOMS = {"propext", "Classical.choice", "Quot.sound"}
FORBIDDEN = re.compile(r"\b(sorry|admit|native_decide|bv_decide|implemented_by|unsafe)\b|^\s*axiom\s|maxHeartbeats\s+0\b")


def sh(cmd, cwd=None, env=None, timeout=None, stdin=None):
    """Run a command; returns (exit code, combined output). Never raises on failure."""
    try:
        p = subprocess.run(cmd, cwd=cwd, env=env, timeout=timeout, input=stdin, stdout=subprocess.PIPE,
                           stderr=subprocess.STDOUT, text=True, errors="replace")
        return p.returncode, p.stdout
    except subprocess.TimeoutExpired as e:
        out = e.stdout if isinstance(e.stdout, str) else (e.stdout or b"").decode("utf8", "replace")
        return 124, (out or "") + "\n[timeout after %ss]" % timeout


class Lock:
    def __init__(self, name="build.lock"):
        os.makedirs(BUILD, exist_ok=True)
        self.path = os.path.join(BUILD, name)

    def __enter__(self):
        self.f = open(self.path, "w")
        fcntl.flock(self.f, fcntl.LOCK_EX)
        return self

    def __exit__(self, *a):
        fcntl.flock(self.f, fcntl.LOCK_UN)
        self.f.close()


class Ctx:
    def __init__(self, pid, tier, seed):
        self.pid, self.tier, self.seed = pid, tier, seed
        self.t0 = time.time()
        self.dir = os.path.join(BUILD, "run", pid)
        os.makedirs(self.dir, exist_ok=True)
        # two runs of the SAME property share this directory and the replay / evidence files: the second one waits for the first
        # (runs of different properties proceed in parallel; only the build is serialised, behind build/build.lock)
        import fcntl
        self._plock = open(os.path.join(BUILD, "run", pid + ".lock"), "w")
        fcntl.flock(self._plock, fcntl.LOCK_EX)
        os.makedirs(os.path.join(BUILD, "replay"), exist_ok=True)
        self.violations = []        # (replay path, summary, no_input)
        self.known = []             # KNOWN-FINDING lines
        self.coverage = {}
        self.assumptions = []
        self.lean_ok = True
        self.lean_log = ""
        self.facts = {}
        self.replay_n = 0

    @property
    def thorough(self):
        return self.tier == "thorough"

    def log(self, *a):
        print("[%s %6.1fs]" % (self.pid, time.time() - self.t0), *a, flush=True)


# ----------------------------------------------------------------------------- build

def build_go(ctx):
    os.makedirs(BIN, exist_ok=True)
    # build into a staging directory and move each binary into place atomically: another check (of another property) may be
    # executing build/bin/qh right now; an unchanged binary is left alone
    stage = os.path.join(BUILD, "bin.stage")
    os.makedirs(stage, exist_ok=True)
    rc, out = sh(["go", "build", "-o", stage + "/", "./cmd/..."], cwd=os.path.join(VERIF, "harness"), env=GOENV, timeout=600)
    if rc != 0:
        return False, out
    import filecmp
    for fn in os.listdir(stage):
        src, dst = os.path.join(stage, fn), os.path.join(BIN, fn)
        if os.path.exists(dst) and filecmp.cmp(src, dst, shallow=False):
            continue
        tmp = dst + ".new.%d" % os.getpid()
        shutil.copy2(src, tmp)
        os.replace(tmp, dst)
    return True, out


def build_all(ctx, lake_targets=None):
    """go build, regenerate facts from /repo, lake build. Returns dict(go_ok, lean_ok, logs)."""
    with Lock():
        ok, out = build_go(ctx)
        if not ok:
            ctx.log("go build of the harness against /repo failed:\n" + out[-3000:])
            return {"go_ok": False, "lean_ok": False, "go_log": out}
        facts_json = os.path.join(BUILD, "facts.json")
        rc, out = sh([EXTRACT, "-repo", REPO, "-lean", os.path.join(LEAN, "QuartzModel/Generated/Facts.lean"), "-json", facts_json], timeout=300)
        if out.strip():
            ctx.log(out.strip())
        try:
            ctx.facts = json.load(open(facts_json))
        except Exception:
            ctx.facts = {}
        # the translators: Go source -> Generated/Trans*.lean (definitions regenerated from the source on every run; the Trans* theorems say
        # they equal the hand-written model). A function a translator cannot translate is listed in `Generated.Trans*.missing` (the theorem
        # `…nothing_missing` then fails); a translator crash leaves a stub with a non-empty `missing`: both are broken obligations.
        for binary, leanfile, ns, jsonfile in TRANSLATORS:
            exe = os.path.join(BIN, binary)
            if not os.path.exists(exe):
                continue
            target = os.path.join(LEAN, "QuartzModel/Generated", leanfile)
            tj = os.path.join(BUILD, jsonfile)
            rc, out = sh([exe, "-repo", REPO, "-out", target, "-json", tj], timeout=300)
            if rc != 0:
                ctx.log("%s failed (rc=%d): %s" % (binary, rc, out.strip()[-800:]))
                open(target, "w").write("/- %s failed on the current source -/\nnamespace %s\ndef missing : List String := [\"translator-failed\"]\nend %s\n" % (binary, ns, ns))
            try:
                ctx.facts.setdefault("translated", {})[binary] = json.load(open(tj))
            except Exception:
                pass
        t = time.time()
        rc, out = sh(["lake", "build"] + (lake_targets or []), cwd=LEAN, timeout=3000)
        ctx.lean_ok = rc == 0
        ctx.lean_log = out
        ctx.log("lake build %s in %.1fs" % ("ok" if rc == 0 else "FAILED", time.time() - t))
        failed = re.findall(r"^- (\S+)$", out, re.M) if rc != 0 else []
        if rc != 0 and not os.path.exists(QMODEL):
            ctx.log(out[-3000:])
        return {"go_ok": True, "lean_ok": rc == 0, "failed_modules": failed, "lean_log": out}


def lean_failed_modules(ctx):
    return re.findall(r"^- (\S+)$", ctx.lean_log, re.M) if not ctx.lean_ok else []


def modules_reaching(failed):
    """modules of the Lean project that are in `failed` or import one of them, transitively (from the import lines)"""
    imports = {}
    for root, _, files in os.walk(LEAN):
        if ".lake" in root:
            continue
        for fn in files:
            if fn.endswith(".lean"):
                p = os.path.join(root, fn)
                mod = os.path.relpath(p, LEAN)[:-5].replace(os.sep, ".")
                imports[mod] = re.findall(r"^import\s+(\S+)", open(p, errors="replace").read(), re.M)
    reach = set(failed)
    changed = True
    while changed:
        changed = False
        for m, deps in imports.items():
            if m not in reach and any(d in reach for d in deps):
                reach.add(m)
                changed = True
    return reach


# ----------------------------------------------------------------------------- proof audit

def audit(ctx, module, theorems):
    """#print axioms for each theorem of a module. Returns {thm: sorted axiom list | None (missing)}."""
    res = {t: None for t in theorems}
    if not theorems:
        return res
    src = "import %s\n" % module + "".join("#print axioms %s\n" % t for t in theorems)
    path = os.path.join(ctx.dir, "Audit_%s.lean" % ctx.pid)
    open(path, "w").write(src)
    rc, out = sh(["lake", "env", "lean", path], cwd=LEAN, timeout=900)
    for m in re.finditer(r"'([^']+)' depends on axioms: \[([^\]]*)\]", out, re.S):
        res[m.group(1)] = sorted(a.strip() for a in m.group(2).replace("\n", " ").split(",") if a.strip())
    for m in re.finditer(r"'([^']+)' does not depend on any axioms", out):
        res[m.group(1)] = []
    ctx.audit_log = out
    return res


def forbidden_tokens():
    """Scan the Lean sources for tokens that would weaken the trusted base (comments stripped)."""
    hits = []
    for root, _, files in os.walk(LEAN):
        if ".lake" in root:
            continue
        for fn in files:
            if not fn.endswith(".lean"):
                continue
            p = os.path.join(root, fn)
            txt = open(p, errors="replace").read()
            txt = re.sub(r"/-.*?-/", lambda m: "\n" * m.group(0).count("\n"), txt, flags=re.S)
            for i, line in enumerate(txt.split("\n"), 1):
                line = line.split("--")[0]
                if FORBIDDEN.search(line):
                    hits.append("%s:%d: %s" % (os.path.relpath(p, VERIF), i, line.strip()[:100]))
    return hits


def proof_coverage(ctx, module, theorems, extra_trusted=None):
    """Fill the proof-level coverage keys; returns list of undischarged theorem names."""
    ax = audit(ctx, module, theorems) if ctx.lean_ok or os.path.exists(os.path.join(LEAN, ".lake")) else {t: None for t in theorems}
    bad = [t for t, a in ax.items() if a is None or not set(a) <= ALLOWED_AXIOMS]
    hits = forbidden_tokens()
    if hits:
        ctx.log("forbidden tokens in Lean sources:", hits[:5])
        bad = list(theorems)
    ctx.coverage.update({
        "obligations": len(theorems),
        "discharged": len(theorems) - len(bad),
        "theorems": theorems,
        "axioms": {t: a for t, a in ax.items()},
        "undischarged": bad,
        "forbidden_token_hits": hits,
        "checker_cmd": "cd /verif/lean && lake build && lake env lean <file with `#print axioms` for each listed theorem> (thorough tier additionally: lake env leanchecker %s)" % module,
        "trusted_base": ["Lean 4.33.0 kernel", "fact extractor harness/cmd/extract (go/ast+go/types pattern matching)",
                         "Go harness + diff driver (checks/*.py, harness/cmd/qh)",
                         "Lean code generator (only for running the model in the correspondence check)"] + (extra_trusted or []),
    })
    return bad


def leanchecker(ctx, module):
    rc, out = sh(["lake", "env", "leanchecker", module], cwd=LEAN, timeout=1800)
    ctx.coverage["leanchecker"] = {"module": module, "exit": rc, "tail": out[-300:]}
    return rc == 0


# ----------------------------------------------------------------------------- model driver

def run_model(ctx, ops_path, out_path, timeout=1800):
    with open(ops_path) as fin, open(out_path, "w") as fout:
        try:
            p = subprocess.run([QMODEL], stdin=fin, stdout=fout, stderr=subprocess.PIPE, timeout=timeout)
            return p.returncode == 0
        except subprocess.TimeoutExpired:
            return False


def read_lines(path):
    with open(path, errors="replace") as f:
        return f.read().split("\n")[:-1]


# ----------------------------------------------------------------------------- reports

def known_findings():
    out = []
    p = os.path.join(VERIF, "known_findings.txt")
    if os.path.exists(p):
        for l in open(p):
            l = l.strip()
            if l.startswith("finding:"):
                m = re.match(r"finding:\s*property=(\S+)\s+key=(\S+)\s*(.*)", l)
                if m:
                    out.append({"property": m.group(1), "key": m.group(2), "text": m.group(3)})
    return out


def report_violation(ctx, summary, replay, no_input=False, key=None):
    """Record a violation (or a KNOWN-FINDING if its key is listed). replay: JSON-able dict."""
    if key:
        for kf in known_findings():
            if kf["property"] == ctx.pid and kf["key"] == key:
                line = "KNOWN-FINDING: property=%s %s" % (ctx.pid, kf["text"] or summary)
                if line not in ctx.known:
                    ctx.known.append(line)
                    print(line, flush=True)
                return
    ctx.replay_n += 1
    path = os.path.join(BUILD, "replay", "%s-%d.json" % (ctx.pid, ctx.replay_n))
    replay = dict(replay)
    replay.update({"property": ctx.pid, "summary": summary, "seed": ctx.seed, "tier": ctx.tier,
                   "no_failing_input_found": no_input,
                   "rerun": "cd /verif && ./check %s --replay %s" % (ctx.pid, path)})
    json.dump(replay, open(path, "w"), indent=1)
    ctx.violations.append((path, summary, no_input))
    if len(ctx.violations) <= 5:
        print("VIOLATION property=%s replay=%s%s" % (ctx.pid, path, " no-failing-input-found" if no_input else ""), flush=True)
        print("  ", summary[:400], flush=True)


def write_evidence(ctx, level="proof"):
    ev = {
        "property_id": ctx.pid, "tier": ctx.tier, "seed": ctx.seed, "level": level,
        "coverage": ctx.coverage, "assumptions": ctx.assumptions,
        "wall_s": round(time.time() - ctx.t0, 2), "violations": len(ctx.violations),
    }
    if ctx.facts:
        ev["coverage"].setdefault("facts", ctx.facts)
    os.makedirs(os.path.join(VERIF, "evidence"), exist_ok=True)
    json.dump(ev, open(os.path.join(VERIF, "evidence", ctx.pid + ".json"), "w"), indent=1, sort_keys=True)


def finish(ctx, level="proof"):
    write_evidence(ctx, level)
    if ctx.violations:
        ctx.log("%d violation(s)" % len(ctx.violations))
        return 1
    ctx.log("ok: property held on everything explored")
    return 0
