"""C16: built-in jobs report each execution faithfully and do not leak resources."""
import os
from . import common, generic

RULE = ("one evaluation = one Execute of a real FunctionJob / ShellJob / CurlJob through the public API, written as one protocol line: "
        "a status decision (`jobs function|shell|curl`: all exit codes 0..255 through bash incl. stdout/stderr capture, 1 MiB outputs, a command that cannot "
        "start, a killed command; all HTTP status codes 0..1100 plus nil response / nil body / response+error through a scripted job.HTTPHandler, codes "
        "200..599 through a loopback httptest.Server; nil and non-nil errors with zero and non-zero results of six result types) or one step of a sequence of "
        "executions with different outcomes on ONE job object (`jobs seq …`: all accessors, Execute's return value, open/closed response bodies after each "
        "step). Compared exactly with the Lean model (level 1) and judged independently against the property (level 2): status OK iff nil error / exit 0 / "
        "2xx-3xx, Execute returns the underlying error, accessors = the last execution, callback once per execution, fields of ONE execution after "
        "8x40 concurrent executions, 2..4 OVERLAPPING executions of one unwrapped FunctionJob with a scripted (channel-synchronised) completion order (all orders "
        "of 2 and 3 with every nil/error combination, seeded orders of 4: after each completion the accessors are those of the execution that completed last, "
        "whichever started last), 72 executions of a FunctionJob that does not watch its context under a context that is over when the function returns "
        "(cancelled / past its deadline, before the call / during the run, channel-synchronised; nil and own errors, fresh job and second execution): the outcome "
        "is what the function returned, a simple command that ignores SIGINT (`trap '' INT; exec sleep 4`, context cancelled / timed out once the trap is "
        "installed) is gone within 2 s, cancellation aborts a sleeping function / `sleep 5` / a hanging HTTP handler within 2 s, and goroutines / descriptors / "
        "child processes / open bodies after 100 vs 300 sequential + 8x40 concurrent executions differ by at most a small constant; a CurlJob whose custom "
        "HTTPHandler PANICS on its k-th call (k = 1, 2, 3 and a seeded one; three answer scripts; with and without callback; the panic recovered as the scheduler "
        "does): JobStatus() / DumpResponse() answer within 8 s, the next three executions run, call the handler and are reported faithfully (status, stored "
        "response, returned error, one callback each), at most one body open; the same with 4 goroutines x 12 executions of one job and through a real "
        "scheduler (5 ms trigger, panic at the second fire time: at least 8 handler calls within 8 s, no goroutine growth). "
        "non-trivial = every evaluation executes real code; distinct by protocol line")

TRUSTED = [
    "os/exec: cmd.Run returns an error iff the reported exit code is not 0 (-1 = not started / killed by a signal); exec.CommandContext kills the shell when "
    "the context ends — observed for exit codes 0..255, an unstartable and a killed command, not proved (ShOut.ExecContract is a hypothesis of C16_shell_status_exit)",
    "net/http: closing a response body releases its connection and the transport's goroutines; Request.WithContext aborts the round trip — observed "
    "(goroutine / descriptor / open-body counts 100 vs 300 executions, hanging handler), not proved; the model counts bodies handed out by Do and closed by Execute",
    "sync.Mutex gives mutual exclusion: the model takes the critical section of Execute (everything between mtx.Lock() and mtx.Unlock(), tied by the facts "
    "`*StoreInLock`) as one atomic step; data races outside it are looked for with the race detector in the thorough tier",
]


def _race(ctx):
    rc, out = common.sh(["go", "build", "-race", "-o", common.BIN + "/qh_race", "./cmd/qh"], cwd=os.path.join(common.VERIF, "harness"),
                        env=dict(common.GOENV, CGO_ENABLED="1"), timeout=900)
    if rc != 0:
        ctx.coverage["race_detector_run"] = {"skipped": "go build -race failed: " + out[-200:]}
        return
    d = os.path.join(ctx.dir, "race")
    os.makedirs(d, exist_ok=True)
    rc, out = common.sh([common.BIN + "/qh_race", "jobs", "--seed", str(ctx.seed), "--n", "20", "--leak", "90", "--maxcode", "600", "--out", d], timeout=1800)
    ctx.coverage["race_detector_run"] = {"exit": rc, "tail": out[-300:]}
    if rc != 0 or "DATA RACE" in out:
        i = out.find("WARNING: DATA RACE")
        out = out[i:] if i >= 0 else out[-4000:]
        common.report_violation(ctx, "C16 data race (or failure) while executing one job object from 8 goroutines under -race: " + " ".join(out[:700].split()),
                                {"engine": "jobs -race", "log": out[:6000]})


def run(ctx):
    b = common.build_all(ctx)
    if not b.get("go_ok"):
        common.report_violation(ctx, "the harness no longer builds against /repo", {"log": b.get("go_log", "")[-2000:]}, no_input=True)
        return common.finish(ctx)
    if not ctx.thorough:
        results = [generic.engine_run(ctx, "jobs", ["--seed", str(ctx.seed), "--n", "40"], "main", timeout=600)]
    else:
        results = [generic.engine_run(ctx, "jobs", ["--seed", str(ctx.seed), "--n", "400", "--leak", "900", "--maxcode", "5000"], "main", timeout=1500)]
        for k in range(1, 4):
            results.append(generic.engine_run(ctx, "jobs", ["--seed", str(ctx.seed * 1000 + k), "--n", "200", "--leak", str(300 * k)], "extra%d" % k, timeout=1500))
        _race(ctx)
    bad = generic.proof_cov(ctx, extra_trusted=TRUSTED)
    concrete, tie = generic.judge(ctx, results, bad, "jobs",
                  widen=lambda: (generic.engine_run(ctx, "jobs", ["--seed", str(ctx.seed * 7919 + k), "--n", "120", "--leak", "600"], "search%d" % k, timeout=1500)
                                 for k in range(1, 3)))
    if (bad or tie) and not concrete and not ctx.thorough:
        _race(ctx)  # a broken tie without a failing input: look for a data race before giving up
    generic.fill_coverage(ctx, results, RULE)
    ok = [r for r in results if not r.get("failed")]
    notes = sorted({n for r in ok for n in (r["stats"].get("notes") or [])})
    if notes:
        ctx.coverage["observations"] = notes[:10]
    leaks = [s for r in ok[:1] for s in r["stats"].get("samples", []) if isinstance(s, dict) and "leak" in s]
    if leaks:
        ctx.coverage["resource_counts"] = leaks
    ctx.coverage["proved_vs_observed"] = {
        "proved (Lean, all inputs / all interleavings of the model)": [
            "status decision tables for every error flag, every exit outcome and every Nat status code (C16_*_status_iff)",
            "accessors = fields of the execution whose critical section ran last, never a mixture, in every interleaving (C16_last_execution*, C16_serialised)",
            "callbacks = completed executions, once each (C16_callback_once)",
            "CurlJob: at most one response body open at every reachable state, closes + open = bodies handed out (C16_open_bodies_le_one*)",
            "CurlJob (translated code): a panicking HTTPHandler.Do / Body.Close leaves Execute with the mutex RELEASED — the last recorded event is the "
            "deferred unlock (trans_curl_do_panic_releases_lock, trans_curl_close_panic_releases_lock)",
            "negative controls: without Body.Close() before Do the open bodies equal the number of responses (C16_leak_without_close, C16_leak_unbounded); "
            "without the mutex two executions can leave mixed fields (C16_fields_mix_without_lock)"],
        "tie (regenerated facts, C16_facts_*)": "operators and constants of the three status tests, Close before Do under the lock and guarded by nil tests only, "
                                                  "all stored fields assigned between one Lock and one Unlock (CurlJob: in the helper `do`, run by `err := cu.do(ctx)`, below `cu.mtx.Lock(); defer cu.mtx.Unlock()`), `return err`, one callback call site outside any loop after Unlock, "
                                                  "accessors read under the mutex, exec.CommandContext(ctx) / Request.WithContext(ctx)",
        "observed only (harness)": ["os/exec and net/http contracts", "context cancellation aborts within 2 s", "no growth of goroutines, descriptors, child processes"],
    }
    ctx.assumptions.append("the outcome of one run of the user function / shell command / HTTP round trip is an input of the model; concurrent executions are "
                           "threads idle -> ran -> stored -> done whose store step is the critical section of Execute")
    return common.finish(ctx)


def replay(ctx, path):
    import json
    print(json.dumps(json.load(open(path)), indent=1)[:4000])
    return 1
