"""C14: cron triggers across daylight-saving transitions."""
from . import common, generic

RULE = ("one evaluation = one protocol line: a zone definition (transitions 1960-2262 read with Time.ZoneBounds), one time.Date validation "
        "(wall-clock reading within +-3 h of a transition: Go's answer vs the Lean transcription of its two-lookup resolution), or one "
        "NextFireTime(prev) in an IANA zone with prev within 36 h of a transition (real code in supervised workers vs Lean model, exact), "
        "judged by a per-second wall-clock oracle that allows only the documented latitude (gap skip / overlap once-or-twice); "
        "non-trivial = a NextFireTime case with a transition within two days of [prev, result]; zones, transitions and expressions drawn from one PRNG")


def run(ctx):
    b = common.build_all(ctx)
    if not b.get("go_ok"):
        common.report_violation(ctx, "the harness no longer builds against /repo", {"log": b.get("go_log", "")[-2000:]}, no_input=True)
        return common.finish(ctx)
    if not ctx.thorough:
        results = [generic.engine_run(ctx, "dst", ["--seed", str(ctx.seed), "--zones", "24", "--per-zone", "10"], "main", timeout=1500)]
    else:
        results = [generic.engine_run(ctx, "dst", ["--seed", str(ctx.seed), "--zones", "0", "--per-zone", "14", "--date-samples", "120"], "main", timeout=3000)]
        results.append(generic.engine_run(ctx, "dst", ["--seed", str(ctx.seed * 1000 + 1), "--zones", "120", "--per-zone", "30"], "extra1", timeout=3000))
    bad = generic.proof_cov(ctx, extra_trusted=["Go time package: zone data (tzdata), ZoneBounds, and which occurrence time.Date picks in gaps/overlaps (the theorems assume nothing about it; its transcription TZ.date is compared, not verified)"])
    generic.judge(ctx, results, bad, "dst",
                  widen=lambda: (generic.engine_run(ctx, "dst", ["--seed", str(ctx.seed * 7919 + k), "--zones", "60", "--per-zone", "20"], "search%d" % k, timeout=3000) for k in range(1, 3)))
    generic.fill_coverage(ctx, results, RULE)
    ctx.assumptions.append("which occurrence of an ambiguous local time fires first is time.Date's choice; the property allows either")
    return common.finish(ctx)


def replay(ctx, path):
    import json
    print(json.dumps(json.load(open(path)), indent=1)[:4000])
    return 1
