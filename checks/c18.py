"""C18: loggers filter by level and label every record with its own level."""
import os
from . import common, generic

RULE = ("one evaluation = one call of Trace/Debug/Info/Warn/Error on a real SimpleLogger (over a log.Logger with flags 0 writing to a buffer), SlogLogger (over a "
        "capturing slog.Handler) or NoOpLogger, written as one protocol line: 5 levels x thresholds {-9..13, the six constants, +-10^6} x 0..5 string arguments "
        "(plus ints / nil / errors / Stringers in key and value position, handed to the model in rendered form); the exact bytes written resp. the captured "
        "record (level, message, attributes in order) are compared with the Lean model (level 1) and judged independently (level 2): written iff level >= "
        "threshold, nothing at LevelOff, line = own prefix + msg=<msg> + arguments in order + one line end. Sequential histories on ONE *log.Logger shared by three SimpleLoggers "
        "(different thresholds) and its owner (SetPrefix / Print in between; every pair of levels a.X; c.Y; a.X and 150 seeded histories): the bytes appended by "
        "every SimpleLogger call are exactly its record under its own level's label, or nothing below its threshold. A SlogLogger built with a context that is "
        "cancelled / reaches its deadline afterwards, or was over before (every threshold x 5 ways x 5 levels, capturing handler and TextHandler): records logged "
        "while it is live and after it has ended reach the handler iff level >= threshold. A SimpleLogger over a log.Logger whose writer fails for some Write calls "
        "(first call, k in a row, every third, short writes, destination replaced by the owner, 60 seeded histories): every call at or above the threshold hands the "
        "writer exactly its own line in one Write, also after earlier write errors; calls below never touch it. Property-level concurrency judgment (not a "
        "differential): 16 goroutines x 5000 self-describing records on ONE SimpleLogger (thresholds Trace and Info) and ONE SlogLogger: every captured line's "
        "label equals the level named in its own text, exactly the enabled records appear, once each, per-goroutine order kept. "
        "non-trivial = every evaluation; distinct by protocol line")

TRUSTED = [
    "log.Logger.Output reads the prefix and writes prefix+message as one line under its own mutex; SetPrefix is visible to the next Output of the same "
    "goroutine — observed (exact line comparison, 80 000-line concurrency runs), not proved: the model's Output step reads the shared prefix variable and appends one line atomically",
    "fmt renders %s / %v of strings as the string itself (the model works on rendered arguments); non-string arguments are judged on the Go side only",
    "log/slog: Record.Add pairs the arguments (lone tail under !BADKEY), Logger.Enabled asks the handler; handlers are the user's — observed with a capturing handler and the TextHandler",
    "sync.Mutex gives mutual exclusion (the model has the mutex as a variable: C18_mutex is proved from the Lock/Unlock steps, tied by the fact `outputShape`)",
]


def _race(ctx):
    rc, out = common.sh(["go", "build", "-race", "-o", common.BIN + "/qh_race", "./cmd/qh"], cwd=os.path.join(common.VERIF, "harness"),
                        env=dict(common.GOENV, CGO_ENABLED="1"), timeout=900)
    if rc != 0:
        ctx.coverage["race_detector_run"] = {"skipped": "go build -race failed: " + out[-200:]}
        return
    d = os.path.join(ctx.dir, "race")
    os.makedirs(d, exist_ok=True)
    rc, out = common.sh([common.BIN + "/qh_race", "logger", "--seed", str(ctx.seed), "--n", "1", "--lines", "2000", "--out", d], timeout=1800)
    ctx.coverage["race_detector_run"] = {"exit": rc, "tail": out[-300:]}
    if rc != 0 or "DATA RACE" in out:
        i = out.find("WARNING: DATA RACE")
        out = out[i:] if i >= 0 else out[-4000:]
        common.report_violation(ctx, "C18 data race (or failure) while 16 goroutines log through one logger under -race: " + " ".join(out[:700].split()),
                                {"engine": "logger -race", "log": out[:6000]})


def run(ctx):
    b = common.build_all(ctx)
    if not b.get("go_ok"):
        common.report_violation(ctx, "the harness no longer builds against /repo", {"log": b.get("go_log", "")[-2000:]}, no_input=True)
        return common.finish(ctx)
    if not ctx.thorough:
        results = [generic.engine_run(ctx, "logger", ["--seed", str(ctx.seed), "--n", "3"], "main", timeout=600)]
        results.append(generic.engine_run(ctx, "logger", ["--seed", str(ctx.seed + 1), "--n", "1", "--goroutines", "32", "--lines", "5000"], "conc2", timeout=600))
    else:
        results = [generic.engine_run(ctx, "logger", ["--seed", str(ctx.seed), "--n", "25", "--lines", "40000"], "main", timeout=1500)]
        for k in range(1, 6):
            results.append(generic.engine_run(ctx, "logger", ["--seed", str(ctx.seed * 1000 + k), "--n", "8", "--goroutines", str(8 * k), "--lines", "20000"],
                                              "extra%d" % k, timeout=1500))
        _race(ctx)
    bad = generic.proof_cov(ctx, extra_trusted=TRUSTED)
    concrete, tie = generic.judge(ctx, results, bad, "logger",
                  widen=lambda: (generic.engine_run(ctx, "logger", ["--seed", str(ctx.seed * 7919 + k), "--n", "12", "--goroutines", "32", "--lines", "30000"],
                                                    "search%d" % k, timeout=1500) for k in range(1, 4)))
    if (bad or tie) and not concrete and not ctx.thorough:
        _race(ctx)  # a broken tie without a failing input: look for a data race before giving up
    generic.fill_coverage(ctx, results, RULE)
    ok = [r for r in results if not r.get("failed")]
    ctx.coverage["concurrent_lines_judged"] = sum(r["stats"].get("concurrent_lines_judged", 0) for r in ok)
    ctx.coverage["proved_vs_observed"] = {
        "proved (Lean, all inputs / all interleavings of the model)": [
            "written iff threshold <= level for every Int threshold and the five levels; LevelOff and above silence everything (C18_filter, C18_off_silences_all)",
            "the line body is msg=<msg> followed by the arguments in order, by structure and by position; nothing dropped or reordered (C18_format, C18_format_indexed)",
            "with the mutex, in every interleaving of any number of goroutines every written line carries the prefix of its own level and passed the filter; "
            "per goroutine exactly its enabled records are written, in order (C18_label, C18_mutex, C18_complete)",
            "negative control: without the mutex a two-goroutine interleaving writes a WARN record with the prefix ERROR (C18_label_race)",
            "NoOpLogger writes nothing; SlogLogger hands slog the numeric level of the method and a record iff the handler is enabled (C18_noop, C18_slog_level_map)"],
        "tie (regenerated facts, C18_facts*)": "the six level constants, the five prefixes, `level >= l.level`, which constant and prefix each method uses, "
                                                 "Lock / deferred Unlock / SetPrefix / Output in output, the verbs and loop of formatMessage, empty NoOpLogger bodies, SlogLogger's level arguments and guard",
        "observed only (harness)": ["log.Logger's own atomic line write", "fmt rendering of non-string arguments", "slog.Record.Add and handler behaviour"],
    }
    ctx.assumptions.append("arguments are modelled as already rendered strings (%s and %v are the identity on them); a goroutine's logging call is the step sequence "
                           "filter -> Lock -> SetPrefix -> Output -> Unlock on one shared prefix variable")
    return common.finish(ctx)


def replay(ctx, path):
    import json
    print(json.dumps(json.load(open(path)), indent=1)[:4000])
    return 1
