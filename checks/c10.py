"""C10: lifecycle — start / stop / cancel / wait / restart behave and leak nothing."""
import os
from . import common, generic

RULE = ("one evaluation = one judged observation on a real StdScheduler driven through Start / Stop / context cancellation / Wait / IsStarted in the three execution "
        "modes (default, BlockingExecution, WorkerLimit 3): Start;Start;Start (exactly one execution loop), Stop;Stop and Stop before Start, 300x Start;Stop;Start and "
        "200x Start;cancel;Start with no delay (IsStarted true at once and still true after the stale watcher ran; a 10 ms job fires), shutdown through Stop and "
        "through cancellation with identical observable state (IsStarted false within 1 s, running jobs see ctx.Done within 1 s, Wait returns within 2 s, afterwards "
        "nothing in flight, nothing starts within 100 ms, no goroutine with a frame of package quartz in the goroutine dump, restart works), Wait with an expiring "
        "context while a job hangs, 100 vs 1000 expired Waits on a running scheduler (the number of goroutines of the process must not grow), 50x per mode "
        "Start; Wait(expiring ctx)x64; Stop; Start; Stop; Wait in a CHILD process (a runtime panic kills the process: reported as a violation), and random call sequences (Start, Start with a cancelled context, Stop, cancel of the current / of an earlier run's context, "
        "pauses) after each call of which IsStarted is compared with the call-order specification `Lifecycle.expect` of the Lean model. A sequence is non-trivial "
        "if it has >= 3 calls; distinct by (mode, call sequence). No exact differential run of the interleavings (they are not replayable): the theorems cover every "
        "interleaving of the model, the tie is the regenerated shape of Start/Stop/stopRun/stop/IsStarted/Wait and the goroutine accounting plus this run")

MISFIRE_RULE = (". Plus (qh misfire --prop C10) schedulers configured with WithMisfiredChan(ch), ch unbuffered or with a buffer of 1, which nobody reads, in the modes "
                "default / BlockingExecution / WorkerLimit 2: misfires are produced (jobs whose time passed while the scheduler was not running; jobs whose trigger "
                "reports a fire time 10 s in the past on a running scheduler; in blocking mode a 40 ms job due every 5 ms with OutdatedThreshold 10 ms) until the channel "
                "is full, then Stop or cancellation: IsStarted false within 2 s, Wait returns within 8 s, GetJobKeys / ScheduleJob / GetScheduledJob / PauseJob / ResumeJob / "
                "DeleteJob return within 5 s each, nothing in flight or starting, no goroutine of package quartz, a second Start fires a 5 ms job within 3 s (14 scenarios per round); "
                "and restart-busy (3 per round): WorkerLimit n in 2..11, Stop;Start or cancel;Start while all n workers are inside jobs that ignore their context, the n workers "
                "of the new run occupied and 3n more jobs due while the old jobs return one by one: every execution that starts on the started scheduler must find its "
                "context live (the total number of concurrent executions across runs is the recorded finding C12 restart-overlap and is not judged)")



def run(ctx):
    b = common.build_all(ctx)
    if not b.get("go_ok"):
        common.report_violation(ctx, "the harness no longer builds against /repo", {"log": b.get("go_log", "")[-2000:]}, no_input=True)
        return common.finish(ctx)
    if not ctx.thorough:
        results = [generic.engine_run(ctx, "lifecycle", ["--seed", str(ctx.seed), "--n", "60"], "main", timeout=900)]
    else:
        results = [generic.engine_run(ctx, "lifecycle", ["--seed", str(ctx.seed), "--n", "600", "--reps", "1500", "--len", "24", "--child-iters", "300"], "main", timeout=1800)]
        for k in range(1, 4):
            results.append(generic.engine_run(ctx, "lifecycle", ["--seed", str(ctx.seed * 1000 + k), "--n", "300", "--reps", "300", "--len", "40"], "extra%d" % k, timeout=1800))
        race_variant(ctx)
    # a configured MisfiredChan that nobody reads, and a restart while the old workers are busy (harness/cmd/qh/misfire.go)
    results.append(generic.engine_run(ctx, "misfire", ["--prop", "C10", "--seed", str(ctx.seed), "--n", "1" if not ctx.thorough else "8"], "misfire", timeout=900))
    bad = generic.proof_cov(ctx, extra_trusted=[
        "sync.RWMutex: Start, Stop, stopRun and IsStarted are atomic with respect to each other (their bodies run with sched.mtx held: regenerated facts); "
        "context.WithCancel: cancelling a parent or calling cancel() makes Done() ready and Err() non-nil for the derived context, permanently",
        "waitCounter (mutex, n, done): Add / Done / zero are atomic (their bodies run with the counter's mutex held: regenerated facts); a closed channel stays closed and "
        "wakes every receiver; the counter is the number of Add(1) minus the number of Done (every go statement of the package is accounted for, Wait creates none: regenerated facts)",
        "jobs are abstract: an execution may end at any time or never; that a job which honours its context ends promptly, goroutine exit latency and the absence "
        "of leaked goroutines in the real runtime are observed by the harness (goroutine dump), not proved",
        "the `run` counter does not wrap (uint64)"])
    generic.judge(ctx, results, bad, "lifecycle",
                  widen=lambda: (generic.engine_run(ctx, "lifecycle", ["--seed", str(ctx.seed * 7919 + k), "--n", "200", "--reps", "200", "--len", "30"], "search%d" % k, timeout=1800)
                                 for k in range(1, 3)))
    generic.fill_coverage(ctx, results, RULE + MISFIRE_RULE)
    ctx.coverage["traces_validated_against_impl"] = 0
    ctx.coverage["note"] = ("concurrency property: stats.json only, no ops.txt/impl.txt; IsStarted is compared after every call of every random sequence with the Go twin of "
                            "`Lifecycle.expect` (C10_isStarted_latest)")
    return common.finish(ctx)


def race_variant(ctx):
    """thorough tier: the same scenarios under the race detector; a race inside quartz/scheduler.go is reported"""
    exe = os.path.join(common.BIN, "qh_race")
    env = dict(common.GOENV, CGO_ENABLED="1")
    rc, out = common.sh(["go", "build", "-race", "-o", exe, "./cmd/qh"], cwd=os.path.join(common.VERIF, "harness"), env=env, timeout=900)
    if rc != 0:
        ctx.log("race build not available, skipped: " + out.strip().split("\n")[-1][:200])
        ctx.coverage["race_detector"] = "not available"
        return
    d = os.path.join(ctx.dir, "race")
    os.makedirs(d, exist_ok=True)
    rc, out = common.sh([exe, "lifecycle", "--seed", str(ctx.seed), "--n", "100", "--reps", "200", "--out", d], env=dict(os.environ, GORACE="halt_on_error=0"), timeout=900)
    races = out.count("WARNING: DATA RACE")
    ctx.coverage["race_detector"] = {"exit": rc, "data_races_reported": races}
    if races and "quartz/scheduler.go" in out:
        i = out.index("WARNING: DATA RACE")
        common.report_violation(ctx, "C10 the race detector reports a data race in the scheduler's lifecycle code: " + out[i:i + 700],
                                {"engine": "lifecycle", "log": out[i:i + 4000]}, no_input=True)


def replay(ctx, path):
    import json
    print(json.dumps(json.load(open(path)), indent=1)[:4000])
    return 1
