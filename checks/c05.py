"""C05: a due job is dispatched promptly after any queue change (no lost wake-up)."""
from . import common, generic

RULE = ("one evaluation = one scenario on a real StdScheduler (public API, a JobQueue wrapper that can stall one call): the execution loop is parked on "
        "{empty queue, far-future head (1 h), paused head, a 100 ms job in blocking mode, a full worker pool (WorkerLimit 1, worker busy 100 ms), 'vanishing' = a due job that is removed (DeleteJob / behind the scheduler's back, as another node "
        "sharing the queue would) while the loop is between its Head() and its tick, so that the tick finds an honestly empty queue, 'ended' = a job whose custom trigger "
        "ends with an error of its own (not ErrTriggerExpired; bare or wrapped) has just fired for the last time} x the call under "
        "test is {ScheduleJob of a new job due in 3..10 ms, ScheduleJob with Replace bringing an existing 1 h job forward, ResumeJob of a paused job whose trigger "
        "is due in 3..10 ms} x a stall of 20..40 ms is injected into {the loop's next Size() call, its next Head() call (both read the queue first, then sleep: the "
        "call under test is issued while the loop is inside the stalled call, i.e. between reading the queue and blocking in select), the queue mutation of the "
        "call under test itself (sleeps before it takes effect, so a token sent too early would be used up), nothing} x concurrently other jobs are "
        "{deleted, paused, cleared immediately before the call, left alone}: 336 cells, each run twice (quick); the one-shot triggers of the auxiliary jobs (blocker, pool filler, vanishing job) "
        "and of the job under test end with {ErrTriggerExpired, an error of their own, either of them wrapped}; RetryInterval is 2 s in every scenario, so a back-off started without a queue failure "
        "(e.g. by a trigger's own end-of-schedule error) would show as a late job; with seeded delays, 12 schedulers in parallel. "
        "Verdict: Execute of the job starts within 300 ms of max(API return, its fire time, end of the blocking job / the worker becoming free). Not started after "
        "300 ms + 2 s more = violation at once; started late = the scenario is re-run alone up to three times and is a violation only if late again. "
        "A scenario is non-trivial when the loop was really parked / the stall was really entered (reported as stall '...-not-reached' otherwise); distinct by cell. "
        "Plus stand-alone scenarios: the call under test overlaps Start / Stop;Start (16), and a SimpleTrigger(math.MaxInt64) job ('never') scheduled before / after a "
        "5 ms job (4): the 5 ms job must start, 'never' must not run, and the loop must make fewer than 5000 Pop calls in 300 ms (a fire time that wrapped around "
        "to the distant past stays at the head for ever: the loop spins and starves every other job). "
        "Plus (qh wakeup3) restarts that overlap the previous run: blocking execution with a 120..300 ms job that ignores its context executing across Stop;Start / cancel;Start "
        "(the call under test is made 100 ms after that job has returned), and back-to-back Stop;Start on an idle scheduler, x the new loop parked on {empty queue, 1 h head, paused head} "
        "x {ScheduleJob, Replace, ResumeJob} due in 20 ms: Execute must start within 2.3 s of max(API return, fire time), no other API call in between (30 scenarios per round). "
        "Plus (qh wakeup5) a custom queue whose Push is slower than a goroutine wake-up: the Push of the call under test sleeps 100 ms before it takes effect (optionally the Remove before it 30 ms), nothing else is delayed; "
        "loop parked on {the paused target alone, empty queue, 1 h head, another paused job} x {ResumeJob, Replace, ScheduleJob} due 20 ms after the call x three dispatch modes in rotation (13 scenarios per round): "
        "Execute must start within 2.3 s of max(API return, fire time), no other API call in between. "
        "No exact differential run against the Lean model (interleavings are not replayable): the theorems cover every interleaving of the model, the tie is the "
        "regenerated facts (channel capacity, non-blocking Reset, Reset after the successful mutation under queueLocker in every mutator, loop order) plus this matrix")

MISFIRE_RULE = (". Plus (qh misfire --prop C05, 24 scenarios per round) schedulers configured with WithMisfiredChan(ch), ch unbuffered or with a buffer of 1, which nobody reads, "
                "RetryInterval default or 2 s, OutdatedThreshold 1 s (200 ms when the jobs go stale by waiting), modes default / WorkerLimit 2 / BlockingExecution with instantaneous jobs (neither permitted delay "
                "applies): 4..7 stale run-once jobs (their time passed while the scheduler was not running, or their trigger reports a fire time 10 s in the past; each is a "
                "misfire that cannot be delivered) and a fresh run-once job due in 20 / 50 ms, scheduled {before Start, on the running scheduler before the stale ones, after them}: "
                "Execute of the fresh job starts within 300 ms of max(API return + delay, Start); late or never (2.3 s) = re-run alone up to three times, a violation only if late every time")



def run(ctx):
    b = common.build_all(ctx)
    if not b.get("go_ok"):
        common.report_violation(ctx, "the harness no longer builds against /repo", {"log": b.get("go_log", "")[-2000:]}, no_input=True)
        return common.finish(ctx)
    n = 672 if not ctx.thorough else 3360
    results = [generic.engine_run(ctx, "wakeup", ["--seed", str(ctx.seed), "--n", str(n)], "main", timeout=900)]
    if ctx.thorough:
        for k, par in enumerate([4, 12, 32], 1):
            results.append(generic.engine_run(ctx, "wakeup", ["--seed", str(ctx.seed * 1000 + k), "--n", "1008", "--par", str(par)], "extra%d" % k, timeout=900))
    # restart that overlaps the previous run (harness/cmd/qh/wakeup3.go): 30 scenarios per round
    results.append(generic.engine_run(ctx, "wakeup3", ["--seed", str(ctx.seed), "--n", "1" if not ctx.thorough else "6"], "restart", timeout=600))
    # a queue whose Push is slower than a goroutine wake-up (harness/cmd/qh/wakeup5.go): 13 scenarios per round
    results.append(generic.engine_run(ctx, "wakeup5", ["--seed", str(ctx.seed), "--n", "2" if not ctx.thorough else "10"], "slowpush", timeout=600))
    # stale jobs whose misfires nobody reads + a fresh job due at the same time (harness/cmd/qh/misfire.go)
    results.append(generic.engine_run(ctx, "misfire", ["--prop", "C05", "--seed", str(ctx.seed), "--n", "1" if not ctx.thorough else "6"], "misfire", timeout=900))
    bad = generic.proof_cov(ctx, extra_trusted=[
        "Go channel semantics: a send on a channel with a free buffer slot stores the token, `select` with `default` never blocks, a receive in `select` takes a "
        "stored token; an unbuffered send succeeds only as a rendezvous with a blocked receiver (the model's `send`)",
        "sync.Locker: the mutators hold queueLocker from before the mutation until after Reset() (regenerated fact), so concurrent API calls are serialised: "
        "the model's single API thread issuing any number of calls",
        "abstraction: the queue is its earliest fire time among entries that are not paused; the timer is the deadline it was armed with",
        "the loop is outside the back-off window of C15 (entered only after a queue failure; an honestly empty Pop() does not start one: C15_honest_empty_pop and the "
        "'vanishing' scenarios); inside a window a due job waits for its end, at most RetryInterval",
        "'promptly' in wall-clock terms (timer accuracy, goroutine scheduling) is observed by the scenario matrix, not proved; the model makes no fairness or "
        "timing assumption: it proves that a parked loop with no token pending is armed no later than the earliest fire time of the current queue"])
    generic.judge(ctx, results, bad, "wakeup",
                  widen=lambda: (generic.engine_run(ctx, "wakeup", ["--seed", str(ctx.seed * 7919 + k), "--n", "1008"], "search%d" % k, timeout=900) for k in range(1, 3)))
    generic.fill_coverage(ctx, results, RULE + MISFIRE_RULE)
    ctx.coverage["traces_validated_against_impl"] = 0
    ctx.coverage["note"] = "concurrency property: stats.json only, no ops.txt/impl.txt; the harness's own oracle judges the real code"
    ok = [r for r in results if not r.get("failed")]
    if ok:
        ctx.coverage["latency_ms_observed"] = {k: max(r["stats"].get("latency_ms", {}).get(k, -1) for r in ok) for k in ("p50", "p99", "max")}
        ctx.coverage["latency_limit_ms"] = ok[0]["stats"].get("limit_ms")
        ctx.coverage["reruns_for_second_opinion"] = sum(r["stats"].get("reruns", 0) for r in ok)
    return common.finish(ctx)


def replay(ctx, path):
    import json
    print(json.dumps(json.load(open(path)), indent=1)[:4000])
    return 1
