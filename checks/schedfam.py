"""C03 / C04 / C08 / C09 (sequential part): the real scheduler is driven through its public API with a
gated JobQueue that parks the execution loop (harness/cmd/qh/gate.go, sched.go); every API call and
every single dispatch step is compared exactly with the Lean model (Sched/Model.lean) and judged by
property-level checks that do not depend on the model."""
from . import common, generic

RULE = ("one evaluation = one scheduler API call or one dispatch step (one real fetchAndReschedule, released through the gated queue) "
        "executed on the real StdScheduler and on the Lean model with the clock reading the code used; outputs (error class, trigger calls "
        "with their prev argument and answer, popped/pushed entry, dispatch, misfire, heap order) compared exactly; "
        "or one direct interrogation of a real SimpleTrigger / RunOnceTrigger (1..3 consecutive NextFireTime calls, each with the previous answer, intervals up to "
        "math.MaxInt64, prev up to math.MaxInt64: the additions a step at the real clock cannot reach); "
        "every execution in a step is also related to its cause, independently of the model: the dequeued entry's fire time must be an answer the job's OWN trigger gave earlier, executed at most as often "
        "as it was produced (scripted triggers fail / end with their own error, ErrTriggerExpired, or either wrapped); plus four directed sequences at every run (run-once job paused and resumed; a misfire "
        "spanning two occurrences; Replace by a trigger with the same Description()). The stress engine (C03/C04/C08) passes a new trigger instance with every ScheduleJob (one in three finite, ending with its own "
        "error or ErrTriggerExpired), counts a fire time as consumed only if the same instance produced it, starts the schedulers 350 ms late in 2 of 9 runs, and runs ResumeJob on a contended queue lock "
        "(sync.Locker with 150 ms latency, PauseJob from a second goroutine in between: the trigger must not be asked from a moment before PauseJob was called); "
        "plus (qh sched2, C04/C08) ResumeJob after a pause shorter than the remaining interval (the stored fire time must be the trigger's answer to a question asked inside the ResumeJob call, exact) "
        "and a loop-side Push that fails for a moment (no dequeued fire time executed + misfired more than once); plus (qh lin, C09) histories whose calls arrive while the only job is being fired "
        "(popped, its trigger held inside NextFireTime, not pushed back), judged by a linearizability search that includes Clear and GetJobKeys; "
        "a sequence is non-trivial if it mixes API calls and steps; distinct by hash of the op-kind sequence")


def run(ctx):
    b = common.build_all(ctx)
    if not b.get("go_ok"):
        common.report_violation(ctx, "the harness no longer builds against /repo", {"log": b.get("go_log", "")[-2000:]}, no_input=True)
        return common.finish(ctx)
    n = 250 if not ctx.thorough else 5000
    results = [generic.engine_run(ctx, "sched", ["--seed", str(ctx.seed), "--n", str(n)], "main", timeout=1500)]
    if ctx.thorough:
        for k in range(1, 4):
            results.append(generic.engine_run(ctx, "sched", ["--seed", str(ctx.seed * 1000 + k), "--n", str(n // 3), "--len", "120"], "extra%d" % k, timeout=1500))
    if ctx.pid in EXTRA:
        results += EXTRA[ctx.pid](ctx)
    bad = generic.proof_cov(ctx, extra_trusted=["sync.Mutex / channel / select semantics as documented", "real-time jitter: fire times are placed >= 10 min away from the classification boundaries"])
    def widen():
        for k in range(1, 4):
            yield generic.engine_run(ctx, "sched", ["--seed", str(ctx.seed * 7919 + k), "--n", str(n * 2)], "search%d" % k, timeout=1500)
            if ctx.pid == "C09":
                yield generic.engine_run(ctx, "lin", ["--seed", str(ctx.seed * 7919 + k), "--n", "3000"], "searchlin%d" % k, timeout=1500)
    generic.judge(ctx, results, bad, "sched", widen=widen)
    generic.fill_coverage(ctx, results, RULE)
    return common.finish(ctx)


def _lin(ctx):
    n = 400 if not ctx.thorough else 6000
    return [generic.engine_run(ctx, "lin", ["--seed", str(ctx.seed), "--n", str(n)], "lin", timeout=1500)]


def _stress(ctx):
    import os
    n = 9 if not ctx.thorough else 45
    out = [generic.engine_run(ctx, "stress", ["--seed", str(ctx.seed), "--n", str(n)], "stress", timeout=1500)]
    # the other timer-channel semantics (go.mod of the harness says go 1.21 => asynctimerchan=1 by default)
    out.append(generic.engine_run(ctx, "stress", ["--seed", str(ctx.seed + 1), "--n", str(n)], "stress_synctimer", timeout=1500,
                                  env=dict(os.environ, GODEBUG="asynctimerchan=0")))
    return out


def _sched2(ctx):
    # harness/cmd/qh/sched2.go: ResumeJob before the fire time that was pending at the pause (C08); a loop-side Push that fails for a moment (C04)
    return [generic.engine_run(ctx, "sched2", ["--seed", str(ctx.seed), "--n", "1" if not ctx.thorough else "10"], "sched2", timeout=600)]


EXTRA = {"C09": _lin, "C03": _stress, "C08": lambda ctx: _stress(ctx) + _sched2(ctx), "C04": lambda ctx: _stress(ctx) + _sched2(ctx)}


def replay(ctx, path):
    import json
    print(json.dumps(json.load(open(path)), indent=1)[:4000])
    return 1
