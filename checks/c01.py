from . import cronfam


def run(ctx):
    return cronfam.run(ctx)


def replay(ctx, path):
    return cronfam.replay(ctx, path)
