"""C17: isolated job — executions never overlap, and the gate always reopens."""
import os
from . import common, generic

RULE = ("one evaluation = one call of Execute on job.NewIsolatedJob(underlying): storms of 32 goroutines (8..128 thorough) calling concurrently with random "
        "pauses while the underlying job counts executions in flight (durations and nil/error/panic outcomes from the seeded PRNG), a probe call after "
        "each storm with nothing running, a sequential phase, a handshake phase that holds an execution inside the delegate and calls meanwhile, a "
        "lingering phase (an overlapping call is made from its own goroutine and not waited for; the underlying job's Description() blocks once if the wrapper "
        "calls it; the held execution finishes and returns; the next call must be admitted whether or not the overlapping call has come back), and "
        "the wrapped job on a real scheduler (unbounded mode, 1 ms interval, 5 ms job). Judged per call: never two executions in flight; a call that "
        "did not reach the delegate returns a non-nil error; a call that did returns exactly what the delegate did; invocations = admitted calls; "
        "with nothing running the next call is admitted, after nil, error and panic alike. Non-trivial = calls refused under contention. "
        "No exact differential run against the Lean model (interleavings are not replayable): the theorems cover every interleaving of the model, "
        "the tie is the regenerated shape of Execute plus this run")


def run(ctx):
    b = common.build_all(ctx)
    if not b.get("go_ok"):
        common.report_violation(ctx, "the harness no longer builds against /repo", {"log": b.get("go_log", "")[-2000:]}, no_input=True)
        return common.finish(ctx)
    if not ctx.thorough:
        results = [generic.engine_run(ctx, "isolated", ["--seed", str(ctx.seed)], "main", timeout=600)]
    else:
        results = [generic.engine_run(ctx, "isolated", ["--seed", str(ctx.seed), "--n", "6000", "--rounds", "12", "--seq", "20000", "--handshake", "3000"], "main", timeout=1500)]
        for k, g in enumerate([2, 8, 64, 128], 1):
            results.append(generic.engine_run(ctx, "isolated", ["--seed", str(ctx.seed * 1000 + k), "--goroutines", str(g), "--n", str(min(120000 // g, 8000)),
                                                                "--rounds", "6"], "extra%d" % k, timeout=1500))
        race_variant(ctx)
    bad = generic.proof_cov(ctx, extra_trusted=[
        "sync/atomic: Bool.Swap and Bool.Store are sequentially consistent atomic actions (the model's Step.swap / Step.store); defer runs on every exit "
        "including a panic (Go specification)",
        "the underlying job is arbitrary: the model only says that it is eventually left, by return or by panic"])
    generic.judge(ctx, results, bad, "isolated",
                  widen=lambda: (generic.engine_run(ctx, "isolated", ["--seed", str(ctx.seed * 7919 + k), "--goroutines", str(16 * k), "--rounds", "10"], "search%d" % k, timeout=1500)
                                 for k in range(1, 3)))
    generic.fill_coverage(ctx, results, RULE)
    ctx.coverage["traces_validated_against_impl"] = 0
    ctx.coverage["note"] = "concurrency property: stats.json only, no ops.txt/impl.txt; the harness's own oracle judges the real code"
    ok = [r for r in results if not r.get("failed")]
    if ok:
        ctx.coverage["max_executions_in_flight_observed"] = max(r["stats"].get("max_in_flight", 0) for r in ok)
    return common.finish(ctx)


def race_variant(ctx):
    """thorough tier: the same harness under the race detector; only a race that involves the isolated job's own file counts"""
    exe = os.path.join(common.BIN, "qh_race")
    env = dict(common.GOENV, CGO_ENABLED="1")
    rc, out = common.sh(["go", "build", "-race", "-o", exe, "./cmd/qh"], cwd=os.path.join(common.VERIF, "harness"), env=env, timeout=900)
    if rc != 0:
        ctx.log("race build not available, skipped: " + out.strip().split("\n")[-1][:200])
        ctx.coverage["race_detector"] = "not available"
        return
    d = os.path.join(ctx.dir, "race")
    os.makedirs(d, exist_ok=True)
    rc, out = common.sh([exe, "isolated", "--seed", str(ctx.seed), "--n", "400", "--rounds", "4", "--seq", "500", "--handshake", "100", "--out", d],
                        env=dict(os.environ, GORACE="halt_on_error=0"), timeout=900)
    races = out.count("WARNING: DATA RACE")
    ctx.coverage["race_detector"] = {"exit": rc, "data_races_reported": races}
    if races and "isolated_job.go" in out:
        i = out.index("WARNING: DATA RACE")
        common.report_violation(ctx, "C17 the race detector reports a data race on the isolated job's state: " + out[i:i + 700],
                                {"engine": "isolated", "log": out[i:i + 4000]}, no_input=True)


def replay(ctx, path):
    import json
    print(json.dumps(json.load(open(path)), indent=1)[:4000])
    return 1
