"""C12: execution modes bound concurrency as configured and keep jobs independent."""
import os
from . import common, generic

RULE = ("one evaluation = one job execution observed on a real StdScheduler by instrumented jobs (atomic in-flight counter + maximum). Scenario set per round: "
        "BlockingExecution with 20 jobs due at once and 25..35 ms jobs (max in flight must be 1), the same with an additional WorkerLimit 2/4/8 (must still be 1 "
        "and no worker goroutine may exist), WorkerLimit n in {1,2,4,16} with 3n jobs due at once whose Execute waits at a barrier of size n (max in flight <= n is a "
        "hard bound; the barrier passing within 5 s shows n executions genuinely in parallel), and the default mode with one execution that never returns plus 20 "
        "other due jobs and the blocked job's own 50 ms fire times (all must start within 2 s). Second set (pool2.go): PauseJob then ResumeJob of a job from another goroutine "
        "while one of its executions is in progress, default mode and WorkerLimit 2 (a short-interval sibling must start 3 more times within 3 s after each call, both calls "
        "return within 3 s, the resumed job's own next fire time starts within 3 s); 3..6 jobs whose fire times are identical to the nanosecond (one shared custom trigger, equal "
        "custom triggers, cron `* * * * * *`) in the default mode, every execution lasting until all are in progress (barrier passed within 5 s); WorkerLimit n with all n workers "
        "busy with executions that ignore their context and a further due job in the loop's hand-off, then Stop() or cancellation of the Start context (max in flight <= n in "
        "that very run, no restart). Third set (qh pool5, pool5.go): default mode, an execution that is waiting for its retry (Execute returned an error, MaxRetries 1/2, RetryInterval 1 s) "
        "next to the job's own 50 ms trigger and a 50 ms sibling, failing executions {only the first, every one, every third}: at least 3 executions of the job itself and 3 of the sibling must be "
        "entered in the 900 ms after the first failure returned (no retry attempt can fall into that time; an idle machine shows 17..18; fewer = re-run alone, a violation only if again). "
        "A scenario is non-trivial when more jobs are due than the bound "
        "allows (always); distinct by (mode, n). No exact differential run against the Lean model (real interleavings are not replayable): the theorems cover "
        "every interleaving of the model, the tie is the regenerated shape of the dispatch switch / startWorkers / dispatch channel plus this run")


def run(ctx):
    b = common.build_all(ctx)
    if not b.get("go_ok"):
        common.report_violation(ctx, "the harness no longer builds against /repo", {"log": b.get("go_log", "")[-2000:]}, no_input=True)
        return common.finish(ctx)
    rounds = 2 if not ctx.thorough else 10
    results = [generic.engine_run(ctx, "pool", ["--seed", str(ctx.seed), "--n", str(rounds)], "main", timeout=900)]
    if ctx.thorough:
        for k in range(1, 4):
            results.append(generic.engine_run(ctx, "pool", ["--seed", str(ctx.seed * 1000 + k), "--n", "4"], "extra%d" % k, timeout=900))
        race_variant(ctx)
    # an execution in its retry wait must not hold back the job's own next fire times (harness/cmd/qh/pool5.go)
    results.append(generic.engine_run(ctx, "pool5", ["--seed", str(ctx.seed), "--n", "1" if not ctx.thorough else "4"], "retrywait", timeout=300))
    known_overlap(ctx, results)
    bad = generic.proof_cov(ctx, extra_trusted=[
        "Go channel semantics: a send on an unbuffered channel completes iff a receiver is ready (the model's hand-off step); `go` does not wait for the new goroutine",
        "each job execution is one call of executeWithRetries (shape tied by the regenerated Retry facts); what a job does inside Execute is arbitrary, it may never return",
        "real parallelism (n OS-scheduled executions at once) and dispatch latency are observed by the harness, not proved",
        "the ctx.Done alternative of the hand-off select (job dropped at shutdown) belongs to the lifecycle model (C10)"])
    generic.judge(ctx, results, bad, "pool",
                  widen=lambda: (generic.engine_run(ctx, "pool", ["--seed", str(ctx.seed * 7919 + k), "--n", "3"], "search%d" % k, timeout=900) for k in range(1, 3)))
    generic.fill_coverage(ctx, results, RULE)
    ctx.coverage["traces_validated_against_impl"] = 0
    ctx.coverage["note"] = "concurrency property: stats.json only, no ops.txt/impl.txt; the harness's own oracle judges the real code"
    ok = [r for r in results if not r.get("failed")]
    if ok:
        ctx.coverage["leftover_quartz_goroutines_after_all_scenarios"] = max(r["stats"].get("leftover_quartz_goroutines", 0) for r in ok)
    return common.finish(ctx)


KNOWN_PREFIX = "C12 KNOWN[restart-overlap] "


def known_overlap(ctx, results):
    """The restart-overlap scenario reports its observation as a string starting with KNOWN_PREFIX. Such strings are taken out of
    the violation lists and passed to report_violation with the key of the known finding (it prints KNOWN-FINDING and does not fail as
    long as known_findings.txt lists `finding: property=C12 key=restart-overlap`; without that line it is an ordinary violation).
    Every other violation string stays where it is and fails the check."""
    seen = 0
    for r in results:
        if r.get("failed"):
            continue
        vs = r["stats"].get("violations") or []
        keep = []
        for v in vs:
            if isinstance(v, str) and v.startswith(KNOWN_PREFIX):
                seen += 1
                if seen <= 4:
                    common.report_violation(ctx, v, {"engine": "pool", "what": v, "dir": r["dir"], "scenario": "restart-overlap"}, key="restart-overlap")
            else:
                keep.append(v)
        r["stats"]["violations"] = keep
    ctx.coverage["restart_overlap_observed"] = seen


def race_variant(ctx):
    """thorough tier: the same scenarios under the race detector; a race inside quartz/scheduler.go is reported"""
    exe = os.path.join(common.BIN, "qh_race")
    env = dict(common.GOENV, CGO_ENABLED="1")
    rc, out = common.sh(["go", "build", "-race", "-o", exe, "./cmd/qh"], cwd=os.path.join(common.VERIF, "harness"), env=env, timeout=900)
    if rc != 0:
        ctx.log("race build not available, skipped: " + out.strip().split("\n")[-1][:200])
        ctx.coverage["race_detector"] = "not available"
        return
    d = os.path.join(ctx.dir, "race")
    os.makedirs(d, exist_ok=True)
    rc, out = common.sh([exe, "pool", "--seed", str(ctx.seed), "--n", "2", "--out", d], env=dict(os.environ, GORACE="halt_on_error=0"), timeout=900)
    races = out.count("WARNING: DATA RACE")
    ctx.coverage["race_detector"] = {"exit": rc, "data_races_reported": races}
    if races and "quartz/scheduler.go" in out:
        i = out.index("WARNING: DATA RACE")
        common.report_violation(ctx, "C12 the race detector reports a data race in the scheduler's dispatch path: " + out[i:i + 700],
                                {"engine": "pool", "log": out[i:i + 4000]}, no_input=True)


def replay(ctx, path):
    import json
    print(json.dumps(json.load(open(path)), indent=1)[:4000])
    return 1
