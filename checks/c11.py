"""C11: default job queue = keyed min-priority map with exact matcher filtering."""
from . import common, generic

RULE = ("one evaluation = one queue operation executed on quartz.NewJobQueue() (entries minted through a never-started scheduler) "
        "and on the Lean model; compared exactly incl. heap array order (level 1) and judged against an abstract key->entry map "
        "(level 2: minimum, keyed access, duplicate/replace, exact matcher filtering); a sequence is non-trivial if it has >= 2 operations; distinct by hash of the op sequence")


def run(ctx):
    b = common.build_all(ctx)
    if not b.get("go_ok"):
        common.report_violation(ctx, "the harness no longer builds against /repo", {"log": b.get("go_log", "")[-2000:]}, no_input=True)
        return common.finish(ctx)
    n = 600 if not ctx.thorough else 12000
    results = [generic.engine_run(ctx, "queue", ["--seed", str(ctx.seed), "--n", str(n)], "main")]
    results.append(generic.engine_run(ctx, "queue", ["--exhaustive", "3" if not ctx.thorough else "5"], "exhaustive"))
    # the queue's own thread-safety: concurrent histories on the real queue vs. a sequential keyed min-priority map
    results.append(generic.engine_run(ctx, "queuelin", ["--seed", str(ctx.seed), "--n", "400" if not ctx.thorough else "6000"], "lin"))
    if ctx.thorough:
        for k in range(1, 4):
            results.append(generic.engine_run(ctx, "queue", ["--seed", str(ctx.seed * 1000 + k), "--n", str(n // 3), "--len", "200"], "extra%d" % k))
    bad = generic.proof_cov(ctx, extra_trusted=["container/heap is modelled (its ~40 lines are transcribed in Queue/Heap.lean) and compared, not verified",
                                                 "thread-safety of the queue's own mutex is outside the Lean model: qh queuelin records concurrent histories on the real queue and searches for a sequential order on the abstract map (sampled interleavings, not a proof)"])
    generic.judge(ctx, results, bad, "queue",
                  widen=lambda: (generic.engine_run(ctx, "queue", ["--seed", str(ctx.seed * 7919 + k), "--n", str(n * 2), "--len", "120"], "search%d" % k) for k in range(1, 4)))
    # (queuelin is always part of the main run, so a broken tie has already been searched concurrently as well)
    generic.fill_coverage(ctx, results, RULE)
    return common.finish(ctx)


def replay(ctx, path):
    import json
    print(json.dumps(json.load(open(path)), indent=1)[:4000])
    return 1
