"""Generic flow for engines that emit ops.txt / impl.txt / stats.json:
build -> run the real code (qh <engine>) -> run the Lean model on the same ops -> diff -> judge -> audit -> evidence."""
import json, os, re
from . import common
from .registry import THEOREMS


def engine_run(ctx, engine, args, tag, timeout=3000, env=None):
    d = os.path.join(ctx.dir, tag)
    os.makedirs(d, exist_ok=True)
    for f in ("ops.txt", "impl.txt", "model.txt", "stats.json"):
        try:
            os.remove(os.path.join(d, f))
        except OSError:
            pass
    rc, out = common.sh([common.QH, engine] + args + ["--out", d], timeout=timeout, env=env)
    last = out.strip().split("\n")[-1] if out.strip() else ""
    ctx.log("%s[%s]: %s" % (engine, tag, last or "rc=%d" % rc))
    if rc != 0 or not os.path.exists(d + "/stats.json"):
        return {"failed": True, "log": out[-3000:], "dir": d, "rc": rc}
    res = {"dir": d, "stats": json.load(open(d + "/stats.json")), "failed": False}
    if os.path.exists(d + "/ops.txt"):
        ok = common.run_model(ctx, d + "/ops.txt", d + "/model.txt")
        ops, impl, model = (common.read_lines(d + "/" + f) for f in ("ops.txt", "impl.txt", "model.txt"))
        if not ok or len(model) != len(ops):
            ctx.log("model driver failed or truncated (%d of %d lines)" % (len(model), len(ops)))
            model = model + ["model-no-answer"] * (len(ops) - len(model))
        res.update({"ops": ops, "impl": impl, "model": model,
                    "diffs": [i for i in range(len(ops)) if impl[i] != model[i]]})
    return res


def context_of(res, i, before=12):
    """the ops leading to index i since the last reset line (engine-specific 'new')"""
    j = i
    while j > 0 and not re.search(r"\bnew\b", res["ops"][j]) and i - j < 200:
        j -= 1
    return [{"op": res["ops"][k], "impl": res["impl"][k], "model": res["model"][k]} for k in range(max(j, i - 200), i + 1)]


def proof_cov(ctx, extra_trusted=None):
    from . import cronfam
    mods = sorted({m for m, _ in THEOREMS.get(ctx.pid, [])})
    thms = [t for _, t in THEOREMS.get(ctx.pid, [])]
    bad = cronfam.proof_cov(ctx, mods, thms) if thms else []
    if extra_trusted is not None:
        tb = [t for t in ctx.coverage.get("trusted_base", []) if not t.startswith("Go time package")]
        ctx.coverage["trusted_base"] = tb + extra_trusted
    if ctx.thorough:
        for m in mods:
            common.leanchecker(ctx, m)
    return bad


def _known_key(v):
    """a harness string `Cxx KNOWN[<key>] …` names a recorded finding (known_findings.txt decides whether it is suppressed)"""
    m = re.match(r"^\S+ KNOWN\[([^\]]+)\]", v)
    return m.group(1) if m else None


def judge(ctx, results, bad, engine, widen=None):
    """results: list of engine_run outputs. Violations judged by the harness's own oracle are in
    stats['violations'] (strings starting with the property id)."""
    concrete, tie = [], []
    for r in results:
        if r.get("failed"):
            common.report_violation(ctx, "harness engine '%s' failed to run against the current /repo (crash, panic, hang or build break): %s" % (engine, r.get("log", "")[-600:]),
                                    {"engine": engine, "log": r.get("log", "")}, no_input=True)
            continue
        for v in (r["stats"].get("violations") or []):
            if isinstance(v, str) and v.startswith(ctx.pid + " "):
                concrete.append((r, v))
        for i in r.get("diffs", []):
            tie.append((r, i))
    for r, v in concrete[:10]:
        common.report_violation(ctx, v, {"engine": engine, "what": v, "dir": r["dir"]}, key=_known_key(v))
    concrete = [(r, v) for r, v in concrete if not (_known_key(v) and any(k["property"] == ctx.pid and k["key"] == _known_key(v) for k in common.known_findings()))]
    if not concrete and (tie or bad):
        found = []
        if widen:
            for r in widen():
                if r.get("failed"):
                    continue
                found += [(r, v) for v in (r["stats"].get("violations") or []) if isinstance(v, str) and v.startswith(ctx.pid + " ")]
                if found:
                    break
        found = [(r, v) for r, v in found if not (_known_key(v) and any(k["property"] == ctx.pid and k["key"] == _known_key(v) for k in common.known_findings()))]
        for r, v in found[:5]:
            common.report_violation(ctx, v, {"engine": engine, "what": v, "dir": r["dir"], "found_by": "widened search after a broken tie"})
        if not found:
            what = []
            rep = {"engine": engine, "undischarged": bad, "lean_log_tail": ctx.lean_log[-1500:]}
            if bad:
                what.append("proof obligations no longer check: " + ", ".join(bad[:8]))
            if tie:
                r, i = tie[0]
                what.append("correspondence broken on %d operation(s); first: %s impl=%s model=%s" % (len(tie), r["ops"][i], r["impl"][i], r["model"][i]))
                rep["history"] = context_of(r, i)
            common.report_violation(ctx, "; ".join(what), rep, no_input=True)
    return concrete, tie


def fill_coverage(ctx, results, rule, samples_from=None):
    ok = [r for r in results if not r.get("failed")]
    evals = sum(r["stats"].get("evaluations", 0) for r in ok)
    nontriv = sum(r["stats"].get("distinct_nontrivial", 0) for r in ok)
    dist = {}
    for r in ok:
        for k, v in r["stats"].get("distribution", {}).items():
            dd = dist.setdefault(k, {})
            for kk, vv in v.items():
                dd[kk] = dd.get(kk, 0) + vv
    samples = []
    for r in ok[:1]:
        if "ops" in r:
            n = len(r["ops"])
            for i in list(range(0, min(n, 6))) + list(range(n // 2, min(n, n // 2 + 4))):
                samples.append({"op": r["ops"][i], "impl": r["impl"][i], "model": r["model"][i]})
        samples += r["stats"].get("samples", [])[:6]
    ctx.coverage.update({
        "evaluations": evals, "distinct_nontrivial": nontriv, "rule": rule, "distribution": dist,
        "traces_validated_against_impl": evals,
        "disagreements_model_vs_impl": sum(len(r.get("diffs", [])) for r in ok),
        "samples": samples or [{"note": "no sample available"}],
    })
    for r in ok:
        for k in ("exhaustive",):
            if r["stats"].get(k):
                ctx.coverage[k + "_part"] = True
