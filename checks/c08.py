from . import schedfam


def run(ctx):
    return schedfam.run(ctx)


def replay(ctx, path):
    return schedfam.replay(ctx, path)
