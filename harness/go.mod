module verif/harness

go 1.21

require github.com/reugn/go-quartz v0.0.0

replace github.com/reugn/go-quartz => /repo
