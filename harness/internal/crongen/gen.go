// Package crongen generates cron expressions together with their independent meaning.
package crongen

import (
	"fmt"
	"math/rand"
	"sort"
	"strings"

	"verif/harness/internal/oracle"
)

var monthNames = []string{"", "JAN", "FEB", "MAR", "APR", "MAY", "JUN", "JUL", "AUG", "SEP", "OCT", "NOV", "DEC"}
var dayNames = []string{"", "SUN", "MON", "TUE", "WED", "THU", "FRI", "SAT"}

// Expect says what the documented format requires of the parser for this string.
type Expect int

const (
	Unknown Expect = iota // differential only
	MustAccept
	MustReject
)

type Case struct {
	Expr    string
	Spec    *oracle.Spec // nil unless Expect == MustAccept
	Feature string       // day-rule / stream label for the distribution table
	Expect  Expect
	Class   string // for MustReject: which rejection class
}

func lit(r *rand.Rand, v int, names []string) string {
	if names != nil && r.Intn(3) == 0 {
		n := names[v]
		switch r.Intn(4) {
		case 0:
			return strings.ToLower(n)
		case 1:
			return n[:1] + strings.ToLower(n[1:])
		case 2:
			b := []byte(n)
			for i := range b {
				if r.Intn(2) == 0 {
					b[i] |= 0x20
				}
			}
			return string(b)
		}
		return n
	}
	if r.Intn(25) == 0 {
		return fmt.Sprintf("%02d", v) // leading zero is accepted by Atoi
	}
	return fmt.Sprint(v)
}

func stepOf(r *rand.Rand, hi int) int {
	if r.Intn(8) == 0 {
		return hi // largest accepted step
	}
	m := hi
	if m > 20 {
		m = 20
	}
	return 1 + r.Intn(m)
}

func pick(r *rand.Rand, lo, hi int) int {
	switch r.Intn(6) {
	case 0:
		return lo
	case 1:
		return hi
	}
	return lo + r.Intn(hi-lo+1)
}

// genItem picks values in [lo,hi]; flo/fhi are the bounds of the field itself, which is what
// "*/s" starts from and what "a/s" runs up to.
func genItem(r *rand.Rand, lo, hi, flo, fhi int, names []string) (string, []int) {
	switch r.Intn(6) {
	case 0, 1: // value
		v := pick(r, lo, hi)
		return lit(r, v, names), []int{v}
	case 2: // range
		a := pick(r, lo, hi)
		b := a + r.Intn(hi-a+1)
		var vs []int
		for i := a; i <= b; i++ {
			vs = append(vs, i)
		}
		return lit(r, a, names) + "-" + lit(r, b, names), vs
	case 3: // a/s
		a := pick(r, lo, hi)
		s := stepOf(r, fhi)
		var vs []int
		for i := a; i <= fhi; i += s {
			vs = append(vs, i)
		}
		return lit(r, a, names) + "/" + fmt.Sprint(s), vs
	case 4: // */s
		s := stepOf(r, fhi)
		var vs []int
		for i := flo; i <= fhi; i += s {
			vs = append(vs, i)
		}
		return "*/" + fmt.Sprint(s), vs
	default: // a-b/s
		a := pick(r, lo, hi)
		b := a + r.Intn(hi-a+1)
		s := stepOf(r, fhi)
		var vs []int
		for i := a; i <= b; i += s {
			vs = append(vs, i)
		}
		return lit(r, a, names) + "-" + lit(r, b, names) + "/" + fmt.Sprint(s), vs
	}
}

func genField(r *rand.Rand, lo, hi int, names []string, wild string) (string, []int) {
	return genFieldB(r, lo, hi, lo, hi, names, wild)
}

func genFieldB(r *rand.Rand, lo, hi, flo, fhi int, names []string, wild string) (string, []int) {
	k := r.Intn(10)
	switch {
	case k < 3:
		return wild, nil
	case k < 7:
		return genItem(r, lo, hi, flo, fhi, names)
	case k == 7 && hi-lo >= 4:
		// a list that repeats a value and leaves a gap so that the number of items equals the span (`a-b,b,b+2`, `a-b,b-c,c+2`):
		// the parser keeps duplicates, so anything that reasons from the length of the sorted values is wrong here
		a := pick(r, lo, hi-3)
		b := a + r.Intn(hi-2-a)
		c := b
		s := lit(r, a, names) + "-" + lit(r, b, names) + "," + lit(r, b, names)
		if c+3 <= hi && r.Intn(2) == 0 {
			c = b + 1 + r.Intn(hi-2-b)
			if c > hi-2 {
				c = hi - 2
			}
			s = lit(r, a, names) + "-" + lit(r, b, names) + "," + lit(r, b, names) + "-" + lit(r, c, names)
		}
		var vs []int
		for i := a; i <= c; i++ {
			vs = append(vs, i)
		}
		vs = append(vs, c+2)
		return s + "," + lit(r, c+2, names), vs
	default:
		n := 2 + r.Intn(3)
		var parts []string
		set := map[int]bool{}
		for i := 0; i < n; i++ {
			s, vs := genItem(r, lo, hi, flo, fhi, names)
			parts = append(parts, s)
			for _, v := range vs {
				set[v] = true
			}
		}
		var vs []int
		for v := range set {
			vs = append(vs, v)
		}
		sort.Ints(vs)
		return strings.Join(parts, ","), vs
	}
}

// Valid generates an expression of the documented format with its meaning.
func Valid(r *rand.Rand) Case {
	if r.Intn(40) == 0 {
		return macro(r)
	}
	if r.Intn(12) == 0 {
		return rare(r)
	}
	s := &oracle.Spec{}
	var f [7]string
	feat := ""
	f[0], s.Sec = genField(r, 0, 59, nil, "*")
	f[1], s.Min = genField(r, 0, 59, nil, "*")
	f[2], s.Hour = genField(r, 0, 23, nil, "*")
	f[4], s.Month = genField(r, 1, 12, monthNames, "*")
	if r.Intn(2) == 0 { // bias to one time of day
		v := pick(r, 0, 59)
		f[0], s.Sec = fmt.Sprint(v), []int{v}
		v = pick(r, 0, 59)
		f[1], s.Min = fmt.Sprint(v), []int{v}
		if r.Intn(2) == 0 {
			v = pick(r, 0, 23)
			f[2], s.Hour = fmt.Sprint(v), []int{v}
		}
	}
	s.DomKind, s.DowKind = "any", "none"
	f[3], f[5] = "?", "?"
	if r.Intn(2) == 0 {
		f[3] = "*"
	}
	if r.Intn(2) == 0 {
		f[5] = "*"
	}
	switch r.Intn(10) {
	case 0:
		feat = "any"
	case 1, 2:
		str, vs := genField(r, 1, 31, nil, "*")
		f[3] = str
		if vs != nil {
			s.DomKind, s.DomSet = "set", vs
		}
		feat = "domset"
	case 3:
		f[3] = "L"
		s.DomKind = "L"
		feat = "L"
	case 4:
		n := pick(r, 1, 31)
		f[3] = fmt.Sprintf("L-%d", n)
		s.DomKind, s.DomN = "Lminus", n
		feat = "L-n"
	case 5:
		n := pick(r, 1, 31)
		f[3] = fmt.Sprintf("%dW", n)
		s.DomKind, s.DomSet = "W", []int{n}
		feat = "nW"
	case 6:
		f[3] = "LW"
		s.DomKind = "LW"
		feat = "LW"
	case 7:
		str, vs := genField(r, 1, 7, dayNames, "*")
		f[5] = str
		if vs != nil {
			s.DowKind = "set"
			for _, v := range vs {
				s.DowSet = append(s.DowSet, v-1)
			}
		}
		feat = "dowset"
	case 8:
		n := pick(r, 1, 7)
		if r.Intn(4) == 0 {
			f[5] = "L"
			n = 7
		} else {
			f[5] = lit(r, n, dayNames) + "L"
		}
		s.DowKind, s.DowSet = "last", []int{n - 1}
		feat = "nL"
	case 9:
		n := pick(r, 1, 7)
		k := pick(r, 1, 5)
		f[5] = fmt.Sprintf("%s#%d", lit(r, n, dayNames), k)
		s.DowKind, s.DowSet, s.DowN = "hash", []int{n - 1}, k
		feat = "n#k"
	}
	switch r.Intn(5) {
	case 0:
		f[6] = ""
	case 1:
		f[6] = "*"
	case 2:
		f[6], s.Year = genFieldB(r, 2255, 2300, 1970, 3940, nil, "*")
	default:
		f[6], s.Year = genFieldB(r, 1970, 2300, 1970, 3940, nil, "*")
	}
	return Case{Expr: render(r, f[:]), Spec: s, Feature: feat, Expect: MustAccept}
}

// rare generates expressions that never fire or fire only every few years: the deepest searches of the
// state machine (termination, exact expiry, no iteration cap).
func rare(r *rand.Rand) Case {
	s := &oracle.Spec{DomKind: "any", DowKind: "none"}
	tod := func() (string, string, string) {
		h, m, sec := pick(r, 0, 23), pick(r, 0, 59), pick(r, 0, 59)
		s.Hour, s.Min, s.Sec = []int{h}, []int{m}, []int{sec}
		return fmt.Sprint(sec), fmt.Sprint(m), fmt.Sprint(h)
	}
	sec, min, hour := tod()
	months := func(cands []int) (string, []int) {
		var ms []int
		var parts []string
		for _, m := range cands {
			if r.Intn(2) == 0 {
				ms = append(ms, m)
				parts = append(parts, lit(r, m, monthNames))
			}
		}
		if len(ms) == 0 {
			ms, parts = []int{cands[0]}, []string{fmt.Sprint(cands[0])}
		}
		return strings.Join(parts, ","), ms
	}
	year := "*"
	if r.Intn(3) == 0 {
		a := 1970 + r.Intn(280)
		b := a + r.Intn(60)
		year = fmt.Sprintf("%d-%d", a, b)
		for y := a; y <= b; y++ {
			s.Year = append(s.Year, y)
		}
	}
	var dom, mon, dow = "?", "*", "?"
	switch r.Intn(6) {
	case 0: // day 30/31 in months that do not have it
		d := 30 + r.Intn(2)
		c := []int{2}
		if d == 31 {
			c = []int{2, 4, 6, 9, 11}
		}
		mon, s.Month = months(c)
		dom, s.DomKind, s.DomSet = fmt.Sprint(d), "set", []int{d}
	case 1: // Feb 29
		mon, s.Month = "2", []int{2}
		dom, s.DomKind, s.DomSet = "29", "set", []int{29}
	case 2: // fifth weekday in short or arbitrary months
		w := pick(r, 1, 7)
		mon, s.Month = months([]int{2, 4, 6, 9, 11, 2})
		dow, s.DowKind, s.DowSet, s.DowN = fmt.Sprintf("%s#5", lit(r, w, dayNames)), "hash", []int{w - 1}, 5
	case 3: // L-n that rarely or never exists
		n := 28 + r.Intn(4)
		dom, s.DomKind, s.DomN = fmt.Sprintf("L-%d", n), "Lminus", n
		if r.Intn(2) == 0 {
			mon, s.Month = months([]int{2, 4, 9})
		}
	case 4: // a weekday on a fixed date pattern: nW at month end in one month
		dom, s.DomKind, s.DomSet = "31W", "W", []int{31}
		mon, s.Month = months([]int{2, 2, 6})
	default: // only years beyond the representable range, or the very last ones
		a := 2255 + r.Intn(20)
		year = fmt.Sprint(a)
		s.Year = []int{a}
		mon, s.Month = months([]int{1, 6, 12})
	}
	f := []string{sec, min, hour, dom, mon, dow, year}
	return Case{Expr: render(r, f), Spec: s, Feature: "rare", Expect: MustAccept}
}

var ws = []string{" ", " ", " ", "  ", "\t", " \t ", "\n", "\r\n", "\f"}

// render joins the fields with insignificant whitespace variations.
func render(r *rand.Rand, f []string) string {
	var parts []string
	for _, x := range f {
		if x != "" {
			parts = append(parts, x)
		}
	}
	if r.Intn(4) != 0 {
		return strings.Join(parts, " ")
	}
	var b strings.Builder
	if r.Intn(2) == 0 {
		b.WriteString(ws[r.Intn(len(ws))])
	}
	for i, p := range parts {
		if i > 0 {
			b.WriteString(ws[r.Intn(len(ws))])
		}
		b.WriteString(p)
	}
	if r.Intn(2) == 0 {
		b.WriteString(ws[r.Intn(len(ws))])
	}
	return b.String()
}

func macro(r *rand.Rand) Case {
	z := []int{0}
	switch r.Intn(5) {
	case 0:
		return Case{Expr: "@yearly", Feature: "macro", Expect: MustAccept,
			Spec: &oracle.Spec{Sec: z, Min: z, Hour: z, Month: []int{1}, DomKind: "set", DomSet: []int{1}, DowKind: "none"}}
	case 1:
		return Case{Expr: "@monthly", Feature: "macro", Expect: MustAccept,
			Spec: &oracle.Spec{Sec: z, Min: z, Hour: z, DomKind: "set", DomSet: []int{1}, DowKind: "none"}}
	case 2:
		return Case{Expr: "@weekly", Feature: "macro", Expect: MustAccept,
			Spec: &oracle.Spec{Sec: z, Min: z, Hour: z, DomKind: "any", DowKind: "set", DowSet: []int{0}}}
	case 3:
		return Case{Expr: " @daily ", Feature: "macro", Expect: MustAccept,
			Spec: &oracle.Spec{Sec: z, Min: z, Hour: z, DomKind: "any", DowKind: "none"}}
	}
	return Case{Expr: "@hourly", Feature: "macro", Expect: MustAccept,
		Spec: &oracle.Spec{Sec: z, Min: z, DomKind: "any", DowKind: "none"}}
}

type fieldInfo struct {
	lo, hi int
	names  []string
}

var fieldInfos = []fieldInfo{{0, 59, nil}, {0, 59, nil}, {0, 23, nil}, {1, 31, nil}, {1, 12, monthNames}, {1, 7, dayNames}, {1970, 3940, nil}}

// Invalid generates a string that breaks the documented format in a known way.
func Invalid(r *rand.Rand) Case {
	base := []string{"0", "0", "0", "*", "*", "?", "*"}
	for i := 0; i < 3; i++ { // some variety in the untouched fields
		if r.Intn(2) == 0 {
			base[i] = fmt.Sprint(r.Intn(24))
		}
	}
	k := r.Intn(7) // field under attack
	fi := fieldInfos[k]
	setDay := func(k int) {
		if k == 3 {
			base[5] = "?"
		}
		if k == 5 {
			base[3] = "?"
		}
	}
	setDay(k)
	out := func(v int) int { // a value just outside, or far outside
		if k == 6 { // the documented year range has no upper end: only "before 1970" is out of range
			if r.Intn(2) == 0 {
				return 1969 - r.Intn(60)
			}
			return r.Intn(1970)
		}
		switch r.Intn(4) {
		case 0:
			return fi.lo - 1
		case 1:
			return fi.hi + 1
		case 2:
			return fi.hi + 1 + r.Intn(100)
		}
		return fi.hi * 10
	}
	in := func() int { return fi.lo + r.Intn(fi.hi-fi.lo+1) }
	class := ""
	if r.Intn(8) == 0 { // numbers far outside any range, in every position a number can stand
		huge := []string{"9223372036854775807", "9223372036854775806", "9223372036854775808", "99999999999", "4294967296", "2147483648",
			"18446744073709551616", "1000000", "99999"}[r.Intn(9)]
		var forms []string
		switch k {
		case 3:
			forms = []string{"%s", "1-%s", "%s-31", "1/%s", "%s/1", "1,%s", "%s,1", "1-%s/2", "%s-31/2", "1-5/%s", "L-%s", "%sW", "*/%s"}
		case 5:
			forms = []string{"%s", "1-%s", "%s-7", "1/%s", "%s/1", "1,%s", "%s,1", "1-%s/2", "1-5/%s", "%sL", "%s#1", "1#%s", "*/%s"}
		default:
			forms = []string{"%s", "LO-%s", "%s-HI", "LO/%s", "%s/1", "LO,%s", "%s,LO", "LO-%s/2", "%s-HI/2", "LO-HI/%s", "*/%s"}
		}
		f := forms[r.Intn(len(forms))]
		f = strings.ReplaceAll(strings.ReplaceAll(f, "LO", fmt.Sprint(fi.lo)), "HI", fmt.Sprint(fi.hi))
		base[k] = fmt.Sprintf(f, huge)
		return Case{Expr: strings.Join(base, " "), Feature: "invalid", Expect: MustReject, Class: "huge-number"}
	}
	switch r.Intn(16) {
	case 14, 15:
		// a special day form (L, L-n, nW, LW, nL, n#k) with extra text in a place where the recogniser has to look at the WHOLE field:
		// between the letter and its number, before the letter, after the number
		class = "special-junk"
		junk := []string{"5", "L", ",5", "/2", "#1", "X", "15", "W", "-", "*", "?", " ", "l", "0", ",", "31", "-1"}[r.Intn(17)]
		if junk == " " {
			junk = "x"
		}
		n := 1 + r.Intn(28)
		if r.Intn(2) == 0 {
			k = 3
			setDay(k)
			forms := []string{"L%s-%d", "%sL-%d", "L-%d%s", "L%s", "%sL", "%d%sW", "%dW%s", "L%sW", "LW%s", "%sLW"}
			f := forms[r.Intn(len(forms))]
			switch strings.Count(f, "%") {
			case 1:
				base[3] = fmt.Sprintf(f, junk)
			default:
				if strings.Index(f, "%s") < strings.Index(f, "%d") {
					base[3] = fmt.Sprintf(f, junk, n)
				} else {
					base[3] = fmt.Sprintf(f, n, junk)
				}
			}
			// a few combinations are well-formed after all (L + "W" = LW, junk "5" in front of "W" …): keep only what the documented
			// grammar excludes
			if okDomSpecial(base[3]) {
				base[3] = "L" + "X" + fmt.Sprintf("-%d", n)
			}
		} else {
			k = 5
			setDay(k)
			d := 1 + r.Intn(7)
			forms := []string{"%d%sL", "%dL%s", "%d%s#%d", "%d#%s%d", "%d#%d%s"}
			f := forms[r.Intn(len(forms))]
			kk := 1 + r.Intn(5)
			switch f {
			case "%d%sL", "%dL%s":
				base[5] = fmt.Sprintf(f, d, junk)
			case "%d%s#%d":
				base[5] = fmt.Sprintf(f, d, junk, kk)
			case "%d#%s%d":
				base[5] = fmt.Sprintf(f, d, junk, kk)
			default:
				base[5] = fmt.Sprintf(f, d, kk, junk)
			}
			if okDowSpecial(base[5]) {
				base[5] = fmt.Sprintf("%dX#%d", d, kk)
			}
		}
	case 0:
		class = "field-count"
		n := []int{0, 1, 2, 3, 4, 5, 8, 9}[r.Intn(8)]
		var f []string
		for i := 0; i < n; i++ {
			f = append(f, "*")
		}
		if n > 3 {
			f[3] = "?"
		}
		return Case{Expr: strings.Join(f, " "), Feature: "invalid", Expect: MustReject, Class: class}
	case 1:
		class = "single-out-of-range"
		v := out(0)
		if v < 0 {
			v = fi.hi + 1
		}
		base[k] = fmt.Sprint(v)
	case 2:
		class = "list-member-out-of-range"
		v := out(0)
		if v < 0 {
			v = fi.hi + 1
		}
		if r.Intn(2) == 0 {
			base[k] = fmt.Sprintf("%d,%d", in(), v)
		} else {
			base[k] = fmt.Sprintf("%d,%d,%d", v, in(), in())
		}
	case 3:
		class = "range-end-out-of-range"
		v := out(0)
		if v < 0 {
			v = fi.hi + 1
		}
		if v > fi.hi {
			base[k] = fmt.Sprintf("%d-%d", in(), v)
		} else {
			base[k] = fmt.Sprintf("%d-%d", v, in())
		}
	case 4:
		class = "step-start-out-of-range"
		base[k] = fmt.Sprintf("%d/%d", fi.hi+1+r.Intn(5), 1+r.Intn(5))
		if k == 6 {
			base[k] = fmt.Sprintf("%d/%d", 1969-r.Intn(60), 1+r.Intn(5))
		}
	case 5:
		class = "step-zero"
		switch r.Intn(3) {
		case 0:
			base[k] = "*/0"
		case 1:
			base[k] = fmt.Sprintf("%d/0", in())
		default:
			base[k] = fmt.Sprintf("%d-%d/0", fi.lo, fi.hi)
		}
	case 6:
		class = "step-non-numeric"
		base[k] = []string{"*/x", "*/", "1/a", "*/1.5", "*/-1", "*/*", "0/JAN", "*/ "}[r.Intn(8)]
		if base[k] == "1/a" {
			base[k] = fmt.Sprintf("%d/a", fi.lo)
		}
		if base[k] == "*/ " { // would change the field count; use a tab-free variant
			base[k] = "*/?"
		}
	case 7:
		class = "unknown-name"
		base[k] = []string{"FOO", "JANU", "MONDAY", "J", "SU", "x", "1x", "SAT-", "?,1", "*,1", "1,,2", ",", "1-", "-", "/"}[r.Intn(15)]
		if r.Intn(2) == 0 {
			// a name of the OTHER glossary: weekday names are unknown values in the month field, month names in the day-of-week field,
			// and both in every field that has no names at all — alone and inside lists, ranges, steps and the special forms
			days := []string{"SUN", "MON", "TUE", "WED", "THU", "FRI", "SAT"}
			months := []string{"JAN", "FEB", "MAR", "APR", "MAY", "JUN", "JUL", "AUG", "SEP", "OCT", "NOV", "DEC"}
			var nm string
			switch k {
			case 4:
				nm = days[r.Intn(7)]
			case 5:
				nm = months[r.Intn(12)]
			default:
				nm = append(days, months...)[r.Intn(19)]
			}
			if r.Intn(3) == 0 {
				nm = strings.ToLower(nm)
			}
			forms := []string{"%s", "%s,LO", "LO,%s", "%s-HI", "LO-%s", "%s/2", "LO-HI/%s", "%s-%s"}
			if k == 5 {
				setDay(5)
				forms = append(forms, "%s#2", "%sL", "%s#1", "2#%s")
			}
			if k == 3 {
				setDay(3)
				forms = append(forms, "%sW", "L-%s")
			}
			f := forms[r.Intn(len(forms))]
			f = strings.ReplaceAll(strings.ReplaceAll(f, "LO", fmt.Sprint(fi.lo)), "HI", fmt.Sprint(fi.hi))
			if strings.Count(f, "%s") == 2 {
				base[k] = fmt.Sprintf(f, nm, nm)
			} else {
				base[k] = fmt.Sprintf(f, nm)
			}
		}
	case 8:
		class = "both-day-fields"
		base[3] = []string{"1", "15", "L", "1-5", "LW", "3W", "*/2"}[r.Intn(7)]
		base[5] = []string{"1", "MON", "2-4", "6L", "3#2", "*/2", "L"}[r.Intn(7)]
	case 9:
		class = "special-combined"
		k = 3
		setDay(k)
		base[3] = []string{"L,1", "1,L", "L-1,2", "L/2", "1-L", "LW,1", "1W,2", "1W-3", "15W/2", "L-", "L-0", "L-32",
			"0W", "32W", "W", "WL", "LWW", "L-3W", "1,2W", "*L", "*W"}[r.Intn(21)]
	case 10:
		class = "special-combined"
		k = 5
		setDay(k)
		base[5] = []string{"6L,1", "1,6L", "6L-7", "6L/2", "3#2,1", "1,3#2", "3#2-4", "3#0", "3#6", "8#1", "0#1", "#1", "3#",
			"8L", "0L", "LL", "3##2", "3#2#1", "MON#", "FOO#1", "FOOL", "*#1", "?L"}[r.Intn(23)]
	case 11:
		class = "special-wrong-field"
		k2 := []int{0, 1, 2, 4, 6}[r.Intn(5)]
		base[k2] = []string{"L", "LW", "5W", "3#2", "L-1", "1L", "W", "#"}[r.Intn(8)]
		if k2 == 6 && base[k2] == "1L" {
			base[k2] = "1970L"
		}
	case 12:
		class = "special-wrong-field"
		if r.Intn(2) == 0 { // W and LW belong to day-of-month only
			k = 5
			setDay(k)
			base[5] = []string{"5W", "LW", "L-1", "MONW"}[r.Intn(4)]
		} else { // # belongs to day-of-week only
			k = 3
			setDay(k)
			base[3] = []string{"3#2", "6L", "MONL", "1#1"}[r.Intn(4)]
		}
	default:
		class = "descending-or-garbage"
		base[k] = []string{"", "**", "??", "*?", "1 1", "1;2", "0x10", "1e1", "１", "٣", "--1", "1--2", "1-2-3", "1/2/3", "99999999999999999999"}[r.Intn(15)]
		if base[k] == "" || base[k] == "1 1" {
			class = "field-count"
			if base[k] == "" {
				// dropping a field gives six fields when k is the year (then it is valid) — attack another field
				if k == 6 {
					k = 0
				}
				base = append(base[:k], base[k+1:]...)
				base = base[:len(base)-1] // five fields
			}
		}
	}
	return Case{Expr: strings.Join(base, " "), Feature: "invalid", Expect: MustReject, Class: class}
}

// Mutant applies one random edit to a valid expression (expectation unknown: differential only).
func Mutant(r *rand.Rand) Case {
	c := Valid(r)
	b := []rune(c.Expr)
	alphabet := []rune("0123456789*?,-/LW# JANFEBMOSUTWDHRIYGPCV@lw\tſı ")
	if len(b) == 0 {
		return Case{Expr: string(alphabet[r.Intn(len(alphabet))]), Feature: "mutant"}
	}
	switch r.Intn(5) {
	case 0: // delete
		i := r.Intn(len(b))
		b = append(b[:i], b[i+1:]...)
	case 1: // insert
		i := r.Intn(len(b) + 1)
		b = append(b[:i], append([]rune{alphabet[r.Intn(len(alphabet))]}, b[i:]...)...)
	case 2: // replace
		b[r.Intn(len(b))] = alphabet[r.Intn(len(alphabet))]
	case 3: // duplicate or drop a field
		f := strings.Fields(string(b))
		if len(f) > 0 {
			i := r.Intn(len(f))
			if r.Intn(2) == 0 {
				f = append(f[:i], f[i+1:]...)
			} else {
				f = append(f[:i+1], f[i:]...)
			}
		}
		b = []rune(strings.Join(f, " "))
	default: // bump a digit run across a bound
		s := string(b)
		idx := -1
		for tries := 0; tries < 8 && idx < 0; tries++ {
			j := r.Intn(len(s))
			if s[j] >= '0' && s[j] <= '9' {
				idx = j
			}
		}
		if idx >= 0 {
			repl := []string{"0", "1", "7", "8", "12", "13", "23", "24", "31", "32", "59", "60", "1969", "1970", "3940", "3941"}[r.Intn(16)]
			st, en := idx, idx+1
			for st > 0 && s[st-1] >= '0' && s[st-1] <= '9' {
				st--
			}
			for en < len(s) && s[en] >= '0' && s[en] <= '9' {
				en++
			}
			b = []rune(s[:st] + repl + s[en:])
		}
	}
	return Case{Expr: string(b), Feature: "mutant"}
}

// Raw generates arbitrary bytes, including invalid UTF-8 and odd white space.
func Raw(r *rand.Rand) Case {
	n := r.Intn(24)
	chunks := []string{"*", "?", " ", "0", "1", "5", "L", "W", "#", ",", "-", "/", "\xa0", "\xc2\xa0", "\xff", "\xc3", "ſun", "frı", "SAT",
		"@daily", "@", "\v", "\u0085", " ", "\x00", "+1", "-1", "007", "２", "K", "mon", "　"}
	var b strings.Builder
	for i := 0; i < n; i++ {
		b.WriteString(chunks[r.Intn(len(chunks))])
	}
	return Case{Expr: b.String(), Feature: "raw"}
}


// okDomSpecial / okDowSpecial: is the text a well-formed day-of-month / day-of-week field after all? (Conservative: anything that could be
// read as a documented form — a number, a list/range/step of numbers, L, L-n, nW, LW; a number or name, nL, n#k — counts as well-formed,
// so that the "special-junk" class only keeps texts the documented grammar excludes.)
func okDomSpecial(f string) bool {
	isNum := func(t string) bool {
		if t == "" {
			return false
		}
		for _, c := range t {
			if c < '0' || c > '9' {
				return false
			}
		}
		return true
	}
	switch {
	case f == "L", f == "LW", f == "*", f == "?":
		return true
	case strings.HasPrefix(f, "L-") && isNum(f[2:]):
		return true
	case strings.HasSuffix(f, "W") && isNum(f[:len(f)-1]):
		return true
	}
	// plain numeric forms: digits with , - / * and no letters
	for _, c := range f {
		if !(c >= '0' && c <= '9') && !strings.ContainsRune(",-/*?", c) {
			return false
		}
	}
	return true
}

func okDowSpecial(f string) bool {
	isNum := func(t string) bool {
		if t == "" {
			return false
		}
		for _, c := range t {
			if c < '0' || c > '9' {
				return false
			}
		}
		return true
	}
	switch {
	case f == "L", f == "*", f == "?":
		return true
	case strings.HasSuffix(f, "L") && isNum(f[:len(f)-1]):
		return true
	}
	if i := strings.Index(f, "#"); i > 0 && isNum(f[:i]) && isNum(f[i+1:]) {
		return true
	}
	for _, c := range f {
		if !(c >= '0' && c <= '9') && !strings.ContainsRune(",-/*?", c) {
			return false
		}
	}
	return true
}
