// Package sup runs the implementation under test in supervised worker processes:
// one request line in, one answer line out, with a per-call deadline. A hang, a
// fatal crash (stack overflow, out of memory) or a closed pipe is attributed to the
// one request that caused it.
package sup

import (
	"bufio"
	"fmt"
	"io"
	"os"
	"os/exec"
	"strings"
	"sync"
	"time"
)

type Worker struct {
	argv    []string
	cmd     *exec.Cmd
	in      io.WriteCloser
	out     *bufio.Reader
	errBuf  *tailBuf
	Timeout time.Duration
}

type tailBuf struct {
	mu sync.Mutex
	b  []byte
}

func (t *tailBuf) Write(p []byte) (int, error) {
	t.mu.Lock()
	defer t.mu.Unlock()
	t.b = append(t.b, p...)
	if len(t.b) > 4096 {
		t.b = t.b[len(t.b)-4096:]
	}
	return len(p), nil
}

func (t *tailBuf) String() string {
	t.mu.Lock()
	defer t.mu.Unlock()
	return string(t.b)
}

func NewWorker(timeout time.Duration, argv ...string) *Worker {
	return &Worker{argv: argv, Timeout: timeout}
}

func (w *Worker) start() error {
	w.cmd = exec.Command(w.argv[0], w.argv[1:]...)
	w.cmd.Env = append(os.Environ(), "GOMEMLIMIT=1GiB", "GOMAXPROCS=2")
	var err error
	if w.in, err = w.cmd.StdinPipe(); err != nil {
		return err
	}
	so, err := w.cmd.StdoutPipe()
	if err != nil {
		return err
	}
	w.errBuf = &tailBuf{}
	w.cmd.Stderr = w.errBuf
	w.out = bufio.NewReaderSize(so, 1<<16)
	return w.cmd.Start()
}

func (w *Worker) kill() {
	if w.cmd != nil && w.cmd.Process != nil {
		_ = w.cmd.Process.Kill()
		_ = w.cmd.Wait()
	}
	w.cmd = nil
}

func (w *Worker) Close() {
	if w.cmd != nil {
		_ = w.in.Close()
		done := make(chan struct{})
		go func() { _ = w.cmd.Wait(); close(done) }()
		select {
		case <-done:
		case <-time.After(2 * time.Second):
			_ = w.cmd.Process.Kill()
		}
		w.cmd = nil
	}
}

// Call sends one request line and returns the answer line, or "hang" /
// "crash <stderr tail>" when the worker did not answer.
func (w *Worker) Call(req string) string {
	if w.cmd == nil {
		if err := w.start(); err != nil {
			return "crash cannot start worker: " + err.Error()
		}
	}
	if _, err := io.WriteString(w.in, req+"\n"); err != nil {
		tail := w.errBuf.String()
		w.kill()
		return "crash " + oneLine(tail)
	}
	type res struct {
		s   string
		err error
	}
	ch := make(chan res, 1)
	go func() {
		s, err := w.out.ReadString('\n')
		ch <- res{s, err}
	}()
	select {
	case r := <-ch:
		if r.err != nil {
			// give the process a moment to die so that stderr is complete
			time.Sleep(50 * time.Millisecond)
			tail := w.errBuf.String()
			w.kill()
			return "crash " + oneLine(tail)
		}
		return strings.TrimRight(r.s, "\n")
	case <-time.After(w.Timeout):
		w.kill()
		return "hang"
	}
}

func oneLine(s string) string {
	s = strings.TrimSpace(s)
	if i := strings.Index(s, "\n"); i >= 0 {
		first := s[:i]
		return fmt.Sprintf("%s …(%d bytes of stderr)", first, len(s))
	}
	return s
}

// Map runs reqs through n workers (request i goes to worker i%n, so the result is
// deterministic) and returns the answers in order.
func Map(n int, timeout time.Duration, argv []string, reqs []string) []string {
	out := make([]string, len(reqs))
	var wg sync.WaitGroup
	for k := 0; k < n; k++ {
		wg.Add(1)
		go func(k int) {
			defer wg.Done()
			w := NewWorker(timeout, argv...)
			defer w.Close()
			for i := k; i < len(reqs); i += n {
				out[i] = w.Call(reqs[i])
			}
		}(k)
	}
	wg.Wait()
	// Second opinion for "hang": under load a slow but terminating call (a search that rebuilds its state a hundred thousand
	// times) can miss the deadline. Every request that was answered "hang" is run again ALONE, with twelve times the deadline,
	// in a fresh worker; only if it still does not answer is it a hang. (At most eight are re-run; a genuinely looping
	// implementation usually hangs on many requests and the first eight settle the verdict.)
	again := 0
	for i := range reqs {
		if out[i] == "hang" && again < 8 {
			again++
			w := NewWorker(12*timeout, argv...)
			out[i] = w.Call(reqs[i])
			w.Close()
		}
	}
	return out
}
