// Package oracle is an independent, brute-force reading of the cron semantics
// (day-level scan + time-of-day scan). It shares no code with the repository
// or with the Lean model; it is the "third voice" that turns a model/code
// disagreement into a property verdict.
package oracle

// Spec is the meaning of an expression, produced by the generator alongside the text.
type Spec struct {
	Sec, Min, Hour, Month, Year []int  // empty = any
	DomKind                     string // any, set, L, Lminus, W, LW
	DomSet                      []int
	DomN                        int
	DowKind                     string // none, set, last, hash
	DowSet                      []int // 0..6, 0 = Sunday
	DowN                        int
}

const MaxYear = 2261

func in(set []int, v int) bool {
	if len(set) == 0 {
		return true
	}
	for _, x := range set {
		if x == v {
			return true
		}
	}
	return false
}

func IsLeap(y int) bool { return y%4 == 0 && (y%100 != 0 || y%400 == 0) }

func Dim(y, m int) int {
	switch m {
	case 2:
		if IsLeap(y) {
			return 29
		}
		return 28
	case 4, 6, 9, 11:
		return 30
	}
	return 31
}

// DaysFromCivil is Howard Hinnant's algorithm (days since 1970-01-01).
func DaysFromCivil(y, m, d int) int {
	if m <= 2 {
		y--
	}
	var era int
	if y >= 0 {
		era = y / 400
	} else {
		era = (y - 399) / 400
	}
	yoe := y - era*400
	mp := (m + 9) % 12
	doy := (153*mp+2)/5 + d - 1
	doe := yoe*365 + yoe/4 - yoe/100 + doy
	return era*146097 + doe - 719468
}

// CivilFromDays is the inverse (Hinnant).
func CivilFromDays(z int) (y, m, d int) {
	z += 719468
	var era int
	if z >= 0 {
		era = z / 146097
	} else {
		era = (z - 146096) / 146097
	}
	doe := z - era*146097
	yoe := (doe - doe/1460 + doe/36524 - doe/146096) / 365
	y = yoe + era*400
	doy := doe - (365*yoe + yoe/4 - yoe/100)
	mp := (5*doy + 2) / 153
	d = doy - (153*mp+2)/5 + 1
	if mp < 10 {
		m = mp + 3
	} else {
		m = mp - 9
	}
	if m <= 2 {
		y++
	}
	return
}

func Weekday(y, m, d int) int { // 0 = Sunday
	z := DaysFromCivil(y, m, d)
	return ((z%7)+7+4) % 7
}

func nearestWeekday(y, m, d int) int {
	ld := Dim(y, m)
	if d > ld {
		d = ld
	}
	wd := Weekday(y, m, d)
	if wd >= 1 && wd <= 5 {
		return d
	}
	if wd == 6 { // Saturday
		if d > 1 {
			return d - 1
		}
		return d + 2
	}
	if d < ld { // Sunday
		return d + 1
	}
	return d - 2
}

// DayMatch reports whether the date satisfies the day rule.
func (s *Spec) DayMatch(y, m, d int) bool {
	ld := Dim(y, m)
	if d < 1 || d > ld {
		return false
	}
	switch s.DowKind {
	case "set":
		return in(s.DowSet, Weekday(y, m, d))
	case "last":
		return Weekday(y, m, d) == s.DowSet[0] && d+7 > ld
	case "hash":
		return Weekday(y, m, d) == s.DowSet[0] && (d-1)/7+1 == s.DowN
	}
	switch s.DomKind {
	case "any":
		return true
	case "set":
		return in(s.DomSet, d)
	case "L":
		return d == ld
	case "Lminus":
		return d == ld-s.DomN
	case "W":
		return d == nearestWeekday(y, m, s.DomSet[0])
	case "LW":
		return d == nearestWeekday(y, m, ld)
	}
	panic("oracle: bad spec")
}

// Matches reports whether the local wall-clock second w (seconds since the epoch
// read as if UTC) satisfies the expression.
func (s *Spec) Matches(w int64) bool {
	days := int(floorDiv(w, 86400))
	tod := int(w - int64(days)*86400)
	y, m, d := CivilFromDays(days)
	return y <= MaxYear && in(s.Year, y) && in(s.Month, m) && s.DayMatch(y, m, d) &&
		in(s.Hour, tod/3600) && in(s.Min, tod/60%60) && in(s.Sec, tod%60)
}

func floorDiv(a, b int64) int64 {
	q := a / b
	if a%b != 0 && (a < 0) != (b < 0) {
		q--
	}
	return q
}

// Next returns the least local wall-clock second strictly after w that matches,
// with a year <= MaxYear; ok = false if there is none.
func (s *Spec) Next(w int64) (int64, bool) {
	days := int(floorDiv(w, 86400))
	tod := int(w - int64(days)*86400)
	y, m, d := CivilFromDays(days)
	first := true
	for y <= MaxYear {
		if !in(s.Year, y) {
			y++
			m, d = 1, 1
			first = false
			continue
		}
		if !in(s.Month, m) {
			m++
			d = 1
			first = false
			if m > 12 {
				m = 1
				y++
			}
			continue
		}
		if s.DayMatch(y, m, d) {
			start := 0
			if first {
				start = tod + 1
			}
			for x := start; x < 86400; x++ {
				h, mi, se := x/3600, (x/60)%60, x%60
				if !in(s.Hour, h) {
					x = (h+1)*3600 - 1
					continue
				}
				if !in(s.Min, mi) {
					x = h*3600 + (mi+1)*60 - 1
					continue
				}
				if in(s.Sec, se) {
					return int64(DaysFromCivil(y, m, d))*86400 + int64(x), true
				}
			}
		}
		first = false
		d++
		if d > Dim(y, m) {
			d = 1
			m++
			if m > 12 {
				m = 1
				y++
			}
		}
	}
	return 0, false
}
