package main

import (
	"fmt"
	"go/ast"
	"go/token"
	"go/types"
	"path/filepath"
	"sort"
	"strings"
)

type unsupported struct{ msg string }

func (u unsupported) Error() string { return u.msg }

func fail(format string, a ...any) { panic(unsupported{fmt.Sprintf(format, a...)}) }

// fnInfo: one Go function / method (or package-level variable with an initialiser) to translate
type fnInfo struct {
	goName string // "quartz.(*jobQueue).Push"
	lean   string // "jobQueue.Push"
	pos    string
	p      *pkgInfo
	decl   *ast.FuncDecl
	obj    types.Object // *types.Func or *types.Var (package variable)
	value  ast.Expr     // initialiser of a package variable
	params []*types.Var // receiver first
	mutIdx int          // index into params of the (single) parameter mutated through a reference, -1 = none
	mutErr string
	fuel   bool
	ext    bool
	calls  map[*fnInfo]bool
	err    error
	text   string
	order  int
}

type translator struct {
	fset        *token.FileSet
	hp, qz, mt  *pkgInfo
	repo        string
	goroot      string
	fns         []*fnInfo
	byObj       map[types.Object]*fnInfo
	order       []*fnInfo
	missing     []string
	idioms      map[string]string
	sourceFiles []string

	typeDecls   []string // emitted Lean type declarations in dependency order
	typeDone    map[string]bool
	typeBusy    map[string]bool
	consts      map[types.Object]string
	constOrder  []types.Object
	errNames    []string          // sentinel errors of quartz/error.go
	errMsg      map[string]string // their messages
	errObjs     map[types.Object]bool
	elemType    types.Type // *scheduledJob
	sjNamed     *types.Named
	pqNamed     *types.Named
	jqNamed     *types.Named
	sjIface     *types.Named // quartz.ScheduledJob
	heapIface   *types.Named // heap.Interface
	jqIface     *types.Named // quartz.JobQueue
	matcherOrig *types.Named // quartz.Matcher (generic)
	lockedMeths []string
}

func newTranslator(fset *token.FileSet, hp, qz, mt *pkgInfo, repo, goroot string) *translator {
	return &translator{fset: fset, hp: hp, qz: qz, mt: mt, repo: repo, goroot: goroot,
		byObj: map[types.Object]*fnInfo{}, idioms: map[string]string{}, typeDone: map[string]bool{}, typeBusy: map[string]bool{},
		consts: map[types.Object]string{}, errMsg: map[string]string{}, errObjs: map[types.Object]bool{}}
}

func (t *translator) miss(s string) {
	for _, m := range t.missing {
		if m == s {
			return
		}
	}
	t.missing = append(t.missing, s)
}

func (t *translator) relFile(name string) string {
	if r, err := filepath.Rel(t.repo, name); err == nil && !strings.HasPrefix(r, "..") {
		return filepath.ToSlash(r)
	}
	if r, err := filepath.Rel(filepath.Join(t.goroot, "src"), name); err == nil && !strings.HasPrefix(r, "..") {
		return "$GOROOT/src/" + filepath.ToSlash(r)
	}
	return name
}

func (t *translator) posOf(n ast.Node) string {
	p := t.fset.Position(n.Pos())
	return fmt.Sprintf("%s:%d", t.relFile(p.Filename), p.Line)
}

func unparen(e ast.Expr) ast.Expr {
	for {
		p, ok := e.(*ast.ParenExpr)
		if !ok {
			return e
		}
		e = p.X
	}
}

func deref(t types.Type) types.Type {
	if p, ok := t.(*types.Pointer); ok {
		return p.Elem()
	}
	return t
}

func namedOf(t types.Type) *types.Named {
	n, _ := deref(t).(*types.Named)
	return n
}

func (t *translator) pkgPrefix(p *types.Package) string {
	switch p {
	case t.hp.pkg:
		return "heap."
	case t.mt.pkg:
		return "matcher."
	}
	return ""
}

func (t *translator) lookupNamed(p *pkgInfo, name string) *types.Named {
	if p.pkg == nil {
		return nil
	}
	if o := p.pkg.Scope().Lookup(name); o != nil {
		if tn, ok := o.(*types.TypeName); ok {
			n, _ := tn.Type().(*types.Named)
			return n
		}
	}
	return nil
}

// ---------------------------------------------------------------- collection

// wanted: the hard-coded list of what is translated. "*" = every function declaration of the package.
var wantedQuartz = []string{
	"scheduledJob.JobDetail", "scheduledJob.Trigger", "scheduledJob.NextRunTime",
	"JobDetail.Job", "JobDetail.JobKey", "JobDetail.Options",
	"JobKey.Equals", "JobKey.Name", "JobKey.Group",
	"newIllegalStateError",
	"priorityQueue.Len", "priorityQueue.Less", "priorityQueue.Swap", "priorityQueue.Push", "priorityQueue.Pop",
	"NewJobQueue",
	"jobQueue.scheduledJobs", "jobQueue.Push", "jobQueue.Pop", "jobQueue.Head", "jobQueue.Get", "jobQueue.Remove",
	"jobQueue.ScheduledJobs", "jobQueue.Size", "jobQueue.Clear",
}

func recvTypeName(fd *ast.FuncDecl) string {
	if fd.Recv == nil || len(fd.Recv.List) == 0 {
		return ""
	}
	e := fd.Recv.List[0].Type
	if s, ok := e.(*ast.StarExpr); ok {
		e = s.X
	}
	if id, ok := e.(*ast.Ident); ok {
		return id.Name
	}
	return "?"
}

func (t *translator) collect() {
	seenFile := map[string]bool{}
	addFile := func(n ast.Node) {
		f := t.relFile(t.fset.Position(n.Pos()).Filename)
		if !seenFile[f] {
			seenFile[f] = true
			t.sourceFiles = append(t.sourceFiles, f)
		}
	}
	want := map[string]bool{}
	for _, w := range wantedQuartz {
		want[w] = true
	}
	found := map[string]bool{}
	for _, p := range []*pkgInfo{t.qz, t.hp, t.mt} {
		for _, file := range p.files {
			for _, d := range file.Decls {
				switch d := d.(type) {
				case *ast.FuncDecl:
					name := d.Name.Name
					if r := recvTypeName(d); r != "" {
						name = r + "." + name
					}
					if p == t.qz && !want[name] {
						continue
					}
					found[name] = true
					obj := p.info.Defs[d.Name]
					if obj == nil {
						t.miss("untyped:" + name)
						continue
					}
					addFile(d)
					f := &fnInfo{goName: p.pkg.Name() + "." + name, lean: t.pkgPrefix(p.pkg) + leanIdent(name), pos: t.posOf(d), p: p, decl: d, obj: obj, mutIdx: -1, calls: map[*fnInfo]bool{}}
					sig := obj.Type().(*types.Signature)
					if sig.Recv() != nil {
						f.params = append(f.params, sig.Recv())
					}
					for i := 0; i < sig.Params().Len(); i++ {
						f.params = append(f.params, sig.Params().At(i))
					}
					t.fns = append(t.fns, f)
					t.byObj[obj] = f
				case *ast.GenDecl:
					// package variables with an initialiser: translated for package matcher (string operators)
					if p != t.mt || d.Tok != token.VAR {
						continue
					}
					for _, s := range d.Specs {
						vs := s.(*ast.ValueSpec)
						for i, id := range vs.Names {
							if id.Name == "_" || i >= len(vs.Values) {
								continue
							}
							obj := p.info.Defs[id]
							if obj == nil {
								continue
							}
							addFile(vs)
							f := &fnInfo{goName: p.pkg.Name() + "." + id.Name, lean: t.pkgPrefix(p.pkg) + leanIdent(id.Name), pos: t.posOf(id), p: p, obj: obj, value: vs.Values[i], mutIdx: -1, calls: map[*fnInfo]bool{}}
							t.fns = append(t.fns, f)
							t.byObj[obj] = f
						}
					}
				}
			}
		}
	}
	for _, w := range wantedQuartz {
		if !found[w] {
			t.miss("function-not-found:quartz." + w)
		}
	}
	for _, w := range []string{"heap.Push", "heap.Pop", "heap.Remove", "heap.up", "heap.down"} {
		ok := false
		for _, f := range t.fns {
			if f.lean == w {
				ok = true
			}
		}
		if !ok {
			t.miss("function-not-found:container/" + w)
		}
	}
	sort.Strings(t.sourceFiles)

	t.sjNamed = t.lookupNamed(t.qz, "scheduledJob")
	t.pqNamed = t.lookupNamed(t.qz, "priorityQueue")
	t.jqNamed = t.lookupNamed(t.qz, "jobQueue")
	t.sjIface = t.lookupNamed(t.qz, "ScheduledJob")
	t.heapIface = t.lookupNamed(t.hp, "Interface")
	t.jqIface = t.lookupNamed(t.qz, "JobQueue")
	t.matcherOrig = t.lookupNamed(t.qz, "Matcher")
	for _, n := range []struct {
		n *types.Named
		s string
	}{{t.sjNamed, "scheduledJob"}, {t.pqNamed, "priorityQueue"}, {t.jqNamed, "jobQueue"}, {t.sjIface, "ScheduledJob"}, {t.heapIface, "heap.Interface"}, {t.matcherOrig, "Matcher"}} {
		if n.n == nil {
			t.miss("type-not-found:" + n.s)
		}
	}
}

// ---------------------------------------------------------------- interfaces → concrete (idioms)

func (t *translator) isNamed(ty types.Type, n *types.Named) bool {
	if n == nil {
		return false
	}
	x := namedOf(ty)
	return x != nil && x.Origin().Obj() == n.Origin().Obj()
}

func isAny(ty types.Type) bool {
	if i, ok := ty.Underlying().(*types.Interface); ok {
		if _, named := ty.(*types.Named); !named {
			return i.NumMethods() == 0
		}
	}
	return false
}

func isErrorType(ty types.Type) bool {
	return types.Identical(ty, types.Universe.Lookup("error").Type())
}

// devirt: the concrete named type an interface-typed value stands for (nil = not devirtualised)
func (t *translator) devirt(ty types.Type) *types.Named {
	switch {
	case t.isNamed(ty, t.sjIface) && !isPtr(ty):
		return t.sjNamed
	case t.isNamed(ty, t.heapIface) && !isPtr(ty):
		return t.pqNamed
	case t.isNamed(ty, t.jqIface) && !isPtr(ty):
		return t.jqNamed // only as the result of NewJobQueue (idiom devirt-jobQueue)
	}
	return nil
}

func isPtr(ty types.Type) bool { _, ok := ty.(*types.Pointer); return ok }

func (t *translator) isMatcherIface(ty types.Type) bool {
	return !isPtr(ty) && t.isNamed(ty, t.matcherOrig)
}

// ---------------------------------------------------------------- Lean types

func (t *translator) leanType(ty types.Type) string {
	switch x := ty.(type) {
	case *types.Pointer:
		return t.leanType(x.Elem())
	case *types.Basic:
		switch {
		case x.Info()&types.IsInteger != 0:
			return "Int"
		case x.Info()&types.IsBoolean != 0:
			return "Bool"
		case x.Info()&types.IsString != 0:
			return "String"
		}
	case *types.Slice:
		return "List " + parenType(t.leanType(x.Elem()))
	case *types.Signature:
		var parts []string
		for i := 0; i < x.Params().Len(); i++ {
			parts = append(parts, parenType(t.leanType(x.Params().At(i).Type())))
		}
		if x.Results().Len() != 1 {
			fail("function type with %d results", x.Results().Len())
		}
		parts = append(parts, parenType(t.leanType(x.Results().At(0).Type())))
		return strings.Join(parts, " → ")
	case *types.Interface:
		if isAny(ty) {
			// heap.Interface.Push(x any) / Pop() any: the element type of the devirtualised heap (checked idiom)
			t.needNamed(t.sjNamed)
			return "scheduledJob"
		}
	case *types.Named:
		if isErrorType(ty) {
			return "Error"
		}
		if d := t.devirt(ty); d != nil {
			t.needNamed(d)
			return d.Obj().Name()
		}
		if t.isMatcherIface(ty) {
			if ta := x.TypeArgs(); ta == nil || ta.Len() != 1 || !t.isNamed(ta.At(0), t.sjIface) {
				fail("Matcher instantiated at %s", ty)
			}
			t.needNamed(t.sjNamed)
			return "Matcher"
		}
		obj := x.Obj()
		if obj.Pkg() != nil && obj.Pkg().Path() == "time" && obj.Name() == "Duration" {
			return "Int"
		}
		if _, isIface := x.Underlying().(*types.Interface); isIface {
			if obj.Pkg() == t.qz.pkg && (obj.Name() == "Job" || obj.Name() == "Trigger") {
				return "Nat /- opaque: interface " + obj.Name() + " -/"
			}
			fail("interface type %s", ty)
		}
		if obj.Pkg() != t.qz.pkg && obj.Pkg() != t.mt.pkg && obj.Pkg() != t.hp.pkg {
			fail("foreign type %s", ty)
		}
		t.needNamed(x)
		return t.pkgPrefix(obj.Pkg()) + leanIdent(obj.Name())
	}
	fail("type %s", ty)
	return ""
}

func parenType(s string) string {
	if strings.ContainsAny(s, " ") && !strings.HasPrefix(s, "(") && !strings.HasPrefix(s, "Nat /-") {
		return "(" + s + ")"
	}
	if strings.HasPrefix(s, "Nat /-") {
		return "(" + s + ")"
	}
	return s
}

func isMutexType(ty types.Type) bool {
	n := namedOf(ty)
	return n != nil && n.Obj().Pkg() != nil && n.Obj().Pkg().Path() == "sync" && n.Obj().Name() == "Mutex"
}

// needNamed emits the Lean declaration of a named Go type (struct → structure, other → abbrev), dependencies first.
func (t *translator) needNamed(n *types.Named) {
	if n == nil {
		fail("type not found")
	}
	obj := n.Obj()
	key := t.pkgPrefix(obj.Pkg()) + obj.Name()
	if t.typeDone[key] {
		return
	}
	if t.typeBusy[key] {
		fail("recursive type %s", key)
	}
	t.typeBusy[key] = true
	defer func() { t.typeBusy[key] = false }()
	lean := t.pkgPrefix(obj.Pkg()) + leanIdent(obj.Name())
	pos := t.posOf(identNode{obj.Pos()})
	var b strings.Builder
	switch u := n.Underlying().(type) {
	case *types.Struct:
		var fields []string
		dropped := ""
		for i := 0; i < u.NumFields(); i++ {
			f := u.Field(i)
			if isMutexType(f.Type()) {
				dropped = fmt.Sprintf(" (field `%s sync.Mutex` dropped: idiom lockShape)", f.Name())
				continue
			}
			fields = append(fields, fmt.Sprintf("  %s : %s", leanIdent(f.Name()), t.leanType(f.Type())))
		}
		fmt.Fprintf(&b, "/-- Go: %s `type %s struct`%s -/\nstructure %s where\n", pos, obj.Name(), dropped, lean)
		if len(fields) == 0 {
			fmt.Fprintf(&b, "  mk ::\n")
		}
		b.WriteString(strings.Join(fields, "\n"))
		hasFn := false
		for i := 0; i < u.NumFields(); i++ {
			if _, ok := deref(u.Field(i).Type()).Underlying().(*types.Signature); ok {
				hasFn = true
			}
		}
		if hasFn {
			b.WriteString("\n")
		} else {
			b.WriteString("\nderiving Repr, DecidableEq, Inhabited\n")
		}
	default:
		fmt.Fprintf(&b, "/-- Go: %s `type %s %s` -/\nabbrev %s := %s\n", pos, obj.Name(), types.TypeString(n.Underlying(), func(p *types.Package) string { return p.Name() }), lean, t.leanType(n.Underlying()))
	}
	t.typeDone[key] = true
	t.typeDecls = append(t.typeDecls, b.String())
	if n == t.sjNamed {
		t.typeDecls = append(t.typeDecls, "/-- idiom matcher: Go `quartz.Matcher[ScheduledJob]` (an interface implemented by the user) is its `IsMatch` method -/\nabbrev Matcher := scheduledJob → Bool\n")
	}
}

type identNode struct{ p token.Pos }

func (i identNode) Pos() token.Pos { return i.p }
func (i identNode) End() token.Pos { return i.p }

var leanKeywords = map[string]bool{"end": true, "from": true, "at": true, "do": true, "then": true, "fun": true, "match": true, "open": true,
	"in": true, "let": true, "have": true, "show": true, "with": true, "where": true, "def": true, "instance": true, "structure": true, "class": true,
	"if": true, "else": true, "for": true, "return": true, "mut": true, "by": true, "local": true, "namespace": true, "section": true, "variable": true,
	"theorem": true, "example": true, "prefix": true, "infix": true, "notation": true, "macro": true, "syntax": true, "deriving": true, "extends": true,
	"using": true, "forall": true, "exists": true, "Type": true, "Prop": true, "Sort": true, "nat": false, "fuel": true, "cnt": true, "S": true, "rest'": true}

func leanIdent(s string) string {
	parts := strings.Split(s, ".")
	for i, p := range parts {
		if leanKeywords[p] {
			parts[i] = p + "_"
		}
	}
	return strings.Join(parts, ".")
}

// ---------------------------------------------------------------- call resolution

type callKind int

const (
	kNone     callKind = iota
	kFunc              // translated function or method (callee fn, receiver = first argument if method)
	kMatcher           // IsMatch on a Matcher-typed value: function application
	kFuncVal           // call of a function-typed expression
	kErrorf            // fmt.Errorf(format, e1, e2)
	kStrings           // strings.HasPrefix / HasSuffix / Contains
	kBuiltin           // len append make
	kConv              // conversion T(x)
	kLock              // mtx.Lock / mtx.Unlock
)

type callInfo struct {
	kind callKind
	fn   *fnInfo
	recv ast.Expr // receiver expression of a method call
	name string
}

var stringsFns = map[string]bool{"HasPrefix": true, "HasSuffix": true, "Contains": true}

func (t *translator) classify(p *pkgInfo, call *ast.CallExpr) callInfo {
	info := p.info
	fun := unparen(call.Fun)
	if tv, ok := info.Types[fun]; ok && tv.IsType() {
		return callInfo{kind: kConv}
	}
	switch x := fun.(type) {
	case *ast.Ident:
		switch obj := info.Uses[x].(type) {
		case *types.Builtin:
			return callInfo{kind: kBuiltin, name: obj.Name()}
		case *types.Func:
			if f := t.byObj[obj]; f != nil {
				return callInfo{kind: kFunc, fn: f}
			}
			fail("call of untranslated function %s", x.Name)
		case *types.Var:
			if _, ok := obj.Type().Underlying().(*types.Signature); ok {
				return callInfo{kind: kFuncVal}
			}
		}
	case *ast.SelectorExpr:
		if id, ok := x.X.(*ast.Ident); ok {
			if pn, isPkg := info.Uses[id].(*types.PkgName); isPkg {
				path := pn.Imported().Path()
				if fo, ok := info.Uses[x.Sel].(*types.Func); ok {
					if f := t.byObj[fo]; f != nil {
						return callInfo{kind: kFunc, fn: f}
					}
				}
				if path == "fmt" && x.Sel.Name == "Errorf" {
					return callInfo{kind: kErrorf}
				}
				if path == "strings" && stringsFns[x.Sel.Name] {
					return callInfo{kind: kStrings, name: x.Sel.Name}
				}
				fail("call of %s.%s", id.Name, x.Sel.Name)
			}
		}
		sel := info.Selections[x]
		if sel == nil {
			fail("unresolved selector %s at %s", x.Sel.Name, t.posOf(x))
		}
		if sel.Kind() == types.MethodVal {
			recvT := sel.Recv()
			if isMutexType(recvT) && (x.Sel.Name == "Lock" || x.Sel.Name == "Unlock") {
				return callInfo{kind: kLock, name: x.Sel.Name, recv: x.X}
			}
			if t.isMatcherIface(recvT) && x.Sel.Name == "IsMatch" {
				return callInfo{kind: kMatcher, recv: x.X}
			}
			var target *types.Named
			if d := t.devirt(recvT); d != nil {
				target = d
			} else if n := namedOf(recvT); n != nil {
				if _, isIface := n.Underlying().(*types.Interface); !isIface {
					target = n
				}
			}
			if target == nil {
				fail("method %s on %s", x.Sel.Name, recvT)
			}
			mobj, _, _ := types.LookupFieldOrMethod(types.NewPointer(target), true, target.Obj().Pkg(), x.Sel.Name)
			if fo, ok := mobj.(*types.Func); ok {
				if f := t.byObj[fo]; f != nil {
					return callInfo{kind: kFunc, fn: f, recv: x.X}
				}
			}
			fail("call of untranslated method %s.%s", target.Obj().Name(), x.Sel.Name)
		}
		if _, ok := sel.Type().Underlying().(*types.Signature); ok {
			return callInfo{kind: kFuncVal}
		}
	default:
		if tv, ok := info.Types[fun]; ok {
			if _, ok := tv.Type.Underlying().(*types.Signature); ok {
				return callInfo{kind: kFuncVal}
			}
		}
	}
	fail("call %s at %s", exprString(call.Fun), t.posOf(call))
	return callInfo{}
}

func (t *translator) tryClassify(p *pkgInfo, call *ast.CallExpr) (ci callInfo, ok bool) {
	defer func() {
		if r := recover(); r != nil {
			if _, isU := r.(unsupported); isU {
				ok = false
				return
			}
			panic(r)
		}
	}()
	return t.classify(p, call), true
}

// rootVar: the variable an lvalue / reference expression is rooted at (`&jq.delegate` → jq, `*pq` → pq, `pq[i]` → pq)
func rootVar(info *types.Info, e ast.Expr) *types.Var {
	for {
		switch x := e.(type) {
		case *ast.ParenExpr:
			e = x.X
		case *ast.StarExpr:
			e = x.X
		case *ast.UnaryExpr:
			if x.Op != token.AND {
				return nil
			}
			e = x.X
		case *ast.SelectorExpr:
			if s := info.Selections[x]; s == nil || s.Kind() != types.FieldVal {
				return nil
			}
			e = x.X
		case *ast.IndexExpr:
			e = x.X
		case *ast.Ident:
			v, _ := info.Uses[x].(*types.Var)
			if v == nil {
				v, _ = info.Defs[x].(*types.Var)
			}
			return v
		default:
			return nil
		}
	}
}

func isRefType(ty types.Type) bool {
	switch ty.Underlying().(type) {
	case *types.Pointer, *types.Slice, *types.Interface, *types.Map:
		return true
	}
	return false
}

// mutArg: the argument expression bound to the callee's mutated parameter
func mutArg(ci callInfo, call *ast.CallExpr) ast.Expr {
	k := ci.fn.mutIdx
	if ci.recv != nil {
		if k == 0 {
			return ci.recv
		}
		k--
	}
	if k < len(call.Args) {
		return call.Args[k]
	}
	return nil
}

// mutatedVars: variables (declared anywhere) that the node assigns or mutates through a reference
func (t *translator) mutatedVars(p *pkgInfo, n ast.Node) map[*types.Var]bool {
	res := map[*types.Var]bool{}
	if n == nil {
		return res
	}
	ast.Inspect(n, func(x ast.Node) bool {
		switch s := x.(type) {
		case *ast.AssignStmt:
			for _, l := range s.Lhs {
				if v := rootVar(p.info, l); v != nil {
					res[v] = true
				}
			}
		case *ast.IncDecStmt:
			if v := rootVar(p.info, s.X); v != nil {
				res[v] = true
			}
		case *ast.CallExpr:
			if ci, ok := t.tryClassify(p, s); ok && ci.kind == kFunc && ci.fn.mutIdx >= 0 {
				if a := mutArg(ci, s); a != nil {
					if v := rootVar(p.info, a); v != nil {
						res[v] = true
					}
				}
			}
		}
		return true
	})
	return res
}

// ---------------------------------------------------------------- analysis (fixpoints)

func (t *translator) analyze() {
	// call graph, ext
	for _, f := range t.fns {
		var node ast.Node
		if f.decl != nil {
			node = f.decl.Body
		} else {
			node = f.value
		}
		if node == nil {
			continue
		}
		ast.Inspect(node, func(x ast.Node) bool {
			switch s := x.(type) {
			case *ast.CallExpr:
				if ci, ok := t.tryClassify(f.p, s); ok {
					if ci.kind == kFunc {
						f.calls[ci.fn] = true
					}
					if ci.kind == kStrings {
						f.ext = true
					}
				}
			case *ast.ForStmt:
				f.fuel = true
			case *ast.ReturnStmt:
				// implicit conversion of a concrete matcher to the Matcher interface uses its IsMatch
				if f.decl != nil {
					sig := f.obj.Type().(*types.Signature)
					for i, r := range s.Results {
						if i < sig.Results().Len() && len(s.Results) == sig.Results().Len() && t.isMatcherIface(sig.Results().At(i).Type()) {
							if tv, ok := f.p.info.Types[r]; ok && !t.isMatcherIface(tv.Type) {
								if n := namedOf(tv.Type); n != nil {
									mobj, _, _ := types.LookupFieldOrMethod(types.NewPointer(n), true, n.Obj().Pkg(), "IsMatch")
									if g := t.byObj[mobj]; g != nil {
										f.calls[g] = true
									}
								}
							}
						}
					}
				}
			case *ast.Ident:
				if g := t.byObj[f.p.info.Uses[s]]; g != nil && g != f {
					f.calls[g] = true
				}
			case *ast.SelectorExpr:
				if g := t.byObj[f.p.info.Uses[s.Sel]]; g != nil && g != f {
					f.calls[g] = true
				}
				if id, ok := s.X.(*ast.Ident); ok {
					if pn, ok := f.p.info.Uses[id].(*types.PkgName); ok && pn.Imported().Path() == "strings" && stringsFns[s.Sel.Name] {
						f.ext = true
					}
				}
			}
			return true
		})
	}
	for changed := true; changed; {
		changed = false
		for _, f := range t.fns {
			for g := range f.calls {
				if g.fuel && !f.fuel {
					f.fuel, changed = true, true
				}
				if g.ext && !f.ext {
					f.ext, changed = true, true
				}
			}
			if f.decl == nil || f.decl.Body == nil {
				continue
			}
			mv := t.mutatedVars(f.p, f.decl.Body)
			for i, prm := range f.params {
				if !mv[prm] || !isRefType(prm.Type()) {
					continue
				}
				if !t.paramMutatedByRef(f, prm) {
					continue
				}
				if f.mutIdx == -1 {
					f.mutIdx, changed = i, true
				} else if f.mutIdx != i && f.mutErr == "" {
					f.mutErr = fmt.Sprintf("two parameters mutated through references (%s, %s)", f.params[f.mutIdx].Name(), prm.Name())
				}
			}
		}
	}
}

// paramMutatedByRef: the parameter's referent is changed (not merely the local copy of the parameter rebound)
func (t *translator) paramMutatedByRef(f *fnInfo, prm *types.Var) bool {
	found := false
	info := f.p.info
	check := func(l ast.Expr) {
		if rootVar(info, l) != prm {
			return
		}
		if id, ok := unparen(l).(*ast.Ident); ok && info.Uses[id] == prm {
			return // `p = e` rebinds the local copy only
		}
		found = true
	}
	ast.Inspect(f.decl.Body, func(x ast.Node) bool {
		switch s := x.(type) {
		case *ast.AssignStmt:
			for _, l := range s.Lhs {
				check(l)
			}
		case *ast.IncDecStmt:
			check(s.X)
		case *ast.CallExpr:
			if ci, ok := t.tryClassify(f.p, s); ok && ci.kind == kFunc && ci.fn.mutIdx >= 0 {
				if a := mutArg(ci, s); a != nil && rootVar(info, a) == prm {
					found = true
				}
			}
		}
		return true
	})
	return found
}

func (t *translator) topo() []*fnInfo {
	for i, f := range t.fns {
		f.order = i
	}
	var out []*fnInfo
	state := map[*fnInfo]int{}
	var visit func(f *fnInfo)
	visit = func(f *fnInfo) {
		if state[f] != 0 {
			if state[f] == 1 && f.err == nil {
				f.err = unsupported{"recursion"}
			}
			return
		}
		state[f] = 1
		var cs []*fnInfo
		for g := range f.calls {
			cs = append(cs, g)
		}
		sort.Slice(cs, func(i, j int) bool { return cs[i].order < cs[j].order })
		for _, g := range cs {
			visit(g)
		}
		state[f] = 2
		out = append(out, f)
	}
	for _, f := range t.fns {
		visit(f)
	}
	return out
}

// ---------------------------------------------------------------- idiom checks

func (t *translator) report(name string, ok bool, why []string, okText string) {
	if ok && len(why) == 0 {
		t.idioms[name] = "ok: " + okText
		return
	}
	t.idioms[name] = "FAILED: " + strings.Join(why, "; ")
	t.miss("idiom:" + name)
}

func exprString(e ast.Expr) string {
	var b strings.Builder
	var w func(e ast.Expr)
	w = func(e ast.Expr) {
		switch x := e.(type) {
		case *ast.Ident:
			b.WriteString(x.Name)
		case *ast.SelectorExpr:
			w(x.X)
			b.WriteString("." + x.Sel.Name)
		case *ast.StarExpr:
			b.WriteString("*")
			w(x.X)
		case *ast.UnaryExpr:
			b.WriteString(x.Op.String())
			w(x.X)
		case *ast.ParenExpr:
			b.WriteString("(")
			w(x.X)
			b.WriteString(")")
		case *ast.CallExpr:
			w(x.Fun)
			b.WriteString("(…)")
		case *ast.BasicLit:
			b.WriteString(x.Value)
		case *ast.IndexExpr:
			w(x.X)
			b.WriteString("[")
			w(x.Index)
			b.WriteString("]")
		default:
			fmt.Fprintf(&b, "%T", e)
		}
	}
	w(e)
	return b.String()
}

// hasIfaceAssertion: `var _ I = (*T)(nil)` in package p
func hasIfaceAssertion(p *pkgInfo, iface, typ string) bool {
	for _, f := range p.files {
		for _, d := range f.Decls {
			gd, ok := d.(*ast.GenDecl)
			if !ok || gd.Tok != token.VAR {
				continue
			}
			for _, s := range gd.Specs {
				vs := s.(*ast.ValueSpec)
				if len(vs.Names) == 1 && vs.Names[0].Name == "_" && vs.Type != nil && len(vs.Values) == 1 {
					if strings.HasSuffix(exprString(vs.Type), iface) && exprString(vs.Values[0]) == "(*"+typ+")(…)" {
						return true
					}
				}
			}
		}
	}
	return false
}

func (t *translator) checkIdioms() {
	qz := t.qz
	// 1. heap.Interface devirtualised to priorityQueue
	{
		var why []string
		if !hasIfaceAssertion(qz, "heap.Interface", "priorityQueue") {
			why = append(why, "no `var _ heap.Interface = (*priorityQueue)(nil)`")
		}
		n := 0
		for _, f := range qz.files {
			ast.Inspect(f, func(x ast.Node) bool {
				call, ok := x.(*ast.CallExpr)
				if !ok {
					return true
				}
				sel, ok := call.Fun.(*ast.SelectorExpr)
				if !ok {
					return true
				}
				id, ok := sel.X.(*ast.Ident)
				if !ok {
					return true
				}
				if pn, ok := qz.info.Uses[id].(*types.PkgName); !ok || pn.Imported().Path() != heapPath {
					return true
				}
				n++
				if len(call.Args) == 0 {
					why = append(why, "heap."+sel.Sel.Name+" without arguments at "+t.posOf(call))
					return true
				}
				ok = false
				if u, isU := call.Args[0].(*ast.UnaryExpr); isU && u.Op == token.AND {
					if s, isS := u.X.(*ast.SelectorExpr); isS && s.Sel.Name == "delegate" {
						if tv, has := qz.info.Types[s.X]; has && t.isNamed(tv.Type, t.jqNamed) {
							ok = true
						}
					}
				}
				if !ok {
					why = append(why, fmt.Sprintf("heap.%s called with %s at %s (expected &<jobQueue>.delegate)", sel.Sel.Name, exprString(call.Args[0]), t.posOf(call)))
				}
				return true
			})
		}
		// the `any` of heap.Interface.Push/Pop is the element type: priorityQueue.Push asserts element.(*scheduledJob)
		asserted := false
		for _, f := range t.fns {
			if f.lean == "priorityQueue.Push" && f.decl != nil {
				ast.Inspect(f.decl.Body, func(x ast.Node) bool {
					if ta, ok := x.(*ast.TypeAssertExpr); ok && ta.Type != nil {
						if tv, ok := qz.info.Types[ta.Type]; ok && isPtr(tv.Type) && t.isNamed(tv.Type, t.sjNamed) {
							asserted = true
						}
					}
					return true
				})
			}
		}
		if !asserted {
			why = append(why, "priorityQueue.Push does not assert element.(*scheduledJob)")
		}
		if t.pqNamed != nil {
			if sl, ok := t.pqNamed.Underlying().(*types.Slice); !ok || !isPtr(sl.Elem()) || !t.isNamed(sl.Elem(), t.sjNamed) {
				why = append(why, "priorityQueue is not []*scheduledJob")
			}
		}
		t.report("devirt-heap", true, why, fmt.Sprintf("heap.Interface = priorityQueue: %d calls of heap.* in package quartz, all on &jq.delegate; element type *scheduledJob asserted in priorityQueue.Push", n))
	}
	// 2. ScheduledJob devirtualised to *scheduledJob
	{
		var why []string
		if !hasIfaceAssertion(qz, "ScheduledJob", "scheduledJob") {
			why = append(why, "no `var _ ScheduledJob = (*scheduledJob)(nil)`")
		}
		var impls []string
		if t.sjIface != nil && qz.pkg != nil {
			if it, ok := t.sjIface.Underlying().(*types.Interface); ok {
				for _, name := range qz.pkg.Scope().Names() {
					if tn, ok := qz.pkg.Scope().Lookup(name).(*types.TypeName); ok && !tn.IsAlias() {
						if _, isI := tn.Type().Underlying().(*types.Interface); isI {
							continue
						}
						if types.Implements(types.NewPointer(tn.Type()), it) || types.Implements(tn.Type(), it) {
							impls = append(impls, name)
						}
					}
				}
			}
		}
		if len(impls) != 1 || impls[0] != "scheduledJob" {
			why = append(why, fmt.Sprintf("implementations of ScheduledJob in package quartz: %v", impls))
		}
		t.report("devirt-scheduledJob", true, why, "ScheduledJob = *scheduledJob (the only implementation in package quartz; any other dynamic type panics in priorityQueue.Push)")
	}
	{
		var why []string
		if !hasIfaceAssertion(qz, "JobQueue", "jobQueue") {
			why = append(why, "no `var _ JobQueue = (*jobQueue)(nil)`")
		}
		t.report("devirt-jobQueue", true, why, "the JobQueue returned by NewJobQueue is a *jobQueue")
	}
	// 3. lock shape
	{
		var why []string
		var names []string
		for _, f := range t.fns {
			if f.p != qz || f.decl == nil || f.decl.Recv == nil || recvTypeName(f.decl) != "jobQueue" {
				continue
			}
			locked := t.lockPrefix(f) == 2
			uses := 0
			ast.Inspect(f.decl.Body, func(x ast.Node) bool {
				if s, ok := x.(*ast.SelectorExpr); ok {
					if sel := qz.info.Selections[s]; sel != nil && sel.Kind() == types.FieldVal && isMutexType(sel.Type()) {
						uses++
					}
				}
				return true
			})
			if ast.IsExported(f.decl.Name.Name) {
				if !locked {
					why = append(why, f.lean+" does not begin with mtx.Lock(); defer mtx.Unlock()")
				} else if uses != 2 {
					why = append(why, fmt.Sprintf("%s uses the mutex %d times", f.lean, uses))
				} else {
					names = append(names, f.decl.Name.Name)
				}
			} else if uses != 0 {
				why = append(why, f.lean+" (unexported, called with the lock held) touches the mutex")
			}
		}
		t.lockedMeths = names
		t.report("lockShape", true, why, "every exported jobQueue method begins with jq.mtx.Lock(); defer jq.mtx.Unlock() and does not touch the mutex otherwise: "+strings.Join(names, " "))
	}
	// 4. sentinel errors
	{
		var why []string
		for _, f := range qz.files {
			if filepath.Base(t.fset.Position(f.Pos()).Filename) != "error.go" {
				continue
			}
			for _, d := range f.Decls {
				gd, ok := d.(*ast.GenDecl)
				if !ok || gd.Tok != token.VAR {
					continue
				}
				for _, s := range gd.Specs {
					vs := s.(*ast.ValueSpec)
					for i, id := range vs.Names {
						if i >= len(vs.Values) {
							why = append(why, id.Name+" has no initialiser")
							continue
						}
						call, ok := vs.Values[i].(*ast.CallExpr)
						if !ok || exprString(call.Fun) != "errors.New" || len(call.Args) != 1 {
							why = append(why, id.Name+" is not errors.New(\"…\")")
							continue
						}
						lit, ok := call.Args[0].(*ast.BasicLit)
						if !ok || lit.Kind != token.STRING {
							why = append(why, id.Name+" is not errors.New(\"…\")")
							continue
						}
						t.errNames = append(t.errNames, id.Name)
						t.errMsg[id.Name] = lit.Value
						t.errObjs[qz.info.Defs[id]] = true
					}
				}
			}
		}
		if len(t.errNames) == 0 {
			why = append(why, "no sentinel errors found in quartz/error.go")
		}
		// the sentinels are never reassigned in package quartz
		for _, f := range qz.files {
			ast.Inspect(f, func(x ast.Node) bool {
				if as, ok := x.(*ast.AssignStmt); ok {
					for _, l := range as.Lhs {
						if id, ok := l.(*ast.Ident); ok && t.errObjs[qz.info.Uses[id]] {
							why = append(why, id.Name+" reassigned at "+t.posOf(as))
						}
					}
				}
				return true
			})
		}
		t.report("errors", true, why, "sentinel errors of quartz/error.go are errors.New(literal), never reassigned: "+strings.Join(t.errNames, " "))
	}
	// 5. package variables of package matcher are never reassigned / address-taken values are only read
	{
		var why []string
		for _, f := range t.mt.files {
			ast.Inspect(f, func(x ast.Node) bool {
				if as, ok := x.(*ast.AssignStmt); ok {
					for _, l := range as.Lhs {
						if v := rootVar(t.mt.info, l); v != nil {
							if g := t.byObj[v]; g != nil && g.value != nil {
								why = append(why, v.Name()+" reassigned at "+t.posOf(as))
							}
						}
					}
				}
				return true
			})
		}
		t.report("matcher-vars", true, why, "package variables of package matcher (string operators) are never assigned after initialisation inside the package; `&StringEquals` is translated as the value")
	}
}

// lockPrefix: number of leading statements forming `x.mtx.Lock(); defer x.mtx.Unlock()` (0 or 2)
func (t *translator) lockPrefix(f *fnInfo) int {
	if f.decl == nil || f.decl.Body == nil || len(f.decl.Body.List) < 2 {
		return 0
	}
	es, ok := f.decl.Body.List[0].(*ast.ExprStmt)
	if !ok {
		return 0
	}
	c1, ok := es.X.(*ast.CallExpr)
	if !ok {
		return 0
	}
	ds, ok := f.decl.Body.List[1].(*ast.DeferStmt)
	if !ok {
		return 0
	}
	ci1, ok1 := t.tryClassify(f.p, c1)
	ci2, ok2 := t.tryClassify(f.p, ds.Call)
	if !ok1 || !ok2 || ci1.kind != kLock || ci2.kind != kLock || ci1.name != "Lock" || ci2.name != "Unlock" {
		return 0
	}
	if exprString(ci1.recv) != exprString(ci2.recv) || len(f.params) == 0 || rootVar(f.p.info, ci1.recv) != f.params[0] {
		return 0
	}
	return 2
}
