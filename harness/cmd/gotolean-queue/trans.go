package main

import (
	"fmt"
	"go/ast"
	"go/constant"
	"go/token"
	"go/types"
	"sort"
	"strconv"
	"strings"
)

func ind(s string) string {
	lines := strings.Split(s, "\n")
	for i, l := range lines {
		if l != "" {
			lines[i] = "  " + l
		}
	}
	return strings.Join(lines, "\n")
}

func ifText(c, a, b string) string {
	return "if " + c + " then\n" + ind(a) + "\nelse\n" + ind(b)
}

func isAtom(s string) bool {
	if s == "" {
		return false
	}
	depth := 0
	inStr := false
	for i, r := range s {
		switch {
		case inStr:
			if r == '"' && s[i-1] != '\\' {
				inStr = false
			}
		case r == '"':
			inStr = true
		case r == '(' || r == '[' || r == '{':
			depth++
		case r == ')' || r == ']' || r == '}':
			depth--
		case (r == ' ' || r == '\n') && depth == 0:
			return false
		}
	}
	return !strings.HasPrefix(s, "-") && !strings.HasPrefix(s, "!")
}

func paren(s string) string {
	if isAtom(s) {
		return s
	}
	return "(" + s + ")"
}

func leanString(s string) string {
	var b strings.Builder
	b.WriteByte('"')
	for _, r := range s {
		switch {
		case r == '"':
			b.WriteString("\\\"")
		case r == '\\':
			b.WriteString("\\\\")
		case r == '\n':
			b.WriteString("\\n")
		case r == '\t':
			b.WriteString("\\t")
		case r < 0x20 || r == 0x7f:
			fmt.Fprintf(&b, "\\x%02x", r)
		default:
			b.WriteRune(r)
		}
	}
	b.WriteByte('"')
	return b.String()
}

// ---------------------------------------------------------------- function context

type preItem struct {
	bind bool
	name string
	rhs  string
}

type loopCtx struct {
	label  string
	parent *loopCtx
	cont   func() string
	brk    func() string
	next   func() string // labelled `continue` of the directly enclosing loop, from inside this loop
}

type fctx struct {
	t     *translator
	f     *fnInfo
	p     *pkgInfo
	info  *types.Info
	opt   bool
	loop  *loopCtx
	pre   []preItem
	fresh int
	aux   []string
	nloop int
	label string // label of the statement being translated (LabeledStmt)
}

func (c *fctx) freshName(p string) string {
	c.fresh++
	return fmt.Sprintf("%s%d", p, c.fresh)
}

func (c *fctx) take() []preItem {
	p := c.pre
	c.pre = nil
	return p
}

func render(pre []preItem, body string) string {
	var b strings.Builder
	for _, it := range pre {
		if it.bind {
			fmt.Fprintf(&b, "(%s).bind fun %s =>\n", it.rhs, it.name)
		} else {
			fmt.Fprintf(&b, "let %s := %s\n", it.name, it.rhs)
		}
	}
	b.WriteString(body)
	return b.String()
}

func (c *fctx) wrap(s string) string {
	if c.opt {
		return "some " + paren(s)
	}
	return s
}

func tuple(xs []string) string {
	switch len(xs) {
	case 0:
		return "()"
	case 1:
		return xs[0]
	}
	return "(" + strings.Join(xs, ", ") + ")"
}

func tuplePat(xs []string) string {
	if len(xs) == 0 {
		return "_"
	}
	return tuple(xs)
}

func tupleType(xs []string) string {
	if len(xs) == 0 {
		return "Unit"
	}
	for i := range xs {
		xs[i] = parenType(xs[i])
	}
	return strings.Join(xs, " × ")
}

// proj: component i of a right-nested n-tuple r
func proj(r string, i, n int) string {
	if n == 1 {
		return r
	}
	s := r
	for k := 0; k < i; k++ {
		s += ".2"
	}
	if i < n-1 {
		s += ".1"
	}
	return s
}

func (c *fctx) mutName() string {
	if c.f.mutIdx < 0 {
		return ""
	}
	return leanIdent(c.f.params[c.f.mutIdx].Name())
}

// payload: what the translated function returns for Go results `results`
func (c *fctx) payload(results []string) string {
	var xs []string
	if c.f.mutIdx >= 0 {
		xs = append(xs, c.mutName())
	}
	xs = append(xs, results...)
	return tuple(xs)
}

func (c *fctx) payloadType() string {
	var xs []string
	if c.f.mutIdx >= 0 {
		xs = append(xs, c.t.leanType(c.f.params[c.f.mutIdx].Type()))
	}
	sig := c.f.obj.Type().(*types.Signature)
	for i := 0; i < sig.Results().Len(); i++ {
		xs = append(xs, c.t.leanType(sig.Results().At(i).Type()))
	}
	return tupleType(xs)
}

// retText: a `return` with the given payload, in the current context
func (c *fctx) retText(payload string) string {
	if c.loop != nil {
		return c.wrap(".ret " + paren(payload))
	}
	return c.wrap(payload)
}

// ---------------------------------------------------------------- expressions

func (c *fctx) zeroOf(ty types.Type) string {
	switch {
	case isErrorType(ty):
		return "Error.nil"
	}
	switch u := ty.Underlying().(type) {
	case *types.Slice:
		return "([] : " + c.t.leanType(ty) + ")"
	case *types.Basic:
		switch {
		case u.Info()&types.IsInteger != 0:
			return "0"
		case u.Info()&types.IsBoolean != 0:
			return "false"
		case u.Info()&types.IsString != 0:
			return "\"\""
		}
	}
	return "(default : " + c.t.leanType(ty) + ")"
}

// convertTo: implicit conversion of a value of static type `from` to `to` (only interesting case: concrete matcher → Matcher)
func (c *fctx) convertTo(text string, from, to types.Type) string {
	if to == nil || from == nil {
		return text
	}
	if c.t.isMatcherIface(to) && !c.t.isMatcherIface(from) {
		n := namedOf(from)
		if n == nil {
			fail("conversion of %s to Matcher", from)
		}
		mobj, _, _ := types.LookupFieldOrMethod(types.NewPointer(n), true, n.Obj().Pkg(), "IsMatch")
		fo, _ := mobj.(*types.Func)
		g := c.t.byObj[fo]
		if g == nil {
			fail("conversion of %s to Matcher: IsMatch not translated", from)
		}
		c.f.calls[g] = true
		s := g.lean
		if g.ext {
			s += " S"
		}
		return s + " " + paren(text)
	}
	return text
}

// exprAs: expression in a context that expects type `to` (typed nil, implicit interface conversion)
func (c *fctx) exprAs(e ast.Expr, to types.Type) string {
	if id, ok := unparen(e).(*ast.Ident); ok && to != nil {
		if _, isNil := c.info.Uses[id].(*types.Nil); isNil {
			return c.zeroOf(to)
		}
	}
	return c.convertTo(c.expr(e), c.info.Types[e].Type, to)
}

func (c *fctx) expr(e ast.Expr) string {
	info := c.info
	switch x := e.(type) {
	case *ast.ParenExpr:
		return paren(c.expr(x.X))
	case *ast.BasicLit:
		switch x.Kind {
		case token.INT:
			return x.Value
		case token.STRING:
			s, err := strconv.Unquote(x.Value)
			if err != nil {
				fail("string literal %s", x.Value)
			}
			return leanString(s)
		}
	case *ast.Ident:
		switch obj := info.Uses[x].(type) {
		case *types.Const:
			if obj.Pkg() == nil {
				return x.Name // true / false
			}
			return c.t.needConst(obj)
		case *types.Var:
			return c.varRef(obj, x)
		case *types.Nil:
			if tv, ok := info.Types[x]; ok && tv.Type != nil {
				if b, isB := tv.Type.(*types.Basic); !isB || b.Kind() != types.UntypedNil {
					return c.zeroOf(tv.Type)
				}
			}
			fail("nil of unknown type at %s", c.t.posOf(x))
		case *types.Func:
			if g := c.t.byObj[obj]; g != nil {
				if g.mutIdx >= 0 || g.fuel {
					fail("function value %s", x.Name)
				}
				c.f.calls[g] = true
				if g.ext {
					return "(" + g.lean + " S)"
				}
				return g.lean
			}
		}
	case *ast.SelectorExpr:
		if id, ok := x.X.(*ast.Ident); ok {
			if pn, isPkg := info.Uses[id].(*types.PkgName); isPkg {
				switch obj := info.Uses[x.Sel].(type) {
				case *types.Const:
					return c.t.needConst(obj)
				case *types.Var:
					return c.varRef(obj, x)
				case *types.Func:
					if pn.Imported().Path() == "strings" && stringsFns[x.Sel.Name] {
						return "S." + x.Sel.Name
					}
					if g := c.t.byObj[obj]; g != nil && g.mutIdx < 0 && !g.fuel {
						c.f.calls[g] = true
						if g.ext {
							return "(" + g.lean + " S)"
						}
						return g.lean
					}
				}
				fail("package member %s.%s", id.Name, x.Sel.Name)
			}
		}
		if s := info.Selections[x]; s != nil && s.Kind() == types.FieldVal {
			if isMutexType(s.Type()) {
				fail("mutex field used as a value")
			}
			if len(s.Index()) != 1 {
				fail("promoted field %s", x.Sel.Name)
			}
			return paren(c.expr(x.X)) + "." + leanIdent(x.Sel.Name)
		}
	case *ast.StarExpr:
		return c.expr(x.X)
	case *ast.UnaryExpr:
		switch x.Op {
		case token.NOT:
			return "!" + paren(c.expr(x.X))
		case token.SUB:
			return "-" + paren(c.expr(x.X))
		case token.AND:
			return c.expr(x.X) // pointers are the values they point to
		}
	case *ast.BinaryExpr:
		return c.binary(x)
	case *ast.IndexExpr:
		tv := info.Types[x.X]
		if _, ok := tv.Type.Underlying().(*types.Slice); ok {
			return "idxD " + paren(c.expr(x.X)) + " " + paren(c.expr(x.Index))
		}
		fail("index into %s", tv.Type)
	case *ast.SliceExpr:
		tv := info.Types[x.X]
		if _, ok := tv.Type.Underlying().(*types.Slice); !ok || x.Slice3 {
			fail("slice expression on %s", tv.Type)
		}
		base := paren(c.expr(x.X))
		lo, hi := "0", "("+base+".length : Int)"
		if x.Low != nil {
			lo = paren(c.expr(x.Low))
		}
		if x.High != nil {
			hi = paren(c.expr(x.High))
		}
		return "slice " + base + " " + lo + " " + hi
	case *ast.CompositeLit:
		return c.composite(x)
	case *ast.TypeAssertExpr:
		if x.Type == nil {
			fail("type switch")
		}
		from, to := info.Types[x.X].Type, info.Types[x.Type].Type
		if c.t.leanType(from) != c.t.leanType(to) {
			fail("type assertion from %s to %s", from, to)
		}
		return c.expr(x.X) // identity under devirtualisation (checked idioms)
	case *ast.CallExpr:
		res := c.call(x)
		if len(res) != 1 {
			fail("call with %d results used as a value at %s", len(res), c.t.posOf(x))
		}
		return res[0]
	}
	fail("expression %T at %s", e, c.t.posOf(e))
	return ""
}

func (c *fctx) varRef(obj *types.Var, at ast.Node) string {
	if obj.IsField() {
		fail("field %s used as a variable", obj.Name())
	}
	if obj.Pkg() != nil && obj.Parent() == obj.Pkg().Scope() { // package variable
		if c.t.errObjs[obj] {
			return "Error." + obj.Name()
		}
		if g := c.t.byObj[obj]; g != nil {
			c.f.calls[g] = true
			if g.ext {
				return "(" + g.lean + " S)"
			}
			return g.lean
		}
		fail("package variable %s", obj.Name())
	}
	if isMutexType(obj.Type()) {
		fail("mutex variable")
	}
	return leanIdent(obj.Name())
}

func (t *translator) needConst(obj *types.Const) string {
	if n, ok := t.consts[obj]; ok {
		return n
	}
	name := t.pkgPrefix(obj.Pkg()) + leanIdent(obj.Name())
	t.consts[obj] = name
	t.constOrder = append(t.constOrder, obj)
	return name
}

func (t *translator) constDecl(obj *types.Const) string {
	pos := t.posOf(identNode{obj.Pos()})
	switch obj.Val().Kind() {
	case constant.String:
		return fmt.Sprintf("/-- Go: %s -/\nabbrev %s : String := %s\n", pos, t.consts[obj], leanString(constant.StringVal(obj.Val())))
	case constant.Int:
		return fmt.Sprintf("/-- Go: %s -/\nabbrev %s : Int := %s\n", pos, t.consts[obj], obj.Val().ExactString())
	case constant.Bool:
		return fmt.Sprintf("/-- Go: %s -/\nabbrev %s : Bool := %v\n", pos, t.consts[obj], constant.BoolVal(obj.Val()))
	}
	t.miss("const:" + obj.Name())
	return ""
}

func basicInfo(ty types.Type) types.BasicInfo {
	if b, ok := ty.Underlying().(*types.Basic); ok {
		return b.Info()
	}
	return 0
}

func (c *fctx) binary(x *ast.BinaryExpr) string {
	a, b := paren(c.expr(x.X)), paren(c.expr(x.Y))
	bi := basicInfo(c.info.Types[x.X].Type)
	isBool, isInt, isStr := bi&types.IsBoolean != 0, bi&types.IsInteger != 0, bi&types.IsString != 0
	isErr := isErrorType(c.info.Types[x.X].Type) || isErrorType(c.info.Types[x.Y].Type)
	switch x.Op {
	case token.LAND, token.LOR:
		if len(c.pre) > 0 && c.hasEffect(x.Y) {
			fail("effectful call under a short-circuit operator at %s", c.t.posOf(x))
		}
		if x.Op == token.LAND {
			return a + " && " + b
		}
		return a + " || " + b
	case token.EQL, token.NEQ:
		rel := " = "
		if x.Op == token.NEQ {
			rel = " ≠ "
		}
		switch {
		case isBool:
			if x.Op == token.EQL {
				return a + " == " + b
			}
			return a + " != " + b
		case isInt, isStr, isErr:
			return "decide (" + a + rel + b + ")"
		}
		fail("comparison %s on %s", x.Op, c.info.Types[x.X].Type)
	case token.LSS, token.LEQ, token.GTR, token.GEQ:
		if !isInt && !isStr {
			fail("comparison %s on %s", x.Op, c.info.Types[x.X].Type)
		}
		rel := map[token.Token]string{token.LSS: " < ", token.LEQ: " ≤ ", token.GTR: " > ", token.GEQ: " ≥ "}[x.Op]
		return "decide (" + a + rel + b + ")"
	}
	if isStr && x.Op == token.ADD {
		return a + " ++ " + b
	}
	if !isInt {
		fail("operator %s on %s", x.Op, c.info.Types[x.X].Type)
	}
	switch x.Op {
	case token.ADD:
		return a + " + " + b
	case token.SUB:
		return a + " - " + b
	case token.MUL:
		return a + " * " + b
	case token.QUO:
		return "Int.tdiv " + a + " " + b
	case token.REM:
		return "Int.tmod " + a + " " + b
	}
	fail("operator %s", x.Op)
	return ""
}

func (c *fctx) hasEffect(n ast.Node) bool {
	found := false
	ast.Inspect(n, func(x ast.Node) bool {
		if call, ok := x.(*ast.CallExpr); ok {
			if ci, ok := c.t.tryClassify(c.p, call); ok && ci.kind == kFunc && (ci.fn.mutIdx >= 0 || ci.fn.fuel) {
				found = true
			}
		}
		return !found
	})
	return found
}

func (c *fctx) hasFuel(nodes ...ast.Node) bool {
	found := false
	for _, n := range nodes {
		if n == nil {
			continue
		}
		ast.Inspect(n, func(x ast.Node) bool {
			switch s := x.(type) {
			case *ast.ForStmt:
				found = true
			case *ast.CallExpr:
				if ci, ok := c.t.tryClassify(c.p, s); ok && ci.kind == kFunc && ci.fn.fuel {
					found = true
				}
			}
			return !found
		})
	}
	return found
}

func (c *fctx) composite(x *ast.CompositeLit) string {
	tv := c.info.Types[x]
	lt := c.t.leanType(tv.Type)
	switch u := tv.Type.Underlying().(type) {
	case *types.Slice:
		var parts []string
		for _, el := range x.Elts {
			if _, isKV := el.(*ast.KeyValueExpr); isKV {
				fail("keyed slice literal")
			}
			parts = append(parts, c.expr(el))
		}
		return "([" + strings.Join(parts, ", ") + "] : " + lt + ")"
	case *types.Struct:
		vals := map[string]string{}
		for i, el := range x.Elts {
			if kv, ok := el.(*ast.KeyValueExpr); ok {
				vals[kv.Key.(*ast.Ident).Name] = c.expr(kv.Value)
			} else {
				vals[u.Field(i).Name()] = c.expr(el)
			}
		}
		var parts []string
		for i := 0; i < u.NumFields(); i++ {
			f := u.Field(i)
			if isMutexType(f.Type()) {
				if _, set := vals[f.Name()]; set {
					fail("mutex field initialised")
				}
				continue
			}
			v, ok := vals[f.Name()]
			if !ok {
				v = c.zeroOf(f.Type())
			}
			parts = append(parts, leanIdent(f.Name())+" := "+v)
		}
		if len(parts) == 0 {
			return "(" + lt + ".mk)"
		}
		return "({ " + strings.Join(parts, ", ") + " } : " + lt + ")"
	}
	fail("composite literal of type %s", tv.Type)
	return ""
}

// call translates a call; the result is the list of texts of the Go results (effectful calls are hoisted into c.pre)
func (c *fctx) call(call *ast.CallExpr) []string {
	ci := c.t.classify(c.p, call)
	info := c.info
	if call.Ellipsis != token.NoPos && !(ci.kind == kBuiltin && ci.name == "append") {
		fail("variadic call")
	}
	switch ci.kind {
	case kLock:
		fail("mutex operation outside the lock idiom at %s", c.t.posOf(call))
	case kConv:
		if len(call.Args) != 1 {
			fail("conversion")
		}
		from, to := info.Types[call.Args[0]].Type, info.Types[call.Fun].Type
		if c.t.leanType(from) != c.t.leanType(to) {
			fail("conversion from %s to %s", from, to)
		}
		return []string{c.expr(call.Args[0])}
	case kBuiltin:
		switch ci.name {
		case "len":
			if _, ok := info.Types[call.Args[0]].Type.Underlying().(*types.Slice); !ok {
				fail("len of %s", info.Types[call.Args[0]].Type)
			}
			return []string{"(" + paren(c.expr(call.Args[0])) + ".length : Int)"}
		case "append":
			if len(call.Args) != 2 {
				fail("append with %d arguments", len(call.Args))
			}
			a, b := paren(c.expr(call.Args[0])), c.expr(call.Args[1])
			if call.Ellipsis != token.NoPos {
				return []string{a + " ++ " + paren(b)}
			}
			return []string{a + " ++ [" + b + "]"}
		case "make":
			ty := info.Types[call.Args[0]].Type
			sl, ok := ty.Underlying().(*types.Slice)
			if !ok || len(call.Args) != 2 {
				fail("make of %s", ty)
			}
			if v := info.Types[call.Args[1]].Value; v != nil && v.ExactString() == "0" {
				return []string{"([] : " + c.t.leanType(ty) + ")"}
			}
			return []string{"List.replicate " + paren(c.expr(call.Args[1])) + ".toNat " + c.zeroOf(sl.Elem())}
		}
		fail("builtin %s", ci.name)
	case kErrorf:
		if len(call.Args) != 3 {
			fail("fmt.Errorf with %d arguments (idiom: format and two errors)", len(call.Args))
		}
		lit, ok := call.Args[0].(*ast.BasicLit)
		if !ok || lit.Kind != token.STRING {
			fail("fmt.Errorf format is not a literal")
		}
		for _, a := range call.Args[1:] {
			if !isErrorType(info.Types[a].Type) {
				fail("fmt.Errorf argument of type %s", info.Types[a].Type)
			}
		}
		return []string{"Error.errorf " + c.expr(lit) + " " + paren(c.expr(call.Args[1])) + " " + paren(c.expr(call.Args[2]))}
	case kStrings:
		if len(call.Args) != 2 {
			fail("strings.%s arity", ci.name)
		}
		return []string{"S." + ci.name + " " + paren(c.expr(call.Args[0])) + " " + paren(c.expr(call.Args[1]))}
	case kMatcher:
		if len(call.Args) != 1 {
			fail("IsMatch arity")
		}
		return []string{paren(c.expr(ci.recv)) + " " + paren(c.expr(call.Args[0]))}
	case kFuncVal:
		parts := []string{paren(c.expr(unparen(call.Fun)))}
		for _, a := range call.Args {
			parts = append(parts, paren(c.expr(a)))
		}
		return []string{strings.Join(parts, " ")}
	case kFunc:
		g := ci.fn
		c.f.calls[g] = true
		if g.decl == nil {
			fail("call of package variable %s", g.lean)
		}
		sig := g.obj.Type().(*types.Signature)
		if sig.Variadic() {
			fail("variadic callee %s", g.lean)
		}
		parts := []string{g.lean}
		if g.ext {
			parts = append(parts, "S")
		}
		if ci.recv != nil {
			parts = append(parts, paren(c.expr(ci.recv)))
		}
		for i, a := range call.Args {
			parts = append(parts, paren(c.exprAs(a, sig.Params().At(i).Type())))
		}
		if g.fuel {
			parts = append(parts, "fuel")
		}
		text := strings.Join(parts, " ")
		nres := sig.Results().Len()
		if g.mutIdx < 0 && !g.fuel {
			if nres == 1 {
				return []string{text}
			}
			r := c.freshName("r")
			c.pre = append(c.pre, preItem{name: r, rhs: text})
			var res []string
			for i := 0; i < nres; i++ {
				res = append(res, proj(r, i, nres))
			}
			return res
		}
		if g.fuel && !c.opt {
			fail("internal: fuel callee in a function without fuel")
		}
		r := c.freshName("r")
		c.pre = append(c.pre, preItem{bind: g.fuel, name: r, rhs: text})
		comps, off := nres, 0
		if g.mutIdx >= 0 {
			comps, off = nres+1, 1
			arg := mutArg(ci, call)
			c.assignTo(arg, proj(r, 0, comps))
		}
		var res []string
		for i := 0; i < nres; i++ {
			res = append(res, proj(r, off+i, comps))
		}
		return res
	}
	fail("call at %s", c.t.posOf(call))
	return nil
}

// assignTo appends `let <root> := …` for the assignment `lhs = val` to c.pre
func (c *fctx) assignTo(lhs ast.Expr, val string) {
	switch x := lhs.(type) {
	case *ast.ParenExpr:
		c.assignTo(x.X, val)
		return
	case *ast.Ident:
		if x.Name == "_" {
			c.pre = append(c.pre, preItem{name: "_", rhs: val})
			return
		}
		var obj types.Object = c.info.Defs[x]
		if obj == nil {
			obj = c.info.Uses[x]
		}
		v, ok := obj.(*types.Var)
		if !ok || (v.Pkg() != nil && v.Parent() == v.Pkg().Scope()) {
			fail("assignment to %s", x.Name)
		}
		c.pre = append(c.pre, preItem{name: leanIdent(x.Name), rhs: val})
		return
	case *ast.StarExpr:
		c.assignTo(x.X, val)
		return
	case *ast.UnaryExpr:
		if x.Op == token.AND {
			c.assignTo(x.X, val)
			return
		}
	case *ast.SelectorExpr:
		if s := c.info.Selections[x]; s != nil && s.Kind() == types.FieldVal && len(s.Index()) == 1 {
			base := c.expr(x.X)
			c.assignTo(x.X, "{ "+base+" with "+leanIdent(x.Sel.Name)+" := "+val+" }")
			return
		}
	case *ast.IndexExpr:
		if _, ok := c.info.Types[x.X].Type.Underlying().(*types.Slice); ok {
			c.assignTo(x.X, "setI "+paren(c.expr(x.X))+" "+paren(c.expr(x.Index))+" "+paren(val))
			return
		}
	}
	fail("assignment target %s at %s", exprString(lhs), c.t.posOf(lhs))
}

// ---------------------------------------------------------------- statements

func mayExit(n ast.Node) bool {
	found := false
	ast.Inspect(n, func(x ast.Node) bool {
		switch x.(type) {
		case *ast.ReturnStmt, *ast.BranchStmt:
			found = true
		}
		return !found
	})
	return found
}

func hasReturn(n ast.Node) bool {
	found := false
	ast.Inspect(n, func(x ast.Node) bool {
		if _, ok := x.(*ast.ReturnStmt); ok {
			found = true
		}
		return !found
	})
	return found
}

func (c *fctx) stmts(list []ast.Stmt, k func() string) string {
	if len(list) == 0 {
		return k()
	}
	rest := func() string { return c.stmts(list[1:], k) }
	return c.stmt(list[0], rest)
}

func (c *fctx) stmt(s ast.Stmt, rest func() string) string {
	label := c.label
	c.label = ""
	switch x := s.(type) {
	case *ast.EmptyStmt:
		return rest()
	case *ast.BlockStmt:
		return c.stmts(x.List, rest)
	case *ast.LabeledStmt:
		switch x.Stmt.(type) {
		case *ast.ForStmt, *ast.RangeStmt:
			c.label = x.Label.Name
			return c.stmt(x.Stmt, rest)
		}
		fail("label on a %T", x.Stmt)
	case *ast.ExprStmt:
		call, ok := x.X.(*ast.CallExpr)
		if !ok {
			fail("expression statement %T", x.X)
		}
		res := c.call(call)
		if !c.hasEffect(call) {
			for _, r := range res {
				c.pre = append(c.pre, preItem{name: "_", rhs: r})
			}
		}
		return render(c.take(), rest())
	case *ast.IncDecStmt:
		op := " + 1"
		if x.Tok == token.DEC {
			op = " - 1"
		}
		if basicInfo(c.info.Types[x.X].Type)&types.IsInteger == 0 {
			fail("++ on %s", c.info.Types[x.X].Type)
		}
		c.assignTo(x.X, c.expr(x.X)+op)
		return render(c.take(), rest())
	case *ast.AssignStmt:
		c.assign(x)
		return render(c.take(), rest())
	case *ast.DeclStmt:
		gd, ok := x.Decl.(*ast.GenDecl)
		if !ok || gd.Tok != token.VAR {
			fail("declaration statement")
		}
		for _, sp := range gd.Specs {
			vs := sp.(*ast.ValueSpec)
			for i, id := range vs.Names {
				v := c.info.Defs[id].(*types.Var)
				val := c.zeroOf(v.Type())
				if i < len(vs.Values) {
					val = c.exprAs(vs.Values[i], v.Type())
				}
				c.assignTo(id, val)
			}
		}
		return render(c.take(), rest())
	case *ast.ReturnStmt:
		sig := c.f.obj.Type().(*types.Signature)
		if len(x.Results) != sig.Results().Len() {
			if len(x.Results) == 1 && sig.Results().Len() > 1 {
				if call, ok := x.Results[0].(*ast.CallExpr); ok {
					res := c.call(call)
					return render(c.take(), c.retText(c.payload(res)))
				}
			}
			fail("return with %d values for %d results (named results are not supported)", len(x.Results), sig.Results().Len())
		}
		var vals []string
		for i, r := range x.Results {
			vals = append(vals, c.exprAs(r, sig.Results().At(i).Type()))
		}
		return render(c.take(), c.retText(c.payload(vals)))
	case *ast.IfStmt:
		return c.ifStmt(x, rest)
	case *ast.ForStmt:
		return c.forLoop(x, label, rest)
	case *ast.RangeStmt:
		return c.rangeLoop(x, label, rest)
	case *ast.BranchStmt:
		if c.loop == nil {
			fail("%s outside a loop", x.Tok)
		}
		switch x.Tok {
		case token.BREAK:
			if x.Label != nil && x.Label.Name != c.loop.label {
				fail("labelled break out of an outer loop")
			}
			return c.loop.brk()
		case token.CONTINUE:
			if x.Label == nil || x.Label.Name == c.loop.label {
				return c.loop.cont()
			}
			if c.loop.parent != nil && c.loop.parent.label == x.Label.Name && c.loop.next != nil {
				return c.loop.next()
			}
			fail("labelled continue of a loop that is not the directly enclosing one")
		}
		fail("%s statement", x.Tok)
	case *ast.DeferStmt:
		fail("defer outside the lock idiom at %s", c.t.posOf(x))
	}
	fail("statement %T at %s", s, c.t.posOf(s))
	return ""
}

func (c *fctx) assign(s *ast.AssignStmt) {
	switch s.Tok {
	case token.DEFINE, token.ASSIGN:
	case token.ADD_ASSIGN, token.SUB_ASSIGN, token.MUL_ASSIGN:
		if len(s.Lhs) != 1 || basicInfo(c.info.Types[s.Lhs[0]].Type)&types.IsInteger == 0 {
			fail("%s", s.Tok)
		}
		op := map[token.Token]string{token.ADD_ASSIGN: " + ", token.SUB_ASSIGN: " - ", token.MUL_ASSIGN: " * "}[s.Tok]
		c.assignTo(s.Lhs[0], paren(c.expr(s.Lhs[0]))+op+paren(c.expr(s.Rhs[0])))
		return
	default:
		fail("assignment operator %s", s.Tok)
	}
	lhsType := func(l ast.Expr) types.Type {
		if id, ok := l.(*ast.Ident); ok {
			if o := c.info.Defs[id]; o != nil {
				return o.Type()
			}
		}
		if tv, ok := c.info.Types[l]; ok {
			return tv.Type
		}
		return nil
	}
	if len(s.Lhs) == len(s.Rhs) {
		if len(s.Lhs) == 1 {
			c.assignTo(s.Lhs[0], c.exprAs(s.Rhs[0], lhsType(s.Lhs[0])))
			return
		}
		// parallel assignment: right-hand sides first, then the assignments left to right
		var tmps []string
		for _, r := range s.Rhs {
			tmp := c.freshName("t")
			c.pre = append(c.pre, preItem{name: tmp, rhs: c.expr(r)})
			tmps = append(tmps, tmp)
		}
		for i, l := range s.Lhs {
			c.assignTo(l, tmps[i])
		}
		return
	}
	if len(s.Rhs) == 1 {
		if call, ok := s.Rhs[0].(*ast.CallExpr); ok {
			res := c.call(call)
			if len(res) == len(s.Lhs) {
				for i, l := range s.Lhs {
					c.assignTo(l, res[i])
				}
				return
			}
		}
	}
	fail("assignment with %d targets and %d values at %s", len(s.Lhs), len(s.Rhs), c.t.posOf(s))
}

// outerMutated: variables declared before `from` that the nodes assign/mutate, in declaration order
func (c *fctx) outerMutated(from token.Pos, nodes ...ast.Node) []*types.Var {
	set := map[*types.Var]bool{}
	for _, n := range nodes {
		if n == nil {
			continue
		}
		for v := range c.t.mutatedVars(c.p, n) {
			if v.Pos() < from && !v.IsField() && !(v.Pkg() != nil && v.Parent() == v.Pkg().Scope()) {
				set[v] = true
			}
		}
	}
	return sortVars(set)
}

func sortVars(set map[*types.Var]bool) []*types.Var {
	var vs []*types.Var
	for v := range set {
		vs = append(vs, v)
	}
	sort.Slice(vs, func(i, j int) bool { return vs[i].Pos() < vs[j].Pos() })
	return vs
}

func (c *fctx) freeVars(from token.Pos, nodes ...ast.Node) []*types.Var {
	set := map[*types.Var]bool{}
	for _, n := range nodes {
		if n == nil {
			continue
		}
		ast.Inspect(n, func(x ast.Node) bool {
			if id, ok := x.(*ast.Ident); ok {
				if v, ok := c.info.Uses[id].(*types.Var); ok && !v.IsField() && v.Pos() < from && v.Pos() >= c.f.decl.Pos() {
					if !(v.Pkg() != nil && v.Parent() == v.Pkg().Scope()) {
						set[v] = true
					}
				}
			}
			return true
		})
	}
	return sortVars(set)
}

func varNames(vs []*types.Var) []string {
	var xs []string
	for _, v := range vs {
		xs = append(xs, leanIdent(v.Name()))
	}
	return xs
}

func (c *fctx) ifStmt(s *ast.IfStmt, rest func() string) string {
	if s.Init != nil {
		return c.stmt(s.Init, func() string {
			cp := *s
			cp.Init = nil
			return c.ifStmtNoInit(&cp, s.Pos(), rest)
		})
	}
	return c.ifStmtNoInit(s, s.Pos(), rest)
}

func (c *fctx) elseStmts(s *ast.IfStmt) []ast.Stmt {
	switch e := s.Else.(type) {
	case nil:
		return nil
	case *ast.BlockStmt:
		return e.List
	default:
		return []ast.Stmt{e}
	}
}

func (c *fctx) ifStmtNoInit(s *ast.IfStmt, from token.Pos, rest func() string) string {
	cond := c.expr(s.Cond)
	pre := c.take()
	els := c.elseStmts(s)
	exits := mayExit(s.Body) || (s.Else != nil && mayExit(s.Else))
	if exits {
		a := c.stmts(s.Body.List, rest)
		b := c.stmts(els, rest)
		return render(pre, ifText(cond, a, b))
	}
	// join: both branches fall through; the variables they change are rebound
	var nodes []ast.Node
	nodes = append(nodes, s.Body)
	if s.Else != nil {
		nodes = append(nodes, s.Else)
	}
	vs := c.outerMutated(from, nodes...)
	names := varNames(vs)
	monadic := c.opt && c.hasFuel(nodes...)
	end := func() string {
		if monadic {
			return "some " + paren(tuple(names))
		}
		return tuple(names)
	}
	a := c.stmts(s.Body.List, end)
	b := c.stmts(els, end)
	it := ifText(cond, a, b)
	if monadic {
		pat := tuplePat(names)
		if len(names) > 1 {
			pat = "(" + strings.Join(names, ", ") + ")"
			return render(pre, "("+it+").bind fun "+pat+" =>\n"+rest())
		}
		return render(pre, "("+it+").bind fun "+pat+" =>\n"+rest())
	}
	return render(pre, "let "+tuplePat(names)+" := "+it+"\n"+rest())
}

// ---------------------------------------------------------------- loops

type loopShape struct {
	name    string
	ro      []*types.Var
	carried []*types.Var
	hasRet  bool
	hasNext bool
	fuelArg bool
}

func (c *fctx) labelsIn(n ast.Node) map[string]bool {
	ls := map[string]bool{}
	ast.Inspect(n, func(x ast.Node) bool {
		if l, ok := x.(*ast.LabeledStmt); ok {
			ls[l.Label.Name] = true
		}
		return true
	})
	return ls
}

func (c *fctx) prepLoop(from token.Pos, label string, countsFuel bool, nodes ...ast.Node) *loopShape {
	c.nloop++
	ls := &loopShape{name: fmt.Sprintf("%s.loop%d", c.f.lean, c.nloop)}
	ls.carried = c.outerMutated(from, nodes...)
	isCarried := map[*types.Var]bool{}
	for _, v := range ls.carried {
		isCarried[v] = true
	}
	inner := map[string]bool{}
	for _, n := range nodes {
		if n == nil {
			continue
		}
		if hasReturn(n) {
			ls.hasRet = true
		}
		for l := range c.labelsIn(n) {
			inner[l] = true
		}
	}
	for _, n := range nodes {
		if n == nil {
			continue
		}
		ast.Inspect(n, func(x ast.Node) bool {
			if b, ok := x.(*ast.BranchStmt); ok && b.Label != nil && b.Label.Name != label && !inner[b.Label.Name] {
				if b.Tok != token.CONTINUE {
					fail("labelled %s out of an outer loop", b.Tok)
				}
				ls.hasNext = true
			}
			return true
		})
	}
	free := c.freeVars(from, nodes...)
	if ls.hasRet && c.f.mutIdx >= 0 {
		mp := c.f.params[c.f.mutIdx]
		has := false
		for _, v := range free {
			if v == mp {
				has = true
			}
		}
		if !has {
			free = append([]*types.Var{mp}, free...)
		}
	}
	for _, v := range free {
		if !isCarried[v] {
			ls.ro = append(ls.ro, v)
		}
	}
	ls.fuelArg = c.opt && c.hasFuelCalls(nodes...)
	return ls
}

func (c *fctx) hasFuelCalls(nodes ...ast.Node) bool {
	found := false
	for _, n := range nodes {
		if n == nil {
			continue
		}
		ast.Inspect(n, func(x ast.Node) bool {
			switch s := x.(type) {
			case *ast.ForStmt:
				found = true // a nested loop takes the full fuel as its own budget
			case *ast.CallExpr:
				if ci, ok := c.t.tryClassify(c.p, s); ok && ci.kind == kFunc && ci.fn.fuel {
					found = true
				}
			}
			return !found
		})
	}
	return found
}

func (ls *loopShape) sigma(c *fctx) string {
	var xs []string
	for _, v := range ls.carried {
		xs = append(xs, c.t.leanType(v.Type()))
	}
	return tupleType(xs)
}

func (ls *loopShape) resultType(c *fctx) string {
	s := ls.sigma(c)
	switch {
	case ls.hasNext && ls.hasRet:
		s = "Ctl3 " + parenType(s) + " " + parenType(c.payloadType())
	case ls.hasNext:
		s = "CtlN " + parenType(s)
	case ls.hasRet:
		s = "Ctl " + parenType(s) + " " + parenType(c.payloadType())
	}
	if c.opt {
		return "Option (" + s + ")"
	}
	return s
}

func (ls *loopShape) done(c *fctx) string {
	t := tuple(varNames(ls.carried))
	if ls.hasRet || ls.hasNext {
		return c.wrap(".done " + paren(t))
	}
	return c.wrap(t)
}

func (ls *loopShape) binders(c *fctx) string {
	var xs []string
	if c.f.ext {
		xs = append(xs, "(S : StringsExt)")
	}
	for _, v := range ls.ro {
		xs = append(xs, fmt.Sprintf("(%s : %s)", leanIdent(v.Name()), c.t.leanType(v.Type())))
	}
	if ls.fuelArg {
		xs = append(xs, "(fuel : Nat)")
	}
	if len(xs) == 0 {
		return ""
	}
	return " " + strings.Join(xs, " ")
}

func (ls *loopShape) callPrefix(c *fctx) string {
	xs := []string{ls.name}
	if c.f.ext {
		xs = append(xs, "S")
	}
	xs = append(xs, varNames(ls.ro)...)
	if ls.fuelArg {
		xs = append(xs, "fuel")
	}
	return strings.Join(xs, " ")
}

// afterLoop: the text, in the enclosing context, that runs the loop and continues with rest
func (c *fctx) afterLoop(ls *loopShape, callText string, rest func() string) string {
	pat := tuplePat(varNames(ls.carried))
	if !ls.hasRet && !ls.hasNext {
		if c.opt {
			return "(" + callText + ").bind fun " + pat + " =>\n" + rest()
		}
		return "let " + pat + " := " + callText + "\n" + rest()
	}
	r := c.freshName("r")
	var arms []string
	if ls.hasRet {
		// `.ret` of the inner loop is a return of the function
		v := c.freshName("r")
		var text string
		if c.loop != nil {
			text = c.wrap(".ret " + v)
		} else {
			text = c.wrap(v)
		}
		arms = append(arms, "| .ret "+v+" => "+text)
	}
	if ls.hasNext {
		if c.loop == nil {
			fail("labelled continue without an enclosing loop")
		}
		arms = append(arms, "| .next "+pat+" =>\n"+ind(c.loop.cont()))
	}
	arms = append(arms, "| .done "+pat+" =>\n"+ind(rest()))
	if c.opt {
		return "(" + callText + ").bind fun " + r + " =>\n(match " + r + " with\n" + strings.Join(arms, "\n") + ")"
	}
	return "(match " + callText + " with\n" + strings.Join(arms, "\n") + ")"
}

func (c *fctx) rangeLoop(s *ast.RangeStmt, label string, rest func() string) string {
	tv := c.info.Types[s.X]
	sl, ok := tv.Type.Underlying().(*types.Slice)
	if !ok {
		fail("range over %s", tv.Type)
	}
	if s.Tok == token.ASSIGN {
		fail("range with assignment to existing variables")
	}
	xs := c.expr(s.X)
	pre := c.take()
	ls := c.prepLoop(s.Pos(), label, false, s.Body)
	if rv := rootVar(c.info, s.X); rv != nil {
		for _, v := range ls.carried {
			if v == rv {
				fail("the loop body mutates %s, the slice being ranged over (aliasing)", rv.Name())
			}
		}
	}
	keyName, valName := "", "_"
	if id, ok := s.Key.(*ast.Ident); ok && id.Name != "_" {
		keyName = leanIdent(id.Name)
	}
	if id, ok := s.Value.(*ast.Ident); ok && id.Name != "_" {
		valName = leanIdent(id.Name)
	}
	elemT := c.t.leanType(sl.Elem())
	carriedNames := varNames(ls.carried)

	var typeParts, nilPat, consPat []string
	if keyName != "" {
		typeParts = append(typeParts, "Int")
		nilPat = append(nilPat, "_")
		consPat = append(consPat, keyName)
	}
	typeParts = append(typeParts, "List "+parenType(elemT))
	nilPat = append(nilPat, "[]")
	consPat = append(consPat, valName+" :: rest'")
	for _, v := range ls.carried {
		typeParts = append(typeParts, parenType(c.t.leanType(v.Type())))
	}
	nilPat = append(nilPat, carriedNames...)
	consPat = append(consPat, carriedNames...)
	typeParts = append(typeParts, ls.resultType(c))

	outer := c.loop
	lc := &loopCtx{label: label, parent: outer}
	lc.cont = func() string {
		parts := []string{ls.callPrefix(c)}
		if keyName != "" {
			parts = append(parts, "("+keyName+" + 1)")
		}
		parts = append(parts, "rest'")
		parts = append(parts, carriedNames...)
		return strings.Join(parts, " ")
	}
	lc.brk = func() string { return ls.done(c) }
	lc.next = func() string { return c.wrap(".next " + paren(tuple(carriedNames))) }
	c.loop = lc
	body := c.stmts(s.Body.List, lc.cont)
	c.loop = outer

	var b strings.Builder
	fmt.Fprintf(&b, "/-- Go: %s `for %s range %s` -/\n", c.t.posOf(s), rangeVars(s), exprString(s.X))
	fmt.Fprintf(&b, "def %s%s : %s\n", ls.name, ls.binders(c), strings.Join(typeParts, " → "))
	fmt.Fprintf(&b, "  | %s => %s\n", strings.Join(nilPat, ", "), ls.done(c))
	fmt.Fprintf(&b, "  | %s =>\n%s\n", strings.Join(consPat, ", "), ind(ind(body)))
	c.aux = append(c.aux, b.String())

	parts := []string{ls.callPrefix(c)}
	if keyName != "" {
		parts = append(parts, "0")
	}
	parts = append(parts, paren(xs))
	parts = append(parts, carriedNames...)
	return render(pre, c.afterLoop(ls, strings.Join(parts, " "), rest))
}

func rangeVars(s *ast.RangeStmt) string {
	var xs []string
	if s.Key != nil {
		xs = append(xs, exprString(s.Key))
	}
	if s.Value != nil {
		xs = append(xs, exprString(s.Value))
	}
	if len(xs) == 0 {
		return ""
	}
	return strings.Join(xs, ", ") + " :="
}

func (c *fctx) forLoop(s *ast.ForStmt, label string, rest func() string) string {
	if !c.opt {
		fail("internal: for loop in a function without fuel")
	}
	if s.Init != nil {
		cp := *s
		cp.Init = nil
		return c.stmt(s.Init, func() string { return c.forLoopNoInit(&cp, label, rest) })
	}
	return c.forLoopNoInit(s, label, rest)
}

func (c *fctx) forLoopNoInit(s *ast.ForStmt, label string, rest func() string) string {
	from := s.Body.Pos()
	if s.Cond != nil {
		from = s.Cond.Pos()
	}
	var nodes []ast.Node
	if s.Cond != nil {
		nodes = append(nodes, s.Cond)
	}
	if s.Post != nil {
		nodes = append(nodes, s.Post)
	}
	nodes = append(nodes, s.Body)
	ls := c.prepLoop(from, label, true, nodes...)
	carriedNames := varNames(ls.carried)

	typeParts := []string{"Nat"}
	zeroPat := []string{"0"}
	sucPat := []string{"cnt+1"}
	for _, v := range ls.carried {
		typeParts = append(typeParts, parenType(c.t.leanType(v.Type())))
		zeroPat = append(zeroPat, "_")
	}
	sucPat = append(sucPat, carriedNames...)
	typeParts = append(typeParts, ls.resultType(c))

	outer := c.loop
	lc := &loopCtx{label: label, parent: outer}
	recurse := func() string {
		parts := []string{ls.callPrefix(c), "cnt"}
		parts = append(parts, carriedNames...)
		return strings.Join(parts, " ")
	}
	lc.cont = func() string {
		if s.Post != nil {
			return c.stmt(s.Post, recurse)
		}
		return recurse()
	}
	lc.brk = func() string { return ls.done(c) }
	lc.next = func() string { return c.wrap(".next " + paren(tuple(carriedNames))) }
	c.loop = lc
	var body string
	if s.Cond != nil {
		cond := c.expr(s.Cond)
		pre := c.take()
		body = render(pre, ifText(cond, c.stmts(s.Body.List, lc.cont), ls.done(c)))
	} else {
		body = c.stmts(s.Body.List, lc.cont)
	}
	c.loop = outer

	var b strings.Builder
	fmt.Fprintf(&b, "/-- Go: %s `for` loop (no syntactic bound: `cnt` is the fuel counter, `none` = out of fuel) -/\n", c.t.posOf(s))
	fmt.Fprintf(&b, "def %s%s : %s\n", ls.name, ls.binders(c), strings.Join(typeParts, " → "))
	fmt.Fprintf(&b, "  | %s => none\n", strings.Join(zeroPat, ", "))
	fmt.Fprintf(&b, "  | %s =>\n%s\n", strings.Join(sucPat, ", "), ind(ind(body)))
	c.aux = append(c.aux, b.String())

	parts := []string{ls.callPrefix(c), "fuel"}
	parts = append(parts, carriedNames...)
	return c.afterLoop(ls, strings.Join(parts, " "), rest)
}
