// Command gotolean-queue translates the default job queue of go-quartz
// (quartz/queue.go: priorityQueue, jobQueue), the functions of the Go standard
// library package container/heap that it calls (the whole of
// $GOROOT/src/container/heap/heap.go, from the toolchain that builds the
// repository), JobKey.Equals and the matcher package (matcher/*.go) into
// Lean 4 definitions (namespace Generated.TransQueue).
//
// The output is a function of the source AST: no function body is hard-coded
// here.  Hard-coded are (a) the list of functions to translate, (b) the fixed
// prelude (idxD, setI, slice, Ctl, Ctl3, StringsExt) and (c) a handful of
// idioms (devirtualisation of heap.Interface / ScheduledJob / Matcher, dropped
// mutex, errors as an enum, opaque interface fields), each of which is CHECKED
// against the source; a failed check, or syntax outside the supported subset
// inside a listed function, puts an entry into `def missing : List String`
// (and trans_queue.json) and the function is emitted as a comment — never as a
// guessed body.
//
//	gotolean-queue -repo /repo -out TransQueue.lean -json trans_queue.json [-goroot DIR]
package main

import (
	"crypto/sha256"
	"encoding/json"
	"flag"
	"fmt"
	"go/ast"
	"go/importer"
	"go/parser"
	"go/token"
	"go/types"
	"os"
	"os/exec"
	"path/filepath"
	"runtime"
	"sort"
	"strings"
)

const (
	modulePath  = "github.com/reugn/go-quartz"
	quartzPath  = modulePath + "/quartz"
	matcherPath = modulePath + "/matcher"
	heapPath    = "container/heap"
)

type pkgInfo struct {
	name  string // short name used as Lean prefix ("" for quartz)
	fset  *token.FileSet
	files []*ast.File
	info  *types.Info
	pkg   *types.Package
	dir   string
}

type chainImporter struct {
	known map[string]*types.Package
	next  types.Importer
}

func (c chainImporter) Import(path string) (*types.Package, error) {
	if p, ok := c.known[path]; ok {
		return p, nil
	}
	return c.next.Import(path)
}

func load(fset *token.FileSet, dir, path, short string, known map[string]*types.Package) (*pkgInfo, error) {
	pkgs, err := parser.ParseDir(fset, dir, func(fi os.FileInfo) bool { return !strings.HasSuffix(fi.Name(), "_test.go") }, parser.ParseComments)
	if err != nil {
		return nil, err
	}
	var files []*ast.File
	for _, p := range pkgs {
		if strings.HasSuffix(p.Name, "_test") {
			continue
		}
		var names []string
		for n := range p.Files {
			names = append(names, n)
		}
		sort.Strings(names)
		for _, n := range names {
			files = append(files, p.Files[n])
		}
	}
	if len(files) == 0 {
		return nil, fmt.Errorf("no Go files in %s", dir)
	}
	info := &types.Info{
		Types:      map[ast.Expr]types.TypeAndValue{},
		Uses:       map[*ast.Ident]types.Object{},
		Defs:       map[*ast.Ident]types.Object{},
		Selections: map[*ast.SelectorExpr]*types.Selection{},
		Instances:  map[*ast.Ident]types.Instance{},
	}
	conf := types.Config{
		Importer: chainImporter{known, importer.ForCompiler(fset, "source", nil)},
		Error:    func(error) {}, // other files of the package may import things we cannot resolve offline
	}
	pkg, _ := conf.Check(path, fset, files, info)
	return &pkgInfo{short, fset, files, info, pkg, dir}, nil
}

type jsonFn struct {
	Go   string `json:"go"`
	Lean string `json:"lean"`
	Pos  string `json:"pos"`
	Mut  string `json:"mutatedParam,omitempty"`
	Fuel bool   `json:"fuel"`
	Ext  bool   `json:"stringsExt"`
	OK   bool   `json:"translated"`
	Why  string `json:"why,omitempty"`
}

type jsonOut struct {
	Repo      string            `json:"repo"`
	GoRoot    string            `json:"goroot"`
	GoVersion string            `json:"goVersion"`
	HeapSHA   string            `json:"heapGoSha256"`
	Files     []string          `json:"files"`
	Functions []jsonFn          `json:"functions"`
	Idioms    map[string]string `json:"idioms"`
	Missing   []string          `json:"missing"`
	SHA256    string            `json:"sha256"`
}

func goEnv(key string) string {
	out, err := exec.Command("go", "env", key).Output()
	if err != nil {
		return ""
	}
	return strings.TrimSpace(string(out))
}

func main() {
	repo := flag.String("repo", "/repo", "go-quartz working tree")
	out := flag.String("out", "TransQueue.lean", "Lean output")
	jsonPath := flag.String("json", "", "JSON report")
	goroot := flag.String("goroot", "", "GOROOT of the toolchain that builds the repository (default: `go env GOROOT`)")
	flag.Parse()

	if *goroot == "" {
		*goroot = goEnv("GOROOT")
	}
	if *goroot == "" {
		*goroot = runtime.GOROOT()
	}
	goVersion := goEnv("GOVERSION")
	if goVersion == "" {
		goVersion = runtime.Version()
	}

	die := func(err error) {
		fmt.Fprintln(os.Stderr, "gotolean-queue:", err)
		os.Exit(3)
	}
	fset := token.NewFileSet()
	heapDir := filepath.Join(*goroot, "src", "container", "heap")
	hp, err := load(fset, heapDir, heapPath, "heap", nil)
	if err != nil {
		die(err)
	}
	qz, err := load(fset, filepath.Join(*repo, "quartz"), quartzPath, "", map[string]*types.Package{heapPath: hp.pkg})
	if err != nil {
		die(err)
	}
	mt, err := load(fset, filepath.Join(*repo, "matcher"), matcherPath, "matcher", map[string]*types.Package{quartzPath: qz.pkg})
	if err != nil {
		die(err)
	}

	t := newTranslator(fset, hp, qz, mt, *repo, *goroot)
	text := t.run()

	if err := os.MkdirAll(filepath.Dir(*out), 0o755); err == nil {
		err = os.WriteFile(*out, []byte(text), 0o644)
	}
	if err != nil {
		die(err)
	}
	if *jsonPath != "" {
		heapSrc, _ := os.ReadFile(filepath.Join(heapDir, "heap.go"))
		jo := jsonOut{Repo: *repo, GoRoot: *goroot, GoVersion: goVersion, HeapSHA: fmt.Sprintf("%x", sha256.Sum256(heapSrc)),
			Files: t.sourceFiles, Idioms: t.idioms, Missing: t.missing, SHA256: fmt.Sprintf("%x", sha256.Sum256([]byte(text)))}
		if jo.Missing == nil {
			jo.Missing = []string{}
		}
		for _, f := range t.order {
			mut := ""
			if f.mutIdx >= 0 {
				mut = f.params[f.mutIdx].Name()
			}
			jo.Functions = append(jo.Functions, jsonFn{Go: f.goName, Lean: f.lean, Pos: f.pos, Mut: mut, Fuel: f.fuel, Ext: f.ext, OK: f.err == nil, Why: errString(f.err)})
		}
		b, _ := json.MarshalIndent(jo, "", "  ")
		_ = os.WriteFile(*jsonPath, append(b, '\n'), 0o644)
	}
	fmt.Printf("gotolean-queue: %d functions, %d missing -> %s\n", len(t.order), len(t.missing), *out)
}

func errString(e error) string {
	if e == nil {
		return ""
	}
	return e.Error()
}
