package main

import (
	"fmt"
	"go/ast"
	"go/types"
	"strings"
)

// uniqueNames: inside one unit a `let` re-binding stands for an assignment, so two different variables must not share
// a name; handles are named by their source text in the recorded events, so the same holds for them
func (t *translator) uniqueNames(fd *ast.FuncDecl) {
	seen := map[string]types.Object{}
	ast.Inspect(fd, func(n ast.Node) bool {
		if id, ok := n.(*ast.Ident); ok && id.Name != "_" {
			if v, ok := t.jb.info.Defs[id].(*types.Var); ok && !v.IsField() {
				if o, dup := seen[id.Name]; dup && o != v {
					t.fail(id, "two variables named %s in one function body", id.Name)
				}
				seen[id.Name] = v
			}
		}
		return true
	})
	for name := range seen {
		reserved := name == "σ" || name == "X" || name == "W"
		if len(name) > 1 && (name[0] == 'r') {
			digits := strings.TrimRight(name[1:], "v")
			if digits != "" && strings.Trim(digits, "0123456789") == "" {
				reserved = true
			}
		}
		if strings.HasPrefix(name, "ret") && strings.Trim(name[3:], "0123456789") == "" && len(name) > 3 {
			reserved = true
		}
		if reserved {
			t.fail(fd, "a variable is named %s", name)
		}
	}
}

type fnSpec struct{ recv, name string }

var functions = []fnSpec{
	{"", "NewFunctionJobWithDesc"},
	{"FunctionJob", "Description"},
	{"FunctionJob", "Execute"},
	{"FunctionJob", "Result"},
	{"FunctionJob", "Error"},
	{"FunctionJob", "JobStatus"},
	{"", "NewShellJob"},
	{"", "NewShellJobWithCallback"},
	{"ShellJob", "Execute"},
	{"ShellJob", "ExitCode"},
	{"ShellJob", "Stdout"},
	{"ShellJob", "Stderr"},
	{"ShellJob", "JobStatus"},
	{"", "NewCurlJobWithOptions"},
	{"CurlJob", "do"}, // the helper of Execute that holds the critical section (must precede its caller)
	{"CurlJob", "Execute"},
	{"CurlJob", "JobStatus"},
	{"CurlJob", "DumpResponse"},
}

func (t *translator) translateFunc(spec fnSpec) {
	leanName := spec.name
	if spec.recv != "" {
		leanName = spec.recv + "." + spec.name
	}
	fd := t.jb.funcDecl(spec.recv, spec.name)
	if fd == nil || fd.Body == nil {
		t.miss("function " + leanName + ": not found")
		t.report = append(t.report, jsonFn{Go: leanName, Lean: leanName, Kind: "function", Why: "not found"})
		return
	}
	t.fn, t.recv, t.recvName, t.recvType = fd, nil, "", spec.recv
	t.rcount, t.pre = 0, nil
	t.cmdVars, t.ranCmd, t.attached = map[types.Object]bool{}, map[types.Object]bool{}, map[string]bool{}
	t.pure = spec.recv == ""
	t.mutates, t.mayPanic, t.deferred = false, false, false
	t.topLevel = map[ast.Stmt]bool{}
	for _, s := range fd.Body.List {
		t.topLevel[s] = true
	}
	sig := t.src(&ast.FuncDecl{Recv: fd.Recv, Name: fd.Name, Type: fd.Type})
	doc := "Go: " + t.jb.pos(fd) + " `" + sig + "`"
	kind := "method"
	if t.pure {
		kind = "constructor"
	}
	defer func() {
		if r := recover(); r != nil {
			u, ok := r.(unsupported)
			if !ok {
				panic(r)
			}
			t.defs = append(t.defs, "-- "+doc+"\n-- NOT TRANSLATED: "+u.msg+"\n")
			t.miss("function " + leanName + ": " + u.msg)
			t.report = append(t.report, jsonFn{Go: leanName, Lean: leanName, Pos: t.jb.pos(fd), Kind: kind, Why: u.msg})
		}
	}()
	t.uniqueNames(fd)

	// signature
	tparams, inhabited := "", ""
	addTP := func(tp *types.TypeParamList) {
		if tp == nil {
			return
		}
		for i := 0; i < tp.Len(); i++ {
			tparams += " " + tp.At(i).Obj().Name()
			inhabited += " [Inhabited " + tp.At(i).Obj().Name() + "]"
		}
	}
	var ps []param
	if !t.pure {
		if len(fd.Recv.List[0].Names) != 1 {
			t.fail(fd, "receiver without a name")
		}
		rn := fd.Recv.List[0].Names[0]
		t.recv = t.jb.info.Defs[rn]
		t.recvName = rn.Name
		rt := t.recv.Type()
		if _, isPtr := rt.(*types.Pointer); !isPtr {
			t.fail(fd, "value receiver")
		}
		if _, n, ok := t.jobStruct(rt); ok {
			addTP(n.TypeParams())
		}
		ps = append(ps, param{rn.Name, t.leanType(rn, rt)})
		t.mutates = t.scanMutates(fd.Body)
		t.mayPanic = t.scanUser(fd.Body)
	} else if sg, ok := t.jb.info.Defs[fd.Name].Type().(*types.Signature); ok {
		addTP(sg.TypeParams())
	}
	for _, f := range fd.Type.Params.List {
		for _, n := range f.Names {
			v := t.jb.info.Defs[n].(*types.Var)
			ps = append(ps, param{n.Name, t.leanType(n, v.Type())})
		}
	}
	t.resTypes = nil
	if fd.Type.Results != nil {
		for _, f := range fd.Type.Results.List {
			if len(f.Names) > 0 {
				t.fail(f, "named results")
			}
			t.resTypes = append(t.resTypes, t.leanType(f, t.jb.info.TypeOf(f.Type)))
		}
	}

	hdr := ""
	if t.pure {
		if tparams != "" {
			hdr = "{" + strings.TrimSpace(tparams) + " : Type}" + inhabited + " "
		}
	} else {
		hdr = "{W" + tparams + " : Type}" + inhabited + " (X : " + extOf[t.recvType].ext + ") (σ : St W) "
	}
	for _, p := range ps {
		hdr += "(" + p.name + " : " + p.typ + ") "
	}
	var resParts []string
	if !t.pure {
		resParts = append(resParts, "St W")
		if t.mutates {
			resParts = append(resParts, ps[0].typ)
		}
	}
	if t.mayPanic {
		inner := "Unit"
		if len(t.resTypes) > 0 {
			inner = tupleType(t.resTypes)
		}
		resParts = append(resParts, "CallResult "+parenIf(inner))
	} else {
		resParts = append(resParts, t.resTypes...)
	}
	if len(resParts) == 0 {
		t.fail(fd, "a function without state and without results")
	}
	leave := func(last []string) string {
		var parts []string
		if !t.pure {
			parts = append(parts, "σ")
			if t.mutates {
				parts = append(parts, t.recvName)
			}
		}
		return tuple(append(parts, last...))
	}
	k := kont{
		next: func() string {
			if len(t.resTypes) > 0 {
				t.fail(fd, "control reaches the end of a function with results")
			}
			if t.mayPanic {
				return leave([]string{"CallResult.returned ()"})
			}
			return leave(nil)
		},
		ret: func(n ast.Node, vals []string) string {
			if len(vals) != len(t.resTypes) {
				t.fail(n, "return with %d values, %d expected", len(vals), len(t.resTypes))
			}
			if t.mayPanic {
				v := "()"
				if len(vals) > 0 {
					v = tuple(vals)
				}
				return leave([]string{"CallResult.returned " + parenIf(v)})
			}
			return leave(vals)
		},
		pnc: func(n ast.Node) string {
			if !t.mayPanic {
				t.fail(n, "internal: panic continuation in a function that cannot panic")
			}
			return leave([]string{"CallResult.panicked"})
		},
	}
	body := t.block(fd.Body.List, k)
	note := ""
	if t.mutates {
		note += "\nAssigns fields of its receiver: the updated receiver is returned."
	}
	if t.mayPanic {
		if t.deferred {
			note += "\nCalls user code, which may panic: `CallResult.panicked` = the panic leaves the function at that point; the deferred unlock is recorded first (Go runs deferred calls while the panic unwinds)."
		} else {
			note += "\nCalls user code, which may panic: `CallResult.panicked` = the panic leaves the function at that point (there is no `defer` here)."
		}
	}
	np := 0
	for _, f := range fd.Type.Params.List {
		np += len(f.Names)
	}
	t.done[leanName] = &doneFn{mutates: t.mutates, mayPanic: t.mayPanic, resTypes: append([]string(nil), t.resTypes...), nparams: np}
	t.defs = append(t.defs, fmt.Sprintf("/-- %s%s -/\ndef %s %s: %s :=\n%s\n", doc, note, leanName, hdr, tupleType(resParts), ind(body)))
	t.report = append(t.report, jsonFn{Go: leanName, Lean: leanName, Pos: t.jb.pos(fd), Kind: kind, OK: true})
}

func (t *translator) run() string {
	t.sourceFiles = []string{"job/job_status.go", "job/function_job.go", "job/shell_job.go", "job/curl_job.go"}
	t.findMutable()
	t.statusConsts()
	for _, s := range []string{"FunctionJob", "ShellJob", "CurlJobOptions", "CurlJob"} {
		t.requireStruct(s)
	}
	for _, f := range functions {
		t.translateFunc(f)
	}
	t.analyze()

	var b strings.Builder
	b.WriteString(header)
	b.WriteString(prelude1)
	b.WriteString("/-! ## `job.Status` -/\n\n")
	b.WriteString(t.statusDef)
	b.WriteString("/-! ## Structures (fields default to Go's zero values) -/\n\n")
	for _, s := range t.structs {
		fmt.Fprintf(&b, "/-- Go: %s `type %s struct` -/\nstructure %s%s where\n", s.pos, s.name, s.name, s.tparams)
		for _, f := range s.fields {
			if f.skipped != "" {
				fmt.Fprintf(&b, "  -- field `%s %s` is not translated (%s)\n", f.name, f.goType, f.skipped)
			} else if f.zero == "" {
				fmt.Fprintf(&b, "  %s : %s\n", f.name, f.lean) // a field of the parameter type: no default without an instance
			} else {
				fmt.Fprintf(&b, "  %s : %s := %s\n", f.name, f.lean, f.zero)
			}
		}
		if s.tparams == "" {
			b.WriteString("deriving Repr, DecidableEq, Inhabited\n\n")
		} else {
			b.WriteString("deriving Repr\n\n")
		}
	}
	b.WriteString(prelude2)
	b.WriteString("/-! ## Functions -/\n\n")
	for _, d := range t.defs {
		b.WriteString(d)
		b.WriteString("\n")
	}
	b.WriteString("/-! ## Facts read from the source next to the translated functions -/\n\n")
	for _, f := range t.facts {
		b.WriteString(f)
		b.WriteString("\n")
	}
	b.WriteString("\n/-! ## Idiom checks and untranslated parts -/\n\n")
	for _, name := range t.idiomOrder {
		fmt.Fprintf(&b, "-- idiom %s: %s\n", name, t.idioms[name])
	}
	b.WriteString("\n/-- everything that could not be translated, or an idiom check that failed (must be `[]`) -/\ndef missing : List String := [")
	for i, m := range t.missing {
		if i > 0 {
			b.WriteString(",")
		}
		b.WriteString("\n  " + leanString(m))
	}
	b.WriteString("]\n\nend Generated.TransJobs\n")
	return b.String()
}

const header = `/-!
# GENERATED by harness/cmd/gotolean-jobs — do not edit

Lean 4 translation of the built-in jobs of go-quartz, regenerated from the working tree (` + "`job/job_status.go`" + `: the Status constants;
` + "`job/function_job.go`, `job/shell_job.go`, `job/curl_job.go`" + `: the structs, the constructors, the three Execute methods, the accessors).

## Conventions
* Go ` + "`int`" + ` is ` + "`Int`" + `; ` + "`error`" + ` is ` + "`Option Err`" + ` (nil = none); function values, interface values and pointers to foreign structs are
  ` + "`Option`" + `s (nil = none); selecting through nil yields the default value where Go panics (every such selection in this package is
  guarded by a nil test in the same condition).  A type parameter (` + "`FunctionJob[R]`" + `) is a Lean type parameter with ` + "`[Inhabited R]`" + `:
  ` + "`var zero R`" + ` is ` + "`default`" + `.
* The job's fields are the state.  A method takes the receiver's value and, when it assigns receiver fields, returns the updated value
  (second component).  Every method also takes the externals ` + "`X`" + ` and the state ` + "`σ : St W`" + ` (abstract world + the events recorded so
  far) and returns the new ` + "`σ`" + ` first.  Statements become ` + "`let`" + `s in continuation-passing style: both branches of an ` + "`if`" + ` continue
  with (a copy of) the statements that follow it.
* The mutex is not a value: ` + "`Lock/Unlock/RLock/RUnlock`" + ` are recorded events (named by the source text of the mutex).  Every read and
  every write of a MUTABLE field of the receiver (a field that some method of the type assigns, see ` + "`mutableFields`" + `) is a recorded
  event too (` + "`Event.read`/`Event.write`" + `; the reads of a condition are recorded before it, one per occurrence), so that "all accesses
  happen under the lock" is a statement about the translated code.
* ` + "`defer <mutex>.Unlock()`" + ` among the top-level statements of a method: the statements after it run, the results of a ` + "`return`" + ` are
  evaluated (` + "`retN`" + `), then the deferred event is recorded — on every exit.
* Calls of user code (` + "`f.function`, the callbacks, `httpClient.Do`, `Body.Close`" + `) may panic: they return a ` + "`CallResult`" + ` and the
  ` + "`.panicked`" + ` branch leaves the method at that point with ` + "`CallResult.panicked`" + `; when the method has deferred an unlock, the deferred
  event is recorded on that path as well (Go runs deferred calls while a panic unwinds), then the panic reaches the caller.
* A call of another method of the same receiver (` + "`cu.do(ctx)`" + `) applies that method's translated definition to the current state and
  receiver; the receiver it returns replaces the current one (also when it panics), a ` + "`.panicked`" + ` result leaves the caller too.

## Modelled, not translated (explicit state-passing externals)
* ` + "`FnExt W R`" + `: ` + "`function`" + ` = the user's ` + "`Function[R]`" + ` called with the context.
* ` + "`ShExt W`" + `: ` + "`getShell`" + ` (the package's ` + "`getShell()`: sync.Once + exec.LookPath" + `), ` + "`run`" + ` = ` + "`(*exec.Cmd).Run`" + ` on the command named by its
  variable (result: error or nil), ` + "`bufferString`" + ` = ` + "`(*bytes.Buffer).String`" + ` of the buffer named by its variable, ` + "`exitCode`" + ` =
  ` + "`cmd.ProcessState.ExitCode()`" + ` (−1 for a nil ProcessState), both read from the world AFTER ` + "`run`" + `; ` + "`callback`" + `.
  ` + "`exec.CommandContext`, `var … bytes.Buffer`, `cmd.Stdout = io.Writer(&buf)`" + ` are recorded events; CHECKED: a buffer is read only if it
  was attached to a command, the exit code is read only after ` + "`Run`" + ` of that command, a command is configured only before ` + "`Run`" + `.
* ` + "`CuExt W`" + `: ` + "`Do`" + ` = ` + "`HTTPHandler.Do`" + ` (a response — status code and body handle — and/or an error), ` + "`closeBody`" + ` = ` + "`Body.Close`" + `,
  ` + "`callback`" + `, ` + "`dumpResponse`" + ` = ` + "`httputil.DumpResponse`" + ` (assumed not to panic).  ` + "`(*http.Request).WithContext`" + ` is the prelude function
  ` + "`Request.WithContext`" + ` (a request is an identity plus the context it is bound to).  ` + "`http.DefaultClient`" + ` is the constant ` + "`httpDefaultClient`" + `.
* Trusted: the contracts of os/exec (what ` + "`Run`" + ` leaves in the attached buffers and in ` + "`ProcessState`" + `) and of net/http; calling a nil
  function value / nil interface (` + "`NewFunctionJob(nil)`" + `, a nil HTTP client cannot occur: the constructor substitutes the default client)
  is a panic in Go and an ordinary call of the external here.
-/
set_option linter.unusedVariables false
set_option autoImplicit false

namespace Generated.TransJobs

`

const prelude1 = `/-! ## Fixed prelude (not derived from the source) -/

/-- a non-nil Go ` + "`error`" + `, identified by its message -/
structure Err where
  msg : String := ""
deriving Repr, DecidableEq, Inhabited

/-- identity of a function value / interface value that is only stored, compared with nil and called through an external -/
abbrev Ref := Nat

/-- identity of a ` + "`context.Context`" + ` -/
abbrev Ctx := Nat

/-- identity of a response body (` + "`io.ReadCloser`" + `) -/
abbrev BodyRef := Nat

/-- ` + "`[]byte`" + ` -/
abbrev Bytes := List Nat

/-- ` + "`http.DefaultClient`" + ` -/
def httpDefaultClient : Ref := 0

/-- Go ` + "`*p`" + ` / ` + "`p.f`" + ` through a pointer.  Go panics on nil; here the result is the default value. -/
def deref {α : Type} [Inhabited α] : Option α → α
  | some a => a
  | none => default

/-- what a call of user code does: it returns, or it panics -/
inductive CallResult (α : Type) where
  | returned (a : α)
  | panicked
deriving Repr, DecidableEq

def CallResult.map {α β : Type} (f : α → β) : CallResult α → CallResult β
  | .returned a => .returned (f a)
  | .panicked => .panicked

/-- ` + "`*http.Request`" + ` as far as this package looks at it: an identity and the context it is bound to -/
structure Request where
  id : Nat := 0
  ctx : Ctx := 0
deriving Repr, DecidableEq, Inhabited

/-- ` + "`(*http.Request).WithContext`" + `: a copy bound to ` + "`ctx`" + ` (of nil: Go panics; here nil) -/
def Request.WithContext (r : Option Request) (ctx : Ctx) : Option Request := r.map (fun q => { q with ctx := ctx })

/-- ` + "`*http.Response`" + ` as far as this package looks at it -/
structure Response where
  StatusCode : Int := 0
  Body : Option BodyRef := none
deriving Repr, DecidableEq, Inhabited

`

const prelude2 = `/-! ## Fixed prelude, second part: recorded effects, the state passed around, the externals -/

/-- What the translated functions do to the outside world, in program order. -/
inductive Event where
  | lock (m : String)
  | unlock (m : String)
  | rlock (m : String)
  | runlock (m : String)
  /-- a read / a write of a mutable field of the receiver -/
  | read (field : String)
  | write (field : String)
  /-- ` + "`f.function(ctx)`" + ` and how it ended (the error it returned; the result of type R is not recorded) -/
  | function (ctx : Ctx) (r : CallResult (Option Err))
  /-- ` + "`<job>.callback(ctx, <job>)`" + ` and how it ended -/
  | callback (ctx : Ctx) (r : CallResult Unit)
  /-- ` + "`getShell()`" + ` and its answer -/
  | getShell (shell : String)
  /-- ` + "`var <name> bytes.Buffer`" + ` -/
  | newBuffer (name : String)
  /-- ` + "`<cmd> := exec.CommandContext(ctx, name, args…)`" + ` -/
  | command (cmd : String) (ctx : Ctx) (name : String) (args : List String)
  /-- ` + "`<cmd>.Stdout = io.Writer(&<buffer>)`" + ` (target = "cmd.Stdout" / "cmd.Stderr") -/
  | attach (target : String) (buffer : String)
  /-- ` + "`<cmd>.Run()`" + ` and the error it returned -/
  | run (cmd : String) (err : Option Err)
  /-- ` + "`<body>.Close()`" + ` and how it ended -/
  | closeBody (b : Option BodyRef) (r : CallResult (Option Err))
  /-- ` + "`<client>.Do(req)`" + ` and how it ended -/
  | httpDo (client : Option Ref) (req : Option Request) (r : CallResult (Option Response × Option Err))
  /-- ` + "`httputil.DumpResponse(resp, body)`" + ` -/
  | dumpResponse (resp : Option Response) (body : Bool)
deriving Repr, DecidableEq

/-- the abstract world and the events recorded so far -/
structure St (W : Type) where
  world : W
  out : List Event := []

def St.emit {W : Type} (σ : St W) (e : Event) : St W := { σ with out := σ.out ++ [e] }

/-- the externals of FunctionJob (see the file header) -/
structure FnExt (W R : Type) where
  function : W → Ctx → W × CallResult (R × Option Err)

/-- the externals of ShellJob -/
structure ShExt (W : Type) where
  getShell : W → W × String
  run : W → String → W × Option Err
  bufferString : W → String → String
  exitCode : W → String → Int
  callback : W → Ctx → ShellJob → W × CallResult Unit

/-- the externals of CurlJob -/
structure CuExt (W : Type) where
  Do : W → Option Ref → Option Request → W × CallResult (Option Response × Option Err)
  closeBody : W → Option BodyRef → W × CallResult (Option Err)
  callback : W → Ctx → CurlJob → W × CallResult Unit
  dumpResponse : W → Option Response → Bool → W × (Bytes × Option Err)

def St.fnFunction {W R : Type} (σ : St W) (X : FnExt W R) (ctx : Ctx) : St W × CallResult (R × Option Err) :=
  ({ world := (X.function σ.world ctx).1, out := σ.out ++ [Event.function ctx ((X.function σ.world ctx).2.map (·.2))] }, (X.function σ.world ctx).2)

def St.shGetShell {W : Type} (σ : St W) (X : ShExt W) : St W × String :=
  ({ world := (X.getShell σ.world).1, out := σ.out ++ [Event.getShell (X.getShell σ.world).2] }, (X.getShell σ.world).2)

def St.shRun {W : Type} (σ : St W) (X : ShExt W) (cmd : String) : St W × Option Err :=
  ({ world := (X.run σ.world cmd).1, out := σ.out ++ [Event.run cmd (X.run σ.world cmd).2] }, (X.run σ.world cmd).2)

def St.shCallback {W : Type} (σ : St W) (X : ShExt W) (ctx : Ctx) (job : ShellJob) : St W × CallResult Unit :=
  ({ world := (X.callback σ.world ctx job).1, out := σ.out ++ [Event.callback ctx (X.callback σ.world ctx job).2] }, (X.callback σ.world ctx job).2)

def St.cuDo {W : Type} (σ : St W) (X : CuExt W) (client : Option Ref) (req : Option Request) : St W × CallResult (Option Response × Option Err) :=
  ({ world := (X.Do σ.world client req).1, out := σ.out ++ [Event.httpDo client req (X.Do σ.world client req).2] }, (X.Do σ.world client req).2)

def St.cuCloseBody {W : Type} (σ : St W) (X : CuExt W) (b : Option BodyRef) : St W × CallResult (Option Err) :=
  ({ world := (X.closeBody σ.world b).1, out := σ.out ++ [Event.closeBody b (X.closeBody σ.world b).2] }, (X.closeBody σ.world b).2)

def St.cuCallback {W : Type} (σ : St W) (X : CuExt W) (ctx : Ctx) (job : CurlJob) : St W × CallResult Unit :=
  ({ world := (X.callback σ.world ctx job).1, out := σ.out ++ [Event.callback ctx (X.callback σ.world ctx job).2] }, (X.callback σ.world ctx job).2)

def St.cuDumpResponse {W : Type} (σ : St W) (X : CuExt W) (resp : Option Response) (body : Bool) : St W × (Bytes × Option Err) :=
  ({ world := (X.dumpResponse σ.world resp body).1, out := σ.out ++ [Event.dumpResponse resp body] }, (X.dumpResponse σ.world resp body).2)

`
