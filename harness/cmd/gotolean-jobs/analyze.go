package main

import (
	"fmt"
	"go/ast"
	"go/constant"
	"go/token"
	"go/types"
	"sort"
	"strings"
)

var jobTypes = []string{"FunctionJob", "ShellJob", "CurlJob"}

// methodsOf: every method declaration of the type, in source order
func (t *translator) methodsOf(typ string) []*ast.FuncDecl {
	var out []*ast.FuncDecl
	for _, f := range t.jb.files {
		for _, d := range f.Decls {
			if fd, ok := d.(*ast.FuncDecl); ok && fd.Body != nil && recvTypeName(fd) == typ {
				out = append(out, fd)
			}
		}
	}
	sort.Slice(out, func(i, j int) bool { return out[i].Pos() < out[j].Pos() })
	return out
}

func (t *translator) recvObj(fd *ast.FuncDecl) types.Object {
	if fd.Recv == nil || len(fd.Recv.List) != 1 || len(fd.Recv.List[0].Names) != 1 {
		return nil
	}
	return t.jb.info.Defs[fd.Recv.List[0].Names[0]]
}

// fieldOf: e is `<recv>.<field>` for the given receiver object
func (t *translator) fieldOf(e ast.Expr, recv types.Object) (string, bool) {
	s, ok := e.(*ast.SelectorExpr)
	if !ok || recv == nil {
		return "", false
	}
	id, ok := s.X.(*ast.Ident)
	if !ok || t.jb.info.Uses[id] != recv {
		return "", false
	}
	return s.Sel.Name, true
}

// findMutable: the fields of each job type that some method (function literals included) assigns
func (t *translator) findMutable() {
	for _, typ := range jobTypes {
		t.mutable[typ] = map[string]bool{}
		for _, fd := range t.methodsOf(typ) {
			recv := t.recvObj(fd)
			ast.Inspect(fd.Body, func(n ast.Node) bool {
				switch x := n.(type) {
				case *ast.AssignStmt:
					for _, l := range x.Lhs {
						if f, ok := t.fieldOf(l, recv); ok {
							t.mutable[typ][f] = true
						}
					}
				case *ast.IncDecStmt:
					if f, ok := t.fieldOf(x.X, recv); ok {
						t.mutable[typ][f] = true
					}
				case *ast.UnaryExpr:
					if x.Op == token.AND {
						if f, ok := t.fieldOf(x.X, recv); ok {
							if !isMutex(t.jb.info.TypeOf(x.X)) && !namedIs(t.jb.info.TypeOf(x.X), "sync", "Once") {
								t.mutable[typ][f] = true // address taken: treat as assigned
							}
						}
					}
				}
				return true
			})
		}
	}
}

// statusConsts: `type Status int8` and its constants → `inductive Status`, its zero value, `Status.val`
func (t *translator) statusConsts() {
	type sc struct {
		name string
		val  int64
		pos  token.Pos
	}
	var cs []sc
	typePos, blockPos := "", ""
	blocks := 0
	for _, f := range t.jb.files {
		for _, d := range f.Decls {
			gd, ok := d.(*ast.GenDecl)
			if !ok {
				continue
			}
			inBlock := false
			for _, sp := range gd.Specs {
				switch x := sp.(type) {
				case *ast.TypeSpec:
					if x.Name.Name == "Status" {
						typePos = t.jb.pos(x)
					}
				case *ast.ValueSpec:
					if gd.Tok != token.CONST {
						continue
					}
					for _, n := range x.Names {
						c, ok := t.jb.info.Defs[n].(*types.Const)
						if !ok || !namedIs(c.Type(), jobPath, "Status") {
							continue
						}
						v, exact := constant.Int64Val(c.Val())
						if !exact {
							continue
						}
						cs = append(cs, sc{n.Name, v, n.Pos()})
						if !inBlock {
							inBlock = true
							blocks++
							blockPos = t.jb.pos(gd)
						}
					}
				}
			}
		}
	}
	sort.Slice(cs, func(i, j int) bool { return cs[i].pos < cs[j].pos })
	zero := ""
	distinct := map[int64]bool{}
	for _, c := range cs {
		if c.val == 0 && zero == "" {
			zero = c.name
		}
		distinct[c.val] = true
	}
	st, _ := t.jb.pkg.Scope().Lookup("Status").(*types.TypeName)
	isInt := false
	if st != nil {
		if b, ok := st.Type().Underlying().(*types.Basic); ok && b.Info()&types.IsInteger != 0 {
			isInt = true
		}
	}
	ok := isInt && len(cs) > 0 && blocks == 1 && zero != "" && len(distinct) == len(cs)
	t.idiom("status-consts", ok, fmt.Sprintf("`Status` is an integer type whose constants (%d) are declared in one block with distinct values, one of them 0", len(cs)))
	if !ok {
		// keep the file compiling: an empty enumeration cannot be the type of the struct fields
		t.statusDef = "inductive Status where\n  | StatusNA\n  | StatusOK\n  | StatusFailure\nderiving Repr, DecidableEq\n\ninstance : Inhabited Status := ⟨Status.StatusNA⟩\n\ndef Status.val : Status → Int\n  | _ => 0\n\n"
		return
	}
	var b strings.Builder
	fmt.Fprintf(&b, "/-- Go: %s `type Status int8`, the constants of the block at %s in source order -/\ninductive Status where\n", typePos, blockPos)
	for _, c := range cs {
		fmt.Fprintf(&b, "  | %s\n", c.name)
	}
	b.WriteString("deriving Repr, DecidableEq\n\n")
	fmt.Fprintf(&b, "/-- the zero value of `Status` (the constant with value 0) -/\ninstance : Inhabited Status := ⟨Status.%s⟩\n\n", zero)
	b.WriteString("/-- the Go value of each constant -/\ndef Status.val : Status → Int\n")
	for _, c := range cs {
		fmt.Fprintf(&b, "  | .%s => %d\n", c.name, c.val)
	}
	b.WriteString("\n")
	t.statusDef = b.String()
}

type lockInfo struct {
	locks, unlocks  []*ast.ExprStmt // top-level statements `<recv>.<mutex>.Lock()` / `.Unlock()` (R-variants included)
	nestedLocking   int             // lock/unlock calls that are not top-level statements (deferred ones excluded)
	deferredUnlocks []*ast.DeferStmt
	defers          int
}

func (t *translator) lockInfoOf(fd *ast.FuncDecl) lockInfo {
	var li lockInfo
	recv := t.recvObj(fd)
	isLockCall := func(c *ast.CallExpr) (string, bool) {
		s, ok := c.Fun.(*ast.SelectorExpr)
		if !ok {
			return "", false
		}
		if _, ok := t.fieldOf(s.X, recv); !ok || !isMutex(t.jb.info.TypeOf(s.X)) {
			return "", false
		}
		switch s.Sel.Name {
		case "Lock", "RLock":
			return "lock", true
		case "Unlock", "RUnlock":
			return "unlock", true
		}
		return "", false
	}
	top := map[*ast.CallExpr]bool{}
	for _, s := range fd.Body.List {
		switch x := s.(type) {
		case *ast.ExprStmt:
			if c, ok := x.X.(*ast.CallExpr); ok {
				if kind, ok := isLockCall(c); ok {
					top[c] = true
					if kind == "lock" {
						li.locks = append(li.locks, x)
					} else {
						li.unlocks = append(li.unlocks, x)
					}
				}
			}
		case *ast.DeferStmt:
			if kind, ok := isLockCall(x.Call); ok && kind == "unlock" {
				top[x.Call] = true
				li.deferredUnlocks = append(li.deferredUnlocks, x)
			}
		}
	}
	ast.Inspect(fd.Body, func(n ast.Node) bool {
		switch x := n.(type) {
		case *ast.DeferStmt:
			li.defers++
		case *ast.CallExpr:
			if _, ok := isLockCall(x); ok && !top[x] {
				li.nestedLocking++
			}
		}
		return true
	})
	return li
}

// guarded: position p of the method lies after a top-level Lock and before the matching top-level Unlock (or the
// unlock is deferred)
func (li lockInfo) guarded(p token.Pos) bool {
	if li.nestedLocking > 0 {
		return false
	}
	for _, l := range li.locks {
		if l.End() > p {
			continue
		}
		released := false
		for _, u := range li.unlocks {
			if u.Pos() > l.Pos() && u.End() <= p {
				released = true
			}
		}
		if !released {
			// still held at p: by a later top-level Unlock or a deferred one
			for _, u := range li.unlocks {
				if u.Pos() > p {
					return true
				}
			}
			for _, d := range li.deferredUnlocks {
				if d.Pos() > l.Pos() && d.End() <= p {
					return true
				}
			}
		}
	}
	return false
}

func (t *translator) analyze() {
	info := t.jb.info

	// facts: the mutable fields, and every access to one of them that is not under the receiver's mutex (whole package,
	// untranslated methods included)
	var mf []string
	for _, typ := range jobTypes {
		var fs []string
		for f := range t.mutable[typ] {
			fs = append(fs, f)
		}
		sort.Strings(fs)
		var q []string
		for _, f := range fs {
			q = append(q, leanString(f))
		}
		mf = append(mf, "("+leanString(typ)+", ["+strings.Join(q, ", ")+"])")
	}
	t.facts = append(t.facts, "/-- per job type: the fields that some method assigns (all others are set by the constructors only) -/\ndef mutableFields : List (String × List String) := ["+strings.Join(mf, ", ")+"]\n")

	var unguarded []string
	seenU := map[string]bool{}
	for _, typ := range jobTypes {
		for _, fd := range t.methodsOf(typ) {
			recv := t.recvObj(fd)
			li := t.lockInfoOf(fd)
			writes := map[ast.Expr]bool{}
			ast.Inspect(fd.Body, func(n ast.Node) bool {
				if as, ok := n.(*ast.AssignStmt); ok {
					for _, l := range as.Lhs {
						writes[l] = true
					}
				}
				return true
			})
			ast.Inspect(fd.Body, func(n ast.Node) bool {
				e, ok := n.(ast.Expr)
				if !ok {
					return true
				}
				f, ok := t.fieldOf(e, recv)
				if !ok || !t.mutable[typ][f] {
					return true
				}
				if !li.guarded(e.Pos()) {
					kind := "read"
					if writes[e] {
						kind = "write"
					}
					s := typ + "." + fd.Name.Name + ": " + kind + " " + f
					if !seenU[s] {
						seenU[s] = true
						unguarded = append(unguarded, leanString(s))
					}
				}
				return true
			})
		}
	}
	t.facts = append(t.facts, "/-- every access to a mutable field, in ANY method of the three job types, that is not between a top-level `Lock`/`RLock` of the\nreceiver's mutex and the matching (or deferred) unlock -/\ndef unguardedAccesses : List String := ["+strings.Join(unguarded, ", ")+"]\n")

	// idioms of the three Execute methods
	for _, typ := range jobTypes {
		fd := t.jb.funcDecl(typ, "Execute")
		if fd == nil || fd.Body == nil {
			t.idiom("critical-section "+typ, false, typ+".Execute not found")
			continue
		}
		li := t.lockInfoOf(fd)
		// shape A: the critical section is written out in Execute
		shapeA := len(li.locks) == 1 && len(li.unlocks) == 1 && li.nestedLocking == 0 && li.defers == 0 && li.locks[0].Pos() < li.unlocks[0].Pos()
		// shape B: Execute itself does no locking; it calls, in ONE top-level statement, ONE helper method of the same receiver whose
		// body starts with `Lock()` and `defer Unlock()` of the receiver's mutex and does no other locking: the critical section is the
		// rest of the helper's body, released on every exit (return or panic) before the helper's caller goes on
		var helper *ast.FuncDecl
		var helperStmt ast.Stmt
		var hdefer *ast.DeferStmt
		shapeB := false
		if !shapeA && len(li.locks) == 0 && len(li.unlocks) == 0 && len(li.deferredUnlocks) == 0 && li.nestedLocking == 0 && li.defers == 0 {
			helper, helperStmt = t.helperOf(fd)
			if helper != nil {
				hl := t.lockInfoOf(helper)
				if len(hl.locks) == 1 && len(hl.unlocks) == 0 && len(hl.deferredUnlocks) == 1 && hl.nestedLocking == 0 && hl.defers == 1 &&
					len(helper.Body.List) >= 2 && helper.Body.List[0] == ast.Stmt(hl.locks[0]) && helper.Body.List[1] == ast.Stmt(hl.deferredUnlocks[0]) &&
					t.sameMutex(hl.locks[0].X.(*ast.CallExpr), hl.deferredUnlocks[0].Call) && t.callersOf(typ, helper.Name.Name) == 1 {
					shapeB = true
					hdefer = hl.deferredUnlocks[0]
				}
			}
		}
		shape := shapeA || shapeB
		// bodies that make up one execution, and the positions inside the critical section
		bodies := []*ast.FuncDecl{fd}
		if shapeB {
			bodies = append(bodies, helper)
		}
		inside := func(p token.Pos) bool {
			switch {
			case shapeA:
				return li.locks[0].End() <= p && p < li.unlocks[0].Pos()
			case shapeB:
				return hdefer.End() <= p && p < helper.Body.Rbrace
			}
			return false
		}
		// in Execute's own text: where the mutex has been released / has not been taken yet
		var releasedAt, takenAt token.Pos
		switch {
		case shapeA:
			releasedAt, takenAt = li.unlocks[0].End(), li.locks[0].Pos()
		case shapeB:
			releasedAt, takenAt = helperStmt.End(), helperStmt.Pos()
		}
		storesOK, stores := true, 0
		for _, b := range bodies {
			recv := t.recvObj(b)
			ast.Inspect(b.Body, func(n ast.Node) bool {
				if as, ok := n.(*ast.AssignStmt); ok {
					for _, l := range as.Lhs {
						if _, ok := t.fieldOf(l, recv); ok {
							stores++
							if !inside(l.Pos()) {
								storesOK = false
							}
						}
					}
				}
				return true
			})
		}
		if shapeB {
			t.idiom("critical-section "+typ, storesOK && stores > 0,
				fmt.Sprintf("%s.Execute does no locking itself and calls %s.%s in one top-level statement (its only caller); %s starts with one Lock and a deferred Unlock of the receiver's mutex and does no other locking, and all %d assignments to receiver fields lie below that defer", typ, typ, helper.Name.Name, helper.Name.Name, stores))
		} else {
			t.idiom("critical-section "+typ, shape && storesOK && stores > 0,
				fmt.Sprintf("%s.Execute has exactly one Lock and one Unlock of its mutex, both top-level statements in this order, no defer, and all %d assignments to receiver fields lie between them", typ, stores))
		}

		// user calls and where they are
		type site struct {
			pos  token.Pos
			what string
			call *ast.CallExpr
		}
		var sites []site
		for _, b := range bodies {
			recv := t.recvObj(b)
			ast.Inspect(b.Body, func(n ast.Node) bool {
				c, ok := n.(*ast.CallExpr)
				if !ok {
					return true
				}
				s, ok := c.Fun.(*ast.SelectorExpr)
				if !ok {
					return true
				}
				if f, ok := t.fieldOf(s, recv); ok && isFuncType(info.TypeOf(s)) {
					sites = append(sites, site{c.Pos(), f, c})
				} else if sel, ok := info.Selections[s]; ok && sel.Kind() == types.MethodVal {
					if namedIs(info.TypeOf(s.X), jobPath, "HTTPHandler") && s.Sel.Name == "Do" {
						sites = append(sites, site{c.Pos(), "Do", c})
					} else if namedIs(info.TypeOf(s.X), "io", "ReadCloser") && s.Sel.Name == "Close" {
						sites = append(sites, site{c.Pos(), "Close", c})
					}
				}
				return true
			})
		}
		count := func(what string) (n int, first site) {
			for _, s := range sites {
				if s.what == what {
					if n == 0 {
						first = s
					}
					n++
				}
			}
			return
		}
		inExecute := func(p token.Pos) bool { return fd.Body.Lbrace < p && p < fd.Body.Rbrace }
		recv := t.recvObj(fd)
		if typ == "ShellJob" || typ == "CurlJob" {
			n, cb := count("callback")
			ok := n == 1 && shape && inExecute(cb.pos) && cb.pos > releasedAt
			// the one call site is the only statement of a top-level `if <recv>.callback != nil { … }` without else
			if ok {
				ok = false
				for _, s := range fd.Body.List {
					ifs, isIf := s.(*ast.IfStmt)
					if !isIf || ifs.Else != nil || ifs.Init != nil || len(ifs.Body.List) != 1 {
						continue
					}
					es, isE := ifs.Body.List[0].(*ast.ExprStmt)
					if !isE || es.X != ast.Expr(cb.call) {
						continue
					}
					be, isB := ifs.Cond.(*ast.BinaryExpr)
					if !isB || be.Op != token.NEQ || !t.isNilExpr(be.Y) {
						continue
					}
					if f, isF := t.fieldOf(be.X, recv); isF && f == "callback" {
						ok = true
					}
				}
			}
			after := "after the Unlock"
			if shapeB {
				after = "after the call of " + helper.Name.Name + " (which has released the mutex when it returns)"
			}
			t.idiom("callback-site "+typ, ok, fmt.Sprintf("%s.Execute calls its callback at exactly one site (found %d), the only statement of a top-level `if <job>.callback != nil`, %s", typ, n, after))
		}
		if typ == "CurlJob" {
			nc, cl := count("Close")
			nd, do := count("Do")
			ok := nc == 1 && nd == 1 && cl.pos < do.pos && inside(cl.pos) && inside(do.pos)
			where := "both between Lock and Unlock"
			if shapeB {
				where = "both in " + helper.Name.Name + " below the deferred Unlock"
			}
			t.idiom("close-before-do CurlJob", ok, fmt.Sprintf("CurlJob.Execute has one Body.Close() (found %d) and one httpClient.Do (found %d), the Close first, %s", nc, nd, where))
		}
		if typ == "FunctionJob" {
			n, fc := count("function")
			ok := n == 1 && shape && inExecute(fc.pos) && fc.pos < takenAt
			t.idiom("function-call FunctionJob", ok, fmt.Sprintf("FunctionJob.Execute calls f.function at exactly one site (found %d), before the Lock", n))
		}
	}
}

// helperOf: the single call `<recv>.<method>(…)` of a method of the receiver's own type in the body of `fd`, made by a top-level
// statement (`x := recv.m(…)`, `x = recv.m(…)` or `recv.m(…)`); nil when there is none or more than one
func (t *translator) helperOf(fd *ast.FuncDecl) (*ast.FuncDecl, ast.Stmt) {
	recv := t.recvObj(fd)
	typ := recvTypeName(fd)
	isSelfCall := func(c *ast.CallExpr) (string, bool) {
		s, ok := c.Fun.(*ast.SelectorExpr)
		if !ok {
			return "", false
		}
		id, ok := s.X.(*ast.Ident)
		if !ok || recv == nil || t.jb.info.Uses[id] != recv {
			return "", false
		}
		if sel, ok := t.jb.info.Selections[s]; !ok || sel.Kind() != types.MethodVal {
			return "", false
		}
		return s.Sel.Name, true
	}
	total := 0
	ast.Inspect(fd.Body, func(n ast.Node) bool {
		if c, ok := n.(*ast.CallExpr); ok {
			if _, ok := isSelfCall(c); ok {
				total++
			}
		}
		return true
	})
	if total != 1 {
		return nil, nil
	}
	for _, s := range fd.Body.List {
		var c *ast.CallExpr
		switch x := s.(type) {
		case *ast.ExprStmt:
			c, _ = x.X.(*ast.CallExpr)
		case *ast.AssignStmt:
			if len(x.Rhs) == 1 {
				c, _ = x.Rhs[0].(*ast.CallExpr)
			}
		}
		if c == nil {
			continue
		}
		if name, ok := isSelfCall(c); ok {
			if h := t.jb.funcDecl(typ, name); h != nil && h.Body != nil && h != fd {
				return h, s
			}
		}
	}
	return nil, nil
}

// callersOf: the number of call sites `<x>.<name>(…)` of the method `name` of `typ` in the package's non-test files
func (t *translator) callersOf(typ, name string) int {
	n := 0
	for _, f := range t.jb.files {
		ast.Inspect(f, func(m ast.Node) bool {
			c, ok := m.(*ast.CallExpr)
			if !ok {
				return true
			}
			s, ok := c.Fun.(*ast.SelectorExpr)
			if !ok || s.Sel.Name != name {
				return true
			}
			if sel, ok := t.jb.info.Selections[s]; ok && sel.Kind() == types.MethodVal {
				if tn, _, ok := t.jobStruct(sel.Recv()); ok && tn == typ {
					n++
				}
			}
			return true
		})
	}
	return n
}

// sameMutex: the two calls are methods of the same `<recv>.<field>`
func (t *translator) sameMutex(a, b *ast.CallExpr) bool {
	sa, ok1 := a.Fun.(*ast.SelectorExpr)
	sb, ok2 := b.Fun.(*ast.SelectorExpr)
	return ok1 && ok2 && t.src(sa.X) == t.src(sb.X)
}

func (t *translator) isNilExpr(e ast.Expr) bool {
	id, ok := e.(*ast.Ident)
	if !ok {
		return false
	}
	_, isNil := t.jb.info.Uses[id].(*types.Nil)
	return isNil
}
