// Command gotolean-jobs translates the built-in jobs of go-quartz
// (job/job_status.go, job/function_job.go, job/shell_job.go, job/curl_job.go:
// the Status constants, the three Execute methods, the accessors and the
// constructors) from the CURRENT working tree into Lean 4 definitions
// (namespace Generated.TransJobs).
//
// The code is straight-line control flow over user code and the runtime, so
// it is translated against explicit externals (`structure FnExt / ShExt /
// CuExt`: the user function, os/exec, the HTTP client, the response body's
// Close, the callbacks) that thread an abstract world `W`; mutex operations,
// reads and writes of the job's mutable fields and every external call are
// RECORDED as events in program order.  The job's fields are the state: a
// method that assigns receiver fields returns the updated receiver.
//
// The output is a function of the source AST: no function body is hard-coded
// here.  Hard-coded are (a) the list of functions/types to translate, (b) a
// fixed prelude, (c) the mapping of a handful of calls to externals/events
// and the idioms, each CHECKED against the source.  A failed check, or syntax
// outside the supported subset inside a listed function, puts an entry into
// `def missing : List String` (and the JSON report) and the function is
// emitted as a comment — never as a guessed body.
//
//	gotolean-jobs -repo /repo -out TransJobs.lean -json trans_jobs.json
package main

import (
	"crypto/sha256"
	"encoding/json"
	"flag"
	"fmt"
	"go/ast"
	"go/importer"
	"go/parser"
	"go/token"
	"go/types"
	"os"
	"path/filepath"
	"sort"
	"strings"
)

const (
	modulePath = "github.com/reugn/go-quartz"
	csmPath    = modulePath + "/internal/csm"
	loggerPath = modulePath + "/logger"
	quartzPath = modulePath + "/quartz"
	jobPath    = modulePath + "/job"
)

type pkgInfo struct {
	fset  *token.FileSet
	files []*ast.File
	info  *types.Info
	pkg   *types.Package
	dir   string
}

type chainImporter struct {
	known map[string]*types.Package
	next  types.Importer
}

func (c chainImporter) Import(path string) (*types.Package, error) {
	if p, ok := c.known[path]; ok {
		return p, nil
	}
	return c.next.Import(path)
}

func load(fset *token.FileSet, dir, path string, known map[string]*types.Package) (*pkgInfo, error) {
	pkgs, err := parser.ParseDir(fset, dir, func(fi os.FileInfo) bool { return !strings.HasSuffix(fi.Name(), "_test.go") }, parser.ParseComments)
	if err != nil {
		return nil, err
	}
	var files []*ast.File
	for _, p := range pkgs {
		var names []string
		for n := range p.Files {
			names = append(names, n)
		}
		sort.Strings(names)
		for _, n := range names {
			files = append(files, p.Files[n])
		}
	}
	info := &types.Info{
		Types:      map[ast.Expr]types.TypeAndValue{},
		Uses:       map[*ast.Ident]types.Object{},
		Defs:       map[*ast.Ident]types.Object{},
		Selections: map[*ast.SelectorExpr]*types.Selection{},
		Instances:  map[*ast.Ident]types.Instance{},
	}
	conf := types.Config{
		Importer: chainImporter{known, importer.ForCompiler(fset, "source", nil)},
		Error:    func(error) {}, // tolerate what cannot be resolved offline; untyped expressions fail later, per function
	}
	pkg, _ := conf.Check(path, fset, files, info)
	return &pkgInfo{fset, files, info, pkg, dir}, nil
}

type jsonFn struct {
	Go   string `json:"go"`
	Lean string `json:"lean"`
	Pos  string `json:"pos"`
	Kind string `json:"kind"`
	OK   bool   `json:"translated"`
	Why  string `json:"why,omitempty"`
}

type jsonOut struct {
	Repo      string            `json:"repo"`
	Files     []string          `json:"files"`
	Functions []jsonFn          `json:"functions"`
	Idioms    map[string]string `json:"idioms"`
	Missing   []string          `json:"missing"`
	SHA256    string            `json:"sha256"`
}

func main() {
	repo := flag.String("repo", "/repo", "go-quartz working tree")
	out := flag.String("out", "TransJobs.lean", "Lean output")
	jsonPath := flag.String("json", "", "JSON report")
	flag.Parse()

	fset := token.NewFileSet()
	known := map[string]*types.Package{}
	for _, p := range []struct{ dir, path string }{{"internal/csm", csmPath}, {"logger", loggerPath}, {"quartz", quartzPath}} {
		if pi, err := load(fset, filepath.Join(*repo, filepath.FromSlash(p.dir)), p.path, known); err == nil && pi.pkg != nil {
			known[p.path] = pi.pkg
		}
	}
	jb, err := load(fset, filepath.Join(*repo, "job"), jobPath, known)
	if err != nil {
		fmt.Fprintln(os.Stderr, "gotolean-jobs:", err)
		os.Exit(3)
	}

	t := newTranslator(fset, jb, *repo)
	text := t.run()

	if err := os.MkdirAll(filepath.Dir(*out), 0o755); err == nil {
		err = os.WriteFile(*out, []byte(text), 0o644)
	}
	if err != nil {
		fmt.Fprintln(os.Stderr, "gotolean-jobs:", err)
		os.Exit(3)
	}
	if *jsonPath != "" {
		jo := jsonOut{Repo: *repo, Files: t.sourceFiles, Functions: t.report, Idioms: t.idioms, Missing: t.missing, SHA256: fmt.Sprintf("%x", sha256.Sum256([]byte(text)))}
		if jo.Missing == nil {
			jo.Missing = []string{}
		}
		b, _ := json.MarshalIndent(jo, "", "  ")
		_ = os.WriteFile(*jsonPath, append(b, '\n'), 0o644)
	}
	fmt.Printf("gotolean-jobs: %d definitions, %d missing -> %s\n", len(t.report), len(t.missing), *out)
}

// helpers shared by the other files

func (p *pkgInfo) pos(n ast.Node) string {
	ps := p.fset.Position(n.Pos())
	rel := ps.Filename
	if i := strings.LastIndex(rel, "/job/"); i >= 0 {
		rel = rel[i+1:]
	}
	return fmt.Sprintf("%s:%d", rel, ps.Line)
}

func recvTypeName(fd *ast.FuncDecl) string {
	if fd.Recv == nil || len(fd.Recv.List) != 1 {
		return ""
	}
	ty := fd.Recv.List[0].Type
	if s, ok := ty.(*ast.StarExpr); ok {
		ty = s.X
	}
	if ix, ok := ty.(*ast.IndexExpr); ok {
		ty = ix.X
	}
	if id, ok := ty.(*ast.Ident); ok {
		return id.Name
	}
	return ""
}

func (p *pkgInfo) funcDecl(recv, name string) *ast.FuncDecl {
	for _, f := range p.files {
		for _, d := range f.Decls {
			fd, ok := d.(*ast.FuncDecl)
			if !ok || fd.Name.Name != name {
				continue
			}
			if recvTypeName(fd) == recv {
				return fd
			}
		}
	}
	return nil
}
