package main

import (
	"bytes"
	"fmt"
	"go/ast"
	"go/constant"
	"go/printer"
	"go/token"
	"go/types"
	"strconv"
	"strings"
)

// ---------------------------------------------------------------------------------------------
// small text helpers
// ---------------------------------------------------------------------------------------------

func ind(s string) string {
	lines := strings.Split(s, "\n")
	for i, l := range lines {
		if l != "" {
			lines[i] = "  " + l
		}
	}
	return strings.Join(lines, "\n")
}

func leanString(s string) string {
	return "\"" + strings.NewReplacer("\\", "\\\\", "\"", "\\\"", "\n", "\\n", "\t", "\\t").Replace(s) + "\""
}

func parenIf(s string) string {
	if strings.ContainsAny(s, " ") && !(strings.HasPrefix(s, "(") && strings.HasSuffix(s, ")") && balanced(s[1:len(s)-1])) {
		return "(" + s + ")"
	}
	return s
}

// balanced: the parentheses of s never close more than they opened (so "(" + s + ")" is one group)
func balanced(s string) bool {
	d := 0
	for _, c := range s {
		switch c {
		case '(':
			d++
		case ')':
			d--
			if d < 0 {
				return false
			}
		}
	}
	return d == 0
}

func tuple(parts []string) string {
	if len(parts) == 1 {
		return parts[0]
	}
	return "(" + strings.Join(parts, ", ") + ")"
}

func tupleType(parts []string) string {
	var q []string
	for _, p := range parts {
		if strings.Contains(p, "×") {
			p = "(" + p + ")"
		}
		q = append(q, p)
	}
	return strings.Join(q, " × ")
}

// proj is the projection of component j out of a right-nested n-tuple held in v
func proj(v string, j, n int) string {
	s := v
	for k := 0; k < j; k++ {
		s += ".2"
	}
	if j < n-1 {
		s += ".1"
	}
	return s
}

type unsupported struct{ msg string }

func (t *translator) fail(n ast.Node, format string, a ...any) {
	panic(unsupported{t.jb.pos(n) + ": " + fmt.Sprintf(format, a...)})
}

func (t *translator) src(n ast.Node) string {
	var b bytes.Buffer
	_ = printer.Fprint(&b, t.fset, n)
	return strings.Join(strings.Fields(b.String()), " ")
}

// ---------------------------------------------------------------------------------------------
// translator state
// ---------------------------------------------------------------------------------------------

type fieldInfo struct{ name, lean, zero, goType, skipped string }

type structInfo struct {
	name, pos, tparams string
	needInhabited      bool
	fields             []fieldInfo
}

type param struct{ name, typ string }

type translator struct {
	fset        *token.FileSet
	jb          *pkgInfo
	repo        string
	sourceFiles []string
	report      []jsonFn
	idioms      map[string]string
	idiomOrder  []string
	missing     []string

	structs    []*structInfo
	structSeen map[string]bool
	defs       []string
	facts      []string
	statusDef  string
	mutable    map[string]map[string]bool // type name → fields assigned in some method

	// per function
	fn        *ast.FuncDecl
	recv      types.Object
	recvName  string
	recvType  string
	pure      bool // no receiver: no state, no externals
	mutates   bool
	mayPanic  bool
	resTypes  []string
	rcount    int
	pre       []string
	topLevel  map[ast.Stmt]bool
	cmdVars   map[types.Object]bool // *exec.Cmd made by exec.CommandContext in this function
	ranCmd    map[types.Object]bool // … on which Run() has been called
	attached  map[string]bool       // buffers attached to a command
	localVals map[types.Object]bool // local struct values whose fields may be assigned (opts)
	deferred  bool                  // the function defers an unlock

	// methods already translated (by `<Type>.<name>`): what a call of one of them on the same receiver looks like
	done map[string]*doneFn
}

type doneFn struct {
	mutates, mayPanic bool
	resTypes          []string
	nparams           int
}

func newTranslator(fset *token.FileSet, jb *pkgInfo, repo string) *translator {
	return &translator{fset: fset, jb: jb, repo: repo, idioms: map[string]string{}, structSeen: map[string]bool{}, mutable: map[string]map[string]bool{}, done: map[string]*doneFn{}}
}

func (t *translator) miss(s string) { t.missing = append(t.missing, s) }

func (t *translator) idiom(name string, ok bool, msg string) {
	if _, seen := t.idioms[name]; !seen {
		t.idiomOrder = append(t.idiomOrder, name)
	}
	if ok {
		t.idioms[name] = "ok: " + msg
	} else {
		t.idioms[name] = "FAILED: " + msg
		t.miss("idiom " + name + ": " + msg)
	}
}

func (t *translator) fresh() string {
	t.rcount++
	return "r" + strconv.Itoa(t.rcount)
}

// the externals of a job type: structure name (with parameters) and the prefix of the `St.<prefix>…` helpers
var extOf = map[string]struct{ ext, prefix string }{
	"FunctionJob": {"FnExt W R", "fn"},
	"ShellJob":    {"ShExt W", "sh"},
	"CurlJob":     {"CuExt W", "cu"},
}

// ---------------------------------------------------------------------------------------------
// types
// ---------------------------------------------------------------------------------------------

func (t *translator) inJob(obj types.Object) bool {
	return obj != nil && obj.Pkg() != nil && obj.Pkg() == t.jb.pkg
}

func namedIs(ty types.Type, pkg, name string) bool {
	n, ok := ty.(*types.Named)
	if !ok {
		return false
	}
	o := n.Obj()
	if pkg == "" {
		return o.Pkg() == nil && o.Name() == name
	}
	return o.Pkg() != nil && o.Pkg().Path() == pkg && o.Name() == name
}

func ptrTo(ty types.Type, pkg, name string) bool {
	p, ok := ty.(*types.Pointer)
	return ok && namedIs(p.Elem(), pkg, name)
}

func isMutex(ty types.Type) bool {
	return namedIs(ty, "sync", "Mutex") || namedIs(ty, "sync", "RWMutex")
}

// isHandle: values that stand for parts of the outside world (a command, a buffer); they are not values of the
// translation — every operation on them goes through the externals / is a recorded event, named by the source text
func isHandle(ty types.Type) bool {
	return ty != nil && (ptrTo(ty, "os/exec", "Cmd") || namedIs(ty, "bytes", "Buffer"))
}

func isFuncType(ty types.Type) bool {
	if ty == nil {
		return false
	}
	_, ok := ty.Underlying().(*types.Signature)
	return ok
}

// jobStruct: ty is one of the package's struct types (or a pointer to one); returns its name
func (t *translator) jobStruct(ty types.Type) (string, *types.Named, bool) {
	if p, ok := ty.(*types.Pointer); ok {
		ty = p.Elem()
	}
	n, ok := ty.(*types.Named)
	if !ok || !t.inJob(n.Obj()) {
		return "", nil, false
	}
	if _, ok := n.Underlying().(*types.Struct); !ok {
		return "", nil, false
	}
	return n.Obj().Name(), n, true
}

func (t *translator) leanTypeOK(ty types.Type) (string, bool) {
	switch x := ty.(type) {
	case *types.TypeParam:
		return x.Obj().Name(), true
	case *types.Basic:
		switch {
		case x.Info()&types.IsInteger != 0:
			return "Int", true
		case x.Info()&types.IsBoolean != 0:
			return "Bool", true
		case x.Info()&types.IsString != 0:
			return "String", true
		}
	case *types.Signature:
		return "Option Ref", true
	case *types.Slice:
		if b, ok := x.Elem().(*types.Basic); ok && b.Kind() == types.Byte {
			return "Bytes", true
		}
	case *types.Named:
		obj := x.Obj()
		switch {
		case obj.Pkg() == nil && obj.Name() == "error":
			return "Option Err", true
		case namedIs(x, "context", "Context"):
			return "Ctx", true
		case namedIs(x, "io", "ReadCloser"):
			return "Option BodyRef", true
		case namedIs(x, jobPath, "Status"):
			return "Status", true
		}
		if name, n, ok := t.jobStruct(x); ok {
			t.requireStruct(name)
			s := name
			if ta := n.TypeArgs(); ta != nil {
				for i := 0; i < ta.Len(); i++ {
					a, ok := t.leanTypeOK(ta.At(i))
					if !ok {
						return "", false
					}
					s += " " + parenIf(a)
				}
			}
			return s, true
		}
		if t.inJob(obj) {
			switch x.Underlying().(type) {
			case *types.Signature, *types.Interface:
				return "Option Ref", true
			}
		}
	case *types.Pointer:
		switch {
		case namedIs(x.Elem(), "net/http", "Request"):
			return "Option Request", true
		case namedIs(x.Elem(), "net/http", "Response"):
			return "Option Response", true
		}
		if _, _, ok := t.jobStruct(x.Elem()); ok {
			return t.leanTypeOK(x.Elem()) // a pointer to a job IS the job's state, passed in and out
		}
	}
	return "", false
}

func (t *translator) leanType(n ast.Node, ty types.Type) string {
	if ty == nil {
		t.fail(n, "untyped expression")
	}
	s, ok := t.leanTypeOK(ty)
	if !ok {
		t.fail(n, "type %s is not translated", ty)
	}
	return s
}

func zeroOf(lean string) string {
	switch {
	case lean == "Int":
		return "0"
	case lean == "Bool":
		return "false"
	case lean == "String":
		return "\"\""
	case lean == "Ctx":
		return "0"
	case lean == "Bytes":
		return "[]"
	case strings.HasPrefix(lean, "Option "):
		return "none"
	}
	return "default"
}

func (t *translator) requireStruct(name string) {
	if t.structSeen[name] {
		return
	}
	t.structSeen[name] = true
	obj := t.jb.pkg.Scope().Lookup(name)
	if obj == nil {
		return
	}
	named, _ := obj.Type().(*types.Named)
	st, ok := obj.Type().Underlying().(*types.Struct)
	if !ok || named == nil {
		return
	}
	si := &structInfo{name: name}
	if tp := named.TypeParams(); tp != nil {
		for i := 0; i < tp.Len(); i++ {
			si.tparams += " (" + tp.At(i).Obj().Name() + " : Type)"
		}
	}
	for _, f := range t.jb.files {
		ast.Inspect(f, func(n ast.Node) bool {
			if ts, ok := n.(*ast.TypeSpec); ok && ts.Name.Name == name {
				si.pos = t.jb.pos(ts)
			}
			return true
		})
	}
	for i := 0; i < st.NumFields(); i++ {
		f := st.Field(i)
		fi := fieldInfo{name: f.Name(), goType: types.TypeString(f.Type(), func(p *types.Package) string { return p.Name() })}
		switch {
		case isMutex(f.Type()):
			fi.skipped = "a mutex is not a value: its operations are recorded events"
		case namedIs(f.Type(), "sync", "Once"):
			fi.skipped = "sync.Once is not translated"
		default:
			lt, ok := t.leanTypeOK(f.Type())
			if ok {
				fi.lean, fi.zero = lt, zeroOf(lt)
				if _, isTP := f.Type().(*types.TypeParam); isTP {
					si.needInhabited = true
					fi.zero = "" // no default value without an `Inhabited` instance: composite literals supply `default`
				}
			} else {
				fi.skipped = "type " + fi.goType + " is not translated"
			}
		}
		si.fields = append(si.fields, fi)
	}
	t.structs = append(t.structs, si)
}

// ---------------------------------------------------------------------------------------------
// expressions
// ---------------------------------------------------------------------------------------------

func (t *translator) isNil(e ast.Expr) bool {
	id, ok := e.(*ast.Ident)
	if !ok {
		return false
	}
	_, isNil := t.jb.info.Uses[id].(*types.Nil)
	return isNil
}

func (t *translator) isIntType(e ast.Expr) bool {
	ty := t.jb.info.TypeOf(e)
	if ty == nil {
		return false
	}
	b, ok := ty.Underlying().(*types.Basic)
	return ok && b.Info()&types.IsInteger != 0 && !namedIs(ty, jobPath, "Status")
}

func (t *translator) isRecv(e ast.Expr) bool {
	id, ok := e.(*ast.Ident)
	return ok && t.recv != nil && t.jb.info.Uses[id] == t.recv
}

// recvField: e is `<receiver>.<field>`; returns the field name
func (t *translator) recvField(e ast.Expr) (string, bool) {
	s, ok := e.(*ast.SelectorExpr)
	if !ok || !t.isRecv(s.X) {
		return "", false
	}
	if sel, ok := t.jb.info.Selections[s]; !ok || sel.Kind() != types.FieldVal {
		return "", false
	}
	return s.Sel.Name, true
}

func (t *translator) emit(ev string) {
	if t.pure {
		panic(unsupported{"an effect (" + ev + ") in a function translated as pure"})
	}
	t.pre = append(t.pre, "let σ := σ.emit ("+ev+")")
}

// handleName: e is a local handle variable (command, buffer); returns its source name
func (t *translator) handleName(e ast.Expr) (string, types.Object, bool) {
	id, ok := e.(*ast.Ident)
	if !ok {
		return "", nil, false
	}
	v, ok := t.jb.info.Uses[id].(*types.Var)
	if !ok || !isHandle(v.Type()) {
		return "", nil, false
	}
	return id.Name, v, true
}

func (t *translator) expr(e ast.Expr) string {
	info := t.jb.info
	if namedIs(info.TypeOf(e), jobPath, "Status") {
		if id, ok := e.(*ast.Ident); ok {
			if _, isConst := info.Uses[id].(*types.Const); isConst {
				return "Status." + id.Name
			}
		}
	} else if tv, ok := info.Types[e]; ok && tv.Value != nil {
		switch tv.Value.Kind() {
		case constant.Int:
			return tv.Value.ExactString()
		case constant.Bool:
			return strconv.FormatBool(constant.BoolVal(tv.Value))
		case constant.String:
			return leanString(constant.StringVal(tv.Value))
		}
	}
	switch x := e.(type) {
	case *ast.ParenExpr:
		return t.expr(x.X)
	case *ast.Ident:
		switch obj := info.Uses[x].(type) {
		case *types.Nil:
			return nilMark // resolved by coerceNil where the expected type is known
		case *types.Var:
			if obj == t.recv {
				return t.recvName
			}
			if isHandle(obj.Type()) {
				t.fail(x, "%s (a %s) is used as a value", x.Name, obj.Type())
			}
			if obj.Parent() == t.jb.pkg.Scope() {
				t.fail(x, "package-level variable %s", x.Name)
			}
			t.leanType(x, obj.Type())
			return x.Name
		}
		t.fail(x, "identifier %s", x.Name)
	case *ast.SelectorExpr:
		if id, ok := x.X.(*ast.Ident); ok {
			if pn, ok := info.Uses[id].(*types.PkgName); ok {
				if pn.Imported().Path() == "net/http" && x.Sel.Name == "DefaultClient" {
					return "(some httpDefaultClient)"
				}
				t.fail(x, "%s is not translated", t.src(x))
			}
		}
		sel, ok := info.Selections[x]
		if !ok || sel.Kind() != types.FieldVal {
			t.fail(x, "selector %s", t.src(x))
		}
		t.leanType(x, info.TypeOf(x)) // the field must have a translated type
		if f, ok := t.recvField(x); ok {
			if t.mutable[t.recvType][f] {
				t.emit("Event.read " + leanString(t.recvName+"."+f))
			}
			return t.recvName + "." + f
		}
		bt := info.TypeOf(x.X)
		switch {
		case ptrTo(bt, "net/http", "Response"):
			if x.Sel.Name != "StatusCode" && x.Sel.Name != "Body" {
				t.fail(x, "field %s of http.Response is not modelled", x.Sel.Name)
			}
			return "(deref " + t.atom(x.X) + ")." + x.Sel.Name
		}
		if _, _, ok := t.jobStruct(bt); ok {
			if _, isPtr := bt.(*types.Pointer); !isPtr {
				return t.atom(x.X) + "." + x.Sel.Name
			}
		}
		t.fail(x, "selector %s", t.src(x))
	case *ast.UnaryExpr:
		switch x.Op {
		case token.NOT:
			return "(!" + t.expr(x.X) + ")"
		case token.AND:
			if cl, ok := x.X.(*ast.CompositeLit); ok {
				return t.composite(cl)
			}
		}
	case *ast.CompositeLit:
		return t.composite(x)
	case *ast.BinaryExpr:
		switch x.Op {
		case token.EQL, token.NEQ:
			suffix := map[token.Token]string{token.EQL: ".isNone", token.NEQ: ".isSome"}[x.Op]
			if t.isNil(x.Y) {
				return t.optAtom(x.X) + suffix
			}
			if t.isNil(x.X) {
				return t.optAtom(x.Y) + suffix
			}
			if t.isIntType(x.X) {
				op := map[token.Token]string{token.EQL: "=", token.NEQ: "≠"}[x.Op]
				return "decide (" + t.expr(x.X) + " " + op + " " + t.expr(x.Y) + ")"
			}
		case token.LSS, token.LEQ, token.GTR, token.GEQ:
			if t.isIntType(x.X) && t.isIntType(x.Y) {
				op := map[token.Token]string{token.LSS: "<", token.LEQ: "≤", token.GTR: ">", token.GEQ: "≥"}[x.Op]
				return "decide ((" + t.expr(x.X) + " : Int) " + op + " " + t.expr(x.Y) + ")"
			}
		case token.LAND:
			return "(" + t.expr(x.X) + " && " + t.expr(x.Y) + ")"
		case token.LOR:
			return "(" + t.expr(x.X) + " || " + t.expr(x.Y) + ")"
		}
	case *ast.CallExpr:
		return t.callExpr(x)
	}
	t.fail(e, "expression %s is not translated", t.src(e))
	return ""
}

const nilMark = "nil!"

// coerceNil: Go's `nil` at a place whose Lean type is known
func (t *translator) coerceNil(n ast.Node, val, lean string) string {
	if val != nilMark {
		if strings.Contains(val, nilMark) {
			t.fail(n, "nil inside an expression")
		}
		return val
	}
	switch {
	case strings.HasPrefix(lean, "Option "):
		return "none"
	case lean == "Bytes":
		return "[]"
	}
	t.fail(n, "nil of type %s", lean)
	return ""
}

// optAtom: an expression compared with nil — its Lean type must be an Option
func (t *translator) optAtom(e ast.Expr) string {
	lt := t.leanType(e, t.jb.info.TypeOf(e))
	if !strings.HasPrefix(lt, "Option ") {
		t.fail(e, "%s (a %s) is compared with nil", t.src(e), t.jb.info.TypeOf(e))
	}
	return t.atom(e)
}

func (t *translator) atom(e ast.Expr) string { return parenIf(t.expr(e)) }

// composite: `T{f: v, …}` / `&T{…}` of one of the package's struct types, keyed; omitted fields take Go's zero values
// (the defaults of the Lean structure)
func (t *translator) composite(cl *ast.CompositeLit) string {
	ty := t.jb.info.TypeOf(cl)
	if _, _, ok := t.jobStruct(ty); !ok {
		t.fail(cl, "composite literal of type %s", ty)
	}
	lt := t.leanType(cl, ty)
	var fs []string
	given := map[string]bool{}
	for _, el := range cl.Elts {
		kv, ok := el.(*ast.KeyValueExpr)
		if !ok {
			t.fail(el, "composite literal without field names")
		}
		k, ok := kv.Key.(*ast.Ident)
		if !ok {
			t.fail(el, "composite literal key")
		}
		ft := t.leanType(kv.Value, t.jb.info.TypeOf(kv.Key))
		fs = append(fs, k.Name+" := "+t.coerceNil(kv.Value, t.expr(kv.Value), ft))
		given[k.Name] = true
	}
	if name, _, ok := t.jobStruct(ty); ok {
		for _, si := range t.structs {
			if si.name != name {
				continue
			}
			for _, f := range si.fields {
				if f.skipped == "" && f.zero == "" && !given[f.name] {
					fs = append(fs, f.name+" := default") // Go's zero value of the type parameter
				}
			}
		}
	}
	return "({ " + strings.Join(fs, ", ") + " } : " + lt + ")"
}

// callExpr: calls in expression position (pure reads of the world, pure prelude functions)
func (t *translator) callExpr(c *ast.CallExpr) string {
	info := t.jb.info
	if s, ok := c.Fun.(*ast.SelectorExpr); ok {
		// errors.New("…")
		if id, ok := s.X.(*ast.Ident); ok {
			if pn, ok := info.Uses[id].(*types.PkgName); ok && pn.Imported().Path() == "errors" && s.Sel.Name == "New" && len(c.Args) == 1 {
				if tv := info.Types[c.Args[0]]; tv.Value != nil && tv.Value.Kind() == constant.String {
					return "(some (Err.mk " + leanString(constant.StringVal(tv.Value)) + "))"
				}
			}
		}
		if sel, ok := info.Selections[s]; ok && sel.Kind() == types.MethodVal {
			// <buffer>.String()
			if name, _, ok := t.handleName(s.X); ok && namedIs(info.TypeOf(s.X), "bytes", "Buffer") && s.Sel.Name == "String" && len(c.Args) == 0 {
				if t.pure {
					t.fail(c, "buffer read in a pure function")
				}
				if !t.attached[name] {
					t.fail(c, "%s.String() of a buffer that was not attached to a command", name)
				}
				return "(X.bufferString σ.world " + leanString(name) + ")"
			}
			// <cmd>.ProcessState.ExitCode()
			if ps, ok := s.X.(*ast.SelectorExpr); ok && s.Sel.Name == "ExitCode" && ps.Sel.Name == "ProcessState" && len(c.Args) == 0 {
				if name, obj, ok := t.handleName(ps.X); ok && t.cmdVars[obj] {
					if !t.ranCmd[obj] {
						t.fail(c, "the exit code of %s is read before %s.Run()", name, name)
					}
					return "(X.exitCode σ.world " + leanString(name) + ")"
				}
			}
			// <*http.Request>.WithContext(ctx)
			if ptrTo(info.TypeOf(s.X), "net/http", "Request") && s.Sel.Name == "WithContext" && len(c.Args) == 1 {
				return "(Request.WithContext " + t.atom(s.X) + " " + t.atom(c.Args[0]) + ")"
			}
		}
	}
	t.fail(c, "call %s is not translated", t.src(c))
	return ""
}

// flush returns the hoisted effect lines (each terminated by a newline) and clears them
func (t *translator) flush() string {
	if len(t.pre) == 0 {
		return ""
	}
	s := strings.Join(t.pre, "\n") + "\n"
	t.pre = nil
	return s
}

// ---------------------------------------------------------------------------------------------
// statements, continuation-passing
// ---------------------------------------------------------------------------------------------

type kont struct {
	next func() string
	ret  func(n ast.Node, vals []string) string
	pnc  func(n ast.Node) string
}

func (t *translator) block(stmts []ast.Stmt, k kont) string {
	if len(stmts) == 0 {
		return k.next()
	}
	if d, ok := stmts[0].(*ast.DeferStmt); ok {
		// `defer <receiver>.mtx.Unlock()` among the top-level statements: the remaining statements run, then — on every
		// exit, after the results have been evaluated — the deferred call
		if !t.topLevel[d] {
			t.fail(d, "defer inside a nested block")
		}
		ev, ok := t.mutexCall(d.Call)
		if !ok {
			t.fail(d, "deferred call %s is not an unlock of the receiver's mutex", t.src(d.Call))
		}
		if !strings.Contains(ev, "unlock") {
			t.fail(d, "deferred call %s is not an unlock", t.src(d.Call))
		}
		deferred := "let σ := σ.emit (" + ev + ") -- deferred (" + t.jb.pos(d) + ")\n"
		dk := kont{
			next: func() string { return deferred + k.next() },
			ret: func(n ast.Node, vals []string) string {
				s := ""
				var tmp []string
				for i, v := range vals {
					if i >= len(t.resTypes) {
						t.fail(n, "return with %d values", len(vals))
					}
					name := "ret" + strconv.Itoa(i+1)
					s += "let " + name + " : " + t.resTypes[i] + " := " + v + "\n"
					tmp = append(tmp, name)
				}
				return s + deferred + k.ret(n, tmp)
			},
			// a panic below the `defer` (user code called there): Go runs the deferred call, then the panic goes on to the
			// caller — the deferred event is recorded on the panic path too
			pnc: func(n ast.Node) string {
				return "let σ := σ.emit (" + ev + ") -- deferred, on the panic path (" + t.jb.pos(d) + ")\n" + k.pnc(n)
			},
		}
		t.deferred = true
		return "-- " + t.jb.pos(d) + " `" + t.src(d) + "`\n" + t.block(stmts[1:], dk)
	}
	rest := kont{next: func() string { return t.block(stmts[1:], k) }, ret: k.ret, pnc: k.pnc}
	return t.stmt(stmts[0], rest)
}

// mutexCall: `<receiver>.<mutex field>.Lock()` etc. → the event
func (t *translator) mutexCall(c *ast.CallExpr) (string, bool) {
	s, ok := c.Fun.(*ast.SelectorExpr)
	if !ok || len(c.Args) != 0 {
		return "", false
	}
	f, ok := t.recvFieldAny(s.X)
	if !ok || !isMutex(t.jb.info.TypeOf(s.X)) {
		return "", false
	}
	ev, ok := map[string]string{"Lock": "lock", "Unlock": "unlock", "RLock": "rlock", "RUnlock": "runlock"}[s.Sel.Name]
	if !ok {
		return "", false
	}
	return "Event." + ev + " " + leanString(t.recvName+"."+f), true
}

// recvFieldAny: like recvField, but the field may be of an untranslated type (mutex)
func (t *translator) recvFieldAny(e ast.Expr) (string, bool) {
	s, ok := e.(*ast.SelectorExpr)
	if !ok || !t.isRecv(s.X) {
		return "", false
	}
	return s.Sel.Name, true
}

// stmt: the Lean term for `s` followed by `k.next` (the rest of the block and what follows it)
func (t *translator) stmt(s ast.Stmt, k kont) string {
	switch x := s.(type) {
	case *ast.EmptyStmt:
		return k.next()
	case *ast.BlockStmt:
		return t.block(x.List, k)
	case *ast.ReturnStmt:
		if len(x.Results) == 1 {
			if c, ok := x.Results[0].(*ast.CallExpr); ok {
				if vals, head, ok := t.effectCall(c, k); ok {
					return head + k.ret(x, vals)
				}
			}
		}
		var vals []string
		for i, r := range x.Results {
			if i >= len(t.resTypes) {
				t.fail(x, "return with %d values", len(x.Results))
			}
			vals = append(vals, t.coerceNil(r, t.expr(r), t.resTypes[i]))
		}
		return t.flush() + k.ret(x, vals)
	case *ast.ExprStmt:
		c, ok := x.X.(*ast.CallExpr)
		if !ok {
			t.fail(x, "expression statement %s", t.src(x))
		}
		return t.callStmt(c, nil, token.ILLEGAL, k)
	case *ast.AssignStmt:
		return t.assign(x, k)
	case *ast.DeclStmt:
		return t.declStmt(x, k)
	case *ast.IfStmt:
		if x.Init != nil {
			t.fail(x.Init, "if-initialiser %s", t.src(x.Init))
		}
		cond := t.expr(x.Cond)
		head := t.flush()
		if !t.leaves(x) {
			// no branch leaves the function: the branches yield the variables they assign, the statements after the
			// `if` follow once
			vars := t.assignedIn(x)
			var parts []string
			if !t.pure {
				parts = append(parts, "σ")
			}
			parts = append(parts, vars...)
			if len(parts) == 0 {
				return head + k.next() // nothing happens in either branch
			}
			jk := kont{next: func() string { return tuple(parts) }, ret: k.ret, pnc: k.pnc}
			thenS := t.block(x.Body.List, jk)
			var elseS string
			switch e := x.Else.(type) {
			case nil:
				elseS = jk.next()
			case *ast.BlockStmt:
				elseS = t.block(e.List, jk)
			case *ast.IfStmt:
				elseS = t.stmt(e, jk)
			default:
				t.fail(x.Else, "else branch")
			}
			r := t.fresh()
			out := head + "let " + r + " :=\n" + ind("if "+cond+" then\n"+ind(thenS)+"\nelse\n"+ind(elseS)) + "\n"
			for i, p := range parts {
				out += "let " + p + " := " + proj(r, i, len(parts)) + "\n"
			}
			return out + k.next()
		}
		thenS := t.block(x.Body.List, k)
		var elseS string
		switch e := x.Else.(type) {
		case nil:
			elseS = k.next()
		case *ast.BlockStmt:
			elseS = t.block(e.List, k)
		case *ast.IfStmt:
			elseS = t.stmt(e, k)
		default:
			t.fail(x.Else, "else branch")
		}
		return head + "if " + cond + " then\n" + ind(thenS) + "\nelse\n" + ind(elseS)
	case *ast.DeferStmt:
		t.fail(x, "defer inside a nested block")
	}
	t.fail(s, "statement %T is not translated", s)
	return ""
}

// leaves: can control leave the function from inside the statement (a `return`, or a call of user code that may panic)?
func (t *translator) leaves(n ast.Node) bool {
	found := false
	ast.Inspect(n, func(m ast.Node) bool {
		switch y := m.(type) {
		case *ast.ReturnStmt:
			found = true
		case *ast.CallExpr:
			if _, _, ok := t.userCallProbe(y); ok {
				found = true
			}
		}
		return true
	})
	return found
}

// assignedIn: the variables declared outside `n` that `n` assigns (the receiver when one of its fields is assigned, a
// local struct value when one of its fields is assigned, plain locals), in order of first assignment
func (t *translator) assignedIn(n ast.Node) []string {
	info := t.jb.info
	var out []string
	seen := map[string]bool{}
	add := func(name string) {
		if !seen[name] {
			seen[name] = true
			out = append(out, name)
		}
	}
	ast.Inspect(n, func(m ast.Node) bool {
		as, ok := m.(*ast.AssignStmt)
		if !ok {
			return true
		}
		for _, l := range as.Lhs {
			if _, ok := t.recvField(l); ok {
				add(t.recvName)
				continue
			}
			var id *ast.Ident
			switch y := l.(type) {
			case *ast.Ident:
				id = y
			case *ast.SelectorExpr:
				id, _ = y.X.(*ast.Ident)
			}
			if id == nil || id.Name == "_" {
				continue
			}
			v, ok := info.Uses[id].(*types.Var)
			if !ok || v.IsField() || isHandle(v.Type()) {
				continue
			}
			if v.Pos() >= n.Pos() && v.Pos() < n.End() {
				continue // declared inside
			}
			add(id.Name)
		}
		return true
	})
	return out
}

// declStmt: `var zero R`, `var err error`, `var stdout, stderr bytes.Buffer`
func (t *translator) declStmt(x *ast.DeclStmt, k kont) string {
	gd, ok := x.Decl.(*ast.GenDecl)
	if !ok || gd.Tok != token.VAR {
		t.fail(x, "declaration %s", t.src(x))
	}
	s := ""
	for _, sp := range gd.Specs {
		vs := sp.(*ast.ValueSpec)
		if len(vs.Values) != 0 {
			t.fail(x, "var with initialiser")
		}
		for _, n := range vs.Names {
			v := t.jb.info.Defs[n].(*types.Var)
			if namedIs(v.Type(), "bytes", "Buffer") {
				t.emit("Event.newBuffer " + leanString(n.Name))
				s += t.flush()
				continue
			}
			lt := t.leanType(n, v.Type())
			s += "let " + n.Name + " : " + lt + " := " + zeroOf(lt) + "\n"
		}
	}
	return s + k.next()
}

// effectCall: a call that goes through an external and yields values (bound to a fresh variable); returns the value
// expressions and the head lines.  Calls of user code can panic: those are handled in callStmt.
func (t *translator) effectCall(c *ast.CallExpr, k kont) (vals []string, head string, ok bool) {
	info := t.jb.info
	switch f := c.Fun.(type) {
	case *ast.Ident:
		// getShell()
		if fn, isFn := info.Uses[f].(*types.Func); isFn && t.inJob(fn) && fn.Name() == "getShell" && len(c.Args) == 0 && t.recvType == "ShellJob" {
			r := t.fresh()
			return []string{r + ".2"}, "let " + r + " := σ.shGetShell X\nlet σ := " + r + ".1\n", true
		}
	case *ast.SelectorExpr:
		// <cmd>.Run()
		if name, obj, isH := t.handleName(f.X); isH && t.cmdVars[obj] && f.Sel.Name == "Run" && len(c.Args) == 0 {
			if t.ranCmd[obj] {
				t.fail(c, "%s.Run() is called twice", name)
			}
			t.ranCmd[obj] = true
			r := t.fresh()
			return []string{r + ".2"}, "let " + r + " := σ.shRun X " + leanString(name) + "\nlet σ := " + r + ".1\n", true
		}
		// httputil.DumpResponse(resp, body)
		if id, isId := f.X.(*ast.Ident); isId {
			if pn, isPkg := info.Uses[id].(*types.PkgName); isPkg && pn.Imported().Path() == "net/http/httputil" && f.Sel.Name == "DumpResponse" && len(c.Args) == 2 && t.recvType == "CurlJob" {
				a0, a1 := t.atom(c.Args[0]), t.atom(c.Args[1])
				r := t.fresh()
				return []string{r + ".2.1", r + ".2.2"}, t.flush() + "let " + r + " := σ.cuDumpResponse X " + a0 + " " + a1 + "\nlet σ := " + r + ".1\n", true
			}
		}
	}
	return nil, "", false
}

// userCall: a call of user code (it can panic): the function / callback held in a receiver field, the HTTP client's Do,
// the response body's Close.  Returns the helper application and the number of results.
func (t *translator) userCall(c *ast.CallExpr) (app string, nres int, ok bool) {
	info := t.jb.info
	s, isSel := c.Fun.(*ast.SelectorExpr)
	if !isSel {
		return "", 0, false
	}
	prefix := extOf[t.recvType].prefix
	// <receiver>.<func field>(args…)
	if f, isF := t.recvField(s); isF && isFuncType(info.TypeOf(s)) {
		sig := info.TypeOf(s).Underlying().(*types.Signature)
		var args []string
		for _, a := range c.Args {
			args = append(args, t.atom(a))
		}
		helper := map[string]string{"FunctionJob.function": "fnFunction", "ShellJob.callback": "shCallback", "CurlJob.callback": "cuCallback"}[t.recvType+"."+f]
		if helper == "" {
			t.fail(c, "call of the function field %s.%s has no external", t.recvType, f)
		}
		return "σ." + helper + " X " + strings.Join(args, " "), sig.Results().Len(), true
	}
	sel, isM := info.Selections[s]
	if !isM || sel.Kind() != types.MethodVal {
		return "", 0, false
	}
	// <receiver>.httpClient.Do(req)
	if f, isF := t.recvField(s.X); isF && namedIs(info.TypeOf(s.X), jobPath, "HTTPHandler") && s.Sel.Name == "Do" && len(c.Args) == 1 && prefix == "cu" {
		arg := t.atom(c.Args[0])
		return "σ.cuDo X " + t.recvName + "." + f + " " + arg, 2, true
	}
	// <io.ReadCloser>.Close()
	if namedIs(info.TypeOf(s.X), "io", "ReadCloser") && s.Sel.Name == "Close" && len(c.Args) == 0 && prefix == "cu" {
		return "σ.cuCloseBody X " + t.atom(s.X), 1, true
	}
	return "", 0, false
}

// selfCall: `<receiver>.<method>(args…)` where the method is a method of the receiver's type declared in this package
// (a helper of the same job, e.g. `cu.do(ctx)`); `d` is nil when that method has not been translated
func (t *translator) selfCall(c *ast.CallExpr) (name string, d *doneFn, ok bool) {
	s, isSel := c.Fun.(*ast.SelectorExpr)
	if !isSel || !t.isRecv(s.X) || t.recvType == "" {
		return "", nil, false
	}
	sel, isM := t.jb.info.Selections[s]
	if !isM || sel.Kind() != types.MethodVal {
		return "", nil, false
	}
	fn, isFn := sel.Obj().(*types.Func)
	if !isFn || !t.inJob(fn) {
		return "", nil, false
	}
	name = t.recvType + "." + s.Sel.Name
	return name, t.done[name], true
}

// selfCallStmt: the Lean term for a call of a translated method on the same receiver, as a statement or as the single
// right-hand side of an assignment: the callee's definition is applied to the current state and receiver; the updated
// receiver (if the callee assigns fields) replaces the current one — also when the callee panics
func (t *translator) selfCallStmt(c *ast.CallExpr, name string, d *doneFn, lhs []ast.Expr, tok token.Token, k kont) string {
	if d == nil {
		t.fail(c, "call of %s, which is not translated", name)
	}
	if len(c.Args) != d.nparams {
		t.fail(c, "%d arguments for %s", len(c.Args), name)
	}
	if lhs != nil && len(lhs) != len(d.resTypes) {
		t.fail(c, "%d results assigned to %d variables", len(d.resTypes), len(lhs))
	}
	var args []string
	for _, a := range c.Args {
		args = append(args, t.atom(a))
	}
	r := t.fresh()
	app := name + " X σ " + t.recvName
	if len(args) > 0 {
		app += " " + strings.Join(args, " ")
	}
	head := t.flush() + "let " + r + " := " + app + "\nlet σ := " + r + ".1\n"
	rest := r + ".2"
	if d.mutates {
		if !t.mutates {
			t.fail(c, "internal: call of a method that assigns receiver fields in a function not marked as mutating")
		}
		head += "let " + t.recvName + " := " + r + ".2.1\n"
		rest = r + ".2.2"
	}
	n := len(d.resTypes)
	if d.mayPanic {
		if !t.mayPanic {
			t.fail(c, "internal: call of a method that may panic in a function not marked as possibly panicking")
		}
		pat, binds := "_", ""
		if lhs != nil {
			pat = r + "v"
			var vals []string
			for i := range lhs {
				vals = append(vals, proj(pat, i, n))
			}
			binds = t.bindAll(c, lhs, tok == token.DEFINE, vals)
		}
		return head + "(match " + rest + " with\n| .panicked =>\n" + ind(k.pnc(c)) + "\n| .returned " + pat + " =>\n" + ind(binds+k.next()) + ")"
	}
	if lhs == nil {
		return head + k.next()
	}
	var vals []string
	for i := range lhs {
		vals = append(vals, proj("("+rest+")", i, n))
	}
	return head + t.bindAll(c, lhs, tok == token.DEFINE, vals) + k.next()
}

// bindAll: assign the values to the left-hand sides (receiver fields: write event + updated receiver; local
// variables: `let`; `_`: dropped).  Go evaluates the right-hand sides first, then assigns left to right.
func (t *translator) bindAll(x ast.Node, lhs []ast.Expr, define bool, vals []string) string {
	info := t.jb.info
	var writes, updates []string
	s := ""
	for i, l := range lhs {
		if f, ok := t.recvField(l); ok {
			vals[i] = t.coerceNil(l, vals[i], t.leanType(l, info.TypeOf(l)))
			if !t.mutable[t.recvType][f] {
				t.fail(l, "internal: %s.%s is assigned but not registered as mutable", t.recvType, f)
			}
			writes = append(writes, "let σ := σ.emit (Event.write "+leanString(t.recvName+"."+f)+")\n")
			updates = append(updates, f+" := "+vals[i])
			continue
		}
		if sx, ok := l.(*ast.SelectorExpr); ok {
			// a field of a local struct value (`opts.HTTPClient = …`)
			if id, ok := sx.X.(*ast.Ident); ok {
				if v, ok := info.Uses[id].(*types.Var); ok && !v.IsField() && v != t.recv && v.Parent() != t.jb.pkg.Scope() {
					if _, _, isJS := t.jobStruct(v.Type()); isJS {
						if _, isPtr := v.Type().(*types.Pointer); !isPtr {
							vals[i] = t.coerceNil(l, vals[i], t.leanType(l, info.TypeOf(l)))
							s += "let " + id.Name + " := { " + id.Name + " with " + sx.Sel.Name + " := " + vals[i] + " }\n"
							continue
						}
					}
				}
			}
			t.fail(l, "assignment to %s", t.src(l))
		}
		id, ok := l.(*ast.Ident)
		if !ok {
			t.fail(l, "assignment to %s", t.src(l))
		}
		if id.Name == "_" {
			continue
		}
		obj := info.Defs[id]
		if obj == nil {
			obj = info.Uses[id]
		}
		v, ok := obj.(*types.Var)
		if !ok || v.IsField() || v.Parent() == t.jb.pkg.Scope() || v == t.recv {
			t.fail(l, "assignment to something that is not a local variable")
		}
		s += "let " + id.Name + " : " + t.leanType(l, v.Type()) + " := " + t.coerceNil(l, vals[i], t.leanType(l, v.Type())) + "\n"
	}
	if len(updates) > 0 {
		t.mutates = true
		s = strings.Join(writes, "") + "let " + t.recvName + " := { " + t.recvName + " with " + strings.Join(updates, ", ") + " }\n" + s
	}
	return s
}

// callStmt: a call as a statement, or as the single right-hand side of an assignment to `lhs`
func (t *translator) callStmt(c *ast.CallExpr, lhs []ast.Expr, tok token.Token, k kont) string {
	if lhs == nil {
		if ev, ok := t.mutexCall(c); ok {
			t.emit(ev)
			return t.flush() + k.next()
		}
	}
	if name, d, ok := t.selfCall(c); ok {
		return t.selfCallStmt(c, name, d, lhs, tok, k)
	}
	if app, nres, ok := t.userCall(c); ok {
		if lhs != nil && len(lhs) != nres {
			t.fail(c, "%d results assigned to %d variables", nres, len(lhs))
		}
		if !t.mayPanic {
			t.fail(c, "internal: user call in a function not marked as possibly panicking")
		}
		r := t.fresh()
		head := t.flush() + "let " + r + " := " + app + "\nlet σ := " + r + ".1\n"
		pat, binds := "_", ""
		if lhs != nil {
			pat = r + "v"
			var vals []string
			for i := range lhs {
				vals = append(vals, proj(pat, i, nres))
			}
			binds = t.bindAll(c, lhs, tok == token.DEFINE, vals)
		}
		return head + "(match " + r + ".2 with\n| .panicked =>\n" + ind(k.pnc(c)) + "\n| .returned " + pat + " =>\n" + ind(binds+k.next()) + ")"
	}
	if vals, head, ok := t.effectCall(c, k); ok {
		if lhs == nil {
			return head + k.next()
		}
		if len(lhs) != len(vals) {
			t.fail(c, "%d results assigned to %d variables", len(vals), len(lhs))
		}
		return head + t.bindAll(c, lhs, tok == token.DEFINE, vals) + k.next()
	}
	t.fail(c, "call %s is not translated", t.src(c))
	return ""
}

func (t *translator) assign(x *ast.AssignStmt, k kont) string {
	info := t.jb.info
	if x.Tok != token.DEFINE && x.Tok != token.ASSIGN {
		t.fail(x, "assignment operator %s", x.Tok)
	}
	// `cmd := exec.CommandContext(ctx, shell, args…)`
	if len(x.Lhs) == 1 && len(x.Rhs) == 1 {
		if c, ok := x.Rhs[0].(*ast.CallExpr); ok {
			if s, ok := c.Fun.(*ast.SelectorExpr); ok {
				if id, ok := s.X.(*ast.Ident); ok {
					if pn, ok := info.Uses[id].(*types.PkgName); ok && pn.Imported().Path() == "os/exec" && s.Sel.Name == "CommandContext" {
						lid, ok := x.Lhs[0].(*ast.Ident)
						if !ok || x.Tok != token.DEFINE || len(c.Args) < 2 {
							t.fail(x, "exec.CommandContext is not bound to a new local variable")
						}
						t.cmdVars[info.Defs[lid]] = true
						ctx := t.atom(c.Args[0])
						name := t.atom(c.Args[1])
						var args []string
						for _, a := range c.Args[2:] {
							args = append(args, t.expr(a))
						}
						t.emit("Event.command " + leanString(lid.Name) + " " + ctx + " " + name + " [" + strings.Join(args, ", ") + "]")
						return t.flush() + k.next()
					}
				}
			}
		}
		// `<cmd>.Stdout = io.Writer(&<buffer>)`
		if s, ok := x.Lhs[0].(*ast.SelectorExpr); ok && x.Tok == token.ASSIGN {
			if cname, obj, ok := t.handleName(s.X); ok && t.cmdVars[obj] {
				if t.ranCmd[obj] {
					t.fail(x, "%s is configured after %s.Run()", cname, cname)
				}
				buf := ""
				if c, ok := x.Rhs[0].(*ast.CallExpr); ok && len(c.Args) == 1 {
					if tv, ok := info.Types[c.Fun]; ok && tv.IsType() && namedIs(tv.Type, "io", "Writer") {
						if u, ok := c.Args[0].(*ast.UnaryExpr); ok && u.Op == token.AND {
							if b, _, ok := t.handleName(u.X); ok {
								buf = b
							}
						}
					}
				}
				if buf == "" || (s.Sel.Name != "Stdout" && s.Sel.Name != "Stderr") {
					t.fail(x, "assignment %s is not `<cmd>.Stdout/Stderr = io.Writer(&<buffer>)`", t.src(x))
				}
				t.attached[buf] = true
				t.emit("Event.attach " + leanString(cname+"."+s.Sel.Name) + " " + leanString(buf))
				return t.flush() + k.next()
			}
		}
	}
	if len(x.Rhs) == 1 {
		if c, ok := x.Rhs[0].(*ast.CallExpr); ok {
			if _, _, isSelf := t.selfCall(c); isSelf {
				return t.callStmt(c, x.Lhs, x.Tok, k)
			}
			if _, _, isUser := t.userCallProbe(c); isUser {
				return t.callStmt(c, x.Lhs, x.Tok, k)
			}
			if _, _, isEff := t.effectProbe(c); isEff {
				return t.callStmt(c, x.Lhs, x.Tok, k)
			}
		}
	}
	if len(x.Lhs) != len(x.Rhs) {
		t.fail(x, "assignment %s", t.src(x))
	}
	var vals []string
	for _, r := range x.Rhs {
		vals = append(vals, t.expr(r))
	}
	head := t.flush()
	return head + t.bindAll(x, x.Lhs, x.Tok == token.DEFINE, vals) + k.next()
}

// the probes classify a call without side effects on the translator state
func (t *translator) userCallProbe(c *ast.CallExpr) (string, int, bool) {
	savePre, saveR := t.pre, t.rcount
	defer func() { t.pre, t.rcount = savePre, saveR }()
	ok := false
	func() {
		defer func() {
			if r := recover(); r != nil {
				if _, isU := r.(unsupported); !isU {
					panic(r)
				}
				ok = true // it IS such a call; the real translation will report the problem
			}
		}()
		_, _, ok = t.userCall(c)
	}()
	if !ok {
		// a method of the same receiver that calls user code can panic as well (an untranslated one: assume it can)
		if _, d, isSelf := t.selfCall(c); isSelf && (d == nil || d.mayPanic) {
			ok = true
		}
	}
	return "", 0, ok
}

func (t *translator) effectProbe(c *ast.CallExpr) (string, int, bool) {
	info := t.jb.info
	switch f := c.Fun.(type) {
	case *ast.Ident:
		if fn, isFn := info.Uses[f].(*types.Func); isFn && t.inJob(fn) && fn.Name() == "getShell" {
			return "", 0, true
		}
	case *ast.SelectorExpr:
		if _, obj, isH := t.handleName(f.X); isH && t.cmdVars[obj] && f.Sel.Name == "Run" {
			return "", 0, true
		}
		if id, isId := f.X.(*ast.Ident); isId {
			if pn, isPkg := info.Uses[id].(*types.PkgName); isPkg && pn.Imported().Path() == "net/http/httputil" {
				return "", 0, true
			}
		}
	}
	return "", 0, false
}

// scanUser: do the statements call user code (function / callback fields, Do, Close)?
func (t *translator) scanUser(body *ast.BlockStmt) bool {
	found := false
	ast.Inspect(body, func(n ast.Node) bool {
		if c, ok := n.(*ast.CallExpr); ok {
			if _, _, ok := t.userCallProbe(c); ok {
				found = true
			}
		}
		return true
	})
	return found
}

// scanMutates: does the function assign a field of its receiver?
func (t *translator) scanMutates(body *ast.BlockStmt) bool {
	found := false
	ast.Inspect(body, func(n ast.Node) bool {
		if as, ok := n.(*ast.AssignStmt); ok {
			for _, l := range as.Lhs {
				if _, ok := t.recvFieldAny(l); ok {
					found = true
				}
			}
		}
		if c, ok := n.(*ast.CallExpr); ok {
			if _, d, isSelf := t.selfCall(c); isSelf && d != nil && d.mutates {
				found = true // the callee's updated receiver is taken over
			}
		}
		return true
	})
	return found
}
